import Pyunicorn.Lemmas.SurrogatesPerm
import Pyunicorn.Lemmas.SurrogatesPhase
import Pyunicorn.Lemmas.SurrogatesTwins
import Pyunicorn.Lemmas.SurrogatesCompose
import Pyunicorn.Lemmas.SurrogatesSpectrum
import Pyunicorn.Lemmas.SurrogatesKernel
import Pyunicorn.Lemmas.SurrogatesKernelW
import Pyunicorn.Lemmas.SurrogatesObject
import Pyunicorn.Lemmas.SurrogatesTies
import Pyunicorn.Lemmas.SurrogatesArgsort
import Pyunicorn.Lemmas.SurrogatesMethod
import Pyunicorn.Lemmas.SurrogatesCoupling
import Pyunicorn.Lemmas.SurrogatesCouplingStep
import Pyunicorn.Lemmas.SurrogatesWalkK
import Pyunicorn.Generated.StructC15
/-!
# C15 — Surrogates preserve exactly what each method promises

Theorems about `Pyunicorn.Model.Surrogates` (the model of `surrogates.py`,
`RecurrencePlot.twins/twin_surrogates` and the kernels `_twins_s`, `_twins_r`,
`_twin_surrogates_s`, `_twin_surrogates_r`).  Everything the model takes as an
*input* — the permutation numpy's shuffle applies, the arrays `irfft` returns,
the phases, the `random.random()` stream — is universally quantified here and
recorded / fed by the harness in the correspondence.

Clauses of the statement and where they are:

* shuffle surrogates are row-wise permutations ............ `shuffle_perm`, `fisherYates_shuffle_perm`
* Fourier surrogates keep the amplitudes ................... `fourier_surrogates_keep_amplitudes` (full:
  the list model of the phase multiplication composed with the real DFT pair `DFT.rfft` / `DFT.irfft`,
  whose round trip is `rfft_irfft_round_trip`; numpy.fft computing that pair up to rounding is the
  remaining trusted fact), `fourier_spectrum_every_call`, `phase_multiplication_norm`,
  `rot_is_multiplication_by_exp`
* (refined) AAFT 'true amplitudes' is a row permutation ..... `remap_perm`, `aaft_true_amplitudes_perm`,
  `refined_true_amplitudes_perm` (every number of iterations, every intermediate array)
* 'true spectrum' has the original amplitudes ............... `true_spectrum_keeps_amplitudes` (every bin, DC and
  Nyquist included, every refinement step), `true_spectrum_entry_modulus`, `spec_in_is_amps_times_unit_phase`
* twins are exactly the separated states with identical neighbourhoods
  ............................................................ `twins_iff`, `twins_symm`, `rp_twins_iff`,
  `near_iff`, `recurrence_entry`
* twin surrogates consist of original states, each followed by its own / a twin's successor
  ............................................................ `walk_step`, `walk_states_original_and_successor`,
  `rp_walk_states_original_and_successor`, `twin_walk_on_twin_lists`, `walk_step_exact` (which successor,
  restart exactly when it is missing), `twin_surrogates_method` (the method as a whole: embedding, twin
  search per series, walk on the shared stream, read-out), `twin_surrogates_loop_level` (the same for the
  loop-level model of the kernels with the source's index arithmetic and arbitrary work-array content)
* repeated generation does not degrade ...................... the theorems above quantify over the call
  history (`fourierCalls`, both modes), the number of refinement steps and the position `c` of the
  random stream at which a walk starts; `twin_surrogates_every_history`, `twins_cache_coherent` (one
  `Surrogates` object over every history of normalize / embedding setter / twins / twin_surrogates calls)
* round 3: the neighbour counter in the machine integer of the source (`twins_iff_machine_counter`,
  `twins_counter_width_exact`, `twins_counter_wrap_loses_twins`), the subscripts of the source
  (`twins_scan_reads_rows`, `rp_twins_source_subscripts`: asymmetric matrices), whole methods
  (`twin_surrogates_loop_level_machine`, `rp_twin_surrogates_method`).
* round 4: tie-order independence of the rank remapping (`remap_tie_order_independent`,
  `remap_pairs_are_sorted_pairs`, `remap_comonotone`, `remap_unique_without_ties`,
  `model_ranks_are_a_rank_array`, `remap_equals_model_up_to_tie_order`, `remap_equals_model_without_ties`);
  `correlated_noise_surrogates` statement by statement as regenerated from the source
  (`fourier_method_body_covered`, `fourier_method_keeps_amplitudes`), the last `rfft` bin of an odd
  length (`last_bin_of_odd_length_is_not_nyquist`, `forcing_last_bin_real_changes_amplitude`);
  `normalize_original_data` (`normalize_keeps_shape`, `normalize_zero_mean`, `normalize_unit_variance`,
  `normalize_constant_series`, `normalize_strictly_increasing`).
* round 5: the Fourier surrogates of the pure-Python coupling class at full strength —
  `coupling_step_on_blocks` (the slices of the source select DC / positive / Nyquist / negative
  frequencies, every array), `coupling_step_keeps_hermitian_and_moduli`,
  `coupling_fft_of_real_series_is_hermitian`, `coupling_hermitian_list_is_hermitian_function`,
  `coupling_fourier_surrogates_keep_amplitudes` (every series, every call history, **every** bin),
  `coupling_lenPhase_is_half`, `coupling_wrong_phase_count_raises`.
* round 5: the walk kernels `_twin_surrogates_s` / `_twin_surrogates_r` statement by statement on the
  expressions regenerated from numerics.pyx (`Model/SurrogatesWalkK.lean`): `walk_kernel_expressions`,
  `walk_kernel_step_is_next`, `walk_kernel_s_is_walk`, `walk_kernel_r_is_walk`,
  `walk_kernel_s_states_original_and_successor`, `walk_kernel_r_states_original_and_successor`,
  `twin_surrogates_source_level`, `rp_twin_surrogates_source_level` (the whole methods with every kernel
  on the source's expressions).
-/
namespace Pyunicorn.Surrogates

/-! ## shuffling -/

/-- `white_noise_surrogates`: whatever permutations the shuffle applies, every
output row is a permutation of the corresponding data row (and no IndexError). -/
theorem shuffle_perm (data : List (List Rat)) (perms : List (List Nat))
    (h : List.Forall₂ (fun r p => p.Perm (List.range r.length)) data perms) :
    ∃ out, whiteNoise data perms = some out ∧ List.Forall₂ List.Perm out data :=
  whiteNoise_perm data perms h

example : whiteNoise [[1, 2, 3], [5, 5, 7]] [[2, 0, 1], [1, 2, 0]] = some [[3, 1, 2], [5, 7, 5]] := by
  decide +kernel
example : List.Forall₂ (fun (r : List Rat) p => p.Perm (List.range r.length))
    [[1, 2, 3], [5, 5, 7]] [[2, 0, 1], [1, 2, 0]] :=
  .cons (by decide) (.cons (by decide) .nil)

/-- the Fisher–Yates loop numpy's `shuffle` runs is a permutation for *every*
stream of draws (so the hypothesis of `shuffle_perm` is what numpy delivers). -/
theorem fisherYates_shuffle_perm (xs : Array α) (draws : List Nat) :
    (fisherYates xs draws).toList.Perm xs.toList :=
  fisherYates_perm xs draws

example : fisherYates #[10, 20, 30, 40] [0, 0, 0] = #[20, 30, 40, 10] := by decide +kernel

/-- an index that is not a valid rank is an error, not a silently wrong sample -/
theorem gather_out_of_bounds_raises (xs : List α) (idx : List Nat) (i : Nat) (hi : i ∈ idx)
    (h : xs.length ≤ i) : gather xs idx = none :=
  gather_none_of_oob xs idx i hi h

example : gather [10, 20, 30] [0, 3] = none := by decide

/-! ## (refined) AAFT, output "true amplitudes" -/

/-- `sorted_original[ranks]` is a permutation of the array for every rank
permutation (numpy's `argsort().argsort()` returns one, ties or not). -/
theorem sorted_ranks_perm (xs : List α) (idx : List Nat) (h : idx.Perm (List.range xs.length)) :
    ∃ ys, gather xs idx = some ys ∧ ys.Perm xs :=
  gather_perm xs idx h

example : gather [10, 20, 30] [2, 0, 1] = some [30, 10, 20] := by decide

/-- the model's `argsort().argsort()` is a permutation of the index range for
every array, ties included -/
theorem ranks_is_perm (s : List Rat) : (ranks s).Perm (List.range s.length) := ranks_perm s

/-- one row of the amplitude adjustment: for *every* ranked array `s` of the
right length the result is a permutation of the data row -/
theorem remap_row_perm (row s : List Rat) (h : s.length = row.length) :
    ∃ ys, remap row s = some ys ∧ ys.Perm row :=
  remap_perm row s h

example : ∃ ys, remap [3, 1, 2] [1 / 2, 7, -1] = some ys ∧ ys.Perm [3, 1, 2] :=
  remap_perm _ _ rfl

/-- first stage of `AAFT_surrogates`: the Gaussian reference series is permuted into the rank
order of the data (so the array whose phases are randomised is a row permutation of `randn`) -/
theorem aaft_rescaled_is_perm_of_gaussian (row g : List Rat) (h : g.length = row.length) :
    ∃ ys, rescale row g = some ys ∧ ys.Perm g :=
  rescale_perm row g h

example : ∃ ys, rescale [3, 1, 2] [1 / 2, -1, 7] = some ys ∧ ys.Perm [1 / 2, -1, 7] :=
  rescale_perm _ _ rfl

/-- `AAFT_surrogates` -/
theorem aaft_true_amplitudes_perm (data s : List (List Rat))
    (h : List.Forall₂ (fun r p => p.length = r.length) data s) :
    ∃ out, aaft data s = some out ∧ List.Forall₂ List.Perm out data :=
  aaft_perm data s h

/-- `refined_AAFT_surrogates(n_iterations = ss.length, "true_amplitudes")`: for
every number of refinement steps and every sequence of intermediate arrays -/
theorem refined_true_amplitudes_perm (data s0 : List (List Rat)) (ss : List (List (List Rat)))
    (h0 : List.Forall₂ (fun r p => p.length = r.length) data s0)
    (hs : ∀ s ∈ ss, List.Forall₂ (fun r p => p.length = r.length) data s) :
    ∃ out, refinedAaft data s0 ss = some out ∧ List.Forall₂ List.Perm out data :=
  refinedAaft_perm data s0 ss h0 hs

example : List.Forall₂ (fun (r p : List Rat) => p.length = r.length) [[3, 1, 2]] [[1 / 2, 7, -1]] :=
  .cons rfl .nil

/-! ## Fourier surrogates and "true spectrum"

Statement: `|rfft(correlated_noise_surrogates())[i, f]| = |rfft(data)[i, f]|` at every `0 < f < n/2`,
after any number of calls; `|rfft(s)[i, f]| = |rfft(data)[i, f]|` at every bin for the "true spectrum"
output `s` of every refinement step.  `DFT.rfft` / `DFT.irfft` (Lemmas/SurrogatesDFT.lean) are the real
DFT pair on `ZMod n` (`rfft_is_numpy_formula`: the sum numpy documents; `irfft` = inverse DFT of the
Hermitian extension, imaginary parts of DC / Nyquist ignored).  That numpy.fft computes this pair up
to rounding is trusted and checked numerically against the explicit sums by the oracle. -/

/-- `|z·e^{iφ}|² = |z|²` on the (re, im) pairs the model computes with -/
theorem phase_multiplication_normSq (z : ℝ × ℝ) (φ : ℝ) :
    Pyunicorn.Surrogates.normSq (rot realTrig z φ) = Pyunicorn.Surrogates.normSq z :=
  normSq_rot z φ

/-- the pair model is complex multiplication by `exp(iφ)` (`np.exp(1j * phases)`) -/
theorem rot_is_multiplication_by_exp (z : ℂ) (φ : ℝ) :
    let w := rot realTrig (z.re, z.im) φ
    (⟨w.1, w.2⟩ : ℂ) = z * Complex.exp (φ * Complex.I) :=
  rot_eq_mul_exp z φ

theorem phase_multiplication_norm (z : ℂ) (φ : ℝ) : ‖z * Complex.exp (φ * Complex.I)‖ = ‖z‖ :=
  norm_mul_exp z φ

/-- every call of every call history on one object, both modes: the spectrum handed to `irfft`
has the amplitudes of the cached FFT at every frequency -/
theorem fourier_spectrum_every_call (mode : Mode) (cache : List (ℝ × ℝ))
    (phases : List (List ℝ)) (h : ∀ φs ∈ phases, φs.length = cache.length) :
    ∀ out ∈ fourierCalls realTrig mode cache phases,
      out.map Pyunicorn.Surrogates.normSq = cache.map Pyunicorn.Surrogates.normSq :=
  fourierCalls_amplitudes mode cache phases h

example : ∀ φs ∈ [[(1 : ℝ), 2], [3, 4], [5, 6]], φs.length = [((1 : ℝ), (2 : ℝ)), (0, 1)].length := by
  simp

/-- the sum numpy documents for `rfft` -/
theorem rfft_is_numpy_formula {n : ℕ} [NeZero n] (x : ZMod n → ℝ) (f : ℕ) :
    DFT.rfft x f = ∑ t : ZMod n, (x t : ℂ) *
      Complex.exp (-(2 * Real.pi * Complex.I * (t.val : ℂ) * (f : ℂ) / (n : ℂ))) :=
  DFT.rfft_eq_sum x f

/-- `rfft(irfft(Z, n))[f] = Z[f]` at the non-zero, non-Nyquist bins … -/
theorem rfft_irfft_round_trip {n : ℕ} [NeZero n] (Z : ℕ → ℂ) (f : ℕ) (h0 : 0 < f) (h2 : 2 * f < n) :
    DFT.rfft (DFT.irfft (n := n) Z) f = Z f :=
  DFT.rfft_irfft Z f h0 h2

/-- … while DC and Nyquist keep only their real part — the reason the statement excludes them -/
theorem rfft_irfft_dc_nyquist_real_part {n : ℕ} [NeZero n] (Z : ℕ → ℂ) :
    DFT.rfft (DFT.irfft (n := n) Z) 0 = (((Z 0).re : ℝ) : ℂ) ∧
      ∀ f, 2 * f = n → DFT.rfft (DFT.irfft (n := n) Z) f = (((Z f).re : ℝ) : ℂ) :=
  ⟨DFT.rfft_irfft_dc Z, fun f h => DFT.rfft_irfft_nyquist Z f h⟩

example : DFT.rfft (DFT.irfft (n := 5) (fun _ => Complex.I)) 2 = Complex.I :=
  DFT.rfft_irfft _ 2 (by decide) (by decide)

/-- **Fourier surrogates keep each series' amplitude spectrum at all non-zero, non-Nyquist
frequencies** — in every call of every call history on one object, whether the phases are
multiplied into the memoised FFT in place or into a copy: `spectrum x` is the memoised
`rfft(data)` of a series `x` of any length `n ≥ 1`, `out` the array handed to `irfft`. -/
theorem fourier_surrogates_keep_amplitudes {n : ℕ} [NeZero n] (x : ZMod n → ℝ) (mode : Mode)
    (phases : List (List ℝ)) (h : ∀ φs ∈ phases, φs.length = n / 2 + 1) :
    ∀ out ∈ fourierCalls realTrig mode (spectrum x) phases, ∀ f, 0 < f → 2 * f < n →
      ‖DFT.rfft (DFT.irfft (n := n) (rowFn out)) f‖ = ‖DFT.rfft x f‖ :=
  fourierCalls_surrogate_amplitudes x mode phases h

example : ∀ φs ∈ [[(1 : ℝ), 2, 3], [0, 4, 5]], φs.length = 5 / 2 + 1 := by simp

/-- `original_fourier_amps * np.exp(1j*np.angle(r_fft))` on pairs is `|z|·e^{i·arg r}` -/
theorem spec_in_is_amps_times_unit_phase (z r : ℝ × ℝ) :
    toC (specIn realPolar z r)
      = ((‖toC z‖ : ℝ) : ℂ) * Complex.exp (Complex.arg (toC r) * Complex.I) :=
  specIn_eq z r

/-- the entry handed to `irfft` in the refinement loop has the original amplitude -/
theorem true_spectrum_entry_modulus (z r : ℝ × ℝ) : ‖toC (specIn realPolar z r)‖ = ‖toC z‖ :=
  norm_specIn z r

/-- **the 'true spectrum' output has the original amplitude spectrum** — at every bin (DC and
Nyquist are real for a real `R`, so their phase factor is ±1), for every array `R` a refinement
step starts from, i.e. after every number of iterations. -/
theorem true_spectrum_keeps_amplitudes {n : ℕ} [NeZero n] (x R : ZMod n → ℝ) (f : ℕ)
    (h2 : 2 * f ≤ n) :
    ‖DFT.rfft (DFT.irfft (n := n) (rowFn (specInRow realPolar (spectrum x) (spectrum R)))) f‖
      = ‖DFT.rfft x f‖ :=
  specIn_surrogate_amplitudes x R f h2

example : 2 * 2 ≤ 4 := by decide

/-! ## twins -/

/-- the `for l in range(dimension)` loop with its `break`: neighbours iff every
component differs by at most the threshold (supremum norm) -/
theorem near_iff (thr : Rat) (u v : List Rat) :
    near thr u v = true ↔ ∀ p ∈ List.zip u v, p.1 - p.2 ≤ thr ∧ p.2 - p.1 ≤ thr := by
  induction u generalizing v with
  | nil => simp [near]
  | cons a as ih =>
    cases v with
    | nil => simp [near]
    | cons b bs =>
      have := ih bs
      simp [near] at this ⊢
      simp [this]

/-- entry `(j, k)` of the recurrence matrix `_twins_s` builds: one on the
diagonal, elsewhere the neighbour test of the two state vectors -/
theorem recurrence_entry (thr : Rat) (emb : List (List Rat)) (j k : Nat) (u v : List Rat)
    (hj : emb[j]? = some u) (hk : emb[k]? = some v) :
    (recMatrix thr emb)[j]?.bind (·[k]?) = some (j == k || near thr u v) := by
  simp [recMatrix, List.getElem?_zipIdx, hj, hk]

example : recMatrix (1 / 2) [[0, 1], [1, 2], [0, 3 / 2]]
    = [[true, false, true], [false, true, false], [true, false, true]] := by decide +kernel

/-- `_twins_s`: `k` is listed for `j` iff the two are more than `min_dist`
apart and have identical rows in the recurrence matrix with more than one
neighbour. -/
theorem twins_iff (thr : Rat) (md : Nat) (emb : List (List Rat)) (j k : Nat) :
    (∃ l, (twinsS thr md emb)[j]? = some l ∧ k ∈ l) ↔
      j < emb.length ∧ k < emb.length ∧ (k + md < j ∨ j + md < k) ∧
        ∃ r, (recMatrix thr emb)[j]? = some r ∧ (recMatrix thr emb)[k]? = some r ∧
          r.count true ≠ 1 := by
  unfold twinsS
  simp only [mem_twinLists_iff]
  constructor
  · rintro ⟨hj, hk, h | h⟩
    · obtain ⟨r, h1, h2, h3⟩ := (isTwin_rowCounts_iff _ j k).1 h.2
      exact ⟨hj, hk, .inl h.1, r, h1, h2, h3⟩
    · obtain ⟨r, h1, h2, h3⟩ := (isTwin_rowCounts_iff _ k j).1 h.2
      exact ⟨hj, hk, .inr h.1, r, h2, h1, h3⟩
  · rintro ⟨hj, hk, h | h, r, h1, h2, h3⟩
    · exact ⟨hj, hk, .inl ⟨h, (isTwin_rowCounts_iff _ j k).2 ⟨r, h1, h2, h3⟩⟩⟩
    · exact ⟨hj, hk, .inr ⟨h, (isTwin_rowCounts_iff _ k j).2 ⟨r, h2, h1, h3⟩⟩⟩

example : twinsS (1 / 2) 1 [[0, 1], [1, 2], [2, 0], [0, 1], [1, 2], [2, 0], [0, 1]]
    = [[3, 6], [4], [5], [0, 6], [1], [2], [0, 3]] := by decide +kernel

/-- the twin relation is symmetric -/
theorem twins_symm (thr : Rat) (md : Nat) (emb : List (List Rat)) (j k : Nat) :
    (∃ l, (twinsS thr md emb)[j]? = some l ∧ k ∈ l) ↔
      (∃ l, (twinsS thr md emb)[k]? = some l ∧ j ∈ l) := by
  rw [twins_iff, twins_iff]
  constructor <;>
  · rintro ⟨hj, hk, h, r, h1, h2, h3⟩
    exact ⟨hk, hj, h.symm, r, h2, h1, h3⟩

/-- `RecurrencePlot.twins` (the kernel `_twins_r` with the neighbour counts the
method passes): same characterisation on the object's recurrence matrix; the
kernel's extra trailing list is empty. -/
theorem rp_twins_iff (md : Nat) (R : List (List Bool)) (j k : Nat) :
    (∃ l, (rpTwins md R)[j]? = some l ∧ k ∈ l) ↔
      j < R.length ∧ k < R.length ∧ (k + md < j ∨ j + md < k) ∧
        ∃ r, R[j]? = some r ∧ R[k]? = some r ∧ r.count true ≠ 1 := by
  have hlen := twinLists_length R.length md (isTwin R (rowCounts R))
  have key : (∃ l, (rpTwins md R)[j]? = some l ∧ k ∈ l) ↔
      (∃ l, (twinLists R.length md (isTwin R (rowCounts R)))[j]? = some l ∧ k ∈ l) := by
    unfold rpTwins twinsR
    by_cases hj : j < R.length
    · rw [List.getElem?_append_left (by omega)]
    · constructor
      · rintro ⟨l, h1, h2⟩
        rw [List.getElem?_append_right (by omega)] at h1
        have : l = [] := by
          cases hjj : j - (twinLists R.length md (isTwin R (rowCounts R))).length with
          | zero => rw [hjj] at h1; simpa using h1.symm
          | succ m => rw [hjj] at h1; simp at h1
        subst this; simp at h2
      · rintro ⟨l, h1, _⟩
        have := (List.getElem?_eq_some_iff.1 h1).1
        omega
  rw [key, mem_twinLists_iff]
  constructor
  · rintro ⟨hj, hk, h | h⟩
    · obtain ⟨r, h1, h2, h3⟩ := (isTwin_rowCounts_iff _ j k).1 h.2
      exact ⟨hj, hk, .inl h.1, r, h1, h2, h3⟩
    · obtain ⟨r, h1, h2, h3⟩ := (isTwin_rowCounts_iff _ k j).1 h.2
      exact ⟨hj, hk, .inr h.1, r, h2, h1, h3⟩
  · rintro ⟨hj, hk, h | h, r, h1, h2, h3⟩
    · exact ⟨hj, hk, .inl ⟨h, (isTwin_rowCounts_iff _ j k).2 ⟨r, h1, h2, h3⟩⟩⟩
    · exact ⟨hj, hk, .inr ⟨h, (isTwin_rowCounts_iff _ k j).2 ⟨r, h2, h1, h3⟩⟩⟩

/-- the pinned `RecurrencePlot.twins` summed `R` along the columns (`axis=0`)
while comparing rows: on an asymmetric matrix states 0 and 1 with identical
rows are not listed (repaired by a `fix:` commit; the model `rpTwins` is the
repaired code). -/
theorem rp_twins_columns_miss_a_twin :
    rpTwinsColumns 0 [[true, true, true], [true, true, true], [true, false, true]]
        = [[], [], [], []] ∧
      rpTwins 0 [[true, true, true], [true, true, true], [true, false, true]]
        = [[1], [0], [], []] := by decide

/-! ## the twin walk -/

/-- one step of the walk from an original state `k`: it never fails, lands on an
original state and does so by an allowed transition (`Succ`: own successor,
successor of a twin, or a restart, the latter only if one of these successors
lies beyond the end of the series). -/
theorem walk_step {N : Nat} {tw : List (List Nat)} {pick : Nat → Nat → Nat}
    (hp : GoodPick pick) (hw : WfTwins N tw) (k c : Nat) (hk : k < N) :
    ∃ k' c', next N tw pick k c = some (k', c') ∧ c ≤ c' ∧ k' < N ∧ Succ N tw k k' :=
  next_spec hp hw k c hk

/-- the values `int(floor(random.random() * m))` of a stream in [0, 1) are
admissible choices -/
theorem floor_of_unit_draw_is_index (u : Nat → Rat) (h : ∀ c, 0 ≤ u c ∧ u c < 1) :
    GoodPick (floorPick u) :=
  floorPick_good u h

example : ∀ c : Nat, (0 : Rat) ≤ (fun _ => (3 : Rat) / 4) c ∧ (fun _ => (3 : Rat) / 4) c < 1 := by
  intro c
  show (0 : Rat) ≤ 3 / 4 ∧ (3 : Rat) / 4 < 1
  constructor <;> decide +kernel

/-- `_twin_surrogates_s`: for every stream of draws in [0,1), every stream
position `c` (i.e. after any number of earlier calls) and every family of
well-formed twin tables: all `N` states of every surrogate are original states
and every transition is allowed. -/
theorem walk_states_original_and_successor {N : Nat} (u : Nat → Rat)
    (hu : ∀ c, 0 ≤ u c ∧ u c < 1) (tws : List (List (List Nat)))
    (hw : ∀ tw ∈ tws, WfTwins N tw) (c : Nat) :
    ∃ ls c', walkRows N (floorPick u) tws c = some (ls, c') ∧
      List.Forall₂ (fun l tw => l.length = N ∧ (∀ i ∈ l, i < N) ∧
        (∀ i a b, l[i]? = some a → l[i+1]? = some b → Succ N tw a b)) ls tws :=
  walkRows_spec (floorPick_good u hu) tws hw c

/-- `_twin_surrogates_r` (`n_surrogates` trajectories on one table) -/
theorem rp_walk_states_original_and_successor {N : Nat} {tw : List (List Nat)} (u : Nat → Rat)
    (hu : ∀ c, 0 ≤ u c ∧ u c < 1) (hw : WfTwins N tw) (ns c : Nat) :
    ∃ ls c', walkRep N tw (floorPick u) ns c = some (ls, c') ∧ ls.length = ns ∧
      ∀ l ∈ ls, l.length = N ∧ (∀ i ∈ l, i < N) ∧
        (∀ i a b, l[i]? = some a → l[i+1]? = some b → Succ N tw a b) :=
  walkRep_spec (floorPick_good u hu) hw ns c

/-! #### round 5: the walk kernels on the expressions of the source

`Model/SurrogatesWalkK.lean` runs the two `while j < N` loops in the kernel's own `int` variables;
every expression (34 definitions `w…S` / `w…R` of `Generated/ArithC15.lean`) is regenerated from
numerics.pyx on every run. -/

/-- the expressions of both kernels are the ones the abstract walk is written with (`rfl` against
the regenerated definitions: `k >= N` → `k > N`, a dropped `k += 1`, `floor(random() * (n_twins))`,
`twins_ik[rand + 1]`, … no longer build) -/
theorem walk_kernel_expressions : walkArithS = stdWalk ∧ walkArithR = stdWalk :=
  ⟨walkArithS_std, walkArithR_std⟩

/-- one pass through the loop body of `_twin_surrogates_s` in the kernel's `int k` is `next`, for
every table (well-formed or not), every state, every cursor, every stream of draws in [0,1) —
IndexError cases included (`none` on both sides); in particular the restart loop `while True`
(modelled with 64 rounds of fuel) always ends in its first round -/
theorem walk_kernel_step_is_next (N : Nat) (tw : List (List Nat)) (u : Nat → Rat)
    (hu : ∀ c, 0 ≤ u c ∧ u c < 1) (k c : Nat) :
    nextK walkArithS (N : Int) tw u (k : Int) c
      = (next N tw (floorPick u) k c).map (fun p => ((p.1 : Int), p.2)) := by
  rw [walkArithS_std]; exact nextK_std N tw u hu k c

/-- `_twin_surrogates_s` (loop over the series, `while j < N` with its counter `j`, loads, stores,
restart loop) on the source's expressions = the abstract `walkRows` -/
theorem walk_kernel_s_is_walk (N : Nat) (u : Nat → Rat) (hu : ∀ c, 0 ≤ u c ∧ u c < 1)
    (tws : List (List (List Nat))) (c : Nat) :
    walkKernelS N u tws c = (walkRows N (floorPick u) tws c).map castRows :=
  walkKernelS_eq N u hu tws c

/-- `_twin_surrogates_r` on the source's expressions = the abstract `walkRep` -/
theorem walk_kernel_r_is_walk (N : Nat) (tw : List (List Nat)) (u : Nat → Rat)
    (hu : ∀ c, 0 ≤ u c ∧ u c < 1) (ns c : Nat) :
    walkKernelR N tw u ns c = (walkRep N tw (floorPick u) ns c).map castRows :=
  walkKernelR_eq N tw u hu ns c

/-- hence the walk clause for the loop-level kernel: the `while` loop terminates within its `N`
passes, never leaves the data, and every surrogate is `N` original states with allowed transitions -/
theorem walk_kernel_s_states_original_and_successor {N : Nat} (u : Nat → Rat)
    (hu : ∀ c, 0 ≤ u c ∧ u c < 1) (tws : List (List (List Nat)))
    (hw : ∀ tw ∈ tws, WfTwins N tw) (c : Nat) :
    ∃ (ls : List (List Nat)) (c' : Nat), walkKernelS N u tws c = some (castRows (ls, c')) ∧
      List.Forall₂ (fun l tw => l.length = N ∧ (∀ i ∈ l, i < N) ∧
        (∀ i a b, l[i]? = some a → l[i+1]? = some b → Succ N tw a b)) ls tws := by
  obtain ⟨ls, c', h, hs⟩ := walk_states_original_and_successor u hu tws hw c
  exact ⟨ls, c', by rw [walk_kernel_s_is_walk N u hu, h]; rfl, hs⟩

theorem walk_kernel_r_states_original_and_successor {N : Nat} {tw : List (List Nat)}
    (u : Nat → Rat) (hu : ∀ c, 0 ≤ u c ∧ u c < 1) (hw : WfTwins N tw) (ns c : Nat) :
    ∃ (ls : List (List Nat)) (c' : Nat), walkKernelR N tw u ns c = some (castRows (ls, c')) ∧
      ls.length = ns ∧
      ∀ l ∈ ls, l.length = N ∧ (∀ i ∈ l, i < N) ∧
        (∀ i a b, l[i]? = some a → l[i+1]? = some b → Succ N tw a b) := by
  obtain ⟨ls, c', h, hl, hs⟩ := rp_walk_states_original_and_successor u hu hw ns c
  exact ⟨ls, c', by rw [walk_kernel_r_is_walk N tw u hu, h]; rfl, hl, hs⟩

/-- the restart loop is really a loop in the model: a draw outside [0,1) (`u = 1`, so `new_k = N = k`)
is rejected and the second round's draw is taken -/
example : restartK stdWalk 2 (fun c => [(1 : Rat), 0].getD c 0) 2 restartFuel 0 = some (0, 2) := by
  decide +kernel

/-- the loop-level kernel on a table with a twin pair: jump to the future of a twin (2 → 0+1),
move on, restart at the end — the same walk as the abstract example at the end of this file -/
example : walkKernelS 4 (fun c => [(5 : Rat) / 8, 0, 7 / 8, 3 / 8, 1 / 8].getD c 0) [[[2], [], [0], []]] 0
    = some ([[2, 1, 2, 3]], 4) := by decide +kernel

/-- the tables the twin search produces are well-formed, so the walk theorems
apply to them: kernel after kernel, as `twin_surrogates` composes them. -/
theorem twin_walk_on_twin_lists (thr : Rat) (md : Nat) (embs : List (List (List Rat))) (N : Nat)
    (hN : ∀ e ∈ embs, e.length = N) (u : Nat → Rat) (hu : ∀ c, 0 ≤ u c ∧ u c < 1) (c : Nat) :
    ∃ ls c', walkRows N (floorPick u) (embs.map (twinsS thr md)) c = some (ls, c') ∧
      List.Forall₂ (fun l tw => l.length = N ∧ (∀ i ∈ l, i < N) ∧
        (∀ i a b, l[i]? = some a → l[i+1]? = some b → Succ N tw a b))
        ls (embs.map (twinsS thr md)) := by
  apply walk_states_original_and_successor u hu
  intro tw htw
  obtain ⟨e, he, rfl⟩ := List.mem_map.1 htw
  have := twinLists_wf e.length md (isTwin (recMatrix thr e) (rowCounts (recMatrix thr e)))
  rw [hN e he] at this
  simpa [twinsS, hN e he] using this

example : WfTwins 7 (twinsS (1 / 2) 1 [[0, 1], [1, 2], [2, 0], [0, 1], [1, 2], [2, 0], [0, 1]]) := by
  have := twinLists_wf 7 1 (isTwin (recMatrix (1 / 2) [[0, 1], [1, 2], [2, 0], [0, 1], [1, 2], [2, 0], [0, 1]])
    (rowCounts (recMatrix (1 / 2) [[0, 1], [1, 2], [2, 0], [0, 1], [1, 2], [2, 0], [0, 1]])))
  simpa [twinsS] using this

/-- one loop pass, exactly: the successor of the state itself or of the drawn twin
(`drawnSucc`) is taken; the walk restarts at a fresh random state **exactly when** that
successor lies beyond the end of the series. -/
theorem walk_step_exact {N : Nat} {tw : List (List Nat)} {pick : Nat → Nat → Nat}
    (hp : GoodPick pick) (hw : WfTwins N tw) (k c : Nat) (hk : k < N) :
    next N tw pick k c = some
      (if (drawnSucc tw pick k c).1 < N then drawnSucc tw pick k c
       else (pick (drawnSucc tw pick k c).2 N, (drawnSucc tw pick k c).2 + 1)) :=
  next_exact hp hw k c hk

/-- **`Surrogates.twin_surrogates(dimension, delay, threshold, min_dist)` as a whole**, for
every data array with rows of length `n`, every `dimension ≥ 1` and `delay` with
`(dimension-1)·delay ≤ n`, every threshold, `min_dist` and draw stream in [0,1): the method
succeeds, and every output row `o` belongs to its data row `row` by `RowSpec`: the embedding
`e` has `N = n-(dimension-1)·delay` states, there is an index path `l` of length `N` through
original states `< N` whose steps are all allowed (`Succ` w.r.t. the twins `_twins_s` finds on
`e`), `o = row[l]`, and sample `k` of the row is the first component of state `k`. -/
theorem twin_surrogates_method (u : Nat → Rat) (hu : ∀ c, 0 ≤ u c ∧ u c < 1) (n dim delay : Nat)
    (thr : Rat) (md : Nat) (hd : 1 ≤ dim) (hfit : (dim - 1) * delay ≤ n)
    (data : List (List Rat)) (hrows : ∀ r ∈ data, r.length = n) :
    ∃ out, twinSurrogates data dim delay thr md (floorPick u) = some out ∧
      List.Forall₂ (RowSpec (n - (dim - 1) * delay) dim delay thr md) out data :=
  twinSurrogates_spec (floorPick_good u hu) n dim delay thr md hd hfit data hrows

/-- outside the domain (`(dimension-1)·delay > n`) the embedding is an error, not a value -/
theorem embed_too_long_raises (row : List Rat) (dim delay : Nat) (h : row.length < (dim - 1) * delay) :
    embed row dim delay = none :=
  embed_none_of_gt row dim delay h

example : embed [1, 2, 3, 4] 2 1 = some [[1, 2], [2, 3], [3, 4]] := by decide +kernel
example : embed [1, 2] 3 2 = none := by decide +kernel

/-! ## the loop-level model of the kernels (`Model/SurrogatesKernel.lean`)

Index and size expressions come from `Generated/ArithC15.lean` (regenerated from surrogates.py and
numerics.pyx on every run), the work arrays `R`, `nR` start with arbitrary content and are re-used
from series to series as in the kernel. -/
open Pyunicorn.Generated in
/-- `_embed_time_series_array` with its running `index` and the wrapper's allocation: the
embedding of the abstract model (`dimension ≥ 1`); in particular allocated and filled length agree -/
theorem embed_kernel_is_embed (row : List Rat) (dim delay : Nat) (hd : 1 ≤ dim) :
    embedK row dim delay = embed row dim delay :=
  embedK_eq_embed row dim delay hd

/-- lines 166-170 of `_twins_s`: whatever the work arrays held (another series' matrix, the
garbage of `np.empty`), after the initialisation loop `R` is all ones and `nR` all `n_time` -/
theorem twins_work_arrays_initialised (n : Nat) (w0 : Work) (h : w0.Shaped n) :
    initLoop n w0 = ⟨List.replicate n (List.replicate n true), List.replicate n (n : Int)⟩ :=
  initLoop_eq n w0 h

example : Work.Shaped 2 ⟨[[false, true], [true, false]], [-7, 300]⟩ :=
  ⟨rfl, by simp, rfl⟩

/-- lines 173-189: the symmetric zeroing builds the supremum-norm recurrence matrix and the
decrement bookkeeping of `nR` ends at the row sums (counter in `Int`; the machine integer is
`twins_kernel_machine_counter_state` / `twins_counter_width_exact` below) -/
theorem twins_kernel_recurrence_and_counts (thr : Rat) (emb : List (List Rat)) :
    recLoop thr emb ⟨List.replicate emb.length (List.replicate emb.length true),
        List.replicate emb.length (emb.length : Int)⟩
      = ⟨recMatrix thr emb, (rowCounts (recMatrix thr emb)).map (fun c : Nat => (c : Int))⟩ :=
  recLoop_eq thr emb

/-- `_twins_s` over all series on shared work arrays of arbitrary initial content: series after
series the lists of the abstract model `twinsS` (so `twins_iff` / `twins_symm` speak about the kernel) -/
theorem twins_kernel_all_series (thr : Rat) (md : Nat) (embs : List (List (List Rat))) (n : Nat)
    (hn : ∀ e ∈ embs, e.length = n) (w0 : Work) (h : w0.Shaped n) :
    (twinsKernel thr md embs w0).1 = embs.map (twinsS thr md) :=
  twinsKernel_eq thr md embs n hn w0 h

/-- `_twins_r` with the source's `range(j - min_dist)` -/
theorem rp_twins_kernel (md n : Nat) (R : List (List Bool)) (nR : List Nat) :
    twinsRK md n R nR = twinsR md n R nR :=
  twinsRK_eq md n R nR

/-- **`Surrogates.twin_surrogates` at loop level** — embedding kernel, `twins()` on `np.empty`
work arrays (`g`, `gn` arbitrary), `n_time` as the source computes it, walk, read-out — satisfies
the same specification as `twin_surrogates_method`, whatever the work arrays contained. -/
theorem twin_surrogates_loop_level (u : Nat → Rat) (hu : ∀ c, 0 ≤ u c ∧ u c < 1) (n dim delay : Nat)
    (thr : Rat) (md : Nat) (hd : 1 ≤ dim) (hfit : (dim - 1) * delay ≤ n)
    (data : List (List Rat)) (hrows : ∀ r ∈ data, r.length = n)
    (g : Nat → Nat → Bool) (gn : Nat → Int) :
    ∃ out, twinSurrogatesK data dim delay thr md (floorPick u) g gn = some out ∧
      List.Forall₂ (RowSpec (n - (dim - 1) * delay) dim delay thr md) out data := by
  rw [twinSurrogatesK_eq data n dim delay thr md (floorPick u) g gn hd hrows]
  exact twin_surrogates_method u hu n dim delay thr md hd hfit data hrows

/-! ## Round 3: the machine integer of the neighbour counter, the source's subscripts, whole methods
over object histories

`Model/SurrogatesKernelW.lean`: `nR` lives in a signed `bits`-bit integer (`bits` is read off the
source on every run: int16 in the pinned code, int32 after `fix: … neighbour counter`), every store /
decrement / scan subscript is the expression regenerated from `numerics.pyx`. -/

/-- **`_twins_s` with the machine counter, every length, every counter width**: `k` is listed for `j`
iff the two are separated, have identical rows in the recurrence matrix, and the row sum *as the
`bits`-bit counter holds it* is not one.  (The equality test `nR[j] == nR[k]` on wrapped values can
only let more pairs through to the row scan, which decides.) -/
theorem twins_iff_machine_counter (bits : Nat) (thr : Rat) (md : Nat) (emb : List (List Rat))
    (w0 : Work) (h : w0.Shaped emb.length) (j k : Nat) :
    (∃ l, (twinsKernelOneW bits thr md emb w0).1[j]? = some l ∧ k ∈ l) ↔
      j < emb.length ∧ k < emb.length ∧ (k + md < j ∨ j + md < k) ∧
        ∃ r, (recMatrix thr emb)[j]? = some r ∧ (recMatrix thr emb)[k]? = some r ∧
          wrapInt bits (r.count true : Nat) ≠ 1 := by
  rw [twinsKernelOneW_eq bits thr md emb w0 h]
  simp only [mem_twinLists_iff]
  constructor
  · rintro ⟨hj, hk, h | h⟩
    · obtain ⟨r, h1, h2, h3⟩ := (isTwinW_wrap_iff bits _ j k).1 h.2
      exact ⟨hj, hk, .inl h.1, r, h1, h2, h3⟩
    · obtain ⟨r, h1, h2, h3⟩ := (isTwinW_wrap_iff bits _ k j).1 h.2
      exact ⟨hj, hk, .inr h.1, r, h2, h1, h3⟩
  · rintro ⟨hj, hk, h | h, r, h1, h2, h3⟩
    · exact ⟨hj, hk, .inl ⟨h, (isTwinW_wrap_iff bits _ j k).2 ⟨r, h1, h2, h3⟩⟩⟩
    · exact ⟨hj, hk, .inr ⟨h, (isTwinW_wrap_iff bits _ k j).2 ⟨r, h2, h1, h3⟩⟩⟩

/-- **no wrap-around effect up to `n_time = 2^bits`**: for every series of at most `2^bits` states
(`bits ≥ 2`), every content of the work arrays, the kernel with the machine counter lists exactly the
twins of the definition (`twins_iff`).  With the int32 counter of the repaired code this covers every
`n_time` a C `int` can hold. -/
theorem twins_counter_width_exact (bits : Nat) (hb : 2 ≤ bits) (thr : Rat) (md : Nat)
    (embs : List (List (List Rat))) (n : Nat) (hn : ∀ e ∈ embs, e.length = n)
    (hw : (n : Int) ≤ 2 ^ bits) (w0 : Work) (h : w0.Shaped n) :
    (twinsKernelW bits thr md embs w0).1 = embs.map (twinsS thr md) :=
  twinsKernelW_eq bits hb thr md embs n hn hw w0 h

example : ((2 ^ 31 - 1 : Nat) : Int) ≤ 2 ^ 32 := by decide

/-- the bound is sharp: with a `bits`-bit counter a state with `2^bits + 1` neighbours is taken for
an isolated one.  Scaled-down image (`bits = 2`, five identical states) of the defect of the pinned
int16 counter at `n_time = 65537` (`fix: … neighbour counter`, replay in findings/C15.json): the
kernel lists no twins at all where the definition lists every pair. -/
theorem twins_counter_wrap_loses_twins :
    (twinsKernelOneW 2 0 0 [[0], [0], [0], [0], [0]]
        ⟨List.replicate 5 (List.replicate 5 false), [3, -1, 0, 1, 2]⟩).1 = [[], [], [], [], []] ∧
      twinsS 0 0 [[0], [0], [0], [0], [0]]
        = [[1, 2, 3, 4], [0, 2, 3, 4], [0, 1, 3, 4], [0, 1, 2, 4], [0, 1, 2, 3]] := by
  constructor <;> decide +kernel

/-- the arrays `_twins_s` leaves behind: the recurrence matrix and the row sums wrapped into the
counter type — for every counter width, length and initial content -/
theorem twins_kernel_machine_counter_state (bits : Nat) (thr : Rat) (emb : List (List Rat)) (w0 : Work)
    (h : w0.Shaped emb.length) :
    recLoopW bits thr emb (initLoopW bits emb.length w0)
      = ⟨recMatrix thr emb, (rowCounts (recMatrix thr emb)).map fun c : Nat => wrapInt bits c⟩ := by
  rw [recLoopW_initLoopW bits thr emb w0 h]
  simp [wrapW]

open Pyunicorn.Generated in
/-- **the scan `while R[j, l] == R[k, l]: l += 1; if l == N: …; break` with the subscripts of the
source** decides equality of *rows* `j` and `k`, never reads outside the matrix, for every square
matrix — symmetric or not (fixed local recurrence rate, adaptive neighbourhood size). -/
theorem twins_scan_reads_rows (n : Nat) (R : List (List Bool)) (hS : Square n R) (j k : Nat)
    (hj : j < n) (hk : k < n) :
    ∃ rj rk, R[j]? = some rj ∧ R[k]? = some rk ∧
      scanR R n j k = some (decide (rj = rk)) ∧ scanS R n j k = some (decide (rj = rk)) := by
  have hj' : j < R.length := by rw [hS.1]; exact hj
  have hk' : k < R.length := by rw [hS.1]; exact hk
  refine ⟨R[j], R[k], List.getElem?_eq_getElem hj', List.getElem?_eq_getElem hk', ?_, ?_⟩
  · have := scanK_rows scanR_hA endR_eq R n j k R[j] R[k] (List.getElem?_eq_getElem hj')
      (List.getElem?_eq_getElem hk') (hS.2 _ (List.getElem_mem hj')) (hS.2 _ (List.getElem_mem hk'))
      n 0 (by omega) (by omega)
    unfold scanR
    rw [this, List.drop_zero, List.drop_zero]
    congr 1
    rw [Bool.eq_iff_iff, sameRow_iff]; simp
  · have := scanK_rows scanS_hA endS_eq R n j k R[j] R[k] (List.getElem?_eq_getElem hj')
      (List.getElem?_eq_getElem hk') (hS.2 _ (List.getElem_mem hj')) (hS.2 _ (List.getElem_mem hk'))
      n 0 (by omega) (by omega)
    unfold scanS
    rw [this, List.drop_zero, List.drop_zero]
    congr 1
    rw [Bool.eq_iff_iff, sameRow_iff]; simp

/-- **`RecurrencePlot.twins` at the level of the source's subscripts, on every square recurrence
matrix (asymmetric ones included)**: range, condition and scan of `_twins_r` as regenerated from
`numerics.pyx` give the lists characterised by `rp_twins_iff`. -/
theorem rp_twins_source_subscripts (md : Nat) (R : List (List Bool)) (hS : Square R.length R) :
    rpTwinsKW md R = rpTwins md R :=
  rpTwinsKW_eq md R hS

/-- an asymmetric matrix: rows 0 and 1 agree, columns 0 and 1 do not -/
example : rpTwinsKW 0 [[true, true, true], [true, true, true], [true, false, true]]
    = [[1], [0], [], []] := by decide +kernel

example : Square 3 [[true, true, true], [true, true, true], [true, false, true]] :=
  ⟨rfl, by simp⟩

/-- **`Surrogates.twin_surrogates` at loop level with the machine counter** (embedding kernel,
`twins()` on `np.empty` work arrays, `bits`-bit counter, subscripts of the source, walk, read-out):
the specification of `twin_surrogates_method`, for every number of embedded states up to `2^bits`. -/
theorem twin_surrogates_loop_level_machine (bits : Nat) (hb : 2 ≤ bits) (u : Nat → Rat)
    (hu : ∀ c, 0 ≤ u c ∧ u c < 1) (n dim delay : Nat)
    (thr : Rat) (md : Nat) (hd : 1 ≤ dim) (hfit : (dim - 1) * delay ≤ n)
    (hw : ((n - (dim - 1) * delay : Nat) : Int) ≤ 2 ^ bits)
    (data : List (List Rat)) (hrows : ∀ r ∈ data, r.length = n)
    (g : Nat → Nat → Bool) (gn : Nat → Int) :
    ∃ out, twinSurrogatesKW bits data dim delay thr md (floorPick u) g gn = some out ∧
      List.Forall₂ (RowSpec (n - (dim - 1) * delay) dim delay thr md) out data := by
  rw [twinSurrogatesKW_eq bits hb data n dim delay thr md (floorPick u) g gn hd hrows hw]
  exact twin_surrogates_method u hu n dim delay thr md hd hfit data hrows

/-- **`RecurrencePlot.twin_surrogates(n_surrogates, min_dist)` as a whole**, for every recurrence
matrix `R` with as many rows as there are state vectors, every `min_dist`, number of surrogates and
draw stream in [0,1): the call succeeds, returns `n_surrogates` trajectories, and each trajectory is
`embedding[l]` for an index path `l` of length `N` through original states whose steps are all allowed
(`Succ`) w.r.t. the twins of `R` (`rp_twins_iff`) — the read-out `surrogates[i, j, :] = embedding[k, :]`
included. -/
theorem rp_twin_surrogates_method (u : Nat → Rat) (hu : ∀ c, 0 ≤ u c ∧ u c < 1) (md ns : Nat)
    (R : List (List Bool)) (emb : List (List Rat)) (hR : R.length = emb.length) :
    ∃ out, rpTwinSurrogates md ns R emb (floorPick u) = some out ∧ out.length = ns ∧
      ∀ traj ∈ out, TrajSpec emb.length md R emb traj :=
  rpTwinSurrogates_spec (floorPick_good u hu) md ns R emb hR

/-- **`Surrogates.twin_surrogates` on the source's expressions throughout** (embedding kernel,
`twins()` on `np.empty` work arrays with the `bits`-bit counter and the source's subscripts, the walk
kernel statement by statement in its `int` variables, read-out `original_data[i, k]`): the
specification of `twin_surrogates_method`, for every number of embedded states up to `2^bits` -/
theorem twin_surrogates_source_level (bits : Nat) (hb : 2 ≤ bits) (u : Nat → Rat)
    (hu : ∀ c, 0 ≤ u c ∧ u c < 1) (n dim delay : Nat)
    (thr : Rat) (md : Nat) (hd : 1 ≤ dim) (hfit : (dim - 1) * delay ≤ n)
    (hw : ((n - (dim - 1) * delay : Nat) : Int) ≤ 2 ^ bits)
    (data : List (List Rat)) (hrows : ∀ r ∈ data, r.length = n)
    (g : Nat → Nat → Bool) (gn : Nat → Int) :
    ∃ out, twinSurrogatesSrc bits data dim delay thr md u g gn = some out ∧
      List.Forall₂ (RowSpec (n - (dim - 1) * delay) dim delay thr md) out data := by
  rw [twinSurrogatesSrc_eq bits data dim delay thr md u hu g gn]
  exact twin_surrogates_loop_level_machine bits hb u hu n dim delay thr md hd hfit hw data hrows g gn

/-- **`RecurrencePlot.twin_surrogates` on the source's expressions throughout** (subscripts of
`_twins_r`, the walk kernel `_twin_surrogates_r` statement by statement, read-out `embedding[k, :]`),
for every square recurrence matrix, symmetric or not -/
theorem rp_twin_surrogates_source_level (u : Nat → Rat) (hu : ∀ c, 0 ≤ u c ∧ u c < 1) (md ns : Nat)
    (R : List (List Bool)) (emb : List (List Rat)) (hR : R.length = emb.length)
    (hS : Square R.length R) :
    ∃ out, rpTwinSurrogatesSrc md ns R emb u = some out ∧ out.length = ns ∧
      ∀ traj ∈ out, TrajSpec emb.length md R emb traj := by
  rw [rpTwinSurrogatesSrc_eq md ns R emb hS u hu]
  exact rp_twin_surrogates_method u hu md ns R emb hR

example : rpTwinSurrogates 0 1 [[true, false, true], [false, true, false], [true, false, true]]
    [[5], [6], [7]] (fun c m => [2, 0, 1].getD c 0 % m) = some [[[7], [6], [7]]] := by decide +kernel

/-- **cache coherence of `twins` over every history** of `normalize_original_data`, `embedding = …`,
`twins`, `twin_surrogates` calls on one object: `twins(thr, md)` returns the twins of the embedding
the object holds now (memoised results are never those of an embedding that has been replaced). -/
theorem twins_cache_coherent (n : Nat) (data : List (List Rat)) (hrows : ∀ r ∈ data, r.length = n)
    (ops : List Op) (hops : ∀ op ∈ ops, op.Ok n) (thr : Rat) (md : Nat)
    (e : List (List (List Rat)))
    (he : (SObj.run Policy.code (SObj.fresh data) ops).2.emb = some e) :
    ((SObj.run Policy.code (SObj.fresh data) ops).2.twinsCall Policy.code thr md).1
      = some (e.map (twinsS thr md)) :=
  twinsCall_of_inv n _ thr md e (inv_run n _ ops (inv_fresh data n hrows) hops) he

/-- **repeated generation does not degrade the twin guarantee**: after *every* history of calls on
one object (normalisations, embeddings set by hand, `twins` queries that fill the cache, earlier
`twin_surrogates` calls with other parameters), `twin_surrogates` satisfies the specification of
`twin_surrogates_method` **with respect to the data the object holds now** — the embedding is
recomputed from it and no memoised twin table of an earlier embedding can be served. -/
theorem twin_surrogates_every_history (u : Nat → Rat) (hu : ∀ c, 0 ≤ u c ∧ u c < 1)
    (n dim delay : Nat) (thr : Rat) (md : Nat) (hd : 1 ≤ dim) (hfit : (dim - 1) * delay ≤ n)
    (data : List (List Rat)) (hrows : ∀ r ∈ data, r.length = n)
    (ops : List Op) (hops : ∀ op ∈ ops, op.Ok n) :
    ∃ out, ((SObj.run Policy.code (SObj.fresh data) ops).2.twinSurr Policy.code dim delay thr md
          (floorPick u)).1 = some out ∧
      List.Forall₂ (RowSpec (n - (dim - 1) * delay) dim delay thr md) out
        (SObj.run Policy.code (SObj.fresh data) ops).2.data :=
  twinSurr_after_history (floorPick_good u hu) n dim delay thr md hd hfit data hrows ops hops

example : ∀ op ∈ [Op.twinSurr 1 0 (1 / 2) 0 (fun _ _ => 0), Op.normalize [[-1, 1, -1, 1]],
    Op.twins (1 / 2) 0], op.Ok 4 := by
  intro op hop
  simp only [List.mem_cons, List.mem_nil_iff, or_false] at hop
  rcases hop with rfl | rfl | rfl
  · intro c m hm; exact hm
  · intro r hr; simp at hr; subst hr; rfl
  · trivial

/-- why the re-embedding matters (the seeded change C01-4, policy `ifStale`: re-embed only when no
embedding of that shape is stored): after `twin_surrogates; normalize_original_data` the second
`twin_surrogates` call walks on the twins of the *old* data — here the old series has the twin pair
(0, 2), the normalised one has none, and the object still holds the old embedding. -/
theorem stale_embedding_witness :
    let ops := [Op.twinSurr 1 0 (1 / 2) 0 (fun _ _ => 0), Op.normalize [[0, 5, 9, 20]]]
    ((SObj.run ⟨.ifStale, true⟩ (SObj.fresh [[0, 5, 0, 20]]) ops).2.twinSurr ⟨.ifStale, true⟩ 1 0 (1 / 2) 0
        (fun _ _ => 0)).2.emb = some [[[0], [5], [0], [20]]] ∧
      ((SObj.run Policy.code (SObj.fresh [[0, 5, 0, 20]]) ops).2.twinSurr Policy.code 1 0 (1 / 2) 0
        (fun _ _ => 0)).2.emb = some [[[0], [5], [9], [20]]] := by
  constructor <;> decide +kernel

/-! ## Round 4

### tie-order independence of the rank remapping

`numpy.argsort` does not specify the order of equal values, and the code applies it twice
(`s.argsort(axis=1).argsort(axis=1)`).  Whatever numpy does, the result is a `RankOf s`: a
permutation of the index range that never gives a strictly smaller value the larger rank (the
harness checks this hypothesis on numpy's rank array in every case with ties). -/

/-- **the (ranked value, output value) pairs do not depend on the order among ties**: for every rank
array of `s`, `sorted_original[idx]` succeeds, is a permutation of the data row, and the multiset of
pairs `(s[a], out[a])` is `zip (sorted s) (sorted row)`. -/
theorem remap_pairs_are_sorted_pairs (row s : List Rat) (idx : List Nat) (hlen : s.length = row.length)
    (h : RankOf s idx) :
    ∃ out, gather (sortR row) idx = some out ∧ out.Perm row ∧
      (s.zip out).Perm ((sortR s).zip (sortR row)) :=
  gather_sorted_rankOf row s idx hlen h

/-- two tie orders: the same multiset of (ranked value, output value) pairs — what the
correspondence compares when the ranked array has ties -/
theorem remap_tie_order_independent (row s : List Rat) (idx₁ idx₂ : List Nat)
    (hlen : s.length = row.length) (h₁ : RankOf s idx₁) (h₂ : RankOf s idx₂) :
    ∃ out₁ out₂, gather (sortR row) idx₁ = some out₁ ∧ gather (sortR row) idx₂ = some out₂ ∧
      (s.zip out₁).Perm (s.zip out₂) :=
  remap_tie_order_independent' row s idx₁ idx₂ hlen h₁ h₂

/-- the model's own `s.argsort().argsort()` (stable merge sort, twice) is a rank array -/
theorem model_ranks_are_a_rank_array (s : List Rat) : RankOf s (ranks s) := ranks_rankOf s

/-- **model ↔ code under ties**: whatever rank array numpy returned, the output of the code and the
output of the model `remap` have the same multiset of (ranked value, output value) pairs -/
theorem remap_equals_model_up_to_tie_order (row s : List Rat) (idx : List Nat)
    (hlen : s.length = row.length) (h : RankOf s idx) :
    ∃ out out', gather (sortR row) idx = some out ∧ remap row s = some out' ∧
      (s.zip out).Perm (s.zip out') :=
  remap_tie_order_independent_model row s idx hlen h

/-- … and without ties they are equal -/
theorem remap_equals_model_without_ties (row s : List Rat) (idx : List Nat)
    (hlen : s.length = row.length) (hs : s.Nodup) (h : RankOf s idx) :
    gather (sortR row) idx = remap row s :=
  remap_unique_of_nodup row s idx hlen hs h

/-- both tie orders of `[1, 1, 0]` are rank arrays -/
example : RankOf [1, 1, 0] [2, 1, 0] ∧ RankOf [1, 1, 0] [1, 2, 0] := by decide
/-- … and ranking the larger value first is not -/
example : ¬ RankOf [1, 1, 0] [0, 1, 2] := by decide

/-- the amplitude adjustment is co-monotone with the ranked array, whatever the tie order -/
theorem remap_comonotone (row s : List Rat) (idx : List Nat)
    (h : RankOf s idx) (out : List Rat) (ho : gather (sortR row) idx = some out)
    (a b : Nat) (x y u v : Rat) (hx : s[a]? = some x) (hy : s[b]? = some y)
    (hu : out[a]? = some u) (hv : out[b]? = some v) (hxy : x < y) : u ≤ v :=
  remap_comonotone' row s idx h out ho a b x y u v hx hy hu hv hxy

/-- without ties in the ranked array the output does not depend on the rank array at all -/
theorem remap_unique_without_ties (row s : List Rat) (idx₁ idx₂ : List Nat)
    (hlen : s.length = row.length) (hs : s.Nodup) (h₁ : RankOf s idx₁) (h₂ : RankOf s idx₂) :
    gather (sortR row) idx₁ = gather (sortR row) idx₂ :=
  remap_unique_of_nodup' row s idx₁ idx₂ hlen hs h₁ h₂

/-! ### Round 5f: `argsort().argsort()` is a rank array — proved, not assumed

Round 4's theorems above take `RankOf s idx` as a hypothesis about what numpy returned.  The
hypothesis is now reduced to what `numpy.argsort` promises on its face, for each of the two calls:
the result is *an* argsort of its argument (`IsArgsort` / `IsArgsortNat`: a permutation of the index
range along which the argument is non-decreasing; ties in any order).  The harness has the driver
decide exactly these two facts on numpy's own two index arrays in every case with ties; that they
make the second array a `RankOf` is `argsort_argsort_is_rank`. -/

/-- **`x.argsort().argsort()` is a rank array of `x` whatever order `argsort` gives to equal
values**: for ANY argsort `p` of `x` and ANY argsort `q` of `p`, `q` is a `RankOf x`. -/
theorem argsort_argsort_is_rank (x : List Rat) (p q : List Nat)
    (hp : IsArgsort x p) (hq : IsArgsortNat p q) : RankOf x q :=
  rankOf_of_argsort_argsort x p q hp hq

/-- the second argsort has no freedom: the first argsort is a permutation (distinct entries), its
argsort is unique, and it is the inverse permutation — `p[q[a]] = a` -/
theorem second_argsort_is_the_inverse (x : List Rat) (p q : List Nat)
    (hp : IsArgsort x p) (hq : IsArgsortNat p q) (a : Nat) (ha : a < x.length) :
    ∃ k, q[a]? = some k ∧ p[k]? = some a := by
  have hpl : p.length = x.length := by simpa using hp.1.length_eq
  obtain ⟨k, h1, _, h2⟩ := isArgsortNat_getElem p q (by rw [hpl]; exact hp.1) hq a (by omega)
  exact ⟨k, h1, h2⟩

/-- … so two runs of the second `argsort` on the same first argsort agree -/
theorem second_argsort_unique (x : List Rat) (p q₁ q₂ : List Nat) (hp : IsArgsort x p)
    (h₁ : IsArgsortNat p q₁) (h₂ : IsArgsortNat p q₂) : q₁ = q₂ := by
  have hpl : p.length = x.length := by simpa using hp.1.length_eq
  exact isArgsortNat_unique p q₁ q₂ (by rw [hpl]; exact hp.1) h₁ h₂

/-- the model's stable `argsort` / `argsortNat` are argsorts in this sense (so
`model_ranks_are_a_rank_array` is an instance of `argsort_argsort_is_rank`) -/
theorem model_argsorts_are_argsorts (s : List Rat) :
    IsArgsort s (argsort s) ∧ IsArgsortNat (argsort s) (ranks s) :=
  ⟨argsort_isArgsort s, argsortNat_isArgsortNat (argsort s)⟩

/-- `remap_pairs_are_sorted_pairs` with the checkable hypothesis: numpy's two argsorts are argsorts -/
theorem remap_pairs_are_sorted_pairs_of_argsorts (row s : List Rat) (p q : List Nat)
    (hlen : s.length = row.length) (hp : IsArgsort s p) (hq : IsArgsortNat p q) :
    ∃ out, gather (sortR row) q = some out ∧ out.Perm row ∧
      (s.zip out).Perm ((sortR s).zip (sortR row)) :=
  gather_sorted_of_argsorts row s p q hlen hp hq

/-- `remap_tie_order_independent` with the checkable hypothesis: two different first argsorts (two
tie orders) give the same multiset of (ranked value, output value) pairs -/
theorem remap_tie_order_independent_of_argsorts (row s : List Rat) (p₁ q₁ p₂ q₂ : List Nat)
    (hlen : s.length = row.length) (hp₁ : IsArgsort s p₁) (hq₁ : IsArgsortNat p₁ q₁)
    (hp₂ : IsArgsort s p₂) (hq₂ : IsArgsortNat p₂ q₂) :
    ∃ out₁ out₂, gather (sortR row) q₁ = some out₁ ∧ gather (sortR row) q₂ = some out₂ ∧
      (s.zip out₁).Perm (s.zip out₂) :=
  remap_tie_order_independent' row s q₁ q₂ hlen
    (rankOf_of_argsort_argsort s p₁ q₁ hp₁ hq₁)
    (rankOf_of_argsort_argsort s p₂ q₂ hp₂ hq₂)

/-- `remap_equals_model_up_to_tie_order` with the checkable hypothesis -/
theorem remap_equals_model_up_to_tie_order_of_argsorts (row s : List Rat) (p q : List Nat)
    (hlen : s.length = row.length) (hp : IsArgsort s p) (hq : IsArgsortNat p q) :
    ∃ out out', gather (sortR row) q = some out ∧ remap row s = some out' ∧
      (s.zip out).Perm (s.zip out') :=
  remap_tie_order_independent_model row s q hlen (rankOf_of_argsort_argsort s p q hp hq)

/-- `remap_equals_model_without_ties` with the checkable hypothesis -/
theorem remap_equals_model_without_ties_of_argsorts (row s : List Rat) (p q : List Nat)
    (hlen : s.length = row.length) (hs : s.Nodup) (hp : IsArgsort s p) (hq : IsArgsortNat p q) :
    gather (sortR row) q = remap row s :=
  remap_unique_of_nodup row s q hlen hs (rankOf_of_argsort_argsort s p q hp hq)

/-- `remap_comonotone` with the checkable hypothesis -/
theorem remap_comonotone_of_argsorts (row s : List Rat) (p q : List Nat)
    (hp : IsArgsort s p) (hq : IsArgsortNat p q) (out : List Rat)
    (ho : gather (sortR row) q = some out)
    (a b : Nat) (x y u v : Rat) (hx : s[a]? = some x) (hy : s[b]? = some y)
    (hu : out[a]? = some u) (hv : out[b]? = some v) (hxy : x < y) : u ≤ v :=
  remap_comonotone' row s q (rankOf_of_argsort_argsort s p q hp hq) out ho a b x y u v
    hx hy hu hv hxy

/-- `remap_unique_without_ties` with the checkable hypothesis -/
theorem remap_unique_without_ties_of_argsorts (row s : List Rat) (p₁ q₁ p₂ q₂ : List Nat)
    (hlen : s.length = row.length) (hs : s.Nodup) (hp₁ : IsArgsort s p₁)
    (hq₁ : IsArgsortNat p₁ q₁) (hp₂ : IsArgsort s p₂) (hq₂ : IsArgsortNat p₂ q₂) :
    gather (sortR row) q₁ = gather (sortR row) q₂ :=
  remap_unique_of_nodup' row s q₁ q₂ hlen hs
    (rankOf_of_argsort_argsort s p₁ q₁ hp₁ hq₁)
    (rankOf_of_argsort_argsort s p₂ q₂ hp₂ hq₂)

/-- non-vacuity: both tie orders of `[1, 1, 0]` are argsorts (the stable one `[2, 0, 1]` and the
unstable one `[2, 1, 0]`), each has exactly its inverse as argsort, and the two resulting rank
arrays are the two `RankOf`s of round 4's example -/
example : IsArgsort [1, 1, 0] [2, 0, 1] ∧ IsArgsortNat [2, 0, 1] [1, 2, 0] ∧
    IsArgsort [1, 1, 0] [2, 1, 0] ∧ IsArgsortNat [2, 1, 0] [2, 1, 0] := by decide
/-- … the hypotheses are not vacuous and not trivially true: an index row that reads the larger
value first is not an argsort, a non-permutation is not, and a wrong inverse is not -/
example : ¬ IsArgsort [1, 1, 0] [0, 1, 2] ∧ ¬ IsArgsort [1, 1, 0] [2, 2, 0] ∧
    ¬ IsArgsortNat [2, 0, 1] [2, 1, 0] := by decide
/-- … and the conclusion is used: the theorem applied to the unstable tie order -/
example : RankOf [1, 1, 0] [2, 1, 0] :=
  argsort_argsort_is_rank [1, 1, 0] [2, 1, 0] [2, 1, 0] (by decide) (by decide)
/-- the remapping under the unstable tie order: a permutation of the row with the sorted pairs -/
example : ∃ out, gather (sortR [5, 3, 4]) [2, 1, 0] = some out ∧ out.Perm [5, 3, 4] ∧
    (([1, 1, 0] : List Rat).zip out).Perm ((sortR [1, 1, 0]).zip (sortR [5, 3, 4])) :=
  remap_pairs_are_sorted_pairs_of_argsorts [5, 3, 4] [1, 1, 0] [2, 1, 0] [2, 1, 0] rfl
    (by decide) (by decide)

/-! ### `correlated_noise_surrogates`, statement by statement

`Generated/StructC15.lean` (`translate/gen_C15.py`, every run) holds the body of the method as a list
of `FStep`s; `fourierMethodCalls` executes it over a call history on one object (memoised FFT,
aliasing of the local name with the memoised array). -/

open Pyunicorn.Generated in
set_option linter.unusedTactic false in
set_option linter.unreachableTactic false in
/-- the body found in the source is one the spectrum theorem covers: fetch the memoised FFT, draw
one phase per `rfft` bin, multiply (into a copy or in place), hand the product to `irfft` — nothing
else touches the spectrum (seed C15-5 inserted `S[:, 0] = S[:, 0].real; S[:, -1] = S[:, -1].real`). -/
theorem fourier_method_body_covered : ∃ m, StructC15.fourierBody = expectedBody m := by
  first
    | exact ⟨.copy, rfl⟩
    | exact ⟨.inplace, rfl⟩

open Pyunicorn.Generated in
/-- **Fourier surrogates keep the amplitude spectrum — for the method body as it stands in the
source**: every call of every history on one object succeeds and its output has the amplitudes of
the data at every `0 < f`, `2f < n` (for odd `n` that includes the last `rfft` bin). -/
theorem fourier_method_keeps_amplitudes {n : ℕ} [NeZero n] (x : ZMod n → ℝ)
    (phases : List (List ℝ)) (h : ∀ φs ∈ phases, φs.length = n / 2 + 1) :
    ∃ outs, fourierMethodCalls realTrig StructC15.fourierBody (spectrum x) phases = some outs ∧
      outs.length = phases.length ∧
      ∀ out ∈ outs, ∀ f, 0 < f → 2 * f < n →
        ‖DFT.rfft (DFT.irfft (n := n) (rowFn out)) f‖ = ‖DFT.rfft x f‖ := by
  obtain ⟨m, hm⟩ := fourier_method_body_covered
  rw [hm, fourierMethodCalls_expected realTrig m (spectrum x) phases
    (fun φs hφ => by rw [spectrum_length]; exact h φs hφ)]
  exact ⟨_, rfl, fourierCalls_length _ _ _ _, fourierCalls_surrogate_amplitudes x m phases h⟩

/-- a wrong number of phases raises (numpy cannot broadcast), it does not truncate the spectrum -/
theorem fourier_method_wrong_phase_count_raises (m : Mode) (cache : List (ℝ × ℝ)) (φs : List ℝ)
    (h : φs.length ≠ cache.length) : fourierMethodCall realTrig (expectedBody m) cache φs = none :=
  fourierMethodCall_bad_phases realTrig m cache φs h

/-- **the last `rfft` bin of an odd length is an ordinary frequency**, not a Nyquist bin: the
`irfft`/`rfft` round trip keeps its full complex value (so the statement's "non-Nyquist" excludes
nothing for odd `n`, and `fourier_surrogates_keep_amplitudes` covers the bin `(n-1)/2`). -/
theorem last_bin_of_odd_length_is_not_nyquist {n : ℕ} [NeZero n] (hodd : n % 2 = 1) (h3 : 3 ≤ n)
    (Z : ℕ → ℂ) : DFT.rfft (DFT.irfft (n := n) Z) (n / 2) = Z (n / 2) :=
  DFT.rfft_irfft Z (n / 2) (by omega) (by omega)

/-- what seed C15-5 did: replacing the last bin by its real part before `irfft` changes the
amplitude of that frequency to `|Re Z|` when `n` is odd (for even `n` it is what `irfft` does
anyway, `rfft_irfft_dc_nyquist_real_part`) -/
theorem forcing_last_bin_real_changes_amplitude {n : ℕ} [NeZero n] (hodd : n % 2 = 1) (h3 : 3 ≤ n)
    (Z : ℕ → ℂ) :
    ‖DFT.rfft (DFT.irfft (n := n) (Function.update Z (n / 2) (((Z (n / 2)).re : ℝ) : ℂ))) (n / 2)‖
      = |(Z (n / 2)).re| := by
  rw [DFT.rfft_irfft _ (n / 2) (by omega) (by omega), Function.update_self, Complex.norm_real,
    Real.norm_eq_abs]

example : ‖DFT.rfft (DFT.irfft (n := 3) (Function.update (fun _ => Complex.I) (3 / 2)
    ((((fun _ : ℕ => Complex.I) (3 / 2)).re : ℝ) : ℂ))) (3 / 2)‖ = 0 := by
  rw [forcing_last_bin_real_changes_amplitude (by decide) (by decide)]; simp

/-! ### the Fourier surrogates of the pure-Python coupling class (`real(ifft(W))` of a full spectrum)

`Model/SurrogatesCoupling.lean` (`cnsStep`, `cnsCalls`) follows `CouplingAnalysisPurePython.
correlatedNoiseSurrogates` on the slices of the source; the DFT facts it rests on: -/

/-- a Hermitian full spectrum survives `real(ifft(·))` followed by `fft` at **every** bin — why the
mirrored negative frequencies must be the *frequency-reversed* conjugates (`numpy.fliplr`) -/
theorem hermitian_spectrum_survives_real_ifft {n : ℕ} [NeZero n] (W : ZMod n → ℂ)
    (hW : ∀ k, W (-k) = (starRingEnd ℂ) (W k)) :
    ZMod.dft (fun t => ((realIfft W t : ℝ) : ℂ)) = W :=
  dft_realIfft_of_hermitian W hW

/-- without the symmetry the surrogate has the spectrum `(W(k) + conj W(-k)) / 2` — what the
repaired `numpy.flipud` (node axis) version produced, amplitudes not kept -/
theorem real_ifft_spectrum_general {n : ℕ} [NeZero n] (W : ZMod n → ℂ) (k : ZMod n) :
    ZMod.dft (fun t => ((realIfft W t : ℝ) : ℂ)) k = (W k + (starRingEnd ℂ) (W (-k))) / 2 :=
  dft_realIfft_general W k

/-- both branches of the source's `lenPhase` (`(ntime - 2) // 2` for even, `(ntime - 1) // 2` for odd
lengths) are `(ntime - 1) div 2`: the number of strictly positive, non-Nyquist frequencies -/
theorem coupling_lenPhase_is_half (n : ℕ) (hn : 1 ≤ n) :
    cnsLen (n : Int) = (((n - 1) / 2 : ℕ) : Int) :=
  cnsLen_natCast n hn

example : cnsLen 6 = 2 ∧ cnsLen 7 = 3 ∧ cnsLen 1 = 0 ∧ cnsLen 2 = 0 := by decide

/-- one call, for **every** array of the shape `DC :: positive ++ Nyquist? ++ negative` (any content,
any number type): the slice bounds of the source (`1:lenPhase+1`, `lenPhase+2:ntime` resp.
`lenPhase+1:ntime`, both parity tests — `Generated/ArithC15.lean`) select exactly these blocks; the
call returns DC and Nyquist untouched, the positive frequencies multiplied by the unit phases and
the negative frequencies overwritten by the reversed conjugates of the *new* positive ones -/
theorem coupling_step_on_blocks {α : Type} [Add α] [Sub α] [Mul α] [Neg α] (T : Trig α)
    (d : α × α) (P Mid Q : List (α × α)) (φs : List α)
    (hQ : Q.length = P.length) (hM : Mid.length ≤ 1) (hφ : φs.length = P.length) :
    cnsStep T (d :: (P ++ Mid ++ Q)) φs
      = some (d :: (rotRow T P φs ++ Mid ++ ((rotRow T P φs).map conjP).reverse)) :=
  cnsStep_decomp T d P Mid Q φs hQ hM hφ

/-- every non-empty array has that shape, so `coupling_step_on_blocks` is about every input -/
theorem coupling_blocks_exist {β : Type} (T : List β) :
    ∃ P Mid Q, T = P ++ Mid ++ Q ∧ P.length = T.length / 2 ∧ Q.length = P.length ∧
      Mid.length ≤ 1 :=
  cns_blocks_exist T

/-- a number of phases other than the source's `lenPhase` is a shape error (`none`), for every
non-empty array — nothing below is true thanks to a silently truncated `zipWith` -/
theorem coupling_wrong_phase_count_raises {α : Type} [Add α] [Sub α] [Mul α] [Neg α] (T : Trig α)
    (W : List (α × α)) (hW : W ≠ []) (φs : List α)
    (h : (φs.length : Int) ≠ cnsLen (W.length : Int)) : cnsStep T W φs = none :=
  cnsStep_wrong_phase_count T W hW φs h

/-- `numpy.fft.fft` of a real series (the array the class memoises) is Hermitian: real DC bin, the
other bins read backwards are their conjugates -/
theorem coupling_fft_of_real_series_is_hermitian {n : ℕ} [NeZero n] (x : ZMod n → ℝ) :
    HermL (fullSpectrum x) :=
  fullSpectrum_hermL x

/-- the invariant of the memoised array: one call on a Hermitian array with the source's number of
phases succeeds, leaves a Hermitian array, and keeps the modulus at **every** bin -/
theorem coupling_step_keeps_hermitian_and_moduli (W : List (ℝ × ℝ)) (hW : HermL W) (φs : List ℝ)
    (hφ : (φs.length : Int) = cnsLen (W.length : Int)) :
    ∃ out, cnsStep realTrig W φs = some out ∧ HermL out ∧
      out.map Pyunicorn.Surrogates.normSq = W.map Pyunicorn.Surrogates.normSq :=
  cnsStep_hermitian W hW φs hφ

/-- the list predicate `HermL` is the symmetry `W(-k) = conj W(k)` on `ZMod n` that
`hermitian_spectrum_survives_real_ifft` needs -/
theorem coupling_hermitian_list_is_hermitian_function {n : ℕ} [NeZero n] (W : List (ℝ × ℝ))
    (hW : HermL W) (hl : W.length = n) (k : ZMod n) :
    fullFn W (-k) = (starRingEnd ℂ) (fullFn W k) :=
  fullFn_hermitian W hW hl k

/-- **`CouplingAnalysisPurePython.correlatedNoiseSurrogates` keeps the amplitude spectrum**: for
every real series of every length `n ≥ 1`, every history of calls on one object (the phases are
multiplied into the memoised FFT in place, so call `k` starts from what call `k-1` left), with the
number of phases the source draws: every call succeeds and `real(ifft(·))` of the array it hands to
`ifft` has the amplitude of the data at **every** bin `k` (DC and Nyquist included).  `fullSpectrum`
/ `realIfft` are the DFT pair `numpy.fft.fft` / `real(numpy.fft.ifft)` compute up to rounding (the
remaining trusted fact, compared with the explicit sums on every run). -/
theorem coupling_fourier_surrogates_keep_amplitudes {n : ℕ} [NeZero n] (x : ZMod n → ℝ)
    (phases : List (List ℝ)) (h : ∀ φs ∈ phases, (φs.length : Int) = cnsLen (n : Int)) :
    ∃ outs, cnsCalls realTrig (fullSpectrum x) phases = some outs ∧ outs.length = phases.length ∧
      ∀ out ∈ outs, ∀ k : ZMod n,
        ‖ZMod.dft (fun t => ((realIfft (fullFn out) t : ℝ) : ℂ)) k‖
          = ‖ZMod.dft (fun t => (x t : ℂ)) k‖ :=
  cnsCalls_surrogate_amplitudes x phases h

/-- non-vacuity: length 5 (two phases per call), three calls on one object -/
example (x : ZMod 5 → ℝ) : ∃ outs, cnsCalls realTrig (fullSpectrum x) [[1, 2], [0, 3], [5, 5]]
    = some outs ∧ outs.length = 3 :=
  let ⟨outs, h, hl, _⟩ := coupling_fourier_surrogates_keep_amplitudes x [[1, 2], [0, 3], [5, 5]]
    (by intro φs hφ; simp only [List.mem_cons, List.not_mem_nil, or_false] at hφ
        rcases hφ with rfl | rfl | rfl <;> decide)
  ⟨outs, h, hl⟩

/-- non-vacuity of `HermL`: a Hermitian array of even length with a non-real bin -/
example : HermL [(10, 0), (1, 2), (30, 0), (1, -2)] :=
  ⟨(10, 0), [(1, 2), (30, 0), (1, -2)], rfl, rfl, by simp [conjP]⟩

/-- one call on the memoised full FFT of a series of length 6 (multiplication by `i`): DC and
Nyquist untouched, bins 1-2 rotated, bins 4-5 the reversed conjugates -/
example : cnsStep (⟨fun _ => 0, fun _ => 1⟩ : Trig Int)
    [(10, 0), (1, 2), (3, 4), (30, 0), (3, -4), (1, -2)] [7, 7]
    = some [(10, 0), (-2, 1), (-4, 3), (30, 0), (-4, -3), (-2, -1)] := by decide +kernel

/-- a wrong number of phases is a shape error -/
example : cnsStep (⟨fun _ => 0, fun _ => 1⟩ : Trig Int)
    [(10, 0), (1, 2), (3, 4), (3, -4), (1, -2)] [7] = none := by decide +kernel

/-! ### `normalize_original_data` (exact arithmetic; `mean`, `std` as the method computes them are
inputs: the theorems hold for whatever values they are given, the hypotheses say what they are) -/

/-- the loop succeeds whenever `mean`, `std` have an entry per series and keeps the shape of the
data — so the hypothesis `Op.Ok` of `twin_surrogates_every_history` holds for the array it leaves -/
theorem normalize_keeps_shape (O : NormOps α) (ms ss : List α) (data : List (List α))
    (hm : data.length ≤ ms.length) (hs : data.length ≤ ss.length) :
    ∃ out, normalizeRows O ms ss data = some out ∧
      List.Forall₂ (fun o r => o.length = r.length) out data :=
  normalizeRows_shape O ms ss data hm hs

theorem normalize_zero_mean (m s : ℝ) (row : List ℝ) (hm : row.length * m = row.sum) :
    (normalizeRow realNormOps m s row).sum = 0 :=
  normalizeRow_sum_zero m s row hm

theorem normalize_unit_variance (m s : ℝ) (row : List ℝ) (hs : s ≠ 0)
    (hv : ((row.map (· - m)).map fun y => y * y).sum = row.length * (s * s)) :
    ((normalizeRow realNormOps m s row).map fun y => y * y).sum = row.length :=
  normalizeRow_unit_variance m s row hs hv

/-- a constant series has `std = 0`: it becomes the zero series, nothing is divided -/
theorem normalize_constant_series (m : ℝ) (row : List ℝ) (hc : ∀ x ∈ row, x = m) :
    normalizeRow realNormOps m 0 row = List.replicate row.length 0 :=
  normalizeRow_constant m row hc

/-- normalisation is strictly increasing sample by sample: order, ties and every rank array of a
series survive it (so do the permutation clauses, which refer to the data held now) -/
theorem normalize_strictly_increasing (m s : ℝ) (hs : 0 < s) (x y : ℝ) :
    (x - m) / s < (y - m) / s ↔ x < y :=
  normalize_strict_mono m s hs x y

example : normalizeRow ratNormOps 2 (1 / 2) [1, 2, 3] = [-2, 0, 2] := by decide +kernel

/-- a walk that jumps to the future of a twin (2 → 0+1), moves on, and restarts at the end -/
example : walkRow 4 [[2], [], [0], []] (fun c m => [2, 0, 3, 1].getD c 0 % m) 0
    = some ([2, 1, 2, 3], 4) := by decide +kernel

example : GoodPick (fun c m => [2, 0, 3, 1].getD c 0 % m) := fun _ _ hm => Nat.mod_lt _ hm

end Pyunicorn.Surrogates
