import Pyunicorn.Lemmas.Recurrence
import Pyunicorn.Model.RecurrenceObjects
/-!
# C07 — recurrence matrices are exactly the thresholded distance matrices

Statements about the models `Pyunicorn.Recurrence` (kernels, `Model/Recurrence.lean`)
and the object-level compositions (`Model/RecurrenceObjects.lean`) with the index
expressions regenerated from the source (`Generated/ArithC07.lean`).  The models
are tied to the code by `harness/c07.py`.
-/
namespace Pyunicorn.Recurrence
open Pyunicorn.Generated

/-! ### embedding -/

/-- the embedded length the code allocates is `n − (dim−1)·τ` -/
theorem embedLen_eq (n dim tau : Int) :
    ArithC07.embedLen n dim tau = n - (dim - 1) * tau ∧ ArithC07.embedCols n dim tau = dim := by
  simp [ArithC07.embedLen, ArithC07.embedCols]

/-- every read `time_series[j*tau + k]` of the embedding kernel is inside the series -/
theorem embed_index_lt (n dim tau k j : Nat) (hj : j < dim)
    (hk : (k : Int) < ArithC07.embedLen n dim tau) : j * tau + k < n := by
  simp only [ArithC07.embedLen] at hk
  have h1 : (j : Int) * tau ≤ ((dim : Int) - 1) * tau :=
    Int.mul_le_mul_of_nonneg_right (by omega) (by omega)
  have : ((j * tau + k : Nat) : Int) < n := by push_cast; omega
  exact_mod_cast this

/-- state vector `k` of the embedding is `(x[k], x[k+τ], …, x[k+(dim−1)τ])` -/
theorem embed_entry (ts : List V) (dim tau len k j : Nat) (hk : k < len) (hj : j < dim) :
    entry (embed ts dim tau len) k j = some (ts.getD (j * tau + k) none) := by
  simp [embed, entry_tab, hk, hj]

example : embed [some 0, some 1, some 2, some 3, some 4, some 5, some 6] 3 2 3
    = [[some 0, some 2, some 4], [some 1, some 3, some 5], [some 2, some 4, some 6]] := by decide

/-! ### distance kernels -/

/-- the triangular kernels produce a symmetric matrix … -/
theorem rpEntry_symm (m : Metric) (emb : List (List V)) (j k : Nat) :
    rpEntry m emb j k = rpEntry m emb k j := by
  unfold rpEntry
  by_cases h1 : k < j <;> by_cases h2 : j < k <;> simp [h1, h2] <;> omega

/-- … with zero diagonal -/
theorem rpEntry_diag (m : Metric) (emb : List (List V)) (j : Nat) :
    rpEntry m emb j j = some 0 := by
  simp [rpEntry]

/-- off the diagonal the entry is the metric of the two state vectors (in either order) -/
theorem rpEntry_eq_dist (m : Metric) (emb : List (List V)) (j k : Nat) (h : j ≠ k) :
    rpEntry m emb j k = dist m (rowOf emb j) (rowOf emb k) := by
  unfold rpEntry
  by_cases h1 : k < j
  · simp [h1]
  · have h2 : j < k := by omega
    simp [h1, h2, dist_comm]

/-! ### thresholding -/

/-- **fixed threshold, no missing-value treatment**: `R[i,j] = 1` exactly when the
kernel distance is below the threshold (in the kernel's units, see `unitThr`). -/
theorem rec_iff_dist_lt (m : Metric) (emb : List (List V)) (eps : Rat) (i j : Nat)
    (hi : i < emb.length) (hj : j < emb.length) :
    entry (fixedThreshold m emb eps false) i j
      = some (ltV (rpEntry m emb i j) (some (unitThr m eps))) := by
  simp [fixedThreshold, threshold, distRP, entry_map_map, entry_tab, hi, hj]

example : fixedThreshold .supremum (column [some 0, some 1, some 3]) (3/2) false
    = [[true, true, false], [true, true, false], [false, false, true]] := by decide +kernel

end Pyunicorn.Recurrence
