import Pyunicorn.Lemmas.Recurrence
import Pyunicorn.Lemmas.RecurrenceReal
import Pyunicorn.Model.RecurrenceObjects
import Pyunicorn.Lemmas.RecurrenceAdaptive
import Pyunicorn.Lemmas.RecurrenceAffine
import Pyunicorn.Lemmas.RecurrenceStd
import Pyunicorn.Lemmas.RecurrenceRound3
import Pyunicorn.Lemmas.RecurrenceStruct
import Pyunicorn.Lemmas.RecurrenceNormCols
import Pyunicorn.Lemmas.RecurrenceDiag
import Pyunicorn.Lemmas.RecurrenceTies
import Pyunicorn.Model.RecurrenceAdaptiveObj
/-!
# C07 — recurrence matrices are exactly the thresholded distance matrices

Statements about the models `Pyunicorn.Recurrence` (kernels, `Model/Recurrence.lean`)
and the object-level compositions (`Model/RecurrenceObjects.lean`) with the index
expressions regenerated from the source (`Generated/ArithC07.lean`).  The models
are tied to the code by `harness/c07.py`.
-/
namespace Pyunicorn.Recurrence
open Pyunicorn.Generated

/-! ### embedding -/

/-- the embedded length the code allocates is `n − (dim−1)·τ` -/
theorem embedLen_eq (n dim tau : Int) :
    ArithC07.embedLen n dim tau = n - (dim - 1) * tau ∧ ArithC07.embedCols n dim tau = dim := by
  simp [ArithC07.embedLen, ArithC07.embedCols]

/-- every read `time_series[j*tau + k]` of the embedding kernel is inside the series -/
theorem embed_index_lt (n dim tau k j : Nat) (hj : j < dim)
    (hk : (k : Int) < ArithC07.embedLen n dim tau) : j * tau + k < n := by
  simp only [ArithC07.embedLen] at hk
  have h1 : (j : Int) * tau ≤ ((dim : Int) - 1) * tau :=
    Int.mul_le_mul_of_nonneg_right (by omega) (by omega)
  have : ((j * tau + k : Nat) : Int) < n := by push_cast; omega
  exact_mod_cast this

/-- state vector `k` of the embedding is `(x[k], x[k+τ], …, x[k+(dim−1)τ])` -/
theorem embed_entry (ts : List V) (dim tau len k j : Nat) (hk : k < len) (hj : j < dim) :
    entry (embed ts dim tau len) k j = some (ts.getD (j * tau + k) none) := by
  simp [embed, entry_tab, hk, hj]

example : embed [some 0, some 1, some 2, some 3, some 4, some 5, some 6] 3 2 3
    = [[some 0, some 2, some 4], [some 1, some 3, some 5], [some 2, some 4, some 6]] := by decide

/-! ### distance kernels -/

/-- the triangular kernels produce a symmetric matrix … -/
theorem rpEntry_symm (m : Metric) (emb : List (List V)) (j k : Nat) :
    rpEntry m emb j k = rpEntry m emb k j := by
  unfold rpEntry
  by_cases h1 : k < j <;> by_cases h2 : j < k <;> simp [h1, h2] <;> omega

/-- … with zero diagonal -/
theorem rpEntry_diag (m : Metric) (emb : List (List V)) (j : Nat) :
    rpEntry m emb j j = some 0 := by
  simp [rpEntry]

/-- off the diagonal the entry is the metric of the two state vectors (in either order) -/
theorem rpEntry_eq_dist (m : Metric) (emb : List (List V)) (j k : Nat) (h : j ≠ k) :
    rpEntry m emb j k = dist m (rowOf emb j) (rowOf emb k) := by
  unfold rpEntry
  by_cases h1 : k < j
  · simp [h1]
  · have h2 : j < k := by omega
    simp [h1, h2, dist_comm]

/-! ### thresholding -/

/-- **fixed threshold, no missing-value treatment**: `R[i,j] = 1` exactly when the
kernel distance is below the threshold (in the kernel's units, see `unitThr`). -/
theorem rec_iff_dist_lt (m : Metric) (emb : List (List V)) (eps : Rat) (i j : Nat)
    (hi : i < emb.length) (hj : j < emb.length) :
    entry (fixedThreshold m emb eps false) i j
      = some (ltV (rpEntry m emb i j) (some (unitThr m eps))) := by
  simp [fixedThreshold, threshold, distRP, entry_map_map, entry_tab, hi, hj]

example : fixedThreshold .supremum (column [some 0, some 1, some 3]) (3/2) false
    = [[true, true, false], [true, true, false], [false, false, true]] := by decide +kernel


/-! ### missing values -/

/-- a state vector holds a missing value -/
def missingAt (emb : List (List V)) (i : Nat) : Bool := (missingMask emb).getD i false

/-- **never recurrent when either state holds a missing value** — the masking block
shared by `set_fixed_threshold`, `set_fixed_recurrence_rate` and
`set_fixed_local_recurrence_rate` clears the entry whatever the thresholding gave -/
theorem masked_never_recurrent (emb : List (List V)) (R : List (List Bool)) (i j : Nat)
    (h : missingAt emb i = true ∨ missingAt emb j = true) :
    entry (maskIf true emb R) i j = none ∨ entry (maskIf true emb R) i j = some false := by
  simp only [maskIf, if_true, applyMask_entry]
  cases hR : entry R i j with
  | none => simp
  | some b =>
    right
    rcases h with h | h <;> simp [missingAt] at h <;> simp [h]

/-- … and leaves every other entry as thresholded -/
theorem masked_keeps_complete (emb : List (List V)) (R : List (List Bool)) (i j : Nat)
    (hi : missingAt emb i = false) (hj : missingAt emb j = false) :
    entry (maskIf true emb R) i j = entry R i j := by
  simp only [maskIf, if_true, applyMask_entry]
  simp [missingAt] at hi hj
  cases hR : entry R i j <;> simp [hi, hj]

/-- `set_fixed_threshold` with `missing_values=True`, all clauses together -/
theorem rec_iff_dist_lt_missing (m : Metric) (emb : List (List V)) (eps : Rat) (i j : Nat)
    (hi : i < emb.length) (hj : j < emb.length) :
    entry (fixedThreshold m emb eps true) i j
      = some (ltV (rpEntry m emb i j) (some (unitThr m eps))
              && !missingAt emb i && !missingAt emb j) := by
  simp [fixedThreshold, applyMask_entry, threshold, distRP, entry_map_map, entry_tab, hi, hj,
    missingAt]

example : fixedThreshold .manhattan (column [some 0, none, some 1]) 2 true
    = [[true, false, true], [false, false, false], [true, false, true]] := by decide +kernel

/-! ### fixed recurrence rate: the quantile -/

/-- the index `int(rr·(N−1))` is a valid position of the sorted distances for every
rate in `[0, 1]` and every non-empty array: `threshold_from_recurrence_rate` cannot fail -/
theorem rate_index_in_range (rr : Rat) (N : Nat) (h1 : rr ≤ 1) (hN : 1 ≤ N) :
    rateK rr N < N := by
  unfold rateK ArithC07.rateIndex
  have hx : rr * (((N : Int) - 1 : Int) : Rat) ≤ (((N : Int) - 1 : Int) : Rat) := by
    have hn : (0 : Rat) ≤ (((N : Int) - 1 : Int) : Rat) := by
      have : (0 : Int) ≤ (N : Int) - 1 := by omega
      exact_mod_cast this
    calc rr * (((N : Int) - 1 : Int) : Rat) ≤ 1 * (((N : Int) - 1 : Int) : Rat) :=
          Rat.mul_le_mul_of_nonneg_right h1 hn
      _ = _ := by simp
  have hfl : (rr * (((N : Int) - 1 : Int) : Rat)).floor ≤ (N : Int) - 1 := by
    have := Rat.floor_le (rr * (((N : Int) - 1 : Int) : Rat))
    have h2 : ((rr * (((N : Int) - 1 : Int) : Rat)).floor : Rat) ≤ (((N : Int) - 1 : Int) : Rat) :=
      Rat.le_trans this hx
    exact_mod_cast h2
  omega

/-- the index never exceeds `rr·N`: at most the requested share of the entries -/
theorem rate_index_le (rr : Rat) (N : Nat) (h0 : 0 ≤ rr) (hN : 1 ≤ N) :
    (rateK rr N : Rat) ≤ rr * N := by
  unfold rateK ArithC07.rateIndex
  have hn : (0 : Rat) ≤ (((N : Int) - 1 : Int) : Rat) := by
    have : (0 : Int) ≤ (N : Int) - 1 := by omega
    exact_mod_cast this
  have hx0 : 0 ≤ rr * (((N : Int) - 1 : Int) : Rat) := Rat.mul_nonneg h0 hn
  have hfl0 : 0 ≤ (rr * (((N : Int) - 1 : Int) : Rat)).floor := Rat.le_floor_iff.mpr (by simpa using hx0)
  have h1 : (((rr * (((N : Int) - 1 : Int) : Rat)).floor.toNat : Nat) : Rat)
      = ((rr * (((N : Int) - 1 : Int) : Rat)).floor : Rat) := by
    have : (((rr * (((N : Int) - 1 : Int) : Rat)).floor.toNat : Nat) : Int)
        = (rr * (((N : Int) - 1 : Int) : Rat)).floor := Int.toNat_of_nonneg hfl0
    exact_mod_cast this
  rw [h1]
  refine Rat.le_trans (Rat.floor_le _) ?_
  have : (((N : Int) - 1 : Int) : Rat) ≤ (N : Rat) := by
    have : (N : Int) - 1 ≤ (N : Int) := by omega
    exact_mod_cast this
  exact Rat.mul_le_mul_of_nonneg_left this h0

theorem countTrue_threshold (D : List (List V)) (t : V) :
    countTrue (threshold D t).flatten = D.flatten.countP (fun d => ltV d t) := by
  unfold countTrue threshold
  induction D with
  | nil => simp
  | cons r D ih =>
    simp only [List.map_cons, List.flatten_cons, List.countP_append, ih]
    congr 1
    rw [List.countP_map]; rfl

/-- **global fixed rate**: the matrix is the distance matrix thresholded at the
`k`-th smallest of all its entries, and at most `k` entries are recurrent; together
with `rate_index_le` the realised rate never exceeds the requested one. -/
theorem global_rate_le (D : List (List V)) (k : Nat) (R : List (List Bool))
    (h : fixedRate D k = some R) :
    ∃ t, (sortV D.flatten)[k]? = some t ∧ R = threshold D t ∧ countTrue R.flatten ≤ k := by
  unfold fixedRate quantileAt at h
  cases ht : (sortV D.flatten)[k]? with
  | none => simp [ht] at h
  | some t =>
    simp [ht] at h
    refine ⟨t, rfl, h.symm, ?_⟩
    rw [← h, countTrue_threshold, ← (sortV_perm D.flatten).countP_eq]
    exact countP_lt_sorted_le _ k t (sortV_pairwise _) ht

/-- … and it misses `k` only by ties at the selected distance: at least `k+1`
entries are `≤` the threshold -/
theorem global_rate_ties (D : List (List V)) (k : Nat) (t : V)
    (ht : (sortV D.flatten)[k]? = some t) :
    k + 1 ≤ D.flatten.countP (fun d => leV d t) := by
  rw [← (sortV_perm D.flatten).countP_eq]
  exact countP_le_sorted_ge _ k t (sortV_pairwise _) ht

/-- **local fixed rate**: every row is thresholded at its own `k`-th smallest distance
and therefore has at most `k` recurrences … -/
theorem local_rate_row_count (row : List V) (k : Nat) (t : V)
    (ht : quantileAt row k = some t) :
    countTrue (row.map fun d => ltV d t) ≤ k := by
  unfold countTrue
  rw [List.countP_map]
  unfold quantileAt at ht
  have := countP_lt_sorted_le _ k t (sortV_pairwise row) ht
  rw [(sortV_perm row).countP_eq] at this
  exact this

/-- … exactly `k` of them iff there is no tie at the cut (`sorted[k-1] < sorted[k]`);
rows with a tie get fewer, so rows can differ (known finding C07-local-rate-ties) -/
theorem local_rate_row_count_eq (row : List V) (k : Nat) (t p : V)
    (ht : quantileAt row (k + 1) = some t) (hp : (sortV row)[k]? = some p) :
    countTrue (row.map fun d => ltV d t) = k + 1 ↔ ltV p t = true := by
  unfold countTrue
  rw [List.countP_map]
  unfold quantileAt at ht
  have := countP_lt_sorted_eq _ k t p (sortV_pairwise row) ht hp
  rw [(sortV_perm row).countP_eq] at this
  exact this

/-- for `k = 0` no entry is recurrent -/
theorem local_rate_row_zero (row : List V) (t : V) (ht : quantileAt row 0 = some t) :
    countTrue (row.map fun d => ltV d t) = 0 :=
  Nat.le_zero.mp (local_rate_row_count row 0 t ht)

/-- a sorted row with a tie at the cut `k = 2` (two recurrences requested, one
obtained) and none at the cut `k = 1` -/
example : let s : List V := [some 0, some 1, some 1, some 3]
    s.Pairwise (fun a b => leV a b = true) ∧ s[2]? = some (some 1) ∧ s[1]? = some (some 1)
      ∧ ltV (some 1) (some 1) = false ∧ s.countP (fun d => ltV d (some 1)) = 1
      ∧ s[0]? = some (some 0) ∧ ltV (some 0) (some 1) = true := by decide +kernel


/-! ### network = recurrence matrix without its diagonal -/

/-- with the stride the code uses (`self.N + 1`) and `N` the side of the matrix,
`A.flat[::N+1] = 0` clears exactly the diagonal -/
theorem network_eq_R_offdiag (R : List (List Bool)) (stride : Int) (i j : Nat)
    (hs : stride = (R.length : Int) + 1) (hi : i < R.length) (hj : j < R.length) :
    entry (adjacencyOf R stride) i j = (entry R i j).map fun b => b && decide (i ≠ j) := by
  unfold adjacencyOf
  have : stride.toNat = R.length + 1 := by omega
  rw [this, zeroStride_entry]
  congr 1
  funext b
  have := diag_stride R.length i j hi hj
  by_cases hij : i = j
  · simp [hij]
    have := (diag_stride R.length j j hj hj).mpr rfl
    simp [this]
  · have h2 : ¬ (i * R.length + j) % (R.length + 1) = 0 := fun h => hij (this.mp h)
    simp [hij, h2]

/-- every stride expression of the source is `N + 1` -/
theorem strides_eq (N : Int) :
    ArithC07.rnStride N = N + 1 ∧ ArithC07.rnStrideThreshold N = N + 1
    ∧ ArithC07.rnStrideThresholdStd N = N + 1 ∧ ArithC07.rnStrideRate N = N + 1
    ∧ ArithC07.rnStrideLocal N = N + 1 ∧ ArithC07.rnStrideAdaptive N = N + 1
    ∧ ArithC07.jrnStrideInit N = N + 1 ∧ ArithC07.jrnStrideThreshold N = N + 1
    ∧ ArithC07.jrnStrideThresholdStd N = N + 1 ∧ ArithC07.jrnStrideRate N = N + 1
    ∧ ArithC07.isrnStride N = N + 1 ∧ ArithC07.isrnStrideRate N = N + 1 := by
  simp [ArithC07.rnStride, ArithC07.rnStrideThreshold, ArithC07.rnStrideThresholdStd,
    ArithC07.rnStrideRate, ArithC07.rnStrideLocal, ArithC07.rnStrideAdaptive,
    ArithC07.jrnStrideInit, ArithC07.jrnStrideThreshold, ArithC07.jrnStrideThresholdStd,
    ArithC07.jrnStrideRate, ArithC07.isrnStride, ArithC07.isrnStrideRate]

/-- a stride that is not `side + 1` leaves self-loops: the defect of the lagged joint
network before repair e81404a (`N = 3`, side 2) -/
example : zeroStride [[true, true], [true, true]] 4 = [[false, true], [true, true]] := by decide

/-! ### sizes the objects report (`rqa_applicable`): every RQA kernel is called with
`n_time = self.N` and indexes `recurrence_matrix()`, so it is applicable iff the
reported `N` is the side of the stored matrix. -/

theorem threshold_length (D : List (List V)) (t : V) : (threshold D t).length = D.length := by
  simp [threshold]

theorem applyMask_length (R : List (List Bool)) (M : List Bool) :
    (applyMask R M).length = R.length := by
  simp [applyMask]

theorem maskIf_length (mv : Bool) (emb : List (List V)) (R : List (List Bool)) :
    (maskIf mv emb R).length = R.length := by
  unfold maskIf; split <;> simp [applyMask_length]

theorem fixedLocalRate_length (D : List (List V)) (k : Nat) (R : List (List Bool))
    (h : fixedLocalRate D k = some R) : R.length = D.length := by
  unfold fixedLocalRate at h
  induction D generalizing R with
  | nil => simp at h; simp [← h]
  | cons r D ih =>
    simp only [List.mapM_cons, Option.bind_eq_bind] at h
    cases h1 : (quantileAt r k) with
    | none => simp [h1] at h
    | some t =>
      cases h2 : (List.mapM (fun row => (quantileAt row k).map fun t => row.map fun d => ltV d t) D) with
      | none => simp [h1, h2] at h
      | some R' =>
        simp [h1, h2] at h
        rw [← h]; simp [ih R' h2]

/-- **RecurrencePlot**: the reported `N` is the side of `R` for all three constructions,
with and without missing-value treatment -/
theorem rqa_applicable_plot (m : Metric) (emb : List (List V)) (mv : Bool) (s : Spec) (p : Plot)
    (h : recurrencePlot m emb mv s = .ok p) : p.N = p.R.length := by
  cases s with
  | thr eps =>
    simp only [recurrencePlot, Res.ok.injEq] at h
    subst h
    simp [fixedThreshold, distRP, tab_length, threshold_length]
    split <;> simp [applyMask_length, threshold_length, tab_length]
  | rate rr =>
    simp only [recurrencePlot] at h
    cases hq : fixedRate (distRP m emb) (rateK rr (distRP m emb).flatten.length) with
    | none => rw [hq] at h; simp only [Res.ofOption, Res.bind] at h; cases h
    | some R =>
      rw [hq] at h; simp only [Res.ofOption, Res.bind, Res.ok.injEq] at h
      subst h
      simp only [fixedRate] at hq
      cases hq2 : quantileAt (distRP m emb).flatten (rateK rr (distRP m emb).flatten.length) with
      | none => rw [hq2] at hq; cases hq
      | some t =>
        rw [hq2] at hq; simp only [Option.map_some, Option.some.injEq] at hq
        simp only [maskIf_length, ← hq, threshold_length, distRP, tab_length]
  | localRate rr =>
    simp only [recurrencePlot] at h
    cases hq : fixedLocalRate (distRP m emb) (rateK rr emb.length) with
    | none => rw [hq] at h; simp only [Res.ofOption, Res.bind] at h; cases h
    | some R =>
      rw [hq] at h; simp only [Res.ofOption, Res.bind, Res.ok.injEq] at h
      subst h
      simp only [maskIf_length, fixedLocalRate_length _ _ _ hq, distRP, tab_length]

/-- **RecurrenceNetwork** without missing-value deletion: the network's `N` (number of
nodes, written by `Network.__init__`) is still the side of `R`.  With
`missing_values=True` and NaNs present the nodes are fewer than the rows of `R`
(known finding C07-rn-missing-values-N; witness below). -/
theorem rqa_applicable_network (m : Metric) (emb : List (List V)) (s : Spec) (p : Net)
    (h : recurrenceNetwork m emb false s = .ok p) : p.N = p.R.length := by
  unfold recurrenceNetwork at h
  cases hp : recurrencePlot m emb false s with
  | ok q =>
    simp [hp, Res.bind] at h
    subst h
    simp [adjacencyOf, zeroStride]
  | valueError => simp [hp, Res.bind] at h
  | indexError => simp [hp, Res.bind] at h

example : (match recurrenceNetwork .manhattan (column [some 0, none, some 1]) true (.thr 2) with
    | .ok p => (p.N, p.R.length) | _ => (0, 0)) = (2, 3) := by decide +kernel

/-! ### inter-system recurrence matrix -/

/-- **block structure**: `[[Rx, CR], [CRᵀ, Ry]]` -/
theorem isrm_blocks (Nx Ny : Nat) (Rx Ry CR I : List (List Bool))
    (h : isrm Nx Ny Rx Ry CR = some I) (i j : Nat) (hi : i < Nx + Ny) (hj : j < Nx + Ny) :
    entry I i j = some (
      if i < Nx then
        if j < Nx then (Rx.getD i []).getD j false else (CR.getD i []).getD (j - Nx) false
      else
        if j < Nx then (CR.getD j []).getD (i - Nx) false
        else (Ry.getD (i - Nx) []).getD (j - Nx) false) := by
  simp only [isrm] at h
  split at h
  · injection h with h
    rw [← h, entry_tab]; simp [hi, hj]
  · simp at h

/-- the assembled matrix is symmetric as soon as the two diagonal blocks are -/
theorem isrm_symm (Nx Ny : Nat) (Rx Ry CR I : List (List Bool))
    (h : isrm Nx Ny Rx Ry CR = some I)
    (hx : ∀ i j, (Rx.getD i []).getD j false = (Rx.getD j []).getD i false)
    (hy : ∀ i j, (Ry.getD i []).getD j false = (Ry.getD j []).getD i false)
    (i j : Nat) (hi : i < Nx + Ny) (hj : j < Nx + Ny) : entry I i j = entry I j i := by
  rw [isrm_blocks Nx Ny Rx Ry CR I h i j hi hj, isrm_blocks Nx Ny Rx Ry CR I h j i hj hi]
  have hx' := hx i j
  have hy' := hy (i - Nx) (j - Nx)
  by_cases h1 : i < Nx <;> by_cases h2 : j < Nx <;> simp only [h1, h2, if_true, if_false]
  · rw [hx']
  · rw [hy']

/-- the inter-system matrix has `N_x + N_y` rows: the sizes are mutually consistent -/
theorem isrm_size (Nx Ny : Nat) (Rx Ry CR I : List (List Bool))
    (h : isrm Nx Ny Rx Ry CR = some I) :
    I.length = (ArithC07.isrnTotalN Nx Ny).toNat := by
  simp only [isrm] at h
  split at h
  · injection h with h
    rw [← h, tab_length]; simp [ArithC07.isrnTotalN]; omega
  · simp at h

example : isrm 1 2 [[true]] [[true, false], [false, true]] [[true, false]]
    = some [[true, true, false], [true, true, false], [false, false, true]] := by decide


/-! ### joint recurrence plots -/

/-- **joint plot, `lag ≥ 0`** (`set_fixed_threshold` bounds): for `N×N` sub-plots and
`0 ≤ lag ≤ N` the slices fit, `JR` has side `N − lag` and
`JR[i,j] = Rx[i,j] ∧ Ry[i+lag, j+lag]`. -/
theorem joint_eq_product_pos (N : Nat) (fx fy : Nat → Nat → Bool) (lag : Nat) (h : lag ≤ N) :
    jointSlices (tab N N fx) (tab N N fy) lag (jBoundsThr N lag)
      = some (tab (N - lag) (N - lag) fun i j => fx i j && fy (i + lag) (j + lag)) := by
  have hl : (lag : Int) ≥ 0 := by omega
  simp only [jointSlices, hl, if_true, jBoundsThr, ArithC07.jrpPosXRowHi, ArithC07.jrpPosXColHi,
    ArithC07.jrpPosYRowLo, ArithC07.jrpPosYRowHi, ArithC07.jrpPosYColLo, ArithC07.jrpPosYColHi]
  rw [slice2_tab N fx 0 ((N : Int) - lag) (by omega) (by omega) (by omega),
    slice2_tab N fy lag N (by omega) (by omega) (by omega)]
  have e1 : ((N : Int) - (lag : Int) - 0).toNat = N - lag := by omega
  have e2 : ((N : Int) - (lag : Int)).toNat = N - lag := by omega
  rw [e1, e2, hadamard_tab]
  simp [Nat.add_comm]

/-- **joint plot, `lag < 0`**: `JR = Ry[:N+lag, :N+lag] * Rx[-lag:, -lag:]`, i.e. with
`ℓ = −lag`: side `N − ℓ` and `JR[i,j] = Rx[i+ℓ, j+ℓ] ∧ Ry[i,j]` — the same pairs of
time points `(t, t+lag)` as for the positive sign. -/
theorem joint_eq_product_neg (N : Nat) (fx fy : Nat → Nat → Bool) (l : Nat) (h0 : 0 < l)
    (h : l ≤ N) :
    jointSlices (tab N N fx) (tab N N fy) (-(l : Int)) (jBoundsThr N (-(l : Int)))
      = some (tab (N - l) (N - l) fun i j => fy i j && fx (i + l) (j + l)) := by
  have hl : ¬ (-(l : Int)) ≥ 0 := by omega
  simp only [jointSlices, hl, if_false, jBoundsThr, ArithC07.jrpNegYRowHi, ArithC07.jrpNegYColHi,
    ArithC07.jrpNegXRowLo, ArithC07.jrpNegXRowHi, ArithC07.jrpNegXColLo, ArithC07.jrpNegXColHi]
  rw [slice2_tab N fy 0 ((N : Int) + -(l : Int)) (by omega) (by omega) (by omega),
    slice2_tab N fx (- -(l : Int)) N (by omega) (by omega) (by omega)]
  have e1 : ((N : Int) + -(l : Int) - 0).toNat = N - l := by omega
  have e2 : ((N : Int) - - -(l : Int)).toNat = N - l := by omega
  have e3 : (- -(l : Int)).toNat = l := by omega
  rw [e1, e2, e3, hadamard_tab]
  simp [Nat.add_comm]

/-- the fixed-rate constructor slices with the same bounds -/
theorem joint_rate_bounds_eq (N lag : Int) : jBoundsRate N lag = jBoundsThr N lag := by
  simp [jBoundsRate, jBoundsThr, ArithC07.jrpRatePosXRowHi, ArithC07.jrpRatePosXColHi,
    ArithC07.jrpRatePosYRowLo, ArithC07.jrpRatePosYRowHi, ArithC07.jrpRatePosYColLo,
    ArithC07.jrpRatePosYColHi, ArithC07.jrpRateNegYRowHi, ArithC07.jrpRateNegYColHi,
    ArithC07.jrpRateNegXRowLo, ArithC07.jrpRateNegXRowHi, ArithC07.jrpRateNegXColLo,
    ArithC07.jrpRateNegXColHi, ArithC07.jrpPosXRowHi, ArithC07.jrpPosXColHi,
    ArithC07.jrpPosYRowLo, ArithC07.jrpPosYRowHi, ArithC07.jrpPosYColLo, ArithC07.jrpPosYColHi,
    ArithC07.jrpNegYRowHi, ArithC07.jrpNegYColHi, ArithC07.jrpNegXRowLo, ArithC07.jrpNegXRowHi,
    ArithC07.jrpNegXColLo, ArithC07.jrpNegXColHi]

/-- **mutually consistent sizes**: the `N` a joint plot reports is the side of `JR`,
for either sign of the lag and both constructors (false of the pinned code for
`lag ≠ 0`, repaired by e81404a) -/
theorem joint_size_consistent (N : Nat) (lag : Int) (h : lag.natAbs ≤ N) :
    ArithC07.jrpReportedN N lag = ((N - lag.natAbs : Nat) : Int)
    ∧ ArithC07.jrpRateReportedN N lag = ((N - lag.natAbs : Nat) : Int) := by
  simp only [ArithC07.jrpReportedN, ArithC07.jrpRateReportedN]
  omega

example : jointSlices (tab 3 3 fun i j => decide (i = j ∨ i + j = 1)) (tab 3 3 fun _ _ => true) 1
    (jBoundsThr 3 1) = some [[true, true], [true, true]] := by decide


/-! ### adaptive neighbourhood size -/

/-- **adaptive variant**: whenever the kernel returns (it does not raise after repair
df8d67c; see `harness/c07.py`), every processed state `l` is linked to its `k`-th
nearest neighbour `sorted_neighbors[l, k]` for every `1 ≤ k ≤ adaptive_neighborhood_size`
that exists (`k < n`) — for every neighbour table and processing order. -/
theorem adaptive_ge_k (n kA : Nat) (sn : List (List Nat)) (order : List Nat) (R : BM)
    (h : adaptive n kA sn order = some R) (l : Nat) (hl : l ∈ order)
    (k : Nat) (h1 : 1 ≤ k) (h2 : k ≤ kA) (h3 : k < n) : linked R sn l k :=
  adaptive_rounds n sn order kA _ R h l hl k h1 h2 h3

/-- hence at least `adaptive_neighborhood_size` neighbours when that many exist
(`kA ≤ n − 1`): the `kA` columns `sn[l][1..kA]` (pairwise different when the row of
`sorted_neighbors` is a permutation, and different from `l` when `sn[l][0] = l`) are
all set in row `l`. -/
theorem adaptive_row_has_k (n kA : Nat) (sn : List (List Nat)) (order : List Nat) (R : BM)
    (h : adaptive n kA sn order = some R) (l : Nat) (hl : l ∈ order) (snl : List Nat)
    (hsn : sn[l]? = some snl) (hlen : snl.length = n) (hk : kA + 1 ≤ n) :
    ((snl.drop 1).take kA).length = kA ∧ ∀ c ∈ (snl.drop 1).take kA, R l c = true := by
  refine ⟨by simp; omega, ?_⟩
  intro c hc
  rw [List.mem_take_iff_getElem] at hc
  obtain ⟨i, hi, rfl⟩ := hc
  obtain ⟨snl', c', h1, h2, h3⟩ := adaptive_ge_k n kA sn order R h l hl (i + 1) (by omega)
    (by simp at hi; omega) (by simp at hi; omega)
  rw [hsn] at h1; injection h1 with h1; subst h1
  simp only [List.getElem_drop]
  have : snl[1 + i]? = some c' := by rw [Nat.add_comm]; exact h2
  rw [List.getElem?_eq_getElem (by simp at hi; omega)] at this
  injection this with this
  rw [this]; exact h3

example : (match adaptive 3 1 [[0, 1, 2], [1, 0, 2], [2, 1, 0]] [0, 1, 2] with
    | some R => bmTab 3 R | none => []) = [[false, true, true], [true, false, true], [true, true, false]] := by
  decide


/-! ### the kernels compute the metrics -/

def absQ (x y : Rat) : Rat := if x ≤ y then y - x else x - y

/-- the three metrics by definition (Euclidean: the sum of squares under the root) -/
def metricQ : Metric → List Rat → List Rat → Rat
  | .manhattan, a, b => (List.zipWith absQ a b).sum
  | .euclidean, a, b => ((List.zipWith absQ a b).map fun d => d * d).sum
  | .supremum, a, b => (List.zipWith absQ a b).foldl max 0

private theorem zipWith_absdiff_some (a b : List Rat) :
    List.zipWith absdiff (a.map some) (b.map some) = (List.zipWith absQ a b).map some := by
  induction a generalizing b with
  | nil => simp
  | cons x xs ih =>
    cases b with
    | nil => simp
    | cons y ys => simp [absdiff, absQ, ih]

/-- **kernels = metric definitions** on complete (NaN-free) state vectors -/
theorem dist_complete (m : Metric) (a b : List Rat) :
    dist m (a.map some) (b.map some) = some (metricQ m a b) := by
  unfold dist
  rw [zipWith_absdiff_some]
  cases m with
  | manhattan =>
    simp only [metricQ]
    generalize List.zipWith absQ a b = ds
    have : ∀ (acc : Rat), (ds.map some).foldl (fun acc t => addV acc t) (some acc)
        = some (acc + ds.sum) := by
      induction ds with
      | nil => intro acc; simp
      | cons d ds ih =>
        intro acc
        simp only [List.map_cons, List.foldl_cons, List.sum_cons]
        rw [show addV (some acc) (some d) = some (acc + d) from rfl, ih, Rat.add_assoc]
    have h0 := this 0
    rw [Rat.zero_add] at h0
    exact h0
  | euclidean =>
    simp only [metricQ]
    generalize List.zipWith absQ a b = ds
    have : ∀ (acc : Rat), (ds.map some).foldl (fun acc t => addV acc (mulV t t)) (some acc)
        = some (acc + (ds.map fun d => d * d).sum) := by
      induction ds with
      | nil => intro acc; simp
      | cons d ds ih =>
        intro acc
        simp only [List.map_cons, List.foldl_cons, List.sum_cons]
        rw [show addV (some acc) (mulV (some d) (some d)) = some (acc + d * d) from rfl, ih,
          Rat.add_assoc]
    have h0 := this 0
    rw [Rat.zero_add] at h0
    exact h0
  | supremum =>
    simp only [metricQ]
    generalize List.zipWith absQ a b = ds
    have : ∀ (acc : Rat), (ds.map some).foldl (fun acc t => if gtV t acc then t else acc) (some acc)
        = some (ds.foldl max acc) := by
      induction ds with
      | nil => intro acc; simp
      | cons d ds ih =>
        intro acc
        simp only [List.map_cons, List.foldl_cons]
        by_cases h : acc < d
        · have hm : max acc d = d := by grind
          rw [show gtV (some d) (some acc) = decide (acc < d) from rfl]
          simp only [h, decide_true, if_true, hm]
          exact ih d
        · have hm : max acc d = acc := by grind
          rw [show gtV (some d) (some acc) = decide (acc < d) from rfl]
          simp only [h, decide_false, hm]
          exact ih acc
    exact this 0

/-- a missing value makes the Manhattan and Euclidean distances NaN, which is never
below a threshold; the supremum kernel skips the component (IEEE comparison) — this
is why `missing_values=True` masks rows and columns explicitly -/
example : dist .manhattan [none, some 1] [some 0, some 1] = none
    ∧ dist .euclidean [none, some 1] [some 0, some 1] = none
    ∧ dist .supremum [none, some 1] [some 0, some 1] = some 0 := by decide +kernel

/-- **Euclidean threshold**: comparing the sum of squares with `unitThr` is comparing
its square root with `ε` (over ℝ) -/
theorem euclid_lt_iff_sqrt_lt (a b : List Rat) (eps : Rat) :
    ltV (dist .euclidean (a.map some) (b.map some)) (some (unitThr .euclidean eps)) = true
      ↔ Real.sqrt ((metricQ .euclidean a b : Rat) : ℝ) < (eps : ℝ) := by
  rw [dist_complete]
  have hs : 0 ≤ metricQ .euclidean a b := by
    have key : ∀ ds : List Rat, 0 ≤ (ds.map fun d => d * d).sum := by
      intro ds
      induction ds with
      | nil => simp
      | cons d ds ih =>
        simp only [List.map_cons, List.sum_cons]
        have := mul_self_nonneg d
        linarith
    exact key _
  rw [sqrt_lt_iff_unitThr _ _ hs]
  simp [ltV]

example : metricQ .euclidean [0, 3] [4, 0] = 25 ∧ metricQ .manhattan [0, 3] [4, 0] = 7
    ∧ metricQ .supremum [0, 3] [4, 0] = 4 := by decide +kernel

/-! ### adaptive neighbourhood size: the kernel never raises, the matrix is symmetric -/

theorem argsortV_perm (row : List V) : (argsortV row).Perm (List.range row.length) := by
  unfold argsortV
  have h1 := (List.mergeSort_perm row.zipIdx (fun a b => leV a.1 b.1)).map (·.2)
  refine h1.trans ?_
  have : row.zipIdx.map (·.2) = List.range row.length := by
    rw [List.range_eq_range', List.zipIdx_eq_zip_range']
    exact List.map_snd_zip (by simp)
  rw [this]

theorem argsortV_length (row : List V) : (argsortV row).length = row.length := by
  simpa using (argsortV_perm row).length_eq

theorem argsortV_lt (row : List V) : ∀ c ∈ argsortV row, c < row.length := by
  intro c hc
  have := (argsortV_perm row).mem_iff.mp hc
  simpa using this

theorem argsortV_nodup (row : List V) : (argsortV row).Nodup :=
  (argsortV_perm row).nodup_iff.mpr List.nodup_range


/-- the neighbour table `distance.argsort(axis=1)` of an `n×n` distance matrix is well formed:
`n` rows, each a permutation of `0 … n−1` -/
theorem argsort_table_ok (m : Metric) (emb : List (List V)) :
    snOK (distRP m emb).length ((distRP m emb).map argsortV) := by
  have hlen : (distRP m emb).length = emb.length := by simp [distRP, tab_length]
  refine ⟨by simp, ?_⟩
  intro r hr
  obtain ⟨row, hrow, rfl⟩ := List.mem_map.mp hr
  have hrl : row.length = emb.length := by
    simp only [distRP, tab, List.mem_map, List.mem_range] at hrow
    obtain ⟨i, _, rfl⟩ := hrow
    simp
  rw [hlen]
  exact ⟨by rw [argsortV_length, hrl], fun c hc => by have := argsortV_lt row c hc; omega⟩

/-- **the adaptive kernel never raises** on an `n×n` neighbour table with entries `< n` and a
processing order with entries `< n` (the claim of repair 9c70d12, for all inputs) -/
theorem adaptive_never_raises (n kA : Nat) (sn : List (List Nat)) (order : List Nat)
    (hsn : snOK n sn) (ho : ∀ l ∈ order, l < n) : ∃ R, adaptive n kA sn order = some R :=
  adaptive_total n kA sn order hsn ho

/-- **the adaptive recurrence matrix is symmetric** and lies inside the `n×n` array -/
theorem adaptive_symmetric (n kA : Nat) (sn : List (List Nat)) (order : List Nat) (R : BM)
    (h : adaptive n kA sn order = some R) (a b : Nat) :
    R a b = R b a ∧ (R a b = true → a < n ∧ b < n) :=
  ⟨adaptive_symm n kA sn order R h a b, adaptive_in_range n kA sn order R h a b⟩

/-- **at least the requested number of neighbours**: when the row of `sorted_neighbors` is
duplicate-free with entries `< n` (a permutation) and `kA ≤ n − 1`, row `l` of the result
holds at least `kA` recurrences — and at least `kA` *other* states when the state itself
sorts first. -/
theorem adaptive_at_least_k (n kA : Nat) (sn : List (List Nat)) (order : List Nat) (R : BM)
    (h : adaptive n kA sn order = some R) (l : Nat) (hl : l ∈ order) (snl : List Nat)
    (hsn : sn[l]? = some snl) (hlen : snl.length = n) (hnd : snl.Nodup)
    (hlt : ∀ c ∈ snl, c < n) (hk : kA + 1 ≤ n) :
    kA ≤ countTrue ((List.range n).map (R l)) ∧
    (snl[0]? = some l → kA ≤ ((List.range n).filter fun c => R l c && (c != l)).length) :=
  ⟨adaptive_count_ge n kA sn order R h l hl snl hsn hlen hnd hlt hk,
   fun h0 => adaptive_count_ge_offdiag n kA sn order R h l hl snl hsn hlen hnd hlt hk h0⟩

/-- **`RecurrencePlot(adaptive_neighborhood_size=kA)` / `set_adaptive_neighborhood_size(kA, order)`
at the object level** (argsort + kernel): for the default order or any caller order that is
a list of `n` state indices, the method returns (no IndexError), reports `N` = side of `R`,
`R` is symmetric, and for `kA ≤ n − 1` every processed state has at least `kA` recurrences. -/
theorem adaptive_plot_spec (m : Metric) (emb : List (List V)) (kA : Nat) (order : Option (List Nat))
    (ho : ∀ o, order = some o → o.length = emb.length ∧ ∀ l ∈ o, l < emb.length) :
    ∃ R : BM, adaptivePlot m emb kA order = .ok ⟨bmTab emb.length R, emb.length, emb.length⟩
      ∧ (bmTab emb.length R).length = emb.length
      ∧ (∀ a b, R a b = R b a)
      ∧ (kA + 1 ≤ emb.length → ∀ l ∈ order.getD (List.range emb.length),
          kA ≤ countTrue ((List.range emb.length).map (R l))) := by
  have hlen : (distRP m emb).length = emb.length := by simp [distRP, tab_length]
  have hok := argsort_table_ok m emb
  rw [hlen] at hok
  -- the processing order
  have hord : (order.getD (List.range emb.length)).length = emb.length
      ∧ ∀ l ∈ order.getD (List.range emb.length), l < emb.length := by
    cases order with
    | none => simp
    | some o => simpa using ho o rfl
  obtain ⟨R, hR⟩ := adaptive_total emb.length kA ((distRP m emb).map argsortV)
    (order.getD (List.range emb.length)) hok hord.2
  refine ⟨R, ?_, by simp [bmTab, tab_length], adaptive_symm _ _ _ _ R hR, ?_⟩
  · unfold adaptivePlot
    simp only [hlen]
    have h1 : ¬ ((order.getD (List.range emb.length)).length < emb.length ∧ 0 < kA) := by
      rw [hord.1]; omega
    rw [if_neg h1]
    have h2 : (order.getD (List.range emb.length)).take emb.length
        = order.getD (List.range emb.length) := by
      rw [List.take_of_length_le (by rw [hord.1])]
    rw [h2, hR]
    rfl
  · intro hk l hl
    have hl' : l < emb.length := hord.2 l hl
    have hrow : ((distRP m emb).map argsortV)[l]? = some (argsortV ((distRP m emb)[l]'(by omega))) := by
      rw [List.getElem?_map, List.getElem?_eq_getElem (by omega)]; rfl
    have hrl : ((distRP m emb)[l]'(by omega)).length = emb.length := by
      simp [distRP, tab]
    exact adaptive_count_ge emb.length kA _ _ R hR l hl _ hrow
      (by rw [argsortV_length, hrl]) (argsortV_nodup _)
      (fun c hc => by have := argsortV_lt _ c hc; omega) hk

/-- the hypotheses are satisfiable (default order; a reversed caller order) and not vacuous:
a table row with an entry `≥ n` makes the kernel raise -/
example : snOK 3 [[0, 1, 2], [1, 0, 2], [2, 1, 0]] ∧
    (adaptive 2 1 [[0, 5], [1, 0]] [0, 1]).isNone = true := ⟨⟨rfl, by decide⟩, by decide⟩


/-! ### round 5: the adaptive plot for *every* argsort NumPy may return

`distance.argsort(axis=1)` is not stable (introsort / SIMD sorts): among tied distances —
duplicate state vectors, lattice data — the order of `sorted_neighbors` is unspecified.  The
statements below hold for every table that *is* an argsort of the distance rows
(`argsortOK`, an executable test the driver applies to the table NumPy produced); the
stable argsort of `adaptivePlot` is one instance. -/

/-- `adaptivePlot` is `adaptivePlotWith` on the stable argsort table, which is an argsort -/
theorem adaptive_plot_is_instance (m : Metric) (emb : List (List V)) (kA : Nat)
    (order : Option (List Nat)) :
    adaptivePlot m emb kA order
      = adaptivePlotWith m emb kA order ((distRP m emb).map argsortV)
    ∧ argsortOK (distRP m emb) ((distRP m emb).map argsortV) = true :=
  ⟨rfl, argsortOK_map_argsortV _⟩

/-- **tie independence of the neighbour distances**: along *any* argsort `p` of a distance row
the distances read `sortV row` — the `k`-th listed neighbour is at the `k`-th smallest
distance whatever the order among ties, and `p` is a permutation of all states -/
theorem argsort_distance_profile (row : List V) (p : List Nat) (h : isArgsortRow row p = true) :
    p.Perm (List.range row.length) ∧ p.map (fun c => row.getD c none) = sortV row :=
  isArgsortRow_spec row p h

/-- the distance row of state `l` as the kernels fill it -/
def distRow (m : Metric) (emb : List (List V)) (l : Nat) : List V :=
  (List.range emb.length).map (rpEntry m emb l)

theorem distRP_getElem (m : Metric) (emb : List (List V)) (l : Nat) (hl : l < (distRP m emb).length) :
    (distRP m emb)[l] = distRow m emb l := by
  simp [distRP, tab, distRow]

/-- **`set_adaptive_neighborhood_size(kA, order)` for every argsort table** (object level:
the table NumPy returned + kernel): for the default order or any caller order that is a list
of `n` state indices the method returns (no `IndexError`), reports `N` = side of `R`, `R` is
symmetric, and for `kA ≤ n − 1` every processed state `l`
* has at least `kA` recurrences,
* for every `1 ≤ k ≤ kA` is linked to a state at exactly the `k`-th smallest distance of its
  row (`sortV` — a statement about distance *values*, independent of how ties were ordered),
* has at least `kA` *other* states as neighbours when no other state ties with it for the
  first place of its row (no duplicate of the state: every other distance is strictly behind
  `d(l,l) = 0` in sort order). -/
theorem adaptive_plot_any_argsort (m : Metric) (emb : List (List V)) (kA : Nat)
    (order : Option (List Nat)) (sn : List (List Nat))
    (hsn : argsortOK (distRP m emb) sn = true)
    (ho : ∀ o, order = some o → o.length = emb.length ∧ ∀ l ∈ o, l < emb.length) :
    ∃ R : BM, adaptivePlotWith m emb kA order sn
        = .ok ⟨bmTab emb.length R, emb.length, emb.length⟩
      ∧ (bmTab emb.length R).length = emb.length
      ∧ (∀ a b, R a b = R b a)
      ∧ (kA + 1 ≤ emb.length → ∀ l ∈ order.getD (List.range emb.length),
          kA ≤ countTrue ((List.range emb.length).map (R l))
          ∧ (∀ k, 1 ≤ k → k ≤ kA → ∃ c, c < emb.length ∧ R l c = true ∧
              (sortV (distRow m emb l))[k]? = some (rpEntry m emb l c))
          ∧ ((∀ c, c < emb.length → c ≠ l →
                leV (rpEntry m emb l c) (rpEntry m emb l l) = false) →
              kA ≤ ((List.range emb.length).filter fun c => R l c && (c != l)).length)) := by
  have hlen : (distRP m emb).length = emb.length := by simp [distRP, tab_length]
  have hsq : ∀ row ∈ distRP m emb, row.length = (distRP m emb).length := by
    intro row hrow
    rw [hlen]
    simp only [distRP, tab, List.mem_map, List.mem_range] at hrow
    obtain ⟨i, _, rfl⟩ := hrow
    simp
  have hok := argsortOK_snOK _ sn hsn hsq
  rw [hlen] at hok
  have hord : (order.getD (List.range emb.length)).length = emb.length
      ∧ ∀ l ∈ order.getD (List.range emb.length), l < emb.length := by
    cases order with
    | none => simp
    | some o => simpa using ho o rfl
  obtain ⟨R, hR⟩ := adaptive_total emb.length kA sn
    (order.getD (List.range emb.length)) hok hord.2
  refine ⟨R, ?_, by simp [bmTab, tab_length], adaptive_symm _ _ _ _ R hR, ?_⟩
  · unfold adaptivePlotWith
    simp only [hlen]
    have h1 : ¬ ((order.getD (List.range emb.length)).length < emb.length ∧ 0 < kA) := by
      rw [hord.1]; omega
    rw [if_neg h1]
    have h2 : (order.getD (List.range emb.length)).take emb.length
        = order.getD (List.range emb.length) := by
      rw [List.take_of_length_le (by rw [hord.1])]
    rw [h2, hR]
    rfl
  · intro hk l hl
    have hl' : l < emb.length := hord.2 l hl
    obtain ⟨snl, hrow, harg⟩ := argsortOK_row _ sn hsn l (by omega)
    rw [distRP_getElem] at harg
    have hrl : (distRow m emb l).length = emb.length := by simp [distRow]
    have hsl : snl.length = emb.length := by rw [isArgsortRow_length _ _ harg, hrl]
    have hnd := isArgsortRow_nodup _ _ harg
    have hlt : ∀ c ∈ snl, c < emb.length := fun c hc => by
      have := isArgsortRow_lt _ _ harg c hc; omega
    have hget : ∀ c, c < emb.length → (distRow m emb l).getD c none = rpEntry m emb l c := by
      intro c hc
      simp [distRow, List.getD_eq_getElem?_getD, hc]
    refine ⟨adaptive_count_ge emb.length kA sn _ R hR l hl snl hrow hsl hnd hlt hk, ?_, ?_⟩
    · intro k h1 h2
      obtain ⟨snl', c, e1, e2, e3⟩ := adaptive_ge_k emb.length kA sn _ R hR l hl k h1 h2 (by omega)
      rw [hrow] at e1
      injection e1 with e1
      subst e1
      have hc : c < emb.length := hlt c (List.mem_of_getElem? e2)
      refine ⟨c, hc, e3, ?_⟩
      rw [isArgsortRow_getElem _ _ harg k c e2, hget c hc]
    · intro hstrict
      have h0 := isArgsortRow_self_first _ _ harg l (by omega)
        (fun c hc hne => by
          rw [hget c (by omega), hget l hl']
          exact hstrict c (by omega) hne)
      exact adaptive_count_ge_offdiag emb.length kA sn _ R hR l hl snl hrow hsl hnd hlt hk h0

/-- non-vacuity: a row with a tie has two different argsorts, both accepted (NaN sorts last);
a table that is not sorted, or not a permutation, is rejected -/
example : isArgsortRow [some 0, some 1, some 1] [0, 1, 2] = true
    ∧ isArgsortRow [some 0, some 1, some 1] [0, 2, 1] = true
    ∧ isArgsortRow [some 0, none, some 2] [0, 2, 1] = true
    ∧ isArgsortRow [some 0, some 1, some 2] [0, 2, 1] ≠ true
    ∧ isArgsortRow [some 0, some 1, some 1] [0, 1, 1] ≠ true :=
  ⟨isArgsortRow_of _ _ (by decide) (by decide +kernel),
   isArgsortRow_of _ _ (by decide) (by decide +kernel),
   isArgsortRow_of _ _ (by decide) (by decide +kernel),
   fun h => absurd (isArgsortRow_sorted _ _ h) (by decide +kernel),
   fun h => absurd (isArgsortRow_nodup _ _ h) (by decide)⟩

/-- the "no duplicate of the state" hypothesis of the last clause cannot be dropped for an
*arbitrary* argsort: three identical states, `kA = 1`, and a table that lists every state
second in its own row give the identity matrix — every state has its one recurrence (itself)
and no other neighbour (NumPy's sorts were never observed to produce such a table; the
oracle demands `kA` other neighbours of the implementation) -/
example : argsortOK (distRP .supremum [[some 1], [some 1], [some 1]])
      [[1, 0, 2], [0, 1, 2], [0, 2, 1]] = true
    ∧ (match adaptivePlotWith .supremum [[some 1], [some 1], [some 1]] 1 none
        [[1, 0, 2], [0, 1, 2], [0, 2, 1]] with
      | .ok p => p.R
      | _ => [])
      = [[true, false, false], [false, true, false], [false, false, true]] := by
  refine ⟨?_, by decide +kernel⟩
  have e : distRP .supremum [[some 1], [some 1], [some 1]]
      = [[some 0, some 0, some 0], [some 0, some 0, some 0], [some 0, some 0, some 0]] := by
    decide +kernel
  rw [e]
  simp only [argsortOK, List.zipWith, List.all, List.length, id, Bool.and_true,
    Bool.and_eq_true, beq_iff_eq]
  exact ⟨trivial, isArgsortRow_of _ _ (by decide) (by decide +kernel),
    isArgsortRow_of _ _ (by decide) (by decide +kernel),
    isArgsortRow_of _ _ (by decide) (by decide +kernel)⟩

/-! ### round 5: adaptive neighbourhood size with `missing_values=True` (repair of round 5)

Before the repair `set_adaptive_neighborhood_size` ignored `missing_values`: a state holding a
missing value was linked like any other (all its distances NaN — or, for the supremum metric,
computed from the remaining components, so that it became everybody's *nearest* neighbour and
complete states were left with no other neighbour at all).  Now its rows and columns of the
distance matrix are `+inf` before sorting and cleared in the result. -/

/-- without `missing_values` the method is `adaptivePlotWith` (so `adaptive_plot_any_argsort`
speaks about what the driver executes) -/
theorem adaptive_plot_mv_off (m : Metric) (emb : List (List V)) (kA : Nat)
    (order : Option (List Nat)) (sn : List (List Nat)) :
    adaptivePlotMV m emb kA order sn false = adaptivePlotWith m emb kA order sn
    ∧ adaptiveDist m emb false = distRP m emb := by
  refine ⟨?_, rfl⟩
  have hlen : (distRP m emb).length = emb.length := by simp [distRP, tab_length]
  simp only [adaptivePlotMV, adaptivePlotWith, hlen, maskIf]
  rfl

/-- number of state vectors without a missing value -/
def nComplete (emb : List (List V)) : Nat :=
  (List.range emb.length).countP fun c => !missingAt emb c

/-- row `l` of the matrix that is sorted, for a complete state `l` -/
theorem adaptiveDist_row (m : Metric) (emb : List (List V)) (l : Nat)
    (hl : l < (adaptiveDist m emb true).length) (hc : missingAt emb l = false) :
    (adaptiveDist m emb true)[l]
      = (List.range emb.length).map fun c => if missingAt emb c then none else rpEntry m emb l c := by
  simp only [missingAt, List.getD_eq_getElem?_getD] at hc
  simp [adaptiveDist, tab, missingAt, List.getD_eq_getElem?_getD, hc]

/-- **`set_adaptive_neighborhood_size` with `missing_values=True`, for every argsort table of
the sorted matrix**: the method returns, reports `N` = side of `R`, **no state holding a
missing value is recurrent with anything**, and when `kA` is at most the number of *other*
complete states every processed complete state `l` is recurrent — in the stored, masked
matrix — with `kA` pairwise different complete states (so the states with missing values take
nobody's place among the neighbours). -/
theorem adaptive_plot_missing_values (m : Metric) (emb : List (List V)) (kA : Nat)
    (order : Option (List Nat)) (sn : List (List Nat))
    (hsn : argsortOK (adaptiveDist m emb true) sn = true)
    (ho : ∀ o, order = some o → o.length = emb.length ∧ ∀ l ∈ o, l < emb.length) :
    ∃ R : BM, adaptivePlotMV m emb kA order sn true
        = .ok ⟨maskIf true emb (bmTab emb.length R), emb.length, emb.length⟩
      ∧ (maskIf true emb (bmTab emb.length R)).length = emb.length
      ∧ (∀ i j, missingAt emb i = true ∨ missingAt emb j = true →
          entry (maskIf true emb (bmTab emb.length R)) i j = none
          ∨ entry (maskIf true emb (bmTab emb.length R)) i j = some false)
      ∧ (kA + 1 ≤ nComplete emb → ∀ l ∈ order.getD (List.range emb.length),
          missingAt emb l = false →
          ∃ cs : List Nat, cs.Nodup ∧ cs.length = kA ∧ ∀ c ∈ cs, c < emb.length
            ∧ missingAt emb c = false
            ∧ entry (maskIf true emb (bmTab emb.length R)) l c = some true) := by
  have hlen : (adaptiveDist m emb true).length = emb.length := by
    simp [adaptiveDist, tab_length]
  have hsq : ∀ row ∈ adaptiveDist m emb true, row.length = (adaptiveDist m emb true).length := by
    intro row hrow
    rw [hlen]
    simp only [adaptiveDist, if_true, tab, List.mem_map, List.mem_range] at hrow
    obtain ⟨i, _, rfl⟩ := hrow
    simp
  have hok := argsortOK_snOK _ sn hsn hsq
  rw [hlen] at hok
  have hord : (order.getD (List.range emb.length)).length = emb.length
      ∧ ∀ l ∈ order.getD (List.range emb.length), l < emb.length := by
    cases order with
    | none => simp
    | some o => simpa using ho o rfl
  obtain ⟨R, hR⟩ := adaptive_total emb.length kA sn
    (order.getD (List.range emb.length)) hok hord.2
  refine ⟨R, ?_, ?_, fun i j h => masked_never_recurrent emb _ i j h, ?_⟩
  · unfold adaptivePlotMV
    have h1 : ¬ ((order.getD (List.range emb.length)).length < emb.length ∧ 0 < kA) := by
      rw [hord.1]; omega
    simp only [if_neg h1]
    have h2 : (order.getD (List.range emb.length)).take emb.length
        = order.getD (List.range emb.length) := by
      rw [List.take_of_length_le (by rw [hord.1])]
    rw [h2, hR]
    rfl
  · simp [maskIf, applyMask, bmTab, tab_length]
  · intro hk l hl hcl
    have hl' : l < emb.length := hord.2 l hl
    have hnc : nComplete emb ≤ emb.length := by
      unfold nComplete
      exact Nat.le_trans List.countP_le_length (by simp)
    obtain ⟨snl, hrow, harg⟩ := argsortOK_row _ sn hsn l (by omega)
    rw [adaptiveDist_row m emb l (by omega) hcl] at harg
    generalize hr : ((List.range emb.length).map fun c =>
      if missingAt emb c then none else rpEntry m emb l c) = r at harg
    have hrl : r.length = emb.length := by rw [← hr]; simp
    have hsl : snl.length = emb.length := by rw [isArgsortRow_length _ _ harg, hrl]
    have hnd := isArgsortRow_nodup _ _ harg
    have hlt : ∀ c ∈ snl, c < emb.length := fun c hc => by
      have := isArgsortRow_lt _ _ harg c hc; omega
    have hget : ∀ c, c < emb.length →
        r.getD c none = if missingAt emb c then none else rpEntry m emb l c := by
      intro c hc
      rw [← hr]
      simp [List.getD_eq_getElem?_getD, hc]
    -- the number of numbers in the row is the number of complete states
    have hcount : (sortV r).countP Option.isSome = nComplete emb := by
      rw [(sortV_perm r).countP_eq, ← hr, List.countP_map]
      unfold nComplete
      apply List.countP_congr
      intro c hc
      have hc' : c < emb.length := List.mem_range.mp hc
      simp only [Function.comp]
      cases hm : missingAt emb c with
      | true => simp
      | false =>
        have := rpEntry_isSome m emb l c hl' hc' (by simpa [missingAt] using hcl)
          (by simpa [missingAt] using hm)
        simp [this]
    obtain ⟨hlenc, hset⟩ := adaptive_row_cols emb.length kA sn _ R hR l hl snl hrow hsl (by omega)
    refine ⟨(snl.drop 1).take kA, dropTake_nodup snl kA hnd, hlenc, ?_⟩
    intro c hc
    have hcn : c < emb.length := hlt c (dropTake_mem snl kA c hc)
    have hRc := hset c hc
    -- position of `c` in the table row
    rw [List.mem_take_iff_getElem] at hc
    obtain ⟨i, hi, rfl⟩ := hc
    have hi' : i < kA := by simp at hi; omega
    have hpos : snl[1 + i]? = some ((snl.drop 1)[i]'(by simp at hi ⊢; omega)) := by
      rw [List.getElem_drop, List.getElem?_eq_getElem]
    have hsorted := isArgsortRow_getElem _ _ harg (1 + i) _ hpos
    obtain ⟨x, hx⟩ := sorted_isSome_of_lt_countP (sortV r) (sortV_pairwise r) (1 + i)
      (by rw [hcount]; omega)
    rw [hsorted] at hx
    injection hx with hx
    rw [hget _ hcn] at hx
    have hcc : missingAt emb ((snl.drop 1)[i]'(by simp at hi ⊢; omega)) = false := by
      cases hm : missingAt emb ((snl.drop 1)[i]'(by simp at hi ⊢; omega)) with
      | true => rw [hm] at hx; simp at hx
      | false => rfl
    refine ⟨hcn, hcc, ?_⟩
    rw [masked_keeps_complete emb _ l _ hcl hcc, bmTab, entry_tab, if_pos ⟨hl', hcn⟩, hRc]

/-- non-vacuity, and the defect that was repaired: `[0, nan, 1, 3]`, supremum metric, `kA = 1`.
Without the `+inf` rows the NaN state (distance 0 to everybody: its only component is skipped)
may sort first in every row: states 2 and 3 are then linked to *themselves* only and state 0 to
the NaN state — no complete state has a complete neighbour.  With them every complete state
has a complete neighbour and state 1 none. -/
example :
    nComplete [[some 0], [none], [some 1], [some 3]] = 3
    ∧ argsortOK (adaptiveDist .supremum [[some 0], [none], [some 1], [some 3]] true)
        [[0, 2, 3, 1], [0, 1, 2, 3], [2, 0, 3, 1], [3, 2, 0, 1]] = true
    ∧ (match adaptivePlotMV .supremum [[some 0], [none], [some 1], [some 3]] 1 none
          [[0, 2, 3, 1], [0, 1, 2, 3], [2, 0, 3, 1], [3, 2, 0, 1]] true with
        | .ok p => p.R | _ => [])
      = [[false, false, true, true], [false, false, false, false],
         [true, false, false, true], [true, false, true, false]]
    ∧ (match adaptivePlotWith .supremum [[some 0], [none], [some 1], [some 3]] 1 none
          [[1, 0, 2, 3], [1, 0, 2, 3], [1, 2, 0, 3], [1, 3, 2, 0]] with
        | .ok p => p.R | _ => [])
      = [[true, true, false, false], [true, false, false, false],
         [false, false, true, false], [false, false, false, true]] := by
  refine ⟨by decide +kernel, ?_, by decide +kernel, by decide +kernel⟩
  have e : adaptiveDist .supremum [[some 0], [none], [some 1], [some 3]] true
      = [[some 0, none, some 1, some 3], [none, none, none, none],
         [some 1, none, some 0, some 2], [some 3, none, some 2, some 0]] := by
    decide +kernel
  rw [e]
  simp only [argsortOK, List.zipWith, List.all, List.length, id, Bool.and_true,
    Bool.and_eq_true, beq_iff_eq]
  exact ⟨trivial, isArgsortRow_of _ _ (by decide) (by decide +kernel),
    isArgsortRow_of _ _ (by decide) (by decide +kernel),
    isArgsortRow_of _ _ (by decide) (by decide +kernel),
    isArgsortRow_of _ _ (by decide) (by decide +kernel)⟩

/-! ### `threshold_std`: the threshold is `s·σ` of the stored series -/

/-- the comparison `distance < threshold_std·std` in the model's units: the Euclidean kernel
value is a square already, the other two are squared -/
def ltStd (m : Metric) (d tsq : V) : Bool :=
  match m with
  | .euclidean => ltV d tsq
  | _ => ltV (mulV d d) tsq

/-- **`set_fixed_threshold_std`**: `R[i,j] = 1` exactly when the kernel distance is below
`threshold_std · std(series)` (in squared units, see `std_threshold_real`), and — with
`missing_values=True` — neither state holds a missing value. -/
theorem rec_iff_dist_lt_std (m : Metric) (series emb : List (List V)) (s : Rat) (mv : Bool)
    (i j : Nat) (hi : i < emb.length) (hj : j < emb.length) :
    entry (fixedThresholdStd m series emb s mv) i j
      = some (ltStd m (rpEntry m emb i j) (stdThrSq s (varV series.flatten))
              && (!mv || (!missingAt emb i && !missingAt emb j))) := by
  unfold fixedThresholdStd maskIf
  cases mv
  · simp only [Bool.false_eq_true, if_false, thresholdSq, distRP, entry_map_map, entry_tab, hi, hj,
      and_self, if_true, Option.map_some, ltStd]
    cases m <;> simp
  · simp only [if_true, applyMask_entry, thresholdSq, distRP, entry_map_map, entry_tab, hi, hj,
      and_self, Option.map_some, ltStd, missingAt]
    cases m <;> simp [Bool.and_assoc]

/-- **the squared comparison is the comparison with `s·√var` over ℝ**: for complete state
vectors `a`, `b` and a series with variance `v`, the model's decision is
`d(a,b) < s · √v` with `d` the Manhattan / supremum distance, resp. `√(Σ(aᵢ−bᵢ)²)`. -/
theorem std_threshold_real (m : Metric) (a b : List Rat) (s v : Rat) (hv : 0 ≤ v) :
    ltStd m (dist m (a.map some) (b.map some)) (stdThrSq s (some v)) = true
      ↔ (match m with
          | .euclidean => Real.sqrt ((metricQ .euclidean a b : Rat) : ℝ)
          | m => ((metricQ m a b : Rat) : ℝ)) < (s : ℝ) * Real.sqrt (v : ℝ) := by
  have hd : 0 ≤ metricQ m a b := dist_nonneg m _ _ _ (dist_complete m a b)
  rw [dist_complete]
  cases m with
  | euclidean =>
    simp only [ltStd, stdThrSq, Option.map_some, ltV, decide_eq_true_eq]
    exact (sqrt_lt_mul_sqrt_iff _ v s hd hv).symm
  | manhattan =>
    simp only [ltStd, stdThrSq, Option.map_some, ltV, mulV, decide_eq_true_eq]
    exact (lt_mul_sqrt_iff _ v s hd hv).symm
  | supremum =>
    simp only [ltStd, stdThrSq, Option.map_some, ltV, mulV, decide_eq_true_eq]
    exact (lt_mul_sqrt_iff _ v s hd hv).symm

/-- the variance the threshold uses is the population variance of all entries of the stored
series, and it is never negative (so `std_threshold_real` applies) -/
theorem std_variance (l : List Rat) (h : l ≠ []) :
    ∃ v, varV (l.map some) = some v ∧ 0 ≤ v ∧
      v = (l.map fun x => (x - l.sum / (l.length : Rat)) * (x - l.sum / (l.length : Rat))).sum
            / (l.length : Rat) :=
  ⟨_, varV_some l h, varV_nonneg _ _ (varV_some l h), rfl⟩

/-- a NaN in the series makes the standard deviation NaN: nothing is recurrent -/
example : fixedThresholdStd .supremum (column [some 0, none, some 1]) (column [some 0, none, some 1])
    10 false = [[false, false, false], [false, false, false], [false, false, false]] := by
  decide +kernel

/-- series 0,4,0,4 (σ = 2), `threshold_std = 1/2`: threshold 1 -/
example : fixedThresholdStd .manhattan (column [some 0, some 4, some 0, some 4])
    (column [some 0, some 4, some 0, some 4]) (1/2) false
    = [[true, false, true, false], [false, true, false, true], [true, false, true, false],
       [false, true, false, true]] := by decide +kernel

/-! ### `normalize=True` -/

/-- **`normalize_time_series` is the affine map `x ↦ (x − μ)/σ`** with `μ` the mean and `σ > 0`,
`σ² = ` variance of the column (whenever the variance is a non-zero rational square) -/
theorem normalize_is_affine (col col' : List V) (v : Rat) (h : normalizeCol col = some col')
    (hv : varV col = some v) (hv0 : v ≠ 0) :
    ∃ mu sd, meanV col = some mu ∧ 0 < sd ∧ sd * sd = v ∧ col' = col.map (affV mu sd) :=
  normalizeCol_spec col col' v h hv hv0

/-- **distances after normalisation** are the raw distances divided by `σ` (`σ²` for the
squared Euclidean kernel value) -/
theorem dist_rescale (m : Metric) (mu sd : Rat) (hsd : 0 < sd) (a b : List V) :
    dist m (a.map (affV mu sd)) (b.map (affV mu sd))
      = (dist m a b).map (fun d => match m with | .euclidean => d / (sd * sd) | _ => d / sd) :=
  dist_affine m mu sd hsd a b

/-- **normalising a scalar series and thresholding its (delay-embedded) states at `ε` is
thresholding the raw series at `ε·σ`** (`threshold_std = ε`), with or without missing-value
treatment — so the normalised plot is a thresholded distance matrix of the given series. -/
theorem normalized_plot_eq_std_plot (m : Metric) (ts ts' : List V) (v : Rat) (dim tau len : Nat)
    (eps : Rat) (mv : Bool) (h : normalizeCol ts = some ts') (hv : varV ts = some v)
    (hv0 : v ≠ 0) :
    fixedThreshold m (embed ts' dim tau len) eps mv
        = fixedThresholdStd m (column ts) (embed ts dim tau len) eps mv
    ∧ fixedThreshold m (column ts') eps mv = fixedThresholdStd m (column ts) (column ts) eps mv :=
  ⟨normalized_threshold_eq_std m ts ts' v dim tau len eps mv h hv hv0,
   normalized_threshold_eq_std_column m ts ts' v eps mv h hv hv0⟩

/-- the exact square root used by the model is a square root -/
theorem ratSqrt_sound (q r : Rat) (h : ratSqrt? q = some r) : 0 ≤ r ∧ r * r = q :=
  ratSqrt?_sound q r h

example : normalizeCol [some (-4), some 1, some 1, some 1, some 1]
    = some [some (-2), some (1/2), some (1/2), some (1/2), some (1/2)] := by decide +kernel


/-! ### the composed objects: cross, joint, inter-system -/

/-- **cross recurrence plot, fixed threshold**: `CR` is `N×M` with `N`, `M` the numbers of state
vectors the object reports, and `CR[i,j] = 1 ⇔ d(x_i, y_j) < ε` -/
theorem cross_rec_iff_dist_lt (m : Metric) (ex ey : List (List V)) (eps : Rat) :
    ∃ p, crossPlot m ex ey (.thr eps) = .ok p ∧ p.N = ex.length ∧ p.M = ey.length
      ∧ p.R.length = ex.length ∧ (∀ row ∈ p.R, row.length = ey.length)
      ∧ ∀ i j, i < ex.length → j < ey.length →
          entry p.R i j = some (ltV (dist m (rowOf ex i) (rowOf ey j)) (some (unitThr m eps))) := by
  refine ⟨_, rfl, rfl, rfl, ?_, ?_, ?_⟩
  · simp [threshold, distCRP, tab_length]
  · intro row hrow
    simp only [threshold, distCRP, tab, List.map_map, List.mem_map, List.mem_range] at hrow
    obtain ⟨i, _, rfl⟩ := hrow
    simp
  · intro i j hi hj
    simp [threshold, distCRP, entry_map_map, entry_tab, hi, hj]

/-- **cross recurrence plot, fixed rate**: `CR` is the cross distance matrix thresholded at the
generated quantile index of all `N·M` distances; at most that many entries are recurrent; the
reported sizes are those of `CR` -/
theorem cross_rate_spec (m : Metric) (ex ey : List (List V)) (rr : Rat) (p : Plot)
    (h : crossPlot m ex ey (.rate rr) = .ok p) :
    p.N = ex.length ∧ p.M = ey.length ∧ p.R.length = ex.length ∧
    ∃ t, (sortV (distCRP m ex ey).flatten)[rateK rr (distCRP m ex ey).flatten.length]? = some t
      ∧ p.R = threshold (distCRP m ex ey) t
      ∧ countTrue p.R.flatten ≤ rateK rr (distCRP m ex ey).flatten.length := by
  simp only [crossPlot] at h
  cases hq : fixedRate (distCRP m ex ey) (rateK rr (distCRP m ex ey).flatten.length) with
  | none => rw [hq] at h; simp only [Res.ofOption, Res.bind] at h; cases h
  | some R =>
    rw [hq] at h; simp only [Res.ofOption, Res.bind, Res.ok.injEq] at h
    subst h
    obtain ⟨t, h1, h2, h3⟩ := global_rate_le _ _ _ hq
    refine ⟨rfl, rfl, ?_, t, h1, h2, h3⟩
    show R.length = ex.length
    rw [h2, threshold_length]; simp [distCRP, tab_length]

theorem distRP_eq_tab (m : Metric) (emb : List (List V)) :
    distRP m emb = tab emb.length emb.length (rpEntry m emb) := rfl

/-- both signs of the lag in one statement (the generated bounds of `set_fixed_threshold`):
two `n×n` matrices compose to the side-`n − |lag|` matrix of the pairs `(t, t + lag)` -/
theorem joint_compose (n : Nat) (fx fy : Nat → Nat → Bool) (lag : Int) (hl : lag.natAbs ≤ n) :
    jointSlices (tab n n fx) (tab n n fy) lag (jBoundsThr n lag)
      = some (tab (n - lag.natAbs) (n - lag.natAbs) fun i j =>
          if lag ≥ 0 then fx i j && fy (i + lag.natAbs) (j + lag.natAbs)
          else fy i j && fx (i + lag.natAbs) (j + lag.natAbs)) := by
  by_cases hpos : lag ≥ 0
  · obtain ⟨k, rfl⟩ : ∃ k : Nat, lag = k := ⟨lag.toNat, by omega⟩
    rw [joint_eq_product_pos n _ _ k (by simpa using hl)]
    simp
  · obtain ⟨k, rfl, hk0⟩ : ∃ k : Nat, lag = -(k : Int) ∧ 0 < k := ⟨lag.natAbs, by omega, by omega⟩
    rw [joint_eq_product_neg n _ _ k hk0 (by simpa using hl)]
    have : k ≠ 0 := by omega
    simp [this]

/-- **joint recurrence plot, fixed thresholds, at the object level** (`__init__` pruning +
`set_fixed_threshold` + the generated slice bounds and reported `N`): for `n` = the smaller
number of state vectors and `|lag| ≤ n`, the object holds
`JR[i,j] = [d_x(i,j) < ε₁] ∧ [d_y(i+lag, j+lag) < ε₂]` for `lag ≥ 0`, resp.
`[d_y(i,j) < ε₂] ∧ [d_x(i+ℓ, j+ℓ) < ε₁]` for `lag = −ℓ < 0`, of side `n − |lag|`, and reports
`N = n − |lag|`. -/
theorem joint_plot_thr_spec (mx my : Metric) (ex ey : List (List V)) (nRaw nRawY n : Nat)
    (lag : Int) (e1 e2 : Rat) (hn : min ex.length ey.length = n) (hsame : nRaw = nRawY)
    (hraw : lag.natAbs ≤ nRaw) (hl : lag.natAbs ≤ n) :
    jointPlot mx my ex ey nRaw nRawY lag (.thr e1) (.thr e2) = .ok
      ⟨tab (n - lag.natAbs) (n - lag.natAbs) (fun i j =>
          if lag ≥ 0 then
            ltV (rpEntry mx (ex.take n) i j) (some (unitThr mx e1))
              && ltV (rpEntry my (ey.take n) (i + lag.natAbs) (j + lag.natAbs)) (some (unitThr my e2))
          else
            ltV (rpEntry my (ey.take n) i j) (some (unitThr my e2))
              && ltV (rpEntry mx (ex.take n) (i + lag.natAbs) (j + lag.natAbs))
                  (some (unitThr mx e1))),
        ((n - lag.natAbs : Nat) : Int), ((n - lag.natAbs : Nat) : Int)⟩ := by
  have hXl : (ex.take n).length = n := by rw [List.length_take]; omega
  have hYl : (ey.take n).length = n := by rw [List.length_take]; omega
  have hg : jointGuard nRaw nRawY lag = true := (jointGuard_iff _ _ _).mpr ⟨hsame, hraw⟩
  unfold jointPlot
  simp only [jointPruned_eq, hn, hg, Bool.not_true, Bool.false_eq_true, if_false, hXl]
  rw [distRP_eq_tab, distRP_eq_tab, hXl, hYl, threshold_tab, threshold_tab, joint_compose n _ _ lag hl]
  simp only [Res.ofOption, Res.bind, (joint_size_consistent n lag hl).1]

/-- **every RQA method is applicable to a joint plot**: whenever a joint plot is built with
`|lag|` not exceeding the number of state vectors, the reported `N` is the side of `JR`
(threshold and rate constructors) -/
theorem rqa_applicable_joint (mx my : Metric) (ex ey : List (List V)) (nRaw nRawY n : Nat)
    (lag : Int) (sx sy : Spec) (p : Plot) (hn : min ex.length ey.length = n) (hl : lag.natAbs ≤ n)
    (h : jointPlot mx my ex ey nRaw nRawY lag sx sy = .ok p) : p.N = p.R.length := by
  have hXl : (ex.take n).length = n := by rw [List.length_take]; omega
  have hYl : (ey.take n).length = n := by rw [List.length_take]; omega
  have hN := joint_size_consistent n lag hl
  unfold jointPlot at h
  simp only [jointPruned_eq, hn, hXl] at h
  by_cases hraw : jointGuard nRaw nRawY lag = true
  swap
  · have hraw' : jointGuard nRaw nRawY lag = false := by simpa using hraw
    simp only [hraw', Bool.not_false, if_true] at h; cases h
  · simp only [hraw, Bool.not_true, Bool.false_eq_true, if_false] at h
    cases sx with
    | thr e1 =>
      cases sy with
      | thr e2 =>
        simp only [distRP_eq_tab, hXl, hYl, threshold_tab, joint_compose n _ _ lag hl,
          Res.ofOption, Res.bind, Res.ok.injEq] at h
        subst h
        simp only [hN.1, tab_length]
      | rate _ => cases h
      | localRate _ => cases h
    | rate r1 =>
      cases sy with
      | thr _ => cases h
      | localRate _ => cases h
      | rate r2 =>
        simp only [distRP_eq_tab, hXl, hYl] at h
        cases hx : fixedRate (tab n n (rpEntry mx (ex.take n))) _ with
        | none => rw [hx] at h; simp only [Res.ofOption, Res.bind] at h; cases h
        | some Rx =>
          rw [hx] at h; simp only [Res.ofOption, Res.bind] at h
          cases hy : fixedRate (tab n n (rpEntry my (ey.take n))) _ with
          | none => rw [hy] at h; simp only [Res.ofOption, Res.bind] at h; cases h
          | some Ry =>
            rw [hy] at h; simp only [Res.ofOption, Res.bind] at h
            obtain ⟨tx, _, hRx, _⟩ := global_rate_le _ _ _ hx
            obtain ⟨ty, _, hRy, _⟩ := global_rate_le _ _ _ hy
            rw [hRx, hRy, threshold_tab, threshold_tab, joint_rate_bounds_eq,
              joint_compose n _ _ lag hl] at h
            simp only [Res.ofOption, Res.bind, Res.ok.injEq] at h
            subst h
            simp only [hN.2, tab_length]
    | localRate _ => cases h

/-- blocks of the right shapes always fit: the assembly cannot raise -/
theorem isrm_fits (Nx Ny : Nat) (Rx Ry CR : List (List Bool))
    (hx : Rx.length = Nx ∧ ∀ r ∈ Rx, r.length = Nx) (hy : Ry.length = Ny ∧ ∀ r ∈ Ry, r.length = Ny)
    (hc : CR.length = Nx ∧ ∀ r ∈ CR, r.length = Ny) : ∃ I, isrm Nx Ny Rx Ry CR = some I := by
  unfold isrm
  have f : ∀ (M : List (List Bool)) (r c : Nat), (M.length = r ∧ ∀ x ∈ M, x.length = c) →
      (M.length == r && M.all (·.length == c)) = true := by
    intro M r c ⟨h1, h2⟩
    simp only [Bool.and_eq_true, beq_iff_eq, List.all_eq_true]
    exact ⟨h1, h2⟩
  simp only [f Rx Nx Nx hx, f Ry Ny Ny hy, f CR Nx Ny hc, Bool.and_self, if_true]
  exact ⟨_, rfl⟩

theorem threshold_rows (D : List (List V)) (t : V) (k : Nat) (h : ∀ r ∈ D, r.length = k) :
    ∀ r ∈ threshold D t, r.length = k := by
  intro r hr
  simp only [threshold, List.mem_map] at hr
  obtain ⟨row, hrow, rfl⟩ := hr
  simpa using h row hrow

theorem tab_rows {α : Type} (n k : Nat) (f : Nat → Nat → α) : ∀ r ∈ tab n k f, r.length = k := by
  intro r hr
  simp only [tab, List.mem_map, List.mem_range] at hr
  obtain ⟨i, _, rfl⟩ := hr
  simp

/-- **the assembly as the code writes it is the block matrix**: `np.zeros((N, N))` followed by the
four slice assignments of `inter_system_recurrence_matrix`, with every written slice bound and
`N` generated from the source, is `isrm` (hence `isrm_blocks/_symm/_size` hold of the code's
assembly; a changed bound breaks this proof and changes the driver's answers) -/
theorem isrm_assembly_eq (nx ny : Nat) (Rx Ry CR : List (List Bool)) :
    assemble (ArithC07.isrnTotalN nx ny).toNat
      (isrmParts (ArithC07.isrnTotalN nx ny) nx ny Rx Ry CR) = isrm nx ny Rx Ry CR := by
  have h1 : ((nx : Int) + (ny : Int)).toNat = nx + ny := by omega
  have h2 : ((nx : Int) + (ny : Int)) = ((nx + ny : Nat) : Int) := by push_cast; rfl
  simp only [isrmParts, ArithC07.isrnTotalN, ArithC07.isrmXXRowHi, ArithC07.isrmXXColHi,
    ArithC07.isrmXYRowHi, ArithC07.isrmXYColLo, ArithC07.isrmXYColHi, ArithC07.isrmYXRowLo,
    ArithC07.isrmYXRowHi, ArithC07.isrmYXColHi, ArithC07.isrmYYRowLo, ArithC07.isrmYYRowHi,
    ArithC07.isrmYYColLo, ArithC07.isrmYYColHi, h1]
  rw [h2]
  exact assemble_isrm nx ny Rx Ry CR

/-- **inter-system recurrence network, fixed thresholds, at the object level**: the three
sub-plots always fit their blocks (no `ValueError`), the network has `N_x + N_y` nodes = side
of the inter-system matrix `I = [[Rx, CR], [CRᵀ, Ry]]` (`isrm_blocks`), and the adjacency is
`I` without its diagonal. -/
theorem inter_system_thr_spec (m : Metric) (ex ey : List (List V)) (a b c : Rat) :
    ∃ I, isrm ex.length ey.length (fixedThreshold m ex a false) (fixedThreshold m ey b false)
          (threshold (distCRP m ex ey) (some (unitThr m c))) = some I
      ∧ I.length = ex.length + ey.length
      ∧ interSystem m ex ey (.thr a) (.thr b) (.thr c) false
          = .ok ⟨adjacencyOf I ((ex.length : Int) + ey.length + 1), I,
                 ((ex.length + ey.length : Nat) : Int)⟩
      ∧ ∀ i j, i < ex.length + ey.length → j < ex.length + ey.length →
          entry (adjacencyOf I ((ex.length : Int) + ey.length + 1)) i j
            = (entry I i j).map fun v => v && decide (i ≠ j) := by
  have hx : (fixedThreshold m ex a false).length = ex.length
      ∧ ∀ r ∈ fixedThreshold m ex a false, r.length = ex.length := by
    simp only [fixedThreshold, Bool.false_eq_true, if_false]
    exact ⟨by simp [threshold_length, distRP, tab_length], threshold_rows _ _ _ (tab_rows _ _ _)⟩
  have hy : (fixedThreshold m ey b false).length = ey.length
      ∧ ∀ r ∈ fixedThreshold m ey b false, r.length = ey.length := by
    simp only [fixedThreshold, Bool.false_eq_true, if_false]
    exact ⟨by simp [threshold_length, distRP, tab_length], threshold_rows _ _ _ (tab_rows _ _ _)⟩
  have hc : (threshold (distCRP m ex ey) (some (unitThr m c))).length = ex.length
      ∧ ∀ r ∈ threshold (distCRP m ex ey) (some (unitThr m c)), r.length = ey.length :=
    ⟨by simp [threshold_length, distCRP, tab_length], threshold_rows _ _ _ (tab_rows _ _ _)⟩
  obtain ⟨I, hI⟩ := isrm_fits _ _ _ _ _ hx hy hc
  have hlen : I.length = ex.length + ey.length := by
    have := isrm_size _ _ _ _ _ I hI
    simp [ArithC07.isrnTotalN] at this
    omega
  refine ⟨I, hI, hlen, ?_, ?_⟩
  · simp only [interSystem, recurrencePlot, crossPlot, Res.bind, isrm_assembly_eq, hI, Res.ofOption,
      Bool.false_eq_true, if_false]
    simp only [ArithC07.isrnStride, ArithC07.isrnTotalN]
    have : (adjacencyOf I ((ex.length : Int) + ey.length + 1)).length = ex.length + ey.length := by
      simp [adjacencyOf, zeroStride, hlen]
    rw [this]
  · intro i j hi hj
    exact network_eq_R_offdiag I _ i j (by rw [hlen]; push_cast; ring) (by omega) (by omega)

/-- **local fixed rate at the matrix level**: row `i` of the result is row `i` of the distance
matrix thresholded at its own `k`-th smallest entry (so the row theorems
`local_rate_row_count`/`_eq` apply to every row of the stored matrix) -/
theorem local_rate_rows (D : List (List V)) (k : Nat) (R : List (List Bool))
    (h : fixedLocalRate D k = some R) (i : Nat) (row : List V) (hrow : D[i]? = some row) :
    ∃ t, quantileAt row k = some t ∧ R[i]? = some (row.map fun d => ltV d t) := by
  unfold fixedLocalRate at h
  induction D generalizing R i with
  | nil => simp at hrow
  | cons r D ih =>
    simp only [List.mapM_cons, Option.bind_eq_bind] at h
    cases h1 : quantileAt r k with
    | none => simp [h1] at h
    | some t =>
      cases h2 : List.mapM (fun row => (quantileAt row k).map fun t => row.map fun d => ltV d t) D with
      | none => simp [h1, h2] at h
      | some R' =>
        simp [h1, h2] at h
        subst h
        cases i with
        | zero =>
          simp only [List.getElem?_cons_zero, Option.some.injEq] at hrow
          subst hrow
          exact ⟨t, h1, by simp⟩
        | succ i =>
          simp only [List.getElem?_cons_succ] at hrow ⊢
          exact ih R' h2 i hrow

theorem thresholdSq_tab' (m : Metric) (n k : Nat) (f : Nat → Nat → V) (t : V) :
    thresholdSq m (tab n k f) t = tab n k fun i j => ltStd m (f i j) t := by
  cases m <;> simp [thresholdSq, tab, List.map_map, Function.comp_def, ltStd]

/-- **joint recurrence plot with `threshold_std`** (`set_fixed_threshold_std` → `set_fixed_threshold`):
the same composition with the thresholds `s₁·std(x)`, `s₂·std(y)` of the two stored series -/
theorem joint_plot_std_spec (mx my : Metric) (sX sY ex ey : List (List V)) (nRaw nRawY n : Nat)
    (lag : Int) (s1 s2 : Rat) (hn : min ex.length ey.length = n) (hsame : nRaw = nRawY)
    (hraw : lag.natAbs ≤ nRaw) (hl : lag.natAbs ≤ n) :
    jointPlotStd mx my sX sY ex ey nRaw nRawY lag s1 s2 = .ok
      ⟨tab (n - lag.natAbs) (n - lag.natAbs) (fun i j =>
          if lag ≥ 0 then
            ltStd mx (rpEntry mx (ex.take n) i j) (stdThrSq s1 (varV sX.flatten))
              && ltStd my (rpEntry my (ey.take n) (i + lag.natAbs) (j + lag.natAbs))
                  (stdThrSq s2 (varV sY.flatten))
          else
            ltStd my (rpEntry my (ey.take n) i j) (stdThrSq s2 (varV sY.flatten))
              && ltStd mx (rpEntry mx (ex.take n) (i + lag.natAbs) (j + lag.natAbs))
                  (stdThrSq s1 (varV sX.flatten))),
        ((n - lag.natAbs : Nat) : Int), ((n - lag.natAbs : Nat) : Int)⟩ := by
  have hXl : (ex.take n).length = n := by rw [List.length_take]; omega
  have hYl : (ey.take n).length = n := by rw [List.length_take]; omega
  have hg : jointGuard nRaw nRawY lag = true := (jointGuard_iff _ _ _).mpr ⟨hsame, hraw⟩
  unfold jointPlotStd
  simp only [jointPruned_eq, hn, hg, Bool.not_true, Bool.false_eq_true, if_false, hXl]
  rw [distRP_eq_tab, distRP_eq_tab, hXl, hYl, thresholdSq_tab', thresholdSq_tab',
    joint_compose n _ _ lag hl]
  simp only [Res.ofOption, Res.bind, (joint_size_consistent n lag hl).1]

/-- **a network built from any plot** (`RecurrenceNetwork`, `JointRecurrenceNetwork`: constructor and
every setter, with the generated strides): as soon as the plot reports `N` = side of `R`, the
adjacency is `R` without its diagonal and the network has as many nodes as `R` has rows -/
theorem network_of_plot (p : Plot) (stride : Int) (hN : p.N = p.R.length) (hs : stride = p.N + 1) :
    (networkOf p stride).N = p.R.length ∧ (networkOf p stride).R = p.R ∧
    ∀ i j, i < p.R.length → j < p.R.length →
      entry (networkOf p stride).A i j = (entry p.R i j).map fun b => b && decide (i ≠ j) := by
  refine ⟨by simp [networkOf, adjacencyOf, zeroStride], rfl, ?_⟩
  intro i j hi hj
  exact network_eq_R_offdiag p.R stride i j (by rw [hs, hN]) hi hj

/-! ## Round 3 -/

/-! ### `JointRecurrencePlot.__init__`: generated pruning and guards -/

/-- **the pruning the constructor writes** (`min_N = min(…)`, `x_embedded[:min_N, :]`,
`y_embedded[:min_N, :]`, all three expressions generated from the source) keeps exactly the first
`min(N_x, N_y)` state vectors of both embeddings — "mutually consistent sizes" -/
theorem joint_prune_generated (ex ey : List (List V)) :
    jointPruned ex ey = (ex.take (min ex.length ey.length), ey.take (min ex.length ey.length))
    ∧ (jointPruned ex ey).1.length = min ex.length ey.length
    ∧ (jointPruned ex ey).2.length = min ex.length ey.length := by
  rw [jointPruned_eq]
  refine ⟨rfl, ?_, ?_⟩ <;> simp only [List.length_take] <;> omega

/-- **the error branch**: series of unequal raw length, or `|lag|` beyond the raw length, give
`ValueError` (the two generated guards), whatever else is requested -/
theorem joint_guard_raises (mx my : Metric) (ex ey : List (List V)) (nRaw nRawY : Nat) (lag : Int)
    (sx sy : Spec) (h : nRaw ≠ nRawY ∨ nRaw < lag.natAbs) :
    jointPlot mx my ex ey nRaw nRawY lag sx sy = .valueError := by
  have hg : jointGuard nRaw nRawY lag = false := by
    cases hb : jointGuard nRaw nRawY lag with
    | false => rfl
    | true =>
      have := (jointGuard_iff _ _ _).mp hb
      omega
  unfold jointPlot
  simp only [hg, Bool.not_false, if_true]

example : (match jointPlot .supremum .supremum (column [some 0, some 1]) (column [some 0]) 2 1 0
    (.thr 1) (.thr 1) with | .valueError => true | _ => false) = true := by decide +kernel

/-- **joint recurrence plot, fixed recurrence rates, at the object level**: for equal raw
lengths, `|lag| ≤ min(N_x, N_y) = n`, `n ≥ 1` and rates `≤ 1` the constructor returns; each
sub-plot is its distance matrix thresholded at the generated quantile index of all its `n²`
distances (`t₁`, `t₂`), and `JR[i,j] = [d_x(i,j) < t₁] ∧ [d_y(i+lag, j+lag) < t₂]` for
`lag ≥ 0`, resp. the mirrored form for `lag < 0`; side and reported `N` are `n − |lag|`. -/
theorem joint_plot_rate_spec (mx my : Metric) (ex ey : List (List V)) (nRaw nRawY n : Nat)
    (lag : Int) (r1 r2 : Rat) (hn : min ex.length ey.length = n) (hsame : nRaw = nRawY)
    (hraw : lag.natAbs ≤ nRaw) (hl : lag.natAbs ≤ n) (hn1 : 1 ≤ n) (h1 : r1 ≤ 1) (h2 : r2 ≤ 1) :
    ∃ t1 t2,
      (sortV (distRP mx (ex.take n)).flatten)[rateK r1 (distRP mx (ex.take n)).flatten.length]?
        = some t1 ∧
      (sortV (distRP my (ey.take n)).flatten)[rateK r2 (distRP my (ey.take n)).flatten.length]?
        = some t2 ∧
      jointPlot mx my ex ey nRaw nRawY lag (.rate r1) (.rate r2) = .ok
        ⟨tab (n - lag.natAbs) (n - lag.natAbs) (fun i j =>
            if lag ≥ 0 then
              ltV (rpEntry mx (ex.take n) i j) t1
                && ltV (rpEntry my (ey.take n) (i + lag.natAbs) (j + lag.natAbs)) t2
            else
              ltV (rpEntry my (ey.take n) i j) t2
                && ltV (rpEntry mx (ex.take n) (i + lag.natAbs) (j + lag.natAbs)) t1),
          ((n - lag.natAbs : Nat) : Int), ((n - lag.natAbs : Nat) : Int)⟩ := by
  have hXl : (ex.take n).length = n := by rw [List.length_take]; omega
  have hYl : (ey.take n).length = n := by rw [List.length_take]; omega
  have hg : jointGuard nRaw nRawY lag = true := (jointGuard_iff _ _ _).mpr ⟨hsame, hraw⟩
  -- the two quantiles exist
  have hflat : ∀ (m : Metric) (e : List (List V)), e.length = n →
      1 ≤ (distRP m e).flatten.length := by
    intro m e he
    have hpos : 0 < n := hn1
    have hne : (distRP m e) ≠ [] := by
      intro h0
      have := congrArg List.length h0
      simp [distRP, tab_length, he] at this
      omega
    obtain ⟨r, rs, hrs⟩ := List.exists_cons_of_ne_nil hne
    have hr : r.length = n := by
      have := tab_rows e.length e.length (rpEntry m e) r (by rw [← distRP_eq_tab, hrs]; simp)
      omega
    rw [hrs, List.flatten_cons, List.length_append]
    omega
  have hq : ∀ (m : Metric) (e : List (List V)) (rr : Rat), e.length = n → rr ≤ 1 →
      ∃ t, (sortV (distRP m e).flatten)[rateK rr (distRP m e).flatten.length]? = some t := by
    intro m e rr he hrr
    have hlt := rate_index_in_range rr _ hrr (hflat m e he)
    have hlen : (sortV (distRP m e).flatten).length = (distRP m e).flatten.length :=
      (sortV_perm _).length_eq
    exact ⟨_, List.getElem?_eq_getElem (by rw [hlen]; exact hlt)⟩
  obtain ⟨t1, ht1⟩ := hq mx (ex.take n) r1 hXl h1
  obtain ⟨t2, ht2⟩ := hq my (ey.take n) r2 hYl h2
  refine ⟨t1, t2, ht1, ht2, ?_⟩
  unfold jointPlot
  simp only [jointPruned_eq, hn, hg, Bool.not_true, Bool.false_eq_true, if_false, hXl]
  simp only [fixedRate, quantileAt, ht1, ht2, Option.map_some, Res.ofOption, Res.bind]
  rw [distRP_eq_tab, distRP_eq_tab, hXl, hYl, threshold_tab, threshold_tab, joint_rate_bounds_eq,
    joint_compose n _ _ lag hl]
  simp only [Res.ofOption, Res.bind, (joint_size_consistent n lag hl).2]

/-! ### inter-system recurrence network, fixed recurrence rates -/

theorem fixedRate_some (D : List (List V)) (rr : Rat) (hrr : rr ≤ 1) (hD : 1 ≤ D.flatten.length) :
    ∃ R, fixedRate D (rateK rr D.flatten.length) = some R := by
  have hlt := rate_index_in_range rr _ hrr hD
  have hlen : (sortV D.flatten).length = D.flatten.length := (sortV_perm _).length_eq
  unfold fixedRate quantileAt
  rw [List.getElem?_eq_getElem (by rw [hlen]; exact hlt)]
  exact ⟨_, rfl⟩

theorem flatten_tab_length {α : Type} (n k : Nat) (f : Nat → Nat → α) :
    (tab n k f).flatten.length = n * k := by
  unfold tab
  induction n with
  | zero => simp
  | succ n ih =>
    rw [List.range_succ, List.map_append, List.flatten_append, List.length_append, ih]
    simp [Nat.succ_mul]

/-- **inter-system recurrence network, fixed recurrence rates, at the object level**: for
`N_x, N_y ≥ 1` state vectors and rates `≤ 1` the constructor returns (no `IndexError`, no
`ValueError`); the three blocks are the distance matrices of `x`, of `y` and the cross distance
matrix, each thresholded at its own generated quantile index with at most that many recurrences
(`global_rate_le`); they fit, `I = [[Rx, CR], [CRᵀ, Ry]]` (`isrm`, so `isrm_blocks` applies), the
network has `N_x + N_y` nodes = side of `I`, and the adjacency is `I` without its diagonal
(the generated stride of the rate branch). -/
theorem inter_system_rate_spec (m : Metric) (ex ey : List (List V)) (a b c : Rat)
    (hx : 1 ≤ ex.length) (hy : 1 ≤ ey.length) (ha : a ≤ 1) (hb : b ≤ 1) (hc : c ≤ 1) :
    ∃ Rx Ry CR I,
      fixedRate (distRP m ex) (rateK a (distRP m ex).flatten.length) = some Rx
      ∧ fixedRate (distRP m ey) (rateK b (distRP m ey).flatten.length) = some Ry
      ∧ fixedRate (distCRP m ex ey) (rateK c (distCRP m ex ey).flatten.length) = some CR
      ∧ isrm ex.length ey.length Rx Ry CR = some I
      ∧ I.length = ex.length + ey.length
      ∧ interSystem m ex ey (.rate a) (.rate b) (.rate c) true
          = .ok ⟨adjacencyOf I ((ex.length : Int) + ey.length + 1), I,
                 ((ex.length + ey.length : Nat) : Int)⟩
      ∧ ∀ i j, i < ex.length + ey.length → j < ex.length + ey.length →
          entry (adjacencyOf I ((ex.length : Int) + ey.length + 1)) i j
            = (entry I i j).map fun v => v && decide (i ≠ j) := by
  have hfx : 1 ≤ (distRP m ex).flatten.length := by
    rw [distRP_eq_tab, flatten_tab_length]; exact Nat.mul_pos hx hx
  have hfy : 1 ≤ (distRP m ey).flatten.length := by
    rw [distRP_eq_tab, flatten_tab_length]; exact Nat.mul_pos hy hy
  have hfc : 1 ≤ (distCRP m ex ey).flatten.length := by
    unfold distCRP; rw [flatten_tab_length]; exact Nat.mul_pos hx hy
  obtain ⟨Rx, hRx⟩ := fixedRate_some _ a ha hfx
  obtain ⟨Ry, hRy⟩ := fixedRate_some _ b hb hfy
  obtain ⟨CR, hCR⟩ := fixedRate_some _ c hc hfc
  obtain ⟨tx, _, hRx', _⟩ := global_rate_le _ _ _ hRx
  obtain ⟨ty, _, hRy', _⟩ := global_rate_le _ _ _ hRy
  obtain ⟨tc, _, hCR', _⟩ := global_rate_le _ _ _ hCR
  have sx : Rx.length = ex.length ∧ ∀ r ∈ Rx, r.length = ex.length := by
    rw [hRx']
    exact ⟨by simp [threshold_length, distRP, tab_length], threshold_rows _ _ _ (tab_rows _ _ _)⟩
  have sy : Ry.length = ey.length ∧ ∀ r ∈ Ry, r.length = ey.length := by
    rw [hRy']
    exact ⟨by simp [threshold_length, distRP, tab_length], threshold_rows _ _ _ (tab_rows _ _ _)⟩
  have sc : CR.length = ex.length ∧ ∀ r ∈ CR, r.length = ey.length := by
    rw [hCR']
    exact ⟨by simp [threshold_length, distCRP, tab_length], threshold_rows _ _ _ (tab_rows _ _ _)⟩
  obtain ⟨I, hI⟩ := isrm_fits _ _ _ _ _ sx sy sc
  have hlen : I.length = ex.length + ey.length := by
    have := isrm_size _ _ _ _ _ I hI
    simp [ArithC07.isrnTotalN] at this
    omega
  refine ⟨Rx, Ry, CR, I, hRx, hRy, hCR, hI, hlen, ?_, ?_⟩
  · simp only [interSystem, recurrencePlot, crossPlot, hRx, hRy, hCR, Res.ofOption, Res.bind,
      maskIf, Bool.false_eq_true, if_false, isrm_assembly_eq, hI, if_true]
    simp only [ArithC07.isrnStrideRate, ArithC07.isrnTotalN]
    have : (adjacencyOf I ((ex.length : Int) + ey.length + 1)).length = ex.length + ey.length := by
      simp [adjacencyOf, zeroStride, hlen]
    rw [this]
  · intro i j hi hj
    exact network_eq_R_offdiag I _ i j (by rw [hlen]; push_cast; ring) (by omega) (by omega)

/-! ### sequential RQA (`sparse_rqa=True`) -/

/-- **the sequential line kernels see exactly the recurrence matrix**: the cell-by-cell decision
`metric_supremum(I, j, dim, E) < eps` of `_line_dist` (no matrix stored) is, for *every* pair
`I, j` — diagonal and states with missing values included — the entry of the matrix
`set_fixed_threshold` would store for the supremum metric -/
theorem sparse_matrix_eq (emb : List (List V)) (eps : Rat) :
    sparseMatrix emb eps = fixedThreshold .supremum emb eps false := by
  unfold sparseMatrix fixedThreshold
  simp only [Bool.false_eq_true, if_false]
  rw [distRP_eq_tab, threshold_tab]
  exact tab_congr _ _ _ _ (fun i j => seqRec_eq emb eps i j)

/-- hence the sequential line histograms are the line histograms (model of `_line_dist`, property
C08) of the stored matrix of the non-sparse object -/
theorem sparse_lines_eq (emb : List (List V)) (eps : Rat) :
    sparseVertline emb eps false
        = LineDist.vertline (fixedThreshold .supremum emb eps false) emb.length
    ∧ sparseDiagline emb eps false
        = LineDist.diagline (fixedThreshold .supremum emb eps false) emb.length := by
  simp [sparseVertline, sparseDiagline, sparse_matrix_eq]

/-- a state with a NaN component: the supremum kernel skips it, on and off the diagonal alike -/
example : sparseMatrix [[none, some 1], [some 0, some 1]] (1/2)
    = [[true, true], [true, true]] := by decide +kernel

/-! ### recurrence network with `missing_values=True`: the missing states are deleted -/

/-- **a recurrence network is the recurrence matrix without its diagonal — restricted to the
states without missing values**: with `kept` the (ordered) states whose vectors are complete,
node `a` of the network is state `kept[a]`, the number of nodes is their number, and
`A[a,b] = R[kept[a], kept[b]] ∧ kept[a] ≠ kept[b]`, for the threshold, rate and local-rate
constructions.  (`R` itself keeps its full side: the RQA methods of such an object are the known
finding C07-rn-missing-values-N.) -/
theorem network_missing_deleted (m : Metric) (emb : List (List V)) (s : Spec) (p : Net)
    (h : recurrenceNetwork m emb true s = .ok p) :
    let kept := keptIdx (missingMask emb) emb.length
    p.N = kept.length ∧ p.A.length = kept.length ∧
    ∀ a b ia ib, kept[a]? = some ia → kept[b]? = some ib →
      entry p.A a b = (entry p.R ia ib).map fun v => v && decide (ia ≠ ib) := by
  intro kept
  unfold recurrenceNetwork at h
  cases hp : recurrencePlot m emb true s with
  | valueError => simp [hp, Res.bind] at h
  | indexError => simp [hp, Res.bind] at h
  | ok q =>
    have hN : q.N = q.R.length := rqa_applicable_plot m emb true s q hp
    have hside : q.R.length = emb.length := by
      cases s with
      | thr eps =>
        simp only [recurrencePlot, Res.ok.injEq] at hp
        subst hp
        simp [fixedThreshold, applyMask_length, threshold_length, distRP, tab_length]
      | rate rr =>
        simp only [recurrencePlot] at hp
        cases hq : fixedRate (distRP m emb) (rateK rr (distRP m emb).flatten.length) with
        | none => rw [hq] at hp; simp only [Res.ofOption, Res.bind] at hp; cases hp
        | some R =>
          rw [hq] at hp; simp only [Res.ofOption, Res.bind, Res.ok.injEq] at hp
          subst hp
          obtain ⟨t, _, hR, _⟩ := global_rate_le _ _ _ hq
          simp [maskIf_length, hR, threshold_length, distRP, tab_length]
      | localRate rr =>
        simp only [recurrencePlot] at hp
        cases hq : fixedLocalRate (distRP m emb) (rateK rr emb.length) with
        | none => rw [hq] at hp; simp only [Res.ofOption, Res.bind] at hp; cases hp
        | some R =>
          rw [hq] at hp; simp only [Res.ofOption, Res.bind, Res.ok.injEq] at hp
          subst hp
          simp [maskIf_length, fixedLocalRate_length _ _ _ hq, distRP, tab_length]
    simp only [hp, Res.bind, if_true, Res.ok.injEq] at h
    -- the adjacency before deletion: square of side `emb.length`
    have hAlen : (adjacencyOf q.R (ArithC07.rnStride q.N)).length = emb.length := by
      simp [adjacencyOf, zeroStride, hside]
    have hArow : ∀ r ∈ adjacencyOf q.R (ArithC07.rnStride q.N), r.length = emb.length := by
      intro r hr
      have hrows : ∀ r ∈ q.R, r.length = emb.length := by
        intro r hr
        cases s with
        | thr eps =>
          simp only [recurrencePlot, Res.ok.injEq] at hp
          subst hp
          simp only [fixedThreshold, if_true, applyMask, List.mem_map] at hr
          obtain ⟨⟨row, i⟩, hmem, rfl⟩ := hr
          have hrow : row ∈ threshold (distRP m emb) (some (unitThr m eps)) :=
            (List.mem_zipIdx' hmem).2 ▸ List.getElem_mem _
          simp only [List.length_map, List.length_zipIdx]
          exact threshold_rows _ _ _ (tab_rows _ _ _) row hrow
        | rate rr =>
          simp only [recurrencePlot] at hp
          cases hq : fixedRate (distRP m emb) (rateK rr (distRP m emb).flatten.length) with
          | none => rw [hq] at hp; simp only [Res.ofOption, Res.bind] at hp; cases hp
          | some R =>
            rw [hq] at hp; simp only [Res.ofOption, Res.bind, Res.ok.injEq] at hp
            subst hp
            obtain ⟨t, _, hR, _⟩ := global_rate_le _ _ _ hq
            simp only [maskIf, if_true, applyMask, List.mem_map] at hr
            obtain ⟨⟨row, i⟩, hmem, rfl⟩ := hr
            have hrow : row ∈ R := (List.mem_zipIdx' hmem).2 ▸ List.getElem_mem _
            simp only [List.length_map, List.length_zipIdx]
            rw [hR] at hrow
            exact threshold_rows _ _ _ (tab_rows _ _ _) row hrow
        | localRate rr =>
          simp only [recurrencePlot] at hp
          cases hq : fixedLocalRate (distRP m emb) (rateK rr emb.length) with
          | none => rw [hq] at hp; simp only [Res.ofOption, Res.bind] at hp; cases hp
          | some R =>
            rw [hq] at hp; simp only [Res.ofOption, Res.bind, Res.ok.injEq] at hp
            subst hp
            simp only [maskIf, if_true, applyMask, List.mem_map] at hr
            obtain ⟨⟨row, i⟩, hmem, rfl⟩ := hr
            have hi : i < R.length := (List.mem_zipIdx' hmem).1
            have hrow : R[i]? = some row := by
              rw [List.getElem?_eq_getElem hi]; exact congrArg some (List.mem_zipIdx' hmem).2.symm
            simp only [List.length_map, List.length_zipIdx]
            have hDi : i < (distRP m emb).length := by
              rw [← fixedLocalRate_length _ _ _ hq]; exact hi
            obtain ⟨t, _, hRi⟩ := local_rate_rows _ _ _ hq i _ (List.getElem?_eq_getElem hDi)
            rw [hrow] at hRi
            injection hRi with hRi
            rw [hRi, List.length_map]
            exact tab_rows _ _ _ _ (List.getElem_mem hDi)
      simp only [adjacencyOf, zeroStride, List.mem_map] at hr
      obtain ⟨⟨row, i⟩, hmem, rfl⟩ := hr
      have hrow : row ∈ q.R := (List.mem_zipIdx' hmem).2 ▸ List.getElem_mem _
      simp only [List.length_map, List.length_zipIdx]
      exact hrows row hrow
    have hdel := deleteMasked_eq (adjacencyOf q.R (ArithC07.rnStride q.N)) (missingMask emb)
      emb.length hAlen hArow
    subst h
    simp only []
    rw [hdel]
    refine ⟨by simp [kept], by simp [kept], ?_⟩
    intro a b ia ib ha hb
    have hia : ia < emb.length := by
      have := List.mem_of_getElem? ha
      have := (List.mem_filter.mp this).1
      simpa using this
    have hib : ib < emb.length := by
      have := List.mem_of_getElem? hb
      have := (List.mem_filter.mp this).1
      simpa using this
    have hstride : ArithC07.rnStride q.N = (q.R.length : Int) + 1 := by
      rw [(strides_eq q.N).1, hN]
    have hent := network_eq_R_offdiag q.R _ ia ib hstride (by omega) (by omega)
    change (keptIdx (missingMask emb) emb.length)[a]? = some ia at ha
    change (keptIdx (missingMask emb) emb.length)[b]? = some ib at hb
    have hL : entry ((keptIdx (missingMask emb) emb.length).map fun i =>
          (keptIdx (missingMask emb) emb.length).map fun j =>
            ((adjacencyOf q.R (ArithC07.rnStride q.N)).getD i []).getD j false) a b
        = some (((adjacencyOf q.R (ArithC07.rnStride q.N)).getD ia []).getD ib false) := by
      simp only [entry, List.getElem?_map, ha, hb, Option.map_some, Option.bind_some]
    rw [hL]
    -- getD of the adjacency at (ia, ib) is its entry
    have hget : ∀ (A : List (List Bool)) (v : Bool), entry A ia ib = some v →
        (A.getD ia []).getD ib false = v := by
      intro A v hv
      unfold entry at hv
      cases h1 : A[ia]? with
      | none => simp [h1] at hv
      | some row =>
        simp only [h1, Option.bind_some] at hv
        simp [List.getD, h1, hv]
    cases hR : entry q.R ia ib with
    | none =>
      exfalso
      unfold entry at hR
      have h1 : q.R[ia]? = some (q.R[ia]'(by omega)) := List.getElem?_eq_getElem (by omega)
      rw [h1] at hR
      simp only [Option.bind_some] at hR
      have hrl : (q.R[ia]'(by omega)).length = emb.length := by
        have := hArow ((adjacencyOf q.R (ArithC07.rnStride q.N))[ia]'(by omega))
          (List.getElem_mem _)
        simpa [adjacencyOf, zeroStride] using this
      rw [List.getElem?_eq_getElem (by omega)] at hR
      cases hR
    | some v =>
      rw [hR] at hent
      simp only [Option.map_some] at hent ⊢
      rw [hget _ _ hent]

/-- one missing state out of three: two nodes, linked iff the two complete states recur -/
example : (match recurrenceNetwork .manhattan (column [some 0, none, some 1]) true (.thr 2) with
    | .ok p => (p.N, p.A) | _ => (0, [])) = (2, [[false, true], [true, false]])
    ∧ keptIdx (missingMask (column [some 0, none, some 1])) 3 = [0, 2] := by decide +kernel

/-! ### `normalize=True` on a multi-column series -/

/-- **distance of two states after the column-wise normalisation** `x_l ↦ (x_l − μ_l)/σ_l`
(`σ_l > 0`): the kernels' loop on the raw differences `|a_l − b_l| / σ_l` — a weighted distance of
the *given* states, independent of the means.  (For one column this is `dist_rescale`; with several
columns there is no single threshold on the raw distance, the normalised plot is the thresholded
weighted-distance matrix.) -/
theorem normalized_states_weighted_distance (m : Metric) (mu sd : List Rat)
    (hsd : ∀ s ∈ sd, 0 < s) (hmu : mu.length = sd.length) (a b : List V) :
    dist m (affRow mu sd a) (affRow mu sd b) = distW m sd a b :=
  dist_affRow m mu sd hsd hmu a b

example : affRow [1, 0] [2, 1/2] [some 3, some 1] = [some 1, some 2]
    ∧ distW .manhattan [2, 1/2] [some 3, some 1] [some 1, some 0] = some 3 := by decide +kernel

/-! ### which quantification methods are defined on which construction -/

/-- **every matrix-based quantification method is defined on every square construction**
(`RecurrencePlot` without `sparse_rqa`, `JointRecurrencePlot`, `RecurrenceNetwork`,
`JointRecurrenceNetwork`, `InterSystemRecurrenceNetwork`): everything except the two
ordinal-pattern entropies, which need a delay embedding -/
theorem rqa_defined_square (c : Cfg) (n : Need) (hc : c.cls ≠ .crp) (hs : c.sparse = false)
    (hn : n ≠ .ordinal) : outcome c n = .ok := by
  obtain ⟨cls, sparse, supThr, embedded⟩ := c
  simp only at hs hc
  subst hs
  cases n <;> cases cls <;> simp_all [outcome]

/-- **cross recurrence plot**: defined are exactly the methods that read the matrix, its
diagonals or the distances; line distributions and twins raise the documented
`NotImplementedError`, the ordinal entropies the documented `ValueError` -/
theorem rqa_cross (sparse supThr embedded : Bool) (n : Need) :
    outcome ⟨.crp, sparse, supThr, embedded⟩ n =
      (match n with
       | .matrix | .rate | .diagOf | .distance => .ok
       | .blackLines | .whiteLines | .twins => .notImplemented
       | .ordinal => .valueError) := by
  cases n <;> simp [outcome]

/-- **sequential RQA**: the recurrence rate and the black-line measures are defined exactly for
the supremum metric with a fixed threshold; whatever needs the stored matrix raises the
documented `NotImplementedError` (never an undocumented error — repairs cfed511) -/
theorem rqa_sparse (supThr embedded : Bool) (n : Need) :
    outcome ⟨.rp, true, supThr, embedded⟩ n =
      (match n with
       | .matrix | .distance => .ok
       | .rate | .blackLines => if supThr then .ok else .notImplemented
       | .whiteLines | .twins | .diagOf => .notImplemented
       | .ordinal => if embedded then .ok else .valueError) := by
  cases n <;> simp [outcome]

/-- the ordinal-pattern entropies are defined exactly on a delay-embedded `RecurrencePlot` /
`RecurrenceNetwork` -/
theorem rqa_ordinal (c : Cfg) :
    outcome c .ordinal = .ok ↔ (c.cls = .rp ∨ c.cls = .rn) ∧ c.embedded = true := by
  obtain ⟨cls, sparse, supThr, embedded⟩ := c
  cases cls <;> cases embedded <;> simp [outcome]

/-- **the recurrence rate is defined and is the density of the matrix** whenever the reported `N`
is the side `n ≥ 1` of `R` (which `rqa_applicable_plot / _joint / _network` prove of the objects):
the generated denominator `N ** 2` is `n²`, not zero -/
theorem recurrence_rate_spec (R : List (List Bool)) (N : Int) (hN : N = R.length)
    (h1 : 1 ≤ R.length) :
    recurrenceRate R N = some ((countMat R : Rat) / ((R.length * R.length : Nat) : Rat)) := by
  unfold recurrenceRate ArithC07.rrDenom
  subst hN
  have hne : ((R.length : Int) ^ 2) ≠ 0 := by positivity
  rw [if_neg hne]
  congr 2
  push_cast
  ring

/-- **cross recurrence rate**: defined for `N, M ≥ 1` (denominator `N·M` generated) -/
theorem cross_recurrence_rate_spec (R : List (List Bool)) (N M : Nat) (hN : 1 ≤ N) (hM : 1 ≤ M) :
    crossRecurrenceRate R N M = some ((countMat R : Rat) / ((N * M : Nat) : Rat)) := by
  unfold crossRecurrenceRate ArithC07.crrDenom
  have hne : ((N : Int) * (M : Int)) ≠ 0 := by positivity
  rw [if_neg hne]
  congr 2

/-- **recurrence probability**: defined for every `0 ≤ lag < N`; the generated denominator
`N − lag` is the length of the `lag`-th diagonal when `N` is the side of `R` -/
theorem recurrence_probability_spec (R : List (List Bool)) (N : Int) (lag : Nat)
    (hN : N = R.length) (hl : lag < R.length) :
    recurrenceProbability R N lag
      = some ((countTrue (diagAt R lag) : Rat) / ((diagAt R lag).length : Rat)) := by
  unfold recurrenceProbability ArithC07.rprobDenom
  subst hN
  have hne : ((R.length : Int) - (lag : Int)) ≠ 0 := by omega
  rw [if_neg hne]
  congr 2
  simp only [diagAt, List.length_map, List.length_range]
  have : (((R.length - lag : Nat) : Int) : Rat) = (((R.length : Int) - (lag : Int) : Int) : Rat) := by
    congr 1; omega
  exact_mod_cast this.symm

example : recurrenceRate [[true, false], [true, true]] 2 = some (3/4)
    ∧ recurrenceProbability [[true, false], [true, true]] 2 1 = some 0
    ∧ recurrenceProbability [[true, false], [true, true]] 2 2 = none := by decide +kernel

/-! ### round 4: the `outcome` table derived from the method bodies

`translate/gen_C07.py` regenerates the body of every non-setter method of the six classes as a
program (raises, tests on the object's switches, calls with dynamic dispatch through the MRO, calls
on sub-objects, reads of the stored matrix, uses of values that may be `None`) and the tables that
say which constructor / setter stores which matrix attribute; `Model/RecurrenceStruct.lean`
interprets them (`runPublic`). -/

/-- **the `outcome` table is what the method bodies of the current source do**: for every public
non-setter method `m` reachable on class `cls` (generated list), classified by `needOf`, and every
setting of the switches (`sparse_rqa` — `RecurrencePlot` only —, supremum metric, fixed threshold
given, `missing_values`, `dim` given, `tau` given), running the regenerated body — with dynamic
dispatch of every `self.…()` call, the regenerated provision of `R` / `CR` / `JR` by the
constructors and `None` propagated to its uses — returns, or raises `NotImplementedError` /
`ValueError`, exactly as `outcome` says; in particular it never ends in an undocumented error. -/
theorem outcome_derived (cls m : String) (c : Cls) (need : Need) (a : Atoms)
    (hp : (cls, m) ∈ StructC07.publicMethods) (hc : clsOfName cls = some c)
    (hn : needOf m = some need) (hv : atomsValid c a = true) :
    (runPublic cls a m).outcome = some (outcome (cfgOf c a) need) := by
  have h := derivedAgrees_of_mem (cls, m) hp
  simp only [derivedAgrees, hc, hn] at h
  have ha := List.all_eq_true.mp h a (mem_allAtoms a)
  simpa [hv] using ha

/-- no classified public method of any class ends in an undocumented error (`TypeError` /
`AttributeError` on a matrix that is not stored, an exception class that is not documented, a
statement outside the translator's language) — the claim of repairs bb6427c and 98bfc41 for all
classes, methods and switch settings -/
theorem public_call_documented (cls m : String) (c : Cls) (need : Need) (a : Atoms)
    (hp : (cls, m) ∈ StructC07.publicMethods) (hc : clsOfName cls = some c)
    (hn : needOf m = some need) (hv : atomsValid c a = true) :
    runPublic cls a m ≠ .crash := by
  intro h
  have := outcome_derived cls m c need a hp hc hn hv
  rw [h] at this
  simp [Run.outcome] at this

/-- **which construction provides which stored matrix** (derived from the regenerated constructor
dispatch, setter bodies and parent-constructor calls): `RecurrencePlot` / `RecurrenceNetwork` store
`R` unless `sparse_rqa`; `CrossRecurrencePlot` stores `CR` and never `R` (`skip_recurrence=True`);
the joint classes store `JR` -/
theorem stored_matrix_provided (a : Atoms) :
    provides 4 "RecurrencePlot" false a "R" = !a.sparse
    ∧ provides 4 "RecurrenceNetwork" false a "R" = !a.sparse
    ∧ provides 4 "CrossRecurrencePlot" false a "CR" = true
    ∧ provides 4 "CrossRecurrencePlot" false a "R" = false
    ∧ provides 4 "JointRecurrencePlot" false a "JR" = true
    ∧ provides 4 "JointRecurrenceNetwork" false a "JR" = true :=
  provides_table a

/-- every public method the generated list contains for the five matrix-holding classes is
classified (so `outcome_derived` speaks about all of them) -/
theorem public_methods_classified :
    StructC07.publicMethods.all (fun p => (needOf p.2).isSome) = true := by decide +kernel

example : runPublic "RecurrencePlot" ⟨true, true, false, false, false, false⟩ "rqa_summary"
      = .notImplemented
    ∧ runPublic "RecurrencePlot" ⟨true, true, true, true, false, false⟩ "rqa_summary" = .ret false
    ∧ runPublic "RecurrencePlot" ⟨true, true, true, false, false, false⟩ "recurrence_matrix"
      = .ret true
    ∧ runPublic "CrossRecurrencePlot" ⟨false, true, true, false, true, true⟩ "permutation_entropy"
      = .valueError
    ∧ runPublic "InterSystemRecurrenceNetwork" ⟨false, true, true, false, false, false⟩
        "internal_recurrence_rates" = .ret false := by decide +kernel

/-! ### round 4: `normalize=True` on a multi-column series (the bridge) -/

/-- **`normalize_time_series` on an `(n, d)` array is the per-column affine map** `x ↦ (x − μ_j)/σ_j`
with `μ_j` the mean and `σ_j > 0`, `σ_j² = var_j` the standard deviation of column `j` (all
variances non-zero, roots rational — where the exact model answers) -/
theorem normalize_multicolumn_is_affine (series S : List (List V)) (d : Nat)
    (hne : series ≠ []) (hrect : ∀ r ∈ series, r.length = d)
    (h : storedSeries series true = some S)
    (hvar : ∀ j, j < d → ∃ v, varV (colOf series j) = some v ∧ v ≠ 0) :
    ∃ mu sd : List Rat, mu.length = d ∧ sd.length = d ∧ (∀ s ∈ sd, 0 < s) ∧
      (∀ j, j < d → meanV (colOf series j) = some (mu.getD j 0) ∧
          varV (colOf series j) = some (sd.getD j 0 * sd.getD j 0)) ∧
      S = series.map (affRow mu sd) :=
  normalizeSeries_eq_affRow series S d hne hrect (by simpa [storedSeries] using h) hvar

/-- **the normalised multi-column plot is a thresholded weighted distance matrix of the given
series**: `RecurrencePlot(series, normalize=True, threshold=ε)` marks `i ≠ k` recurrent exactly
when the kernel's loop on `|x_{i,l} − x_{k,l}| / σ_l` is below `ε` (and, with `missing_values`,
neither state holds a missing value) — the open bridge of rounds 2 and 3 between the method
(`normalizeSeries`) and `normalized_states_weighted_distance` -/
theorem normalized_multicolumn_plot (m : Metric) (series S : List (List V)) (d : Nat) (eps : Rat)
    (mv : Bool) (hne : series ≠ []) (hrect : ∀ r ∈ series, r.length = d)
    (h : storedSeries series true = some S)
    (hvar : ∀ j, j < d → ∃ v, varV (colOf series j) = some v ∧ v ≠ 0) :
    ∃ sd : List Rat, sd.length = d ∧ (∀ s ∈ sd, 0 < s) ∧
      (∀ j, j < d → varV (colOf series j) = some (sd.getD j 0 * sd.getD j 0)) ∧
      ∀ i k, i < series.length → k < series.length → i ≠ k →
        entry (fixedThreshold m S eps mv) i k
          = some (ltV (distW m sd (rowOf series i) (rowOf series k)) (some (unitThr m eps))
                  && !(mv && (missingAt S i || missingAt S k))) := by
  obtain ⟨sd, hsd, hpos, hv, hlen, hdist⟩ :=
    normalizeSeries_dist m series S d hne hrect (by simpa [storedSeries] using h) hvar
  refine ⟨sd, hsd, hpos, hv, ?_⟩
  intro i k hi hk hik
  have hent : rpEntry m S i k = distW m sd (rowOf series i) (rowOf series k) := by
    unfold rpEntry
    by_cases h1 : k < i
    · simp only [h1, if_true]; exact hdist i k hi hk
    · have h2 : i < k := by omega
      simp only [h1, h2, if_false, if_true]
      rw [dist_comm]; exact hdist i k hi hk
  cases mv with
  | false =>
    rw [rec_iff_dist_lt m S eps i k (by omega) (by omega), hent]; simp
  | true =>
    rw [rec_iff_dist_lt_missing m S eps i k (by omega) (by omega), hent]
    cases missingAt S i <;> cases missingAt S k <;> simp

example : storedSeries [[some 1, some 0], [some 3, some 1], [some 1, some 0], [some 3, some 1]] true
    = some [[some (-1), some (-1)], [some 1, some 1], [some (-1), some (-1)], [some 1, some 1]] := by
  decide +kernel

/-! ### round 4: `diagline_dist` on asymmetric (fixed local rate) matrices -/

/-- **`diagline_dist` reads the strict lower triangle only** (with or without the missing-value
mask): two matrices that agree below the diagonal have the same histogram — on the asymmetric
matrix of `set_fixed_local_recurrence_rate` the method returns twice the line count of the
lower triangle `R[i,j]`, `i > j` -/
theorem diagline_dist_lower_only (R R' : List (List Bool)) (n : Nat) (mask : Option (List Bool))
    (h : ∀ i j, j < i → i < n → LineDist.Mat.at R i j = LineDist.Mat.at R' i j) :
    diaglineDist R n mask = diaglineDist R' n mask :=
  diaglineDist_congr R R' n mask h

/-- **on a symmetric matrix** (fixed threshold, global rate, adaptive, joint, inter-system — all
proved symmetric above) the doubled histogram is the line count over *all* off-main diagonals -/
theorem diagline_dist_symmetric (R : List (List Bool)) (n : Nat)
    (hs : ∀ i j, i < n → j < n → LineDist.Mat.at R i j = LineDist.Mat.at R j i) :
    diaglineDist R n none = diaglineAll R n :=
  diaglineDist_symm R n hs

/-- witness: on an asymmetric matrix the two differ (lower triangle: one line of length 2;
upper triangle: empty), which is why nothing more than `diagline_dist_lower_only` is claimed -/
example : diaglineDist [[true, false, false], [true, true, false], [false, true, true]] 3 none
      = [0, 2, 0]
    ∧ diaglineAll [[true, false, false], [true, true, false], [false, true, true]] 3 = [0, 1, 0] := by
  decide +kernel

/-! ## Round 5c: adaptive neighbourhood size at the object level, for every argsort table

`Model/RecurrenceAdaptiveObj.lean`: the `rpx` / `rnx` requests of the driver now run
`adaptiveObjPlot` / `adaptiveObjNet` (caller's series → `normalize` → embedding → masked
distances → NumPy's table → kernel → masking block → stride / deletion). -/

/-- **the stored `R` of `RecurrencePlot` / `RecurrenceNetwork` under
`adaptive_neighborhood_size` is `adaptivePlotMV`** on the state vectors of the stored series,
for every table; the table test of the driver is `argsortOK` of the matrix the setter sorts;
the network is `adaptiveNetOf` of that plot -/
theorem adaptive_object_eq (m : Metric) (series S emb : List (List V)) (norm mv setter : Bool)
    (e : Option (Nat × Nat)) (kA : Nat) (order : Option (List Nat)) (sn : List (List Nat))
    (hS : storedSeries series norm = some S) (hE : stateVectors S e = .ok emb) :
    adaptiveObjPlot m series norm mv e kA order sn = some (adaptivePlotMV m emb kA order sn mv)
    ∧ adaptiveTableOK m series norm mv e sn = argsortOK (adaptiveDist m emb mv) sn
    ∧ adaptiveObjNet setter m series norm mv e kA order sn
        = some ((adaptivePlotMV m emb kA order sn mv).bind fun p =>
            .ok (adaptiveNetOf setter mv emb p)) := by
  simp [adaptiveObjPlot, adaptiveTableOK, adaptiveObjNet, objectStates, hS, hE, Res.bind]

/-- **object-level statement for every argsort table** (constructor: `order = none`; setter:
any caller order of `n` state indices).  Whatever table NumPy returns for the matrix the
method sorts (`adaptiveTableOK`), the object is built, reports `N` = `M` = number of state
vectors = side of `R`, and
* without `missing_values`: `R` is symmetric and for `kA ≤ n − 1` every processed state has
  ≥ `kA` recurrences, is linked for every `1 ≤ k ≤ kA` to a state at exactly the `k`-th
  smallest distance of its row, and has ≥ `kA` *other* neighbours when it has no duplicate;
* with `missing_values`: no state holding a missing value is recurrent with anything, and for
  `kA ≤ #complete − 1` every processed complete state is recurrent with `kA` pairwise
  different complete states. -/
theorem adaptive_object_plot_spec (m : Metric) (series S emb : List (List V)) (norm mv : Bool)
    (e : Option (Nat × Nat)) (kA : Nat) (order : Option (List Nat)) (sn : List (List Nat))
    (hS : storedSeries series norm = some S) (hE : stateVectors S e = .ok emb)
    (hsn : adaptiveTableOK m series norm mv e sn = true)
    (ho : ∀ o, order = some o → o.length = emb.length ∧ ∀ l ∈ o, l < emb.length) :
    (mv = false → ∃ R : BM,
        adaptiveObjPlot m series norm mv e kA order sn
          = some (.ok ⟨bmTab emb.length R, emb.length, emb.length⟩)
      ∧ (bmTab emb.length R).length = emb.length
      ∧ (∀ a b, R a b = R b a)
      ∧ (kA + 1 ≤ emb.length → ∀ l ∈ order.getD (List.range emb.length),
          kA ≤ countTrue ((List.range emb.length).map (R l))
          ∧ (∀ k, 1 ≤ k → k ≤ kA → ∃ c, c < emb.length ∧ R l c = true ∧
              (sortV (distRow m emb l))[k]? = some (rpEntry m emb l c))
          ∧ ((∀ c, c < emb.length → c ≠ l →
                leV (rpEntry m emb l c) (rpEntry m emb l l) = false) →
              kA ≤ ((List.range emb.length).filter fun c => R l c && (c != l)).length)))
    ∧ (mv = true → ∃ R : BM,
        adaptiveObjPlot m series norm mv e kA order sn
          = some (.ok ⟨maskIf true emb (bmTab emb.length R), emb.length, emb.length⟩)
      ∧ (maskIf true emb (bmTab emb.length R)).length = emb.length
      ∧ (∀ i j, missingAt emb i = true ∨ missingAt emb j = true →
          entry (maskIf true emb (bmTab emb.length R)) i j = none
          ∨ entry (maskIf true emb (bmTab emb.length R)) i j = some false)
      ∧ (kA + 1 ≤ nComplete emb → ∀ l ∈ order.getD (List.range emb.length),
          missingAt emb l = false →
          ∃ cs : List Nat, cs.Nodup ∧ cs.length = kA ∧ ∀ c ∈ cs, c < emb.length
            ∧ missingAt emb c = false
            ∧ entry (maskIf true emb (bmTab emb.length R)) l c = some true)) := by
  obtain ⟨hP, hT, _⟩ := adaptive_object_eq m series S emb norm mv false e kA order sn hS hE
  rw [hT] at hsn
  rw [hP]
  refine ⟨fun h => ?_, fun h => ?_⟩
  · subst h
    obtain ⟨R, h1, h2, h3, h4⟩ := adaptive_plot_any_argsort m emb kA order sn
      (by simpa [adaptiveDist] using hsn) ho
    exact ⟨R, by rw [(adaptive_plot_mv_off m emb kA order sn).1, h1], h2, h3, h4⟩
  · subst h
    obtain ⟨R, h1, h2, h3, h4⟩ := adaptive_plot_missing_values m emb kA order sn hsn ho
    exact ⟨R, by rw [h1], h2, h3, h4⟩

/-- non-vacuity at the object level: `RecurrencePlot([0, nan, 1, 3], metric="supremum",
missing_values=True, adaptive_neighborhood_size=1)` (the input of repair `faa7910`): the table
test of the driver is the `argsortOK` shown `= true` in the example after
`adaptive_plot_missing_values`, and the stored matrix leaves the NaN state without recurrence -/
example :
    adaptiveTableOK .supremum [[some 0], [none], [some 1], [some 3]] false true none
        [[0, 2, 3, 1], [0, 1, 2, 3], [2, 0, 3, 1], [3, 2, 0, 1]]
      = argsortOK (adaptiveDist .supremum [[some 0], [none], [some 1], [some 3]] true)
        [[0, 2, 3, 1], [0, 1, 2, 3], [2, 0, 3, 1], [3, 2, 0, 1]]
    ∧ (match adaptiveObjPlot .supremum [[some 0], [none], [some 1], [some 3]] false true none 1 none
          [[0, 2, 3, 1], [0, 1, 2, 3], [2, 0, 3, 1], [3, 2, 0, 1]] with
        | some (.ok p) => (p.N, p.R) | _ => (0, []))
      = (4, [[false, false, true, true], [false, false, false, false],
         [true, false, false, true], [true, false, true, false]]) :=
  ⟨(adaptive_object_eq .supremum _ _ _ false true false none 1 none _ rfl rfl).2.1,
    by decide +kernel⟩

/-- **`RecurrenceNetwork` on an adaptive plot, nothing deleted** (the setter, or an object
without `missing_values`): for every table the adjacency is the stored `R` without its
diagonal, `R` is the plot's matrix and the network has as many nodes as `R` has rows.
PARTIAL: the full statement also covers the `RecurrenceNetwork` constructor with
`missing_values=True` on an adaptive plot, where the states holding a missing value are deleted
(`adaptiveObjNet` models it; driver, correspondence and oracle cover it).  Round 5d: that case
is now `adaptive_object_network_spec` below; the two theorems together are the full statement. -/
theorem adaptive_object_network_spec_partial (m : Metric) (series S emb : List (List V))
    (norm mv setter : Bool) (e : Option (Nat × Nat)) (kA : Nat) (order : Option (List Nat))
    (sn : List (List Nat)) (p : Plot)
    (hS : storedSeries series norm = some S) (hE : stateVectors S e = .ok emb)
    (hp : adaptivePlotMV m emb kA order sn mv = .ok p) (hd : (mv && !setter) = false) :
    ∃ q : Net, adaptiveObjNet setter m series norm mv e kA order sn = some (.ok q)
      ∧ q.N = p.R.length ∧ q.R = p.R ∧ p.R.length = emb.length
      ∧ ∀ i j, i < p.R.length → j < p.R.length →
          entry q.A i j = (entry p.R i j).map fun b => b && decide (i ≠ j) := by
  obtain ⟨_, _, hN⟩ := adaptive_object_eq m series S emb norm mv setter e kA order sn hS hE
  have hside : p.N = p.R.length ∧ p.R.length = emb.length := by
    simp only [adaptivePlotMV] at hp
    split at hp
    · cases hp
    · cases hR : adaptive emb.length kA sn ((order.getD (List.range emb.length)).take emb.length) with
      | none => simp [hR, Res.ofOption, Res.bind] at hp
      | some R =>
        simp only [hR, Res.ofOption, Res.bind, Res.ok.injEq] at hp
        subst hp
        simp [maskIf_length, bmTab, tab_length]
  have hst : (if setter then ArithC07.rnStrideAdaptive p.N else ArithC07.rnStride p.N) = p.N + 1 := by
    cases setter <;> simp [(strides_eq p.N).1, (strides_eq p.N).2.2.2.2.2.1]
  have hnet : adaptiveNetOf setter mv emb p
      = networkOf p (if setter then ArithC07.rnStrideAdaptive p.N else ArithC07.rnStride p.N) := by
    simp [adaptiveNetOf, networkOf, hd]
  obtain ⟨h1, h2, h3⟩ := network_of_plot p _ hside.1 hst
  refine ⟨adaptiveNetOf setter mv emb p, by rw [hN, hp]; rfl, ?_, ?_, hside.2, ?_⟩
  · rw [hnet]; exact h1
  · rw [hnet]; exact h2
  · rw [hnet]; exact h3

/-- non-vacuity: the network of `[0, 0, 1, 0]` embedded with `dim = 2`, `tau = 1`, `kA = 1`,
setter with processing order `2, 0, 1` on one of its two argsort tables -/
example :
    (match adaptiveObjNet true .manhattan [[some 0], [some 0], [some 1], [some 0]] false false
        (some (2, 1)) 1 (some [2, 0, 1]) [[0, 2, 1], [1, 0, 2], [2, 1, 0]] with
      | some (.ok q) => (q.N, q.A, q.R) | _ => (0, [], []))
      = (3, [[false, true, true], [true, false, true], [true, true, false]],
          [[false, true, true], [true, false, true], [true, true, false]]) := by
  decide +kernel

/-! ## Round 5d: the `RecurrenceNetwork` constructor with `missing_values=True` on an adaptive
plot — the states holding a missing value are deleted -/

/-- **`np.delete` after the stride, for any square matrix** (the step `network_missing_deleted`
proves inside the threshold / rate / local-rate constructions, stated once for every stored
matrix): with `kept` the ordered unmasked states, the deleted adjacency has one node per kept
state and `A[a,b] = R[kept[a], kept[b]] ∧ kept[a] ≠ kept[b]` -/
theorem deleted_adjacency_entries (R : List (List Bool)) (M : List Bool) (stride : Int) (n : Nat)
    (hside : R.length = n) (hrows : ∀ r ∈ R, r.length = n)
    (hs : stride = (R.length : Int) + 1) :
    (deleteMasked (adjacencyOf R stride) M).length = (keptIdx M n).length ∧
    ∀ a b ia ib, (keptIdx M n)[a]? = some ia → (keptIdx M n)[b]? = some ib →
      entry (deleteMasked (adjacencyOf R stride) M) a b
        = (entry R ia ib).map fun v => v && decide (ia ≠ ib) := by
  have hAlen : (adjacencyOf R stride).length = n := by
    simp [adjacencyOf, zeroStride, hside]
  have hArow : ∀ r ∈ adjacencyOf R stride, r.length = n := by
    intro r hr
    simp only [adjacencyOf, zeroStride, List.mem_map] at hr
    obtain ⟨⟨row, i⟩, hmem, rfl⟩ := hr
    have hrow : row ∈ R := (List.mem_zipIdx' hmem).2 ▸ List.getElem_mem _
    simp only [List.length_map, List.length_zipIdx]
    exact hrows row hrow
  rw [deleteMasked_eq (adjacencyOf R stride) M n hAlen hArow]
  refine ⟨by simp, ?_⟩
  intro a b ia ib ha hb
  have hia : ia < n := by
    have := (List.mem_filter.mp (List.mem_of_getElem? ha)).1
    simpa using this
  have hib : ib < n := by
    have := (List.mem_filter.mp (List.mem_of_getElem? hb)).1
    simpa using this
  have hent := network_eq_R_offdiag R stride ia ib hs (by omega) (by omega)
  have hL : entry ((keptIdx M n).map fun i => (keptIdx M n).map fun j =>
        ((adjacencyOf R stride).getD i []).getD j false) a b
      = some (((adjacencyOf R stride).getD ia []).getD ib false) := by
    simp only [entry, List.getElem?_map, ha, hb, Option.map_some, Option.bind_some]
  rw [hL]
  have hget : ∀ (A : List (List Bool)) (v : Bool), entry A ia ib = some v →
      (A.getD ia []).getD ib false = v := by
    intro A v hv
    unfold entry at hv
    cases h1 : A[ia]? with
    | none => simp [h1] at hv
    | some row =>
      simp only [h1, Option.bind_some] at hv
      simp [List.getD, h1, hv]
  cases hR : entry R ia ib with
  | none =>
    exfalso
    unfold entry at hR
    have h1 : R[ia]? = some (R[ia]'(by omega)) := List.getElem?_eq_getElem (by omega)
    rw [h1] at hR
    simp only [Option.bind_some] at hR
    have hrl : (R[ia]'(by omega)).length = n := hrows _ (List.getElem_mem _)
    rw [List.getElem?_eq_getElem (by omega)] at hR
    cases hR
  | some v =>
    rw [hR] at hent
    simp only [Option.map_some] at hent ⊢
    rw [hget _ _ hent]

/-- the stored matrix of an adaptive plot with `missing_values` is square of side `n` -/
theorem masked_bmTab_rows (emb : List (List V)) (R : BM) :
    (maskIf true emb (bmTab emb.length R)).length = emb.length
    ∧ ∀ r ∈ maskIf true emb (bmTab emb.length R), r.length = emb.length := by
  refine ⟨by simp [maskIf_length, bmTab, tab_length], ?_⟩
  intro r hr
  simp only [maskIf, if_true, applyMask, List.mem_map] at hr
  obtain ⟨⟨row, i⟩, hmem, rfl⟩ := hr
  have hrow : row ∈ bmTab emb.length R := (List.mem_zipIdx' hmem).2 ▸ List.getElem_mem _
  simp only [List.length_map, List.length_zipIdx]
  exact tab_rows _ _ _ row hrow

/-- the nodes of the network are the complete states: as many as `nComplete`, each a state
index without a missing value, in increasing order without repetition -/
theorem kept_complete (emb : List (List V)) :
    (keptIdx (missingMask emb) emb.length).length = nComplete emb
    ∧ (keptIdx (missingMask emb) emb.length).Nodup
    ∧ ∀ c, c ∈ keptIdx (missingMask emb) emb.length ↔ (c < emb.length ∧ missingAt emb c = false) := by
  refine ⟨?_, ?_, ?_⟩
  · simp [nComplete, keptIdx, List.countP_eq_length_filter, missingAt]
  · exact List.Nodup.filter _ List.nodup_range
  · intro c
    simp [keptIdx, missingAt]

/-- positions of pairwise different members of a list: pairwise different positions -/
theorem positions_of_members {α : Type} (kept : List α) (cs : List α) (hnd : cs.Nodup)
    (hmem : ∀ c ∈ cs, c ∈ kept) :
    ∃ bs : List Nat, bs.Nodup ∧ bs.length = cs.length
      ∧ ∀ b ∈ bs, ∃ c ∈ cs, kept[b]? = some c := by
  induction cs with
  | nil => exact ⟨[], List.nodup_nil, rfl, by simp⟩
  | cons c cs ih =>
    obtain ⟨hc, hnd'⟩ := List.nodup_cons.mp hnd
    obtain ⟨bs, h1, h2, h3⟩ := ih hnd' (fun x hx => hmem x (List.mem_cons_of_mem _ hx))
    obtain ⟨b, hb⟩ := List.getElem?_of_mem (hmem c List.mem_cons_self)
    refine ⟨b :: bs, List.nodup_cons.mpr ⟨?_, h1⟩, by simp [h2], ?_⟩
    · intro hbb
      obtain ⟨c', hc', hk⟩ := h3 b hbb
      rw [hb] at hk
      injection hk with hk
      exact hc (hk ▸ hc')
    · intro x hx
      rcases List.mem_cons.mp hx with rfl | hx
      · exact ⟨c, List.mem_cons_self, hb⟩
      · obtain ⟨c', hc', hk⟩ := h3 x hx
        exact ⟨c', List.mem_cons_of_mem _ hc', hk⟩

/-- **`RecurrenceNetwork(series, …, missing_values=True, adaptive_neighborhood_size=kA)` — the
full statement of `adaptive_object_network_spec_partial`** (that theorem covers the setter and
objects without `missing_values`, where nothing is deleted).  For every argsort table NumPy may
return for the matrix the constructor sorts (`adaptiveTableOK`), with `kept` the ordered states
whose vectors are complete:
* the constructor returns; the stored `R` is the plot's matrix (`adaptiveObjPlot`, full side
  `n` — the RQA methods of such an object are the known finding C07-rn-missing-values-N);
* the network has one node per complete state (`N` = `|A|` = `|kept|` = `nComplete`), node `a`
  is state `kept[a]`, and `A[a,b] = R[kept[a], kept[b]] ∧ kept[a] ≠ kept[b]` — the recurrence
  matrix without its diagonal, restricted to the complete states;
* nothing is lost by the deletion: a state holding a missing value is recurrent with nothing
  in `R` (`adaptive_plot_missing_values`), so every `true` of `R` off the diagonal is a link;
* the neighbour guarantee on the surviving nodes: for `kA ≤ #complete − 1` the node `a` of
  every processed complete state has `kA` pairwise different nodes `b`, each of them `a` itself
  or linked to `a` (`A[a,b] = true`) — hence at least `kA − 1` neighbours, and `kA` as soon as
  the kernel did not count the state itself. -/
theorem adaptive_object_network_spec (m : Metric) (series S emb : List (List V)) (norm : Bool)
    (e : Option (Nat × Nat)) (kA : Nat) (order : Option (List Nat)) (sn : List (List Nat))
    (hS : storedSeries series norm = some S) (hE : stateVectors S e = .ok emb)
    (hsn : adaptiveTableOK m series norm true e sn = true)
    (ho : ∀ o, order = some o → o.length = emb.length ∧ ∀ l ∈ o, l < emb.length) :
    ∃ (p : Plot) (q : Net),
      adaptiveObjPlot m series norm true e kA order sn = some (.ok p)
      ∧ adaptiveObjNet false m series norm true e kA order sn = some (.ok q)
      ∧ q.R = p.R ∧ p.R.length = emb.length ∧ p.N = emb.length
      ∧ q.N = (keptIdx (missingMask emb) emb.length).length
      ∧ q.A.length = (keptIdx (missingMask emb) emb.length).length
      ∧ (keptIdx (missingMask emb) emb.length).length = nComplete emb
      ∧ (∀ c, c ∈ keptIdx (missingMask emb) emb.length
            ↔ (c < emb.length ∧ missingAt emb c = false))
      ∧ (∀ a b ia ib, (keptIdx (missingMask emb) emb.length)[a]? = some ia →
          (keptIdx (missingMask emb) emb.length)[b]? = some ib →
          entry q.A a b = (entry p.R ia ib).map fun v => v && decide (ia ≠ ib))
      ∧ (∀ i j, entry p.R i j = some true →
          i ∈ keptIdx (missingMask emb) emb.length ∧ j ∈ keptIdx (missingMask emb) emb.length)
      ∧ (kA + 1 ≤ nComplete emb → ∀ a l, (keptIdx (missingMask emb) emb.length)[a]? = some l →
          l ∈ order.getD (List.range emb.length) →
          ∃ bs : List Nat, bs.Nodup ∧ bs.length = kA ∧ ∀ b ∈ bs,
            b < (keptIdx (missingMask emb) emb.length).length
            ∧ (b ≠ a → entry q.A a b = some true)) := by
  obtain ⟨hP, hT, hN⟩ := adaptive_object_eq m series S emb norm true false e kA order sn hS hE
  rw [hT] at hsn
  obtain ⟨R, h1, h2, h3, h4⟩ := adaptive_plot_missing_values m emb kA order sn hsn ho
  obtain ⟨hside, hrows⟩ := masked_bmTab_rows emb R
  obtain ⟨hk1, hk2, hk3⟩ := kept_complete emb
  have hst : ArithC07.rnStride (emb.length : Int)
      = ((maskIf true emb (bmTab emb.length R)).length : Int) + 1 := by
    rw [(strides_eq _).1, hside]
  obtain ⟨hd1, hd2⟩ := deleted_adjacency_entries (maskIf true emb (bmTab emb.length R))
    (missingMask emb) (ArithC07.rnStride (emb.length : Int)) emb.length hside hrows hst
  have hin : ∀ i j, entry (maskIf true emb (bmTab emb.length R)) i j = some true →
      i ∈ keptIdx (missingMask emb) emb.length ∧ j ∈ keptIdx (missingMask emb) emb.length := by
    intro i j hij
    have hi : i < emb.length ∧ j < emb.length := by
      unfold entry at hij
      cases hr : (maskIf true emb (bmTab emb.length R))[i]? with
      | none => simp [hr] at hij
      | some row =>
        have hil : i < (maskIf true emb (bmTab emb.length R)).length :=
          (List.getElem?_eq_some_iff.mp hr).1
        have hrl : row.length = emb.length := hrows row (List.mem_of_getElem? hr)
        simp only [hr, Option.bind_some] at hij
        have hjl : j < row.length := (List.getElem?_eq_some_iff.mp hij).1
        omega
    have hmi : missingAt emb i = false := by
      cases hm : missingAt emb i with
      | false => rfl
      | true => rcases h3 i j (Or.inl hm) with h | h <;> rw [hij] at h <;> cases h
    have hmj : missingAt emb j = false := by
      cases hm : missingAt emb j with
      | false => rfl
      | true => rcases h3 i j (Or.inr hm) with h | h <;> rw [hij] at h <;> cases h
    exact ⟨(hk3 i).mpr ⟨hi.1, hmi⟩, (hk3 j).mpr ⟨hi.2, hmj⟩⟩
  refine ⟨⟨maskIf true emb (bmTab emb.length R), emb.length, emb.length⟩,
    adaptiveNetOf false true emb ⟨maskIf true emb (bmTab emb.length R), emb.length, emb.length⟩,
    by rw [hP, h1], by rw [hN, h1]; rfl, rfl, hside, rfl, ?_, ?_, hk1, hk3, ?_, hin, ?_⟩
  · simp only [adaptiveNetOf, Bool.not_false, Bool.and_self, if_true, Bool.false_eq_true,
      if_false]
    exact_mod_cast hd1
  · simp only [adaptiveNetOf, Bool.not_false, Bool.and_self, if_true, Bool.false_eq_true,
      if_false]
    exact hd1
  · simp only [adaptiveNetOf, Bool.not_false, Bool.and_self, if_true, Bool.false_eq_true,
      if_false]
    exact hd2
  · intro hk a l ha hl
    have hlk := (hk3 l).mp (List.mem_of_getElem? ha)
    obtain ⟨cs, hcs1, hcs2, hcs3⟩ := h4 hk l hl hlk.2
    obtain ⟨bs, hb1, hb2, hb3⟩ := positions_of_members (keptIdx (missingMask emb) emb.length) cs
      hcs1 (fun c hc => (hk3 c).mpr ⟨(hcs3 c hc).1, (hcs3 c hc).2.1⟩)
    refine ⟨bs, hb1, by rw [hb2, hcs2], ?_⟩
    intro b hb
    obtain ⟨c, hc, hkc⟩ := hb3 b hb
    refine ⟨(List.getElem?_eq_some_iff.mp hkc).1, fun hba => ?_⟩
    have hlc : l ≠ c := by
      intro hEq
      subst hEq
      have hal : a < (keptIdx (missingMask emb) emb.length).length :=
        (List.getElem?_eq_some_iff.mp ha).1
      exact hba ((List.getElem?_inj hal hk2).mp (by rw [ha, hkc])).symm
    simp only [adaptiveNetOf, Bool.not_false, Bool.and_self, if_true, Bool.false_eq_true,
      if_false]
    rw [hd2 a b l c ha hkc, (hcs3 c hc).2.2]
    simp [hlc]

/-- non-vacuity with a deleted state: `RecurrenceNetwork([0, nan, 1, 3], metric="supremum",
missing_values=True, adaptive_neighborhood_size=1)` (the plot of the example after
`adaptive_object_plot_spec`): the table passes the driver's test, the NaN state 1 is deleted,
the three nodes are the states `0, 2, 3`, `R` keeps its side 4 -/
example :
    adaptiveTableOK .supremum [[some 0], [none], [some 1], [some 3]] false true none
        [[0, 2, 3, 1], [0, 1, 2, 3], [2, 0, 3, 1], [3, 2, 0, 1]] = true
    ∧ keptIdx (missingMask [[some 0], [none], [some 1], [some 3]]) 4 = [0, 2, 3]
    ∧ nComplete [[some 0], [none], [some 1], [some 3]] = 3
    ∧ (match adaptiveObjNet false .supremum [[some 0], [none], [some 1], [some 3]] false true none 1
          none [[0, 2, 3, 1], [0, 1, 2, 3], [2, 0, 3, 1], [3, 2, 0, 1]] with
        | some (.ok q) => (q.N, q.A, q.R) | _ => (0, [], []))
      = (3, [[false, true, true], [true, false, true], [true, true, false]],
         [[false, false, true, true], [false, false, false, false],
          [true, false, false, true], [true, false, true, false]]) := by
  refine ⟨?_, by decide +kernel, by decide +kernel, by decide +kernel⟩
  rw [(adaptive_object_eq .supremum _ _ _ false true false none 1 none _ rfl rfl).2.1]
  have e : adaptiveDist .supremum [[some 0], [none], [some 1], [some 3]] true
      = [[some 0, none, some 1, some 3], [none, none, none, none],
         [some 1, none, some 0, some 2], [some 3, none, some 2, some 0]] := by
    decide +kernel
  rw [e]
  simp only [argsortOK, List.zipWith, List.all, List.length, id, Bool.and_true,
    Bool.and_eq_true, beq_iff_eq]
  exact ⟨trivial, isArgsortRow_of _ _ (by decide) (by decide +kernel),
    isArgsortRow_of _ _ (by decide) (by decide +kernel),
    isArgsortRow_of _ _ (by decide) (by decide +kernel),
    isArgsortRow_of _ _ (by decide) (by decide +kernel)⟩

end Pyunicorn.Recurrence
