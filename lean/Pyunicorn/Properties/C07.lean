import Pyunicorn.Lemmas.Recurrence
import Pyunicorn.Lemmas.RecurrenceReal
import Pyunicorn.Model.RecurrenceObjects
/-!
# C07 — recurrence matrices are exactly the thresholded distance matrices

Statements about the models `Pyunicorn.Recurrence` (kernels, `Model/Recurrence.lean`)
and the object-level compositions (`Model/RecurrenceObjects.lean`) with the index
expressions regenerated from the source (`Generated/ArithC07.lean`).  The models
are tied to the code by `harness/c07.py`.
-/
namespace Pyunicorn.Recurrence
open Pyunicorn.Generated

/-! ### embedding -/

/-- the embedded length the code allocates is `n − (dim−1)·τ` -/
theorem embedLen_eq (n dim tau : Int) :
    ArithC07.embedLen n dim tau = n - (dim - 1) * tau ∧ ArithC07.embedCols n dim tau = dim := by
  simp [ArithC07.embedLen, ArithC07.embedCols]

/-- every read `time_series[j*tau + k]` of the embedding kernel is inside the series -/
theorem embed_index_lt (n dim tau k j : Nat) (hj : j < dim)
    (hk : (k : Int) < ArithC07.embedLen n dim tau) : j * tau + k < n := by
  simp only [ArithC07.embedLen] at hk
  have h1 : (j : Int) * tau ≤ ((dim : Int) - 1) * tau :=
    Int.mul_le_mul_of_nonneg_right (by omega) (by omega)
  have : ((j * tau + k : Nat) : Int) < n := by push_cast; omega
  exact_mod_cast this

/-- state vector `k` of the embedding is `(x[k], x[k+τ], …, x[k+(dim−1)τ])` -/
theorem embed_entry (ts : List V) (dim tau len k j : Nat) (hk : k < len) (hj : j < dim) :
    entry (embed ts dim tau len) k j = some (ts.getD (j * tau + k) none) := by
  simp [embed, entry_tab, hk, hj]

example : embed [some 0, some 1, some 2, some 3, some 4, some 5, some 6] 3 2 3
    = [[some 0, some 2, some 4], [some 1, some 3, some 5], [some 2, some 4, some 6]] := by decide

/-! ### distance kernels -/

/-- the triangular kernels produce a symmetric matrix … -/
theorem rpEntry_symm (m : Metric) (emb : List (List V)) (j k : Nat) :
    rpEntry m emb j k = rpEntry m emb k j := by
  unfold rpEntry
  by_cases h1 : k < j <;> by_cases h2 : j < k <;> simp [h1, h2] <;> omega

/-- … with zero diagonal -/
theorem rpEntry_diag (m : Metric) (emb : List (List V)) (j : Nat) :
    rpEntry m emb j j = some 0 := by
  simp [rpEntry]

/-- off the diagonal the entry is the metric of the two state vectors (in either order) -/
theorem rpEntry_eq_dist (m : Metric) (emb : List (List V)) (j k : Nat) (h : j ≠ k) :
    rpEntry m emb j k = dist m (rowOf emb j) (rowOf emb k) := by
  unfold rpEntry
  by_cases h1 : k < j
  · simp [h1]
  · have h2 : j < k := by omega
    simp [h1, h2, dist_comm]

/-! ### thresholding -/

/-- **fixed threshold, no missing-value treatment**: `R[i,j] = 1` exactly when the
kernel distance is below the threshold (in the kernel's units, see `unitThr`). -/
theorem rec_iff_dist_lt (m : Metric) (emb : List (List V)) (eps : Rat) (i j : Nat)
    (hi : i < emb.length) (hj : j < emb.length) :
    entry (fixedThreshold m emb eps false) i j
      = some (ltV (rpEntry m emb i j) (some (unitThr m eps))) := by
  simp [fixedThreshold, threshold, distRP, entry_map_map, entry_tab, hi, hj]

example : fixedThreshold .supremum (column [some 0, some 1, some 3]) (3/2) false
    = [[true, true, false], [true, true, false], [false, false, true]] := by decide +kernel


/-! ### missing values -/

/-- a state vector holds a missing value -/
def missingAt (emb : List (List V)) (i : Nat) : Bool := (missingMask emb).getD i false

/-- **never recurrent when either state holds a missing value** — the masking block
shared by `set_fixed_threshold`, `set_fixed_recurrence_rate` and
`set_fixed_local_recurrence_rate` clears the entry whatever the thresholding gave -/
theorem masked_never_recurrent (emb : List (List V)) (R : List (List Bool)) (i j : Nat)
    (h : missingAt emb i = true ∨ missingAt emb j = true) :
    entry (maskIf true emb R) i j = none ∨ entry (maskIf true emb R) i j = some false := by
  simp only [maskIf, if_true, applyMask_entry]
  cases hR : entry R i j with
  | none => simp
  | some b =>
    right
    rcases h with h | h <;> simp [missingAt] at h <;> simp [h]

/-- … and leaves every other entry as thresholded -/
theorem masked_keeps_complete (emb : List (List V)) (R : List (List Bool)) (i j : Nat)
    (hi : missingAt emb i = false) (hj : missingAt emb j = false) :
    entry (maskIf true emb R) i j = entry R i j := by
  simp only [maskIf, if_true, applyMask_entry]
  simp [missingAt] at hi hj
  cases hR : entry R i j <;> simp [hi, hj]

/-- `set_fixed_threshold` with `missing_values=True`, all clauses together -/
theorem rec_iff_dist_lt_missing (m : Metric) (emb : List (List V)) (eps : Rat) (i j : Nat)
    (hi : i < emb.length) (hj : j < emb.length) :
    entry (fixedThreshold m emb eps true) i j
      = some (ltV (rpEntry m emb i j) (some (unitThr m eps))
              && !missingAt emb i && !missingAt emb j) := by
  simp [fixedThreshold, applyMask_entry, threshold, distRP, entry_map_map, entry_tab, hi, hj,
    missingAt]

example : fixedThreshold .manhattan (column [some 0, none, some 1]) 2 true
    = [[true, false, true], [false, false, false], [true, false, true]] := by decide +kernel

/-! ### fixed recurrence rate: the quantile -/

/-- the index `int(rr·(N−1))` is a valid position of the sorted distances for every
rate in `[0, 1]` and every non-empty array: `threshold_from_recurrence_rate` cannot fail -/
theorem rate_index_in_range (rr : Rat) (N : Nat) (h1 : rr ≤ 1) (hN : 1 ≤ N) :
    rateK rr N < N := by
  unfold rateK ArithC07.rateIndex
  have hx : rr * (((N : Int) - 1 : Int) : Rat) ≤ (((N : Int) - 1 : Int) : Rat) := by
    have hn : (0 : Rat) ≤ (((N : Int) - 1 : Int) : Rat) := by
      have : (0 : Int) ≤ (N : Int) - 1 := by omega
      exact_mod_cast this
    calc rr * (((N : Int) - 1 : Int) : Rat) ≤ 1 * (((N : Int) - 1 : Int) : Rat) :=
          Rat.mul_le_mul_of_nonneg_right h1 hn
      _ = _ := by simp
  have hfl : (rr * (((N : Int) - 1 : Int) : Rat)).floor ≤ (N : Int) - 1 := by
    have := Rat.floor_le (rr * (((N : Int) - 1 : Int) : Rat))
    have h2 : ((rr * (((N : Int) - 1 : Int) : Rat)).floor : Rat) ≤ (((N : Int) - 1 : Int) : Rat) :=
      Rat.le_trans this hx
    exact_mod_cast h2
  omega

/-- the index never exceeds `rr·N`: at most the requested share of the entries -/
theorem rate_index_le (rr : Rat) (N : Nat) (h0 : 0 ≤ rr) (hN : 1 ≤ N) :
    (rateK rr N : Rat) ≤ rr * N := by
  unfold rateK ArithC07.rateIndex
  have hn : (0 : Rat) ≤ (((N : Int) - 1 : Int) : Rat) := by
    have : (0 : Int) ≤ (N : Int) - 1 := by omega
    exact_mod_cast this
  have hx0 : 0 ≤ rr * (((N : Int) - 1 : Int) : Rat) := Rat.mul_nonneg h0 hn
  have hfl0 : 0 ≤ (rr * (((N : Int) - 1 : Int) : Rat)).floor := Rat.le_floor_iff.mpr (by simpa using hx0)
  have h1 : (((rr * (((N : Int) - 1 : Int) : Rat)).floor.toNat : Nat) : Rat)
      = ((rr * (((N : Int) - 1 : Int) : Rat)).floor : Rat) := by
    have : (((rr * (((N : Int) - 1 : Int) : Rat)).floor.toNat : Nat) : Int)
        = (rr * (((N : Int) - 1 : Int) : Rat)).floor := Int.toNat_of_nonneg hfl0
    exact_mod_cast this
  rw [h1]
  refine Rat.le_trans (Rat.floor_le _) ?_
  have : (((N : Int) - 1 : Int) : Rat) ≤ (N : Rat) := by
    have : (N : Int) - 1 ≤ (N : Int) := by omega
    exact_mod_cast this
  exact Rat.mul_le_mul_of_nonneg_left this h0

theorem countTrue_threshold (D : List (List V)) (t : V) :
    countTrue (threshold D t).flatten = D.flatten.countP (fun d => ltV d t) := by
  unfold countTrue threshold
  induction D with
  | nil => simp
  | cons r D ih =>
    simp only [List.map_cons, List.flatten_cons, List.countP_append, ih]
    congr 1
    rw [List.countP_map]; rfl

/-- **global fixed rate**: the matrix is the distance matrix thresholded at the
`k`-th smallest of all its entries, and at most `k` entries are recurrent; together
with `rate_index_le` the realised rate never exceeds the requested one. -/
theorem global_rate_le (D : List (List V)) (k : Nat) (R : List (List Bool))
    (h : fixedRate D k = some R) :
    ∃ t, (sortV D.flatten)[k]? = some t ∧ R = threshold D t ∧ countTrue R.flatten ≤ k := by
  unfold fixedRate quantileAt at h
  cases ht : (sortV D.flatten)[k]? with
  | none => simp [ht] at h
  | some t =>
    simp [ht] at h
    refine ⟨t, rfl, h.symm, ?_⟩
    rw [← h, countTrue_threshold, ← (sortV_perm D.flatten).countP_eq]
    exact countP_lt_sorted_le _ k t (sortV_pairwise _) ht

/-- … and it misses `k` only by ties at the selected distance: at least `k+1`
entries are `≤` the threshold -/
theorem global_rate_ties (D : List (List V)) (k : Nat) (t : V)
    (ht : (sortV D.flatten)[k]? = some t) :
    k + 1 ≤ D.flatten.countP (fun d => leV d t) := by
  rw [← (sortV_perm D.flatten).countP_eq]
  exact countP_le_sorted_ge _ k t (sortV_pairwise _) ht

/-- **local fixed rate**: every row is thresholded at its own `k`-th smallest distance
and therefore has at most `k` recurrences … -/
theorem local_rate_row_count (row : List V) (k : Nat) (t : V)
    (ht : quantileAt row k = some t) :
    countTrue (row.map fun d => ltV d t) ≤ k := by
  unfold countTrue
  rw [List.countP_map]
  unfold quantileAt at ht
  have := countP_lt_sorted_le _ k t (sortV_pairwise row) ht
  rw [(sortV_perm row).countP_eq] at this
  exact this

/-- … exactly `k` of them iff there is no tie at the cut (`sorted[k-1] < sorted[k]`);
rows with a tie get fewer, so rows can differ (known finding C07-local-rate-ties) -/
theorem local_rate_row_count_eq (row : List V) (k : Nat) (t p : V)
    (ht : quantileAt row (k + 1) = some t) (hp : (sortV row)[k]? = some p) :
    countTrue (row.map fun d => ltV d t) = k + 1 ↔ ltV p t = true := by
  unfold countTrue
  rw [List.countP_map]
  unfold quantileAt at ht
  have := countP_lt_sorted_eq _ k t p (sortV_pairwise row) ht hp
  rw [(sortV_perm row).countP_eq] at this
  exact this

/-- for `k = 0` no entry is recurrent -/
theorem local_rate_row_zero (row : List V) (t : V) (ht : quantileAt row 0 = some t) :
    countTrue (row.map fun d => ltV d t) = 0 :=
  Nat.le_zero.mp (local_rate_row_count row 0 t ht)

/-- a sorted row with a tie at the cut `k = 2` (two recurrences requested, one
obtained) and none at the cut `k = 1` -/
example : let s : List V := [some 0, some 1, some 1, some 3]
    s.Pairwise (fun a b => leV a b = true) ∧ s[2]? = some (some 1) ∧ s[1]? = some (some 1)
      ∧ ltV (some 1) (some 1) = false ∧ s.countP (fun d => ltV d (some 1)) = 1
      ∧ s[0]? = some (some 0) ∧ ltV (some 0) (some 1) = true := by decide +kernel


/-! ### network = recurrence matrix without its diagonal -/

/-- with the stride the code uses (`self.N + 1`) and `N` the side of the matrix,
`A.flat[::N+1] = 0` clears exactly the diagonal -/
theorem network_eq_R_offdiag (R : List (List Bool)) (stride : Int) (i j : Nat)
    (hs : stride = (R.length : Int) + 1) (hi : i < R.length) (hj : j < R.length) :
    entry (adjacencyOf R stride) i j = (entry R i j).map fun b => b && decide (i ≠ j) := by
  unfold adjacencyOf
  have : stride.toNat = R.length + 1 := by omega
  rw [this, zeroStride_entry]
  congr 1
  funext b
  have := diag_stride R.length i j hi hj
  by_cases hij : i = j
  · simp [hij]
    have := (diag_stride R.length j j hj hj).mpr rfl
    simp [this]
  · have h2 : ¬ (i * R.length + j) % (R.length + 1) = 0 := fun h => hij (this.mp h)
    simp [hij, h2]

/-- every stride expression of the source is `N + 1` -/
theorem strides_eq (N : Int) :
    ArithC07.rnStride N = N + 1 ∧ ArithC07.rnStrideThreshold N = N + 1
    ∧ ArithC07.rnStrideThresholdStd N = N + 1 ∧ ArithC07.rnStrideRate N = N + 1
    ∧ ArithC07.rnStrideLocal N = N + 1 ∧ ArithC07.rnStrideAdaptive N = N + 1
    ∧ ArithC07.jrnStrideInit N = N + 1 ∧ ArithC07.jrnStrideThreshold N = N + 1
    ∧ ArithC07.jrnStrideThresholdStd N = N + 1 ∧ ArithC07.jrnStrideRate N = N + 1
    ∧ ArithC07.isrnStride N = N + 1 ∧ ArithC07.isrnStrideRate N = N + 1 := by
  simp [ArithC07.rnStride, ArithC07.rnStrideThreshold, ArithC07.rnStrideThresholdStd,
    ArithC07.rnStrideRate, ArithC07.rnStrideLocal, ArithC07.rnStrideAdaptive,
    ArithC07.jrnStrideInit, ArithC07.jrnStrideThreshold, ArithC07.jrnStrideThresholdStd,
    ArithC07.jrnStrideRate, ArithC07.isrnStride, ArithC07.isrnStrideRate]

/-- a stride that is not `side + 1` leaves self-loops: the defect of the lagged joint
network before repair e81404a (`N = 3`, side 2) -/
example : zeroStride [[true, true], [true, true]] 4 = [[false, true], [true, true]] := by decide

/-! ### sizes the objects report (`rqa_applicable`): every RQA kernel is called with
`n_time = self.N` and indexes `recurrence_matrix()`, so it is applicable iff the
reported `N` is the side of the stored matrix. -/

theorem threshold_length (D : List (List V)) (t : V) : (threshold D t).length = D.length := by
  simp [threshold]

theorem applyMask_length (R : List (List Bool)) (M : List Bool) :
    (applyMask R M).length = R.length := by
  simp [applyMask]

theorem maskIf_length (mv : Bool) (emb : List (List V)) (R : List (List Bool)) :
    (maskIf mv emb R).length = R.length := by
  unfold maskIf; split <;> simp [applyMask_length]

theorem fixedLocalRate_length (D : List (List V)) (k : Nat) (R : List (List Bool))
    (h : fixedLocalRate D k = some R) : R.length = D.length := by
  unfold fixedLocalRate at h
  induction D generalizing R with
  | nil => simp at h; simp [← h]
  | cons r D ih =>
    simp only [List.mapM_cons, Option.bind_eq_bind] at h
    cases h1 : (quantileAt r k) with
    | none => simp [h1] at h
    | some t =>
      cases h2 : (List.mapM (fun row => (quantileAt row k).map fun t => row.map fun d => ltV d t) D) with
      | none => simp [h1, h2] at h
      | some R' =>
        simp [h1, h2] at h
        rw [← h]; simp [ih R' h2]

/-- **RecurrencePlot**: the reported `N` is the side of `R` for all three constructions,
with and without missing-value treatment -/
theorem rqa_applicable_plot (m : Metric) (emb : List (List V)) (mv : Bool) (s : Spec) (p : Plot)
    (h : recurrencePlot m emb mv s = .ok p) : p.N = p.R.length := by
  cases s with
  | thr eps =>
    simp only [recurrencePlot, Res.ok.injEq] at h
    subst h
    simp [fixedThreshold, distRP, tab_length, threshold_length]
    split <;> simp [applyMask_length, threshold_length, tab_length]
  | rate rr =>
    simp only [recurrencePlot] at h
    cases hq : fixedRate (distRP m emb) (rateK rr (distRP m emb).flatten.length) with
    | none => rw [hq] at h; simp only [Res.ofOption, Res.bind] at h; cases h
    | some R =>
      rw [hq] at h; simp only [Res.ofOption, Res.bind, Res.ok.injEq] at h
      subst h
      simp only [fixedRate] at hq
      cases hq2 : quantileAt (distRP m emb).flatten (rateK rr (distRP m emb).flatten.length) with
      | none => rw [hq2] at hq; cases hq
      | some t =>
        rw [hq2] at hq; simp only [Option.map_some, Option.some.injEq] at hq
        simp only [maskIf_length, ← hq, threshold_length, distRP, tab_length]
  | localRate rr =>
    simp only [recurrencePlot] at h
    cases hq : fixedLocalRate (distRP m emb) (rateK rr emb.length) with
    | none => rw [hq] at h; simp only [Res.ofOption, Res.bind] at h; cases h
    | some R =>
      rw [hq] at h; simp only [Res.ofOption, Res.bind, Res.ok.injEq] at h
      subst h
      simp only [maskIf_length, fixedLocalRate_length _ _ _ hq, distRP, tab_length]

/-- **RecurrenceNetwork** without missing-value deletion: the network's `N` (number of
nodes, written by `Network.__init__`) is still the side of `R`.  With
`missing_values=True` and NaNs present the nodes are fewer than the rows of `R`
(known finding C07-rn-missing-values-N; witness below). -/
theorem rqa_applicable_network (m : Metric) (emb : List (List V)) (s : Spec) (p : Net)
    (h : recurrenceNetwork m emb false s = .ok p) : p.N = p.R.length := by
  unfold recurrenceNetwork at h
  cases hp : recurrencePlot m emb false s with
  | ok q =>
    simp [hp, Res.bind] at h
    subst h
    simp [adjacencyOf, zeroStride]
  | valueError => simp [hp, Res.bind] at h
  | indexError => simp [hp, Res.bind] at h

example : (match recurrenceNetwork .manhattan (column [some 0, none, some 1]) true (.thr 2) with
    | .ok p => (p.N, p.R.length) | _ => (0, 0)) = (2, 3) := by decide +kernel

/-! ### inter-system recurrence matrix -/

/-- **block structure**: `[[Rx, CR], [CRᵀ, Ry]]` -/
theorem isrm_blocks (Nx Ny : Nat) (Rx Ry CR I : List (List Bool))
    (h : isrm Nx Ny Rx Ry CR = some I) (i j : Nat) (hi : i < Nx + Ny) (hj : j < Nx + Ny) :
    entry I i j = some (
      if i < Nx then
        if j < Nx then (Rx.getD i []).getD j false else (CR.getD i []).getD (j - Nx) false
      else
        if j < Nx then (CR.getD j []).getD (i - Nx) false
        else (Ry.getD (i - Nx) []).getD (j - Nx) false) := by
  simp only [isrm] at h
  split at h
  · injection h with h
    rw [← h, entry_tab]; simp [hi, hj]
  · simp at h

/-- the assembled matrix is symmetric as soon as the two diagonal blocks are -/
theorem isrm_symm (Nx Ny : Nat) (Rx Ry CR I : List (List Bool))
    (h : isrm Nx Ny Rx Ry CR = some I)
    (hx : ∀ i j, (Rx.getD i []).getD j false = (Rx.getD j []).getD i false)
    (hy : ∀ i j, (Ry.getD i []).getD j false = (Ry.getD j []).getD i false)
    (i j : Nat) (hi : i < Nx + Ny) (hj : j < Nx + Ny) : entry I i j = entry I j i := by
  rw [isrm_blocks Nx Ny Rx Ry CR I h i j hi hj, isrm_blocks Nx Ny Rx Ry CR I h j i hj hi]
  have hx' := hx i j
  have hy' := hy (i - Nx) (j - Nx)
  by_cases h1 : i < Nx <;> by_cases h2 : j < Nx <;> simp only [h1, h2, if_true, if_false]
  · rw [hx']
  · rw [hy']

/-- the inter-system matrix has `N_x + N_y` rows: the sizes are mutually consistent -/
theorem isrm_size (Nx Ny : Nat) (Rx Ry CR I : List (List Bool))
    (h : isrm Nx Ny Rx Ry CR = some I) :
    I.length = (ArithC07.isrnTotalN Nx Ny).toNat := by
  simp only [isrm] at h
  split at h
  · injection h with h
    rw [← h, tab_length]; simp [ArithC07.isrnTotalN]; omega
  · simp at h

example : isrm 1 2 [[true]] [[true, false], [false, true]] [[true, false]]
    = some [[true, true, false], [true, true, false], [false, false, true]] := by decide


/-! ### joint recurrence plots -/

/-- **joint plot, `lag ≥ 0`** (`set_fixed_threshold` bounds): for `N×N` sub-plots and
`0 ≤ lag ≤ N` the slices fit, `JR` has side `N − lag` and
`JR[i,j] = Rx[i,j] ∧ Ry[i+lag, j+lag]`. -/
theorem joint_eq_product_pos (N : Nat) (fx fy : Nat → Nat → Bool) (lag : Nat) (h : lag ≤ N) :
    jointSlices (tab N N fx) (tab N N fy) lag (jBoundsThr N lag)
      = some (tab (N - lag) (N - lag) fun i j => fx i j && fy (i + lag) (j + lag)) := by
  have hl : (lag : Int) ≥ 0 := by omega
  simp only [jointSlices, hl, if_true, jBoundsThr, ArithC07.jrpPosXRowHi, ArithC07.jrpPosXColHi,
    ArithC07.jrpPosYRowLo, ArithC07.jrpPosYRowHi, ArithC07.jrpPosYColLo, ArithC07.jrpPosYColHi]
  rw [slice2_tab N fx 0 ((N : Int) - lag) (by omega) (by omega) (by omega),
    slice2_tab N fy lag N (by omega) (by omega) (by omega)]
  have e1 : ((N : Int) - (lag : Int) - 0).toNat = N - lag := by omega
  have e2 : ((N : Int) - (lag : Int)).toNat = N - lag := by omega
  rw [e1, e2, hadamard_tab]
  simp [Nat.add_comm]

/-- **joint plot, `lag < 0`**: `JR = Ry[:N+lag, :N+lag] * Rx[-lag:, -lag:]`, i.e. with
`ℓ = −lag`: side `N − ℓ` and `JR[i,j] = Rx[i+ℓ, j+ℓ] ∧ Ry[i,j]` — the same pairs of
time points `(t, t+lag)` as for the positive sign. -/
theorem joint_eq_product_neg (N : Nat) (fx fy : Nat → Nat → Bool) (l : Nat) (h0 : 0 < l)
    (h : l ≤ N) :
    jointSlices (tab N N fx) (tab N N fy) (-(l : Int)) (jBoundsThr N (-(l : Int)))
      = some (tab (N - l) (N - l) fun i j => fy i j && fx (i + l) (j + l)) := by
  have hl : ¬ (-(l : Int)) ≥ 0 := by omega
  simp only [jointSlices, hl, if_false, jBoundsThr, ArithC07.jrpNegYRowHi, ArithC07.jrpNegYColHi,
    ArithC07.jrpNegXRowLo, ArithC07.jrpNegXRowHi, ArithC07.jrpNegXColLo, ArithC07.jrpNegXColHi]
  rw [slice2_tab N fy 0 ((N : Int) + -(l : Int)) (by omega) (by omega) (by omega),
    slice2_tab N fx (- -(l : Int)) N (by omega) (by omega) (by omega)]
  have e1 : ((N : Int) + -(l : Int) - 0).toNat = N - l := by omega
  have e2 : ((N : Int) - - -(l : Int)).toNat = N - l := by omega
  have e3 : (- -(l : Int)).toNat = l := by omega
  rw [e1, e2, e3, hadamard_tab]
  simp [Nat.add_comm]

/-- the fixed-rate constructor slices with the same bounds -/
theorem joint_rate_bounds_eq (N lag : Int) : jBoundsRate N lag = jBoundsThr N lag := by
  simp [jBoundsRate, jBoundsThr, ArithC07.jrpRatePosXRowHi, ArithC07.jrpRatePosXColHi,
    ArithC07.jrpRatePosYRowLo, ArithC07.jrpRatePosYRowHi, ArithC07.jrpRatePosYColLo,
    ArithC07.jrpRatePosYColHi, ArithC07.jrpRateNegYRowHi, ArithC07.jrpRateNegYColHi,
    ArithC07.jrpRateNegXRowLo, ArithC07.jrpRateNegXRowHi, ArithC07.jrpRateNegXColLo,
    ArithC07.jrpRateNegXColHi, ArithC07.jrpPosXRowHi, ArithC07.jrpPosXColHi,
    ArithC07.jrpPosYRowLo, ArithC07.jrpPosYRowHi, ArithC07.jrpPosYColLo, ArithC07.jrpPosYColHi,
    ArithC07.jrpNegYRowHi, ArithC07.jrpNegYColHi, ArithC07.jrpNegXRowLo, ArithC07.jrpNegXRowHi,
    ArithC07.jrpNegXColLo, ArithC07.jrpNegXColHi]

/-- **mutually consistent sizes**: the `N` a joint plot reports is the side of `JR`,
for either sign of the lag and both constructors (false of the pinned code for
`lag ≠ 0`, repaired by e81404a) -/
theorem joint_size_consistent (N : Nat) (lag : Int) (h : lag.natAbs ≤ N) :
    ArithC07.jrpReportedN N lag = ((N - lag.natAbs : Nat) : Int)
    ∧ ArithC07.jrpRateReportedN N lag = ((N - lag.natAbs : Nat) : Int) := by
  simp only [ArithC07.jrpReportedN, ArithC07.jrpRateReportedN]
  omega

example : jointSlices (tab 3 3 fun i j => decide (i = j ∨ i + j = 1)) (tab 3 3 fun _ _ => true) 1
    (jBoundsThr 3 1) = some [[true, true], [true, true]] := by decide


/-! ### adaptive neighbourhood size -/

/-- **adaptive variant**: whenever the kernel returns (it does not raise after repair
df8d67c; see `harness/c07.py`), every processed state `l` is linked to its `k`-th
nearest neighbour `sorted_neighbors[l, k]` for every `1 ≤ k ≤ adaptive_neighborhood_size`
that exists (`k < n`) — for every neighbour table and processing order. -/
theorem adaptive_ge_k (n kA : Nat) (sn : List (List Nat)) (order : List Nat) (R : BM)
    (h : adaptive n kA sn order = some R) (l : Nat) (hl : l ∈ order)
    (k : Nat) (h1 : 1 ≤ k) (h2 : k ≤ kA) (h3 : k < n) : linked R sn l k :=
  adaptive_rounds n sn order kA _ R h l hl k h1 h2 h3

/-- hence at least `adaptive_neighborhood_size` neighbours when that many exist
(`kA ≤ n − 1`): the `kA` columns `sn[l][1..kA]` (pairwise different when the row of
`sorted_neighbors` is a permutation, and different from `l` when `sn[l][0] = l`) are
all set in row `l`. -/
theorem adaptive_row_has_k (n kA : Nat) (sn : List (List Nat)) (order : List Nat) (R : BM)
    (h : adaptive n kA sn order = some R) (l : Nat) (hl : l ∈ order) (snl : List Nat)
    (hsn : sn[l]? = some snl) (hlen : snl.length = n) (hk : kA + 1 ≤ n) :
    ((snl.drop 1).take kA).length = kA ∧ ∀ c ∈ (snl.drop 1).take kA, R l c = true := by
  refine ⟨by simp; omega, ?_⟩
  intro c hc
  rw [List.mem_take_iff_getElem] at hc
  obtain ⟨i, hi, rfl⟩ := hc
  obtain ⟨snl', c', h1, h2, h3⟩ := adaptive_ge_k n kA sn order R h l hl (i + 1) (by omega)
    (by simp at hi; omega) (by simp at hi; omega)
  rw [hsn] at h1; injection h1 with h1; subst h1
  simp only [List.getElem_drop]
  have : snl[1 + i]? = some c' := by rw [Nat.add_comm]; exact h2
  rw [List.getElem?_eq_getElem (by simp at hi; omega)] at this
  injection this with this
  rw [this]; exact h3

example : (match adaptive 3 1 [[0, 1, 2], [1, 0, 2], [2, 1, 0]] [0, 1, 2] with
    | some R => bmTab 3 R | none => []) = [[false, true, true], [true, false, true], [true, true, false]] := by
  decide


/-! ### the kernels compute the metrics -/

def absQ (x y : Rat) : Rat := if x ≤ y then y - x else x - y

/-- the three metrics by definition (Euclidean: the sum of squares under the root) -/
def metricQ : Metric → List Rat → List Rat → Rat
  | .manhattan, a, b => (List.zipWith absQ a b).sum
  | .euclidean, a, b => ((List.zipWith absQ a b).map fun d => d * d).sum
  | .supremum, a, b => (List.zipWith absQ a b).foldl max 0

private theorem zipWith_absdiff_some (a b : List Rat) :
    List.zipWith absdiff (a.map some) (b.map some) = (List.zipWith absQ a b).map some := by
  induction a generalizing b with
  | nil => simp
  | cons x xs ih =>
    cases b with
    | nil => simp
    | cons y ys => simp [absdiff, absQ, ih]

/-- **kernels = metric definitions** on complete (NaN-free) state vectors -/
theorem dist_complete (m : Metric) (a b : List Rat) :
    dist m (a.map some) (b.map some) = some (metricQ m a b) := by
  unfold dist
  rw [zipWith_absdiff_some]
  cases m with
  | manhattan =>
    simp only [metricQ]
    generalize List.zipWith absQ a b = ds
    have : ∀ (acc : Rat), (ds.map some).foldl (fun acc t => addV acc t) (some acc)
        = some (acc + ds.sum) := by
      induction ds with
      | nil => intro acc; simp
      | cons d ds ih =>
        intro acc
        simp only [List.map_cons, List.foldl_cons, List.sum_cons]
        rw [show addV (some acc) (some d) = some (acc + d) from rfl, ih, Rat.add_assoc]
    have h0 := this 0
    rw [Rat.zero_add] at h0
    exact h0
  | euclidean =>
    simp only [metricQ]
    generalize List.zipWith absQ a b = ds
    have : ∀ (acc : Rat), (ds.map some).foldl (fun acc t => addV acc (mulV t t)) (some acc)
        = some (acc + (ds.map fun d => d * d).sum) := by
      induction ds with
      | nil => intro acc; simp
      | cons d ds ih =>
        intro acc
        simp only [List.map_cons, List.foldl_cons, List.sum_cons]
        rw [show addV (some acc) (mulV (some d) (some d)) = some (acc + d * d) from rfl, ih,
          Rat.add_assoc]
    have h0 := this 0
    rw [Rat.zero_add] at h0
    exact h0
  | supremum =>
    simp only [metricQ]
    generalize List.zipWith absQ a b = ds
    have : ∀ (acc : Rat), (ds.map some).foldl (fun acc t => if gtV t acc then t else acc) (some acc)
        = some (ds.foldl max acc) := by
      induction ds with
      | nil => intro acc; simp
      | cons d ds ih =>
        intro acc
        simp only [List.map_cons, List.foldl_cons]
        by_cases h : acc < d
        · have hm : max acc d = d := by grind
          rw [show gtV (some d) (some acc) = decide (acc < d) from rfl]
          simp only [h, decide_true, if_true, hm]
          exact ih d
        · have hm : max acc d = acc := by grind
          rw [show gtV (some d) (some acc) = decide (acc < d) from rfl]
          simp only [h, decide_false, hm]
          exact ih acc
    exact this 0

/-- a missing value makes the Manhattan and Euclidean distances NaN, which is never
below a threshold; the supremum kernel skips the component (IEEE comparison) — this
is why `missing_values=True` masks rows and columns explicitly -/
example : dist .manhattan [none, some 1] [some 0, some 1] = none
    ∧ dist .euclidean [none, some 1] [some 0, some 1] = none
    ∧ dist .supremum [none, some 1] [some 0, some 1] = some 0 := by decide +kernel

/-- **Euclidean threshold**: comparing the sum of squares with `unitThr` is comparing
its square root with `ε` (over ℝ) -/
theorem euclid_lt_iff_sqrt_lt (a b : List Rat) (eps : Rat) :
    ltV (dist .euclidean (a.map some) (b.map some)) (some (unitThr .euclidean eps)) = true
      ↔ Real.sqrt ((metricQ .euclidean a b : Rat) : ℝ) < (eps : ℝ) := by
  rw [dist_complete]
  have hs : 0 ≤ metricQ .euclidean a b := by
    have key : ∀ ds : List Rat, 0 ≤ (ds.map fun d => d * d).sum := by
      intro ds
      induction ds with
      | nil => simp
      | cons d ds ih =>
        simp only [List.map_cons, List.sum_cons]
        have := mul_self_nonneg d
        linarith
    exact key _
  rw [sqrt_lt_iff_unitThr _ _ hs]
  simp [ltV]

example : metricQ .euclidean [0, 3] [4, 0] = 25 ∧ metricQ .manhattan [0, 3] [4, 0] = 7
    ∧ metricQ .supremum [0, 3] [4, 0] = 4 := by decide +kernel

end Pyunicorn.Recurrence
