import Pyunicorn.Lemmas.VisibilityExt
import Pyunicorn.Lemmas.VisibilityBetw
import Pyunicorn.Lemmas.VisibilityFloat
import Pyunicorn.Lemmas.VisibilityF32
import Pyunicorn.Lemmas.VisibilityDist
import Pyunicorn.Lemmas.VisibilityScale
import Pyunicorn.Lemmas.VisibilityBetwKernel
import Pyunicorn.Lemmas.VisibilityBetwWalk
import Pyunicorn.Generated.ArithC14
/-!
# C14 — visibility graphs realise the geometric visibility criterion

Statements about the model `Pyunicorn.Visibility` of the visibility kernels
(`timeseries/_ext/numerics.pyx:799-922`) and of `VisibilityGraph`
(`timeseries/visibility_graph.py`).  The model is tied to the compiled kernels and
to the class by the exact correspondence in `harness/c14.py`.

`Good x t mv N` is the kernels' precondition: arrays at least `N` long, timings
strictly increasing.  `NVisible` / `HVisible` / `BelowChord` are the geometric
predicates of the property statement (`Lemmas/VisibilityGeom.lean`); a missing
sample is `none` (NaN).
-/
namespace Pyunicorn.Visibility

/-! ## natural visibility graph -/

/-- **natural visibility, missing-value kernel as the class calls it** (mask =
`isnan`): the kernel terminates without error and writes `A[a,b]` (`a < b`) exactly
when both samples are present and every intermediate sample is present and lies
strictly below the straight line joining them.  In particular a missing sample
blocks visibility across it and has no link at all. -/
theorem nvg_mv_iff (x : List Val) (t : List Rat) (N : Nat)
    (g : Good x t (some (nanMask x)) N) :
    ∃ log, kernelN x t (some (nanMask x)) N = .ok log ∧
      ∀ a b, (a, b) ∈ log ↔ a < b ∧ b < N ∧ NVisible x t a b := by
  obtain ⟨log, hlog, hmem⟩ := kernelN_spec x t _ N g
  refine ⟨log, hlog, ?_⟩
  intro a b
  rw [hmem]
  constructor
  · rintro (⟨h1, h2, h3⟩ | ⟨rfl, h2, h3, h4⟩)
    · have hbc : ∀ k, a < k → k < b → BelowChord x t a b k := fun k hk1 hk2 =>
        (vlt_slope_iff x t a b k (g.inc a k hk1 (by omega)) (g.inc a b (by omega) h2)).mp
          (h3 k hk1 hk2).2
      obtain ⟨xa, xb, _, ha, hb, _⟩ := hbc (a + 1) (by omega) (by omega)
      exact ⟨by omega, h2, by simp [ha], by simp [hb], hbc⟩
    · have la := g.lx
      exact ⟨by omega, h2, (masked_nanMask_lt x a (by omega)).mp h3,
        (masked_nanMask_lt x (a + 1) (by omega)).mp h4, fun k h1 h2 => by omega⟩
  · rintro ⟨h1, h2, ha, hb, hbc⟩
    have la := g.lx
    by_cases hadj : b = a + 1
    · subst hadj
      exact Or.inr ⟨rfl, h2, (masked_nanMask_lt x a (by omega)).mpr ha,
        (masked_nanMask_lt x (a + 1) (by omega)).mpr hb⟩
    · refine Or.inl ⟨by omega, h2, fun k hk1 hk2 => ?_⟩
      have hk := hbc k hk1 hk2
      obtain ⟨_, _, xk, _, _, hxk, _⟩ := hbc k hk1 hk2
      exact ⟨masked_nanMask_of_some x k xk hxk,
        (vlt_slope_iff x t a b k (g.inc a k hk1 (by omega)) (g.inc a b h1 h2)).mpr hk⟩

/-- **natural visibility, kernel without missing-value treatment**, for *any*
series (NaN allowed): far pairs follow the criterion (a NaN still blocks), but
consecutive samples are linked unconditionally. -/
theorem nvg_nomask_general (x : List Val) (t : List Rat) (N : Nat) (g : Good x t none N) :
    ∃ log, kernelN x t none N = .ok log ∧
      ∀ a b, (a, b) ∈ log ↔ a < b ∧ b < N ∧ (b = a + 1 ∨ NVisible x t a b) := by
  obtain ⟨log, hlog, hmem⟩ := kernelN_spec x t _ N g
  refine ⟨log, hlog, ?_⟩
  intro a b
  rw [hmem]
  constructor
  · rintro (⟨h1, h2, h3⟩ | ⟨rfl, h2, _, _⟩)
    · have hbc : ∀ k, a < k → k < b → BelowChord x t a b k := fun k hk1 hk2 =>
        (vlt_slope_iff x t a b k (g.inc a k hk1 (by omega)) (g.inc a b (by omega) h2)).mp
          (h3 k hk1 hk2).2
      obtain ⟨xa, xb, _, ha, hb, _⟩ := hbc (a + 1) (by omega) (by omega)
      exact ⟨by omega, h2, Or.inr ⟨by simp [ha], by simp [hb], hbc⟩⟩
    · exact ⟨by omega, h2, Or.inl rfl⟩
  · rintro ⟨h1, h2, hadj | ⟨_, _, hbc⟩⟩
    · exact Or.inr ⟨hadj, h2, rfl, rfl⟩
    · by_cases hadj : b = a + 1
      · exact Or.inr ⟨hadj, h2, rfl, rfl⟩
      · refine Or.inl ⟨by omega, h2, fun k hk1 hk2 => ⟨rfl, ?_⟩⟩
        exact (vlt_slope_iff x t a b k (g.inc a k hk1 (by omega)) (g.inc a b h1 h2)).mpr
          (hbc k hk1 hk2)

/-- **natural visibility graph of a series without missing samples**: linked exactly
when every intermediate sample lies strictly below the chord. -/
theorem nvg_iff (x : List Val) (t : List Rat) (N : Nat) (g : Good x t none N)
    (hx : ∀ k, k < N → valAt x k ≠ none) :
    ∃ log, kernelN x t none N = .ok log ∧
      ∀ a b, (a, b) ∈ log ↔ a < b ∧ b < N ∧ NVisible x t a b := by
  obtain ⟨log, hlog, hmem⟩ := nvg_nomask_general x t N g
  refine ⟨log, hlog, ?_⟩
  intro a b
  rw [hmem]
  constructor
  · rintro ⟨h1, h2, rfl | h3⟩
    · exact ⟨h1, h2, hx a (by omega), hx (a + 1) h2, fun k h1 h2 => by omega⟩
    · exact ⟨h1, h2, h3⟩
  · rintro ⟨h1, h2, h3⟩
    exact ⟨h1, h2, Or.inr h3⟩

/-! ## horizontal visibility graph -/

/-- **horizontal kernel on a series without missing samples**: linked exactly when
every intermediate sample is strictly below both. -/
theorem hvg_iff (x : List Val) (N : Nat) (lx : N ≤ x.length)
    (hx : ∀ k, k < N → valAt x k ≠ none) :
    ∃ log, kernelH x N = .ok log ∧
      ∀ a b, (a, b) ∈ log ↔ a < b ∧ b < N ∧ HVisible x a b := by
  obtain ⟨log, hlog, hmem⟩ := kernelH_spec x N lx
  refine ⟨log, hlog, ?_⟩
  intro a b
  rw [hmem]
  have some_of : ∀ k, k < N → ∃ v : Rat, valAt x k = some v := fun k hk => by
    cases h : valAt x k with
    | none => exact absurd h (hx k hk)
    | some v => exact ⟨v, rfl⟩
  constructor
  · rintro (⟨h1, h2, h3⟩ | ⟨rfl, h2⟩)
    · obtain ⟨xa, ha⟩ := some_of a (by omega)
      obtain ⟨xb, hb⟩ := some_of b h2
      refine ⟨by omega, h2, xa, xb, ha, hb, fun k hk1 hk2 => ?_⟩
      have := h3 k hk1 hk2
      rw [ha, hb] at this
      exact (vlt_cmin_iff _ xa xb).mp this
    · obtain ⟨xa, ha⟩ := some_of a (by omega)
      obtain ⟨xb, hb⟩ := some_of (a + 1) h2
      exact ⟨by omega, h2, xa, xb, ha, hb, fun k h1 h2 => by omega⟩
  · rintro ⟨h1, h2, xa, xb, ha, hb, h3⟩
    by_cases hadj : b = a + 1
    · exact Or.inr ⟨hadj, h2⟩
    · refine Or.inl ⟨by omega, h2, fun k hk1 hk2 => ?_⟩
      rw [ha, hb]
      exact (vlt_cmin_iff _ xa xb).mpr (h3 k hk1 hk2)

theorem entry_iff (log : List (Nat × Nat)) (a b : Nat) :
    entry log a b = true ↔ (a, b) ∈ log ∨ (b, a) ∈ log := by
  simp [entry]

/-- **horizontal graph with `missing_values=True`** (any series): linked exactly
when both samples are present and every intermediate sample is present and strictly
below both; a missing sample blocks visibility and stays isolated. -/
theorem hvg_missing_iff (x : List Val) (timings : Option (List Rat)) :
    ∃ log, classLog x timings true true = .ok log ∧
      ∀ a b, (a, b) ∈ log ↔ a < b ∧ b < x.length ∧ HVisible x a b := by
  obtain ⟨log, hlog, hmem⟩ := kernelH_spec x x.length (Nat.le_refl _)
  have hc : classLog x timings true true
      = .ok (log.filter (fun p => !isMissing x p.1 && !isMissing x p.2)) := by
    simp only [classLog, Bool.not_true, Bool.false_eq_true, if_false, hlog, bind_ok, if_true]
  refine ⟨_, hc, ?_⟩
  intro a b
  simp only [List.mem_filter, hmem, isMissing, Bool.and_eq_true, Bool.not_eq_true',
    Option.isNone_eq_false_iff, Option.isSome_iff_exists]
  constructor
  · rintro ⟨h, ⟨xa, ha⟩, ⟨xb, hb⟩⟩
    rcases h with ⟨h1, h2, h3⟩ | ⟨rfl, h2⟩
    · refine ⟨by omega, h2, xa, xb, ha, hb, fun k hk1 hk2 => ?_⟩
      have := h3 k hk1 hk2
      rw [ha, hb] at this
      exact (vlt_cmin_iff _ xa xb).mp this
    · exact ⟨by omega, h2, xa, xb, ha, hb, fun k h1 h2 => by omega⟩
  · rintro ⟨h1, h2, xa, xb, ha, hb, h3⟩
    refine ⟨?_, ⟨xa, ha⟩, ⟨xb, hb⟩⟩
    by_cases hadj : b = a + 1
    · exact Or.inr ⟨hadj, h2⟩
    · refine Or.inl ⟨by omega, h2, fun k hk1 hk2 => ?_⟩
      rw [ha, hb]
      exact (vlt_cmin_iff _ xa xb).mpr (h3 k hk1 hk2)

/-- the class with `horizontal=False, missing_values=True` runs the missing-value
kernel with the NaN mask on the given (or default) timings -/
theorem class_nvg_missing (x : List Val) (t : List Rat) :
    classLog x (some t) true false = kernelN x t (some (nanMask x)) x.length := by
  simp [classLog]

theorem class_nvg_plain (x : List Val) (t : List Rat) :
    classLog x (some t) false false = kernelN x t none x.length := by
  simp [classLog]

theorem class_default_timings (x : List Val) (m h : Bool) :
    classLog x none m h = classLog x (some (defaultTimings x.length)) m h := rfl

/-- the default timings `0, 1, 2, …` are strictly increasing -/
theorem defaultTimings_good (x : List Val) (mv : Option (List Bool))
    (hm : ∀ m, mv = some m → x.length ≤ m.length) :
    Good x (defaultTimings x.length) mv x.length := by
  refine ⟨Nat.le_refl _, by simp [defaultTimings], hm, ?_⟩
  intro a b hab hb
  have ha : a < x.length := by omega
  simp only [tAt, defaultTimings, List.getD, List.getElem?_map, List.getElem?_range ha,
    List.getElem?_range hb, Option.map_some, Option.getD_some]
  exact_mod_cast hab

/-- **missing samples stay isolated** (natural graph, `missing_values=True`) -/
theorem nvg_missing_isolated (x : List Val) (t : List Rat) (N : Nat)
    (g : Good x t (some (nanMask x)) N) (log : List (Nat × Nat))
    (h : kernelN x t (some (nanMask x)) N = .ok log) (a : Nat) (ha : valAt x a = none) (b : Nat) :
    entry log a b = false := by
  obtain ⟨log', h', hmem⟩ := nvg_mv_iff x t N g
  rw [h] at h'
  cases h'
  rw [Bool.eq_false_iff, Ne, entry_iff, hmem, hmem]
  rintro (⟨_, _, h1, _⟩ | ⟨_, _, _, h1, _⟩) <;> exact h1 ha

/-- **missing samples stay isolated** (horizontal graph, `missing_values=True`) -/
theorem hvg_missing_isolated (x : List Val) (timings : Option (List Rat))
    (log : List (Nat × Nat)) (h : classLog x timings true true = .ok log) (a : Nat)
    (ha : valAt x a = none) (b : Nat) : entry log a b = false := by
  obtain ⟨log', h', hmem⟩ := hvg_missing_iff x timings
  rw [h] at h'
  cases h'
  rw [Bool.eq_false_iff, Ne, entry_iff, hmem, hmem]
  rintro (⟨_, _, xa, _, h1, _⟩ | ⟨_, _, _, xa, _, h1, _⟩) <;> rw [ha] at h1 <;> cases h1

/-! ## the matrix -/

theorem entry_symm (log : List (Nat × Nat)) (a b : Nat) : entry log a b = entry log b a := by
  simp [entry, Bool.or_comm]

/-- the kernels never write the diagonal: every logged pair is `a < b < N` -/
theorem kernelN_log_lt (x : List Val) (t : List Rat) (mv : Option (List Bool)) (N : Nat)
    (g : Good x t mv N) (log : List (Nat × Nat)) (h : kernelN x t mv N = .ok log) (a b : Nat)
    (hm : (a, b) ∈ log) : a < b ∧ b < N := by
  obtain ⟨log', h', hmem⟩ := kernelN_spec x t mv N g
  rw [h] at h'
  cases h'
  rcases (hmem a b).mp hm with ⟨h1, h2, _⟩ | ⟨h1, h2, _⟩ <;> omega

theorem kernelH_log_lt (x : List Val) (N : Nat) (lx : N ≤ x.length) (log : List (Nat × Nat))
    (h : kernelH x N = .ok log) (a b : Nat) (hm : (a, b) ∈ log) : a < b ∧ b < N := by
  obtain ⟨log', h', hmem⟩ := kernelH_spec x N lx
  rw [h] at h'
  cases h'
  rcases (hmem a b).mp hm with ⟨h1, h2, _⟩ | ⟨h1, h2⟩ <;> omega

theorem entry_diag (log : List (Nat × Nat)) (hlt : ∀ a b, (a, b) ∈ log → a < b) (a : Nat) :
    entry log a a = false := by
  rw [Bool.eq_false_iff, Ne, entry_iff]
  rintro (h | h) <;> exact absurd (hlt a a h) (Nat.lt_irrefl _)

/-! ## time-directed degrees -/

/-- **retarded degree + advanced degree = degree**, for every adjacency matrix -/
theorem ret_add_adv (A : List (List Bool)) (i : Nat) : retDeg A i + advDeg A i = deg A i := by
  simp only [retDeg, advDeg, deg]
  rw [← List.count_append, List.take_append_drop]

/-! ## invariance under positive affine maps of values and times -/

/-- **natural kernels**: `x ↦ a·x + b` (`a > 0`), `t ↦ c·t + d` (`c > 0`) leave the
result unchanged — the same write log, or the same error — for every series, mask
and timing vector (no precondition). -/
theorem nvg_affine_invariant (x : List Val) (t : List Rat) (mv : Option (List Bool)) (N : Nat)
    (a b c d : Rat) (ha : 0 < a) (hc : 0 < c) :
    kernelN (x.map (affV a b)) (t.map (affT c d)) mv N = kernelN x t mv N := by
  simp only [kernelN]
  rw [filterE_congr (fun p : Nat × Nat => farN (x.map (affV a b)) (t.map (affT c d)) mv p.1 p.2)
    (fun p => farN x t mv p.1 p.2) (fun p => farN_affine x t mv a b c d ha hc p.1 p.2)]

/-- **horizontal kernel**: unchanged under `x ↦ a·x + b`, `a > 0` (times are not read) -/
theorem hvg_affine_invariant (x : List Val) (N : Nat) (a b : Rat) (ha : 0 < a) :
    kernelH (x.map (affV a b)) N = kernelH x N := by
  simp only [kernelH]
  rw [filterE_congr (fun p : Nat × Nat => farH (x.map (affV a b)) p.1 p.2)
    (fun p => farH x p.1 p.2) (fun p => farH_affine x a b ha p.1 p.2)]

theorem nanMask_aff (x : List Val) (a b : Rat) : nanMask (x.map (affV a b)) = nanMask x := by
  simp only [nanMask, List.map_map]
  congr 1
  funext v
  cases v <;> rfl

theorem isMissing_aff (x : List Val) (a b : Rat) (k : Nat) :
    isMissing (x.map (affV a b)) k = isMissing x k := by
  simp only [isMissing, valAt, List.getElem?_map]
  cases x[k]? with
  | none => rfl
  | some v => cases v <;> rfl

/-- **the class**: `VisibilityGraph(a·x + b, c·t + d, …)` has the adjacency of
`VisibilityGraph(x, t, …)`, for both graph types and both settings of `missing_values` -/
theorem class_affine_invariant (x : List Val) (t : List Rat) (missing horizontal : Bool)
    (a b c d : Rat) (ha : 0 < a) (hc : 0 < c) :
    classLog (x.map (affV a b)) (some (t.map (affT c d))) missing horizontal
      = classLog x (some t) missing horizontal := by
  simp only [classLog, List.length_map, nanMask_aff, nvg_affine_invariant x t _ _ a b c d ha hc,
    hvg_affine_invariant x _ a b ha, isMissing_aff]

/-- the same with the default timings `0, 1, 2, …` (only the values are mapped) -/
theorem class_affine_invariant_default (x : List Val) (missing horizontal : Bool)
    (a b : Rat) (ha : 0 < a) :
    classLog (x.map (affV a b)) none missing horizontal = classLog x none missing horizontal := by
  have h := class_affine_invariant x (defaultTimings x.length) missing horizontal a b 1 0 ha
    (by decide)
  have ht : (defaultTimings x.length).map (affT 1 0) = defaultTimings x.length := by
    have hid : affT 1 0 = id := by funext r; simp [affT]
    rw [hid, List.map_id]
  rw [ht] at h
  rw [class_default_timings, class_default_timings x, List.length_map]
  exact h

/-! ## time reversal mirrors the graph and exchanges retarded and advanced measures -/

theorem good_reverse (x : List Val) (t : List Rat) (c : Rat) (N : Nat) (mv mv' : Option (List Bool))
    (hx : x.length = N) (ht : t.length = N) (g : Good x t mv N)
    (hm : ∀ m, mv' = some m → N ≤ m.length) : Good x.reverse (revT c t) mv' N := by
  refine ⟨by simp [hx], by simp [revT, ht], hm, ?_⟩
  intro a b hab hb
  rw [tAt_revT c t N a ht (by omega), tAt_revT c t N b ht hb]
  have := g.inc (N - 1 - b) (N - 1 - a) (by omega) (by omega)
  linarith

/-- **natural graph with missing values**: the graph of the time-reversed series
(`x` read backwards at times `c - t`) is the mirror image, `A'[a,b] = A[N-1-a, N-1-b]`. -/
theorem reverse_mirrors_nvg_mv (x : List Val) (t : List Rat) (c : Rat) (N : Nat)
    (hx : x.length = N) (ht : t.length = N) (g : Good x t (some (nanMask x)) N) :
    ∃ log log', kernelN x t (some (nanMask x)) N = .ok log ∧
      kernelN x.reverse (revT c t) (some (nanMask x.reverse)) N = .ok log' ∧
      ∀ a b, a < N → b < N → entry log' a b = entry log (N - 1 - a) (N - 1 - b) := by
  obtain ⟨log, hlog, hmem⟩ := nvg_mv_iff x t N g
  have g' : Good x.reverse (revT c t) (some (nanMask x.reverse)) N :=
    good_reverse x t c N _ _ hx ht g (by intro m hm; cases hm; simp [nanMask, hx])
  obtain ⟨log', hlog', hmem'⟩ := nvg_mv_iff x.reverse (revT c t) N g'
  exact ⟨log, log', hlog, hlog', mirror_of_iff N log log' _ _ hmem hmem'
    (fun a b hab hb => nvisible_reverse x t c N a b hx ht hab hb (g.inc a b hab hb))⟩

/-- **natural graph, no missing samples** -/
theorem reverse_mirrors_nvg (x : List Val) (t : List Rat) (c : Rat) (N : Nat)
    (hx : x.length = N) (ht : t.length = N) (g : Good x t none N)
    (hp : ∀ k, k < N → valAt x k ≠ none) :
    ∃ log log', kernelN x t none N = .ok log ∧
      kernelN x.reverse (revT c t) none N = .ok log' ∧
      ∀ a b, a < N → b < N → entry log' a b = entry log (N - 1 - a) (N - 1 - b) := by
  obtain ⟨log, hlog, hmem⟩ := nvg_iff x t N g hp
  have g' : Good x.reverse (revT c t) none N :=
    good_reverse x t c N _ _ hx ht g (by intro m hm; cases hm)
  have hp' : ∀ k, k < N → valAt x.reverse k ≠ none := by
    intro k hk
    rw [valAt_reverse x N k hx hk]
    exact hp _ (by omega)
  obtain ⟨log', hlog', hmem'⟩ := nvg_iff x.reverse (revT c t) N g' hp'
  exact ⟨log, log', hlog, hlog', mirror_of_iff N log log' _ _ hmem hmem'
    (fun a b hab hb => nvisible_reverse x t c N a b hx ht hab hb (g.inc a b hab hb))⟩

/-- **horizontal graph** (`missing_values=True`, any series; without NaN this is the
plain horizontal graph) -/
theorem reverse_mirrors_hvg (x : List Val) (tm tm' : Option (List Rat)) :
    ∃ log log', classLog x tm true true = .ok log ∧
      classLog x.reverse tm' true true = .ok log' ∧
      ∀ a b, a < x.length → b < x.length →
        entry log' a b = entry log (x.length - 1 - a) (x.length - 1 - b) := by
  obtain ⟨log, hlog, hmem⟩ := hvg_missing_iff x tm
  obtain ⟨log', hlog', hmem'⟩ := hvg_missing_iff x.reverse tm'
  rw [List.length_reverse] at hmem'
  exact ⟨log, log', hlog, hlog', mirror_of_iff x.length log log' _ _ hmem hmem'
    (fun a b hab hb => hvisible_reverse x x.length a b rfl hab hb)⟩

/-- **retarded ↔ advanced degree** under time reversal, for any two mirrored logs
whose pairs are strictly ordered (all three graph types by `reverse_mirrors_*` and
`kernelN_log_lt` / `kernelH_log_lt`). -/
theorem reverse_exchanges_degrees (N : Nat) (log log' : List (Nat × Nat))
    (hm : ∀ a b, a < N → b < N → entry log' a b = entry log (N - 1 - a) (N - 1 - b))
    (hlt : ∀ a b, (a, b) ∈ log → a < b) (hlt' : ∀ a b, (a, b) ∈ log' → a < b)
    (a : Nat) (ha : a < N) :
    retDeg (adjMat N log') a = advDeg (adjMat N log) (N - 1 - a) ∧
    advDeg (adjMat N log') a = retDeg (adjMat N log) (N - 1 - a) :=
  ⟨retDeg_mirror N log log' hm (entry_diag log hlt) a ha,
   advDeg_mirror N log log' hm (entry_diag log' hlt') a ha⟩

/-! ## retarded / advanced clustering kernels -/

/-- **retarded clustering counter**: the kernel's `counter` for node `i` is the
number of pairs `k < j < i` of nodes in the past of `i` with `A[i,j]`, `A[j,k]`,
`A[k,i]` all set — each such pair visited exactly once.  (The kernel divides it by
`norm[i] = d(d-1)/2`, the number of pairs of past neighbours.) -/
theorem retCount_spec (A : List (List Bool)) (i : Nat) :
    ∃ l : List (Nat × Nat), l.Nodup ∧
      (∀ j k, (j, k) ∈ l ↔ k < j ∧ j < i ∧ Mat.at A i j = true ∧ Mat.at A j k = true ∧
        Mat.at A k i = true) ∧ retCount A i = l.length := by
  refine ⟨(retPairs i).filter (tri A i), (retPairs_nodup i).filter _, ?_,
    by simp [retCount, List.countP_eq_length_filter]⟩
  intro j k
  simp only [List.mem_filter, retPairs_mem, tri, Bool.and_eq_true]
  constructor
  · rintro ⟨⟨h1, h2⟩, ⟨h3, h4⟩, h5⟩; exact ⟨h1, h2, h3, h4, h5⟩
  · rintro ⟨h1, h2, h3, h4, h5⟩; exact ⟨⟨h1, h2⟩, ⟨h3, h4⟩, h5⟩

/-- **advanced clustering counter**: pairs `i < k < j < N` in the future of `i` -/
theorem advCount_spec (A : List (List Bool)) (N i : Nat) :
    ∃ l : List (Nat × Nat), l.Nodup ∧
      (∀ j k, (j, k) ∈ l ↔ i < k ∧ k < j ∧ j < N ∧ Mat.at A i j = true ∧ Mat.at A j k = true ∧
        Mat.at A k i = true) ∧ advCount A N i = l.length := by
  refine ⟨(advPairs N i).filter (tri A i), (advPairs_nodup N i).filter _, ?_,
    by simp [advCount, List.countP_eq_length_filter]⟩
  intro j k
  simp only [List.mem_filter, advPairs_mem, tri, Bool.and_eq_true]
  constructor
  · rintro ⟨⟨h1, h2, h3⟩, ⟨h4, h5⟩, h6⟩; exact ⟨h1, h2, h3, h4, h5, h6⟩
  · rintro ⟨h1, h2, h3, h4, h5, h6⟩; exact ⟨⟨h1, h2, h3⟩, ⟨h4, h5⟩, h6⟩

/-- the advanced kernel skips `i ≥ N - 2` (`for i in range(N-2)`): nothing is lost,
those nodes have no pair of nodes in their future -/
theorem advCount_eq_zero (A : List (List Bool)) (N i : Nat) (h : N - 2 ≤ i) :
    advCount A N i = 0 := by
  rw [advCount, List.countP_eq_zero]
  rintro ⟨j, k⟩ hm
  rw [advPairs_mem] at hm
  omega

/-- so the advanced clustering kernel is `counter / norm` wherever `norm ≠ 0`, like
the retarded one -/
theorem advClustKernel_eq (N : Nat) (A : List (List Bool)) (norm : List Rat) :
    advClustKernel N A norm = (List.range N).map fun i =>
      if norm.getD i 0 ≠ 0 then (advCount A N i : Rat) / norm.getD i 0 else 0 := by
  simp only [advClustKernel]
  apply List.map_congr_left
  intro i _
  by_cases h1 : i < N - 2
  · simp [h1]
  · rw [advCount_eq_zero A N i (by omega)]
    simp

/-! ## time reversal exchanges retarded and advanced clustering -/

/-- **retarded ↔ advanced clustering counters** under time reversal, for any two
mirrored logs -/
theorem reverse_exchanges_clustering_counts (N : Nat) (log log' : List (Nat × Nat))
    (hm : ∀ a b, a < N → b < N → entry log' a b = entry log (N - 1 - a) (N - 1 - b))
    (a : Nat) (ha : a < N) :
    retCount (adjMat N log') a = advCount (adjMat N log) N (N - 1 - a) ∧
    advCount (adjMat N log') N a = retCount (adjMat N log) (N - 1 - a) := by
  have hm' : ∀ a b, a < N → b < N → entry log a b = entry log' (N - 1 - a) (N - 1 - b) := by
    intro a b ha hb
    rw [hm _ _ (by omega) (by omega)]
    have e1 : N - 1 - (N - 1 - a) = a := by omega
    have e2 : N - 1 - (N - 1 - b) = b := by omega
    rw [e1, e2]
  have mk : ∀ (l l' : List (Nat × Nat)),
      (∀ a b, a < N → b < N → entry l' a b = entry l (N - 1 - a) (N - 1 - b)) →
      ∀ a, a < N → retCount (adjMat N l') a = advCount (adjMat N l) N (N - 1 - a) := by
    intro l l' h a ha
    refine retCount_mirror N (adjMat N l) (adjMat N l') ?_ ?_ a ha
    · intro i j hi hj
      rw [mat_adjMat N l' i j hi hj, mat_adjMat N l _ _ (by omega) (by omega)]
      exact h i j hi hj
    · intro i j hi hj
      rw [mat_adjMat N l i j hi hj, mat_adjMat N l j i hj hi]
      exact entry_symm l i j
  refine ⟨mk log log' hm a ha, ?_⟩
  have := mk log' log hm' (N - 1 - a) (by omega)
  have e1 : N - 1 - (N - 1 - a) = a := by omega
  rw [e1] at this
  exact this.symm

/-- **retarded ↔ advanced local clustering** (the methods' output arrays) under time
reversal: `retarded_local_clustering` of the reversed series is the reversed
`advanced_local_clustering` of the original one, and vice versa. -/
theorem reverse_exchanges_clustering (N : Nat) (log log' : List (Nat × Nat))
    (hm : ∀ a b, a < N → b < N → entry log' a b = entry log (N - 1 - a) (N - 1 - b))
    (hlt : ∀ a b, (a, b) ∈ log → a < b) (hlt' : ∀ a b, (a, b) ∈ log' → a < b) :
    retClust (adjMat N log') = (advClust (adjMat N log)).reverse ∧
    advClust (adjMat N log') = (retClust (adjMat N log)).reverse := by
  have hlen : ∀ l, (adjMat N l).length = N := by intro l; simp [adjMat]
  have hnorm : ∀ (f : Nat → Rat) (i : Nat), i < N →
      ((List.range N).map f).getD i 0 = f i := by
    intro f i hi
    simp [List.getD, List.getElem?_map, List.getElem?_range hi]
  constructor
  · rw [retClust, advClust, advClustKernel_eq, hlen, hlen, ← map_range_rev]
    simp only [retClustKernel]
    apply List.map_congr_left
    intro a ha
    rw [List.mem_range] at ha
    rw [hnorm _ a ha, hnorm _ (N - 1 - a) (by omega),
      (reverse_exchanges_degrees N log log' hm hlt hlt' a ha).1,
      (reverse_exchanges_clustering_counts N log log' hm a ha).1]
  · rw [retClust, advClust, advClustKernel_eq, hlen, hlen]
    simp only [retClustKernel]
    rw [← map_range_rev]
    apply List.map_congr_left
    intro a ha
    rw [List.mem_range] at ha
    rw [hnorm _ a ha, hnorm _ (N - 1 - a) (by omega),
      (reverse_exchanges_degrees N log log' hm hlt hlt' a ha).2,
      (reverse_exchanges_clustering_counts N log log' hm a ha).2]

/-! ## error branch -/

/-- **error branch of the natural kernels** (audited copy of `kernelN_error`): with
arrays of matching size the only possible failure is `ZeroDivisionError`, which needs
two equal timings; no `IndexError`, and the `while` loop never runs past `j`
(`Err.fuel` is unreachable), whatever the timings are. -/
theorem nvg_fails_only_on_tied_timings (x : List Val) (t : List Rat) (mv : Option (List Bool))
    (N : Nat) (e : Err) (lx : N ≤ x.length) (lt : N ≤ t.length)
    (lm : ∀ m, mv = some m → N ≤ m.length) (h : kernelN x t mv N = .error e) :
    e = .zeroDiv ∧ ∃ i k, i < k ∧ k < N ∧ tAt t k = tAt t i :=
  kernelN_error x t mv N e lx lt lm h

/-- the horizontal kernel never fails on an array of at least `N` samples -/
theorem hvg_total (x : List Val) (N : Nat) (lx : N ≤ x.length) :
    ∃ log, kernelH x N = .ok log := by
  obtain ⟨log, h, _⟩ := kernelH_spec x N lx
  exact ⟨log, h⟩

/-- strictly increasing steps give `Good` (used for the examples below) -/
theorem good_of_steps (x : List Val) (t : List Rat) (mv : Option (List Bool)) (N : Nat)
    (lx : N ≤ x.length) (lt : N ≤ t.length) (lm : ∀ m, mv = some m → N ≤ m.length)
    (hs : ∀ a, a < N - 1 → tAt t a < tAt t (a + 1)) : Good x t mv N := by
  refine ⟨lx, lt, lm, ?_⟩
  intro a b hab hb
  induction b with
  | zero => omega
  | succ b ih =>
    by_cases h : a = b
    · subst h; exact hs a (by omega)
    · exact lt_trans (ih (by omega) (by omega)) (hs b (by omega))

/-! ## non-vacuity: concrete states satisfying the hypotheses -/

/-- five samples, one missing, non-uniform dyadic timings -/
def exX : List Val := [some 1, some 3, none, some 2, some 5]
def exT : List Rat := [0, 1, 2, 3, 9 / 2]

example : Good exX exT (some (nanMask exX)) 5 :=
  good_of_steps _ _ _ _ (by decide) (by decide) (by intro m h; cases h; decide) (by decide +kernel)

/-- the missing sample 2 is isolated and blocks 1–3, 1–4; 3 sees 4 -/
example : kernelN exX exT (some (nanMask exX)) 5 = .ok [(0, 1), (3, 4)] := by decide +kernel

/-- a collinear triple: the middle sample lies *on* the chord, so 0 and 2 are not linked -/
example : kernelN [some 0, some 1, some 2] [0, 1, 2] none 3 = .ok [(0, 1), (1, 2)] := by decide +kernel
example : ¬ NVisible [some 0, some 1, some 2] [0, 1, 2] 0 2 := by
  rintro ⟨_, _, h⟩
  obtain ⟨xa, xb, xk, h1, h2, h3, h4⟩ := h 1 (by omega) (by omega)
  simp only [valAt, List.getElem?_cons_zero, List.getElem?_cons_succ, Option.join_some,
    Option.some.injEq] at h1 h2 h3
  subst h1 h2 h3
  revert h4
  simp [tAt]

/-- a valley: 0 and 2 see each other over the lower sample 1, in both graph types -/
example : kernelN [some 2, some 0, some 1] [0, 1, 2] none 3 = .ok [(0, 2), (0, 1), (1, 2)] := by
  decide +kernel
example : kernelH [some 2, some 0, some 1] 3 = .ok [(0, 2), (0, 1), (1, 2)] := by decide +kernel
/-- a plateau blocks horizontally: equal height is not strictly below -/
example : kernelH [some 1, some 1, some 1] 3 = .ok [(0, 1), (1, 2)] := by decide +kernel

/-- tied timings: `ZeroDivisionError` -/
example : kernelN [some 1, some 2, some 3] [0, 0, 1] none 3 = .error .zeroDiv := by decide +kernel

/-! ### the recorded defects, on the model of the code -/

/-- known finding C14-F1: without missing-value treatment the NaN sample 1 is linked
to its neighbours (`nvg_nomask_general`) -/
example : kernelN [some 1, none, some 2] [0, 1, 2] none 3 = .ok [(0, 1), (1, 2)] := by decide +kernel

/-- the horizontal kernel treats a NaN right end as +∞ (pair `(0, 3)`) and links
consecutive samples unconditionally … -/
example : kernelH [some 2, some 0, some 1, none] 4
    = .ok [(0, 2), (0, 3), (0, 1), (1, 2), (2, 3)] := by decide +kernel
/-- … `VisibilityGraph(horizontal=True, missing_values=True)` removes those links
(the `fix:` commit; before it the class returned the kernel's log) -/
example : classLog [some 2, some 0, some 1, none] none true true
    = .ok [(0, 2), (0, 1), (1, 2)] := by decide +kernel

/-- degrees and clustering of the valley `2, 0, 1` (a triangle) -/
example : let A := adjMat 3 [(0, 2), (0, 1), (1, 2)]
    (List.range 3).map (retDeg A) = [0, 1, 2] ∧ (List.range 3).map (advDeg A) = [2, 1, 0] ∧
    retClust A = [0, 0, 1] ∧ advClust A = [1, 0, 0] := by decide +kernel

/-! ## the class, composed -/

/-- **`VisibilityGraph(x, timings=t, missing_values=True)`** with as many strictly
increasing timings as samples: never fails, and `A[a,b]` (`a < b`) is set exactly when
`a` and `b` are naturally visible (missing samples block and stay isolated). -/
theorem class_nvg_iff (x : List Val) (t : List Rat) (ht : t.length = x.length)
    (inc : ∀ a b, a < b → b < x.length → tAt t a < tAt t b) :
    ∃ log, classLog x (some t) true false = .ok log ∧
      ∀ a b, (a, b) ∈ log ↔ a < b ∧ b < x.length ∧ NVisible x t a b := by
  rw [class_nvg_missing]
  exact nvg_mv_iff x t x.length
    ⟨Nat.le_refl _, by omega, by intro m hm; cases hm; simp [nanMask], inc⟩

/-- the same with the default timings `0, 1, 2, …`, for every series -/
theorem class_nvg_iff_default (x : List Val) :
    ∃ log, classLog x none true false = .ok log ∧
      ∀ a b, (a, b) ∈ log ↔ a < b ∧ b < x.length ∧ NVisible x (defaultTimings x.length) a b := by
  rw [class_default_timings, class_nvg_missing]
  exact nvg_mv_iff x _ x.length
    (defaultTimings_good x _ (by intro m hm; cases hm; simp [nanMask]))

/-- `missing_values=False` on a series without NaN -/
theorem class_nvg_iff_plain (x : List Val) (t : List Rat) (ht : t.length = x.length)
    (inc : ∀ a b, a < b → b < x.length → tAt t a < tAt t b)
    (hx : ∀ k, k < x.length → valAt x k ≠ none) :
    ∃ log, classLog x (some t) false false = .ok log ∧
      ∀ a b, (a, b) ∈ log ↔ a < b ∧ b < x.length ∧ NVisible x t a b := by
  rw [class_nvg_plain]
  exact nvg_iff x t x.length ⟨Nat.le_refl _, by omega, (by intro m hm; cases hm), inc⟩ hx

/-- `horizontal=True, missing_values=False` on a series without NaN -/
theorem class_hvg_iff_plain (x : List Val) (tm : Option (List Rat))
    (hx : ∀ k, k < x.length → valAt x k ≠ none) :
    ∃ log, classLog x tm false true = .ok log ∧
      ∀ a b, (a, b) ∈ log ↔ a < b ∧ b < x.length ∧ HVisible x a b := by
  obtain ⟨log, hlog, hmem⟩ := hvg_iff x x.length (Nat.le_refl _) hx
  refine ⟨log, ?_, hmem⟩
  simp only [classLog, Bool.not_true, Bool.false_eq_true, if_false, hlog, bind_ok]

example : ∃ log, classLog exX (some exT) true false = .ok log ∧
    ∀ a b, (a, b) ∈ log ↔ a < b ∧ b < 5 ∧ NVisible exX exT a b :=
  class_nvg_iff exX exT rfl
    (good_of_steps exX exT none 5 (by decide) (by decide) (by intro m h; cases h)
      (by decide +kernel)).inc

/-! # Round 2

## the adjacency matrix as state

The kernels of `numerics.pyx` store into the caller's matrix inside their loops.
`kernelNM` / `kernelHM` / `classMat` model exactly that (bounds-checked stores
interleaved with the loop conditions); the theorems below show that the write log used
by all statements above loses nothing. -/

/-- **natural kernels on `np.zeros((N, N))`**: the final matrix is the matrix of the write
log, and the kernel fails exactly when the log model fails, with the same error — for all
arguments (no store is ever out of bounds). -/
theorem nvg_matrix_is_log (x : List Val) (t : List Rat) (mv : Option (List Bool)) (N : Nat) :
    kernelNM x t mv N (zeros N)
      = (do let log ← kernelN x t mv N
            .ok (adjMat N log)) :=
  kernelNM_zeros x t mv N

/-- **horizontal kernel on `np.zeros((N, N))`** -/
theorem hvg_matrix_is_log (x : List Val) (N : Nat) :
    kernelHM x N (zeros N)
      = (do let log ← kernelH x N
            .ok (adjMat N log)) :=
  kernelHM_zeros x N

/-- **`VisibilityGraph.__init__`**: the adjacency matrix built by the constructor
(`np.zeros`, kernel, and for `horizontal, missing_values` the masked stores
`A[mv, :] = 0; A[:, mv] = 0`) is the matrix of `classLog`, for all arguments. -/
theorem class_matrix_is_log (x : List Val) (tm : Option (List Rat)) (missing horizontal : Bool) :
    classMat x tm missing horizontal
      = (do let log ← classLog x tm missing horizontal
            .ok (adjMat x.length log)) := by
  cases horizontal with
  | false =>
    simp only [classMat, classLog, Bool.not_false, if_true, kernelNM_zeros]
    cases tm <;> rfl
  | true =>
    simp only [classMat, classLog, Bool.not_true, Bool.false_eq_true, if_false, kernelHM_zeros]
    cases kernelH x x.length with
    | error e => rfl
    | ok log =>
      cases missing with
      | false => rfl
      | true => simp only [bind_ok, if_true, zeroRC_adjMat]

/-- **the adjacency matrix of `VisibilityGraph(x, timings=t, missing_values=True)`**:
`A[a, b]` is set exactly when the earlier of the two samples sees the later one. -/
theorem class_nvg_matrix_iff (x : List Val) (t : List Rat) (ht : t.length = x.length)
    (inc : ∀ a b, a < b → b < x.length → tAt t a < tAt t b) :
    ∃ A, classMat x (some t) true false = .ok A ∧
      ∀ a b, a < x.length → b < x.length →
        (Mat.at A a b = true ↔ (a < b ∧ NVisible x t a b) ∨ (b < a ∧ NVisible x t b a)) := by
  obtain ⟨log, hlog, hmem⟩ := class_nvg_iff x t ht inc
  refine ⟨adjMat x.length log, by rw [class_matrix_is_log, hlog]; rfl, ?_⟩
  intro a b ha hb
  rw [mat_adjMat _ _ a b ha hb, entry_iff, hmem, hmem]
  constructor
  · rintro (⟨h1, _, h3⟩ | ⟨h1, _, h3⟩)
    · exact Or.inl ⟨h1, h3⟩
    · exact Or.inr ⟨h1, h3⟩
  · rintro (⟨h1, h3⟩ | ⟨h1, h3⟩)
    · exact Or.inl ⟨h1, hb, h3⟩
    · exact Or.inr ⟨h1, ha, h3⟩

/-- **the adjacency matrix of `VisibilityGraph(x, horizontal=True, missing_values=True)`** -/
theorem class_hvg_matrix_iff (x : List Val) (tm : Option (List Rat)) :
    ∃ A, classMat x tm true true = .ok A ∧
      ∀ a b, a < x.length → b < x.length →
        (Mat.at A a b = true ↔ (a < b ∧ HVisible x a b) ∨ (b < a ∧ HVisible x b a)) := by
  obtain ⟨log, hlog, hmem⟩ := hvg_missing_iff x tm
  refine ⟨adjMat x.length log, by rw [class_matrix_is_log, hlog]; rfl, ?_⟩
  intro a b ha hb
  rw [mat_adjMat _ _ a b ha hb, entry_iff, hmem, hmem]
  constructor
  · rintro (⟨h1, _, h3⟩ | ⟨h1, _, h3⟩)
    · exact Or.inl ⟨h1, h3⟩
    · exact Or.inr ⟨h1, h3⟩
  · rintro (⟨h1, h3⟩ | ⟨h1, h3⟩)
    · exact Or.inl ⟨h1, hb, h3⟩
    · exact Or.inr ⟨h1, ha, h3⟩

example : classMat exX (some exT) true false
    = .ok (adjMat 5 [(0, 1), (3, 4)]) := by decide +kernel

/-! ## float32

`kernelNR rnd` is the natural kernel with both differences and the quotient rounded by
`rnd`, as the compiled code computes them in C `float`.  `Faithful rnd x t N` (decidable;
evaluated by the driver on every series of the exact correspondence, and by
`harness/c14.py:f32_exact` independently): seen from every left end `i`, a rounded divisor
vanishes only if the exact one does and two rounded slopes compare like the exact ones. -/

/-- **the float kernel is the exact kernel on order-faithful data**: same write log, or same
error; any rounding function, any mask, any timings (also tied ones). -/
theorem nvg_float32_eq_exact (rnd : Rat → Rat) (x : List Val) (t : List Rat)
    (mv : Option (List Bool)) (N : Nat) (lx : N ≤ x.length) (lt : N ≤ t.length)
    (hf : Faithful rnd x t N) : kernelNR rnd x t mv N = kernelN x t mv N :=
  kernelNR_eq rnd x t mv N lx lt hf

/-- hence the compiled natural kernel realises the geometric criterion on such data -/
theorem nvg_float32_iff (rnd : Rat → Rat) (x : List Val) (t : List Rat) (N : Nat)
    (g : Good x t (some (nanMask x)) N) (hf : Faithful rnd x t N) :
    ∃ log, kernelNR rnd x t (some (nanMask x)) N = .ok log ∧
      ∀ a b, (a, b) ∈ log ↔ a < b ∧ b < N ∧ NVisible x t a b := by
  rw [kernelNR_eq rnd x t _ N g.lx g.lt hf]
  exact nvg_mv_iff x t N g

/-- without rounding the rounded kernel *is* the exact kernel (sanity of the model) -/
theorem nvg_round_id (x : List Val) (t : List Rat) (mv : Option (List Bool)) (N : Nat)
    (lx : N ≤ x.length) (lt : N ≤ t.length) : kernelNR id x t mv N = kernelN x t mv N := by
  apply kernelNR_eq id x t mv N lx lt
  intro i _ k _ j _ _ _
  simp [faithfulAt, slopeValR, slopeValE]

example : Faithful rndF32 exX exT 5 := by decide +kernel
/-- the hypothesis is not void: slopes `2^24` and `2^24 + 1` collapse in float32, the
float kernel does not link `0 – 2`, the exact one does -/
example : ¬ Faithful rndF32 [some 0, some 16777216, some 33554434] [0, 1, 2] 3 := by
  decide +kernel
example : kernelNR rndF32 [some 0, some 16777216, some 33554434] [0, 1, 2] none 3
    = .ok [(0, 1), (1, 2)] := by decide +kernel
example : kernelN [some 0, some 16777216, some 33554434] [0, 1, 2] none 3
    = .ok [(0, 2), (0, 1), (1, 2)] := by decide +kernel

/-! ## time reversal exchanges the path-based and boundary-corrected measures -/

theorem mirrored_adjMat (N : Nat) (log log' : List (Nat × Nat))
    (hm : ∀ a b, a < N → b < N → entry log' a b = entry log (N - 1 - a) (N - 1 - b)) :
    Mirrored N (adjMat N log) (adjMat N log') := by
  intro i j hi hj
  rw [mat_adjMat N log' i j hi hj, mat_adjMat N log _ _ (by omega) (by omega)]
  exact hm i j hi hj

/-- `path_lengths[0, :0].mean()` is the mean of an empty slice: NaN -/
theorem retClose_zero (N : Nat) (A : List (List Bool)) : retClose N A 0 = none := by
  simp [retClose, closeOf]

theorem advClose_last (N : Nat) (A : List (List Bool)) (hN : 0 < N) :
    advClose N A (N - 1) = none := by
  have e : N - (N - 1 + 1) = 0 := by omega
  simp [advClose, closeOf, e]

/-- a path length `0` is the node itself: the sums in the closeness are positive -/
theorem pathLen_zero_iff (N : Nat) (A : List (List Bool)) (i j : Nat) (hi : i < N) (hj : j < N) :
    pathLen N A i j = some 0 ↔ j = i := by
  have h0 : (lvl N A i 0).getD j false = (j == i) := by
    simp only [lvl, lvl0]; exact getD_map_range N _ j hj
  constructor
  · intro h
    have := List.find?_some h
    rw [h0] at this
    exact beq_iff_eq.mp this
  · intro h
    subst h
    simp only [pathLen]
    have hr : List.range N = 0 :: (List.range' 1 (N - 1)) := by
      cases N with
      | zero => omega
      | succ n => rw [List.range_eq_range', List.range'_succ]; simp
    rw [hr, List.find?_cons, h0]
    simp

/-- **retarded ↔ advanced closeness** under time reversal, for any two mirrored logs:
`retarded_closeness` of the reversed series is the reversed `advanced_closeness` of the
original one and vice versa (NaN at the first / last sample included). -/
theorem reverse_exchanges_closeness (N : Nat) (log log' : List (Nat × Nat))
    (hm : ∀ a b, a < N → b < N → entry log' a b = entry log (N - 1 - a) (N - 1 - b))
    (a : Nat) (ha : a < N) :
    retClose N (adjMat N log') a = advClose N (adjMat N log) (N - 1 - a) ∧
    advClose N (adjMat N log') a = retClose N (adjMat N log) (N - 1 - a) :=
  ⟨retClose_mirror N _ _ (mirrored_adjMat N log log' hm) a ha,
   advClose_mirror N _ _ (mirrored_adjMat N log log' hm) a ha⟩

theorem adjMat_length (N : Nat) (l : List (Nat × Nat)) : (adjMat N l).length = N := by
  simp [adjMat]

/-- **`boundary_corrected_degree`** of the reversed series is the reversed array -/
theorem reverse_mirrors_boundary_corrected_degree (N : Nat) (log log' : List (Nat × Nat))
    (hm : ∀ a b, a < N → b < N → entry log' a b = entry log (N - 1 - a) (N - 1 - b))
    (hlt : ∀ a b, (a, b) ∈ log → a < b) (hlt' : ∀ a b, (a, b) ∈ log' → a < b) :
    bcDegree (adjMat N log') = (bcDegree (adjMat N log)).reverse := by
  simp only [bcDegree, adjMat_length]
  rw [← map_range_rev]
  apply List.map_congr_left
  intro a ha
  rw [List.mem_range] at ha
  obtain ⟨h1, h2⟩ := reverse_exchanges_degrees N log log' hm hlt hlt' a ha
  have e : N - 1 - (N - 1 - a) = a := by omega
  rw [h1, h2, e, add_comm]

theorem vadd_comm (a b : Option Rat) : vadd a b = vadd b a := by
  cases a <;> cases b <;> simp [vadd, add_comm]

/-- **`boundary_corrected_closeness`** of the reversed series is the reversed array -/
theorem reverse_mirrors_boundary_corrected_closeness (N : Nat) (log log' : List (Nat × Nat))
    (hm : ∀ a b, a < N → b < N → entry log' a b = entry log (N - 1 - a) (N - 1 - b)) :
    bcCloseness (adjMat N log') = (bcCloseness (adjMat N log)).reverse := by
  simp only [bcCloseness, adjMat_length]
  rw [← map_range_rev]
  apply List.map_congr_left
  intro a ha
  rw [List.mem_range] at ha
  obtain ⟨h1, h2⟩ := reverse_exchanges_closeness N log log' hm a ha
  have e : N - 1 - (N - 1 - a) = a := by omega
  rw [h1, h2, e, vadd_comm]

/-! ## time reversal, composed for the class -/

/-- **`VisibilityGraph(x, t, missing_values=True)` and the time-reversed series**
(`x` read backwards at times `c - t`): neither constructor fails, the adjacency matrices are
mirror images, and every retarded measure of one is the advanced measure of the other —
degree, local clustering, closeness — while the boundary-corrected degree and closeness are
mirrored. -/
theorem class_reverse_exchanges_nvg (x : List Val) (t : List Rat) (c : Rat)
    (ht : t.length = x.length) (inc : ∀ a b, a < b → b < x.length → tAt t a < tAt t b) :
    ∃ log log', classLog x (some t) true false = .ok log ∧
      classLog x.reverse (some (revT c t)) true false = .ok log' ∧
      let N := x.length
      let A := adjMat N log
      let A' := adjMat N log'
      (∀ a b, a < N → b < N → Mat.at A' a b = Mat.at A (N - 1 - a) (N - 1 - b)) ∧
      (∀ a, a < N → retDeg A' a = advDeg A (N - 1 - a) ∧ advDeg A' a = retDeg A (N - 1 - a)) ∧
      retClust A' = (advClust A).reverse ∧ advClust A' = (retClust A).reverse ∧
      (∀ a, a < N → retClose N A' a = advClose N A (N - 1 - a) ∧
        advClose N A' a = retClose N A (N - 1 - a)) ∧
      bcDegree A' = (bcDegree A).reverse ∧ bcCloseness A' = (bcCloseness A).reverse := by
  have g : Good x t (some (nanMask x)) x.length :=
    ⟨Nat.le_refl _, by omega, by intro m hm; cases hm; simp [nanMask], inc⟩
  obtain ⟨log, log', h1, h2, hm⟩ := reverse_mirrors_nvg_mv x t c x.length rfl ht g
  have g' : Good x.reverse (revT c t) (some (nanMask x.reverse)) x.length :=
    good_reverse x t c x.length _ _ rfl ht g (by intro m hm; cases hm; simp [nanMask])
  have hlt : ∀ a b, (a, b) ∈ log → a < b := fun a b h =>
    (kernelN_log_lt x t _ _ g log h1 a b h).1
  have hlt' : ∀ a b, (a, b) ∈ log' → a < b := fun a b h =>
    (kernelN_log_lt _ _ _ _ g' log' h2 a b h).1
  refine ⟨log, log', by rw [class_nvg_missing]; exact h1,
    by rw [class_nvg_missing, List.length_reverse]; exact h2, ?_⟩
  exact ⟨mirrored_adjMat _ log log' hm,
    fun a ha => reverse_exchanges_degrees _ log log' hm hlt hlt' a ha,
    (reverse_exchanges_clustering _ log log' hm hlt hlt').1,
    (reverse_exchanges_clustering _ log log' hm hlt hlt').2,
    fun a ha => reverse_exchanges_closeness _ log log' hm a ha,
    reverse_mirrors_boundary_corrected_degree _ log log' hm hlt hlt',
    reverse_mirrors_boundary_corrected_closeness _ log log' hm⟩

theorem classLog_hvg_lt (x : List Val) (tm : Option (List Rat)) (log : List (Nat × Nat))
    (h : classLog x tm true true = .ok log) (a b : Nat) (hab : (a, b) ∈ log) : a < b := by
  obtain ⟨log', h', hmem⟩ := hvg_missing_iff x tm
  rw [h] at h'
  cases h'
  exact ((hmem a b).mp hab).1

/-- **the same for `VisibilityGraph(x, horizontal=True, missing_values=True)`**, any series,
any timings -/
theorem class_reverse_exchanges_hvg (x : List Val) (tm tm' : Option (List Rat)) :
    ∃ log log', classLog x tm true true = .ok log ∧
      classLog x.reverse tm' true true = .ok log' ∧
      let N := x.length
      let A := adjMat N log
      let A' := adjMat N log'
      (∀ a b, a < N → b < N → Mat.at A' a b = Mat.at A (N - 1 - a) (N - 1 - b)) ∧
      (∀ a, a < N → retDeg A' a = advDeg A (N - 1 - a) ∧ advDeg A' a = retDeg A (N - 1 - a)) ∧
      retClust A' = (advClust A).reverse ∧ advClust A' = (retClust A).reverse ∧
      (∀ a, a < N → retClose N A' a = advClose N A (N - 1 - a) ∧
        advClose N A' a = retClose N A (N - 1 - a)) ∧
      bcDegree A' = (bcDegree A).reverse ∧ bcCloseness A' = (bcCloseness A).reverse := by
  obtain ⟨log, log', h1, h2, hm⟩ := reverse_mirrors_hvg x tm tm'
  have hlt := classLog_hvg_lt x tm log h1
  have hlt' := classLog_hvg_lt x.reverse tm' log' h2
  refine ⟨log, log', h1, h2, ?_⟩
  exact ⟨mirrored_adjMat _ log log' hm,
    fun a ha => reverse_exchanges_degrees _ log log' hm hlt hlt' a ha,
    (reverse_exchanges_clustering _ log log' hm hlt hlt').1,
    (reverse_exchanges_clustering _ log log' hm hlt hlt').2,
    fun a ha => reverse_exchanges_closeness _ log log' hm a ha,
    reverse_mirrors_boundary_corrected_degree _ log log' hm hlt hlt',
    reverse_mirrors_boundary_corrected_closeness _ log log' hm⟩

/-- **natural graph without missing-value treatment, any series** (NaN allowed): what the
code computes (`nvg_nomask_general`: far pairs by the criterion, consecutive samples always
linked) is still mirrored by time reversal — finding C14-F1 does not break the mirror clause. -/
theorem reverse_mirrors_nvg_nomask_general (x : List Val) (t : List Rat) (c : Rat) (N : Nat)
    (hx : x.length = N) (ht : t.length = N) (g : Good x t none N) :
    ∃ log log', kernelN x t none N = .ok log ∧
      kernelN x.reverse (revT c t) none N = .ok log' ∧
      ∀ a b, a < N → b < N → entry log' a b = entry log (N - 1 - a) (N - 1 - b) := by
  obtain ⟨log, hlog, hmem⟩ := nvg_nomask_general x t N g
  have g' : Good x.reverse (revT c t) none N :=
    good_reverse x t c N _ _ hx ht g (by intro m hm; cases hm)
  obtain ⟨log', hlog', hmem'⟩ := nvg_nomask_general x.reverse (revT c t) N g'
  refine ⟨log, log', hlog, hlog', mirror_of_iff N log log' _ _ hmem hmem' ?_⟩
  intro a b hab hb
  have := nvisible_reverse x t c N a b hx ht hab hb (g.inc a b hab hb)
  constructor
  · rintro (h | h)
    · exact Or.inl (by omega)
    · exact Or.inr (this.mp h)
  · rintro (h | h)
    · exact Or.inl (by omega)
    · exact Or.inr (this.mpr h)

/-- closeness of the path `0 – 1 – 2 – 3`; node 3 of the second graph is isolated -/
example : (List.range 4).map (retClose 4 (adjMat 4 [(0, 1), (1, 2), (2, 3)]))
    = [none, some 1, some (2 / 3), some (1 / 2)] := by decide +kernel
example : (List.range 4).map (advClose 4 (adjMat 4 [(0, 1), (1, 2)]))
    = [some 0, some 0, some 0, none] := by decide +kernel

/-! ## what `pathLen` (the specification of `Network.path_lengths`) means -/

/-- **`pathLen` is the least number of links of a walk** between two nodes: `some d` — a walk
of `d` links exists and none with fewer; `none` (`inf`) — no walk with fewer than `N` links. -/
theorem path_lengths_are_least_walk_lengths (N : Nat) (A : List (List Bool)) (i j : Nat)
    (hi : i < N) (hj : j < N) :
    (∀ d, pathLen N A i j = some d →
      d < N ∧ ReachLe N A i j d ∧ ∀ k, k < d → ¬ ReachLe N A i j k) ∧
    (pathLen N A i j = none → ∀ k, k < N → ¬ ReachLe N A i j k) :=
  pathLen_spec N A i j hi hj

example : ReachLe 4 (adjMat 4 [(0, 1), (1, 2)]) 0 2 2 :=
  .step 1 2 1 (.step 0 1 0 (.here 0 (by decide)) (by decide) (by decide +kernel)) (by decide)
    (by decide +kernel)

/-! ## slice bounds and normalisations regenerated from `visibility_graph.py`

`translate/arith_C14.json` → `Pyunicorn.Generated.ArithC14` (rewritten from the current
source on every run): the bounds of `A[i, :i]`, `A[i, i:]`, `path_lengths[i, :i]`,
`path_lengths[i, i+1:]`, `float(self.N - 1)` and both `norm = d * (d - 1) / 2.`.  The
theorem states that the model's measures are built with exactly these expressions. -/

theorem model_uses_source_expressions (N : Nat) (A : List (List Bool)) (i d : Nat) :
    retDeg A i = ((A.getD i []).take (Generated.ArithC14.retDegSliceStop (i : Int)).toNat).count true ∧
    advDeg A i = ((A.getD i []).drop (Generated.ArithC14.advDegSliceStart (i : Int)).toNat).count true ∧
    retClose N A i
      = closeOf ((List.range (Generated.ArithC14.retSliceStop (i : Int)).toNat).map (pathLen N A i)) ∧
    advClose N A i
      = closeOf ((List.range' (Generated.ArithC14.advSliceStart (i : Int)).toNat
          (N - (Generated.ArithC14.advSliceStart (i : Int)).toNat)).map (pathLen N A i)) ∧
    pairNorm d = Generated.ArithC14.retNorm (d : Rat) ∧ pairNorm d = Generated.ArithC14.advNorm (d : Rat) ∧
    (1 ≤ N → (((N - 1 : Nat) : Int) : Rat) = ((Generated.ArithC14.bcDen (N : Int) : Int) : Rat)) := by
  have e : ((i : Int) + 1).toNat = i + 1 := by omega
  refine ⟨by simp [retDeg, Generated.ArithC14.retDegSliceStop], by simp [advDeg, Generated.ArithC14.advDegSliceStart],
    by simp [retClose, Generated.ArithC14.retSliceStop], by simp [advClose, Generated.ArithC14.advSliceStart, e],
    by simp [pairNorm, Generated.ArithC14.retNorm], by simp [pairNorm, Generated.ArithC14.advNorm], ?_⟩
  intro h
  simp only [Generated.ArithC14.bcDen]
  congr 1
  omega

/-! # Round 3

1. `retarded_betweenness`, `advanced_betweenness`, `trans_betweenness`: the code is modelled
   by C03's kernel model (`retBetw`, `advBetw`, `transBetw` in `Model/VisibilityBetw.lean`);
   the theorems are about the pair-dependency *definition* `betwSpec` (shortest-path counts
   `sigma` = walks with `pathLen` links).  The driver evaluates both and the harness compares
   both with the implementation on every case (round 3: kernel model = definition was not
   proved, only checked per case; **round 5b: proved** for every symmetric matrix with C03's
   kernel theorem — `betweenness_kernel_eq_count`, `visibility_betweenness_kernel_eq_count`,
   section "Round 5b" at the end of this file; right-hand side = the count over enumerated
   shortest paths; **round 5c: kernel model = `betwSpec`** — `betweenness_kernel_eq_spec`, so the
   theorems below hold for the kernel model itself: `betweenness_kernel_reversal`).
2. the float kernel under a monotone rounding with exact differences is a subgraph of the
   exact graph; the horizontal graph depends only on the order of the samples.
3. loop bounds of the five Cython kernels and the index arrays of the three betweenness
   methods regenerated from the source. -/

theorem symM_adjMat (N : Nat) (log : List (Nat × Nat)) : SymM N (adjMat N log) := by
  intro i j hi hj
  rw [mat_adjMat N log i j hi hj, mat_adjMat N log j i hj hi, entry_symm]

/-- **retarded ↔ advanced betweenness, trans-betweenness mirrored** under time reversal, for
any two mirrored logs: with respect to the pair-dependency definition, the retarded
betweenness of the reversed series is the reversed advanced betweenness of the original
one and vice versa, and `trans_betweenness` (sources in the past, targets in the future —
roles exchanged by the mirror, equal because the matrix is symmetric) is mirrored. -/
theorem reverse_exchanges_betweenness (N : Nat) (log log' : List (Nat × Nat))
    (hm : ∀ a b, a < N → b < N → entry log' a b = entry log (N - 1 - a) (N - 1 - b))
    (a : Nat) (ha : a < N) :
    retBetwSpec N (adjMat N log') a = advBetwSpec N (adjMat N log) (N - 1 - a) ∧
    advBetwSpec N (adjMat N log') a = retBetwSpec N (adjMat N log) (N - 1 - a) ∧
    transBetwSpec N (adjMat N log') a = transBetwSpec N (adjMat N log) (N - 1 - a) :=
  ⟨retBetwSpec_mirror N _ _ (mirrored_adjMat N log log' hm) a ha,
   advBetwSpec_mirror N _ _ (mirrored_adjMat N log log' hm) a ha,
   transBetwSpec_mirror_symm N _ _ (mirrored_adjMat N log log' hm) (symM_adjMat N log) a ha⟩

/-- composed for `VisibilityGraph(x, t, missing_values=True)` and its time reversal -/
theorem class_reverse_exchanges_betweenness_nvg (x : List Val) (t : List Rat) (c : Rat)
    (ht : t.length = x.length) (inc : ∀ a b, a < b → b < x.length → tAt t a < tAt t b) :
    ∃ log log', classLog x (some t) true false = .ok log ∧
      classLog x.reverse (some (revT c t)) true false = .ok log' ∧
      let N := x.length
      let A := adjMat N log
      let A' := adjMat N log'
      ∀ a, a < N → retBetwSpec N A' a = advBetwSpec N A (N - 1 - a) ∧
        advBetwSpec N A' a = retBetwSpec N A (N - 1 - a) ∧
        transBetwSpec N A' a = transBetwSpec N A (N - 1 - a) := by
  have g : Good x t (some (nanMask x)) x.length :=
    ⟨Nat.le_refl _, by omega, by intro m hm; cases hm; simp [nanMask], inc⟩
  obtain ⟨log, log', h1, h2, hm⟩ := reverse_mirrors_nvg_mv x t c x.length rfl ht g
  exact ⟨log, log', by rw [class_nvg_missing]; exact h1,
    by rw [class_nvg_missing, List.length_reverse]; exact h2,
    fun a ha => reverse_exchanges_betweenness _ log log' hm a ha⟩

/-- the same for `VisibilityGraph(x, horizontal=True, missing_values=True)` -/
theorem class_reverse_exchanges_betweenness_hvg (x : List Val) (tm tm' : Option (List Rat)) :
    ∃ log log', classLog x tm true true = .ok log ∧
      classLog x.reverse tm' true true = .ok log' ∧
      let N := x.length
      let A := adjMat N log
      let A' := adjMat N log'
      ∀ a, a < N → retBetwSpec N A' a = advBetwSpec N A (N - 1 - a) ∧
        advBetwSpec N A' a = retBetwSpec N A (N - 1 - a) ∧
        transBetwSpec N A' a = transBetwSpec N A (N - 1 - a) := by
  obtain ⟨log, log', h1, h2, hm⟩ := reverse_mirrors_hvg x tm tm'
  exact ⟨log, log', h1, h2, fun a ha => reverse_exchanges_betweenness _ log log' hm a ha⟩

/-- the first sample has no past, the last no future: all three measures vanish there
(definition), and `trans_betweenness` vanishes at both ends -/
theorem betweenness_at_the_ends (N : Nat) (A : List (List Bool)) (hN : 0 < N) :
    retBetwSpec N A 0 = 0 ∧ advBetwSpec N A (N - 1) = 0 ∧
    transBetwSpec N A 0 = 0 ∧ transBetwSpec N A (N - 1) = 0 := by
  have e : N - (N - 1 + 1) = 0 := by omega
  refine ⟨by simp [retBetwSpec, betwSpec, pastIdx], by simp [advBetwSpec, betwSpec, futureIdx, e],
    by simp [transBetwSpec, betwSpec, pastIdx], by simp [transBetwSpec, betwSpec, futureIdx, e]⟩

/-- shortest-path counts and pair dependencies do not depend on the direction on a symmetric
matrix (used for `trans_betweenness`; also: what the model calls `sigma` is symmetric, as the
number of shortest paths must be) -/
theorem pair_dependency_symmetric (N : Nat) (log : List (Nat × Nat)) (t s l : Nat)
    (ht : t < N) (hs : s < N) (hl : l < N) :
    sigma N (adjMat N log) t s = sigma N (adjMat N log) s t ∧
    pairDep N (adjMat N log) t s l = pairDep N (adjMat N log) s t l :=
  ⟨sigma_symm N _ (symM_adjMat N log) t s ht hs,
   pairDep_symm N _ (symM_adjMat N log) t s l ht hs hl⟩

/-! ## float arithmetic -/

/-- **the float kernel never invents a link**: for every *monotone* rounding `rnd` that is
exact on the differences `x[k] - x[i]`, `t[k] - t[i]` the kernels form (`ExactDiffs`, decided by
the driver for the data of the correspondence), any mask and increasing timings, both the
rounded and the exact natural kernel succeed and every pair written by the rounded kernel is
written by the exact one (`rnd s_k < rnd s_j ⇒ s_k < s_j`).  The converse fails (example below):
two distinct slopes may round to the same float. -/
theorem nvg_float_subgraph (rnd : Rat → Rat) (hmono : MonoRnd rnd) (x : List Val) (t : List Rat)
    (mv : Option (List Bool)) (N : Nat) (g : Good x t mv N) (hex : ExactDiffs rnd x t N) :
    ∃ logR logE, kernelNR rnd x t mv N = .ok logR ∧ kernelN x t mv N = .ok logE ∧
      ∀ p, p ∈ logR → p ∈ logE :=
  kernelNR_subgraph rnd hmono x t mv N g hex

/-- hence every link of the float kernel joins two mutually visible samples -/
theorem nvg_float_links_are_visible (rnd : Rat → Rat) (hmono : MonoRnd rnd) (x : List Val)
    (t : List Rat) (N : Nat) (g : Good x t (some (nanMask x)) N) (hex : ExactDiffs rnd x t N) :
    ∃ logR, kernelNR rnd x t (some (nanMask x)) N = .ok logR ∧
      ∀ a b, (a, b) ∈ logR → a < b ∧ b < N ∧ NVisible x t a b := by
  obtain ⟨logR, logE, h1, h2, h3⟩ := kernelNR_subgraph rnd hmono x t _ N g hex
  obtain ⟨log, h4, h5⟩ := nvg_mv_iff x t N g
  rw [h2] at h4
  cases h4
  exact ⟨logR, h1, fun a b hab => (h5 a b).mp (h3 _ hab)⟩

/-- **the horizontal kernel depends only on the order of the samples**: any map of the
values that preserves the comparisons between the samples of the series (`OrdOn`,
decidable) — every strictly increasing map, in particular every positive affine map, and the
float64 → float32 conversion of the constructor as long as it keeps distinct samples
apart — leaves the result of the kernel and of the constructor unchanged (same log or same
error, both settings of `missing_values`). -/
theorem hvg_order_invariant (f : Rat → Rat) (x : List Val) (h : OrdOn f x) (N : Nat)
    (tm : Option (List Rat)) (missing : Bool) :
    kernelH (x.map (Option.map f)) N = kernelH x N ∧
    classLog (x.map (Option.map f)) tm missing true = classLog x tm missing true :=
  ⟨kernelH_ordOn f x h N, classLog_hvg_ordOn f x h tm missing⟩

theorem hvg_strictMono_invariant (f : Rat → Rat) (hf : ∀ a b, f a < f b ↔ a < b) (x : List Val)
    (N : Nat) : kernelH (x.map (Option.map f)) N = kernelH x N :=
  kernelH_ordOn f x (ordOn_of_strictMono f hf x) N

/-! non-vacuity: `Rat.floor` as a rounding (monotone, exact on integer differences): the
hypotheses of `nvg_float_subgraph` hold on integer data, the float graph is a *proper*
subgraph (slopes 0 and 1/2 both round to 0). -/
def rndFloor (q : Rat) : Rat := (q.floor : Rat)

theorem rndFloor_mono : MonoRnd rndFloor := by
  intro a b h
  simp only [rndFloor]
  have : a.floor ≤ b.floor := by
    rw [Rat.le_floor_iff]; exact le_trans (Rat.floor_le a) h
  exact_mod_cast this

example : ExactDiffs rndFloor [some 0, some 0, some 1] [0, 1, 2] 3 := by decide +kernel
example : kernelNR rndFloor [some 0, some 0, some 1] [0, 1, 2] none 3 = .ok [(0, 1), (1, 2)] := by
  decide +kernel
example : kernelN [some 0, some 0, some 1] [0, 1, 2] none 3 = .ok [(0, 2), (0, 1), (1, 2)] := by
  decide +kernel
/-- a cube is strictly increasing but not affine -/
example : OrdOn (fun r => r * r * r) [some 1, none, some (-2), some 1] := by decide +kernel
example : retBetwSpec 5 (adjMat 5 [(0, 1), (1, 2), (2, 3), (3, 4)]) 4 = 0 := by decide +kernel
example : transBetwSpec 3 (adjMat 3 [(0, 1), (1, 2)]) 1 = 1 := by decide +kernel
example : retBetw 3 (adjMat 3 [(0, 1), (1, 2)]) 2 = 0 ∧ transBetw 3 (adjMat 3 [(0, 1), (1, 2)]) 1 = 1 := by
  decide +kernel

/-! ## towards "`rndF32` is IEEE rounding": the integer rounding step

`rndF32 q = roundEven (|q| / 2^e) · 2^e` with `e = max(⌊log₂|q|⌋ - 23, -149)`.  Proved here: the
integer step is round-to-nearest (error ≤ 1/2), fixes integers and is monotone.  Still open:
`floorLog2` is the floor of the binary logarithm, and monotonicity across exponent boundaries. -/

theorem roundEven_nearest (m : Rat) :
    ((roundEven m : Int) : Rat) - m ≤ 1 / 2 ∧ m - ((roundEven m : Int) : Rat) ≤ 1 / 2 := by
  have h1 := Rat.floor_le m
  have h2 : m < (m.floor : Rat) + 1 := by
    have := Rat.lt_floor_add_one m; push_cast at this; exact this
  simp only [roundEven]
  split
  · constructor <;> linarith
  · split
    · push_cast; constructor <;> linarith
    · split
      · constructor <;> linarith
      · push_cast; constructor <;> linarith

theorem roundEven_int (z : Int) : roundEven (z : Rat) = z := by
  simp [roundEven, Rat.floor_intCast]

theorem roundEven_mono (a b : Rat) (h : a ≤ b) : roundEven a ≤ roundEven b := by
  have hf : a.floor ≤ b.floor := by
    rw [Rat.le_floor_iff]; exact le_trans (Rat.floor_le a) h
  rcases lt_or_eq_of_le hf with hlt | heq
  · have h1 : roundEven a ≤ a.floor + 1 := by simp only [roundEven]; split_ifs <;> omega
    have h2 : b.floor ≤ roundEven b := by simp only [roundEven]; split_ifs <;> omega
    omega
  · have hr : a - (b.floor : Rat) ≤ b - (b.floor : Rat) := by linarith
    simp only [roundEven, heq]
    split_ifs <;> first | omega | (exfalso; linarith)

example : roundEven (5 / 2) = 2 ∧ roundEven (7 / 2) = 4 ∧ roundEven (-5 / 2) = -2 := by decide +kernel
example : rndF32 (1 / 3) = 11184811 / 33554432 := by decide +kernel

/-! ## loop bounds of the Cython kernels and index arrays of the betweenness methods,
regenerated from `numerics.pyx` / `visibility_graph.py` (`translate/arith_C14.json`) -/

/-- `for i in range(outer(N)): for j in range(lo(i), hi(N))` -/
def pairsOf (outer lo hi : Int → Int) (N : Nat) : List (Nat × Nat) :=
  (List.range (outer (N : Int)).toNat).flatMap fun (i : Nat) =>
    (List.range' (lo (i : Int)).toNat ((hi (N : Int)).toNat - (lo (i : Int)).toNat)).map
      fun (j : Nat) => (i, j)

section
open Generated.ArithC14
/-- the model's loops are the source's loops: far pairs, consecutive pairs and the start of
the inner `while` of the three visibility kernels; the pair loops of the two clustering kernels
(outer loop `range(N)` / `range(N-2)`); `np.arange(i)`, `np.arange(i+1, self.N)` of the three
betweenness methods -/
theorem kernel_loops_use_source_expressions (N i : Nat) :
    farPairs N = pairsOf nvgmvOuter nvgmvInnerLo nvgmvInnerHi N ∧
    farPairs N = pairsOf nvgOuter nvgInnerLo nvgInnerHi N ∧
    farPairs N = pairsOf hvgOuter hvgInnerLo hvgInnerHi N ∧
    adjPairs N = (List.range (nvgmvAdjStop N).toNat).map (fun i => (i, i + 1)) ∧
    adjPairs N = (List.range (nvgAdjStop N).toNat).map (fun i => (i, i + 1)) ∧
    adjPairs N = (List.range (hvgAdjStop N).toNat).map (fun i => (i, i + 1)) ∧
    (nvgmvScanStart i).toNat = i + 1 ∧ (nvgScanStart i).toNat = i + 1 ∧
    (hvgScanStart i).toNat = i + 1 ∧
    retPairs i = (List.range (retcJStop i).toNat).flatMap
      (fun (j : Nat) => (List.range (retcKStop j).toNat).map fun (k : Nat) => (j, k)) ∧
    advPairs N i = (List.range' (advcJLo i).toNat ((advcJHi N).toNat - (advcJLo i).toNat)).flatMap
      (fun (j : Nat) => (List.range' (advcKLo i).toNat ((advcKHi j).toNat - (advcKLo i).toNat)).map
        fun (k : Nat) => (j, k)) ∧
    (retcOuter N).toNat = N ∧ (advcOuter N).toNat = N - 2 ∧
    pastIdx i = List.range (rbPastStop i).toNat ∧
    futureIdx N i = List.range' (abFutStart i).toNat ((abFutStop N).toNat - (abFutStart i).toNat) ∧
    pastIdx i = List.range (tbPastStop i).toNat ∧
    futureIdx N i = List.range' (tbFutStart i).toNat ((tbFutStop N).toNat - (tbFutStart i).toNat) := by
  have e1 : ((N : Int) - 2).toNat = N - 2 := by omega
  have e2 : ∀ k : Nat, ((k : Int) + 2).toNat = k + 2 := by intro k; omega
  have e3 : ∀ k : Nat, ((k : Int) + 1).toNat = k + 1 := by intro k; omega
  have e4 : ((N : Int) - 1).toNat = N - 1 := by omega
  simp only [farPairs, adjPairs, retPairs, advPairs, pastIdx, futureIdx, pairsOf,
    nvgmvOuter, nvgmvInnerLo, nvgmvInnerHi, nvgOuter, nvgInnerLo, nvgInnerHi, hvgOuter, hvgInnerLo,
    hvgInnerHi, nvgmvAdjStop, nvgAdjStop, hvgAdjStop, nvgmvScanStart, nvgScanStart, hvgScanStart,
    retcJStop, retcKStop, advcJLo, advcJHi, advcKLo, advcKHi, retcOuter, advcOuter, rbPastStop,
    abFutStart, abFutStop, tbPastStop, tbFutStart, tbFutStop, e1, e2, e3, e4, Int.toNat_natCast,
    and_self]
end

/-! # Round 4

1. **`rndF32` is binary32 round-to-nearest-even** (no overflow): `floorLog2` is the floor of the
   binary logarithm, the result is a binary32 number, no binary32 number is closer, ties go to
   the even significand, binary32 numbers are fixed points, the function is odd and
   **monotone** (also across exponent boundaries and into the subnormal range).  Hence
   `nvg_float_subgraph` applies to the model's own rounding: `nvg_f32_subgraph`,
   `nvg_f32_links_are_visible`, and for integer series on the default timings without any
   hypothesis on the arithmetic (`nvg_f32_integer_series`).
2. **`pathLen` is a breadth-first search**: the specification used by the closeness /
   betweenness theorems equals `Net.dist`, C03's model of `Network.path_lengths()`
   (frontier BFS with early exit; C03's lemmas imported). -/

/-- `floorLog2 p q = ⌊log₂ (p / q)⌋` -/
theorem floorLog2_is_floor_log2 (p q : Nat) (hp : 0 < p) (hq : 0 < q) :
    pow2 (floorLog2 p q) ≤ (p : Rat) / (q : Rat) ∧ (p : Rat) / (q : Rat) < pow2 (floorLog2 p q + 1) ∧
      ∀ e : Int, pow2 e = (2 : Rat) ^ e :=
  ⟨(floorLog2_spec p q hp hq).1, (floorLog2_spec p q hp hq).2, pow2_eq_zpow⟩

/-- the exponent `rndF32` selects: `2^(e+23) ≤ |q| < 2^(e+24)` in the normal range, `e = -149`
below it -/
theorem rndF32_exponent (q : Rat) (h : 0 < q) :
    pow2 (lg q) ≤ q ∧ q < pow2 (lg q + 1) ∧ expOf q = max (lg q - 23) (-149) ∧
      rndF32 q = ((roundEven (q / pow2 (expOf q)) : Int) : Rat) * pow2 (expOf q) := by
  refine ⟨(lg_spec q h).1, (lg_spec q h).2, ?_, rndF32_pos q h⟩
  unfold expOf; split <;> omega

/-- no integer is closer than `roundEven m`, and a tie is resolved to the even integer -/
theorem roundEven_nearest_integer_ties_to_even (m : Rat) :
    (∀ z : Int, |((roundEven m : Int) : Rat) - m| ≤ |(z : Rat) - m|) ∧
      (m - (m.floor : Rat) = 1 / 2 → roundEven m % 2 = 0) :=
  ⟨roundEven_nearest_int m, roundEven_tie m⟩

/-- `rndF32` is odd: the sign is handled separately, as in IEEE 754 -/
theorem rndF32_odd (q : Rat) : rndF32 (-q) = -rndF32 q := rndF32_neg q

/-- **the value of `rndF32` is a binary32 number** (`m · 2^e`, `|m| < 2^24`, `e ≥ -149`;
the overflow threshold is outside the model) -/
theorem rndF32_is_binary32 (q : Rat) : IsF32 (rndF32 q) := rndF32_isF32 q

/-- **round to nearest**: no binary32 number is closer to `q` than `rndF32 q` -/
theorem rndF32_nearest (q f : Rat) (hf : IsF32 f) : |rndF32 q - q| ≤ |f - q| :=
  rndF32_nearest' q f hf

/-- binary32 numbers are fixed points (the conversion of float32 caller data is exact) -/
theorem rndF32_fixes_binary32 (f : Rat) (hf : IsF32 f) : rndF32 f = f := rndF32_fix f hf

/-- error at most half a unit in the last place; relative error `2^-24` in the normal range -/
theorem rndF32_error (q : Rat) (h : 0 < q) :
    |rndF32 q - q| ≤ pow2 (expOf q) / 2 ∧ (-126 ≤ lg q → |rndF32 q - q| ≤ q / 2 ^ 24) :=
  ⟨rndF32_half_ulp q h, rndF32_rel q h⟩

/-- **`rndF32` is monotone**, across exponent boundaries and through the subnormal range -/
theorem rndF32_monotone : MonoRnd rndF32 := rndF32_monoRnd

/-- **the float kernel of the model never invents a link** — `nvg_float_subgraph` for the
model's own binary32 rounding, no hypothesis on the rounding left -/
theorem nvg_f32_subgraph (x : List Val) (t : List Rat) (mv : Option (List Bool)) (N : Nat)
    (g : Good x t mv N) (hex : ExactDiffs rndF32 x t N) :
    ∃ logR logE, kernelNR rndF32 x t mv N = .ok logR ∧ kernelN x t mv N = .ok logE ∧
      ∀ p, p ∈ logR → p ∈ logE :=
  kernelNR_subgraph rndF32 rndF32_monoRnd x t mv N g hex

/-- the same with the hypothesis in terms of the data: every difference of two timings and of
two present samples is a binary32 number -/
theorem nvg_f32_links_are_visible (x : List Val) (t : List Rat) (N : Nat)
    (g : Good x t (some (nanMask x)) N)
    (ht : ∀ i k, i < k → k < N → IsF32 (t.getD k 0 - t.getD i 0))
    (hx : ∀ i k, i < k → k < N → ∀ dx, vsub (valAt x k) (valAt x i) = some dx → IsF32 dx) :
    ∃ logR, kernelNR rndF32 x t (some (nanMask x)) N = .ok logR ∧
      ∀ a b, (a, b) ∈ logR → a < b ∧ b < N ∧ NVisible x t a b :=
  nvg_float_links_are_visible rndF32 rndF32_monoRnd x t N g (exactDiffs_of_isF32 x t N ht hx)

/-- **integer series on the default timings** (`|x_k| < 2^23`, at most `2^24` samples, any
missing samples): the constructor's natural kernel in binary32 arithmetic terminates without
error and every link it writes joins two mutually visible samples — no hypothesis about the
arithmetic remains. -/
theorem nvg_f32_integer_series (x : List Val) (hx : IntSeries x) (hN : x.length ≤ 2 ^ 24) :
    ∃ logR, kernelNR rndF32 x (defaultTimings x.length) (some (nanMask x)) x.length = .ok logR ∧
      ∀ a b, (a, b) ∈ logR →
        a < b ∧ b < x.length ∧ NVisible x (defaultTimings x.length) a b :=
  nvg_float_links_are_visible rndF32 rndF32_monoRnd x _ _
    (defaultTimings_good x _ (by intro m hm; cases hm; simp [nanMask]))
    (exactDiffs_intSeries x hx x.length hN)

example : IntSeries [some 3, none, some (-2), some 5] := by
  intro r hr
  simp only [List.mem_cons, Option.some.injEq, List.not_mem_nil, or_false, reduceCtorEq, false_or] at hr
  rcases hr with rfl | rfl | rfl
  · exact ⟨3, by norm_num, by norm_num⟩
  · exact ⟨-2, by norm_num, by norm_num⟩
  · exact ⟨5, by norm_num, by norm_num⟩
example : IsF32 (3 / 8) := ⟨3, -3, by omega, by norm_num, by simp [pow2]; norm_num⟩
/-- a tie between two binary32 numbers goes to the even significand; the exponent boundary
`2^24 - 1/2 ↦ 2^24`; the smallest subnormal; half of it ↦ 0 -/
example : rndF32 (16777217 : Rat) = 16777216 ∧ rndF32 (16777219 : Rat) = 16777220 ∧
    rndF32 ((33554431 : Rat) / 2) = 16777216 ∧ rndF32 (pow2 (-149)) = pow2 (-149) ∧
    rndF32 (pow2 (-150)) = 0 ∧ rndF32 (3 * pow2 (-150)) = 2 * pow2 (-149) := by decide +kernel

/-- **`pathLen` is the breadth-first search of C03's model of `Network.path_lengths()`**, so
`retarded_closeness`, `advanced_closeness` and the pair dependencies are stated about distances
computed by code -/
theorem pathLen_is_bfs (N : Nat) (A : List (List Bool)) (i j : Nat) (hi : i < N) (hj : j < N) :
    pathLen N A i j = Net.dist N (adjFn A) i j :=
  pathLen_eq_dist N A i j hi hj

/-- the two closeness measures through the BFS distances -/
theorem closeness_by_bfs (N : Nat) (A : List (List Bool)) (i : Nat) (hi : i < N) :
    retClose N A i = closeOf ((List.range i).map (Net.dist N (adjFn A) i)) ∧
    advClose N A i = closeOf ((List.range' (i + 1) (N - (i + 1))).map (Net.dist N (adjFn A) i)) := by
  constructor
  · simp only [retClose]
    congr 1
    apply List.map_congr_left
    intro j hj
    rw [List.mem_range] at hj
    exact pathLen_eq_dist N A i j hi (by omega)
  · simp only [advClose]
    congr 1
    apply List.map_congr_left
    intro j hj
    rw [List.mem_range'_1] at hj
    exact pathLen_eq_dist N A i j hi (by omega)

example : Net.dist 4 (adjFn (adjMat 4 [(0, 1), (1, 2)])) 0 2 = some 2 ∧
    Net.dist 4 (adjFn (adjMat 4 [(0, 1), (1, 2)])) 0 3 = none := by decide +kernel

/-- **`rndF32 (2^k · q) = 2^k · rndF32 q`** while neither side is subnormal: a rescaling of the
values or of the time unit by a power of two changes no rounding decision of the float kernel
(why the extreme-but-exact rescalings of the correspondence must leave the compiled kernels'
answers unchanged) -/
theorem rndF32_pow2_rescaling (q : Rat) (k : Int) (h1 : q ≠ 0 → -126 ≤ lg |q|)
    (h2 : q ≠ 0 → -126 ≤ lg |q| + k) : rndF32 (pow2 k * q) = pow2 k * rndF32 q :=
  rndF32_scale q k h1 h2

example : rndF32 (pow2 40 * (1 / 3)) = pow2 40 * rndF32 (1 / 3) := by decide +kernel
/-- in the subnormal range the identity fails: `2^-149 · 3/2` is a tie, `3/2` is a float -/
example : rndF32 (pow2 (-149) * (3 / 2)) ≠ pow2 (-149) * rndF32 (3 / 2) := by decide +kernel

/-- **the slope comparisons of the float kernel are invariant under power-of-two rescalings**
`x ↦ 2^a x`, `t ↦ 2^c t` as long as no difference and no quotient is or becomes subnormal
(`NoUfl`): the rounded slope of the rescaled series is `2^(a-c)` times the rounded slope, so every
decision `slope_k < slope_j` of `kernelNR rndF32` is the same. -/
theorem f32_slope_comparisons_pow2_invariant (x : List Val) (t : List Rat) (a c : Int) (i k j : Nat)
    (hk : NoUfl (t.getD k 0 - t.getD i 0) c)
    (hkx : ∀ dx, vsub (valAt x k) (valAt x i) = some dx →
      NoUfl dx a ∧ NoUfl (rndF32 dx / rndF32 (t.getD k 0 - t.getD i 0)) (a - c))
    (hj : NoUfl (t.getD j 0 - t.getD i 0) c)
    (hjx : ∀ dx, vsub (valAt x j) (valAt x i) = some dx →
      NoUfl dx a ∧ NoUfl (rndF32 dx / rndF32 (t.getD j 0 - t.getD i 0)) (a - c)) :
    slopeValR rndF32 (x.map (Option.map (pow2 a * ·))) (t.map (pow2 c * ·)) i k
        = (slopeValR rndF32 x t i k).map (pow2 (a - c) * ·) ∧
    vlt (slopeValR rndF32 (x.map (Option.map (pow2 a * ·))) (t.map (pow2 c * ·)) i k)
        (slopeValR rndF32 (x.map (Option.map (pow2 a * ·))) (t.map (pow2 c * ·)) i j)
      = vlt (slopeValR rndF32 x t i k) (slopeValR rndF32 x t i j) :=
  ⟨slopeValR_scale x t a c i k hk hkx, slopeCmpR_scale x t a c i k j hk hkx hj hjx⟩

example : NoUfl (7 / 10) 40 ∧ NoUfl (7 / 10) (-100) := by
  have h : lg |(7 / 10 : Rat)| = -1 := by decide +kernel
  constructor <;> constructor <;> intro _ <;> rw [h] <;> omega

/-- **horizontal graph of float64 callers' data**: the constructor converts the series to
binary32 (`to_cy(time_series, FIELD)`, i.e. `rndF32` on every sample).  Whenever that
conversion merges no two distinct samples (`KeepsApart`), the kernel and the constructor return
on the converted series exactly what they return on the caller's values — and therefore the
matrix realises `HVisible` of the *caller's* values.  (Monotonicity of `rndF32` is what turns
"injective on the samples" into "order preserving".) -/
theorem hvg_float64_callers (x : List Val) (h : KeepsApart x) (N : Nat) (tm : Option (List Rat))
    (missing : Bool) :
    kernelH (x.map (Option.map rndF32)) N = kernelH x N ∧
    classLog (x.map (Option.map rndF32)) tm missing true = classLog x tm missing true ∧
    ∃ A, classMat (x.map (Option.map rndF32)) tm true true = .ok A ∧
      ∀ a b, a < x.length → b < x.length →
        (Mat.at A a b = true ↔ (a < b ∧ HVisible x a b) ∨ (b < a ∧ HVisible x b a)) := by
  have ho := ordOn_rndF32 x h
  refine ⟨kernelH_ordOn rndF32 x ho N, classLog_hvg_ordOn rndF32 x ho tm missing, ?_⟩
  obtain ⟨A, hA, hiff⟩ := class_hvg_matrix_iff x tm
  refine ⟨A, ?_, hiff⟩
  rw [class_matrix_is_log] at hA ⊢
  rw [classLog_hvg_ordOn rndF32 x ho tm true, List.length_map]
  exact hA

example : KeepsApart [some (1 / 3), none, some (2 / 3), some (1 / 3)] := by
  intro a b ha hb
  simp only [List.mem_cons, Option.some.injEq, List.not_mem_nil, or_false, reduceCtorEq,
    false_or] at ha hb
  rcases ha with rfl | rfl | rfl <;> rcases hb with rfl | rfl | rfl <;> decide +kernel

/-! ## Round 5: the compiled arithmetic under power-of-two rescalings; a closed class of
order-faithful data -/

/-- what the decidable hypothesis `NoUflOn x t N a c` (evaluated by the driver, request `noufl`)
says: seen from every left end `i`, the difference of the timings, the difference of two present
samples and the rounded quotient are not subnormal (`⌊log₂|·|⌋ ≥ -126`, zero is fine), neither
before nor after the rescaling by `2^c`, `2^a`, `2^(a-c)` -/
theorem noUflOn_says (x : List Val) (t : List Rat) (N : Nat) (a c : Int) (h : NoUflOn x t N a c)
    (i k : Nat) (hik : i < k) (hk : k < N) :
    NoUfl (t.getD k 0 - t.getD i 0) c ∧
    ∀ dx, vsub (valAt x k) (valAt x i) = some dx →
      NoUfl dx a ∧ NoUfl (rndF32 dx / rndF32 (t.getD k 0 - t.getD i 0)) (a - c) :=
  noUflOn_spec x t N a c h i k hik hk

/-- **the float32 natural kernels are invariant under power-of-two rescalings** `x ↦ 2^a x`,
`t ↦ 2^c t` — as an equality of results: the same write log *or the same error*
(`ZeroDivisionError` for timings that tie after rounding, `IndexError` for short arrays), for
every mask (both kernels), every `N` and every array length.  The scalar fact
`rndF32_pow2_rescaling` lifted through the four bounds-checked reads and the zero test of
`slopeR`, the short-circuit condition `condNR`, the `while` loop `scan` and the double loop.
Closes "invariance of the whole float kernel" of round 4. -/
theorem nvg_f32_pow2_invariant (x : List Val) (t : List Rat) (mv : Option (List Bool)) (N : Nat)
    (a c : Int) (h : NoUflOn x t N a c) :
    kernelNR rndF32 (scaleVals a x) (scaleTimes c t) mv N = kernelNR rndF32 x t mv N :=
  kernelNR_scale x t mv N a c h

/-- the hypothesis is decidable and not void: a 4-sample series with a missing sample and
non-uniform timings, values scaled by `2^-100`, times by `2^-40` (by `2^40` the quotients
`2^-140 Δx/Δt` would be subnormal: the second example) -/
example : NoUflOn [some 3, none, some (1 / 2), some 7] [0, 1 / 4, 1, 3] 4 (-100) (-40) := by
  decide +kernel
example : ¬ NoUflOn [some 3, none, some (1 / 2), some 7] [0, 1 / 4, 1, 3] 4 (-100) 40 := by
  decide +kernel
/-- and it is needed: scaled down into the subnormal range (`2^-150`, last place `2^-149`) the
slopes `3` and `7/2` of this series both round to `4 · 2^-150` and the float kernel loses the
link `0 – 2` -/
example : ¬ NoUflOn [some 0, some 3, some 7] [0, 1, 2] 3 (-150) 0 := by decide +kernel
example : kernelNR rndF32 [some 0, some 3, some 7] [0, 1, 2] none 3
      = .ok [(0, 2), (0, 1), (1, 2)] ∧
    kernelNR rndF32 (scaleVals (-150) [some 0, some 3, some 7]) (scaleTimes 0 [0, 1, 2]) none 3
      = .ok [(0, 1), (1, 2)] := by decide +kernel

/-- **integer series on the default timings** (`|x_k| < 2^23`, at most `2^24` samples, any
missing samples), rescaled by `2^a`, `2^c` with `a, c ≥ -126`, `a - c ≥ -102`: the hypothesis
holds, so the float kernels return the same result — no hypothesis about the arithmetic left.
(Overflow is outside the model: `a`, `c` are meant below the binary32 range.) -/
theorem nvg_f32_pow2_invariant_integer_series (x : List Val) (hx : IntSeries x)
    (mv : Option (List Bool)) (N : Nat) (hN : N ≤ 2 ^ 24) (a c : Int) (ha : -126 ≤ a)
    (hc : -126 ≤ c) (hac : -102 ≤ a - c) :
    kernelNR rndF32 (scaleVals a x) (scaleTimes c (defaultTimings N)) mv N
      = kernelNR rndF32 x (defaultTimings N) mv N :=
  kernelNR_scale x _ mv N a c (noUflOn_intSeries x hx N hN a c ha hc hac)

/-- **small integer series are order-faithful**: `|x_k| ≤ B`, `B · N ≤ 2^22` (12-bit samples
and 1024 of them, 8-bit samples and 16384 of them, …) on the default timings: two distinct slopes
`Δx/Δt` differ by at least `1/(Δt Δt')`, more than the sum of their binary32 rounding errors
(`rndF32_error`), and `rndF32` is monotone — so the hypothesis `Faithful` of
`nvg_float32_eq_exact`, so far decided per series, is a theorem on this class -/
theorem small_integer_series_faithful (x : List Val) (B : Int) (N : Nat) (hB : 1 ≤ B)
    (hx : SmallInt x B) (hBN : B * (N : Int) ≤ 2 ^ 22) :
    Faithful rndF32 x (defaultTimings N) N :=
  faithful_smallInt x B N hB hx hBN

/-- hence on such series **the natural kernels in binary32 arithmetic return exactly what the
exact kernels return** (any mask, both kernels) … -/
theorem nvg_f32_small_integer_series_exact (x : List Val) (B : Int) (hB : 1 ≤ B)
    (hx : SmallInt x B) (hBN : B * (x.length : Int) ≤ 2 ^ 22) (mv : Option (List Bool)) :
    kernelNR rndF32 x (defaultTimings x.length) mv x.length
      = kernelN x (defaultTimings x.length) mv x.length :=
  kernelNR_eq rndF32 x _ mv _ (Nat.le_refl _) (by simp [defaultTimings])
    (faithful_smallInt x B _ hB hx hBN)

/-- … and **realise the geometric criterion exactly** (not only as a subgraph, cf.
`nvg_f32_integer_series`): the compiled arithmetic links `a < b` iff the two samples see each
other — no hypothesis about the arithmetic -/
theorem nvg_f32_small_integer_series_iff (x : List Val) (B : Int) (hB : 1 ≤ B)
    (hx : SmallInt x B) (hBN : B * (x.length : Int) ≤ 2 ^ 22) :
    ∃ log, kernelNR rndF32 x (defaultTimings x.length) (some (nanMask x)) x.length = .ok log ∧
      ∀ a b, (a, b) ∈ log ↔ a < b ∧ b < x.length ∧ NVisible x (defaultTimings x.length) a b :=
  nvg_float32_iff rndF32 x _ _
    (defaultTimings_good x _ (by intro m hm; cases hm; simp [nanMask]))
    (faithful_smallInt x B _ hB hx hBN)

theorem smallInt_intSeries (x : List Val) (B : Int) (hB : 1 ≤ B) (hx : SmallInt x B)
    (hBN : B * (x.length : Int) ≤ 2 ^ 22) : IntSeries x := by
  intro r hr
  obtain ⟨z, rfl, hz⟩ := hx r hr
  refine ⟨z, rfl, ?_⟩
  have hl : (1 : Int) ≤ (x.length : Int) := by
    have := List.length_pos_of_mem hr
    omega
  have : B ≤ 2 ^ 22 := by nlinarith
  omega

/-- **the affine clause for the compiled arithmetic, closed form**: a small integer series in
any power-of-two unit of the values and of the time axis (`a, c ≥ -126`, `a - c ≥ -102`) — the
float32 kernel links exactly the pairs that see each other -/
theorem nvg_f32_small_integer_series_rescaled_iff (x : List Val) (B : Int) (hB : 1 ≤ B)
    (hx : SmallInt x B) (hBN : B * (x.length : Int) ≤ 2 ^ 22) (a c : Int) (ha : -126 ≤ a)
    (hc : -126 ≤ c) (hac : -102 ≤ a - c) :
    ∃ log, kernelNR rndF32 (scaleVals a x) (scaleTimes c (defaultTimings x.length))
        (some (nanMask x)) x.length = .ok log ∧
      ∀ p q, (p, q) ∈ log ↔ p < q ∧ q < x.length ∧ NVisible x (defaultTimings x.length) p q := by
  have hN : x.length ≤ 2 ^ 24 := by
    have : (x.length : Int) ≤ 2 ^ 22 := by nlinarith
    omega
  rw [nvg_f32_pow2_invariant_integer_series x (smallInt_intSeries x B hB hx hBN) _ _ hN a c ha hc
    hac]
  exact nvg_f32_small_integer_series_iff x B hB hx hBN

example : SmallInt [some 3, none, some (-2), some 5] 5 := by
  intro r hr
  simp only [List.mem_cons, Option.some.injEq, List.not_mem_nil, or_false, reduceCtorEq,
    false_or] at hr
  rcases hr with rfl | rfl | rfl
  · exact ⟨3, by norm_num, by norm_num⟩
  · exact ⟨-2, by norm_num, by norm_num⟩
  · exact ⟨5, by norm_num, by norm_num⟩
/-- the bound is about the right size: with `B · N` a few powers of two larger the slopes
`2^24` and `2^24 + 1` of `nvg_float32_iff`'s counterexample collapse -/
example : ¬ Faithful rndF32 [some 0, some 16777216, some 33554434] (defaultTimings 3) 3 := by
  decide +kernel

/-! ### Round 5: `VisibilityGraph.__init__` in `FIELD` (float32) arithmetic -/

/-- **the natural graph the constructor builds is the exact natural graph of the data it stores**
(`self.time_series`, `self.timings` after `to_cy(·, FIELD)` / `np.arange(N, dtype=FIELD)`), for
either value of `missing_values`, whenever the stored data are order-faithful (`FaithfulConv`,
decided by the driver: `faithfulc`): same write log or same error -/
theorem class_f32_is_exact_on_stored_data (rnd : Rat → Rat) (x : List Val)
    (tm : Option (List Rat)) (missing : Bool) (hl : ∀ t, tm = some t → x.length ≤ t.length)
    (hf : FaithfulConv rnd x tm) :
    classLogR rnd x tm missing false
      = classLog (toField rnd x) (some (convTimings rnd x tm)) missing false :=
  classLogR_natural rnd x tm missing hl hf

/-- hence, with `missing_values=True` and stored timings that are still strictly increasing, the
compiled constructor never fails and `A[a,b]` is set exactly when the stored samples `a`, `b` see
each other -/
theorem class_f32_nvg_iff (rnd : Rat → Rat) (x : List Val) (t : List Rat)
    (ht : t.length = x.length) (hf : FaithfulConv rnd x (some t))
    (inc : ∀ a b, a < b → b < x.length → tAt (t.map rnd) a < tAt (t.map rnd) b) :
    ∃ log, classLogR rnd x (some t) true false = .ok log ∧
      ∀ a b, (a, b) ∈ log ↔
        a < b ∧ b < x.length ∧ NVisible (toField rnd x) (t.map rnd) a b := by
  rw [classLogR_natural rnd x (some t) true (by intro t' h; cases h; omega) hf]
  have := class_nvg_iff (toField rnd x) (t.map rnd)
    (by rw [List.length_map, toField_length, ht]) (by rw [toField_length]; exact inc)
  rw [toField_length] at this
  exact this

/-- the horizontal graph: the kernel only compares, so the compiled constructor *is* the exact
constructor on the stored series; with `hvg_float64_callers`: = the exact constructor on the
caller's float64 values whenever the conversion merges no two samples -/
theorem class_f32_horizontal (x : List Val) (tm : Option (List Rat)) (missing : Bool) :
    classLogR rndF32 x tm missing true = classLog (toField rndF32 x) tm missing true ∧
    (KeepsApart x → classLogR rndF32 x tm missing true = classLog x tm missing true) := by
  refine ⟨classLogR_horizontal rndF32 x tm missing, fun h => ?_⟩
  rw [classLogR_horizontal]
  exact (hvg_float64_callers x h x.length tm missing).2.1

/-- **`VisibilityGraph(x)` on a small integer series** (`|x_k| ≤ B`, `B · N ≤ 2^22`, default
timings): conversions, `np.arange(N, dtype=FIELD)` and every rounded operation of the kernel
included, the compiled constructor returns what the exact one returns (either value of
`missing_values`) … -/
theorem class_f32_small_integer_series (x : List Val) (B : Int) (hB : 1 ≤ B) (hx : SmallInt x B)
    (hBN : B * (x.length : Int) ≤ 2 ^ 22) (missing : Bool) :
    classLogR rndF32 x none missing false = classLog x none missing false :=
  classLogR_smallInt x B hB hx hBN (smallInt_intSeries x B hB hx hBN) missing

/-- … hence realises the geometric criterion: no hypothesis about the arithmetic -/
theorem class_f32_small_integer_series_iff (x : List Val) (B : Int) (hB : 1 ≤ B)
    (hx : SmallInt x B) (hBN : B * (x.length : Int) ≤ 2 ^ 22) :
    ∃ log, classLogR rndF32 x none true false = .ok log ∧
      ∀ a b, (a, b) ∈ log ↔ a < b ∧ b < x.length ∧ NVisible x (defaultTimings x.length) a b := by
  rw [class_f32_small_integer_series x B hB hx hBN true]
  exact class_nvg_iff_default x

/-- sanity of the model: a double that is not a binary32 number is converted first
(`1/3 ↦ 11184811 · 2^-25`), and the stored data of this 5-sample series are order-faithful -/
example : toField rndF32 [some (1 / 3), none] = [some (11184811 / 33554432), none] := by
  decide +kernel
example : FaithfulConv rndF32 [some (1 / 3), some (1 / 10), some (2 / 3), none, some (1 / 5)]
    (some [0, 1 / 10, 1, 2, 3]) := by decide +kernel
example : classLogR rndF32 [some (1 / 3), some (1 / 10), some (2 / 3), none, some (1 / 5)]
    (some [0, 1 / 10, 1, 2, 3]) true false = .ok [(0, 2), (0, 1), (1, 2)] := by decide +kernel

theorem scaleVals_eq_aff (a : Int) (x : List Val) : scaleVals a x = x.map (affV (pow2 a) 0) := by
  unfold scaleVals
  apply List.map_congr_left
  intro v _
  cases v with
  | none => rfl
  | some r => simp [affV]

/-- **the constructor in `FIELD` arithmetic under a change of the units by powers of two**
(`NoUflData`: no sample and no timing is subnormal before or after — the conversions commute with
the rescaling; `NoUflOn` on the *stored* data): same adjacency or same error,
natural graph with given timings (`x·2^a`, `t·2^c`), natural graph on the default timings (`x·2^a`),
horizontal graph (`x·2^a`, any timings: they are not read) -/
theorem class_f32_pow2_invariant (x : List Val) (a : Int) (missing : Bool)
    (hx : ∀ r : Rat, some r ∈ x → NoUfl r a) :
    (∀ (t : List Rat) (c : Int), (∀ r ∈ t, NoUfl r c) →
      NoUflOn (toField rndF32 x) (t.map rndF32) x.length a c →
      classLogR rndF32 (scaleVals a x) (some (scaleTimes c t)) missing false
        = classLogR rndF32 x (some t) missing false) ∧
    (NoUflOn (toField rndF32 x) ((defaultTimings x.length).map rndF32) x.length a 0 →
      classLogR rndF32 (scaleVals a x) none missing false
        = classLogR rndF32 x none missing false) ∧
    (∀ tm tm' : Option (List Rat),
      classLogR rndF32 (scaleVals a x) tm' missing true = classLogR rndF32 x tm missing true) := by
  refine ⟨fun t c ht h => classLogR_scale x t a c missing ⟨hx, ht⟩ h,
    fun h => classLogR_scale_default x a missing hx h, fun tm tm' => ?_⟩
  rw [classLogR_horizontal, classLogR_horizontal, toField_scale x a hx, scaleVals_eq_aff]
  simp only [classLog, List.length_map, hvg_affine_invariant _ _ (pow2 a) 0 (pow2_pos a),
    isMissing_aff, Bool.not_true, Bool.false_eq_true, if_false]

/-- the same with every hypothesis decided by one executable test (`noUflConvB`, driver request
`nouflc`): natural graph, given timings rescaled by `2^c` or default timings (`c = 0`) -/
theorem class_f32_pow2_invariant_decided (x : List Val) (tm : Option (List Rat)) (a c : Int)
    (missing : Bool) (h : noUflConvB x tm a c = true) :
    classLogR rndF32 (scaleVals a x) (tm.map (scaleTimes c)) missing false
      = classLogR rndF32 x tm missing false := by
  simp only [noUflConvB, Bool.and_eq_true, List.all_eq_true, decide_eq_true_eq] at h
  obtain ⟨⟨h1, h2⟩, h3⟩ := h
  have hx : ∀ r : Rat, some r ∈ x → NoUfl r a := fun r hr => (noUflB_iff r a).mp (h1 (some r) hr)
  cases tm with
  | some t =>
    simp only [List.all_eq_true] at h2
    exact (class_f32_pow2_invariant x a missing hx).1 t c
      (fun r hr => (noUflB_iff r c).mp (h2 r hr)) h3
  | none =>
    have hc : c = 0 := by simpa using h2
    subst hc
    exact (class_f32_pow2_invariant x a missing hx).2.1 h3

example : noUflConvB [some (1 / 3), some (1 / 10), some (2 / 3), none, some (1 / 5)]
    (some [0, 1 / 10, 1, 2, 3]) (-60) 30 = true := by decide +kernel

/-! # Round 5b

**The kernel model of the betweenness-type measures equals the definition — proved, no longer a
per-case comparison.**  Round 3 modelled `retarded_betweenness`, `advanced_betweenness`,
`trans_betweenness` by property C03's line-by-line model of the Cython kernel `_nsi_betweenness`
(`retBetw`, `advBetw`, `transBetw`) and left "kernel model = pair-dependency definition" (Brandes'
theorem for that model) to the driver and the harness, case by case.  C03's round 5 proved it for
every undirected network, positive node weights and targets `< N`
(`NetBetw.nsiBetweenness_eq_def_full`, `Lemmas/NetBetwKernel.lean`).  The three hypotheses are
what the real code enforces for a `VisibilityGraph`, and they are *theorems* here
(`Lemmas/VisibilityBetwKernel.lean`): the adjacency matrix of a write log is symmetric
(`adjFn_adjMat_symm`), the node weights are all 1, `np.arange(i)` / `np.arange(i+1, N)` stay below
`N`.  So the statements below have no hypothesis about the kernel left.

The right-hand side is C03's `NetBetw.interregionalCount`:
`Σ_{t ∈ targets, t ≠ i} Σ_{s ∈ sources, s ≠ i} #(shortest t–s paths through i) / #(shortest t–s paths)`
with both numbers obtained by *enumerating* the shortest paths as node lists (`shortestPaths`;
distances: the BFS `Net.dist` = `pathLen`, `pathLen_is_bfs`).  (The walk-count form `betwSpec` of
round 3, in which the reversal theorems are stated, is a second writing of the same definition;
`betwSpec = interregionalCount` — the concatenation lemma `σ_ts(l) = σ_tl σ_ls` — is compared by the
driver on every sampled case; proved in round 5c below: `betwSpec_eq_interregionalCount`.) -/

/-- **`self.nsi_betweenness(sources=S, targets=T)[i]` of a unit-weight undirected network**, as the
three methods call it: the kernel model (forward BFS with the flat predecessor arrays, backward
sweep, `excess_to_j`, division by `w`) returns the published count over enumerated shortest paths —
every symmetric matrix, every source list, every target list below `N`. -/
theorem nsi_betweenness_kernel_eq_count (N : Nat) (A : List (List Bool))
    (hsym : ∀ x y, Mat.at A x y = Mat.at A y x) (S T : List Nat) (hT : ∀ t, t ∈ T → t < N)
    (i : Nat) (hi : i < N) :
    nsiBetwAt N A S T i
      = NetBetw.interregionalCount N (adjFn A) (Net.dist N (adjFn A)) S T i :=
  nsiBetwAt_eq_count N A hsym S T hT i hi

/-- **the three methods on any symmetric matrix**: `retarded_betweenness()[i]` counts the shortest
paths between two *past* samples through `i`, `advanced_betweenness()[i]` between two *future*
samples, `trans_betweenness()[i]` from a future target to a past source — the index arrays are in
range by construction, no hypothesis on them -/
theorem betweenness_kernel_eq_count (N : Nat) (A : List (List Bool))
    (hsym : ∀ x y, Mat.at A x y = Mat.at A y x) (i : Nat) (hi : i < N) :
    retBetw N A i = NetBetw.interregionalCount N (adjFn A) (Net.dist N (adjFn A))
        (pastIdx i) (pastIdx i) i ∧
    advBetw N A i = NetBetw.interregionalCount N (adjFn A) (Net.dist N (adjFn A))
        (futureIdx N i) (futureIdx N i) i ∧
    transBetw N A i = NetBetw.interregionalCount N (adjFn A) (Net.dist N (adjFn A))
        (pastIdx i) (futureIdx N i) i :=
  ⟨nsiBetwAt_eq_count N A hsym _ _ (pastIdx_lt N i hi) i hi,
   nsiBetwAt_eq_count N A hsym _ _ (futureIdx_lt N i) i hi,
   nsiBetwAt_eq_count N A hsym _ _ (futureIdx_lt N i) i hi⟩

/-- **unconditional for the matrix of any write log** (what every constructor path stores:
`A[i, j] = A[j, i] = 1`): symmetry is a theorem, so nothing is assumed -/
theorem visibility_betweenness_kernel_eq_count (N : Nat) (log : List (Nat × Nat)) (i : Nat)
    (hi : i < N) :
    let A := adjMat N log
    retBetw N A i = NetBetw.interregionalCount N (adjFn A) (Net.dist N (adjFn A))
        (pastIdx i) (pastIdx i) i ∧
    advBetw N A i = NetBetw.interregionalCount N (adjFn A) (Net.dist N (adjFn A))
        (futureIdx N i) (futureIdx N i) i ∧
    transBetw N A i = NetBetw.interregionalCount N (adjFn A) (Net.dist N (adjFn A))
        (pastIdx i) (futureIdx N i) i :=
  betweenness_kernel_eq_count N (adjMat N log) (adjFn_adjMat_symm N log) i hi

/-- composed for `VisibilityGraph(x, t, missing_values=True)`, increasing timings: the constructor
succeeds and on its matrix the three methods return the counts -/
theorem class_betweenness_is_count_nvg (x : List Val) (t : List Rat)
    (ht : t.length = x.length) (inc : ∀ a b, a < b → b < x.length → tAt t a < tAt t b) :
    ∃ log, classLog x (some t) true false = .ok log ∧
      let N := x.length
      let A := adjMat N log
      ∀ i, i < N →
        retBetw N A i = NetBetw.interregionalCount N (adjFn A) (Net.dist N (adjFn A))
            (pastIdx i) (pastIdx i) i ∧
        advBetw N A i = NetBetw.interregionalCount N (adjFn A) (Net.dist N (adjFn A))
            (futureIdx N i) (futureIdx N i) i ∧
        transBetw N A i = NetBetw.interregionalCount N (adjFn A) (Net.dist N (adjFn A))
            (pastIdx i) (futureIdx N i) i := by
  have g : Good x t (some (nanMask x)) x.length :=
    ⟨Nat.le_refl _, by omega, by intro m hm; cases hm; simp [nanMask], inc⟩
  obtain ⟨log, h1, _⟩ := nvg_mv_iff x t x.length g
  exact ⟨log, by rw [class_nvg_missing]; exact h1,
    fun i hi => visibility_betweenness_kernel_eq_count _ log i hi⟩

/-- the same for `VisibilityGraph(x, horizontal=True, missing_values=True)`, any series -/
theorem class_betweenness_is_count_hvg (x : List Val) (tm : Option (List Rat)) :
    ∃ log, classLog x tm true true = .ok log ∧
      let N := x.length
      let A := adjMat N log
      ∀ i, i < N →
        retBetw N A i = NetBetw.interregionalCount N (adjFn A) (Net.dist N (adjFn A))
            (pastIdx i) (pastIdx i) i ∧
        advBetw N A i = NetBetw.interregionalCount N (adjFn A) (Net.dist N (adjFn A))
            (futureIdx N i) (futureIdx N i) i ∧
        transBetw N A i = NetBetw.interregionalCount N (adjFn A) (Net.dist N (adjFn A))
            (pastIdx i) (futureIdx N i) i := by
  obtain ⟨log, h1, _⟩ := hvg_missing_iff x tm
  exact ⟨log, h1, fun i hi => visibility_betweenness_kernel_eq_count _ log i hi⟩

/-! non-vacuity: on the 4-cycle `0–1–2–3–0` two shortest paths join the future sample 2 to the past
sample 0, one of them through sample 1: count `1/2`, and the kernel model returns `1/2`; on the
path `0–1–2` the middle sample carries the only path. -/
example : NetBetw.interregionalCount 4 (adjFn (adjMat 4 [(0, 1), (1, 2), (2, 3), (0, 3)]))
    (Net.dist 4 (adjFn (adjMat 4 [(0, 1), (1, 2), (2, 3), (0, 3)]))) (pastIdx 1) (futureIdx 4 1) 1
      = 1 / 2 := by decide +kernel
example : transBetw 4 (adjMat 4 [(0, 1), (1, 2), (2, 3), (0, 3)]) 1 = 1 / 2 := by decide +kernel
example : NetBetw.interregionalCount 3 (adjFn (adjMat 3 [(0, 1), (1, 2)]))
    (Net.dist 3 (adjFn (adjMat 3 [(0, 1), (1, 2)]))) (pastIdx 1) (futureIdx 3 1) 1 = 1 := by
  decide +kernel
/-- the enumeration behind the count -/
example : NetBetw.shortestPaths 4 (adjFn (adjMat 4 [(0, 1), (1, 2), (2, 3), (0, 3)]))
    (Net.dist 4 (adjFn (adjMat 4 [(0, 1), (1, 2), (2, 3), (0, 3)]))) 2 0 = [[2, 1, 0], [2, 3, 0]] := by
  decide +kernel
/-- symmetry is needed by the kernel proof and is a property of the data, not of every matrix -/
example : ¬ ∀ x y, Mat.at [[false, true], [false, false]] x y = Mat.at [[false, true], [false, false]] y x := by
  intro h; exact absurd (h 0 1) (by decide)

/-! # Round 5c: the reversal theorems for the kernel model itself

Round 5b left one link between two writings of the definition unproved: `betwSpec` (walk counts,
product form `σ_tl σ_ls / σ_ts` iff `d_tl + d_ls = d_ts`; the reversal theorems of round 3 are stated
with it) against the kernel model / `interregionalCount`.  It is closed here through property C02's
round-5b bridge `Nsi.kernel_eq_nsiBetw_net` (kernel model of `_nsi_betweenness` = `nsiBetw`, the double
sum over weighted walk counts; it contains the concatenation lemma `sigThruLev_eq` and
`sigLev_eq` / `wcount_last`), imported and specialised to unit weights in
`Lemmas/VisibilityBetwWalk.lean`: `wcount = wf` (`wcount_unit`), `Net.dist = pathLen`,
`bcTerm = pairDep` (`bcTerm_unit`), sums over masks = sums over `np.arange(i)` / `np.arange(i+1, N)`
(`pastIdx_filter`, `futureIdx_filter`).  Hence **retarded ↔ advanced betweenness and the mirrored
trans-betweenness are theorems about `retBetw`, `advBetw`, `transBetw`** — C03's line-by-line model of
the Cython kernel as the three methods call it. -/

/-- **kernel model = walk-count definition**: on every symmetric matrix `retarded_betweenness()[i]`,
`advanced_betweenness()[i]`, `trans_betweenness()[i]` (kernel model) are `retBetwSpec`, `advBetwSpec`,
`transBetwSpec` -/
theorem betweenness_kernel_eq_spec (N : Nat) (A : List (List Bool))
    (hsym : ∀ x y, Mat.at A x y = Mat.at A y x) (i : Nat) (hi : i < N) :
    retBetw N A i = retBetwSpec N A i ∧ advBetw N A i = advBetwSpec N A i ∧
    transBetw N A i = transBetwSpec N A i :=
  ⟨retBetw_eq_spec N A hsym i hi, advBetw_eq_spec N A hsym i hi, transBetw_eq_spec N A hsym i hi⟩

/-- **kernel model = `betwSpec` for any sources and targets given as masks** (`is_source`-style): the
general statement behind the three methods -/
theorem nsi_betweenness_kernel_eq_spec (N : Nat) (A : List (List Bool))
    (hsym : ∀ x y, Mat.at A x y = Mat.at A y x) (S T : Nat → Bool) (i : Nat) (hi : i < N) :
    nsiBetwAt N A ((List.range N).filter S) ((List.range N).filter T) i
      = betwSpec N A ((List.range N).filter S) ((List.range N).filter T) i :=
  nsiBetwAt_eq_betwSpec N A hsym S T i hi

/-- **the two writings of the definition agree** (`Still open` of round 5b): on every symmetric matrix
the walk-count form `betwSpec` is the count over enumerated shortest paths `interregionalCount`, for
all sources and targets given by masks, in particular for the three methods -/
theorem betwSpec_eq_interregionalCount (N : Nat) (A : List (List Bool))
    (hsym : ∀ x y, Mat.at A x y = Mat.at A y x) (S T : Nat → Bool) (i : Nat) (hi : i < N) :
    betwSpec N A ((List.range N).filter S) ((List.range N).filter T) i
      = NetBetw.interregionalCount N (adjFn A) (Net.dist N (adjFn A))
          ((List.range N).filter S) ((List.range N).filter T) i := by
  rw [← nsiBetwAt_eq_betwSpec N A hsym S T i hi]
  exact nsiBetwAt_eq_count N A hsym _ _
    (fun t ht => List.mem_range.mp (List.mem_filter.mp ht).1) i hi

theorem betweenness_spec_eq_count (N : Nat) (A : List (List Bool))
    (hsym : ∀ x y, Mat.at A x y = Mat.at A y x) (i : Nat) (hi : i < N) :
    retBetwSpec N A i = NetBetw.interregionalCount N (adjFn A) (Net.dist N (adjFn A))
        (pastIdx i) (pastIdx i) i ∧
    advBetwSpec N A i = NetBetw.interregionalCount N (adjFn A) (Net.dist N (adjFn A))
        (futureIdx N i) (futureIdx N i) i ∧
    transBetwSpec N A i = NetBetw.interregionalCount N (adjFn A) (Net.dist N (adjFn A))
        (pastIdx i) (futureIdx N i) i := by
  obtain ⟨h1, h2, h3⟩ := betweenness_kernel_eq_spec N A hsym i hi
  obtain ⟨c1, c2, c3⟩ := betweenness_kernel_eq_count N A hsym i hi
  exact ⟨h1 ▸ c1, h2 ▸ c2, h3 ▸ c3⟩

/-- **time reversal exchanges retarded and advanced betweenness OF THE KERNEL MODEL and mirrors
trans-betweenness**: for any two mirrored write logs, `retarded_betweenness()` of the reversed graph is
the reversed `advanced_betweenness()` of the original one and vice versa, `trans_betweenness()` is
mirrored — statements about C03's line-by-line model of `_nsi_betweenness` with the masks and
`np.arange` index arrays the three methods build; no hypothesis besides the mirror relation -/
theorem betweenness_kernel_reversal (N : Nat) (log log' : List (Nat × Nat))
    (hm : ∀ a b, a < N → b < N → entry log' a b = entry log (N - 1 - a) (N - 1 - b))
    (a : Nat) (ha : a < N) :
    retBetw N (adjMat N log') a = advBetw N (adjMat N log) (N - 1 - a) ∧
    advBetw N (adjMat N log') a = retBetw N (adjMat N log) (N - 1 - a) ∧
    transBetw N (adjMat N log') a = transBetw N (adjMat N log) (N - 1 - a) := by
  obtain ⟨r', a', t'⟩ := betweenness_kernel_eq_spec N _ (adjFn_adjMat_symm N log') a ha
  obtain ⟨r, a0, t0⟩ :=
    betweenness_kernel_eq_spec N _ (adjFn_adjMat_symm N log) (N - 1 - a) (by omega)
  obtain ⟨s1, s2, s3⟩ := reverse_exchanges_betweenness N log log' hm a ha
  exact ⟨by rw [r', a0, s1], by rw [a', r, s2], by rw [t', t0, s3]⟩

/-- composed for `VisibilityGraph(x, t, missing_values=True)` and its time reversal: both constructors
succeed and the kernel models of the three methods are exchanged / mirrored -/
theorem class_betweenness_kernel_reversal_nvg (x : List Val) (t : List Rat) (c : Rat)
    (ht : t.length = x.length) (inc : ∀ a b, a < b → b < x.length → tAt t a < tAt t b) :
    ∃ log log', classLog x (some t) true false = .ok log ∧
      classLog x.reverse (some (revT c t)) true false = .ok log' ∧
      let N := x.length
      let A := adjMat N log
      let A' := adjMat N log'
      ∀ a, a < N → retBetw N A' a = advBetw N A (N - 1 - a) ∧
        advBetw N A' a = retBetw N A (N - 1 - a) ∧
        transBetw N A' a = transBetw N A (N - 1 - a) := by
  have g : Good x t (some (nanMask x)) x.length :=
    ⟨Nat.le_refl _, by omega, by intro m hm; cases hm; simp [nanMask], inc⟩
  obtain ⟨log, log', h1, h2, hm⟩ := reverse_mirrors_nvg_mv x t c x.length rfl ht g
  exact ⟨log, log', by rw [class_nvg_missing]; exact h1,
    by rw [class_nvg_missing, List.length_reverse]; exact h2,
    fun a ha => betweenness_kernel_reversal _ log log' hm a ha⟩

/-- the same for `VisibilityGraph(x, horizontal=True, missing_values=True)`, any series -/
theorem class_betweenness_kernel_reversal_hvg (x : List Val) (tm tm' : Option (List Rat)) :
    ∃ log log', classLog x tm true true = .ok log ∧
      classLog x.reverse tm' true true = .ok log' ∧
      let N := x.length
      let A := adjMat N log
      let A' := adjMat N log'
      ∀ a, a < N → retBetw N A' a = advBetw N A (N - 1 - a) ∧
        advBetw N A' a = retBetw N A (N - 1 - a) ∧
        transBetw N A' a = transBetw N A (N - 1 - a) := by
  obtain ⟨log, log', h1, h2, hm⟩ := reverse_mirrors_hvg x tm tm'
  exact ⟨log, log', h1, h2, fun a ha => betweenness_kernel_reversal _ log log' hm a ha⟩

/-- the first sample has no past, the last no future: the kernel models vanish there -/
theorem betweenness_kernel_at_the_ends (N : Nat) (log : List (Nat × Nat)) (hN : 0 < N) :
    retBetw N (adjMat N log) 0 = 0 ∧ advBetw N (adjMat N log) (N - 1) = 0 ∧
    transBetw N (adjMat N log) 0 = 0 ∧ transBetw N (adjMat N log) (N - 1) = 0 := by
  obtain ⟨r0, _, t0⟩ := betweenness_kernel_eq_spec N _ (adjFn_adjMat_symm N log) 0 hN
  obtain ⟨_, a1, t1⟩ := betweenness_kernel_eq_spec N _ (adjFn_adjMat_symm N log) (N - 1) (by omega)
  obtain ⟨e1, e2, e3, e4⟩ := betweenness_at_the_ends N (adjMat N log) hN
  exact ⟨r0.trans e1, a1.trans e2, t0.trans e3, t1.trans e4⟩

/-! non-vacuity: the tree `0–2, 1–2, 2–3` and its mirror image `1–3, 1–2, 0–1`: the logs are mirrored,
the kernel models are non-zero and exchanged (values evaluated by the kernel model: two ordered pairs of
past samples are joined only through sample 2), kernel model = `betwSpec`, and on the 4-cycle both give
`1/2`. -/
example : ∀ a, a < 4 → ∀ b, b < 4 →
    entry [(1, 3), (1, 2), (0, 1)] a b = entry [(0, 2), (1, 2), (2, 3)] (4 - 1 - a) (4 - 1 - b) := by
  decide
example : advBetw 4 (adjMat 4 [(1, 3), (1, 2), (0, 1)]) 1 = 2 ∧
    retBetw 4 (adjMat 4 [(0, 2), (1, 2), (2, 3)]) 2 = 2 ∧
    retBetw 4 (adjMat 4 [(1, 3), (1, 2), (0, 1)]) 1 = 0 ∧
    advBetw 4 (adjMat 4 [(0, 2), (1, 2), (2, 3)]) 2 = 0 ∧
    transBetw 4 (adjMat 4 [(1, 3), (1, 2), (0, 1)]) 1 = 2 ∧
    transBetw 4 (adjMat 4 [(0, 2), (1, 2), (2, 3)]) 2 = 2 ∧
    retBetwSpec 4 (adjMat 4 [(0, 2), (1, 2), (2, 3)]) 2 = 2 := by decide +kernel
example : transBetw 4 (adjMat 4 [(0, 1), (1, 2), (2, 3), (0, 3)]) 1 = 1 / 2 ∧
    transBetwSpec 4 (adjMat 4 [(0, 1), (1, 2), (2, 3), (0, 3)]) 1 = 1 / 2 := by decide +kernel
/-- the masks of the general statement: `np.arange(i)` and `np.arange(i+1, N)` -/
example : pastIdx 2 = (List.range 4).filter (fun t => decide (t < 2)) ∧
    futureIdx 4 1 = (List.range 4).filter (fun t => decide (1 < t)) := by decide

end Pyunicorn.Visibility
