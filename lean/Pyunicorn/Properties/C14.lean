import Pyunicorn.Lemmas.VisibilityGeom
/-!
# C14 — visibility graphs realise the geometric visibility criterion

Statements about the model `Pyunicorn.Visibility` of the visibility kernels
(`timeseries/_ext/numerics.pyx:799-922`) and of `VisibilityGraph`
(`timeseries/visibility_graph.py`).  The model is tied to the compiled kernels and
to the class by the exact correspondence in `harness/c14.py`.

`Good x t mv N` is the kernels' precondition: arrays at least `N` long, timings
strictly increasing.  `NVisible` / `HVisible` / `BelowChord` are the geometric
predicates of the property statement (`Lemmas/VisibilityGeom.lean`); a missing
sample is `none` (NaN).
-/
namespace Pyunicorn.Visibility

/-! ## natural visibility graph -/

/-- **natural visibility, missing-value kernel as the class calls it** (mask =
`isnan`): the kernel terminates without error and writes `A[a,b]` (`a < b`) exactly
when both samples are present and every intermediate sample is present and lies
strictly below the straight line joining them.  In particular a missing sample
blocks visibility across it and has no link at all. -/
theorem nvg_mv_iff (x : List Val) (t : List Rat) (N : Nat)
    (g : Good x t (some (nanMask x)) N) :
    ∃ log, kernelN x t (some (nanMask x)) N = .ok log ∧
      ∀ a b, (a, b) ∈ log ↔ a < b ∧ b < N ∧ NVisible x t a b := by
  obtain ⟨log, hlog, hmem⟩ := kernelN_spec x t _ N g
  refine ⟨log, hlog, ?_⟩
  intro a b
  rw [hmem]
  constructor
  · rintro (⟨h1, h2, h3⟩ | ⟨rfl, h2, h3, h4⟩)
    · have hbc : ∀ k, a < k → k < b → BelowChord x t a b k := fun k hk1 hk2 =>
        (vlt_slope_iff x t a b k (g.inc a k hk1 (by omega)) (g.inc a b (by omega) h2)).mp
          (h3 k hk1 hk2).2
      obtain ⟨xa, xb, _, ha, hb, _⟩ := hbc (a + 1) (by omega) (by omega)
      exact ⟨by omega, h2, by simp [ha], by simp [hb], hbc⟩
    · have la := g.lx
      exact ⟨by omega, h2, (masked_nanMask_lt x a (by omega)).mp h3,
        (masked_nanMask_lt x (a + 1) (by omega)).mp h4, fun k h1 h2 => by omega⟩
  · rintro ⟨h1, h2, ha, hb, hbc⟩
    have la := g.lx
    by_cases hadj : b = a + 1
    · subst hadj
      exact Or.inr ⟨rfl, h2, (masked_nanMask_lt x a (by omega)).mpr ha,
        (masked_nanMask_lt x (a + 1) (by omega)).mpr hb⟩
    · refine Or.inl ⟨by omega, h2, fun k hk1 hk2 => ?_⟩
      have hk := hbc k hk1 hk2
      obtain ⟨_, _, xk, _, _, hxk, _⟩ := hbc k hk1 hk2
      exact ⟨masked_nanMask_of_some x k xk hxk,
        (vlt_slope_iff x t a b k (g.inc a k hk1 (by omega)) (g.inc a b h1 h2)).mpr hk⟩

/-- **natural visibility, kernel without missing-value treatment**, for *any*
series (NaN allowed): far pairs follow the criterion (a NaN still blocks), but
consecutive samples are linked unconditionally. -/
theorem nvg_nomask_general (x : List Val) (t : List Rat) (N : Nat) (g : Good x t none N) :
    ∃ log, kernelN x t none N = .ok log ∧
      ∀ a b, (a, b) ∈ log ↔ a < b ∧ b < N ∧ (b = a + 1 ∨ NVisible x t a b) := by
  obtain ⟨log, hlog, hmem⟩ := kernelN_spec x t _ N g
  refine ⟨log, hlog, ?_⟩
  intro a b
  rw [hmem]
  constructor
  · rintro (⟨h1, h2, h3⟩ | ⟨rfl, h2, _, _⟩)
    · have hbc : ∀ k, a < k → k < b → BelowChord x t a b k := fun k hk1 hk2 =>
        (vlt_slope_iff x t a b k (g.inc a k hk1 (by omega)) (g.inc a b (by omega) h2)).mp
          (h3 k hk1 hk2).2
      obtain ⟨xa, xb, _, ha, hb, _⟩ := hbc (a + 1) (by omega) (by omega)
      exact ⟨by omega, h2, Or.inr ⟨by simp [ha], by simp [hb], hbc⟩⟩
    · exact ⟨by omega, h2, Or.inl rfl⟩
  · rintro ⟨h1, h2, hadj | ⟨_, _, hbc⟩⟩
    · exact Or.inr ⟨hadj, h2, rfl, rfl⟩
    · by_cases hadj : b = a + 1
      · exact Or.inr ⟨hadj, h2, rfl, rfl⟩
      · refine Or.inl ⟨by omega, h2, fun k hk1 hk2 => ⟨rfl, ?_⟩⟩
        exact (vlt_slope_iff x t a b k (g.inc a k hk1 (by omega)) (g.inc a b h1 h2)).mpr
          (hbc k hk1 hk2)

/-- **natural visibility graph of a series without missing samples**: linked exactly
when every intermediate sample lies strictly below the chord. -/
theorem nvg_iff (x : List Val) (t : List Rat) (N : Nat) (g : Good x t none N)
    (hx : ∀ k, k < N → valAt x k ≠ none) :
    ∃ log, kernelN x t none N = .ok log ∧
      ∀ a b, (a, b) ∈ log ↔ a < b ∧ b < N ∧ NVisible x t a b := by
  obtain ⟨log, hlog, hmem⟩ := nvg_nomask_general x t N g
  refine ⟨log, hlog, ?_⟩
  intro a b
  rw [hmem]
  constructor
  · rintro ⟨h1, h2, rfl | h3⟩
    · exact ⟨h1, h2, hx a (by omega), hx (a + 1) h2, fun k h1 h2 => by omega⟩
    · exact ⟨h1, h2, h3⟩
  · rintro ⟨h1, h2, h3⟩
    exact ⟨h1, h2, Or.inr h3⟩

/-! ## horizontal visibility graph -/

/-- **horizontal kernel on a series without missing samples**: linked exactly when
every intermediate sample is strictly below both. -/
theorem hvg_iff (x : List Val) (N : Nat) (lx : N ≤ x.length)
    (hx : ∀ k, k < N → valAt x k ≠ none) :
    ∃ log, kernelH x N = .ok log ∧
      ∀ a b, (a, b) ∈ log ↔ a < b ∧ b < N ∧ HVisible x a b := by
  obtain ⟨log, hlog, hmem⟩ := kernelH_spec x N lx
  refine ⟨log, hlog, ?_⟩
  intro a b
  rw [hmem]
  have some_of : ∀ k, k < N → ∃ v : Rat, valAt x k = some v := fun k hk => by
    cases h : valAt x k with
    | none => exact absurd h (hx k hk)
    | some v => exact ⟨v, rfl⟩
  constructor
  · rintro (⟨h1, h2, h3⟩ | ⟨rfl, h2⟩)
    · obtain ⟨xa, ha⟩ := some_of a (by omega)
      obtain ⟨xb, hb⟩ := some_of b h2
      refine ⟨by omega, h2, xa, xb, ha, hb, fun k hk1 hk2 => ?_⟩
      have := h3 k hk1 hk2
      rw [ha, hb] at this
      exact (vlt_cmin_iff _ xa xb).mp this
    · obtain ⟨xa, ha⟩ := some_of a (by omega)
      obtain ⟨xb, hb⟩ := some_of (a + 1) h2
      exact ⟨by omega, h2, xa, xb, ha, hb, fun k h1 h2 => by omega⟩
  · rintro ⟨h1, h2, xa, xb, ha, hb, h3⟩
    by_cases hadj : b = a + 1
    · exact Or.inr ⟨hadj, h2⟩
    · refine Or.inl ⟨by omega, h2, fun k hk1 hk2 => ?_⟩
      rw [ha, hb]
      exact (vlt_cmin_iff _ xa xb).mpr (h3 k hk1 hk2)

end Pyunicorn.Visibility
