import Pyunicorn.Lemmas.Mpi
import Pyunicorn.Generated.ArithC19
import Pyunicorn.Generated.StructC19
/-!
# C19 — Distributed computation returns the serial result

* chunk arithmetic: stated about the definitions that `translate/gen_arith.py`
  regenerates from `core/network.py` on every run (`Generated.ArithC19`);
* structure of the three master loops: stated about `Generated.StructC19`
  (which `if`s enclose `mpi.submit_call` / `mpi.get_result`, how results are
  assembled);
* protocol and reassembly: stated about the model `Pyunicorn.Mpi`, tied to
  `utils/mpi.py` and to the master loops by the stand-in correspondence in
  `harness/c19.py`.
-/
namespace Pyunicorn.Mpi
open Pyunicorn.Generated

/-! ### chunk arithmetic of the current source -/

/-- `max_parts ≥ 1` for every communicator size and every `N` (all three loops). -/
theorem max_parts_pos (size N : Int) :
    1 ≤ ArithC19.newman_max_parts size N ∧ 1 ≤ ArithC19.nsinewman_max_parts size N ∧
    1 ≤ ArithC19.arenas_max_parts size N := by
  simp only [ArithC19.newman_max_parts, ArithC19.nsinewman_max_parts, ArithC19.arenas_max_parts]
  omega

/-- **Newman loop**: for all `N ≥ 1`, `max_parts ≥ 1` the chunks are non-empty
(the `break` is dead), start at 0, are contiguous and end at `N`. -/
theorem newman_chunks_partition (N mp : Int) (hN : 1 ≤ N) (hmp : 1 ≤ mp) :
    let step := ArithC19.newman_step N mp
    let parts := ArithC19.newman_parts N step
    1 ≤ step ∧ 1 ≤ parts ∧ ArithC19.newman_start 0 step = 0 ∧
    (∀ idx, 0 ≤ idx → idx < parts →
        ArithC19.newman_start idx step < ArithC19.newman_end idx step N) ∧
    (∀ idx, 0 ≤ idx → idx + 1 < parts →
        ArithC19.newman_end idx step N = ArithC19.newman_start (idx + 1) step) ∧
    ArithC19.newman_end (parts - 1) step N = N := by
  have := chunk_facts N mp hN hmp
  simp only [ArithC19.newman_step, ArithC19.newman_parts, ArithC19.newman_start,
    ArithC19.newman_end, ArithC19.ceilDiv] at *
  obtain ⟨h1, h2, h3, h4, h5⟩ := this
  exact ⟨h1, h2, by simp, h3, h4, h5⟩

/-- **n.s.i. Newman loop**: same statement. -/
theorem nsinewman_chunks_partition (N mp : Int) (hN : 1 ≤ N) (hmp : 1 ≤ mp) :
    let step := ArithC19.nsinewman_step N mp
    let parts := ArithC19.nsinewman_parts N step
    1 ≤ step ∧ 1 ≤ parts ∧ ArithC19.nsinewman_start 0 step = 0 ∧
    (∀ idx, 0 ≤ idx → idx < parts →
        ArithC19.nsinewman_start idx step < ArithC19.nsinewman_end idx step N) ∧
    (∀ idx, 0 ≤ idx → idx + 1 < parts →
        ArithC19.nsinewman_end idx step N = ArithC19.nsinewman_start (idx + 1) step) ∧
    ArithC19.nsinewman_end (parts - 1) step N = N := by
  have := chunk_facts N mp hN hmp
  simp only [ArithC19.nsinewman_step, ArithC19.nsinewman_parts, ArithC19.nsinewman_start,
    ArithC19.nsinewman_end, ArithC19.ceilDiv] at *
  obtain ⟨h1, h2, h3, h4, h5⟩ := this
  exact ⟨h1, h2, by simp, h3, h4, h5⟩

/-- **n.s.i. Arenas loop**: same statement. -/
theorem arenas_chunks_partition (N mp : Int) (hN : 1 ≤ N) (hmp : 1 ≤ mp) :
    let step := ArithC19.arenas_step N mp
    let parts := ArithC19.arenas_parts N step
    1 ≤ step ∧ 1 ≤ parts ∧ ArithC19.arenas_start 0 step = 0 ∧
    (∀ idx, 0 ≤ idx → idx < parts →
        ArithC19.arenas_start idx step < ArithC19.arenas_end idx step N) ∧
    (∀ idx, 0 ≤ idx → idx + 1 < parts →
        ArithC19.arenas_end idx step N = ArithC19.arenas_start (idx + 1) step) ∧
    ArithC19.arenas_end (parts - 1) step N = N := by
  have := chunk_facts N mp hN hmp
  simp only [ArithC19.arenas_step, ArithC19.arenas_parts, ArithC19.arenas_start,
    ArithC19.arenas_end, ArithC19.ceilDiv] at *
  obtain ⟨h1, h2, h3, h4, h5⟩ := this
  exact ⟨h1, h2, by simp, h3, h4, h5⟩

example : ArithC19.newman_step 7 3 = 3 ∧ ArithC19.newman_parts 7 3 = 3 ∧
    ArithC19.newman_end 2 3 7 = 7 := by decide

/-! ### structure of the master loops in the current source -/

/-- **verbosity independence**: in each loop `mpi.submit_call` and `mpi.get_result`
sit under exactly the same conditions (in particular none mentions
`silence_level`), there is one submit site, and the id submitted is the id
retrieved. -/
theorem submit_iff_retrieved :
    StructC19.newman_submit_conditions = StructC19.newman_get_conditions ∧
    StructC19.nsinewman_submit_conditions = StructC19.nsinewman_get_conditions ∧
    StructC19.arenas_submit_conditions = StructC19.arenas_get_conditions ∧
    StructC19.newman_submit_id = StructC19.newman_get_id ∧
    StructC19.nsinewman_submit_id = StructC19.nsinewman_get_id ∧
    StructC19.arenas_submit_id = StructC19.arenas_get_id ∧
    StructC19.newman_n_submit_sites = 1 ∧ StructC19.nsinewman_n_submit_sites = 1 ∧
    StructC19.arenas_n_submit_sites = 1 := by decide

theorem assembly_kinds :
    StructC19.newman_assembly = "slice" ∧ StructC19.nsinewman_assembly = "slice" ∧
    StructC19.arenas_assembly = "add" := by decide

/-! ### protocol: retrieval in submission order is always admissible -/

/-- **FIFO respected** — for every number of chunks and *every* assignment of calls
to workers (whatever `argmin(total_time_est)` picks, whatever the worker count),
submitting ids `0..parts-1` and then retrieving them in the same order never
raises, and the `k`-th retrieval receives the result of call `k`. -/
theorem fifo_respected (parts : Nat) (slaveOf : Nat → Nat) :
    masterRun parts slaveOf true = .ok (List.range parts) := by
  unfold masterRun
  obtain ⟨s, hs, hr⟩ := rep_submitAll slaveOf (List.range parts) MState.init []
    (rep_init slaveOf) (by simpa using List.nodup_range)
  simp only [if_true, hs]
  obtain ⟨s', hs'⟩ := rep_getAll slaveOf (List.range parts) s (by simpa using hr) List.nodup_range
  simp [hs']

/-- if the submission is skipped (the pinned `nsi_arenas_betweenness` did this for
`silence_level > 0`) the first retrieval fails with `KeyError`. -/
theorem unsubmitted_fails (parts : Nat) (slaveOf : Nat → Nat) :
    masterRun (parts + 1) slaveOf false = .error .keyError := by
  simp [masterRun, List.range_succ_eq_map, getAll, getResult, MState.init, lookup]

example : masterRun 5 (fun i => i % 2 + 1) true = .ok [0, 1, 2, 3, 4] := by rfl

/-! ### reassembly -/

/-- value at position `j` after slice-assigning any list of chunk results, in any
order (even overlapping): `f j` if some chunk covers `j`, the initial zero otherwise. -/
theorem assemble_get (zero : α) (N : Nat) (f : Nat → α) (cs : List (Nat × Nat))
    (hcs : ∀ c ∈ cs, c.1 ≤ c.2 ∧ c.2 ≤ N) (j : Nat) (hj : j < N) [DecidableEq α] :
    (assemble zero N f cs)[j]? =
      some (if cs.any (fun c => decide (c.1 ≤ j ∧ j < c.2)) then f j else zero) := by
  unfold assemble
  suffices H : ∀ (acc : List α), acc.length = N → ∀ (b : Bool),
      acc[j]? = some (if b then f j else zero) →
      (cs.foldl (fun acc c => assignSlice acc c.1 (chunkResult f c)) acc)[j]? =
        some (if b || cs.any (fun c => decide (c.1 ≤ j ∧ j < c.2)) then f j else zero) by
    have := H (List.replicate N zero) (by simp) false (by simp [hj])
    simp only [Bool.false_or] at this
    exact this
  induction cs with
  | nil => intro acc _ b h; simpa using h
  | cons c t ih =>
    intro acc hlen b hacc
    have hc := hcs c (by simp)
    have hlen' : c.1 + (chunkResult f c).length ≤ acc.length := by
      rw [chunkResult_length]; omega
    have := ih (fun c' hc' => hcs c' (by simp [hc']))
      (assignSlice acc c.1 (chunkResult f c))
      (by rw [assignSlice_length _ _ _ hlen', hlen])
      (b || decide (c.1 ≤ j ∧ j < c.2))
      (by
        rw [assignSlice_get _ _ _ hlen', chunkResult_length]
        by_cases hin : c.1 ≤ j ∧ j < c.2
        · have h2 : c.1 ≤ j ∧ j < c.1 + (c.2 - c.1) := by omega
          rw [if_pos h2, chunkResult_get f c (j - c.1) (by omega)]
          have : c.1 + (j - c.1) = j := by omega
          simp [hin, this]
        · have h2 : ¬ (c.1 ≤ j ∧ j < c.1 + (c.2 - c.1)) := by omega
          rw [if_neg h2, hacc]
          simp [hin])
    simp only [List.foldl_cons, List.any_cons, ← Bool.or_assoc]
    exact this

theorem assemble_length (zero : α) (N : Nat) (f : Nat → α) (cs : List (Nat × Nat))
    (hcs : ∀ c ∈ cs, c.1 ≤ c.2 ∧ c.2 ≤ N) : (assemble zero N f cs).length = N := by
  unfold assemble
  suffices H : ∀ acc : List α, acc.length = N →
      (cs.foldl (fun acc c => assignSlice acc c.1 (chunkResult f c)) acc).length = N from
    H _ (by simp)
  induction cs with
  | nil => intro acc h; simpa using h
  | cons c t ih =>
    intro acc h
    have hc := hcs c (by simp)
    have hl : (assignSlice acc c.1 (chunkResult f c)).length = N := by
      rw [assignSlice_length _ _ _ (by rw [chunkResult_length]; omega), h]
    exact ih (fun c' hc' => hcs c' (by simp [hc'])) _ hl

/-- **slice assembly = serial result** for every family of chunks that covers the
node range — whatever their number, sizes and the order in which they are
written. -/
theorem assemble_eq_serial (zero : α) (N : Nat) (f : Nat → α) (cs : List (Nat × Nat))
    (hcs : ∀ c ∈ cs, c.1 ≤ c.2 ∧ c.2 ≤ N)
    (hcover : ∀ j, j < N → ∃ c ∈ cs, c.1 ≤ j ∧ j < c.2) [DecidableEq α] :
    assemble zero N f cs = (List.range N).map f := by
  apply List.ext_getElem?
  intro j
  by_cases hj : j < N
  · rw [assemble_get zero N f cs hcs j hj]
    obtain ⟨c, hc, h1, h2⟩ := hcover j hj
    have : cs.any (fun c => decide (c.1 ≤ j ∧ j < c.2)) = true := by
      rw [List.any_eq_true]; exact ⟨c, hc, by simp [h1, h2]⟩
    rw [this]
    simp [hj]
  · have hlen := assemble_length zero N f cs hcs
    rw [List.getElem?_eq_none (by omega), List.getElem?_eq_none (by simp; omega)]

/-- **the master's own chunks reassemble to the serial result**: with the facts
`1 ≤ step`, `(parts-1)·step < N ≤ parts·step` (which `*_chunks_partition` establish
for the arithmetic of the current source) slice-assembling the chunk results gives
exactly `[f 0, …, f (N-1)]`. -/
theorem master_chunks_assemble (zero : α) (N step parts : Nat) (f : Nat → α) [DecidableEq α]
    (hstep : 1 ≤ step) (hlo : (parts - 1) * step < N) (hhi : N ≤ parts * step) :
    assemble zero N f (chunks N step parts) = (List.range N).map f := by
  apply assemble_eq_serial
  · intro c hc
    simp only [chunks, List.mem_map, List.mem_range] at hc
    obtain ⟨idx, hidx, rfl⟩ := hc
    have h1 : idx * step ≤ (parts - 1) * step := Nat.mul_le_mul_right _ (by omega)
    have h2 : (idx + 1) * step = idx * step + step := by rw [Nat.add_mul]; omega
    simp only
    omega
  · intro j hj
    have hdl : j / step < parts := (Nat.div_lt_iff_lt_mul (by omega)).mpr (by omega)
    refine ⟨(j / step * step, min ((j / step + 1) * step) N), ?_, ?_, ?_⟩
    · simp only [chunks, List.mem_map, List.mem_range]
      exact ⟨j / step, hdl, rfl⟩
    · exact Nat.div_mul_le_self j step
    · have : j < (j / step + 1) * step := by
        rw [Nat.add_mul, Nat.one_mul]
        have h1 := Nat.div_add_mod j step
        have h2 := Nat.mod_lt j (show step > 0 by omega)
        have h3 : step * (j / step) = j / step * step := Nat.mul_comm _ _
        omega
      simp only
      omega

example : assemble 0 7 (fun i => i * i) (chunks 7 3 3) = [0, 1, 4, 9, 16, 25, 36] := by decide

/-! ### additive assembly (n.s.i. Arenas; multiprocessing pool) -/

/-- rows `a..b-1` summed, column `j` -/
def rowSum (f : Nat → Nat → Int) (a b j : Nat) : Int :=
  ((List.range (b - a)).map fun k => f (a + k) j).sum

theorem rowSum_split (f : Nat → Nat → Int) (a b c j : Nat) (h1 : a ≤ b) (h2 : b ≤ c) :
    rowSum f a c j = rowSum f a b j + rowSum f b c j := by
  unfold rowSum
  have hc : c - a = (b - a) + (c - b) := by omega
  rw [hc, List.range_add, List.map_append, List.sum_append, List.map_map]
  congr 2
  apply List.map_congr_left
  intro k _
  simp only [Function.comp_def]
  congr 1; omega

theorem addVec_get (a b : List Int) (j : Nat) (x y : Int) (ha : a[j]? = some x)
    (hb : b[j]? = some y) : (addVec a b)[j]? = some (x + y) := by
  simp [addVec, List.getElem?_zipWith, ha, hb]

theorem addVec_length (a b : List Int) (h : a.length = b.length) :
    (addVec a b).length = a.length := by
  simp [addVec, h]

theorem partialResult_get (N : Nat) (f : Nat → Nat → Int) (c : Nat × Nat) (j : Nat) (hj : j < N) :
    (partialResult N f c)[j]? = some (rowSum f c.1 c.2 j) := by
  simp [partialResult, rowSum, hj]

/-- **additive assembly = serial result**: adding the partial results of the chunks
`[a₀,a₁), [a₁,a₂), …, [a_{m-1},a_m)` (given by their boundaries `a₀ ≤ a₁ ≤ … ≤ a_m`)
gives, in every column, the sum over all rows `a₀ … a_m - 1` — what the single call
`(0, N)` of the serial branch computes. -/
theorem sum_assemble_eq_serial (N : Nat) (f : Nat → Nat → Int) (a0 : Nat) (bounds : List Nat)
    (hmono : List.Pairwise (· ≤ ·) (a0 :: bounds)) (j : Nat) (hj : j < N) :
    (assembleSum N f ((a0 :: bounds).zip bounds))[j]? =
      some (rowSum f a0 ((a0 :: bounds).getLast (by simp)) j) := by
  unfold assembleSum
  suffices H : ∀ (bs : List Nat) (a : Nat) (acc : List Int), acc.length = N →
      List.Pairwise (· ≤ ·) (a :: bs) → a0 ≤ a → acc[j]? = some (rowSum f a0 a j) →
      (((a :: bs).zip bs).foldl (fun acc c => addVec acc (partialResult N f c)) acc)[j]? =
        some (rowSum f a0 ((a :: bs).getLast (by simp)) j) by
    exact H bounds a0 (List.replicate N 0) (by simp) hmono (Nat.le_refl _)
      (by simp [rowSum, hj])
  intro bs
  induction bs with
  | nil => intro a acc _ _ _ h; simpa using h
  | cons b t ih =>
    intro a acc hlen hm ha hacc
    have hab : a ≤ b := by
      have := List.pairwise_cons.mp hm
      exact this.1 b (by simp)
    have hm' : List.Pairwise (· ≤ ·) (b :: t) := (List.pairwise_cons.mp hm).2
    have := ih b (addVec acc (partialResult N f (a, b)))
      (by rw [addVec_length _ _ (by simp [partialResult, hlen]), hlen]) hm' (by omega)
      (by
        rw [addVec_get acc _ j _ _ hacc (partialResult_get N f (a, b) j hj)]
        rw [rowSum_split f a0 a b j ha hab])
    simpa [List.zip_cons_cons, List.foldl_cons] using this

example : (assembleSum 2 (fun i j => (i : Int) + j) [(0, 2), (2, 3)])[1]? = some 6 := by decide

end Pyunicorn.Mpi
