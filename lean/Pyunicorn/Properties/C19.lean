import Pyunicorn.Lemmas.Mpi
import Pyunicorn.Lemmas.MpiProto
import Pyunicorn.Lemmas.MpiChunk
import Pyunicorn.Lemmas.MpiTerm
import Pyunicorn.Lemmas.MpiErr
import Pyunicorn.Lemmas.MpiCount
import Pyunicorn.Lemmas.MpiPool
import Pyunicorn.Model.MpiKernels
import Pyunicorn.Generated.ArithC19
import Pyunicorn.Generated.StructC19
/-!
# C19 — Distributed computation returns the serial result

* chunk arithmetic: stated about the definitions that `translate/gen_arith.py`
  regenerates from `core/network.py` on every run (`Generated.ArithC19`);
* structure of the three master loops: stated about `Generated.StructC19`
  (which `if`s enclose `mpi.submit_call` / `mpi.get_result`, how results are
  assembled);
* protocol and reassembly: stated about the model `Pyunicorn.Mpi`, tied to
  `utils/mpi.py` and to the master loops by the stand-in correspondence in
  `harness/c19.py`.
-/
namespace Pyunicorn.Mpi
open Pyunicorn.Generated

/-! ### chunk arithmetic of the current source -/

/-- `max_parts ≥ 1` for every communicator size and every `N` (all three loops). -/
theorem max_parts_pos (size N : Int) :
    1 ≤ ArithC19.newman_max_parts size N ∧ 1 ≤ ArithC19.nsinewman_max_parts size N ∧
    1 ≤ ArithC19.arenas_max_parts size N := by
  simp only [ArithC19.newman_max_parts, ArithC19.nsinewman_max_parts, ArithC19.arenas_max_parts]
  omega

/-- **Newman loop**: for all `N ≥ 1`, `max_parts ≥ 1` the chunks are non-empty
(the `break` is dead), start at 0, are contiguous and end at `N`. -/
theorem newman_chunks_partition (N mp : Int) (hN : 1 ≤ N) (hmp : 1 ≤ mp) :
    let step := ArithC19.newman_step N mp
    let parts := ArithC19.newman_parts N step
    1 ≤ step ∧ 1 ≤ parts ∧ ArithC19.newman_start 0 step = 0 ∧
    (∀ idx, 0 ≤ idx → idx < parts →
        ArithC19.newman_start idx step < ArithC19.newman_end idx step N) ∧
    (∀ idx, 0 ≤ idx → idx + 1 < parts →
        ArithC19.newman_end idx step N = ArithC19.newman_start (idx + 1) step) ∧
    ArithC19.newman_end (parts - 1) step N = N := by
  have := chunk_facts N mp hN hmp
  simp only [ArithC19.newman_step, ArithC19.newman_parts, ArithC19.newman_start,
    ArithC19.newman_end, ArithC19.ceilDiv] at *
  obtain ⟨h1, h2, h3, h4, h5⟩ := this
  exact ⟨h1, h2, by simp, h3, h4, h5⟩

/-- **n.s.i. Newman loop**: same statement. -/
theorem nsinewman_chunks_partition (N mp : Int) (hN : 1 ≤ N) (hmp : 1 ≤ mp) :
    let step := ArithC19.nsinewman_step N mp
    let parts := ArithC19.nsinewman_parts N step
    1 ≤ step ∧ 1 ≤ parts ∧ ArithC19.nsinewman_start 0 step = 0 ∧
    (∀ idx, 0 ≤ idx → idx < parts →
        ArithC19.nsinewman_start idx step < ArithC19.nsinewman_end idx step N) ∧
    (∀ idx, 0 ≤ idx → idx + 1 < parts →
        ArithC19.nsinewman_end idx step N = ArithC19.nsinewman_start (idx + 1) step) ∧
    ArithC19.nsinewman_end (parts - 1) step N = N := by
  have := chunk_facts N mp hN hmp
  simp only [ArithC19.nsinewman_step, ArithC19.nsinewman_parts, ArithC19.nsinewman_start,
    ArithC19.nsinewman_end, ArithC19.ceilDiv] at *
  obtain ⟨h1, h2, h3, h4, h5⟩ := this
  exact ⟨h1, h2, by simp, h3, h4, h5⟩

/-- **n.s.i. Arenas loop**: same statement. -/
theorem arenas_chunks_partition (N mp : Int) (hN : 1 ≤ N) (hmp : 1 ≤ mp) :
    let step := ArithC19.arenas_step N mp
    let parts := ArithC19.arenas_parts N step
    1 ≤ step ∧ 1 ≤ parts ∧ ArithC19.arenas_start 0 step = 0 ∧
    (∀ idx, 0 ≤ idx → idx < parts →
        ArithC19.arenas_start idx step < ArithC19.arenas_end idx step N) ∧
    (∀ idx, 0 ≤ idx → idx + 1 < parts →
        ArithC19.arenas_end idx step N = ArithC19.arenas_start (idx + 1) step) ∧
    ArithC19.arenas_end (parts - 1) step N = N := by
  have := chunk_facts N mp hN hmp
  simp only [ArithC19.arenas_step, ArithC19.arenas_parts, ArithC19.arenas_start,
    ArithC19.arenas_end, ArithC19.ceilDiv] at *
  obtain ⟨h1, h2, h3, h4, h5⟩ := this
  exact ⟨h1, h2, by simp, h3, h4, h5⟩

example : ArithC19.newman_step 7 3 = 3 ∧ ArithC19.newman_parts 7 3 = 3 ∧
    ArithC19.newman_end 2 3 7 = 7 := by decide

/-! ### structure of the master loops in the current source -/

/-- **verbosity independence**: in each loop `mpi.submit_call` and `mpi.get_result`
sit under exactly the same conditions (in particular none mentions
`silence_level`), there is one submit site, and the id submitted is the id
retrieved. -/
theorem submit_iff_retrieved :
    StructC19.newman_submit_conditions = StructC19.newman_get_conditions ∧
    StructC19.nsinewman_submit_conditions = StructC19.nsinewman_get_conditions ∧
    StructC19.arenas_submit_conditions = StructC19.arenas_get_conditions ∧
    StructC19.newman_submit_id = StructC19.newman_get_id ∧
    StructC19.nsinewman_submit_id = StructC19.nsinewman_get_id ∧
    StructC19.arenas_submit_id = StructC19.arenas_get_id ∧
    StructC19.newman_n_submit_sites = 1 ∧ StructC19.nsinewman_n_submit_sites = 1 ∧
    StructC19.arenas_n_submit_sites = 1 := by decide

theorem assembly_kinds :
    StructC19.newman_assembly = "slice" ∧ StructC19.nsinewman_assembly = "slice" ∧
    StructC19.arenas_assembly = "add" := by decide

/-! ### protocol: retrieval in submission order is always admissible -/

/-- **FIFO respected** — for every number of chunks and *every* assignment of calls
to workers (whatever `argmin(total_time_est)` picks, whatever the worker count),
submitting ids `0..parts-1` and then retrieving them in the same order never
raises, and the `k`-th retrieval receives the result of call `k`. -/
theorem fifo_respected (parts : Nat) (slaveOf : Nat → Nat) :
    masterRun parts slaveOf true = .ok (List.range parts) := by
  unfold masterRun
  obtain ⟨s, hs, hr⟩ := rep_submitAll slaveOf (List.range parts) MState.init []
    (rep_init slaveOf) (by simpa using List.nodup_range)
  simp only [if_true, hs]
  obtain ⟨s', hs'⟩ := rep_getAll slaveOf (List.range parts) s (by simpa using hr) List.nodup_range
  simp [hs']

/-- if the submission is skipped (the pinned `nsi_arenas_betweenness` did this for
`silence_level > 0`) the first retrieval fails with `KeyError`. -/
theorem unsubmitted_fails (parts : Nat) (slaveOf : Nat → Nat) :
    masterRun (parts + 1) slaveOf false = .error .keyError := by
  simp [masterRun, List.range_succ_eq_map, getAll, getResult, MState.init, lookup]

example : masterRun 5 (fun i => i % 2 + 1) true = .ok [0, 1, 2, 3, 4] := by rfl

/-! ### reassembly -/

/-- value at position `j` after slice-assigning any list of chunk results, in any
order (even overlapping): `f j` if some chunk covers `j`, the initial zero otherwise. -/
theorem assemble_get (zero : α) (N : Nat) (f : Nat → α) (cs : List (Nat × Nat))
    (hcs : ∀ c ∈ cs, c.1 ≤ c.2 ∧ c.2 ≤ N) (j : Nat) (hj : j < N) [DecidableEq α] :
    (assemble zero N f cs)[j]? =
      some (if cs.any (fun c => decide (c.1 ≤ j ∧ j < c.2)) then f j else zero) := by
  unfold assemble
  suffices H : ∀ (acc : List α), acc.length = N → ∀ (b : Bool),
      acc[j]? = some (if b then f j else zero) →
      (cs.foldl (fun acc c => assignSlice acc c.1 (chunkResult f c)) acc)[j]? =
        some (if b || cs.any (fun c => decide (c.1 ≤ j ∧ j < c.2)) then f j else zero) by
    have := H (List.replicate N zero) (by simp) false (by simp [hj])
    simp only [Bool.false_or] at this
    exact this
  induction cs with
  | nil => intro acc _ b h; simpa using h
  | cons c t ih =>
    intro acc hlen b hacc
    have hc := hcs c (by simp)
    have hlen' : c.1 + (chunkResult f c).length ≤ acc.length := by
      rw [chunkResult_length]; omega
    have := ih (fun c' hc' => hcs c' (by simp [hc']))
      (assignSlice acc c.1 (chunkResult f c))
      (by rw [assignSlice_length _ _ _ hlen', hlen])
      (b || decide (c.1 ≤ j ∧ j < c.2))
      (by
        rw [assignSlice_get _ _ _ hlen', chunkResult_length]
        by_cases hin : c.1 ≤ j ∧ j < c.2
        · have h2 : c.1 ≤ j ∧ j < c.1 + (c.2 - c.1) := by omega
          rw [if_pos h2, chunkResult_get f c (j - c.1) (by omega)]
          have : c.1 + (j - c.1) = j := by omega
          simp [hin, this]
        · have h2 : ¬ (c.1 ≤ j ∧ j < c.1 + (c.2 - c.1)) := by omega
          rw [if_neg h2, hacc]
          simp [hin])
    simp only [List.foldl_cons, List.any_cons, ← Bool.or_assoc]
    exact this

theorem assemble_length (zero : α) (N : Nat) (f : Nat → α) (cs : List (Nat × Nat))
    (hcs : ∀ c ∈ cs, c.1 ≤ c.2 ∧ c.2 ≤ N) : (assemble zero N f cs).length = N := by
  unfold assemble
  suffices H : ∀ acc : List α, acc.length = N →
      (cs.foldl (fun acc c => assignSlice acc c.1 (chunkResult f c)) acc).length = N from
    H _ (by simp)
  induction cs with
  | nil => intro acc h; simpa using h
  | cons c t ih =>
    intro acc h
    have hc := hcs c (by simp)
    have hl : (assignSlice acc c.1 (chunkResult f c)).length = N := by
      rw [assignSlice_length _ _ _ (by rw [chunkResult_length]; omega), h]
    exact ih (fun c' hc' => hcs c' (by simp [hc'])) _ hl

/-- **slice assembly = serial result** for every family of chunks that covers the
node range — whatever their number, sizes and the order in which they are
written. -/
theorem assemble_eq_serial (zero : α) (N : Nat) (f : Nat → α) (cs : List (Nat × Nat))
    (hcs : ∀ c ∈ cs, c.1 ≤ c.2 ∧ c.2 ≤ N)
    (hcover : ∀ j, j < N → ∃ c ∈ cs, c.1 ≤ j ∧ j < c.2) [DecidableEq α] :
    assemble zero N f cs = (List.range N).map f := by
  apply List.ext_getElem?
  intro j
  by_cases hj : j < N
  · rw [assemble_get zero N f cs hcs j hj]
    obtain ⟨c, hc, h1, h2⟩ := hcover j hj
    have : cs.any (fun c => decide (c.1 ≤ j ∧ j < c.2)) = true := by
      rw [List.any_eq_true]; exact ⟨c, hc, by simp [h1, h2]⟩
    rw [this]
    simp [hj]
  · have hlen := assemble_length zero N f cs hcs
    rw [List.getElem?_eq_none (by omega), List.getElem?_eq_none (by simp; omega)]

/-- **the master's own chunks reassemble to the serial result**: with the facts
`1 ≤ step`, `(parts-1)·step < N ≤ parts·step` (which `*_chunks_partition` establish
for the arithmetic of the current source) slice-assembling the chunk results gives
exactly `[f 0, …, f (N-1)]`. -/
theorem master_chunks_assemble (zero : α) (N step parts : Nat) (f : Nat → α) [DecidableEq α]
    (hstep : 1 ≤ step) (hlo : (parts - 1) * step < N) (hhi : N ≤ parts * step) :
    assemble zero N f (chunks N step parts) = (List.range N).map f := by
  apply assemble_eq_serial
  · intro c hc
    simp only [chunks, List.mem_map, List.mem_range] at hc
    obtain ⟨idx, hidx, rfl⟩ := hc
    have h1 : idx * step ≤ (parts - 1) * step := Nat.mul_le_mul_right _ (by omega)
    have h2 : (idx + 1) * step = idx * step + step := by rw [Nat.add_mul]; omega
    simp only
    omega
  · intro j hj
    have hdl : j / step < parts := (Nat.div_lt_iff_lt_mul (by omega)).mpr (by omega)
    refine ⟨(j / step * step, min ((j / step + 1) * step) N), ?_, ?_, ?_⟩
    · simp only [chunks, List.mem_map, List.mem_range]
      exact ⟨j / step, hdl, rfl⟩
    · exact Nat.div_mul_le_self j step
    · have : j < (j / step + 1) * step := by
        rw [Nat.add_mul, Nat.one_mul]
        have h1 := Nat.div_add_mod j step
        have h2 := Nat.mod_lt j (show step > 0 by omega)
        have h3 : step * (j / step) = j / step * step := Nat.mul_comm _ _
        omega
      simp only
      omega

example : assemble 0 7 (fun i => i * i) (chunks 7 3 3) = [0, 1, 4, 9, 16, 25, 36] := by decide

/-! ### additive assembly (n.s.i. Arenas; multiprocessing pool) -/

/-- rows `a..b-1` summed, column `j` -/
def rowSum (f : Nat → Nat → Int) (a b j : Nat) : Int :=
  ((List.range (b - a)).map fun k => f (a + k) j).sum

theorem rowSum_split (f : Nat → Nat → Int) (a b c j : Nat) (h1 : a ≤ b) (h2 : b ≤ c) :
    rowSum f a c j = rowSum f a b j + rowSum f b c j := by
  unfold rowSum
  have hc : c - a = (b - a) + (c - b) := by omega
  rw [hc, List.range_add, List.map_append, List.sum_append, List.map_map]
  congr 2
  apply List.map_congr_left
  intro k _
  simp only [Function.comp_def]
  congr 1; omega

theorem addVec_get (a b : List Int) (j : Nat) (x y : Int) (ha : a[j]? = some x)
    (hb : b[j]? = some y) : (addVec a b)[j]? = some (x + y) := by
  simp [addVec, List.getElem?_zipWith, ha, hb]

theorem addVec_length (a b : List Int) (h : a.length = b.length) :
    (addVec a b).length = a.length := by
  simp [addVec, h]

theorem partialResult_get (N : Nat) (f : Nat → Nat → Int) (c : Nat × Nat) (j : Nat) (hj : j < N) :
    (partialResult N f c)[j]? = some (rowSum f c.1 c.2 j) := by
  simp [partialResult, rowSum, hj]

/-- **additive assembly = serial result**: adding the partial results of the chunks
`[a₀,a₁), [a₁,a₂), …, [a_{m-1},a_m)` (given by their boundaries `a₀ ≤ a₁ ≤ … ≤ a_m`)
gives, in every column, the sum over all rows `a₀ … a_m - 1` — what the single call
`(0, N)` of the serial branch computes. -/
theorem sum_assemble_eq_serial (N : Nat) (f : Nat → Nat → Int) (a0 : Nat) (bounds : List Nat)
    (hmono : List.Pairwise (· ≤ ·) (a0 :: bounds)) (j : Nat) (hj : j < N) :
    (assembleSum N f ((a0 :: bounds).zip bounds))[j]? =
      some (rowSum f a0 ((a0 :: bounds).getLast (by simp)) j) := by
  unfold assembleSum
  suffices H : ∀ (bs : List Nat) (a : Nat) (acc : List Int), acc.length = N →
      List.Pairwise (· ≤ ·) (a :: bs) → a0 ≤ a → acc[j]? = some (rowSum f a0 a j) →
      (((a :: bs).zip bs).foldl (fun acc c => addVec acc (partialResult N f c)) acc)[j]? =
        some (rowSum f a0 ((a :: bs).getLast (by simp)) j) by
    exact H bounds a0 (List.replicate N 0) (by simp) hmono (Nat.le_refl _)
      (by simp [rowSum, hj])
  intro bs
  induction bs with
  | nil => intro a acc _ _ _ h; simpa using h
  | cons b t ih =>
    intro a acc hlen hm ha hacc
    have hab : a ≤ b := by
      have := List.pairwise_cons.mp hm
      exact this.1 b (by simp)
    have hm' : List.Pairwise (· ≤ ·) (b :: t) := (List.pairwise_cons.mp hm).2
    have := ih b (addVec acc (partialResult N f (a, b)))
      (by rw [addVec_length _ _ (by simp [partialResult, hlen]), hlen]) hm' (by omega)
      (by
        rw [addVec_get acc _ j _ _ hacc (partialResult_get N f (a, b) j hj)]
        rw [rowSum_split f a0 a b j ha hab])
    simpa [List.zip_cons_cons, List.foldl_cons] using this

example : (assembleSum 2 (fun i j => (i : Int) + j) [(0, 2), (2, 3)])[1]? = some 6 := by decide

end Pyunicorn.Mpi

/-! ## Round 3 — the whole protocol of `utils/mpi.py` as a state machine

Model: `Pyunicorn.MpiProto` (master `submit_call` with slave selection by accumulated
time estimates, `get_result`, `get_next_result`, `terminate()` at the end of `run()`,
the slaves' `serve()` loop, one FIFO channel per direction and slave).  A schedule is
any list of ranks (0 = master); a rank that cannot move is skipped, so the theorems
below quantify over *every* interleaving of master steps, slave steps and message
deliveries.  `spec*` is the communicator-free meaning of the master's calls. -/
namespace Pyunicorn.MpiProto
open Pyunicorn.Mpi (lookup)
open Pyunicorn.Generated

variable {α β : Type}

/-- **Refinement, every schedule.**  For every number of ranks `size ≥ 2`, every master
program (ids, payloads, time estimates, explicit `slave=` arguments), every schedule:
as long as no call has raised, the values `get_result` / `get_next_result` have
returned so far and the calls still pending are exactly what the communicator-free
specification prescribes for the calls made so far — `get_result(id)` returns the
result of the job submitted under `id`. -/
theorem mpi_refines_spec (f : α → β) (size : Nat) (hsize : 2 ≤ size) (prog : List (Op α))
    (cs : List Nat) :
    let st := run f (init (β := β) size prog) cs
    st.err = none →
      specRun f (st.queue, st.got) st.prog = specRun f ([], []) prog := by
  intro st herr
  exact (inv_runSched f prog cs _ (inv_init f size prog hsize)).S herr

/-- **Completed runs return the specified results**, whatever the schedule, the number
of slaves and the time estimates were. -/
theorem finished_run_eq_spec (f : α → β) (size : Nat) (hsize : 2 ≤ size) (prog : List (Op α))
    (cs : List Nat) :
    let st := run f (init (β := β) size prog) cs
    st.err = none → st.finished = true →
      specRun f ([], []) prog = .ok (st.queue, st.got) := by
  intro st herr hfin
  have hinv := inv_runSched f prog cs _ (inv_init f size prog hsize)
  have := hinv.S herr
  rw [hinv.finProg hfin] at this
  exact this.symm

/-- the specification ignores time estimates and `slave=` arguments -/
def eraseHints : Op α → Op α
  | .submit id p _ _ => .submit id p 1 none
  | op => op

theorem specRun_eraseHints (f : α → β) (s : List (Nat × α) × List (Nat × β)) (prog : List (Op α)) :
    specRun f s (prog.map eraseHints) = specRun f s prog := by
  induction prog generalizing s with
  | nil => rfl
  | cons op t ih =>
    cases op <;> simp only [List.map_cons, specRun, specStep, eraseHints] <;> split <;> simp_all

/-- **Independence of worker count, time estimates, `slave=` arguments and schedule**:
two completed error-free runs of master programs that differ only in time estimates
and `slave=` arguments, on worlds of any two sizes, under any two schedules, return
the same values in the same order (and leave the same calls pending). -/
theorem results_independent (f : α → β) (size₁ size₂ : Nat) (h₁ : 2 ≤ size₁) (h₂ : 2 ≤ size₂)
    (prog₁ prog₂ : List (Op α)) (hsame : prog₁.map eraseHints = prog₂.map eraseHints)
    (cs₁ cs₂ : List Nat) :
    let st₁ := run f (init (β := β) size₁ prog₁) cs₁
    let st₂ := run f (init (β := β) size₂ prog₂) cs₂
    st₁.err = none → st₁.finished = true → st₂.err = none → st₂.finished = true →
      st₁.got = st₂.got ∧ st₁.queue = st₂.queue := by
  intro st₁ st₂ e₁ f₁ e₂ f₂
  have a := finished_run_eq_spec f size₁ h₁ prog₁ cs₁ e₁ f₁
  have b := finished_run_eq_spec f size₂ h₂ prog₂ cs₂ e₂ f₂
  rw [← specRun_eraseHints, hsame, specRun_eraseHints, b] at a
  have := Except.ok.inj a
  exact ⟨(Prod.mk.inj this).2.symm, (Prod.mk.inj this).1.symm⟩

/-- **Every submitted job is executed at most once, in order, by the slave it was sent
to** — in every reachable state: what rank `s` has executed, followed by the calls still
in its channel, is exactly what was handed to it. -/
theorem executed_prefix_of_sent (f : α → β) (size : Nat) (hsize : 2 ≤ size) (prog : List (Op α))
    (cs : List Nat) (s : Nat) :
    let st := run f (init (β := β) size prog) cs
    sentTo st s = execBy st s ++ calls (st.inbox s) := by
  intro st
  exact (inv_runSched f prog cs _ (inv_init f size prog hsize)).E s

/-- **… and exactly once** when the run is complete: once the master has collected
everything it submitted (`queue` empty), every slave has executed exactly the calls
handed to it. -/
theorem executed_exactly_once (f : α → β) (size : Nat) (hsize : 2 ≤ size) (prog : List (Op α))
    (cs : List Nat) (s : Nat) :
    let st := run f (init (β := β) size prog) cs
    st.queue = [] → execBy st s = sentTo st s := by
  intro st hq
  have hinv := inv_runSched f prog cs _ (inv_init f size prog hsize)
  have hA := hinv.A s
  have hG := hinv.G s
  rw [hq] at hG
  simp only [List.filter_nil] at hG
  rw [hG] at hA
  have hc : calls (st.inbox s) = [] := by
    have : ((st.outbox s).map (·.1) ++ (calls (st.inbox s)).map f).length = 0 := by
      rw [← hA]; rfl
    simp at this
    exact this.2
  have hE := hinv.E s
  rw [hc] at hE
  simpa using hE.symm

/-- **No deadlock**: in every reachable state in which `run()` has not yet returned on
the master and no call has raised, some rank can move — if the master is blocked in
`comm.recv(source)`, slave `source` is alive and has the call in its channel. -/
theorem no_deadlock (f : α → β) (size : Nat) (hsize : 2 ≤ size) (prog : List (Op α))
    (cs : List Nat) :
    let st := run f (init (β := β) size prog) cs
    st.finished = false → st.err = none → ∃ c, (step f st c).isSome = true := by
  intro st hfin herr
  exact progress f prog st (inv_runSched f prog cs _ (inv_init f size prog hsize)) hfin herr

/-- the master's bookkeeping stays consistent: per-slave queues are the sub-sequences of
the global queue, ids pending are unique, every assigned slave is a real slave rank -/
theorem master_bookkeeping (f : α → β) (size : Nat) (hsize : 2 ≤ size) (prog : List (Op α))
    (cs : List Nat) :
    let st := run f (init (β := β) size prog) cs
    (st.queue.map (·.1)).Nodup ∧
    (∀ s, st.squeue s = st.queue.filter (fun x => lookup x.1 st.assigned == some s)) ∧
    (∀ id s, lookup id st.assigned = some s → 1 ≤ s ∧ s < st.size) := by
  intro st
  have hinv := inv_runSched f prog cs _ (inv_init f size prog hsize)
  exact ⟨hinv.Q, hinv.G, hinv.R⟩

/-- **Collection in submission order never raises**: if the master program submits only
ids that are not pending and every `get_result(id)` asks for the oldest pending id
(`inOrder`, a static check of the program), then under every schedule, for every number
of slaves, every time estimate and every `slave=` argument no call ever raises — in
particular `get_result` never fails its per-slave FIFO test. -/
theorem inorder_never_raises (f : α → β) (size : Nat) (hsize : 2 ≤ size) (prog : List (Op α))
    (hio : inOrder [] prog = true) (cs : List Nat) :
    (run f (init (β := β) size prog) cs).err = none :=
  inOrder_run f prog cs _ (inv_init f size prog hsize) rfl (by simpa [init] using hio)

/-- the master loops of `core/network.py`: `submit_call(..., id=i)` for `i = 0..parts-1`,
then `get_result(i)` for `i = 0..parts-1` -/
def masterProg (parts : Nat) (payload : Nat → α) (est : Nat → Int) : List (Op α) :=
  (List.range parts).map (fun i => Op.submit i (payload i) (est i) none) ++
  (List.range parts).map (fun i => Op.get i)

private theorem inOrder_gets (pend : List Nat) :
    inOrder (α := α) pend (pend.map (fun i => Op.get i)) = true := by
  induction pend with
  | nil => rfl
  | cons h t ih => simp [inOrder, ih]

private theorem inOrder_submits (payload : Nat → α) (est : Nat → Int) (l pend : List Nat)
    (hnd : (pend ++ l).Nodup) :
    inOrder pend (l.map (fun i => Op.submit i (payload i) (est i) none) ++
      (pend ++ l).map (fun i => Op.get i)) = true := by
  induction l generalizing pend with
  | nil => simpa using inOrder_gets pend
  | cons i t ih =>
    have hnot : i ∉ pend := by
      intro hm
      have := List.nodup_append.mp hnd
      exact this.2.2 i hm i (by simp) rfl
    have := ih (pend ++ [i]) (by simpa using hnd)
    simp only [List.map_cons, List.cons_append, inOrder, Bool.and_eq_true, Bool.not_eq_true']
    refine ⟨by simpa using hnot, ?_⟩
    simpa using this

/-- **the master loops of the three measures never raise and return chunk `i` for id `i`**
— under every schedule, every number of slaves `size - 1 ≥ 1`, every time estimate: the
run cannot fail, and once `run()` has returned, `get_result(i)` has returned `f (payload i)`
for `i = 0..parts-1`, in this order (`f` = the chunk kernel, `payload i` = the arguments of
chunk `i`). -/
theorem master_loop_correct (f : α → β) (size : Nat) (hsize : 2 ≤ size) (parts : Nat)
    (payload : Nat → α) (est : Nat → Int) (cs : List Nat) :
    let st := run f (init (β := β) size (masterProg parts payload est)) cs
    st.err = none ∧
    (st.finished = true → st.got = (List.range parts).map (fun i => (i, f (payload i)))) := by
  intro st
  have hio : inOrder [] (masterProg parts payload est) = true := by
    have := inOrder_submits payload est (List.range parts) [] (by simpa using List.nodup_range)
    simpa [masterProg] using this
  have herr := inorder_never_raises f size hsize _ hio cs
  refine ⟨herr, fun hfin => ?_⟩
  have hspec := finished_run_eq_spec f size hsize _ cs herr hfin
  -- the specification of the loop
  have hsub : ∀ (l : List Nat) (q : List (Nat × α)) (out : List (Nat × β)) (r : List (Op α)),
      (q.map (·.1) ++ l).Nodup →
      specRun f (q, out) (l.map (fun i => Op.submit i (payload i) (est i) none) ++ r) =
        specRun f (q ++ l.map (fun i => (i, payload i)), out) r := by
    intro l
    induction l with
    | nil => intro q out r _; simp
    | cons i t ih =>
      intro q out r hnd
      have hnot : i ∉ q.map (·.1) := by
        intro hm
        exact (List.nodup_append.mp hnd).2.2 i hm i (by simp) rfl
      have hl : (lookup i q).isSome = false := by
        cases hx : (lookup i q).isSome with
        | false => rfl
        | true => exact absurd ((lookup_isSome_iff i q).mp hx) hnot
      simp only [List.map_cons, List.cons_append, specRun, specStep, hl]
      have := ih (q ++ [(i, payload i)]) out r (by simpa using hnd)
      simpa using this
  have hget : ∀ (q : List (Nat × α)) (out : List (Nat × β)),
      specRun f (q, out) (q.map (fun x => Op.get x.1)) =
        .ok ([], out ++ q.map (fun x => (x.1, f x.2))) := by
    intro q
    induction q with
    | nil => intro out; simp [specRun]
    | cons x t ih =>
      intro out
      simp only [List.map_cons, specRun, specStep, lookup, if_true, eraseId]
      rw [ih]; simp
  have hall : specRun f ([], []) (masterProg parts payload est) =
      .ok ([], (List.range parts).map (fun i => (i, f (payload i)))) := by
    unfold masterProg
    rw [hsub (List.range parts) [] [] _ (by simpa using List.nodup_range)]
    have := hget ((List.range parts).map (fun i => (i, payload i))) []
    simpa [List.map_map, Function.comp_def] using this
  rw [hall] at hspec
  exact (Prod.mk.inj (Except.ok.inj hspec)).2.symm

/-- **Single-process mode returns the same**: without slaves (`mpi.available == False`,
`size < 2`: every call is executed inside `submit_call`) a completed error-free run
returns what the specification prescribes — hence, with `finished_run_eq_spec`, exactly
what every completed distributed run returns. -/
theorem serial_run_eq_spec (f : α → β) (size : Nat) (hsize : size < 2) (prog : List (Op α))
    (cs : List Nat) :
    let st := run f (init (β := β) size prog) cs
    st.err = none → st.finished = true →
      specRun f ([], []) prog = .ok (st.queue, st.got) := by
  intro st herr hfin
  have hinv := sinv_runSched f prog cs _ (sinv_init f size prog hsize)
  have := hinv.S herr
  rw [hinv.finProg hfin] at this
  exact this.symm

/-- **distributed = serial** at the level of the protocol -/
theorem distributed_eq_serial (f : α → β) (size : Nat) (hsize : 2 ≤ size) (prog : List (Op α))
    (cs cs' : List Nat) :
    let st := run f (init (β := β) size prog) cs
    let st' := run f (init (β := β) 1 prog) cs'
    st.err = none → st.finished = true → st'.err = none → st'.finished = true →
      st.got = st'.got := by
  intro st st' e₁ f₁ e₂ f₂
  have a := finished_run_eq_spec f size hsize prog cs e₁ f₁
  have b := serial_run_eq_spec f 1 (by omega) prog cs' e₂ f₂
  rw [b] at a
  exact (Prod.mk.inj (Except.ok.inj a)).2.symm

/-! ### the multiprocessing split of `targets` in `Network._nsi_betweenness` -/

theorem splitSizes_flatten {γ : Type} (xs : List γ) (ks : List Nat) (h : xs.length ≤ ks.sum) :
    (splitSizes xs ks).flatten = xs := by
  induction ks generalizing xs with
  | nil =>
    simp at h
    simp [splitSizes, h]
  | cons k t ih =>
    simp only [splitSizes, List.flatten_cons]
    rw [ih (xs.drop k) (by simp at h ⊢; omega)]
    exact List.take_append_drop k xs

private theorem sum_replicate_nat (k a : Nat) : (List.replicate k a).sum = k * a := by
  induction k with
  | zero => simp
  | succ k ih => rw [List.replicate_succ, List.sum_cons, ih, Nat.succ_mul]; omega

theorem sectionSizes_sum (total n : Nat) (hn : 1 ≤ n) : (sectionSizes total n).sum = total := by
  unfold sectionSizes
  simp only [List.sum_append, sum_replicate_nat]
  have h1 := Nat.div_add_mod total n
  have h2 := Nat.mod_lt total (show n > 0 by omega)
  have h3 : (n - total % n) * (total / n) = n * (total / n) - total % n * (total / n) :=
    Nat.sub_mul _ _ _
  have h4 : total % n * (total / n + 1) = total % n * (total / n) + total % n := by
    rw [Nat.mul_add]; omega
  have h5 : total % n * (total / n) ≤ n * (total / n) :=
    Nat.mul_le_mul_right _ (by omega)
  omega

/-- **the batches partition the requested targets**: for every `targets` array and every
number of worker processes `n ≥ 1`, `np.array_split(targets, n)` yields exactly `n`
batches whose concatenation is `targets` (nothing lost, nothing duplicated, order kept;
empty batches when `n` exceeds the number of targets). -/
theorem pool_batches_partition {γ : Type} (targets : List γ) (n : Nat) (hn : 1 ≤ n) :
    (arraySplit targets n).flatten = targets ∧ (arraySplit targets n).length = n := by
  constructor
  · exact splitSizes_flatten _ _ (by rw [sectionSizes_sum _ _ hn]; exact Nat.le_refl _)
  · have hlen : ∀ (xs : List γ) (ks : List Nat), (splitSizes xs ks).length = ks.length := by
      intro xs ks
      induction ks generalizing xs with
      | nil => rfl
      | cons k t ih => simp [splitSizes, ih]
    unfold arraySplit
    rw [hlen]
    have := Nat.mod_lt targets.length (show n > 0 by omega)
    simp [sectionSizes]; omega

/-- **pool result = serial result** for a kernel that adds one contribution per target
(`g t` = contribution of target `t` to one node's value, exact arithmetic): the sum over
the batches of the per-batch results is the result for the whole `targets` array. -/
theorem pool_sum_eq_serial (g : Nat → Int) (targets : List Nat) (n : Nat) (hn : 1 ≤ n) :
    ((arraySplit targets n).map (fun b => (b.map g).sum)).sum = (targets.map g).sum := by
  have h := (pool_batches_partition targets n hn).1
  have key : ∀ bs : List (List Nat),
      (bs.map (fun b => (b.map g).sum)).sum = (bs.flatten.map g).sum := by
    intro bs
    induction bs with
    | nil => rfl
    | cons b t ih => simp [ih, List.sum_append]
  rw [key, h]

example : arraySplit [5, 6, 7, 8, 9, 10, 11] 3 = [[5, 6, 7], [8, 9], [10, 11]] := by decide
example : arraySplit [1, 2] 4 = [[1], [2], [], []] := by decide

/-! ### the source the protocol model transcribes (regenerated on every run) -/

/-- **the statements of `utils/mpi.py` the model transcribes** — communication, the
master's bookkeeping, slave choice, control flow of `submit_call`, `get_result`,
`get_next_result`, `terminate`, `serve` and `run`, extracted from the current source
by `translate/gen_C19.py` (conditions in brackets; print / timing statements dropped).
`doSubmit`/`doSubmitLocal`/`chooseSlave`, `getStep`/`doGet`/`doGetLocal`, `doTerminate`,
`slaveStep`/`doCall`/`doStop` are these statements; an edit to any of them breaks this
theorem. -/
theorem protocol_structure :
    StructC19.mpi_submit_call = [
      "[id is None] id = numpy.random.uniform()",
      "[id in assigned] raise MPIException",
      "[slave is not None and am_slave] raise MPIException",
      "[slave is None or slave < 1 or slave >= size] slave = numpy.argmin(total_time_est)",
      "[available] comm.send((name_to_call, args, kwargs, module, time_est), dest=slave)",
      "[not (available)] slave = 0",
      "[not (available) & except NameError] raise",
      "[not (available)] results[id] = object_to_call(*args, **kwargs)",
      "total_time_est[slave] += time_est",
      "queue.append(id)",
      "slave_queue[slave].append(id)",
      "assigned[id] = slave",
      "return id"
    ] ∧ StructC19.mpi_get_result = [
      "source = assigned[id]",
      "[available & slave_queue[source][0] != id] raise MPIException",
      "[available] result, this_stats = comm.recv(source=source)",
      "[available] n_processed[source] = this_stats['n_processed']",
      "[not (available)] result = results[id]",
      "queue.remove(id)",
      "slave_queue[source].remove(id)",
      "assigned.pop(id)",
      "return result"
    ] ∧ StructC19.mpi_get_next_result = [
      "[len(queue) > 0] id = queue[0]",
      "[len(queue) > 0] return get_result(id)",
      "[not (len(queue) > 0)] return None"
    ] ∧ StructC19.mpi_terminate = [
      "[available & for slave in range(1, size)] comm.send(('terminate', (), {}, '', 0), dest=slave)",
      "[available] available = False"
    ] ∧ StructC19.mpi_serve = [
      "[while True] name_to_call, args, kwargs, module, time_est = comm.recv(source=0)",
      "[while True & name_to_call == 'terminate'] break",
      "[while True & except NameError] raise",
      "[while True] total_time_est[rank] += time_est",
      "[while True] result = object_to_call(*args, **kwargs)",
      "[while True] comm.send((result, stats[-1]), dest=0)"
    ] ∧ StructC19.mpi_run = [
      "[available & am_master & 'master' in _globals] _globals['master']()",
      "[available & am_master & except ValueError] abort()",
      "[available & am_master] terminate()",
      "[available & not (am_master) & 'slave' in _globals] _globals['slave']()",
      "[available & not (am_master) & not ('slave' in _globals)] serve()",
      "[not (available) & 'master' in _globals] _globals['master']()"
    ] := by
  refine ⟨rfl, rfl, rfl, rfl, rfl, rfl⟩

/-- **the pool split of `Network._nsi_betweenness` in the current source**: the batches
are `np.array_split(targets, n_workers)` of the *requested* targets, every batch goes
through the same `worker` as the serial call `worker(targets)`, and the per-batch
results are added (`np.sum(..., axis=0)`) — the shape `pool_batches_partition` and
`pool_sum_eq_serial` are about. -/
theorem pool_structure :
    StructC19.pool_split = "np.array_split(targets, n_workers)" ∧
    StructC19.pool_map = "pool.map(worker, batches)" ∧
    StructC19.pool_reduce = "np.sum(<map>, axis=0)" ∧
    StructC19.pool_serial = "worker(targets)" ∧
    StructC19.pool_conditions = ["parallelize"] := by
  refine ⟨rfl, rfl, rfl, rfl, rfl⟩

/-- non-vacuity: a completed error-free run on 3 ranks (2 slaves) of
`submit 0,1,2; get 0; get 1; get_next` under an interleaved schedule -/
example :
    let st := run (fun p : Nat => p * p + 1)
      (init (β := Nat) 3 [.submit 0 5 1 none, .submit 1 6 1 none, .submit 2 7 1 none,
        .get 0, .get 1, .getNext]) [0, 0, 0, 0, 1, 2, 1, 0, 0, 0, 0, 1, 2]
    st.err = none ∧ st.finished = true ∧ st.got = [(0, 26), (1, 37), (2, 50)] ∧ st.queue = [] := by
  decide

end Pyunicorn.MpiProto


/-! ## Round 4 — the per-chunk argument tuples and the chunk kernels' subscripts

`translate/gen_C19.py` regenerates, for each of the three master loops, (a) every element
of the argument tuple of `mpi.submit_call` and of the serial call, resolved to the array it
is cut from (`X[start_i:end_i]` = sliced, `X` = whole, `None`), and (b) for the chunk
kernel every first-axis subscript of every parameter, its loop header, result
initialisation / update / return statements and its loop-carried locals.  The theorems
below are about these generated tables and about the generic chunk-call model
`Pyunicorn.MpiChunk` (arbitrary iteration body). -/
namespace Pyunicorn.MpiChunk
open Pyunicorn.Generated Pyunicorn.Mpi Pyunicorn.MpiProto

variable {ρ β : Type}

/-- **every array a chunk kernel indexes by `i - start_i` is handed over sliced** (and
nothing else is): for the three master loops of the current source, a kernel parameter
subscripted chunk-relatively is subscripted only so, the distributed branch passes exactly
these parameters as `X[start_i:end_i]`, the serial branch passes the same arrays whole with
`start_i = 0`, `end_i = N` under the same conditions, and a possibly-`None` argument is read
only under the complementary condition.  (Seeds C19-1, -3, -5, -6 each falsify this.) -/
theorem chunk_tables_ok :
    tablesOk StructC19.arenas_kernel_params StructC19.arenas_kernel_subs
      StructC19.arenas_kernel_guards "i - start_i" StructC19.arenas_dist_args
      StructC19.arenas_serial_args = true ∧
    tablesOk StructC19.newman_kernel_params StructC19.newman_kernel_subs
      StructC19.newman_kernel_guards "i_rel" StructC19.newman_dist_args
      StructC19.newman_serial_args = true ∧
    tablesOk StructC19.nsinewman_kernel_params StructC19.nsinewman_kernel_subs
      StructC19.nsinewman_kernel_guards "i_rel" StructC19.nsinewman_dist_args
      StructC19.nsinewman_serial_args = true := by
  refine ⟨by decide, by decide, by decide⟩

/-- **shape of the chunk kernels in the current source**: one outer loop over the nodes of
the chunk (`for i in range(start_i, end_i)` resp. `this_N = end_i - start_i; for i_rel in
range(this_N); i_abs = i_rel + start_i`), the result starts from zeros, is only added to
(at `[i_rel]` for the two slice kernels), is returned together with `start_i, end_i`, and no
other local variable carries a value from one iteration to the next — the shape
`chunkKernelAbs` / `chunkKernelRel` / `addKernel` transcribe; the master calls the kernel
the serial branch calls. -/
theorem kernel_shapes :
    StructC19.arenas_kernel_loop = ["for i in range(start_i, end_i)"] ∧
    StructC19.arenas_kernel_init = ["component_betweenness = np.zeros(N)"] ∧
    StructC19.arenas_kernel_out = ["component_betweenness +="] ∧
    StructC19.arenas_kernel_return = "result = (component_betweenness, start_i, end_i)" ∧
    StructC19.arenas_kernel_carried = [] ∧
    StructC19.newman_kernel_loop =
      ["this_N = end_i - start_i", "for i_rel in range(this_N)", "i_abs = i_rel + start_i"] ∧
    StructC19.newman_kernel_init = ["this_betweenness = np.zeros(this_N, dtype=DFIELD)"] ∧
    StructC19.newman_kernel_out = ["this_betweenness[i_rel] +="] ∧
    StructC19.newman_kernel_return = "return (this_betweenness, start_i, end_i)" ∧
    StructC19.newman_kernel_carried = [] ∧
    StructC19.nsinewman_kernel_loop = StructC19.newman_kernel_loop ∧
    StructC19.nsinewman_kernel_init = StructC19.newman_kernel_init ∧
    StructC19.nsinewman_kernel_out = StructC19.newman_kernel_out ∧
    StructC19.nsinewman_kernel_return = StructC19.newman_kernel_return ∧
    StructC19.nsinewman_kernel_carried = [] ∧
    StructC19.arenas_dist_callee = StructC19.arenas_serial_callee ∧
    StructC19.newman_dist_callee = "core._ext.numerics." ++ StructC19.newman_serial_callee ∧
    StructC19.nsinewman_dist_callee = "core._ext.numerics." ++ StructC19.nsinewman_serial_callee ∧
    StructC19.arenas_serial_conditions = ["not (len(comp) == 1)", "not (mpi.available)"] ∧
    StructC19.newman_serial_conditions = ["not (len(comp) < 2)", "not (mpi.available)"] ∧
    StructC19.nsinewman_serial_conditions = ["not (len(comp) < 2)", "not (mpi.available)"] := by
  decide

private theorem idxOf_ge (params : List String) (subs : List (String × List String))
    (rel : String) (p : Nat) (h : params.length ≤ p) : idxOf params subs rel p = .whole := by
  simp [idxOf, List.getElem?_eq_none h]

private theorem passOf_ge (args : List (List (String × String × String))) (p : Nat)
    (h : args.length ≤ p) : passOf args p = .whole := by
  simp [passOf, List.getElem?_eq_none h]

/-- **n.s.i. Arenas loop: chunk-relative ⇔ sliced**, for every argument position -/
theorem arenas_rel_iff_sliced : ∀ p, arenasIdx p = .rel ↔ arenasPass p = .sliced := by
  have hb : ∀ p, p < 10 → (arenasIdx p = .rel ↔ arenasPass p = .sliced) := by decide
  intro p
  by_cases h : p < 10
  · exact hb p h
  · have h1 : arenasIdx p = .whole := idxOf_ge _ _ _ p (by
      have : StructC19.arenas_kernel_params.length = 10 := by decide
      omega)
    have h2 : arenasPass p = .whole := passOf_ge _ p (by
      have : StructC19.arenas_dist_args.length = 10 := by decide
      omega)
    simp [h1, h2]

/-- **Newman loop: chunk-relative ⇔ sliced** -/
theorem newman_rel_iff_sliced : ∀ p, newmanIdx p = .rel ↔ newmanPass p = .sliced := by
  have hb : ∀ p, p < 5 → (newmanIdx p = .rel ↔ newmanPass p = .sliced) := by decide
  intro p
  by_cases h : p < 5
  · exact hb p h
  · have h1 : newmanIdx p = .whole := idxOf_ge _ _ _ p (by
      have : StructC19.newman_kernel_params.length = 5 := by decide
      omega)
    have h2 : newmanPass p = .whole := passOf_ge _ p (by
      have : StructC19.newman_dist_args.length = 5 := by decide
      omega)
    simp [h1, h2]

/-- **n.s.i. Newman loop: chunk-relative ⇔ sliced** -/
theorem nsinewman_rel_iff_sliced : ∀ p, nsinewmanIdx p = .rel ↔ nsinewmanPass p = .sliced := by
  have hb : ∀ p, p < 7 → (nsinewmanIdx p = .rel ↔ nsinewmanPass p = .sliced) := by decide
  intro p
  by_cases h : p < 7
  · exact hb p h
  · have h1 : nsinewmanIdx p = .whole := idxOf_ge _ _ _ p (by
      have : StructC19.nsinewman_kernel_params.length = 7 := by decide
      omega)
    have h2 : nsinewmanPass p = .whole := passOf_ge _ p (by
      have : StructC19.nsinewman_dist_args.length = 7 := by decide
      omega)
    simp [h1, h2]

/-- non-vacuity: the tables do contain chunk-relative parameters (`this_Aplus`, `this_w`,
`this_twinness`; `this_A`; `this_A`, `this_not_adj_or_equal`) -/
example : arenasIdx 2 = .rel ∧ arenasIdx 4 = .rel ∧ arenasIdx 9 = .rel ∧ arenasIdx 3 = .whole ∧
    newmanIdx 0 = .rel ∧ newmanIdx 1 = .whole ∧ nsinewmanIdx 0 = .rel ∧ nsinewmanIdx 4 = .rel ∧
    nsinewmanIdx 3 = .whole := by decide

/-- **row-locality of a correctly called chunk** (any iteration body, any arrays, any
chunk): the call the master submits for `[start_i, end_i)` returns the rows
`start_i … end_i - 1` of what the serial call `kernel(…, 0, N)` returns. -/
theorem chunk_call_rows [Inhabited ρ] (idx : Nat → Idx) (pass : Nat → Pass)
    (hOK : ∀ p, idx p = .rel ↔ pass p = .sliced)
    (body : (Nat → ρ) → (Nat → Arr ρ) → Nat → β) (full : Nat → Arr ρ) (c : Nat × Nat) :
    chunkKernelRel idx body (distArgs pass full c.1) c.1 c.2 =
      chunkResult (serialRow idx body full) c ∧
    chunkKernelAbs idx body (distArgs pass full c.1) c.1 c.2 =
      chunkResult (serialRow idx body full) c := by
  rw [chunkKernelRel_eq_abs]
  exact ⟨chunk_call_eq_chunkResult idx pass hOK body full c,
    chunk_call_eq_chunkResult idx pass hOK body full c⟩

/-- **sharpness** (seeds C19-3 / C19-6 in the model): a chunk-relative parameter handed
over whole makes a chunk with `start_i > 0` read the rows of the *first* nodes. -/
theorem unsliced_chunk_reads_wrong_rows :
    chunkKernelAbs (ρ := Nat) (fun _ => .rel) (fun r _ _ => r 0)
        (distArgs (fun _ => .whole) (fun _ k => 10 * k) 2) 2 4 = [0, 10] ∧
    chunkResult (serialRow (ρ := Nat) (fun _ => .rel) (fun r _ _ => r 0) (fun _ k => 10 * k))
        (2, 4) = [20, 30] := by
  decide

/-- **slice-assembling master loop = serial call** (generic): for every iteration body,
every family of arrays, every number of ranks `size ≥ 2`, every schedule and time
estimate — if every chunk-relative parameter is handed over sliced (and only those) and
the chunk arithmetic satisfies `1 ≤ step`, `(parts-1)·step < N ≤ parts·step`, then the run
never raises and, once `run()` has returned, writing the retrieved
`(this_betweenness, start_i, end_i)` into `component_betweenness[start_i:end_i]` gives
exactly what the serial branch's single call `kernel(whole arrays, 0, N)` returns. -/
theorem slice_loop_eq_serial [Inhabited ρ] [DecidableEq β] (idx : Nat → Idx) (pass : Nat → Pass)
    (hOK : ∀ p, idx p = .rel ↔ pass p = .sliced)
    (body : (Nat → ρ) → (Nat → Arr ρ) → Nat → β) (full : Nat → Arr ρ) (zero : β)
    (N step parts size : Nat) (hsize : 2 ≤ size) (hstep : 1 ≤ step)
    (hlo : (parts - 1) * step < N) (hhi : N ≤ parts * step) (est : Nat → Int) (cs : List Nat) :
    let payload : Nat → Nat × Nat := fun i => (i * step, min ((i + 1) * step) N)
    let f : Nat × Nat → Nat × List β := fun c =>
      (c.1, chunkKernelRel idx body (distArgs pass full c.1) c.1 c.2)
    let st := run f (init (β := Nat × List β) size (masterProg parts payload est)) cs
    st.err = none ∧
    (st.finished = true →
      assembleR zero N (st.got.map (·.2)) = chunkKernelRel idx body full 0 N) := by
  intro payload f st
  obtain ⟨herr, hgot⟩ := master_loop_correct f size hsize parts payload est cs
  refine ⟨herr, fun hfin => ?_⟩
  have hg : st.got = (List.range parts).map (fun i => (i, f (payload i))) := hgot hfin
  rw [hg, List.map_map]
  have hlist : (List.range parts).map ((fun x : Nat × (Nat × List β) => x.2) ∘
      fun i => (i, f (payload i))) =
      (chunks N step parts).map (fun c => (c.1, chunkResult (serialRow idx body full) c)) := by
    unfold chunks
    rw [List.map_map]
    apply List.map_congr_left
    intro i _
    simp only [Function.comp_def, f, payload]
    have := (chunk_call_rows idx pass hOK body full (i * step, min ((i + 1) * step) N)).1
    simp only at this
    rw [this]
  rw [hlist, assembleR_map, master_chunks_assemble zero N step parts _ hstep hlo hhi,
    chunkKernelRel_eq_abs, serial_call_eq]

/-- **additive master loop = serial call** (generic, the n.s.i. Arenas shape): same
hypotheses; adding the retrieved length-`N` partial results gives the vector the serial
branch's single call computes (exact arithmetic). -/
theorem add_loop_eq_serial [Inhabited ρ] (idx : Nat → Idx) (pass : Nat → Pass)
    (hOK : ∀ p, idx p = .rel ↔ pass p = .sliced)
    (body : (Nat → ρ) → (Nat → Arr ρ) → Nat → Nat → Int) (full : Nat → Arr ρ)
    (N step parts size : Nat) (hsize : 2 ≤ size) (hhi : N ≤ parts * step)
    (est : Nat → Int) (cs : List Nat) :
    let payload : Nat → Nat × Nat := fun i => (i * step, min ((i + 1) * step) N)
    let f : Nat × Nat → List Int := fun c =>
      addKernel idx body N (distArgs pass full c.1) c.1 c.2
    let st := run f (init (β := List Int) size (masterProg parts payload est)) cs
    st.err = none ∧
    (st.finished = true → assembleAdd N (st.got.map (·.2)) = addKernel idx body N full 0 N) := by
  intro payload f st
  obtain ⟨herr, hgot⟩ := master_loop_correct f size hsize parts payload est cs
  refine ⟨herr, fun hfin => ?_⟩
  have hg : st.got = (List.range parts).map (fun i => (i, f (payload i))) := hgot hfin
  rw [hg, List.map_map]
  have hlist : (List.range parts).map ((fun x : Nat × List Int => x.2) ∘
      fun i => (i, f (payload i))) =
      (chunks N step parts).map
        (fun c => partialResult N (fun i j => serialRow idx body full i j) c) := by
    unfold chunks
    rw [List.map_map]
    apply List.map_congr_left
    intro i _
    simp only [Function.comp_def, f, payload]
    exact addKernel_dist_eq_partial idx pass hOK body full N (i * step, min ((i + 1) * step) N)
  rw [hlist, assembleAdd_map, addKernel_serial]
  apply List.ext_getElem?
  intro j
  have hlen : ((chunks N step parts).foldl (fun a c => addVec a
      (partialResult N (fun i j => serialRow idx body full i j) c)) (List.replicate N 0)).length
      = N :=
    foldl_addVec_length N _ _ (fun c => by simp [partialResult]) _ (by simp)
  by_cases hj : j < N
  · have := assembleSum_chunks N step parts (fun i j => serialRow idx body full i j) hhi j hj
    unfold assembleSum at this
    rw [this]
    simp [hj]
  · rw [List.getElem?_eq_none (by omega), List.getElem?_eq_none (by simp; omega)]

/-- the payloads computed by the generated `start_i` / `end_i` expressions, in ℕ -/
private theorem payload_nat (stepZ : Int) (N : Nat) (hs : 0 ≤ stepZ) (i : Nat) :
    (((i : Int) * stepZ).toNat, (min (((i : Int) + 1) * stepZ) (N : Int)).toNat) =
      (i * stepZ.toNat, min ((i + 1) * stepZ.toNat) N) := by
  have h : (stepZ.toNat : Int) = stepZ := Int.toNat_of_nonneg hs
  have h1 : ((i : Int) * stepZ) = ((i * stepZ.toNat : Nat) : Int) := by
    rw [Int.natCast_mul, h]
  have h2 : (((i : Int) + 1) * stepZ) = (((i + 1) * stepZ.toNat : Nat) : Int) := by
    rw [Int.natCast_mul, h]; simp
  rw [h1, h2]
  generalize i * stepZ.toNat = a
  generalize (i + 1) * stepZ.toNat = b
  ext <;> simp <;> omega

/-- **Newman's random-walk betweenness: distributed = serial**, end to end for the current
source — chunk boundaries by the regenerated expressions (`max_parts`, `step`, `parts`,
`start_i`, `end_i` of `Network.newman_betweenness`), arguments handed over as the
regenerated tuple prescribes, the real protocol of `utils/mpi.py` under every schedule
with every number of slaves, slice assembly: the result is the serial branch's
`_mpi_newman_betweenness(A, V, N, 0, N)`, for every component size `N ≥ 1` and every
iteration body. -/
theorem newman_distributed_eq_serial [Inhabited ρ] [DecidableEq β]
    (body : (Nat → ρ) → (Nat → Arr ρ) → Nat → β) (full : Nat → Arr ρ) (zero : β)
    (N size : Nat) (hsize : 2 ≤ size) (hN : 1 ≤ N) (est : Nat → Int) (cs : List Nat) :
    let stepZ := ArithC19.newman_step N (ArithC19.newman_max_parts size N)
    let partsZ := ArithC19.newman_parts N stepZ
    let payload : Nat → Nat × Nat := fun i =>
      ((ArithC19.newman_start i stepZ).toNat, (ArithC19.newman_end i stepZ N).toNat)
    let f : Nat × Nat → Nat × List β := fun c =>
      (c.1, chunkKernelRel newmanIdx body (distArgs newmanPass full c.1) c.1 c.2)
    let st := run f (init (β := Nat × List β) size (masterProg partsZ.toNat payload est)) cs
    st.err = none ∧
    (st.finished = true →
      assembleR zero N (st.got.map (·.2)) = chunkKernelRel newmanIdx body full 0 N) := by
  intro stepZ partsZ payload
  have hmp := (max_parts_pos size N).1
  obtain ⟨h1, h2, h3, _⟩ := chunk_facts_nat N (ArithC19.newman_max_parts size N) stepZ partsZ
    (by omega) hmp rfl rfl
  have hpay : payload = fun i => (i * stepZ.toNat, min ((i + 1) * stepZ.toNat) N) := by
    funext i
    exact payload_nat stepZ N (by omega) i
  rw [hpay]
  have := slice_loop_eq_serial newmanIdx newmanPass newman_rel_iff_sliced body full zero N
    stepZ.toNat partsZ.toNat size hsize h1 (by simpa using h2) (by simpa using h3) est cs
  exact this

/-- **n.s.i. Newman betweenness: distributed = serial**, end to end (as above, with the
expressions and tuples of `Network.nsi_newman_betweenness` / `_mpi_nsi_newman_betweenness`). -/
theorem nsinewman_distributed_eq_serial [Inhabited ρ] [DecidableEq β]
    (body : (Nat → ρ) → (Nat → Arr ρ) → Nat → β) (full : Nat → Arr ρ) (zero : β)
    (N size : Nat) (hsize : 2 ≤ size) (hN : 1 ≤ N) (est : Nat → Int) (cs : List Nat) :
    let stepZ := ArithC19.nsinewman_step N (ArithC19.nsinewman_max_parts size N)
    let partsZ := ArithC19.nsinewman_parts N stepZ
    let payload : Nat → Nat × Nat := fun i =>
      ((ArithC19.nsinewman_start i stepZ).toNat, (ArithC19.nsinewman_end i stepZ N).toNat)
    let f : Nat × Nat → Nat × List β := fun c =>
      (c.1, chunkKernelRel nsinewmanIdx body (distArgs nsinewmanPass full c.1) c.1 c.2)
    let st := run f (init (β := Nat × List β) size (masterProg partsZ.toNat payload est)) cs
    st.err = none ∧
    (st.finished = true →
      assembleR zero N (st.got.map (·.2)) = chunkKernelRel nsinewmanIdx body full 0 N) := by
  intro stepZ partsZ payload
  have hmp := (max_parts_pos size N).2.1
  obtain ⟨h1, h2, h3, _⟩ := chunk_facts_nat N (ArithC19.nsinewman_max_parts size N) stepZ partsZ
    (by omega) hmp rfl rfl
  have hpay : payload = fun i => (i * stepZ.toNat, min ((i + 1) * stepZ.toNat) N) := by
    funext i
    exact payload_nat stepZ N (by omega) i
  rw [hpay]
  have := slice_loop_eq_serial nsinewmanIdx nsinewmanPass nsinewman_rel_iff_sliced body full zero N
    stepZ.toNat partsZ.toNat size hsize h1 (by simpa using h2) (by simpa using h3) est cs
  exact this

/-- **n.s.i. Arenas betweenness: distributed = serial**, end to end (additive assembly,
exact arithmetic; both stopping modes and both values of `exclude_neighbors` are instances
of the arbitrary iteration body). -/
theorem arenas_distributed_eq_serial [Inhabited ρ]
    (body : (Nat → ρ) → (Nat → Arr ρ) → Nat → Nat → Int) (full : Nat → Arr ρ)
    (N size : Nat) (hsize : 2 ≤ size) (hN : 1 ≤ N) (est : Nat → Int) (cs : List Nat) :
    let stepZ := ArithC19.arenas_step N (ArithC19.arenas_max_parts size N)
    let partsZ := ArithC19.arenas_parts N stepZ
    let payload : Nat → Nat × Nat := fun i =>
      ((ArithC19.arenas_start i stepZ).toNat, (ArithC19.arenas_end i stepZ N).toNat)
    let f : Nat × Nat → List Int := fun c =>
      addKernel arenasIdx body N (distArgs arenasPass full c.1) c.1 c.2
    let st := run f (init (β := List Int) size (masterProg partsZ.toNat payload est)) cs
    st.err = none ∧
    (st.finished = true →
      assembleAdd N (st.got.map (·.2)) = addKernel arenasIdx body N full 0 N) := by
  intro stepZ partsZ payload
  have hmp := (max_parts_pos size N).2.2
  obtain ⟨h1, h2, h3, _⟩ := chunk_facts_nat N (ArithC19.arenas_max_parts size N) stepZ partsZ
    (by omega) hmp rfl rfl
  have hpay : payload = fun i => (i * stepZ.toNat, min ((i + 1) * stepZ.toNat) N) := by
    funext i
    exact payload_nat stepZ N (by omega) i
  rw [hpay]
  have := add_loop_eq_serial arenasIdx arenasPass arenas_rel_iff_sliced body full N
    stepZ.toNat partsZ.toNat size hsize (by simpa using h3) est cs
  exact this

/-- non-vacuity of the end-to-end statements: `N = 7` nodes cut into `[0,3) [3,6) [6,7)` on
3 ranks, parameter 0 chunk-relative and sliced, parameter 1 whole; a completed error-free
run of the protocol model under an interleaved schedule assembles the serial vector -/
example :
    let idx : Nat → Idx := fun p => if p = 0 then .rel else .whole
    let pass : Nat → Pass := fun p => if p = 0 then .sliced else .whole
    let body : (Nat → Nat) → (Nat → Arr Nat) → Nat → Nat := fun r w i => 100 * r 0 + w 1 i
    let full : Nat → Arr Nat := fun p k => if p = 0 then k * k else k + 1
    let f : Nat × Nat → Nat × List Nat := fun c =>
      (c.1, chunkKernelRel idx body (distArgs pass full c.1) c.1 c.2)
    let st := run f (init (β := Nat × List Nat) 3
      (masterProg 3 (fun i => (i * 3, min ((i + 1) * 3) 7)) (fun _ => 1)))
      [0, 0, 0, 1, 2, 1, 0, 0, 0, 0, 1, 2]
    st.err = none ∧ st.finished = true ∧
    assembleR 0 7 (st.got.map (·.2)) = chunkKernelRel idx body full 0 7 ∧
    chunkKernelRel idx body full 0 7 = [1, 102, 403, 904, 1605, 2506, 3607] := by
  decide

end Pyunicorn.MpiChunk

/-! ## Round 5 — termination: every schedule is finite work, every fair schedule completes

Rounds 3 and 4 proved what a run returns *once `run()` has returned* and that no reachable
state is a deadlock.  Missing was that runs do return.  `measure` (model) counts the work a
state can still cause: the master's remaining calls (twice: a `submit_call` also puts a
message into a channel), `terminate()` (`size + 1`) and the messages waiting in the channels
master → slave.  Every executed step of every rank strictly decreases it — in every state,
no invariant needed — so a schedule executes at most `2·|prog| + size + 1` of its entries;
a schedule in which every rank gets its turn often enough (`fairBlock`s) ends in a state in
which no rank can move, and such a state is a completed run (`no_deadlock`) in which every
slave has left `serve()`. -/
namespace Pyunicorn.MpiProto
open Pyunicorn.Mpi (lookup)

variable {α β : Type}

/-- **every executed step strictly decreases the measure** — any state (reachable or not),
any rank, both modes. -/
theorem measure_decreases (f : α → β) (st st' : State α β) (c : Nat)
    (h : step f st c = some st') : measure st' < measure st :=
  measure_step_lt f st st' c h

/-- **step bound**: under every schedule, for every number of ranks (single-process mode
included) and every master program, at most `2·|prog| + size + 1` entries of the schedule
are executed; more precisely executed steps + the measure of the state reached never
exceed that number. -/
theorem schedule_step_bound (f : α → β) (size : Nat) (prog : List (Op α)) (cs : List Nat) :
    executed f (init (β := β) size prog) cs + measure (run f (init (β := β) size prog) cs) ≤
      2 * prog.length + size + 1 := by
  have := (executed_add_measure f cs (init (β := β) size prog)).2
  rw [measure_init] at this
  exact this

/-- **every fair schedule completes** (`size ≥ 2`): if the schedule consists of at least
`2·|prog| + size + 1` blocks each containing the master and every slave rank (in any order,
with any repetitions and any further entries), then in the state reached no rank can move,
`run()` has returned on the master or a call has raised, and in the first case every slave
has left its `serve()` loop. -/
theorem fair_schedule_completes (f : α → β) (size : Nat) (hsize : 2 ≤ size) (prog : List (Op α))
    (bs : List (List Nat)) (hfair : ∀ b ∈ bs, fairBlock size b)
    (hlen : 2 * prog.length + size + 1 ≤ bs.length) :
    let st := run f (init (β := β) size prog) bs.flatten
    quiescent f st ∧ (st.finished = true ∨ st.err.isSome = true) ∧
    (st.finished = true → ∀ s, 1 ≤ s → s < size → st.alive s = false) := by
  intro st
  have hq : quiescent f st :=
    fair_quiescent f bs (init (β := β) size prog) hfair (by rw [measure_init]; exact hlen)
  have hinv := inv_runSched f prog bs.flatten _ (inv_init f size prog hsize)
  have ht := tinv_run f prog bs.flatten _ (inv_init f size prog hsize) (tinv_init size prog)
  refine ⟨hq, quiescent_done f prog st hinv hq, fun hfin s hs1 hs2 => ?_⟩
  have hsz : st.size = size := size_run f _ _
  exact quiescent_slaves_stopped f st ht hq hfin s hs1 (by rw [hsz]; exact hs2)

/-- the same in the single-process mode (`size < 2`, `mpi.available == False`) -/
theorem fair_schedule_completes_serial (f : α → β) (size : Nat) (hsize : size < 2)
    (prog : List (Op α)) (bs : List (List Nat)) (hfair : ∀ b ∈ bs, fairBlock size b)
    (hlen : 2 * prog.length + size + 1 ≤ bs.length) :
    let st := run f (init (β := β) size prog) bs.flatten
    quiescent f st ∧ (st.finished = true ∨ st.err.isSome = true) := by
  intro st
  have hq : quiescent f st :=
    fair_quiescent f bs (init (β := β) size prog) hfair (by rw [measure_init]; exact hlen)
  exact ⟨hq, quiescent_done_serial f prog st
    (sinv_runSched f prog bs.flatten _ (sinv_init f size prog hsize)) hq⟩

/-- **in-order programs always return the specified values**: a program that collects in
submission order (`inOrder`), run under any fair schedule with any number of slaves, any time
estimates and `slave=` arguments, completes without raising and has returned exactly what
the communicator-free specification prescribes. -/
theorem inorder_fair_run_returns (f : α → β) (size : Nat) (hsize : 2 ≤ size) (prog : List (Op α))
    (hio : inOrder [] prog = true) (bs : List (List Nat)) (hfair : ∀ b ∈ bs, fairBlock size b)
    (hlen : 2 * prog.length + size + 1 ≤ bs.length) :
    let st := run f (init (β := β) size prog) bs.flatten
    st.finished = true ∧ st.err = none ∧ specRun f ([], []) prog = .ok (st.queue, st.got) := by
  intro st
  have herr : st.err = none := inorder_never_raises f size hsize prog hio bs.flatten
  have hfin : st.finished = true := by
    rcases (fair_schedule_completes f size hsize prog bs hfair hlen).2.1 with h | h
    · exact h
    · have : st.err.isSome = true := h
      rw [herr] at this; cases this
  exact ⟨hfin, herr, finished_run_eq_spec f size hsize prog bs.flatten herr hfin⟩

/-- **the master loops of the three measures complete** under every fair schedule of at
least `4·parts + size + 1` rounds: `run()` returns, nothing raises, `get_result(i)` has
returned `f (payload i)` for `i = 0..parts-1`, and every slave has left `serve()`. -/
theorem master_loop_completes (f : α → β) (size : Nat) (hsize : 2 ≤ size) (parts : Nat)
    (payload : Nat → α) (est : Nat → Int) (bs : List (List Nat))
    (hfair : ∀ b ∈ bs, fairBlock size b) (hlen : 4 * parts + size + 1 ≤ bs.length) :
    let st := run f (init (β := β) size (masterProg parts payload est)) bs.flatten
    st.finished = true ∧ st.err = none ∧
    st.got = (List.range parts).map (fun i => (i, f (payload i))) ∧
    (∀ s, 1 ≤ s → s < size → st.alive s = false) := by
  intro st
  obtain ⟨herr, hgot⟩ := master_loop_correct f size hsize parts payload est bs.flatten
  have hl : 2 * (masterProg parts payload est).length + size + 1 ≤ bs.length := by
    simp only [masterProg, List.length_append, List.length_map, List.length_range]
    omega
  obtain ⟨_, hdone, hstop⟩ := fair_schedule_completes f size hsize _ bs hfair hl
  have hfin : st.finished = true := by
    rcases hdone with h | h
    · exact h
    · have : st.err.isSome = true := h
      rw [herr] at this; cases this
  exact ⟨hfin, herr, hgot hfin, hstop hfin⟩

/-- non-vacuity: 3 ranks, 2 chunks, 12 round-robin rounds -/
example :
    let bs := List.replicate 12 [0, 1, 2]
    let st := run (fun x : Nat => x * x) (init (β := Nat) 3
      (masterProg 2 (fun i => i + 5) (fun _ => 1))) bs.flatten
    (∀ b ∈ bs, fairBlock 3 b) ∧ 4 * 2 + 3 + 1 ≤ bs.length ∧
    st.finished = true ∧ st.got = [(0, 25), (1, 36)] ∧ st.alive 1 = false ∧ st.alive 2 = false ∧
    measure st = 0 ∧ measure (init (β := Nat) 3 (masterProg 2 (fun i => i + 5) (fun _ => 1))) = 12
    := by
  refine ⟨?_, by decide, by decide, by decide, by decide, by decide, by decide, by decide⟩
  intro b hb
  have : b = [0, 1, 2] := List.eq_of_mem_replicate hb
  subst this
  exact ⟨by decide, fun c hc => by
    have : c = 0 ∨ c = 1 ∨ c = 2 := by omega
    rcases this with h | h | h <;> subst h <;> decide⟩

/-! ### error agreement: the protocol raises what the specification raises

`mpi_refines_spec` (round 3) speaks about runs in which nothing has raised.  The error
branches were tied by correspondence only.  Now: a `KeyError` (`get_result` of an id that is
not pending) or "id already in queue" (`submit_call`) recorded in *any* reachable state is the
error the communicator-free specification prescribes for the master program, and conversely a
program whose specification raises `e` ends, under every fair schedule, with `e` — or with the
one error the specification does not know, the per-slave FIFO restriction `outOfOrder`
("get_result(id) called before get_result(other id)"), which can only hit programs that do not
collect in submission order.  In the single-process mode there is no FIFO restriction and the
agreement is exact. -/

/-- **errors are the specification's errors** (`size ≥ 2`, every program, every schedule) -/
theorem error_agrees_with_spec (f : α → β) (size : Nat) (hsize : 2 ≤ size) (prog : List (Op α))
    (cs : List Nat) (e : Err) :
    (run f (init (β := β) size prog) cs).err = some e → e ≠ .outOfOrder →
      specRun f ([], []) prog = .error e :=
  errOk_run f prog cs _ (inv_init f size prog hsize) (errOk_init f size prog) e

/-- **single-process mode: every error is the specification's error** -/
theorem error_agrees_with_spec_serial (f : α → β) (size : Nat) (hsize : size < 2)
    (prog : List (Op α)) (cs : List Nat) (e : Err) :
    (run f (init (β := β) size prog) cs).err = some e → specRun f ([], []) prog = .error e :=
  errOkS_run f prog cs _ (sinv_init f size prog hsize) (by intro e he; simp [init] at he) e

/-- **any error implies the program does not collect in submission order** (or re-uses a
pending id): contrapositive of `inorder_never_raises`, for the record next to the above -/
theorem raises_only_if_not_inorder (f : α → β) (size : Nat) (hsize : 2 ≤ size)
    (prog : List (Op α)) (cs : List Nat) (e : Err)
    (h : (run f (init (β := β) size prog) cs).err = some e) : inOrder [] prog = false := by
  cases hio : inOrder [] prog with
  | false => rfl
  | true =>
    rw [inorder_never_raises f size hsize prog hio cs] at h
    cases h

/-- **a program whose specification raises, raises** (`size ≥ 2`): under every fair schedule
the run ends with the specified error or with the FIFO restriction `outOfOrder`; it never
completes normally. -/
theorem spec_error_is_raised (f : α → β) (size : Nat) (hsize : 2 ≤ size) (prog : List (Op α))
    (e : Err) (hspec : specRun f ([], []) prog = .error e)
    (bs : List (List Nat)) (hfair : ∀ b ∈ bs, fairBlock size b)
    (hlen : 2 * prog.length + size + 1 ≤ bs.length) :
    let st := run f (init (β := β) size prog) bs.flatten
    st.err = some e ∨ st.err = some .outOfOrder := by
  intro st
  cases herr : st.err with
  | none =>
    rcases (fair_schedule_completes f size hsize prog bs hfair hlen).2.1 with h | h
    · have := finished_run_eq_spec f size hsize prog bs.flatten herr h
      rw [hspec] at this; cases this
    · have h' : st.err.isSome = true := h
      rw [herr] at h'; cases h'
  | some e' =>
    by_cases ho : e' = .outOfOrder
    · right; rw [ho]
    · left
      have := error_agrees_with_spec f size hsize prog bs.flatten e' herr ho
      rw [hspec] at this
      cases this; rfl

/-- … exactly the specified error in the single-process mode -/
theorem spec_error_is_raised_serial (f : α → β) (size : Nat) (hsize : size < 2)
    (prog : List (Op α)) (e : Err) (hspec : specRun f ([], []) prog = .error e)
    (bs : List (List Nat)) (hfair : ∀ b ∈ bs, fairBlock size b)
    (hlen : 2 * prog.length + size + 1 ≤ bs.length) :
    (run f (init (β := β) size prog) bs.flatten).err = some e := by
  cases herr : (run f (init (β := β) size prog) bs.flatten).err with
  | none =>
    rcases (fair_schedule_completes_serial f size hsize prog bs hfair hlen).2 with h | h
    · have := serial_run_eq_spec f size hsize prog bs.flatten herr h
      rw [hspec] at this; cases this
    · rw [herr] at h; cases h
  | some e' =>
    have := error_agrees_with_spec_serial f size hsize prog bs.flatten e' herr
    rw [hspec] at this
    cases this; rfl

/-- non-vacuity: an unknown id raises `KeyError`, a duplicate id "already in queue" — in the
model and in the specification; an out-of-order collection raises only with slaves -/
example :
    (run (fun x : Nat => x) (init (β := Nat) 3 [.submit 0 7 1 none, .get 4]) [0, 0]).err
      = some .keyError ∧
    specRun (fun x : Nat => x) ([], []) [.submit 0 7 1 none, .get 4] = .error .keyError ∧
    (run (fun x : Nat => x) (init (β := Nat) 3 [.submit 0 7 1 none, .submit 0 8 1 none])
      [0, 0]).err = some .alreadyQueued ∧
    (run (fun x : Nat => x) (init (β := Nat) 2
      [.submit 0 7 1 none, .submit 1 8 1 none, .get 1]) [0, 0, 0]).err = some .outOfOrder ∧
    (run (fun x : Nat => x) (init (β := Nat) 1
      [.submit 0 7 1 none, .submit 1 8 1 none, .get 1]) [0, 0, 0]).got = [(1, 8)] :=
  ⟨by decide, rfl, by decide, by decide, by decide⟩

/-! ### round 5c: the exact step count of a run that does not raise

Round 5 proved the bound `2·|prog| + size + 1`.  Exactly: a completed run makes one step per
call of `master()`, one for the `terminate()` of `run()`, and — with slaves — one `serve()`
iteration per `submit_call` and one per slave for the terminate tuple:
`|prog| + #submits + size` (`|prog| + 1` in the single-process mode). -/

/-- **one step, one unit**: in every state nothing was ever sent to rank 0 in (`CInv`, an
invariant of every run from `init`), every executed step of any rank that does not raise
decreases `stepsLeft` by exactly one. -/
theorem nonraising_step_counts_one (f : α → β) (st st' : State α β) (c : Nat) (hc : CInv st)
    (h : step f st c = some st') (herr : st'.err = none) : stepsLeft st' + 1 = stepsLeft st :=
  (stepsLeft_step f st st' c hc h herr).1

/-- **exact accounting of every schedule** (fair or not, complete or not, any size, any
program): if no call has raised, executed steps + `stepsLeft` of the state reached
= `exactSteps size prog`. -/
theorem schedule_exact_accounting (f : α → β) (size : Nat) (prog : List (Op α)) (cs : List Nat)
    (herr : (run f (init (β := β) size prog) cs).err = none) :
    executed f (init (β := β) size prog) cs + stepsLeft (run f (init (β := β) size prog) cs) =
      exactSteps size prog := by
  rw [← stepsLeft_init (β := β) size prog]
  exact (executed_add_stepsLeft f cs _ (cinv_init size prog) herr).1

/-- **exact step count with slaves**: every program, every fair schedule of at least
`2·|prog| + size + 1` rounds: if no call raised, `run()` has returned, every channel
master → slave is empty, and exactly `|prog| + #submits + size` steps were executed. -/
theorem completed_run_exact_steps (f : α → β) (size : Nat) (hsize : 2 ≤ size) (prog : List (Op α))
    (bs : List (List Nat)) (hfair : ∀ b ∈ bs, fairBlock size b)
    (hlen : 2 * prog.length + size + 1 ≤ bs.length)
    (herr : (run f (init (β := β) size prog) bs.flatten).err = none) :
    let st := run f (init (β := β) size prog) bs.flatten
    st.finished = true ∧ inboxTotal st = 0 ∧
    executed f (init (β := β) size prog) bs.flatten = prog.length + nSubmits prog + size := by
  intro st
  obtain ⟨hq, hdone, _⟩ := fair_schedule_completes f size hsize prog bs hfair hlen
  have hfin : st.finished = true := by
    rcases hdone with h | h
    · exact h
    · have : st.err.isSome = true := h
      rw [herr] at this; cases this
  obtain ⟨hacc, hc⟩ := executed_add_stepsLeft f bs.flatten _ (cinv_init (β := β) size prog) herr
  have ht := tinv2_run f prog bs.flatten _ (inv_init f size prog hsize) (tinv2_init size prog)
  have hz : inboxTotal st = 0 := quiescent_inbox_empty f st hc ht hq hfin
  have hs0 : stepsLeft st = 0 := by rw [stepsLeft_dead st (Or.inl hfin)]; exact hz
  refine ⟨hfin, hz, ?_⟩
  have hi := stepsLeft_init (β := β) size prog
  simp only [exactSteps, if_pos hsize] at hi
  have hs0' : stepsLeft (run f (init (β := β) size prog) bs.flatten) = 0 := hs0
  omega

/-- **exact step count in the single-process mode**: `|prog| + 1`. -/
theorem completed_run_exact_steps_serial (f : α → β) (size : Nat) (hsize : size < 2)
    (prog : List (Op α)) (bs : List (List Nat)) (hfair : ∀ b ∈ bs, fairBlock size b)
    (hlen : 2 * prog.length + size + 1 ≤ bs.length)
    (herr : (run f (init (β := β) size prog) bs.flatten).err = none) :
    let st := run f (init (β := β) size prog) bs.flatten
    st.finished = true ∧
    executed f (init (β := β) size prog) bs.flatten = prog.length + 1 := by
  intro st
  obtain ⟨_, hdone⟩ := fair_schedule_completes_serial f size hsize prog bs hfair hlen
  have hfin : st.finished = true := by
    rcases hdone with h | h
    · exact h
    · have : st.err.isSome = true := h
      rw [herr] at this; cases this
  obtain ⟨hacc, hc⟩ := executed_add_stepsLeft f bs.flatten _ (cinv_init (β := β) size prog) herr
  have hsz : st.size = size := size_run f _ _
  have hz : inboxTotal st = 0 := inbox_empty_serial st hc (by rw [hsz]; exact hsize)
  have hs0 : stepsLeft (run f (init (β := β) size prog) bs.flatten) = 0 := by
    rw [stepsLeft_dead st (Or.inl hfin)]; exact hz
  refine ⟨hfin, ?_⟩
  have hi := stepsLeft_init (β := β) size prog
  have hns : ¬ 2 ≤ size := by omega
  simp only [exactSteps, if_neg hns] at hi
  omega

/-- **in-order programs take exactly `|prog| + #submits + size` steps** under every fair
schedule, with any number of slaves, any time estimates and `slave=` arguments. -/
theorem inorder_fair_run_exact_steps (f : α → β) (size : Nat) (hsize : 2 ≤ size)
    (prog : List (Op α)) (hio : inOrder [] prog = true) (bs : List (List Nat))
    (hfair : ∀ b ∈ bs, fairBlock size b) (hlen : 2 * prog.length + size + 1 ≤ bs.length) :
    executed f (init (β := β) size prog) bs.flatten = prog.length + nSubmits prog + size :=
  (completed_run_exact_steps f size hsize prog bs hfair hlen
    (inorder_never_raises f size hsize prog hio bs.flatten)).2.2

theorem nSubmits_append (a b : List (Op α)) : nSubmits (a ++ b) = nSubmits a + nSubmits b := by
  induction a with
  | nil => simp [nSubmits]
  | cons x t ih => cases x <;> simp [nSubmits, ih] <;> omega

theorem nSubmits_masterProg (parts : Nat) (payload : Nat → α) (est : Nat → Int) :
    nSubmits (masterProg parts payload est) = parts := by
  have h1 : ∀ l : List Nat,
      nSubmits (l.map (fun i => Op.submit i (payload i) (est i) none)) = l.length := by
    intro l; induction l with
    | nil => rfl
    | cons x t ih => simp [nSubmits, ih]
  have h2 : ∀ l : List Nat, nSubmits (α := α) (l.map (fun i => Op.get i)) = 0 := by
    intro l; induction l with
    | nil => rfl
    | cons x t ih => simp [nSubmits, ih]
  simp [masterProg, nSubmits_append, h1, h2]

/-- **the master loops of the three measures take exactly `3·parts + size` steps**
(`parts` × `submit_call`, `parts` × `get_result`, `terminate()`, `parts` `serve()` iterations
with a call, `size - 1` with the terminate tuple). -/
theorem master_loop_exact_steps (f : α → β) (size : Nat) (hsize : 2 ≤ size) (parts : Nat)
    (payload : Nat → α) (est : Nat → Int) (bs : List (List Nat))
    (hfair : ∀ b ∈ bs, fairBlock size b) (hlen : 4 * parts + size + 1 ≤ bs.length) :
    executed f (init (β := β) size (masterProg parts payload est)) bs.flatten =
      3 * parts + size := by
  obtain ⟨herr, _⟩ := master_loop_correct f size hsize parts payload est bs.flatten
  have hl : 2 * (masterProg parts payload est).length + size + 1 ≤ bs.length := by
    simp only [masterProg, List.length_append, List.length_map, List.length_range]
    omega
  have := (completed_run_exact_steps f size hsize _ bs hfair hl herr).2.2
  rw [this, nSubmits_masterProg]
  simp only [masterProg, List.length_append, List.length_map, List.length_range]
  omega

/-- non-vacuity and sharpness: 3 ranks, 2 chunks, 12 round-robin rounds: 9 = 3·2 + 3 steps
(the round-5 bound is 12); a run that raises stops early (2 < 6); a schedule cut short
leaves exactly the difference in `stepsLeft`; single-process mode: `|prog| + 1` -/
example :
    let prog := masterProg 2 (fun i => i + 5) (fun _ => (1 : Int))
    let st0 := init (β := Nat) 3 prog
    executed (fun x : Nat => x * x) st0 (List.replicate 12 [0, 1, 2]).flatten = 9 ∧
    exactSteps 3 prog = 9 ∧ stepsLeft st0 = 9 ∧ nSubmits prog = 2 ∧
    stepsLeft (run (fun x : Nat => x * x) st0 (List.replicate 12 [0, 1, 2]).flatten) = 0 ∧
    executed (fun x : Nat => x * x) st0 [0, 0, 1, 1] = 3 ∧
    stepsLeft (run (fun x : Nat => x * x) st0 [0, 0, 1, 1]) = 6 ∧
    executed (fun x : Nat => x) (init (β := Nat) 3 [.submit 0 7 1 none, .get 4])
      (List.replicate 6 [0, 1, 2]).flatten = 3 ∧
    exactSteps 3 [Op.submit 0 7 1 none, Op.get 4] = 6 ∧
    executed (fun x : Nat => x * x) (init (β := Nat) 1 prog)
      (List.replicate 12 [0]).flatten = 5 :=
  ⟨by decide, by decide, by decide, by decide, by decide, by decide, by decide, by decide,
    by decide, by decide⟩

end Pyunicorn.MpiProto

namespace Pyunicorn.MpiChunk
open Pyunicorn.Generated Pyunicorn.Mpi Pyunicorn.MpiProto

variable {ρ β : Type}

/-- **Newman betweenness, unconditional form**: under every fair schedule (at least
`4·parts + size + 1` rounds in each of which the master and every slave occur) the
distributed run *does* return, and what it assembles is the serial result. -/
theorem newman_fair_run_eq_serial [Inhabited ρ] [DecidableEq β]
    (body : (Nat → ρ) → (Nat → Arr ρ) → Nat → β) (full : Nat → Arr ρ) (zero : β)
    (N size : Nat) (hsize : 2 ≤ size) (hN : 1 ≤ N) (est : Nat → Int) (bs : List (List Nat))
    (hfair : ∀ b ∈ bs, fairBlock size b) :
    let stepZ := ArithC19.newman_step N (ArithC19.newman_max_parts size N)
    let partsZ := ArithC19.newman_parts N stepZ
    let payload : Nat → Nat × Nat := fun i =>
      ((ArithC19.newman_start i stepZ).toNat, (ArithC19.newman_end i stepZ N).toNat)
    let f : Nat × Nat → Nat × List β := fun c =>
      (c.1, chunkKernelRel newmanIdx body (distArgs newmanPass full c.1) c.1 c.2)
    let st := run f (init (β := Nat × List β) size (masterProg partsZ.toNat payload est))
      bs.flatten
    4 * partsZ.toNat + size + 1 ≤ bs.length →
    st.finished = true ∧ st.err = none ∧
      assembleR zero N (st.got.map (·.2)) = chunkKernelRel newmanIdx body full 0 N := by
  intro stepZ partsZ payload f st hlen
  have h := newman_distributed_eq_serial body full zero N size hsize hN est bs.flatten
  have hf := (master_loop_completes f size hsize partsZ.toNat payload est bs hfair hlen).1
  exact ⟨hf, h.1, h.2 hf⟩

/-- **n.s.i. Newman betweenness, unconditional form** -/
theorem nsinewman_fair_run_eq_serial [Inhabited ρ] [DecidableEq β]
    (body : (Nat → ρ) → (Nat → Arr ρ) → Nat → β) (full : Nat → Arr ρ) (zero : β)
    (N size : Nat) (hsize : 2 ≤ size) (hN : 1 ≤ N) (est : Nat → Int) (bs : List (List Nat))
    (hfair : ∀ b ∈ bs, fairBlock size b) :
    let stepZ := ArithC19.nsinewman_step N (ArithC19.nsinewman_max_parts size N)
    let partsZ := ArithC19.nsinewman_parts N stepZ
    let payload : Nat → Nat × Nat := fun i =>
      ((ArithC19.nsinewman_start i stepZ).toNat, (ArithC19.nsinewman_end i stepZ N).toNat)
    let f : Nat × Nat → Nat × List β := fun c =>
      (c.1, chunkKernelRel nsinewmanIdx body (distArgs nsinewmanPass full c.1) c.1 c.2)
    let st := run f (init (β := Nat × List β) size (masterProg partsZ.toNat payload est))
      bs.flatten
    4 * partsZ.toNat + size + 1 ≤ bs.length →
    st.finished = true ∧ st.err = none ∧
      assembleR zero N (st.got.map (·.2)) = chunkKernelRel nsinewmanIdx body full 0 N := by
  intro stepZ partsZ payload f st hlen
  have h := nsinewman_distributed_eq_serial body full zero N size hsize hN est bs.flatten
  have hf := (master_loop_completes f size hsize partsZ.toNat payload est bs hfair hlen).1
  exact ⟨hf, h.1, h.2 hf⟩

/-- **n.s.i. Arenas betweenness, unconditional form** (exact arithmetic) -/
theorem arenas_fair_run_eq_serial [Inhabited ρ]
    (body : (Nat → ρ) → (Nat → Arr ρ) → Nat → Nat → Int) (full : Nat → Arr ρ)
    (N size : Nat) (hsize : 2 ≤ size) (hN : 1 ≤ N) (est : Nat → Int) (bs : List (List Nat))
    (hfair : ∀ b ∈ bs, fairBlock size b) :
    let stepZ := ArithC19.arenas_step N (ArithC19.arenas_max_parts size N)
    let partsZ := ArithC19.arenas_parts N stepZ
    let payload : Nat → Nat × Nat := fun i =>
      ((ArithC19.arenas_start i stepZ).toNat, (ArithC19.arenas_end i stepZ N).toNat)
    let f : Nat × Nat → List Int := fun c =>
      addKernel arenasIdx body N (distArgs arenasPass full c.1) c.1 c.2
    let st := run f (init (β := List Int) size (masterProg partsZ.toNat payload est)) bs.flatten
    4 * partsZ.toNat + size + 1 ≤ bs.length →
    st.finished = true ∧ st.err = none ∧
      assembleAdd N (st.got.map (·.2)) = addKernel arenasIdx body N full 0 N := by
  intro stepZ partsZ payload f st hlen
  have h := arenas_distributed_eq_serial body full N size hsize hN est bs.flatten
  have hf := (master_loop_completes f size hsize partsZ.toNat payload est bs hfair hlen).1
  exact ⟨hf, h.1, h.2 hf⟩

end Pyunicorn.MpiChunk

/-! ## Round 5 — the multiprocessing kernel `_nsi_betweenness`: state across `for j in targets`

`pool_sum_eq_serial` (round 3) assumed that the kernel behind `pool.map(worker, batches)` is a
sum of per-target contributions.  The Cython kernel allocates its work arrays once, before the
loop over the targets, and mutates them inside; it is such a sum only because every iteration
re-initialises each of them before use.  `translate/gen_C19.py` regenerates the classification
of every array local from `numerics.pyx`; the model `Pyunicorn.MpiPool` is the loop with an
arbitrary iteration body over these arrays. -/
namespace Pyunicorn.MpiPool
open Pyunicorn.Mpi Pyunicorn.MpiProto Pyunicorn.Generated

/-- **the kernel of the current source carries nothing from target to target**: every array
local of `_nsi_betweenness` is left alone by the target loop, re-initialised at the top of
every iteration before its first use, or the accumulator (exactly one, allocated as zeros,
only `+=`-updated at the top level of the loop, and returned); no parameter is written; no
scalar local is read in an iteration before being assigned in it; the loop runs over the last
parameter, which is the one `pool.map` / the serial call supply (`partial` binds all others). -/
theorem pool_kernel_tables_ok : poolKernelOk = true := by decide

/-- **a kernel that carries nothing is a sum of per-target contributions** — for every
iteration body, every classification without a `carried` array, every initial contents of the
arrays: the result is the sum over the targets of what the body yields from the *same* entry
state, whatever the earlier iterations left behind. -/
theorem pool_kernel_eq_sum (cls : Nat → Cls) (hcls : ∀ a, cls a ≠ .carried) (fresh : Work)
    (iter : Work → Nat → Work × List Int) (N : Nat) (s0 : Work) (targets : List Nat) :
    poolKernel cls fresh iter N s0 targets =
      sumVecs N (targets.map fun j => (iter (entry cls fresh s0) j).2) :=
  poolKernel_eq_sum cls hcls fresh iter N s0 targets

/-- **pool result = serial result for a stateful kernel** (exact arithmetic): for every
iteration body, every number of workers `n ≥ 1` (`np.array_split` batches, empty ones
included), every `targets` (unsorted, repeated): adding up the per-batch results of worker
processes that each start from freshly allocated arrays gives the single call
`worker(targets)`. -/
theorem pool_run_eq_serial (cls : Nat → Cls) (hcls : ∀ a, cls a ≠ .carried) (fresh : Work)
    (iter : Work → Nat → Work × List Int) (N : Nat) (s0 : Work) (targets : List Nat) (n : Nat)
    (hn : 1 ≤ n) (hlen : ∀ s j, (iter s j).2.length = N) :
    poolRun cls fresh iter N s0 targets n = poolKernel cls fresh iter N s0 targets := by
  unfold poolRun
  have hk : poolKernel cls fresh iter N s0 =
      fun b => sumVecs N (b.map fun j => (iter (entry cls fresh s0) j).2) := by
    funext b
    exact poolKernel_eq_sum cls hcls fresh iter N s0 b
  rw [hk]
  have := sumVecs_flatten N (fun j => (iter (entry cls fresh s0) j).2) (fun j => hlen _ j)
    (arraySplit targets n)
  unfold sumVecs at this ⊢
  rw [this, (pool_batches_partition targets n hn).1]

/-- **n.s.i. shortest-path betweenness: pool = serial**, for the kernel of the current source
(classification regenerated, nothing assumed about the iteration body but the length of the
vector it adds). -/
theorem nsi_betweenness_pool_eq_serial (fresh : Work) (iter : Work → Nat → Work × List Int)
    (N : Nat) (s0 : Work) (targets : List Nat) (n : Nat) (hn : 1 ≤ n)
    (hlen : ∀ s j, (iter s j).2.length = N) :
    poolRun poolCls fresh iter N s0 targets n = poolKernel poolCls fresh iter N s0 targets := by
  have hall : StructC19.pool_kernel_arrays.all (fun x => clsOfString x.2 != .carried) = true := by
    decide
  exact pool_run_eq_serial poolCls (clsOf_ne_carried _ hall) fresh iter N s0 targets n hn hlen

/-- sharpness: one array that is neither re-initialised nor left alone (here: array 0 counts
the iterations) and the batches no longer add up to the serial call — what a dropped
`X.fill(..)` at the top of the target loop does. -/
example :
    let cls : Nat → Cls := fun _ => .carried
    let iter : Work → Nat → Work × List Int := fun s j => (fun _ => [1], [(s 0).sum + j])
    poolRun cls (fun _ => []) iter 1 (fun _ => [0]) [5, 6] 2 = [11] ∧
    poolKernel cls (fun _ => []) iter 1 (fun _ => [0]) [5, 6] = [12] ∧
    poolRun (fun _ => .reset) (fun _ => [0]) iter 1 (fun _ => [0]) [5, 6] 2 = [11] ∧
    poolKernel (fun _ => .reset) (fun _ => [0]) iter 1 (fun _ => [0]) [5, 6] = [11] := by
  decide

end Pyunicorn.MpiPool
