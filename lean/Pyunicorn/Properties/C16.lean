import Pyunicorn.Lemmas.Events
/-!
# C16 — Event synchronisation / coincidence follow their counting rules

Statements about the model `Pyunicorn.Events` of
`src/pyunicorn/eventseries/event_series.py`.  The model is tied to the working
tree by the exact correspondence in `harness/c16.py`.

`es` returns the *counts* `countxy`, `countyx` and `normSq = (lx-2)(ly-2)`; the
code returns `count / sqrt normSq`, so `Q ∈ [0,1]` is `0 ≤ count` and
`count² ≤ normSq`.
-/
namespace Pyunicorn.Events

/-! ## event synchronisation: time-axis changes -/

/-- exchanging the roles of the two series exchanges the two return values -/
def ESRes.swap : ESRes → ESRes
  | .nan => .nan
  | .zero => .zero
  | .val a b n => .val b a n

/-- **affine invariance.**  Replacing every time `t` by `k·t + c` (`k > 0`) in both
series, together with `lag ↦ k·lag`, `taumax ↦ k·taumax`, leaves both strengths
(and both guards) unchanged.  Shift invariance is `k = 1`; invariance under
rescaling with an unbounded window is `c = 0`, `taumax = none`. -/
theorem es_affine (k c : Rat) (hk : 0 < k) (ex ey : List Rat) (tm : Option Rat) (lag : Rat) :
    es (ex.map (affT k c)) (ey.map (affT k c)) (tm.map (k * ·)) (k * lag) = es ex ey tm lag := by
  have hy : (ey.map (affT k c)).map (· + k * lag) = (ey.map (· + lag)).map (affT k c) := by
    simp only [List.map_map]
    apply List.map_congr_left
    intro t _
    simp only [Function.comp_def, affT]
    grind
  unfold es
  simp only [hy, List.length_map, innerEvents_eq_innerEv, innerEv_aff k c hk,
    countXY_aff k c hk, countYX_aff k c hk]

/-- **shift invariance**: both series (time stamps) shifted by the same `c` -/
theorem es_shift (c : Rat) (ex ey : List Rat) (tm : Option Rat) (lag : Rat) :
    es (ex.map (· + c)) (ey.map (· + c)) tm lag = es ex ey tm lag := by
  have h := es_affine 1 c (by decide) ex ey tm lag
  have e1 : affT 1 c = (· + c) := by funext t; simp [affT, Rat.one_mul]
  have e2 : tm.map ((1 : Rat) * ·) = tm := by cases tm <;> simp [Rat.one_mul]
  rw [e1, e2, Rat.one_mul] at h
  exact h

/-- **rescaling invariance** with an unbounded coincidence window (`taumax = np.inf`) -/
theorem es_scale (k : Rat) (hk : 0 < k) (ex ey : List Rat) (lag : Rat) :
    es (ex.map (k * ·)) (ey.map (k * ·)) none (k * lag) = es ex ey none lag := by
  have h := es_affine k 0 hk ex ey none lag
  have e1 : affT k 0 = (k * ·) := by funext t; simp [affT, Rat.add_zero]
  rw [e1] at h
  exact h

/-- with a bounded window, rescaling time *and* the window is also invariant -/
theorem es_scale_window (k : Rat) (hk : 0 < k) (ex ey : List Rat) (m lag : Rat) :
    es (ex.map (k * ·)) (ey.map (k * ·)) (some (k * m)) (k * lag) = es ex ey (some m) lag := by
  have h := es_affine k 0 hk ex ey (some m) lag
  have e1 : affT k 0 = (k * ·) := by funext t; simp [affT, Rat.add_zero]
  rw [e1] at h
  exact h

/-- **exchange**: calling with the series exchanged and the lag negated returns the
exchanged pair (`ES(y, x, -lag) = (Q_yx, Q_xy)`); for `lag = 0` the plain exchange. -/
theorem es_exchange (ex ey : List Rat) (tm : Option Rat) (lag : Rat) :
    es ey ex tm (-lag) = (es ex ey tm lag).swap := by
  rw [← es_shift lag ey ex tm (-lag)]
  have hx : (ex.map (· + lag)).map (· + -lag) = ex := by
    simp only [List.map_map]
    conv => rhs; rw [← List.map_id ex]
    apply List.map_congr_left
    intro t _
    simp only [Function.comp_def, id]
    grind
  unfold es
  simp only [hx, List.length_map]
  by_cases h1 : ex.length = 0 ∨ ey.length = 0
  · have h1' : ey.length = 0 ∨ ex.length = 0 := h1.symm
    rw [if_pos h1, if_pos h1']; rfl
  · have h1' : ¬(ey.length = 0 ∨ ex.length = 0) := fun h => h1 h.symm
    by_cases h2 : ex.length = 1 ∨ ex.length = 2 ∨ ey.length = 1 ∨ ey.length = 2
    · have h2' : ey.length = 1 ∨ ey.length = 2 ∨ ex.length = 1 ∨ ex.length = 2 := by omega
      rw [if_neg h1, if_neg h1', if_pos h2, if_pos h2']; rfl
    · have h2' : ¬(ey.length = 1 ∨ ey.length = 2 ∨ ex.length = 1 ∨ ex.length = 2) := by omega
      rw [if_neg h1, if_neg h1', if_neg h2, if_neg h2']
      show ESRes.val _ _ _ = ESRes.val _ _ _
      congr 1
      · exact countXY_swap tm _ _
      · exact countYX_swap tm _ _
      · exact Nat.mul_comm _ _

theorem es_exchange_lag0 (ex ey : List Rat) (tm : Option Rat) :
    es ey ex tm 0 = (es ex ey tm 0).swap := by
  have := es_exchange ex ey tm 0
  simpa using this

/-! ## event synchronisation: range -/

/-- both counts are non-negative (the double-count correction never removes more
than was counted) -/
theorem es_nonneg (ex ey : List Rat) (tm : Option Rat) (lag : Rat) (a b : Rat) (n : Nat)
    (h : es ex ey tm lag = .val a b n) : 0 ≤ a ∧ 0 ≤ b := by
  unfold es at h
  simp only at h
  split at h
  · cases h
  · split at h
    · cases h
    · injection h with h1 h2 h3
      subst h1 h2
      exact ⟨countXY_nonneg _ _ _, countYX_nonneg _ _ _⟩

/-- non-vacuity: six events each, the counting branch is reached -/
example : ∃ a b n, es [0, 1, 2, 4, 6, 7] [0, 1, 3, 4, 6, 8] none 0 = .val a b n :=
  ⟨_, _, _, rfl⟩
example : ∃ a b n, es [0, 1, 2, 4, 6, 7] [0, 1, 3, 4, 6, 8] (some 1) (1/2) = .val a b n :=
  ⟨_, _, _, rfl⟩

end Pyunicorn.Events
