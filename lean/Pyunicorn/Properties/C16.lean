import Pyunicorn.Lemmas.Events
/-!
# C16 — Event synchronisation / coincidence follow their counting rules

Statements about the model `Pyunicorn.Events` of
`src/pyunicorn/eventseries/event_series.py`.  The model is tied to the working
tree by the exact correspondence in `harness/c16.py`.

`es` returns the *counts* `countxy`, `countyx` and `normSq = (lx-2)(ly-2)`; the
code returns `count / sqrt normSq`, so `Q ∈ [0,1]` is `0 ≤ count` and
`count² ≤ normSq`.
-/
namespace Pyunicorn.Events

/-! ## event synchronisation: time-axis changes -/

/-- exchanging the roles of the two series exchanges the two return values -/
def ESRes.swap : ESRes → ESRes
  | .nan => .nan
  | .zero => .zero
  | .val a b n => .val b a n

/-- **affine invariance.**  Replacing every time `t` by `k·t + c` (`k > 0`) in both
series, together with `lag ↦ k·lag`, `taumax ↦ k·taumax`, leaves both strengths
(and both guards) unchanged.  Shift invariance is `k = 1`; invariance under
rescaling with an unbounded window is `c = 0`, `taumax = none`. -/
theorem es_affine (k c : Rat) (hk : 0 < k) (ex ey : List Rat) (tm : Option Rat) (lag : Rat) :
    es (ex.map (affT k c)) (ey.map (affT k c)) (tm.map (k * ·)) (k * lag) = es ex ey tm lag := by
  have hy : (ey.map (affT k c)).map (· + k * lag) = (ey.map (· + lag)).map (affT k c) := by
    simp only [List.map_map]
    apply List.map_congr_left
    intro t _
    simp only [Function.comp_def, affT]
    grind
  unfold es
  simp only [hy, List.length_map, innerEvents_eq_innerEv, innerEv_aff k c hk,
    countXY_aff k c hk, countYX_aff k c hk]

/-- **shift invariance**: both series (time stamps) shifted by the same `c` -/
theorem es_shift (c : Rat) (ex ey : List Rat) (tm : Option Rat) (lag : Rat) :
    es (ex.map (· + c)) (ey.map (· + c)) tm lag = es ex ey tm lag := by
  have h := es_affine 1 c (by decide) ex ey tm lag
  have e1 : affT 1 c = (· + c) := by funext t; simp [affT, Rat.one_mul]
  have e2 : tm.map ((1 : Rat) * ·) = tm := by cases tm <;> simp [Rat.one_mul]
  rw [e1, e2, Rat.one_mul] at h
  exact h

/-- **rescaling invariance** with an unbounded coincidence window (`taumax = np.inf`) -/
theorem es_scale (k : Rat) (hk : 0 < k) (ex ey : List Rat) (lag : Rat) :
    es (ex.map (k * ·)) (ey.map (k * ·)) none (k * lag) = es ex ey none lag := by
  have h := es_affine k 0 hk ex ey none lag
  have e1 : affT k 0 = (k * ·) := by funext t; simp [affT, Rat.add_zero]
  rw [e1] at h
  exact h

/-- with a bounded window, rescaling time *and* the window is also invariant -/
theorem es_scale_window (k : Rat) (hk : 0 < k) (ex ey : List Rat) (m lag : Rat) :
    es (ex.map (k * ·)) (ey.map (k * ·)) (some (k * m)) (k * lag) = es ex ey (some m) lag := by
  have h := es_affine k 0 hk ex ey (some m) lag
  have e1 : affT k 0 = (k * ·) := by funext t; simp [affT, Rat.add_zero]
  rw [e1] at h
  exact h

/-- **exchange**: calling with the series exchanged and the lag negated returns the
exchanged pair (`ES(y, x, -lag) = (Q_yx, Q_xy)`); for `lag = 0` the plain exchange. -/
theorem es_exchange (ex ey : List Rat) (tm : Option Rat) (lag : Rat) :
    es ey ex tm (-lag) = (es ex ey tm lag).swap := by
  rw [← es_shift lag ey ex tm (-lag)]
  have hx : (ex.map (· + lag)).map (· + -lag) = ex := by
    simp only [List.map_map]
    conv => rhs; rw [← List.map_id ex]
    apply List.map_congr_left
    intro t _
    simp only [Function.comp_def, id]
    grind
  unfold es
  simp only [hx, List.length_map]
  by_cases h1 : ex.length = 0 ∨ ey.length = 0
  · have h1' : ey.length = 0 ∨ ex.length = 0 := h1.symm
    rw [if_pos h1, if_pos h1']; rfl
  · have h1' : ¬(ey.length = 0 ∨ ex.length = 0) := fun h => h1 h.symm
    by_cases h2 : ex.length = 1 ∨ ex.length = 2 ∨ ey.length = 1 ∨ ey.length = 2
    · have h2' : ey.length = 1 ∨ ey.length = 2 ∨ ex.length = 1 ∨ ex.length = 2 := by omega
      rw [if_neg h1, if_neg h1', if_pos h2, if_pos h2']; rfl
    · have h2' : ¬(ey.length = 1 ∨ ey.length = 2 ∨ ex.length = 1 ∨ ex.length = 2) := by omega
      rw [if_neg h1, if_neg h1', if_neg h2, if_neg h2']
      show ESRes.val _ _ _ = ESRes.val _ _ _
      congr 1
      · exact countXY_swap tm _ _
      · exact countYX_swap tm _ _
      · exact Nat.mul_comm _ _

theorem es_exchange_lag0 (ex ey : List Rat) (tm : Option Rat) :
    es ey ex tm 0 = (es ex ey tm 0).swap := by
  have := es_exchange ex ey tm 0
  simpa using this

/-! ## event synchronisation: range -/

/-- both counts are non-negative (the double-count correction never removes more
than was counted) -/
theorem es_nonneg (ex ey : List Rat) (tm : Option Rat) (lag : Rat) (a b : Rat) (n : Nat)
    (h : es ex ey tm lag = .val a b n) : 0 ≤ a ∧ 0 ≤ b := by
  unfold es at h
  simp only at h
  split at h
  · cases h
  · split at h
    · cases h
    · injection h with h1 h2 h3
      subst h1 h2
      exact ⟨countXY_nonneg _ _ _, countYX_nonneg _ _ _⟩

/-- **range** (upper bound).  For strictly increasing event times (time stamps are
strictly increasing; the lag only shifts the second series) each inner event has at most
one counted partner (`0 < d ≤ τ` or `d = 0`), hence each count is at most the number
of inner events of *either* series, and `count² ≤ (lx-2)(ly-2)`: together with
`es_nonneg` both strengths `count / sqrt((lx-2)(ly-2))` lie in `[0,1]`. -/
theorem es_range (ex ey : List Rat) (tm : Option Rat) (lag : Rat) (a b : Rat) (n : Nat)
    (hx : List.Pairwise (· < ·) ex) (hy : List.Pairwise (· < ·) ey)
    (h : es ex ey tm lag = .val a b n) :
    (0 ≤ a ∧ a * a ≤ (n : Rat)) ∧ (0 ≤ b ∧ b * b ≤ (n : Rat)) := by
  have hnn := es_nonneg ex ey tm lag a b n h
  have hy' : List.Pairwise (· < ·) (ey.map (· + lag)) := by
    rw [List.pairwise_map]
    exact hy.imp (fun {u v} huv => by grind)
  unfold es at h
  simp only at h
  split at h
  · cases h
  · split at h
    · cases h
    · injection h with h1 h2 h3
      have sx := innerEv_sep ex hx
      have sy := innerEv_sep _ hy'
      have lx := innerEv_length ex
      have ly := innerEv_length (ey.map (· + lag))
      rw [innerEvents_eq_innerEv] at h1 h2
      rw [innerEvents_eq_innerEv] at h1 h2
      have ba := countXY_le tm _ _ sx sy
      have bb := countXY_le tm _ _ sy sx
      rw [countXY_swap] at bb
      rw [h1, lx, ly] at ba
      rw [h2, lx, ly] at bb
      have hn : (n : Rat) = ((ex.length - 2 : Nat) : Rat) * (((ey.map (· + lag)).length - 2 : Nat) : Rat) := by
        rw [← h3, Rat.natCast_mul]
      rw [hn]
      exact ⟨⟨hnn.1, sq_le_mul _ _ _ hnn.1 ba.1 ba.2⟩, ⟨hnn.2, sq_le_mul _ _ _ hnn.2 bb.2 bb.1⟩⟩

/-- non-vacuity: six events each, the counting branch is reached -/
example : ∃ a b n, es [0, 1, 2, 4, 6, 7] [0, 1, 3, 4, 6, 8] none 0 = .val a b n :=
  ⟨_, _, _, rfl⟩
example : ∃ a b n, es [0, 1, 2, 4, 6, 7] [0, 1, 3, 4, 6, 8] (some 1) (1/2) = .val a b n :=
  ⟨_, _, _, rfl⟩


/-! ## event coincidence analysis -/

/-- **range**: every rate returned by `event_coincidence_analysis` lies in `[0,1]`
(or is NaN = `0/0`, when every event of the series is a boundary event) -/
theorem eca_range (e1 e2 : List Rat) (tm lag : Rat) (o : EcaOut)
    (h : eca e1 e2 tm lag = some o) (r : Rat)
    (hr : o.prec12 = .val r ∨ o.trig12 = .val r ∨ o.prec21 = .val r ∨ o.trig21 = .val r) :
    0 ≤ r ∧ r ≤ 1 := by
  unfold eca at h
  split at h
  · cases h
  · simp only [Option.some.injEq] at h
    subst h
    simp only at hr
    rcases hr with hr | hr | hr | hr
    · refine rate_range _ _ r hr ?_
      have := prec_le (inWin 0 tm) lag
        (e1.drop (if (decide (lag = 0) && decide (tm = 0)) = true then 0
          else nStart e1 (lag + tm))) e2
      simp only [List.length_drop] at this
      omega
    · refine rate_range _ _ r hr ?_
      have := trig_le (inWin 0 tm) lag e1
        (e2.take (e2.length - if (decide (lag = 0) && decide (tm = 0)) = true then 0
          else nEnd e2 (lag + tm)))
      simp only [List.length_take] at this
      omega
    · refine rate_range _ _ r hr ?_
      have := prec_le (inWin 0 tm) lag
        (e2.drop (if (decide (lag = 0) && decide (tm = 0)) = true then 0
          else nStart e2 (lag + tm))) e1
      simp only [List.length_drop] at this
      omega
    · refine rate_range _ _ r hr ?_
      have := trig_le (inWin 0 tm) lag e2
        (e1.take (e1.length - if (decide (lag = 0) && decide (tm = 0)) = true then 0
          else nEnd e1 (lag + tm)))
      simp only [List.length_take] at this
      omega

def EcaOut.swap (o : EcaOut) : EcaOut := ⟨o.prec21, o.trig21, o.prec12, o.trig12⟩

/-- **exchange**: `ECA(y, x)` returns the rates of `ECA(x, y)` with the two directions
exchanged (same `taumax`, same `lag`) -/
theorem eca_exchange (e1 e2 : List Rat) (tm lag : Rat) :
    eca e2 e1 tm lag = (eca e1 e2 tm lag).map EcaOut.swap := by
  unfold eca
  by_cases h : e1 = [] ∨ e2 = []
  · rw [if_pos h, if_pos h.symm]; rfl
  · rw [if_neg h, if_neg (fun h' => h h'.symm)]; rfl

/-- **shift invariance** of all four rates -/
theorem eca_shift (c : Rat) (e1 e2 : List Rat) (tm lag : Rat) :
    eca (e1.map (· + c)) (e2.map (· + c)) tm lag = eca e1 e2 tm lag := by
  unfold eca
  simp only [List.map_eq_nil_iff, List.length_map, nStart_shift, nEnd_shift,
    ← List.map_drop, ← List.map_take, prec_shift, trig_shift]

/-- **range** for the three window types of `_eca_coincidence_rate` -/
theorem ecaRate_range (w : Window) (e1 e2 : List Rat) (tm lag : Rat) (a b : Rate)
    (h : ecaRate w e1 e2 tm lag = some (a, b)) (r : Rat) (hr : a = .val r ∨ b = .val r) :
    0 ≤ r ∧ r ≤ 1 := by
  unfold ecaRate at h
  split at h
  · cases h
  · cases w <;> simp only [Option.some.injEq, Prod.mk.injEq] at h <;>
      obtain ⟨ha, hb⟩ := h <;> subst ha hb <;> rcases hr with hr | hr <;>
      refine rate_range _ _ r hr ?_
    · have := prec_le (inWin 0 tm) lag
        (e1.drop (if (decide (lag = 0) && decide (tm = 0)) = true then 0
          else nStart e1 (lag + tm))) e2
      simp only [List.length_drop] at this
      omega
    · have := prec_le (inWin 0 tm) lag
        (e2.drop (if (decide (lag = 0) && decide (tm = 0)) = true then 0
          else nStart e2 (lag + tm))) e1
      simp only [List.length_drop] at this
      omega
    · have := trig_le (inWin 0 tm) lag e1
        (e2.take (e2.length - if (decide (lag = 0) && decide (tm = 0)) = true then 0
          else nEnd e2 (lag + tm)))
      simp only [List.length_take] at this
      omega
    · have := trig_le (inWin 0 tm) lag e2
        (e1.take (e1.length - if (decide (lag = 0) && decide (tm = 0)) = true then 0
          else nEnd e1 (lag + tm)))
      simp only [List.length_take] at this
      omega
    · have := prec_le (inWin (-tm) tm) lag
        ((e1.take (e1.length - if (decide (lag = 0) && decide (tm = 0)) = true then 0
          else nEnd e1 (lag + tm))).drop (if (decide (lag = 0) && decide (tm = 0)) = true then 0
          else nStart e1 (lag + tm))) e2
      simp only [List.length_drop, List.length_take] at this
      omega
    · have := prec_le (inWin (-tm) tm) lag
        ((e2.take (e2.length - if (decide (lag = 0) && decide (tm = 0)) = true then 0
          else nEnd e2 (lag + tm))).drop (if (decide (lag = 0) && decide (tm = 0)) = true then 0
          else nStart e2 (lag + tm))) e1
      simp only [List.length_drop, List.length_take] at this
      omega

/-- **exchange** for `_eca_coincidence_rate`: the pair is reversed -/
theorem ecaRate_exchange (w : Window) (e1 e2 : List Rat) (tm lag : Rat) :
    ecaRate w e2 e1 tm lag = (ecaRate w e1 e2 tm lag).map Prod.swap := by
  unfold ecaRate
  by_cases h : e1 = [] ∨ e2 = []
  · rw [if_pos h, if_pos h.symm]; rfl
  · rw [if_neg h, if_neg (fun h' => h h'.symm)]; cases w <;> rfl

/-- **shift invariance** for `_eca_coincidence_rate` -/
theorem ecaRate_shift (w : Window) (c : Rat) (e1 e2 : List Rat) (tm lag : Rat) :
    ecaRate w (e1.map (· + c)) (e2.map (· + c)) tm lag = ecaRate w e1 e2 tm lag := by
  unfold ecaRate
  cases w <;>
  simp only [List.map_eq_nil_iff, List.length_map, nStart_shift, nEnd_shift,
    ← List.map_drop, ← List.map_take, prec_shift, trig_shift]

/-- non-vacuity: a call that returns four proper rates -/
example : ∃ o, eca [1, 3, 4] [0, 5] 1 (1/2) = some o := ⟨_, rfl⟩
example : ∃ a b, ecaRate .symmetric [1, 3, 4, 8, 9] [0, 5, 9] 1 0 = some (a, b) := ⟨_, _, rfl⟩


/-! ## counting formulas: what the vectorised slices compute -/

/-- the rows / columns of `dstxy2`, `tau2` range over the inner events `1 … l-2`, each
carrying the smaller of its two neighbouring waiting times (`ex[1:-1]`, `np.diff`,
`np.minimum(diff[1:], diff[:-1])` = structural recursion over consecutive triples) -/
theorem es_slices_eq_neighbour_gaps (l : List Rat) : innerEvents l = innerEv l :=
  innerEvents_eq_innerEv l

theorem innerEvents_length (l : List Rat) : (innerEvents l).length = l.length - 2 := by
  rw [innerEvents_eq_innerEv, innerEv_length]

/-- the precursor exclusion `[n11:, :]` with `n11 = len(e1[e1 <= e1[0] + lag + taumax])`
removes, on strictly increasing event times, exactly the events not later than
`e1[0] + lag + taumax` (the published boundary rule), not merely that many events -/
theorem eca_start_slice_eq_time_exclusion (e : List Rat) (h : Rat) (t : List Rat) (c : Rat)
    (he : e = h :: t) (hs : List.Pairwise (· < ·) e) :
    e.drop (nStart e c) = e.filter fun u => decide (¬ u ≤ h + c) := by
  subst he
  simp only [nStart, List.head?_cons]
  exact drop_countP_le_sorted (h + c) (h :: t) hs

/-! ## N×N matrix -/

/-- entry `[i,j]` of the symmetrised matrix is `op M[i,j] M[j,i]` -/
theorem symmetrize_entry {α} (n : Nat) (d d' : α) (op : α → α → α) (M : Mat α) (i j : Nat)
    (hi : i < n) (hj : j < n) :
    (symmetrize n d op M).get d' i j = op (M.get d i j) (M.get d j i) := by
  simp [symmetrize, Mat.get, hi, hj]


/-- **matrix entries**: after the double loop `for i: for j in range(i+1, N):
directed[i,j], directed[j,i] = pair(i,j)`, entry `[i,j]` with `i < j` is the first value of
the pair `(i,j)`, entry `[i,j]` with `j < i` the second value of the pair `(j,i)`, the
diagonal keeps its initial zero — every off-diagonal entry is written exactly once. -/
theorem assemble_entry {α} (n : Nat) (z d : α) (pair : Nat → Nat → α × α) (i j : Nat)
    (hi : i < n) (hj : j < n) :
    (assemble n z pair).get d i j =
      if i < j then (pair i j).1 else if j < i then (pair j i).2 else z := by
  unfold assemble
  rw [get_fold n d pair (upperPairs n) (fun p hp => (mem_upperPairs n p.1 p.2).1 hp) _
    (shaped_replicate n z) i j]
  simp only [mem_upperPairs, get_replicate n z d i j hi hj, hi, hj, and_true]

/-- the ES matrix holds, at `[i,j]` and `[j,i]` (`i < j`), the two return values of
`event_synchronization(column i, column j)` on the object's time stamps, `taumax`, `lag` -/
theorem esMatrix_entry (ts : List Rat) (E : Mat Bool) (n : Nat) (tm : Option Rat) (lag : Rat)
    (i j : Nat) (hij : i < j) (hj : j < n) :
    (esMatrix ts E n tm lag).get none i j
        = (esPairEntry (esSeries ts (column E i) ts (column E j) tm lag)).1 ∧
    (esMatrix ts E n tm lag).get none j i
        = (esPairEntry (esSeries ts (column E i) ts (column E j) tm lag)).2 := by
  unfold esMatrix
  rw [assemble_entry _ _ _ _ i j (by omega) hj, assemble_entry _ _ _ _ j i hj (by omega)]
  rw [if_pos hij, if_neg (by omega), if_pos hij]
  exact ⟨rfl, rfl⟩

/-- `event_series_analysis(method='ES', symmetrization=s)`: entry `[i,j]` is the
symmetrisation applied to the two directed entries `[i,j]` and `[j,i]` -/
theorem esAnalysis_entry (ts : List Rat) (E : Mat Bool) (n : Nat) (tm : Option Rat) (lag : Rat)
    (s : Symm) (i j : Nat) (hi : i < n) (hj : j < n) :
    (esAnalysis ts E n tm lag s).get none i j
      = esSymmOp s ((esMatrix ts E n tm lag).get none i j) ((esMatrix ts E n tm lag).get none j i) :=
  symmetrize_entry n none none (esSymmOp s) _ i j hi hj

/-! ## symmetrisation table -/

theorem symmOp_directed (a b : Rat) : symmOp .directed a b = a := rfl
/-- `symmetric`, `mean`, `max`, `min` give symmetric matrices -/
theorem symmOp_comm (s : Symm) (hs : s = .symmetric ∨ s = .mean ∨ s = .max ∨ s = .min)
    (a b : Rat) : symmOp s a b = symmOp s b a := by
  rcases hs with h | h | h | h <;> subst h <;> simp only [symmOp] <;> grind
/-- `antisym` gives an antisymmetric matrix -/
theorem symmOp_antisym (a b : Rat) : symmOp .antisym a b = -(symmOp .antisym b a) := by
  simp only [symmOp]; grind
/-- `mean`, `max`, `min` keep values inside any interval containing both entries;
`max`/`min` select one of the two pairwise values -/
theorem symmOp_between (s : Symm) (hs : s = .mean ∨ s = .max ∨ s = .min) (a b lo hi : Rat)
    (ha : lo ≤ a ∧ a ≤ hi) (hb : lo ≤ b ∧ b ≤ hi) :
    lo ≤ symmOp s a b ∧ symmOp s a b ≤ hi := by
  rcases hs with h | h | h <;> subst h <;> simp only [symmOp] <;> grind
theorem symmOp_max_min_select (a b : Rat) :
    (symmOp .max a b = a ∨ symmOp .max a b = b) ∧ (symmOp .min a b = a ∨ symmOp .min a b = b) := by
  simp only [symmOp]; grind
theorem symmOp_sum (a b : Rat) :
    symmOp .symmetric a b = a + b ∧ 2 * symmOp .mean a b = a + b := by
  simp only [symmOp]; grind

/-! ## thresholding -/

/-- the final loop marks exactly the samples strictly beyond the threshold -/
theorem mark_iff (th d : Rat) :
    (mark th .above d = true ↔ d > th) ∧ (mark th .below d = true ↔ d < th) := by
  simp [mark]

/-- method `'quantile'` with a quantile in `[0,1]`: the threshold is the `q`-quantile of
the variable's samples; a missing type defaults to `'above'` iff `q ≥ 1/2` -/
theorem resolve_quantile (col : List Rat) (q : Rat) (t : Option TType) (h0 : 0 ≤ q) (h1 : q ≤ 1) :
    resolveThreshold col .quantile (some q) t
      = .ok (quantile col q, t.getD (if q ≥ 1 / 2 then .above else .below)) := by
  simp only [resolveThreshold]
  rw [if_neg (by grind)]

/-- quantiles outside `[0,1]` are rejected -/
theorem resolve_quantile_reject (col : List Rat) (q : Rat) (t : Option TType)
    (h : q < 0 ∨ 1 < q) : resolveThreshold col .quantile (some q) t = .error .valueError := by
  simp only [resolveThreshold]
  rw [if_pos (by grind)]

/-- method `'value'`: a value inside the data range is used as it is -/
theorem resolve_value (col : List Rat) (x : Rat) (ty : TType)
    (hlo : ∃ d ∈ col, d ≤ x) (hhi : ∃ d ∈ col, x ≤ d) :
    resolveThreshold col .value (some x) (some ty) = .ok (x, ty) := by
  simp only [resolveThreshold]
  rw [if_neg]
  · rfl
  · intro h
    rcases h with h | h
    · obtain ⟨d, hd, hx⟩ := hhi
      have := List.all_eq_true.1 h d hd
      simp only [decide_eq_true_eq] at this
      grind
    · obtain ⟨d, hd, hx⟩ := hlo
      have := List.all_eq_true.1 h d hd
      simp only [decide_eq_true_eq] at this
      grind

/-- defaults: no value → the median; no type → `'above'` -/
theorem resolve_defaults (col : List Rat) :
    resolveThreshold col .quantile none none = .ok (quantile col (1 / 2), .above) ∧
    resolveThreshold col .value none none = .ok (median col, .above) := by
  constructor
  · rfl
  · simp only [resolveThreshold, Option.getD]
    rw [if_pos Rat.le_refl]

/-- non-vacuity: hypotheses of `resolve_quantile` / `resolve_value` are satisfiable -/
example : resolveThreshold [1, 5, 2, 4] .quantile (some (3/4)) none
    = .ok (quantile [1, 5, 2, 4] (3/4), (none : Option TType).getD
        (if (3/4 : Rat) ≥ 1 / 2 then .above else .below)) :=
  resolve_quantile _ _ _ (by grind) (by grind)
example : resolveThreshold [1, 5, 2, 4] .value (some 3) (some .below) = .ok (3, .below) :=
  resolve_value _ _ _ ⟨2, by simp, by grind⟩ ⟨4, by simp, by grind⟩

end Pyunicorn.Events
