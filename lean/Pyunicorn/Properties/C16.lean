import Pyunicorn.Lemmas.EventsSpec
import Pyunicorn.Lemmas.EventsReal
import Pyunicorn.Lemmas.EventsQuantile
import Pyunicorn.Generated.ArithC16
import Pyunicorn.Generated.StructC16
import Pyunicorn.Lemmas.EventsObject
import Pyunicorn.Lemmas.EventsF32
import Pyunicorn.Lemmas.EventsF64
import Pyunicorn.Lemmas.EventsF64Matrix
import Pyunicorn.Lemmas.EventsFl
import Pyunicorn.Lemmas.EventsFlScale
import Pyunicorn.Lemmas.EventsNpQuantile
/-!
# C16 — Event synchronisation / coincidence follow their counting rules

Statements about the model `Pyunicorn.Events` of
`src/pyunicorn/eventseries/event_series.py`.  The model is tied to the working
tree by the exact correspondence in `harness/c16.py`.

`es` returns the *counts* `countxy`, `countyx` and `normSq = (lx-2)(ly-2)`; the
code returns `count / sqrt normSq`, so `Q ∈ [0,1]` is `0 ≤ count` and
`count² ≤ normSq`.
-/
namespace Pyunicorn.Events

/-! ## event synchronisation: time-axis changes -/

/-- exchanging the roles of the two series exchanges the two return values -/
def ESRes.swap : ESRes → ESRes
  | .nan => .nan
  | .zero => .zero
  | .val a b n => .val b a n

/-- **affine invariance.**  Replacing every time `t` by `k·t + c` (`k > 0`) in both
series, together with `lag ↦ k·lag`, `taumax ↦ k·taumax`, leaves both strengths
(and both guards) unchanged.  Shift invariance is `k = 1`; invariance under
rescaling with an unbounded window is `c = 0`, `taumax = none`. -/
theorem es_affine (k c : Rat) (hk : 0 < k) (ex ey : List Rat) (tm : Option Rat) (lag : Rat) :
    es (ex.map (affT k c)) (ey.map (affT k c)) (tm.map (k * ·)) (k * lag) = es ex ey tm lag := by
  have hy : (ey.map (affT k c)).map (· + k * lag) = (ey.map (· + lag)).map (affT k c) := by
    simp only [List.map_map]
    apply List.map_congr_left
    intro t _
    simp only [Function.comp_def, affT]
    grind
  unfold es
  simp only [hy, List.length_map, innerEvents_eq_innerEv, innerEv_aff k c hk,
    countXY_aff k c hk, countYX_aff k c hk]

/-- **shift invariance**: both series (time stamps) shifted by the same `c` -/
theorem es_shift (c : Rat) (ex ey : List Rat) (tm : Option Rat) (lag : Rat) :
    es (ex.map (· + c)) (ey.map (· + c)) tm lag = es ex ey tm lag := by
  have h := es_affine 1 c (by decide) ex ey tm lag
  have e1 : affT 1 c = (· + c) := by funext t; simp [affT]
  have e2 : tm.map ((1 : Rat) * ·) = tm := by cases tm <;> simp
  rw [e1, e2, Rat.one_mul] at h
  exact h

/-- **rescaling invariance** with an unbounded coincidence window (`taumax = np.inf`) -/
theorem es_scale (k : Rat) (hk : 0 < k) (ex ey : List Rat) (lag : Rat) :
    es (ex.map (k * ·)) (ey.map (k * ·)) none (k * lag) = es ex ey none lag := by
  have h := es_affine k 0 hk ex ey none lag
  have e1 : affT k 0 = (k * ·) := by funext t; simp [affT]
  rw [e1] at h
  exact h

/-- with a bounded window, rescaling time *and* the window is also invariant -/
theorem es_scale_window (k : Rat) (hk : 0 < k) (ex ey : List Rat) (m lag : Rat) :
    es (ex.map (k * ·)) (ey.map (k * ·)) (some (k * m)) (k * lag) = es ex ey (some m) lag := by
  have h := es_affine k 0 hk ex ey (some m) lag
  have e1 : affT k 0 = (k * ·) := by funext t; simp [affT]
  rw [e1] at h
  exact h

/-- **exchange**: calling with the series exchanged and the lag negated returns the
exchanged pair (`ES(y, x, -lag) = (Q_yx, Q_xy)`); for `lag = 0` the plain exchange. -/
theorem es_exchange (ex ey : List Rat) (tm : Option Rat) (lag : Rat) :
    es ey ex tm (-lag) = (es ex ey tm lag).swap := by
  rw [← es_shift lag ey ex tm (-lag)]
  have hx : (ex.map (· + lag)).map (· + -lag) = ex := by
    simp only [List.map_map]
    conv => rhs; rw [← List.map_id ex]
    apply List.map_congr_left
    intro t _
    simp only [Function.comp_def, id]
    grind
  unfold es
  simp only [hx, List.length_map]
  by_cases h1 : ex.length = 0 ∨ ey.length = 0
  · have h1' : ey.length = 0 ∨ ex.length = 0 := h1.symm
    rw [if_pos h1, if_pos h1']; rfl
  · have h1' : ¬(ey.length = 0 ∨ ex.length = 0) := fun h => h1 h.symm
    by_cases h2 : ex.length = 1 ∨ ex.length = 2 ∨ ey.length = 1 ∨ ey.length = 2
    · have h2' : ey.length = 1 ∨ ey.length = 2 ∨ ex.length = 1 ∨ ex.length = 2 := by omega
      rw [if_neg h1, if_neg h1', if_pos h2, if_pos h2']; rfl
    · have h2' : ¬(ey.length = 1 ∨ ey.length = 2 ∨ ex.length = 1 ∨ ex.length = 2) := by omega
      rw [if_neg h1, if_neg h1', if_neg h2, if_neg h2']
      show ESRes.val _ _ _ = ESRes.val _ _ _
      congr 1
      · exact countXY_swap tm _ _
      · exact countYX_swap tm _ _
      · exact Nat.mul_comm _ _

theorem es_exchange_lag0 (ex ey : List Rat) (tm : Option Rat) :
    es ey ex tm 0 = (es ex ey tm 0).swap := by
  have := es_exchange ex ey tm 0
  simpa using this

/-! ## event synchronisation: range -/

/-- both counts are non-negative (the double-count correction never removes more
than was counted) -/
theorem es_nonneg (ex ey : List Rat) (tm : Option Rat) (lag : Rat) (a b : Rat) (n : Nat)
    (h : es ex ey tm lag = .val a b n) : 0 ≤ a ∧ 0 ≤ b := by
  unfold es at h
  simp only at h
  split at h
  · cases h
  · split at h
    · cases h
    · injection h with h1 h2 h3
      subst h1 h2
      exact ⟨countXY_nonneg _ _ _, countYX_nonneg _ _ _⟩

/-- **range** (upper bound).  For strictly increasing event times (time stamps are
strictly increasing; the lag only shifts the second series) each inner event has at most
one counted partner (`0 < d ≤ τ` or `d = 0`), hence each count is at most the number
of inner events of *either* series, and `count² ≤ (lx-2)(ly-2)`: together with
`es_nonneg` both strengths `count / sqrt((lx-2)(ly-2))` lie in `[0,1]`. -/
theorem es_range (ex ey : List Rat) (tm : Option Rat) (lag : Rat) (a b : Rat) (n : Nat)
    (hx : List.Pairwise (· < ·) ex) (hy : List.Pairwise (· < ·) ey)
    (h : es ex ey tm lag = .val a b n) :
    (0 ≤ a ∧ a * a ≤ (n : Rat)) ∧ (0 ≤ b ∧ b * b ≤ (n : Rat)) := by
  have hnn := es_nonneg ex ey tm lag a b n h
  have hy' : List.Pairwise (· < ·) (ey.map (· + lag)) := by
    rw [List.pairwise_map]
    exact hy.imp (fun {u v} huv => by grind)
  unfold es at h
  simp only at h
  split at h
  · cases h
  · split at h
    · cases h
    · injection h with h1 h2 h3
      have sx := innerEv_sep ex hx
      have sy := innerEv_sep _ hy'
      have lx := innerEv_length ex
      have ly := innerEv_length (ey.map (· + lag))
      rw [innerEvents_eq_innerEv] at h1 h2
      rw [innerEvents_eq_innerEv] at h1 h2
      have ba := countXY_le tm _ _ sx sy
      have bb := countXY_le tm _ _ sy sx
      rw [countXY_swap] at bb
      rw [h1, lx, ly] at ba
      rw [h2, lx, ly] at bb
      have hn : (n : Rat) = ((ex.length - 2 : Nat) : Rat) * (((ey.map (· + lag)).length - 2 : Nat) : Rat) := by
        rw [← h3, Rat.natCast_mul]
      rw [hn]
      exact ⟨⟨hnn.1, sq_le_mul _ _ _ hnn.1 ba.1 ba.2⟩, ⟨hnn.2, sq_le_mul _ _ _ hnn.2 bb.2 bb.1⟩⟩

/-- non-vacuity: six events each, the counting branch is reached -/
example : ∃ a b n, es [0, 1, 2, 4, 6, 7] [0, 1, 3, 4, 6, 8] none 0 = .val a b n :=
  ⟨_, _, _, rfl⟩
example : ∃ a b n, es [0, 1, 2, 4, 6, 7] [0, 1, 3, 4, 6, 8] (some 1) (1/2) = .val a b n :=
  ⟨_, _, _, rfl⟩


/-! ## the returned strengths `count / sqrt((lx-2)(ly-2))` over the reals -/

/-- **range of the returned values**: for strictly increasing event times both values
`countxy / sqrt((lx-2)(ly-2))`, `countyx / sqrt(…)` that `event_synchronization` returns
lie in `[0, 1]` (real square root; float rounding is outside the model) -/
theorem es_strength_range (ex ey : List Rat) (tm : Option Rat) (lag : Rat) (a b : Rat) (n : Nat)
    (hx : List.Pairwise (· < ·) ex) (hy : List.Pairwise (· < ·) ey)
    (h : es ex ey tm lag = .val a b n) :
    (0 ≤ strength a n ∧ strength a n ≤ 1) ∧ (0 ≤ strength b n ∧ strength b n ≤ 1) := by
  obtain ⟨⟨ha0, ha1⟩, ⟨hb0, hb1⟩⟩ := es_range ex ey tm lag a b n hx hy h
  exact ⟨strength_unit_interval a n ha0 ha1, strength_unit_interval b n hb0 hb1⟩

/-- value of an ES matrix entry -/
noncomputable def esEntryValue (e : ESEntry) : Option ℝ := e.map fun p => strength p.1 p.2

/-- the model symmetrises the *counts* of a pair; that is the table applied to the two
returned strengths (`x/c op y/c = (x op y)/c`, both entries of a pair share the norm) -/
theorem esSymmOp_value (s : Symm) (x y : Rat) (n : Nat) :
    esEntryValue (esSymmOp s (some (x, n)) (some (y, n)))
      = some (symmOpR s (strength x n) (strength y n)) := by
  rw [symmOpR_strength]
  cases s <;> rfl

/-! ## event coincidence analysis -/

/-- **range**: every rate returned by `event_coincidence_analysis` lies in `[0,1]`
(or is NaN = `0/0`, when every event of the series is a boundary event) -/
theorem eca_range (e1 e2 : List Rat) (tm lag : Rat) (o : EcaOut)
    (h : eca e1 e2 tm lag = some o) (r : Rat)
    (hr : o.prec12 = .val r ∨ o.trig12 = .val r ∨ o.prec21 = .val r ∨ o.trig21 = .val r) :
    0 ≤ r ∧ r ≤ 1 := by
  unfold eca at h
  split at h
  · cases h
  · simp only [Option.some.injEq] at h
    subst h
    simp only at hr
    rcases hr with hr | hr | hr | hr
    · refine rate_range _ _ r hr ?_
      have := prec_le (inWin 0 tm) lag
        (e1.drop (if (decide (lag = 0) && decide (tm = 0)) = true then 0
          else nStart e1 (lag + tm))) e2
      simp only [List.length_drop] at this
      omega
    · refine rate_range _ _ r hr ?_
      have := trig_le (inWin 0 tm) lag e1
        (e2.take (e2.length - if (decide (lag = 0) && decide (tm = 0)) = true then 0
          else nEnd e2 (lag + tm)))
      simp only [List.length_take] at this
      omega
    · refine rate_range _ _ r hr ?_
      have := prec_le (inWin 0 tm) lag
        (e2.drop (if (decide (lag = 0) && decide (tm = 0)) = true then 0
          else nStart e2 (lag + tm))) e1
      simp only [List.length_drop] at this
      omega
    · refine rate_range _ _ r hr ?_
      have := trig_le (inWin 0 tm) lag e2
        (e1.take (e1.length - if (decide (lag = 0) && decide (tm = 0)) = true then 0
          else nEnd e1 (lag + tm)))
      simp only [List.length_take] at this
      omega

def EcaOut.swap (o : EcaOut) : EcaOut := ⟨o.prec21, o.trig21, o.prec12, o.trig12⟩

/-- **exchange**: `ECA(y, x)` returns the rates of `ECA(x, y)` with the two directions
exchanged (same `taumax`, same `lag`) -/
theorem eca_exchange (e1 e2 : List Rat) (tm lag : Rat) :
    eca e2 e1 tm lag = (eca e1 e2 tm lag).map EcaOut.swap := by
  unfold eca
  by_cases h : e1 = [] ∨ e2 = []
  · rw [if_pos h, if_pos h.symm]; rfl
  · rw [if_neg h, if_neg (fun h' => h h'.symm)]; rfl

/-- **shift invariance** of all four rates -/
theorem eca_shift (c : Rat) (e1 e2 : List Rat) (tm lag : Rat) :
    eca (e1.map (· + c)) (e2.map (· + c)) tm lag = eca e1 e2 tm lag := by
  unfold eca
  simp only [List.map_eq_nil_iff, List.length_map, nStart_shift, nEnd_shift,
    ← List.map_drop, ← List.map_take, prec_shift, trig_shift]

/-- **affine invariance of all four coincidence rates**: times `t ↦ k·t + c` (`k > 0`) in
both series with `taumax ↦ k·taumax`, `lag ↦ k·lag` leave `event_coincidence_analysis`
unchanged (a change of the time unit; `eca_shift` is `k = 1`) -/
theorem eca_affine (k c : Rat) (hk : 0 < k) (e1 e2 : List Rat) (tm lag : Rat) :
    eca (e1.map (affT k c)) (e2.map (affT k c)) (k * tm) (k * lag) = eca e1 e2 tm lag := by
  have e0 : k * lag + k * tm = k * (lag + tm) := by grind
  have p0 : ∀ as bs, prec (inWin 0 (k * tm)) (k * lag) (List.map (affT k c) as)
      (List.map (affT k c) bs) = prec (inWin 0 tm) lag as bs := by
    intro as bs
    have := prec_aff k c 0 tm lag hk as bs
    rwa [Rat.mul_zero] at this
  have t0 : ∀ as bs, trig (inWin 0 (k * tm)) (k * lag) (List.map (affT k c) as)
      (List.map (affT k c) bs) = trig (inWin 0 tm) lag as bs := by
    intro as bs
    have := trig_aff k c 0 tm lag hk as bs
    rwa [Rat.mul_zero] at this
  unfold eca
  simp only [List.map_eq_nil_iff, List.length_map, inst_aff k tm lag hk, e0, nStart_aff k c hk,
    nEnd_aff k c hk, ← List.map_drop, ← List.map_take, p0, t0]

/-- the same for the three window types of `_eca_coincidence_rate` -/
theorem ecaRate_affine (w : Window) (k c : Rat) (hk : 0 < k) (e1 e2 : List Rat) (tm lag : Rat) :
    ecaRate w (e1.map (affT k c)) (e2.map (affT k c)) (k * tm) (k * lag)
      = ecaRate w e1 e2 tm lag := by
  have e0 : k * lag + k * tm = k * (lag + tm) := by grind
  have ng : -(k * tm) = k * (-tm) := by grind
  have p0 : ∀ as bs, prec (inWin 0 (k * tm)) (k * lag) (List.map (affT k c) as)
      (List.map (affT k c) bs) = prec (inWin 0 tm) lag as bs := by
    intro as bs
    have := prec_aff k c 0 tm lag hk as bs
    rwa [Rat.mul_zero] at this
  have t0 : ∀ as bs, trig (inWin 0 (k * tm)) (k * lag) (List.map (affT k c) as)
      (List.map (affT k c) bs) = trig (inWin 0 tm) lag as bs := by
    intro as bs
    have := trig_aff k c 0 tm lag hk as bs
    rwa [Rat.mul_zero] at this
  unfold ecaRate
  cases w <;>
  simp only [List.map_eq_nil_iff, List.length_map, inst_aff k tm lag hk, e0, nStart_aff k c hk,
    nEnd_aff k c hk, ← List.map_drop, ← List.map_take, ng, p0, t0, prec_aff k c _ _ _ hk]

/-- **range** for the three window types of `_eca_coincidence_rate` -/
theorem ecaRate_range (w : Window) (e1 e2 : List Rat) (tm lag : Rat) (a b : Rate)
    (h : ecaRate w e1 e2 tm lag = some (a, b)) (r : Rat) (hr : a = .val r ∨ b = .val r) :
    0 ≤ r ∧ r ≤ 1 := by
  unfold ecaRate at h
  split at h
  · cases h
  · cases w <;> simp only [Option.some.injEq, Prod.mk.injEq] at h <;>
      obtain ⟨ha, hb⟩ := h <;> subst ha hb <;> rcases hr with hr | hr <;>
      refine rate_range _ _ r hr ?_
    · have := prec_le (inWin 0 tm) lag
        (e1.drop (if (decide (lag = 0) && decide (tm = 0)) = true then 0
          else nStart e1 (lag + tm))) e2
      simp only [List.length_drop] at this
      omega
    · have := prec_le (inWin 0 tm) lag
        (e2.drop (if (decide (lag = 0) && decide (tm = 0)) = true then 0
          else nStart e2 (lag + tm))) e1
      simp only [List.length_drop] at this
      omega
    · have := trig_le (inWin 0 tm) lag e1
        (e2.take (e2.length - if (decide (lag = 0) && decide (tm = 0)) = true then 0
          else nEnd e2 (lag + tm)))
      simp only [List.length_take] at this
      omega
    · have := trig_le (inWin 0 tm) lag e2
        (e1.take (e1.length - if (decide (lag = 0) && decide (tm = 0)) = true then 0
          else nEnd e1 (lag + tm)))
      simp only [List.length_take] at this
      omega
    · have := prec_le (inWin (-tm) tm) lag
        ((e1.take (e1.length - if (decide (lag = 0) && decide (tm = 0)) = true then 0
          else nEnd e1 (lag + tm))).drop (if (decide (lag = 0) && decide (tm = 0)) = true then 0
          else nStart e1 (lag + tm))) e2
      simp only [List.length_drop, List.length_take] at this
      omega
    · have := prec_le (inWin (-tm) tm) lag
        ((e2.take (e2.length - if (decide (lag = 0) && decide (tm = 0)) = true then 0
          else nEnd e2 (lag + tm))).drop (if (decide (lag = 0) && decide (tm = 0)) = true then 0
          else nStart e2 (lag + tm))) e1
      simp only [List.length_drop, List.length_take] at this
      omega

/-- **exchange** for `_eca_coincidence_rate`: the pair is reversed -/
theorem ecaRate_exchange (w : Window) (e1 e2 : List Rat) (tm lag : Rat) :
    ecaRate w e2 e1 tm lag = (ecaRate w e1 e2 tm lag).map Prod.swap := by
  unfold ecaRate
  by_cases h : e1 = [] ∨ e2 = []
  · rw [if_pos h, if_pos h.symm]; rfl
  · rw [if_neg h, if_neg (fun h' => h h'.symm)]; cases w <;> rfl

/-- **shift invariance** for `_eca_coincidence_rate` -/
theorem ecaRate_shift (w : Window) (c : Rat) (e1 e2 : List Rat) (tm lag : Rat) :
    ecaRate w (e1.map (· + c)) (e2.map (· + c)) tm lag = ecaRate w e1 e2 tm lag := by
  unfold ecaRate
  cases w <;>
  simp only [List.map_eq_nil_iff, List.length_map, nStart_shift, nEnd_shift,
    ← List.map_drop, ← List.map_take, prec_shift, trig_shift]

/-- non-vacuity: a call that returns four proper rates -/
example : ∃ o, eca [1, 3, 4] [0, 5] 1 (1/2) = some o := ⟨_, rfl⟩
example : ∃ a b, ecaRate .symmetric [1, 3, 4, 8, 9] [0, 5, 9] 1 0 = some (a, b) := ⟨_, _, rfl⟩


/-! ## counting formulas: what the vectorised slices compute -/

/-- the rows / columns of `dstxy2`, `tau2` range over the inner events `1 … l-2`, each
carrying the smaller of its two neighbouring waiting times (`ex[1:-1]`, `np.diff`,
`np.minimum(diff[1:], diff[:-1])` = structural recursion over consecutive triples) -/
theorem es_slices_eq_neighbour_gaps (l : List Rat) : innerEvents l = innerEv l :=
  innerEvents_eq_innerEv l

theorem innerEvents_length (l : List Rat) : (innerEvents l).length = l.length - 2 := by
  rw [innerEvents_eq_innerEv, innerEv_length]

/-- the precursor exclusion `[n11:, :]` with `n11 = len(e1[e1 <= e1[0] + lag + taumax])`
removes, on strictly increasing event times, exactly the events not later than
`e1[0] + lag + taumax` (the published boundary rule), not merely that many events -/
theorem eca_start_slice_eq_time_exclusion (e : List Rat) (h : Rat) (t : List Rat) (c : Rat)
    (he : e = h :: t) (hs : List.Pairwise (· < ·) e) :
    e.drop (nStart e c) = e.filter fun u => decide (¬ u ≤ h + c) := by
  subst he
  simp only [nStart, List.head?_cons]
  exact drop_countP_le_sorted (h + c) (h :: t) hs

/-! ## counting formulas: the code's result *is* the published formula -/

/-- **event synchronisation = its counting formula.**  For all event-time lists, windows
and lags the model of `event_synchronization` (slices `[1:-1]`, `np.diff`, doubled
distances `dstxy2`/`tau2`, `np.repeat`-ed outer comparisons, the two double-count loops)
returns: NaN if a series has no event, `0` if one has at most two, otherwise
`c(x|y)`, `c(y|x)` of the index-wise published formula `esFormula` (sum over inner event
pairs of `J_ij` with `τ_ij = ½ min` of the four neighbouring waiting times capped by
`taumax`, `½` for simultaneous events and for double-counted pairs), with the squared
norm `(lx-2)(ly-2)`. -/
theorem es_eq_formula (ex ey : List Rat) (tm : Option Rat) (lag : Rat) :
    es ex ey tm lag = esSpec ex ey tm lag := by
  unfold es esSpec
  simp only [innerEvents_eq_innerEv, countXY_eq_formula]
  by_cases h1 : ex.length = 0 ∨ (ey.map (· + lag)).length = 0
  · rw [if_pos h1, if_pos h1]
  · rw [if_neg h1, if_neg h1]
    by_cases h2 : ex.length = 1 ∨ ex.length = 2 ∨ (ey.map (· + lag)).length = 1 ∨
        (ey.map (· + lag)).length = 2
    · rw [if_pos h2, if_pos (by omega)]
    · rw [if_neg h2, if_neg (by omega)]
      congr 1
      rw [← countXY_swap, countXY_eq_formula]

/-- the second return value is the same formula with the roles of the series exchanged -/
theorem es_formula_directions (ex ey : List Rat) (tm : Option Rat) (lag : Rat) (a b : Rat)
    (n : Nat) (h : es ex ey tm lag = .val a b n) :
    a = esFormula tm ex (ey.map (· + lag)) ∧ b = esFormula tm (ey.map (· + lag)) ex ∧
      n = (ex.length - 2) * (ey.length - 2) := by
  rw [es_eq_formula] at h
  unfold esSpec at h
  simp only at h
  split at h
  · cases h
  · split at h
    · cases h
    · injection h with h1 h2 h3
      simp only [List.length_map] at h3
      exact ⟨h1.symm, h2.symm, h3.symm⟩

/-- non-vacuity: the formula is evaluated on six events each (a double-counted pair,
a simultaneous pair) -/
example : ∃ a b, esSpec [0, 1, 2, 4, 6, 7] [0, 1, 3, 4, 6, 8] none 0 = .val a b 16 :=
  ⟨_, _, rfl⟩

/-- the trigger exclusion `[:, :l - n22]` with `n22 = len(e2[e2 >= e2[-1] - lag - taumax])`
removes, on strictly increasing event times, exactly the events not earlier than
`e2[-1] - lag - taumax` -/
theorem eca_end_slice_eq_time_exclusion (e : List Rat) (c : Rat)
    (hs : List.Pairwise (· < ·) e) :
    e.take (e.length - nEnd e c) = e.filter fun t => !late e c t :=
  take_nEnd e c hs

/-- the symmetric-window slice `[n11 : l - n12]` keeps exactly the events that are
neither early nor late (also when the two excluded sets overlap) -/
theorem eca_mid_slice_eq_time_exclusion (e : List Rat) (c : Rat)
    (hs : List.Pairwise (· < ·) e) :
    (e.take (e.length - nEnd e c)).drop (nStart e c)
      = e.filter fun t => (!early e c t) && !late e c t :=
  mid_nStart_nEnd e c hs

/-- **event coincidence analysis = its counting formula.**  On strictly increasing event
times all four rates of `event_coincidence_analysis` (count-based slices `[n11:]`,
`[: l - n22]`, …) equal `r = (1/(N-n)) Σ_i Θ[Σ_j 1_[0,ΔT](t_i - t_j - τ)]` over the events
that are not excluded *by their time* (`t ≤ t_first + τ + ΔT` for precursor rates,
`t ≥ t_last - τ - ΔT` for trigger rates), `n` the number of excluded events. -/
theorem eca_eq_formula (e1 e2 : List Rat) (tm lag : Rat)
    (h1 : List.Pairwise (· < ·) e1) (h2 : List.Pairwise (· < ·) e2) :
    eca e1 e2 tm lag = ecaFormula e1 e2 tm lag := by
  unfold eca ecaFormula
  by_cases h : e1 = [] ∨ e2 = []
  · rw [if_pos h, if_pos h]
  · rw [if_neg h, if_neg h]
    simp only [prec, trig, rateFormula, rateFormulaT, drop_nStart_inst _ _ _ h1,
      drop_nStart_inst _ _ _ h2, take_nEnd_inst _ _ _ h1, take_nEnd_inst _ _ _ h2]
    simp only [nStart_inst, nEnd_inst, Int.sub_zero, Int.natCast_zero]

/-- **`_eca_coincidence_rate` = its counting formula** for the three window types
(`advanced` = precursor, `retarded` = trigger, `symmetric` = window `[-ΔT, ΔT]` with both
ends of the record excluded; denominator `N - n_start - n_end` as the code normalises) -/
theorem ecaRate_eq_formula (w : Window) (e1 e2 : List Rat) (tm lag : Rat)
    (h1 : List.Pairwise (· < ·) e1) (h2 : List.Pairwise (· < ·) e2) :
    ecaRate w e1 e2 tm lag = ecaRateFormula w e1 e2 tm lag := by
  unfold ecaRate ecaRateFormula
  by_cases h : e1 = [] ∨ e2 = []
  · rw [if_pos h, if_pos h]
  · rw [if_neg h, if_neg h]
    cases w
    · simp only [prec, rateFormula, drop_nStart_inst _ _ _ h1, drop_nStart_inst _ _ _ h2]
      simp only [nStart_inst, Int.sub_zero, Int.natCast_zero]
    · simp only [trig, rateFormulaT, take_nEnd_inst _ _ _ h1, take_nEnd_inst _ _ _ h2]
      simp only [nEnd_inst]
    · simp only [prec, rateFormula, mid_inst _ _ _ h1, mid_inst _ _ _ h2]
      simp only [nStart_inst, nEnd_inst]

example : ∃ o, ecaFormula [1, 3, 4] [0, 5] 1 (1/2) = some o := ⟨_, rfl⟩
example : List.Pairwise (· < ·) ([1, 3, 4] : List Rat) := by decide

/-! ## from time stamps to event times: the hypotheses above are met by the callers -/

/-- `ts[series == 1]` of strictly increasing time stamps is strictly increasing, and the
default time stamps `0, 1, …, T-1` are strictly increasing: the hypothesis of
`es_range`, `eca_eq_formula`, … holds for every call with such time stamps -/
theorem event_times_sorted (ts : List Rat) (b : List Bool) (T : Nat) :
    (List.Pairwise (· < ·) ts → List.Pairwise (· < ·) (select ts b)) ∧
    List.Pairwise (· < ·) (select (indexTimes T) b) :=
  ⟨select_sorted ts b, select_sorted _ b (indexTimes_sorted T)⟩

/-- **range**, stated for the call `event_synchronization(x, y, ts1, ts2, taumax, lag)` -/
theorem esSeries_range (ts1 ts2 : List Rat) (bx by_ : List Bool) (tm : Option Rat) (lag : Rat)
    (h1 : List.Pairwise (· < ·) ts1) (h2 : List.Pairwise (· < ·) ts2) (a b : Rat) (n : Nat)
    (h : esSeries ts1 bx ts2 by_ tm lag = .val a b n) :
    (0 ≤ a ∧ a * a ≤ (n : Rat)) ∧ (0 ≤ b ∧ b * b ≤ (n : Rat)) :=
  es_range _ _ tm lag a b n (select_sorted ts1 bx h1) (select_sorted ts2 by_ h2) h

/-- **counting formula**, stated for the call `event_coincidence_analysis(x, y, taumax, ts1,
ts2, lag)` and `_eca_coincidence_rate` -/
theorem ecaSeries_eq_formula (ts1 ts2 : List Rat) (bx by_ : List Bool) (tm lag : Rat)
    (h1 : List.Pairwise (· < ·) ts1) (h2 : List.Pairwise (· < ·) ts2) (w : Window) :
    ecaSeries ts1 bx ts2 by_ tm lag = ecaFormula (select ts1 bx) (select ts2 by_) tm lag ∧
    ecaRateSeries w ts1 bx ts2 by_ tm lag
      = ecaRateFormula w (select ts1 bx) (select ts2 by_) tm lag :=
  ⟨eca_eq_formula _ _ tm lag (select_sorted ts1 bx h1) (select_sorted ts2 by_ h2),
   ecaRate_eq_formula w _ _ tm lag (select_sorted ts1 bx h1) (select_sorted ts2 by_ h2)⟩

/-! ## tie to the source text: the model is built from the expressions `translate/gen_arith.py`
regenerates from `event_series.py` on every run (`Pyunicorn.Generated.ArithC16`)

If a guard, a comparison, the double-count arithmetic, a boundary threshold, a window test
or the pairing of a count with its denominator changes in the source, the generated
definition changes and the theorem below no longer type-checks. -/

section generated
open Pyunicorn.Generated

/-- `event_synchronization`: guards, squared norm and both count formulas are the source's -/
theorem gen_es (ex ey : List Rat) (tm : Option Rat) (lag : Rat) :
    es ex ey tm lag =
      (let ey' := ey.map (· + lag)
       let xs := innerEvents ex
       let ys := innerEvents ey'
       let size : Int := (xs.length * ys.length : Nat)
       if ArithC16.esNanGuard ex.length ey'.length then .nan
       else if ArithC16.esZeroGuard ex.length ey'.length then .zero
       else .val
         (ArithC16.esCountXY (count2 (axy tm) xs ys)
            (ArithC16.esEqtime size (size - (count2 eqt xs ys : Nat))) (dblxy tm xs ys))
         (ArithC16.esCountYX (count2 (ayx tm) xs ys)
            (ArithC16.esEqtime size (size - (count2 eqt xs ys : Nat))) (dblyx tm xs ys))
         (ArithC16.esNormSq ex.length ey'.length).toNat) := by
  have g1 : (ex.length = 0 ∨ (ey.map (· + lag)).length = 0) ↔
      ((ex.length : Int) = 0 ∨ ((ey.map (· + lag)).length : Int) = 0) := by omega
  have g2 : (ex.length = 1 ∨ ex.length = 2 ∨ (ey.map (· + lag)).length = 1 ∨
      (ey.map (· + lag)).length = 2) ↔
      (((ex.length : Int) = 1 ∨ (ex.length : Int) = 2) ∨
        ((ey.map (· + lag)).length : Int) = 1 ∨ ((ey.map (· + lag)).length : Int) = 2) := by omega
  unfold es
  simp only [ArithC16.esNanGuard, ArithC16.esZeroGuard, ArithC16.esCountXY, ArithC16.esCountYX,
    ArithC16.esEqtime, ArithC16.esNormSq, countXY, countYX, decide_eq_true_eq, g1, g2]
  split
  · rfl
  · split
    · rfl
    · rename_i h1 h2
      congr 1
      · simp only [Int.sub_sub_self, Rat.intCast_natCast]; grind
      · simp only [Int.sub_sub_self, Rat.intCast_natCast]; grind
      · have : ((ex.length : Int) - 2) * (((ey.map (· + lag)).length : Int) - 2)
            = (((ex.length - 2) * ((ey.map (· + lag)).length - 2) : Nat) : Int) := by
          rw [Int.natCast_mul]; congr 1 <;> omega
        rw [this, Int.toNat_natCast]

/-- the entries of `dstxy2`, `tau2`, `Axy`, `Ayx` and the neighbouring-gap minimum are the
source's expressions -/
theorem gen_es_kernel (m : Rat) (p q : Ev) (a b c : Rat) (t : List Rat) :
    dst2 p q = ArithC16.esDst2 p.1 q.1 ∧
    tau2 none p q = ArithC16.esTau2 p.2 q.2 ∧
    tau2 (some m) p q = ArithC16.esTauCap (ArithC16.esTau2 p.2 q.2) m ∧
    (∀ tm, axy tm p q = ArithC16.esAxy (dst2 p q) (tau2 tm p q)) ∧
    (∀ tm, ayx tm p q = ArithC16.esAyx (dst2 p q) (tau2 tm p q)) ∧
    innerEv (a :: b :: c :: t) = (b, ArithC16.esGapMinX (c - b) (b - a)) :: innerEv (b :: c :: t) ∧
    innerEv (a :: b :: c :: t) = (b, ArithC16.esGapMinY (c - b) (b - a)) :: innerEv (b :: c :: t) := by
  refine ⟨?_, rfl, rfl, ?_, ?_, rfl, rfl⟩
  · simp only [dst2, ArithC16.esDst2]; rfl
  · intro tm
    simp only [axy, ArithC16.esAxy, Bool.decide_and]
    rfl
  · intro tm
    simp only [ayx, ArithC16.esAyx, Bool.decide_and]
    congr 1

/-- `event_coincidence_analysis`: the instantaneous switch, the boundary thresholds and the
window tests are the source's expressions -/
theorem gen_eca_kernel (lag tm t h a b : Rat) :
    ArithC16.ecaNotInstant lag tm = !(decide (lag = 0) && decide (tm = 0)) ∧
    ArithC16.ecaEarly1 t h lag tm = decide (t ≤ h + (lag + tm)) ∧
    ArithC16.ecaEarly2 t h lag tm = decide (t ≤ h + (lag + tm)) ∧
    ArithC16.ecaLate1 t h lag tm = decide (h - (lag + tm) ≤ t) ∧
    ArithC16.ecaLate2 t h lag tm = decide (h - (lag + tm) ≤ t) ∧
    ArithC16.ecaWin12 (a - b) lag tm = inWin 0 tm (a - b - lag) ∧
    ArithC16.ecaWinT12 (a - b) lag tm = inWin 0 tm (a - b - lag) ∧
    ArithC16.ecaWin21 (b - a) lag tm = inWin 0 tm (a - b - lag) ∧
    ArithC16.ecaWinT21 (b - a) lag tm = inWin 0 tm (a - b - lag) ∧
    ArithC16.rateSymWin12 (a - b) lag (ArithC16.rateSymLo tm) (ArithC16.rateSymHi tm)
      = inWin (-tm) tm (a - b - lag) ∧
    ArithC16.rateSymWin21 (b - a) lag (ArithC16.rateSymLo tm) (ArithC16.rateSymHi tm)
      = inWin (-tm) tm (a - b - lag) ∧
    ArithC16.rateSymLate1 t h lag (ArithC16.rateSymLo tm) = decide (h - (lag + tm) ≤ t) := by
  simp only [ArithC16.ecaNotInstant, ArithC16.ecaEarly1, ArithC16.ecaEarly2, ArithC16.ecaLate1,
    ArithC16.ecaLate2, ArithC16.ecaWin12, ArithC16.ecaWinT12, ArithC16.ecaWin21,
    ArithC16.ecaWinT21, ArithC16.rateSymWin12, ArithC16.rateSymWin21, ArithC16.rateSymLo,
    ArithC16.rateSymHi, ArithC16.rateSymLate1, inWin]
  refine ⟨?_, ?_, ?_, ?_, ?_, ?_, ?_, ?_, ?_, ?_, ?_, ?_⟩ <;> grind

/-- a rate: NaN for the denominator `0`, else the source's quotient -/
def mkRate (v : Rat) (d : Int) : Rate := if d = 0 then .nan else .val v

/-- `event_coincidence_analysis`: each count is divided by the denominator the source's
`return` pairs it with -/
theorem gen_eca_rates (e1 e2 : List Rat) (tm lag : Rat) :
    eca e1 e2 tm lag =
      (if e1 = [] ∨ e2 = [] then none else
       let inst : Bool := !ArithC16.ecaNotInstant lag tm
       let n11 := if inst then 0 else nStart e1 (lag + tm)
       let n12 := if inst then 0 else nEnd e1 (lag + tm)
       let n21 := if inst then 0 else nStart e2 (lag + tm)
       let n22 := if inst then 0 else nEnd e2 (lag + tm)
       let l1 := e1.length
       let l2 := e2.length
       let win := inWin 0 tm
       let p12 := prec win lag (e1.drop n11) e2
       let t12 := trig win lag e1 (e2.take (l2 - n22))
       let p21 := prec win lag (e2.drop n21) e1
       let t21 := trig win lag e2 (e1.take (l1 - n12))
       some {
         prec12 := mkRate (ArithC16.ecaRet0 p12 t12 p21 t21 l1 l2 n11 n12 n21 n22) ((l1 : Int) - n11)
         trig12 := mkRate (ArithC16.ecaRet1 p12 t12 p21 t21 l1 l2 n11 n12 n21 n22) ((l2 : Int) - n22)
         prec21 := mkRate (ArithC16.ecaRet2 p12 t12 p21 t21 l1 l2 n11 n12 n21 n22) ((l2 : Int) - n21)
         trig21 := mkRate (ArithC16.ecaRet3 p12 t12 p21 t21 l1 l2 n11 n12 n21 n22) ((l1 : Int) - n12) }) := by
  have hi : (!ArithC16.ecaNotInstant lag tm) = (decide (lag = 0) && decide (tm = 0)) := by
    rw [(gen_eca_kernel lag tm 0 0 0 0).1, Bool.not_not]
  unfold eca
  simp only [hi, rate, mkRate, ArithC16.ecaRet0, ArithC16.ecaRet1, ArithC16.ecaRet2,
    ArithC16.ecaRet3, Rat.intCast_natCast]

/-- `_eca_coincidence_rate`: the same for the three window types (`advanced`: `n12 = n22 = 0`) -/
theorem gen_ecaRate_rates (w : Window) (e1 e2 : List Rat) (tm lag : Rat) :
    ecaRate w e1 e2 tm lag =
      (if e1 = [] ∨ e2 = [] then none else
       let inst : Bool := !ArithC16.ecaNotInstant lag tm
       let n11 := if inst then 0 else nStart e1 (lag + tm)
       let n12 := if inst then 0 else nEnd e1 (lag + tm)
       let n21 := if inst then 0 else nStart e2 (lag + tm)
       let n22 := if inst then 0 else nEnd e2 (lag + tm)
       let l1 := e1.length
       let l2 := e2.length
       match w with
       | .advanced =>
         let c12 := prec (inWin 0 tm) lag (e1.drop n11) e2
         let c21 := prec (inWin 0 tm) lag (e2.drop n21) e1
         some (mkRate (ArithC16.rateRet0 c12 c21 l1 l2 n11 0 n21 0) ((l1 : Int) - n11 - 0),
               mkRate (ArithC16.rateRet1 c12 c21 l1 l2 n11 0 n21 0) ((l2 : Int) - n21 - 0))
       | .retarded =>
         let c12 := trig (inWin 0 tm) lag e1 (e2.take (l2 - n22))
         let c21 := trig (inWin 0 tm) lag e2 (e1.take (l1 - n12))
         some (mkRate (ArithC16.rateRetardedRet0 c12 c21 l1 l2 0 n12 0 n22) ((l2 : Int) - n22),
               mkRate (ArithC16.rateRetardedRet1 c12 c21 l1 l2 0 n12 0 n22) ((l1 : Int) - n12))
       | .symmetric =>
         let c12 := prec (inWin (-tm) tm) lag ((e1.take (l1 - n12)).drop n11) e2
         let c21 := prec (inWin (-tm) tm) lag ((e2.take (l2 - n22)).drop n21) e1
         some (mkRate (ArithC16.rateRet0 c12 c21 l1 l2 n11 n12 n21 n22) ((l1 : Int) - n11 - n12),
               mkRate (ArithC16.rateRet1 c12 c21 l1 l2 n11 n12 n21 n22) ((l2 : Int) - n21 - n22))) := by
  have hi : (!ArithC16.ecaNotInstant lag tm) = (decide (lag = 0) && decide (tm = 0)) := by
    rw [(gen_eca_kernel lag tm 0 0 0 0).1, Bool.not_not]
  unfold ecaRate
  cases w <;>
  simp only [hi, rate, mkRate, ArithC16.rateRet0, ArithC16.rateRet1, ArithC16.rateRetardedRet0,
    ArithC16.rateRetardedRet1, Rat.intCast_natCast]

end generated

/-! ## N×N matrix -/

/-- entry `[i,j]` of the symmetrised matrix is `op M[i,j] M[j,i]` -/
theorem symmetrize_entry {α} (n : Nat) (d d' : α) (op : α → α → α) (M : Mat α) (i j : Nat)
    (hi : i < n) (hj : j < n) :
    (symmetrize n d op M).get d' i j = op (M.get d i j) (M.get d j i) := by
  simp [symmetrize, Mat.get, hi, hj]


/-- **matrix entries**: after the double loop `for i: for j in range(i+1, N):
directed[i,j], directed[j,i] = pair(i,j)`, entry `[i,j]` with `i < j` is the first value of
the pair `(i,j)`, entry `[i,j]` with `j < i` the second value of the pair `(j,i)`, the
diagonal keeps its initial zero — every off-diagonal entry is written exactly once. -/
theorem assemble_entry {α} (n : Nat) (z d : α) (pair : Nat → Nat → α × α) (i j : Nat)
    (hi : i < n) (hj : j < n) :
    (assemble n z pair).get d i j =
      if i < j then (pair i j).1 else if j < i then (pair j i).2 else z := by
  unfold assemble
  rw [get_fold n d pair (upperPairs n) (fun p hp => (mem_upperPairs n p.1 p.2).1 hp) _
    (shaped_replicate n z) i j]
  simp only [mem_upperPairs, get_replicate n z d i j hi hj, hi, hj, and_true]

/-- the ES matrix holds, at `[i,j]` and `[j,i]` (`i < j`), the two return values of
`event_synchronization(column i, column j)` on the object's time stamps, `taumax`, `lag` -/
theorem esMatrix_entry (ts : List Rat) (E : Mat Bool) (n : Nat) (tm : Option Rat) (lag : Rat)
    (i j : Nat) (hij : i < j) (hj : j < n) :
    (esMatrix ts E n tm lag).get none i j
        = (esPairEntry (esSeries ts (column E i) ts (column E j) tm lag)).1 ∧
    (esMatrix ts E n tm lag).get none j i
        = (esPairEntry (esSeries ts (column E i) ts (column E j) tm lag)).2 := by
  unfold esMatrix
  rw [assemble_entry _ _ _ _ i j (by omega) hj, assemble_entry _ _ _ _ j i hj (by omega)]
  rw [if_pos hij, if_neg (by omega), if_pos hij]
  exact ⟨rfl, rfl⟩

/-- `event_series_analysis(method='ES', symmetrization=s)`: entry `[i,j]` is the
symmetrisation applied to the two directed entries `[i,j]` and `[j,i]` -/
theorem esAnalysis_entry (ts : List Rat) (E : Mat Bool) (n : Nat) (tm : Option Rat) (lag : Rat)
    (s : Symm) (i j : Nat) (hi : i < n) (hj : j < n) :
    (esAnalysis ts E n tm lag s).get none i j
      = esSymmOp s ((esMatrix ts E n tm lag).get none i j) ((esMatrix ts E n tm lag).get none j i) :=
  symmetrize_entry n none none (esSymmOp s) _ i j hi hj

/-- the ECA matrix holds, at `[i,j]` and `[j,i]` (`i < j`), the two rates of
`_eca_coincidence_rate(column i, column j, window_type)` on the object's time stamps;
the matrix exists iff no pair raises -/
theorem ecaMatrix_entry (w : Window) (ts : List Rat) (E : Mat Bool) (n : Nat) (tm lag : Rat)
    (M : Mat (Option Rat)) (h : ecaMatrix w ts E n tm lag = some M)
    (i j : Nat) (hij : i < j) (hj : j < n) :
    ∃ a b, ecaRateSeries w ts (column E i) ts (column E j) tm lag = some (a, b) ∧
      M.get none i j = rateVal a ∧ M.get none j i = rateVal b := by
  unfold ecaMatrix at h
  split at h
  · rename_i hall
    injection h with h
    subst h
    have hm := List.all_eq_true.1 hall (i, j) ((mem_upperPairs n i j).2 ⟨hij, hj⟩)
    simp only [Option.isSome_iff_exists] at hm
    obtain ⟨⟨a, b⟩, hab⟩ := hm
    refine ⟨a, b, hab, ?_, ?_⟩
    · rw [assemble_entry _ _ _ _ i j (by omega) hj, if_pos hij, hab]
    · rw [assemble_entry _ _ _ _ j i hj (by omega), if_neg (by omega), if_pos hij, hab]
  · cases h

/-- the diagonal of both matrices is the initial zero -/
theorem matrix_diagonal (w : Window) (ts : List Rat) (E : Mat Bool) (n : Nat) (tmo : Option Rat)
    (tm lag : Rat) (M : Mat (Option Rat)) (h : ecaMatrix w ts E n tm lag = some M)
    (i : Nat) (hi : i < n) :
    M.get none i i = some 0 ∧ (esMatrix ts E n tmo lag).get none i i = some (0, 1) := by
  unfold ecaMatrix at h
  split at h
  · injection h with h
    subst h
    unfold esMatrix
    rw [assemble_entry _ _ _ _ i i hi hi, assemble_entry _ _ _ _ i i hi hi]
    simp
  · cases h

/-- `event_series_analysis(method='ECA', symmetrization=s, window_type=w)`: entry `[i,j]`
is the (NaN-propagating) symmetrisation of the directed entries `[i,j]` and `[j,i]` -/
theorem ecaAnalysis_entry (w : Window) (ts : List Rat) (E : Mat Bool) (n : Nat) (tm lag : Rat)
    (s : Symm) (A : Mat (Option Rat)) (h : ecaAnalysis w ts E n tm lag s = some A)
    (i j : Nat) (hi : i < n) (hj : j < n) :
    ∃ M, ecaMatrix w ts E n tm lag = some M ∧
      A.get none i j = symmOpN s (M.get none i j) (M.get none j i) := by
  unfold ecaAnalysis at h
  cases hM : ecaMatrix w ts E n tm lag with
  | none => simp [hM] at h
  | some M =>
    simp only [hM, Option.map_some, Option.some.injEq] at h
    subst h
    exact ⟨M, rfl, symmetrize_entry n none none (symmOpN s) M i j hi hj⟩

/-- NaN-propagating lift: a non-NaN pair is symmetrised by the table, NaN propagates
(except under `directed`, which only reads `[i,j]`) -/
theorem symmOpN_spec (s : Symm) (a b : Rat) :
    symmOpN s (some a) (some b) = some (symmOp s a b) ∧
    symmOpN .directed (some a) none = some a ∧
    (s ≠ .directed → symmOpN s (some a) none = none ∧ symmOpN s none (some b) = none) := by
  refine ⟨by cases s <;> rfl, rfl, fun hs => ?_⟩
  cases s <;> first | exact absurd rfl hs | exact ⟨rfl, rfl⟩

/-! ## symmetrisation table -/

theorem symmOp_directed (a b : Rat) : symmOp .directed a b = a := rfl
/-- `symmetric`, `mean`, `max`, `min` give symmetric matrices -/
theorem symmOp_comm (s : Symm) (hs : s = .symmetric ∨ s = .mean ∨ s = .max ∨ s = .min)
    (a b : Rat) : symmOp s a b = symmOp s b a := by
  rcases hs with h | h | h | h <;> subst h <;> simp only [symmOp] <;> grind
/-- `antisym` gives an antisymmetric matrix -/
theorem symmOp_antisym (a b : Rat) : symmOp .antisym a b = -(symmOp .antisym b a) := by
  simp only [symmOp]; grind
/-- `mean`, `max`, `min` keep values inside any interval containing both entries;
`max`/`min` select one of the two pairwise values -/
theorem symmOp_between (s : Symm) (hs : s = .mean ∨ s = .max ∨ s = .min) (a b lo hi : Rat)
    (ha : lo ≤ a ∧ a ≤ hi) (hb : lo ≤ b ∧ b ≤ hi) :
    lo ≤ symmOp s a b ∧ symmOp s a b ≤ hi := by
  rcases hs with h | h | h <;> subst h <;> simp only [symmOp] <;> grind
/-- every entry of the directed ECA matrix is NaN or a rate in `[0,1]` -/
theorem ecaMatrix_range (w : Window) (ts : List Rat) (E : Mat Bool) (n : Nat) (tm lag : Rat)
    (M : Mat (Option Rat)) (h : ecaMatrix w ts E n tm lag = some M)
    (i j : Nat) (hi : i < n) (hj : j < n) (r : Rat) (hr : M.get none i j = some r) :
    0 ≤ r ∧ r ≤ 1 := by
  rcases Nat.lt_trichotomy i j with hij | hij | hij
  · obtain ⟨a, b, hab, h1, _⟩ := ecaMatrix_entry w ts E n tm lag M h i j hij hj
    rw [h1] at hr
    cases a with
    | nan => cases hr
    | val v =>
      simp only [rateVal, Option.some.injEq] at hr
      subst hr
      exact ecaRate_range w _ _ tm lag _ _ hab v (Or.inl rfl)
  · subst hij
    rw [(matrix_diagonal w ts E n none tm lag M h i hi).1] at hr
    simp only [Option.some.injEq] at hr
    subst hr
    exact ⟨by decide, by decide⟩
  · obtain ⟨a, b, hab, _, h2⟩ := ecaMatrix_entry w ts E n tm lag M h j i hij hi
    rw [h2] at hr
    cases b with
    | nan => cases hr
    | val v =>
      simp only [rateVal, Option.some.injEq] at hr
      subst hr
      exact ecaRate_range w _ _ tm lag _ _ hab v (Or.inr rfl)

/-- **range of the analysis matrix**: under each symmetrisation offered for ECA
(`directed`, `mean`, `max`, `min`) every entry of `event_series_analysis(method='ECA')`
is NaN or lies in `[0,1]` -/
theorem ecaAnalysis_range (w : Window) (ts : List Rat) (E : Mat Bool) (n : Nat) (tm lag : Rat)
    (s : Symm) (hs : s = .directed ∨ s = .mean ∨ s = .max ∨ s = .min)
    (A : Mat (Option Rat)) (h : ecaAnalysis w ts E n tm lag s = some A)
    (i j : Nat) (hi : i < n) (hj : j < n) (r : Rat) (hr : A.get none i j = some r) :
    0 ≤ r ∧ r ≤ 1 := by
  obtain ⟨M, hM, hA⟩ := ecaAnalysis_entry w ts E n tm lag s A h i j hi hj
  rw [hA] at hr
  rcases hs with rfl | hs
  · exact ecaMatrix_range w ts E n tm lag M hM i j hi hj r hr
  · cases ha : M.get none i j with
    | none => rw [ha] at hr; rcases hs with rfl | rfl | rfl <;> cases hr
    | some a =>
      cases hb : M.get none j i with
      | none => rw [ha, hb] at hr; rcases hs with rfl | rfl | rfl <;> cases hr
      | some b =>
        rw [ha, hb, (symmOpN_spec s a b).1] at hr
        simp only [Option.some.injEq] at hr
        subst hr
        exact symmOp_between s hs a b 0 1
          (ecaMatrix_range w ts E n tm lag M hM i j hi hj a ha)
          (ecaMatrix_range w ts E n tm lag M hM j i hj hi b hb)

theorem symmOp_max_min_select (a b : Rat) :
    (symmOp .max a b = a ∨ symmOp .max a b = b) ∧ (symmOp .min a b = a ∨ symmOp .min a b = b) := by
  simp only [symmOp]; grind
theorem symmOp_sum (a b : Rat) :
    symmOp .symmetric a b = a + b ∧ 2 * symmOp .mean a b = a + b := by
  simp only [symmOp]; grind

/-! ## thresholding -/

/-- the final loop marks exactly the samples strictly beyond the threshold -/
theorem mark_iff (th d : Rat) :
    (mark th .above d = true ↔ d > th) ∧ (mark th .below d = true ↔ d < th) := by
  simp [mark]

/-- method `'quantile'` with a quantile in `[0,1]`: the threshold is the `q`-quantile of
the variable's samples; a missing type defaults to `'above'` iff `q ≥ 1/2` -/
theorem resolve_quantile (col : List Rat) (q : Rat) (t : Option TType) (h0 : 0 ≤ q) (h1 : q ≤ 1) :
    resolveThreshold col .quantile (some q) t
      = .ok (quantile col q, t.getD (if q ≥ 1 / 2 then .above else .below)) := by
  simp only [resolveThreshold]
  rw [if_neg (by grind)]

/-- quantiles outside `[0,1]` are rejected -/
theorem resolve_quantile_reject (col : List Rat) (q : Rat) (t : Option TType)
    (h : q < 0 ∨ 1 < q) : resolveThreshold col .quantile (some q) t = .error .valueError := by
  simp only [resolveThreshold]
  rw [if_pos (by grind)]

/-- method `'value'`: a value inside the data range is used as it is -/
theorem resolve_value (col : List Rat) (x : Rat) (ty : TType)
    (hlo : ∃ d ∈ col, d ≤ x) (hhi : ∃ d ∈ col, x ≤ d) :
    resolveThreshold col .value (some x) (some ty) = .ok (x, ty) := by
  simp only [resolveThreshold]
  rw [if_neg]
  · rfl
  · intro h
    rcases h with h | h
    · obtain ⟨d, hd, hx⟩ := hhi
      have := List.all_eq_true.1 h d hd
      simp only [decide_eq_true_eq] at this
      grind
    · obtain ⟨d, hd, hx⟩ := hlo
      have := List.all_eq_true.1 h d hd
      simp only [decide_eq_true_eq] at this
      grind

/-- defaults: no value → the median; no type → `'above'` -/
theorem resolve_defaults (col : List Rat) :
    resolveThreshold col .quantile none none = .ok (quantile col (1 / 2), .above) ∧
    resolveThreshold col .value none none = .ok (median col, .above) := by
  constructor
  · rfl
  · simp only [resolveThreshold, Option.getD]
    rw [if_pos Rat.le_refl]

/-! ## how many samples a quantile threshold can mark -/

/-- the `q`-quantile (NumPy `linear`) lies between the order statistics `⌊(n-1)q⌋` and
`min(⌊(n-1)q⌋+1, n-1)` of the variable's samples -/
theorem quantile_between_order_statistics (a : List Rat) (q : Rat) (hne : a ≠ [])
    (h0 : 0 ≤ q) (h1 : q ≤ 1) :
    ∃ (hlo : qLo a.length q < (sortedOf a).length) (hhi : qHi a.length q < (sortedOf a).length),
      (sortedOf a)[qLo a.length q] ≤ quantile a q ∧
      quantile a q ≤ (sortedOf a)[qHi a.length q] :=
  quantile_bracket a q hne h0 h1

/-- **`'above'` marks at most `n-1-⌊(n-1)q⌋ = ⌈(n-1)(1-q)⌉` of the `n` samples** of a
variable thresholded at its `q`-quantile -/
theorem events_above_quantile_le (a : List Rat) (q : Rat) (hne : a ≠ []) (h0 : 0 ≤ q)
    (h1 : q ≤ 1) :
    a.countP (mark (quantile a q) .above) ≤ a.length - 1 - qLo a.length q := by
  obtain ⟨hlo, _, hb, _⟩ := quantile_bracket a q hne h0 h1
  have := countP_gt_le_of_sorted (sortedOf a) (sortedOf_pairwise a) _ hlo _ hb
  rw [sortedOf_length] at this
  rw [← (sortedOf_perm a).countP_eq]
  exact this

/-- **`'below'` marks at most `min(⌊(n-1)q⌋+1, n-1) ≤ ⌈(n-1)q⌉ + …` samples** -/
theorem events_below_quantile_le (a : List Rat) (q : Rat) (hne : a ≠ []) (h0 : 0 ≤ q)
    (h1 : q ≤ 1) :
    a.countP (mark (quantile a q) .below) ≤ qHi a.length q := by
  obtain ⟨_, hhi, _, hb⟩ := quantile_bracket a q hne h0 h1
  have := countP_lt_le_of_sorted (sortedOf a) (sortedOf_pairwise a) _ hhi _ hb
  rw [← (sortedOf_perm a).countP_eq]
  exact this

/-- when `(n-1)q` is an integer `k < n` the threshold is the order statistic `k`:
at most `k` samples are below and at most `n-1-k` above; in particular the `1`-quantile
(maximum) marks nothing above and the `0`-quantile (minimum) nothing below -/
theorem events_at_order_statistic (a : List Rat) (q : Rat) (k : Nat) (hk : k < a.length)
    (hq : ((a.length : Rat) - 1) * q = (k : Rat)) :
    a.countP (mark (quantile a q) .below) ≤ k ∧
    a.countP (mark (quantile a q) .above) ≤ a.length - 1 - k := by
  have hk' : k < (sortedOf a).length := by rw [sortedOf_length]; exact hk
  have hv : quantile a q = (sortedOf a)[k] := by
    rw [quantile_at_order_statistic a q k hq]
    simp [List.getD_eq_getElem?_getD, List.getElem?_eq_getElem hk']
  have hb := countP_lt_le_of_sorted (sortedOf a) (sortedOf_pairwise a) k hk' _ (le_of_eq hv)
  have ha := countP_gt_le_of_sorted (sortedOf a) (sortedOf_pairwise a) k hk' _ (le_of_eq hv.symm)
  rw [sortedOf_length] at ha
  rw [← (sortedOf_perm a).countP_eq, ← (sortedOf_perm a).countP_eq (mark (quantile a q) .above)]
  exact ⟨hb, ha⟩

theorem quantile_extremes_mark_nothing (a : List Rat) (hne : a ≠ []) :
    a.countP (mark (quantile a 1) .above) = 0 ∧ a.countP (mark (quantile a 0) .below) = 0 := by
  have hn : 1 ≤ a.length := by
    cases a with
    | nil => exact absurd rfl hne
    | cons _ _ => simp
  have e1 : ((a.length : Rat) - 1) * 1 = ((a.length - 1 : Nat) : Rat) := by
    have : ((a.length - 1 : Nat) : Rat) + ((1 : Nat) : Rat) = (a.length : Rat) := by
      rw [← Rat.natCast_add]; congr 1; omega
    grind
  have e0 : ((a.length : Rat) - 1) * 0 = ((0 : Nat) : Rat) := by grind
  have h1 := (events_at_order_statistic a 1 (a.length - 1) (by omega) e1).2
  have h0 := (events_at_order_statistic a 0 0 (by omega) e0).1
  omega

/-- non-vacuity: hypotheses of `resolve_quantile` / `resolve_value` are satisfiable -/
example : resolveThreshold [1, 5, 2, 4] .quantile (some (3/4)) none
    = .ok (quantile [1, 5, 2, 4] (3/4), (none : Option TType).getD
        (if (3/4 : Rat) ≥ 1 / 2 then .above else .below)) :=
  resolve_quantile _ _ _ (by grind) (by grind)
example : resolveThreshold [1, 5, 2, 4] .value (some 3) (some .below) = .ok (3, .below) :=
  resolve_value _ _ _ ⟨2, by simp, by grind⟩ ⟨4, by simp, by grind⟩

/-- **thresholding, whole call.**  If `make_event_matrix` returns, the result has one row
per sample, and entry `[t,i]` (`i < nvar`) is `mark th ty data[t][i]` for the threshold and
type the code settled on for variable `i` (`resolveThreshold` on column `i` with the
`i`-th method / value / type) — with `mark_iff`: exactly the samples strictly beyond. -/
theorem makeEventMatrix_ok (data : Mat Rat) (nvar : Nat) (ms : List TMethod)
    (vs : List (Option Rat)) (tys : List (Option TType)) (M : Mat Bool)
    (h : makeEventMatrix data nvar ms vs tys = .ok M) :
    M.length = data.length ∧
    ∀ t i, t < data.length → i < nvar → ∃ th ty,
      resolveThreshold (dataColumn data i) (ms.getD i .quantile) (vs.getD i none)
        (tys.getD i none) = .ok (th, ty) ∧
      M.get false t i = mark th ty ((data.getD t []).getD i 0) := by
  unfold makeEventMatrix at h
  cases hthr : (List.range nvar).mapM (fun i =>
      resolveThreshold (dataColumn data i) (ms.getD i .quantile) (vs.getD i none)
        (tys.getD i none)) with
  | error e =>
    simp only [bind, Except.bind, pure, Except.pure] at h
    rw [hthr] at h
    cases h
  | ok thr =>
    simp only [bind, Except.bind, pure, Except.pure] at h
    rw [hthr] at h
    simp only [Except.ok.injEq] at h
    subst h
    obtain ⟨hl, hk⟩ := mapM_ok _ _ _ hthr
    refine ⟨by simp, ?_⟩
    intro t i ht hi
    have hi' : i < thr.length := by simpa [hl] using hi
    have := hk i (by simpa using hi) hi'
    simp only [List.getElem_range] at this
    refine ⟨thr[i].1, thr[i].2, this, ?_⟩
    simp [Mat.get, List.getD_eq_getElem?_getD, ht, hi, hi']

/-- if `make_event_matrix` raises, it raises the error of the first variable whose
parameters are rejected (quantile outside `[0,1]` → `ValueError`, value outside the data
range → `IOError`), and every earlier variable was accepted -/
theorem makeEventMatrix_error (data : Mat Rat) (nvar : Nat) (ms : List TMethod)
    (vs : List (Option Rat)) (tys : List (Option TType)) (e : ThrErr)
    (h : makeEventMatrix data nvar ms vs tys = .error e) :
    ∃ i, i < nvar ∧
      resolveThreshold (dataColumn data i) (ms.getD i .quantile) (vs.getD i none)
        (tys.getD i none) = .error e ∧
      ∀ i' < i, ∃ p, resolveThreshold (dataColumn data i') (ms.getD i' .quantile)
        (vs.getD i' none) (tys.getD i' none) = .ok p := by
  unfold makeEventMatrix at h
  cases hthr : (List.range nvar).mapM (fun i =>
      resolveThreshold (dataColumn data i) (ms.getD i .quantile) (vs.getD i none)
        (tys.getD i none)) with
  | ok thr =>
    simp only [bind, Except.bind, pure, Except.pure] at h
    rw [hthr] at h
    cases h
  | error e' =>
    simp only [bind, Except.bind, pure, Except.pure] at h
    rw [hthr] at h
    simp only [Except.error.injEq] at h
    subst h
    obtain ⟨k, hk, hfk, hbefore⟩ := mapM_error _ _ _ hthr
    simp only [List.length_range] at hk
    simp only [List.getElem_range] at hfk hbefore
    exact ⟨k, hk, hfk, fun i' hi' => hbefore i' hi'⟩

/-- **thresholding marks exactly the samples beyond the stated quantile**: with method
`'quantile'`, quantile `q ∈ [0,1]` and an explicit type for every variable, entry `[t,i]`
is set iff `data[t][i]` is strictly above (`'above'`) / below (`'below'`) the `q`-quantile
of column `i` -/
theorem threshold_marks_exactly_quantile (data : Mat Rat) (nvar : Nat) (q : Rat) (ty : TType)
    (h0 : 0 ≤ q) (h1 : q ≤ 1) (M : Mat Bool)
    (h : makeEventMatrix data nvar (List.replicate nvar .quantile)
      (List.replicate nvar (some q)) (List.replicate nvar (some ty)) = .ok M)
    (t i : Nat) (ht : t < data.length) (hi : i < nvar) :
    M.get false t i = mark (quantile (dataColumn data i) q) ty ((data.getD t []).getD i 0) := by
  obtain ⟨_, hM⟩ := makeEventMatrix_ok _ _ _ _ _ M h
  obtain ⟨th, ty', hr, hm⟩ := hM t i ht hi
  have e1 : (List.replicate nvar TMethod.quantile).getD i .quantile = .quantile := by
    simp [List.getD_eq_getElem?_getD, hi]
  have e2 : (List.replicate nvar (some q)).getD i none = some q := by
    simp [List.getD_eq_getElem?_getD, hi]
  have e3 : (List.replicate nvar (some ty)).getD i none = some ty := by
    simp [List.getD_eq_getElem?_getD, hi]
  rw [e1, e2, e3, resolve_quantile _ q _ h0 h1] at hr
  simp only [Except.ok.injEq, Prod.mk.injEq, Option.getD_some] at hr
  rw [hm, ← hr.1, ← hr.2]

/-- the same for method `'value'` with a value inside every variable's data range -/
theorem threshold_marks_exactly_value (data : Mat Rat) (nvar : Nat) (x : Rat) (ty : TType)
    (M : Mat Bool)
    (h : makeEventMatrix data nvar (List.replicate nvar .value)
      (List.replicate nvar (some x)) (List.replicate nvar (some ty)) = .ok M)
    (t i : Nat) (ht : t < data.length) (hi : i < nvar) :
    M.get false t i = mark x ty ((data.getD t []).getD i 0) := by
  obtain ⟨_, hM⟩ := makeEventMatrix_ok _ _ _ _ _ M h
  obtain ⟨th, ty', hr, hm⟩ := hM t i ht hi
  have e1 : (List.replicate nvar TMethod.value).getD i .quantile = .value := by
    simp [List.getD_eq_getElem?_getD, hi]
  have e2 : (List.replicate nvar (some x)).getD i none = some x := by
    simp [List.getD_eq_getElem?_getD, hi]
  have e3 : (List.replicate nvar (some ty)).getD i none = some ty := by
    simp [List.getD_eq_getElem?_getD, hi]
  rw [e1, e2, e3] at hr
  simp only [resolveThreshold] at hr
  split at hr
  · cases hr
  · simp only [Except.ok.injEq, Prod.mk.injEq, Option.getD_some] at hr
    rw [hm, ← hr.1, ← hr.2]

example : (makeEventMatrix [[1, 5], [2, 7], [4, 6], [3, 8]] 2 [.value, .quantile]
    [some 2, some (3/4)] [some .above, some .below]).toBool = true := by decide +kernel

/-! ## round 3: the ES analysis matrix over the reals -/

/-- the two directed entries `[i,j]`, `[j,i]` of the ES matrix: both NaN, or two counts over
one shared squared norm, each count in `[0, sqrt norm]` -/
def GoodPair (p q : ESEntry) : Prop :=
  (p = none ∧ q = none) ∨ ∃ a b m, p = some (a, m) ∧ q = some (b, m) ∧
    (0 ≤ a ∧ a * a ≤ (m : Rat)) ∧ (0 ≤ b ∧ b * b ≤ (m : Rat))

theorem goodPair_symm {p q : ESEntry} (h : GoodPair p q) : GoodPair q p := by
  rcases h with ⟨h1, h2⟩ | ⟨a, b, m, h1, h2, ha, hb⟩
  · exact Or.inl ⟨h2, h1⟩
  · exact Or.inr ⟨b, a, m, h2, h1, hb, ha⟩

theorem esPairEntry_good (ts1 ts2 : List Rat) (bx by_ : List Bool) (tm : Option Rat) (lag : Rat)
    (h1 : List.Pairwise (· < ·) ts1) (h2 : List.Pairwise (· < ·) ts2) :
    GoodPair (esPairEntry (esSeries ts1 bx ts2 by_ tm lag)).1
      (esPairEntry (esSeries ts1 bx ts2 by_ tm lag)).2 := by
  cases hr : esSeries ts1 bx ts2 by_ tm lag with
  | nan => exact Or.inl ⟨rfl, rfl⟩
  | zero => exact Or.inr ⟨0, 0, 1, rfl, rfl, by norm_num, by norm_num⟩
  | val a b m =>
    have := esSeries_range ts1 ts2 bx by_ tm lag h1 h2 a b m hr
    exact Or.inr ⟨a, b, m, rfl, rfl, this.1, this.2⟩

/-- every pair of mirrored entries of `_ndim_event_synchronization` (strictly increasing time
stamps) is a `GoodPair`: off the diagonal the two return values of one call, on the diagonal
the initial zero -/
theorem esMatrix_pair (ts : List Rat) (E : Mat Bool) (n : Nat) (tm : Option Rat) (lag : Rat)
    (hts : List.Pairwise (· < ·) ts) (i j : Nat) (hi : i < n) (hj : j < n) :
    GoodPair ((esMatrix ts E n tm lag).get none i j) ((esMatrix ts E n tm lag).get none j i) := by
  rcases Nat.lt_trichotomy i j with hij | hij | hij
  · obtain ⟨e1, e2⟩ := esMatrix_entry ts E n tm lag i j hij hj
    rw [e1, e2]
    exact esPairEntry_good ts ts _ _ tm lag hts hts
  · subst hij
    have : (esMatrix ts E n tm lag).get none i i = some (0, 1) := by
      unfold esMatrix
      rw [assemble_entry _ _ _ _ i i hi hi]
      simp
    rw [this]
    exact Or.inr ⟨0, 0, 1, rfl, rfl, by norm_num, by norm_num⟩
  · obtain ⟨e1, e2⟩ := esMatrix_entry ts E n tm lag j i hij hi
    rw [e1, e2]
    exact goodPair_symm (esPairEntry_good ts ts _ _ tm lag hts hts)

/-- **value of every entry of `event_series_analysis(method='ES', symmetrization=s)`** over the
reals: NaN (a series of the pair has no event), or the symmetrisation table applied to the two
directed strengths `a/sqrt m`, `b/sqrt m` of the pair, both of which lie in `[0,1]` -/
theorem esAnalysis_value (ts : List Rat) (E : Mat Bool) (n : Nat) (tm : Option Rat) (lag : Rat)
    (s : Symm) (hts : List.Pairwise (· < ·) ts) (i j : Nat) (hi : i < n) (hj : j < n) :
    (esAnalysis ts E n tm lag s).get none i j = none ∨
    ∃ a b m, (esMatrix ts E n tm lag).get none i j = some (a, m) ∧
      (esMatrix ts E n tm lag).get none j i = some (b, m) ∧
      esEntryValue ((esAnalysis ts E n tm lag s).get none i j)
        = some (symmOpR s (strength a m) (strength b m)) ∧
      (0 ≤ strength a m ∧ strength a m ≤ 1) ∧ (0 ≤ strength b m ∧ strength b m ≤ 1) := by
  rw [esAnalysis_entry ts E n tm lag s i j hi hj]
  rcases esMatrix_pair ts E n tm lag hts i j hi hj with ⟨h1, h2⟩ | ⟨a, b, m, h1, h2, ha, hb⟩
  · left
    rw [h1, h2]
    cases s <;> rfl
  · right
    refine ⟨a, b, m, h1, h2, ?_, strength_unit_interval a m ha.1 ha.2,
      strength_unit_interval b m hb.1 hb.2⟩
    rw [h1, h2]
    exact esSymmOp_value s a b m

/-- **range of the ES analysis matrix**: under `directed`, `mean`, `max`, `min` every entry
that is not NaN lies in `[0,1]` (real square root and division) -/
theorem esAnalysis_range (ts : List Rat) (E : Mat Bool) (n : Nat) (tm : Option Rat) (lag : Rat)
    (s : Symm) (hs : s = .directed ∨ s = .mean ∨ s = .max ∨ s = .min)
    (hts : List.Pairwise (· < ·) ts) (i j : Nat) (hi : i < n) (hj : j < n) (v : ℝ)
    (hv : esEntryValue ((esAnalysis ts E n tm lag s).get none i j) = some v) :
    0 ≤ v ∧ v ≤ 1 := by
  rcases esAnalysis_value ts E n tm lag s hts i j hi hj with h | ⟨a, b, m, _, _, hval, ha, hb⟩
  · rw [h] at hv; cases hv
  · rw [hval] at hv
    injection hv with hv
    subst hv
    exact symmOpR_between s hs _ _ 0 1 ha hb

/-- `symmetric` entries (sum of the two directions) lie in `[0,2]`, `antisym` entries
(difference) in `[-1,1]` -/
theorem esAnalysis_range_sum_diff (ts : List Rat) (E : Mat Bool) (n : Nat) (tm : Option Rat)
    (lag : Rat) (hts : List.Pairwise (· < ·) ts) (i j : Nat) (hi : i < n) (hj : j < n) (v : ℝ) :
    (esEntryValue ((esAnalysis ts E n tm lag .symmetric).get none i j) = some v →
      0 ≤ v ∧ v ≤ 2) ∧
    (esEntryValue ((esAnalysis ts E n tm lag .antisym).get none i j) = some v →
      -1 ≤ v ∧ v ≤ 1) := by
  constructor
  · intro hv
    rcases esAnalysis_value ts E n tm lag .symmetric hts i j hi hj with
      h | ⟨a, b, m, _, _, hval, ha, hb⟩
    · rw [h] at hv; cases hv
    · rw [hval] at hv
      injection hv with hv
      subst hv
      simp only [symmOpR]
      constructor <;> linarith [ha.1, ha.2, hb.1, hb.2]
  · intro hv
    rcases esAnalysis_value ts E n tm lag .antisym hts i j hi hj with
      h | ⟨a, b, m, _, _, hval, ha, hb⟩
    · rw [h] at hv; cases hv
    · rw [hval] at hv
      injection hv with hv
      subst hv
      simp only [symmOpR]
      constructor <;> linarith [ha.1, ha.2, hb.1, hb.2]

/-- `symmetric`, `mean`, `max`, `min` give a symmetric ES analysis matrix -/
theorem esAnalysis_symmetric (ts : List Rat) (E : Mat Bool) (n : Nat) (tm : Option Rat) (lag : Rat)
    (s : Symm) (hs : s = .symmetric ∨ s = .mean ∨ s = .max ∨ s = .min)
    (hts : List.Pairwise (· < ·) ts) (i j : Nat) (hi : i < n) (hj : j < n) :
    (esAnalysis ts E n tm lag s).get none i j = (esAnalysis ts E n tm lag s).get none j i := by
  rw [esAnalysis_entry ts E n tm lag s i j hi hj, esAnalysis_entry ts E n tm lag s j i hj hi]
  rcases esMatrix_pair ts E n tm lag hts i j hi hj with ⟨h1, h2⟩ | ⟨a, b, m, h1, h2, _, _⟩
  · rw [h1, h2]
  · rw [h1, h2]
    have hc := symmOp_comm s hs a b
    rcases hs with rfl | rfl | rfl | rfl <;> simp only [esSymmOp, hc]

/-- non-vacuity: a 3-variable event matrix whose ES matrix has proper (non-NaN) entries -/
example : (esAnalysis (indexTimes 6)
    [[true, true, false], [true, false, true], [true, true, true], [false, true, true],
     [true, true, false], [true, true, true]] 3 none 0 .mean).get none 0 1 ≠ none := by
  decide +kernel

/-! ## round 3: structural tie — slices, axes, boundary counts, window tests and the use of
`lag` of *every* count statement, for both directions and all window types

`translate/gen_C16.py` reads each statement `np.count_nonzero(np.any(W[r0:r1, c0:c1], axis=k))`
into a `CountSpec`; `translate/gen_arith.py` reads `W`, the boundary comparisons, `deltaT1/2`,
the instantaneous switch and `lag = self.__lag`, `taumax = self.__taumax`.  The theorems below
restate `eca` / `ecaRate` *entirely* in terms of these generated definitions. -/

section structural
open Pyunicorn.Generated

theorem sliceL_lo {α} (lo : Nat) (l : List α) : sliceL lo 0 l = l.drop lo := by
  simp [sliceL]
theorem sliceL_hi {α} (hi : Nat) (l : List α) : sliceL 0 hi l = l.take (l.length - hi) := by
  simp [sliceL]
theorem sliceL_all {α} (l : List α) : sliceL 0 0 l = l := by
  simp [sliceL]

private theorem neg_sub_sub (a b l : Rat) : -(a - b) - l = b - a - l := by grind

/-- the generated window tests as functions of `dst[i,j]` -/
theorem gen_windows (d lag tm : Rat) :
    ArithC16.ecaWin12 d lag tm = inWin 0 tm (d - lag) ∧
    ArithC16.ecaWinT12 d lag tm = inWin 0 tm (d - lag) ∧
    ArithC16.ecaWin21 d lag tm = inWin 0 tm (-d - lag) ∧
    ArithC16.ecaWinT21 d lag tm = inWin 0 tm (-d - lag) ∧
    ArithC16.rateAdvWin12 d lag ArithC16.rateAdvLo (ArithC16.rateAdvHi tm) = inWin 0 tm (d - lag) ∧
    ArithC16.rateAdvWin21 d lag ArithC16.rateAdvLo (ArithC16.rateAdvHi tm) = inWin 0 tm (-d - lag) ∧
    ArithC16.rateRetWin12 d lag ArithC16.rateRetLo (ArithC16.rateRetHi tm) = inWin 0 tm (d - lag) ∧
    ArithC16.rateRetWin21 d lag ArithC16.rateRetLo (ArithC16.rateRetHi tm) = inWin 0 tm (-d - lag) ∧
    ArithC16.rateSymWin12 d lag (ArithC16.rateSymLo tm) (ArithC16.rateSymHi tm)
      = inWin (-tm) tm (d - lag) ∧
    ArithC16.rateSymWin21 d lag (ArithC16.rateSymLo tm) (ArithC16.rateSymHi tm)
      = inWin (-tm) tm (-d - lag) := by
  simp only [ArithC16.ecaWin12, ArithC16.ecaWinT12, ArithC16.ecaWin21, ArithC16.ecaWinT21,
    ArithC16.rateAdvWin12, ArithC16.rateAdvWin21, ArithC16.rateRetWin12, ArithC16.rateRetWin21,
    ArithC16.rateSymWin12, ArithC16.rateSymWin21, ArithC16.rateAdvLo, ArithC16.rateAdvHi,
    ArithC16.rateRetLo, ArithC16.rateRetHi, ArithC16.rateSymLo, ArithC16.rateSymHi, inWin]
  refine ⟨?_, ?_, ?_, ?_, ?_, ?_, ?_, ?_, ?_, ?_⟩ <;> grind

/-- the generated boundary comparisons and instantaneous switches of `_eca_coincidence_rate`
(all three branches), and the reads of the object's `lag` / `taumax` -/
theorem gen_rate_boundaries (t h lag tm : Rat) :
    ArithC16.rateLag lag = lag ∧ ArithC16.rateTaumax tm = tm ∧
    ArithC16.ndimEsLag lag = lag ∧ ArithC16.ndimEsTaumax tm = tm ∧
    ArithC16.rateNotInstantAdv lag tm = !(decide (lag = 0) && decide (tm = 0)) ∧
    ArithC16.rateNotInstantRet lag tm = !(decide (lag = 0) && decide (tm = 0)) ∧
    ArithC16.rateNotInstantSym lag tm = !(decide (lag = 0) && decide (tm = 0)) ∧
    ArithC16.rateAdvEarly1 t h lag (ArithC16.rateAdvHi tm) = decide (t ≤ h + (lag + tm)) ∧
    ArithC16.rateAdvEarly2 t h lag (ArithC16.rateAdvHi tm) = decide (t ≤ h + (lag + tm)) ∧
    ArithC16.rateRetLate1 t h lag (ArithC16.rateRetHi tm) = decide (h - (lag + tm) ≤ t) ∧
    ArithC16.rateRetLate2 t h lag (ArithC16.rateRetHi tm) = decide (h - (lag + tm) ≤ t) ∧
    ArithC16.rateSymEarly1 t h lag (ArithC16.rateSymHi tm) = decide (t ≤ h + (lag + tm)) ∧
    ArithC16.rateSymEarly2 t h lag (ArithC16.rateSymHi tm) = decide (t ≤ h + (lag + tm)) ∧
    ArithC16.rateSymLate1 t h lag (ArithC16.rateSymLo tm) = decide (h - (lag + tm) ≤ t) ∧
    ArithC16.rateSymLate2 t h lag (ArithC16.rateSymLo tm) = decide (h - (lag + tm) ≤ t) := by
  simp only [ArithC16.rateLag, ArithC16.rateTaumax, ArithC16.ndimEsLag, ArithC16.ndimEsTaumax,
    ArithC16.rateNotInstantAdv, ArithC16.rateNotInstantRet, ArithC16.rateNotInstantSym,
    ArithC16.rateAdvEarly1, ArithC16.rateAdvEarly2, ArithC16.rateRetLate1, ArithC16.rateRetLate2,
    ArithC16.rateSymEarly1, ArithC16.rateSymEarly2, ArithC16.rateSymLate1, ArithC16.rateSymLate2,
    ArithC16.rateAdvHi, ArithC16.rateRetHi, ArithC16.rateSymHi, ArithC16.rateSymLo]
  refine ⟨?_, ?_, ?_, ?_, ?_, ?_, ?_, ?_, ?_, ?_, ?_, ?_, ?_, ?_, ?_⟩ <;> first | trivial | grind

/-- `nStart` / `nEnd` are `len(e[cmp(e, e[0])])` / `len(e[cmp(e, e[-1])])` -/
theorem nStart_countRef (e : List Rat) (c : Rat) :
    nStart e c = countRef (fun t h => decide (t ≤ h + c)) e.head? e := by
  unfold nStart countRef; cases e.head? <;> rfl
theorem nEnd_countRef (e : List Rat) (c : Rat) :
    nEnd e c = countRef (fun t h => decide (h - c ≤ t)) e.getLast? e := by
  unfold nEnd countRef; cases e.getLast? <;> rfl

/-- the reference event named by the structural translator: index `0` / `-1` of the array -/
def refEvent (e1 e2 : List Rat) (spec : String × Int) : Option Rat :=
  let e := if spec.1 = "e1" then e1 else e2
  if spec.2 = 0 then e.head? else e.getLast?
def refArray (e1 e2 : List Rat) (spec : String × Int) : List Rat :=
  if spec.1 = "e1" then e1 else e2

/-- **`event_coincidence_analysis`, statement by statement.**  Boundary counts (`len` of the
array filtered by the generated comparison against the generated reference element), the four
counts (generated slices / axes over the generated window tests of `dst`), and the four
quotients are the source's. -/
theorem gen_eca_struct (e1 e2 : List Rat) (tm lag : Rat) :
    eca e1 e2 tm lag =
      (if e1 = [] ∨ e2 = [] then none else
       let inst : Bool := !ArithC16.ecaNotInstant lag tm
       let bc (spec : String × Int) (cmp : Rat → Rat → Bool) : Nat :=
         if inst then 0 else countRef cmp (refEvent e1 e2 spec) (refArray e1 e2 spec)
       let n11 := bc StructC16.ecaN11 fun t h => ArithC16.ecaEarly1 t h lag tm
       let n12 := bc StructC16.ecaN12 fun t h => ArithC16.ecaLate1 t h lag tm
       let n21 := bc StructC16.ecaN21 fun t h => ArithC16.ecaEarly2 t h lag tm
       let n22 := bc StructC16.ecaN22 fun t h => ArithC16.ecaLate2 t h lag tm
       let nf := bndVal n11 n12 n21 n22
       let l1 := e1.length
       let l2 := e2.length
       let p12 := evalCount StructC16.ecaPrec12 (fun d => ArithC16.ecaWin12 d lag tm) e1 e2 nf
       let t12 := evalCount StructC16.ecaTrig12 (fun d => ArithC16.ecaWinT12 d lag tm) e1 e2 nf
       let p21 := evalCount StructC16.ecaPrec21 (fun d => ArithC16.ecaWin21 d lag tm) e1 e2 nf
       let t21 := evalCount StructC16.ecaTrig21 (fun d => ArithC16.ecaWinT21 d lag tm) e1 e2 nf
       some {
         prec12 := mkRate (ArithC16.ecaRet0 p12 t12 p21 t21 l1 l2 n11 n12 n21 n22) ((l1 : Int) - n11)
         trig12 := mkRate (ArithC16.ecaRet1 p12 t12 p21 t21 l1 l2 n11 n12 n21 n22) ((l2 : Int) - n22)
         prec21 := mkRate (ArithC16.ecaRet2 p12 t12 p21 t21 l1 l2 n11 n12 n21 n22) ((l2 : Int) - n21)
         trig21 := mkRate (ArithC16.ecaRet3 p12 t12 p21 t21 l1 l2 n11 n12 n21 n22) ((l1 : Int) - n12) }) := by
  have k := fun t h => gen_eca_kernel lag tm t h 0 0
  have w := fun d => gen_windows d lag tm
  rw [gen_eca_rates]
  simp only [StructC16.ecaN11, StructC16.ecaN12, StructC16.ecaN21, StructC16.ecaN22,
    StructC16.ecaPrec12, StructC16.ecaTrig12, StructC16.ecaPrec21, StructC16.ecaTrig21,
    refEvent, refArray, evalCount, bndVal, sliceL_lo, sliceL_hi, sliceL_all,
    (k _ _).2.1, (k _ _).2.2.1, (k _ _).2.2.2.1, (k _ _).2.2.2.2.1,
    (w _).1, (w _).2.1, (w _).2.2.1, (w _).2.2.2.1, neg_sub_sub, prec, trig]
  rfl

/-- **`_eca_coincidence_rate`, statement by statement, for the three window types** — the
matrix path: `lag` / `taumax` are the object's fields, both directions use the generated
window test of `dst` (`dst - lag` for X→Y, `-dst - lag` for Y→X), the generated slices and
axes, the generated boundary counts, and the generated quotients. -/
theorem gen_ecaRate_struct (w : Window) (e1 e2 : List Rat) (objTaumax objLag : Rat) :
    ecaRate w e1 e2 objTaumax objLag =
      (if e1 = [] ∨ e2 = [] then none else
       let lag := ArithC16.rateLag objLag
       let tm := ArithC16.rateTaumax objTaumax
       let l1 := e1.length
       let l2 := e2.length
       let bc (inst : Bool) (spec : String × Int) (cmp : Rat → Rat → Bool) : Nat :=
         if inst then 0 else countRef cmp (refEvent e1 e2 spec) (refArray e1 e2 spec)
       match w with
       | .advanced =>
         let inst : Bool := !ArithC16.rateNotInstantAdv lag tm
         let hi := ArithC16.rateAdvHi tm
         let n11 := bc inst StructC16.rateAdvN11 fun t h => ArithC16.rateAdvEarly1 t h lag hi
         let n21 := bc inst StructC16.rateAdvN21 fun t h => ArithC16.rateAdvEarly2 t h lag hi
         let nf := bndVal n11 0 n21 0
         let c12 := evalCount StructC16.rateAdv12
           (fun d => ArithC16.rateAdvWin12 d lag ArithC16.rateAdvLo hi) e1 e2 nf
         let c21 := evalCount StructC16.rateAdv21
           (fun d => ArithC16.rateAdvWin21 d lag ArithC16.rateAdvLo hi) e1 e2 nf
         some (mkRate (ArithC16.rateRet0 c12 c21 l1 l2 n11 0 n21 0) ((l1 : Int) - n11 - 0),
               mkRate (ArithC16.rateRet1 c12 c21 l1 l2 n11 0 n21 0) ((l2 : Int) - n21 - 0))
       | .retarded =>
         let inst : Bool := !ArithC16.rateNotInstantRet lag tm
         let hi := ArithC16.rateRetHi tm
         let n12 := bc inst StructC16.rateRetN12 fun t h => ArithC16.rateRetLate1 t h lag hi
         let n22 := bc inst StructC16.rateRetN22 fun t h => ArithC16.rateRetLate2 t h lag hi
         let nf := bndVal 0 n12 0 n22
         let c12 := evalCount StructC16.rateRet12
           (fun d => ArithC16.rateRetWin12 d lag ArithC16.rateRetLo hi) e1 e2 nf
         let c21 := evalCount StructC16.rateRet21
           (fun d => ArithC16.rateRetWin21 d lag ArithC16.rateRetLo hi) e1 e2 nf
         some (mkRate (ArithC16.rateRetardedRet0 c12 c21 l1 l2 0 n12 0 n22) ((l2 : Int) - n22),
               mkRate (ArithC16.rateRetardedRet1 c12 c21 l1 l2 0 n12 0 n22) ((l1 : Int) - n12))
       | .symmetric =>
         let inst : Bool := !ArithC16.rateNotInstantSym lag tm
         let lo := ArithC16.rateSymLo tm
         let hi := ArithC16.rateSymHi tm
         let n11 := bc inst StructC16.rateSymN11 fun t h => ArithC16.rateSymEarly1 t h lag hi
         let n12 := bc inst StructC16.rateSymN12 fun t h => ArithC16.rateSymLate1 t h lag lo
         let n21 := bc inst StructC16.rateSymN21 fun t h => ArithC16.rateSymEarly2 t h lag hi
         let n22 := bc inst StructC16.rateSymN22 fun t h => ArithC16.rateSymLate2 t h lag lo
         let nf := bndVal n11 n12 n21 n22
         let c12 := evalCount StructC16.rateSym12
           (fun d => ArithC16.rateSymWin12 d lag lo hi) e1 e2 nf
         let c21 := evalCount StructC16.rateSym21
           (fun d => ArithC16.rateSymWin21 d lag lo hi) e1 e2 nf
         some (mkRate (ArithC16.rateRet0 c12 c21 l1 l2 n11 n12 n21 n22) ((l1 : Int) - n11 - n12),
               mkRate (ArithC16.rateRet1 c12 c21 l1 l2 n11 n12 n21 n22) ((l2 : Int) - n21 - n22))) := by
  have b := fun t h => gen_rate_boundaries t h objLag objTaumax
  have wd := fun d => gen_windows d objLag objTaumax
  have hi : ∀ x : Bool, (!(!x)) = x := fun x => by cases x <;> rfl
  rw [gen_ecaRate_rates]
  have hinst : (!ArithC16.ecaNotInstant objLag objTaumax)
      = (decide (objLag = 0) && decide (objTaumax = 0)) := by
    rw [(gen_eca_kernel objLag objTaumax 0 0 0 0).1, Bool.not_not]
  cases w <;>
  simp only [ArithC16.rateLag, ArithC16.rateTaumax, hinst,
    StructC16.rateAdvN11, StructC16.rateAdvN21, StructC16.rateRetN12, StructC16.rateRetN22,
    StructC16.rateSymN11, StructC16.rateSymN12, StructC16.rateSymN21, StructC16.rateSymN22,
    StructC16.rateAdv12, StructC16.rateAdv21, StructC16.rateRet12, StructC16.rateRet21,
    StructC16.rateSym12, StructC16.rateSym21,
    refEvent, refArray, evalCount, bndVal, sliceL_lo, sliceL_hi, sliceL_all,
    (b 0 0).2.2.2.2.1, (b 0 0).2.2.2.2.2.1, (b 0 0).2.2.2.2.2.2.1, (b _ _).2.2.2.2.2.2.2.1,
    (b _ _).2.2.2.2.2.2.2.2.1, (b _ _).2.2.2.2.2.2.2.2.2.1, (b _ _).2.2.2.2.2.2.2.2.2.2.1,
    (b _ _).2.2.2.2.2.2.2.2.2.2.2.1, (b _ _).2.2.2.2.2.2.2.2.2.2.2.2.1,
    (b _ _).2.2.2.2.2.2.2.2.2.2.2.2.2.1, (b _ _).2.2.2.2.2.2.2.2.2.2.2.2.2.2,
    (wd _).2.2.2.2.1, (wd _).2.2.2.2.2.1, (wd _).2.2.2.2.2.2.1, (wd _).2.2.2.2.2.2.2.1,
    (wd _).2.2.2.2.2.2.2.2.1, (wd _).2.2.2.2.2.2.2.2.2, neg_sub_sub, hi, prec, trig] <;>
  rfl

/-- pairs visited by `for i in range(olo, ohi): for j in range(ilo i, ihi i)` (indices of an
`n × n` array) -/
def loopPairs (n : Nat) (olo ohi : Int) (ilo ihi : Int → Int) : List (Nat × Nat) :=
  ((List.range n).filter fun (i : Nat) => decide (olo ≤ (i : Int) ∧ (i : Int) < ohi)).flatMap
    fun (i : Nat) =>
      ((List.range n).filter fun (j : Nat) =>
        decide (ilo (i : Int) ≤ (j : Int) ∧ (j : Int) < ihi (i : Int))).map fun j => (i, j)

theorem loopPairs_upper (n : Nat) (olo ohi : Int) (ilo ihi : Int → Int)
    (h1 : olo = 0) (h2 : ohi = (n : Int)) (h3 : ∀ i, ilo i = i + 1) (h4 : ∀ i, ihi i = (n : Int)) :
    upperPairs n = loopPairs n olo ohi ilo ihi := by
  subst h1 h2
  have e3 : ilo = fun i => i + 1 := funext h3
  have e4 : ihi = fun _ => (n : Int) := funext h4
  subst e3 e4
  have ho : ((List.range n).filter fun (i : Nat) =>
      decide ((0 : Int) ≤ (i : Int) ∧ (i : Int) < (n : Int))) = List.range n := by
    apply List.filter_eq_self.2
    intro i hi
    have := List.mem_range.1 hi
    simp only [decide_eq_true_eq]
    omega
  have hin : ∀ i : Nat, ((List.range n).filter fun (j : Nat) =>
      decide (((i : Int) + 1) ≤ (j : Int) ∧ (j : Int) < (n : Int)))
      = (List.range n).filter (fun j => decide (i < j)) := by
    intro i
    apply List.filter_congr
    intro j hj
    have := List.mem_range.1 hj
    simp only [decide_eq_decide]
    omega
  unfold upperPairs loopPairs
  rw [ho]
  congr 1
  funext i
  rw [hin i]

/-- **the two `_ndim_*` workers**: loop bounds, the two stores per iteration, the columns and
the object fields passed to the pair function are the source's; the ES worker is memoised,
the ECA worker is not -/
theorem gen_ndim_loops (n : Nat) :
    upperPairs n = loopPairs n (StructC16.esOuterLo n) (StructC16.esOuterHi n)
      (StructC16.esInnerLo n) (StructC16.esInnerHi n) ∧
    upperPairs n = loopPairs n (StructC16.ecaOuterLo n) (StructC16.ecaOuterHi n)
      (StructC16.ecaInnerLo n) (StructC16.ecaInnerHi n) ∧
    StructC16.esStores = [(0, 1), (1, 0)] ∧ StructC16.ecaStores = [(0, 1), (1, 0)] ∧
    StructC16.esCols = [0, 1] ∧ StructC16.ecaCols = [0, 1] ∧
    StructC16.esKeywords = [("lag", "lag"), ("taumax", "taumax"), ("ts1", "timestamps"),
      ("ts2", "timestamps")] ∧
    StructC16.ecaKeywords = [("ts1", "timestamps"), ("ts2", "timestamps"),
      ("window_type", "window_type")] ∧
    StructC16.esWorkerCached = true ∧ StructC16.ecaWorkerCached = false :=
  ⟨loopPairs_upper n _ _ _ _ rfl rfl (fun _ => rfl) (fun _ => rfl),
   loopPairs_upper n _ _ _ _ rfl rfl (fun _ => rfl) (fun _ => rfl),
   rfl, rfl, rfl, rfl, by decide, by decide, rfl, rfl⟩

/-! ### the symmetrisation helpers -/

def symmName : Symm → String
  | .directed => "directed" | .symmetric => "symmetric" | .antisym => "antisym"
  | .mean => "mean" | .max => "max" | .min => "min"

def symmExprOf : Symm → SymExpr
  | .directed => .arg | .symmetric => .add | .antisym => .sub
  | .mean => .mean | .max => .max | .min => .min

theorem evalSym_symmOp (s : Symm) (a b : Rat) : evalSym (symmExprOf s) a b = symmOp s a b := by
  cases s <;> rfl

/-- what `self.symmetrization_options[s]` does, as read from the source: the helper returns
the table's expression over `(matrix, matrix.T)`; only `directed` returns its argument, all
others allocate; **none stores into its argument** -/
theorem gen_symm_table (s : Symm) :
    StructC16.symmOptions.lookup (symmName s)
      = some ⟨symmExprOf s, decide (s ≠ .directed), false⟩ := by
  cases s <;> decide

/-- the helper the object uses for option `s` -/
def helperOf (s : Symm) : SymHelper :=
  (StructC16.symmOptions.lookup (symmName s)).getD ⟨.arg, false, true⟩

/-- the helper table read from the source is the model's `stdHelper` (used by the driver) -/
theorem gen_helperOf (s : Symm) : helperOf s = stdHelper s := by
  unfold helperOf
  rw [gen_symm_table]
  cases s <;> rfl

/-- which options `event_series_analysis` accepts per method: all six for ES; exactly the
four of `ecaAnalysis_range` for ECA; the three window types -/
theorem gen_symm_allowed (s : Symm) (w : Window) :
    symmName s ∈ StructC16.esSymmAllowed ∧
    (symmName s ∈ StructC16.ecaSymmAllowed ↔
      (s = .directed ∨ s = .mean ∨ s = .max ∨ s = .min)) ∧
    (match w with | .advanced => "advanced" | .retarded => "retarded" | .symmetric => "symmetric")
      ∈ StructC16.windowAllowed := by
  refine ⟨by cases s <;> decide, by cases s <;> decide, by cases w <;> decide⟩

end structural

/-! ## round 3: histories on one object (the memoised directed matrix is handed out by
reference; the helpers of the *current source* never store into it) -/

/-- **history independence of `event_series_analysis(method='ES')`.**  For every sequence of
requests on one `EventSeries` object — the directed matrix computed once, memoised, and
passed *by reference* to the helper the source selects — every array returned during the
history holds, at the end of the history, exactly the symmetrisation of the directed matrix
that a fresh object returns for that request; nothing already handed out is changed.
(The hypothesis that no helper stores into its argument is `gen_symm_table`, i.e. a fact
about the current source text; seeds C16-2, C16-3 falsify it.) -/
theorem es_history_independent (ts : List Rat) (E : Mat Bool) (n : Nat) (tm : Option Rat)
    (lag : Rat) (hist : List Symm) :
    let compute := esMatrix ts E n tm lag
    let apply := esApply n
    let r := runHistory compute apply helperOf freshObj hist
    List.Forall₂ (fun s a => r.1.heap[a]? = some (apply s compute)) hist r.2 := by
  intro compute apply r
  have hh : ∀ s, helperOf s = ⟨symmExprOf s, decide (s ≠ .directed), false⟩ := by
    intro s
    unfold helperOf
    rw [gen_symm_table]
    rfl
  refine (runHistory_ok compute apply helperOf ?_ ?_ hist freshObj (freshObj_ok compute)).2.1
  · intro s; rw [hh]
  · intro s hf m
    rw [hh] at hf
    simp only [decide_eq_false_iff_not, ne_eq, not_not] at hf
    subst hf
    rfl

/-- for `directed` the array handed out *is* the matrix (`symmetrize` with `directed` would be
the same values): the model's `apply` agrees with `esAnalysis` entry-wise -/
theorem es_history_values (ts : List Rat) (E : Mat Bool) (n : Nat) (tm : Option Rat) (lag : Rat)
    (s : Symm) (i j : Nat) (hi : i < n) (hj : j < n) :
    (esApply n s (esMatrix ts E n tm lag)).get none i j
      = (esAnalysis ts E n tm lag s).get none i j := by
  unfold esApply
  by_cases hs : s = .directed
  · subst hs
    simp only [if_true]
    rw [esAnalysis_entry ts E n tm lag .directed i j hi hj]
    rfl
  · simp only [hs, if_false]
    rfl

/-- the hypothesis matters: a helper that stores its result into its argument (`out=matrix`,
seeds C16-2, C16-3) corrupts what a later `directed` request returns -/
example :
    let hp : Symm → SymHelper := fun s => if s = .min then ⟨.min, true, true⟩ else helperOf s
    let apply : Symm → Nat → Nat := fun s m => if s = .min then 0 else m
    let r := runHistory 7 apply hp freshObj [.min, .directed]
    r.1.heap[r.2.getD 1 0]? = some 0 ∧ apply .directed 7 = 7 := by
  decide

/-! ## round 3: the float32 quotient -/

/-- **the returned float32 rates are rates**: the float32 nearest to each quotient of
`event_coincidence_analysis` lies in `[0,1]` and within `2⁻²⁴` (relative) of the exact rate -/
theorem eca_f32_range (e1 e2 : List Rat) (tm lag : Rat) (o : EcaOut)
    (h : eca e1 e2 tm lag = some o) (r : Rat)
    (hr : o.prec12 = .val r ∨ o.trig12 = .val r ∨ o.prec21 = .val r ∨ o.trig21 = .val r) :
    (0 ≤ rn24 r ∧ rn24 r ≤ 1) ∧ |rn24 r - r| ≤ r / 2 ^ 24 := by
  obtain ⟨h0, h1⟩ := eca_range e1 e2 tm lag o h r hr
  exact ⟨⟨rn24_nonneg r, rn24_le_one r h1⟩, rn24_err r h0⟩

/-- the same for the three window types of `_eca_coincidence_rate` -/
theorem ecaRate_f32_range (w : Window) (e1 e2 : List Rat) (tm lag : Rat) (a b : Rate)
    (h : ecaRate w e1 e2 tm lag = some (a, b)) (r : Rat) (hr : a = .val r ∨ b = .val r) :
    (0 ≤ rn24 r ∧ rn24 r ≤ 1) ∧ |rn24 r - r| ≤ r / 2 ^ 24 := by
  obtain ⟨h0, h1⟩ := ecaRate_range w e1 e2 tm lag a b h r hr
  exact ⟨⟨rn24_nonneg r, rn24_le_one r h1⟩, rn24_err r h0⟩

/-- `rateF32` is what the driver prints; exact on the rates `0` and `1` -/
theorem rateF32_spec (r : Rat) :
    rateF32 (.val r) = .val (rn24 r) ∧ rateF32 .nan = .nan ∧ rn24 0 = 0 ∧ rn24 1 = 1 :=
  ⟨rfl, rfl, rn24_zero_one.1, rn24_zero_one.2⟩

theorem mat_get_map' {α β} (M : Mat α) (f : α → β) (d : α) (d' : β) (hd : f d = d') (i j : Nat) :
    Mat.get (M.map fun row => row.map f) d' i j = f (M.get d i j) := by
  simp only [Mat.get, List.getD_eq_getElem?_getD, List.getElem?_map]
  cases hM : M[i]? with
  | none => simp [hd]
  | some row =>
    simp only [Option.map_some, Option.getD_some, List.getElem?_map]
    cases hr : row[j]? with
    | none => simp [hd]
    | some v => simp

/-- **range of the ECA analysis matrix in floating point**: float32 rates stored in the float64
matrix and symmetrised by `directed`/`mean`/`max`/`min` — every entry is NaN or in `[0,1]` -/
theorem ecaAnalysisF32_range (w : Window) (ts : List Rat) (E : Mat Bool) (n : Nat) (tm lag : Rat)
    (s : Symm) (hs : s = .directed ∨ s = .mean ∨ s = .max ∨ s = .min)
    (A : Mat (Option Rat)) (h : ecaAnalysisF32 w ts E n tm lag s = some A)
    (i j : Nat) (hi : i < n) (hj : j < n) (r : Rat) (hr : A.get none i j = some r) :
    0 ≤ r ∧ r ≤ 1 := by
  unfold ecaAnalysisF32 at h
  cases hM : ecaMatrix w ts E n tm lag with
  | none => simp [hM] at h
  | some M =>
    simp only [hM, Option.map_some, Option.some.injEq] at h
    subst h
    rw [symmetrize_entry n none none (symmOpN s) _ i j hi hj,
      mat_get_map' M (fun e => e.map rn24) none none rfl i j,
      mat_get_map' M (fun e => e.map rn24) none none rfl j i] at hr
    have rng : ∀ a b, a < n → b < n → ∀ v, (M.get none a b).map rn24 = some v → 0 ≤ v ∧ v ≤ 1 := by
      intro a b ha hb v hv
      cases hx : M.get none a b with
      | none => rw [hx] at hv; cases hv
      | some x =>
        rw [hx] at hv
        simp only [Option.map_some, Option.some.injEq] at hv
        subst hv
        have := ecaMatrix_range w ts E n tm lag M hM a b ha hb x hx
        exact ⟨rn24_nonneg x, rn24_le_one x this.2⟩
    rcases hs with rfl | hs
    · exact rng i j hi hj r hr
    · cases ha : (M.get none i j).map rn24 with
      | none => rw [ha] at hr; rcases hs with rfl | rfl | rfl <;> cases hr
      | some a =>
        cases hb : (M.get none j i).map rn24 with
        | none => rw [ha, hb] at hr; rcases hs with rfl | rfl | rfl <;> cases hr
        | some b =>
          rw [ha, hb, (symmOpN_spec s a b).1] at hr
          simp only [Option.some.injEq] at hr
          subst hr
          exact symmOp_between s hs a b 0 1 (rng i j hi hj a ha) (rng j i hj hi b hb)

/-! ## round 4: the float64 strengths under a rounding model

`strengthF64 c n = rn53 (c / sqrt53 n)`: `sqrt53 n` the double nearest to `√n` (correctly
rounded `np.sqrt`), one correctly rounded division.  The driver answers `esf64` / `esmatf64`
with these values and the harness compares them bit for bit with the implementation. -/

/-- **float-level range of `event_synchronization`**: for strictly increasing event times and a
norm `(lx-2)(ly-2) ≤ 2⁴⁸` both *doubles* returned — counts divided by the rounded square root,
the quotient rounded — lie in `[0, 1]`; the rounding never carries a strength above `1` -/
theorem es_f64_range (ex ey : List Rat) (tm : Option Rat) (lag : Rat)
    (hx : List.Pairwise (· < ·) ex) (hy : List.Pairwise (· < ·) ey)
    (hsize : (ex.length - 2) * (ey.length - 2) ≤ 2 ^ 48) (v : Rat)
    (hv : (esF64 (es ex ey tm lag)).1 = some v ∨ (esF64 (es ex ey tm lag)).2 = some v) :
    0 ≤ v ∧ v ≤ 1 := by
  cases hr : es ex ey tm lag with
  | nan => rw [hr] at hv; rcases hv with h | h <;> cases h
  | zero =>
    rw [hr] at hv
    rcases hv with h | h <;> (injection h with h; subst h; norm_num)
  | val a b n =>
    rw [hr] at hv
    obtain ⟨hn, hn1, hka, hkb⟩ := es_val_facts ex ey tm lag a b n hr
    obtain ⟨⟨ha0, ha1⟩, ⟨hb0, hb1⟩⟩ := es_range ex ey tm lag a b n hx hy hr
    have hn48 : n ≤ 2 ^ 48 := by rw [hn]; exact hsize
    rcases hv with h | h
    · injection h with h; subst h
      exact strengthF64_range a n ha0 hka (by rw [pow_two]; exact ha1) hn1 hn48
    · injection h with h; subst h
      exact strengthF64_range b n hb0 hkb (by rw [pow_two]; exact hb1) hn1 hn48

/-- the same from binary series and strictly increasing time stamps (records of up to
`2²⁴` samples: `(lx-2)(ly-2) ≤ 2⁴⁸`) -/
theorem esSeries_f64_range (ts1 ts2 : List Rat) (bx by_ : List Bool) (tm : Option Rat) (lag : Rat)
    (h1 : List.Pairwise (· < ·) ts1) (h2 : List.Pairwise (· < ·) ts2)
    (hsize : ((select ts1 bx).length - 2) * ((select ts2 by_).length - 2) ≤ 2 ^ 48) (v : Rat)
    (hv : (esF64 (esSeries ts1 bx ts2 by_ tm lag)).1 = some v ∨
          (esF64 (esSeries ts1 bx ts2 by_ tm lag)).2 = some v) :
    0 ≤ v ∧ v ≤ 1 :=
  es_f64_range _ _ tm lag ((event_times_sorted ts1 bx 0).1 h1) ((event_times_sorted ts2 by_ 0).1 h2)
    hsize v hv

/-- non-vacuity: the counting branch with a norm far below `2⁴⁸` -/
example : ∃ a b n, es [0, 1, 2, 4, 6, 7] [0, 1, 3, 4, 6, 8] none 0 = .val a b n ∧ n ≤ 2 ^ 48 :=
  ⟨_, _, 16, rfl, by norm_num⟩

/-- **accuracy of the model square root and quotient**: `sqrt53 n` squared is within `2⁻⁵⁰`
relative of `n`; the returned double is within `2⁻⁵³` relative of `count / sqrt53 n`; a perfect
square has its exact root -/
theorem es_f64_accuracy (c : Rat) (n : Nat) (hc0 : 0 ≤ c) (hn1 : 1 ≤ n) :
    ((n : Rat) * (1 - 1 / 2 ^ 51) ≤ sqrt53 n ^ 2 ∧ sqrt53 n ^ 2 ≤ (n : Rat) * (1 + 1 / 2 ^ 50)) ∧
    |strengthF64 c n - c / sqrt53 n| ≤ c / sqrt53 n / 2 ^ 53 ∧
    (∀ k : Nat, k < 2 ^ 53 → sqrtSticky (k * k) = (k : Rat) ∧ (k : Rat) ≤ sqrt53 (k * k)) :=
  ⟨sqrt53_sq_bounds n hn1, strengthF64_err c n hc0 hn1,
    fun k hk => ⟨sqrtSticky_square k, sqrt53_square k hk⟩⟩

/-- **the rational handed to the rounding brackets `√n` at `2⁻⁵⁴`**: `sqrtFloor n ≤ √n <
sqrtFloor n + 2⁻⁵⁴` (in squares), the sticky value lies in between, so `sqrt53 n` is the
rounding of a number in the same `2⁻⁵⁴`-cell as `√n` -/
theorem sqrt53_bracket (n : Nat) :
    sqrtFloor n ^ 2 ≤ (n : Rat) ∧ (n : Rat) < (sqrtFloor n + 1 / 2 ^ 54) ^ 2 ∧
    sqrtFloor n ≤ sqrtSticky n ∧ sqrtSticky n ≤ sqrtFloor n + 1 / 2 ^ 55 :=
  ⟨sqrtFloor_sq_le n, lt_sqrtFloor_succ_sq n, sqrtFloor_le_sticky n, sqrtSticky_le n⟩

/-- **symmetrised doubles**: `directed` / `mean` / `max` / `min` of two doubles in `[0,1]`
(sum rounded once, halved exactly) stay in `[0,1]` -/
theorem esSymmF64_range (s : Symm) (hs : s = .directed ∨ s = .mean ∨ s = .max ∨ s = .min)
    (a b : Rat) (ha : 0 ≤ a ∧ a ≤ 1) (hb : 0 ≤ b ∧ b ≤ 1) :
    0 ≤ symmOpF64 s a b ∧ symmOpF64 s a b ≤ 1 :=
  symmOpF64_range s hs a b ha hb

example : symmOpF64 .mean (1 / 3) (1 / 2) = rn53s (5 / 6) / 2 := by
  simp only [symmOpF64]; norm_num

/-! ## round 4: `np.quantile` / `np.median` as NumPy computes them, and the threshold array -/

/-- **NumPy's `'linear'` quantile is the model's `quantile`** for every array and `0 ≤ q ≤ 1`
(virtual index `(n-1)q`, `_get_indexes` with the last element for `(n-1)q ≥ n-1`, weight
`virtual - previous`, two-branch `_lerp`) -/
theorem np_quantile_is_model (a : List Rat) (q : Rat) (h0 : 0 ≤ q) (h1 : q ≤ 1) :
    npQuantile a q = quantile a q := npQuantile_eq_quantile a q h0 h1

/-- **`np.median` (middle element / mean of the two middle elements) is the model's median** -/
theorem np_median_is_model (a : List Rat) : npMedian a = median a := (median_eq_npMedian a).symm

example : npQuantile [3, 1, 2, 7] (3 / 8) = quantile [3, 1, 2, 7] (3 / 8) :=
  np_quantile_is_model _ _ (by norm_num) (by norm_num)

/-- **interpolation**: both branches of `_lerp` are `a + (b-a)t = (1-t)a + tb`; for
`0 ≤ t ≤ 1` and `a ≤ b` the result lies in `[a, b]`, equals `a` at `t = 0` and `b` at `t = 1`,
and is monotone in `t` -/
theorem np_lerp_interpolation (a b t : Rat) :
    npLerp a b t = a + (b - a) * t ∧ npLerp a b t = (1 - t) * a + t * b ∧
    npLerp a b 0 = a ∧ npLerp a b 1 = b ∧
    (a ≤ b → 0 ≤ t → t ≤ 1 → a ≤ npLerp a b t ∧ npLerp a b t ≤ b) ∧
    (a ≤ b → ∀ t', t ≤ t' → npLerp a b t ≤ npLerp a b t') := by
  refine ⟨npLerp_eq a b t, npLerp_convex a b t, ?_, ?_, ?_, ?_⟩
  · rw [npLerp_eq]; ring
  · rw [npLerp_eq]; ring
  · intro hab h0 h1
    rw [npLerp_eq]
    have hd : 0 ≤ b - a := by linarith
    have m0 := mul_nonneg hd h0
    have m1 := mul_le_mul_of_nonneg_left h1 hd
    constructor <;> linarith
  · intro hab t' htt
    rw [npLerp_eq, npLerp_eq]
    have hd : 0 ≤ b - a := by linarith
    have := mul_le_mul_of_nonneg_left htt hd
    linarith

/-- the quantile is the interpolation between the two neighbouring order statistics with the
fractional part of `(n-1)q` as weight (what `np_lerp_interpolation` is applied to) -/
theorem np_quantile_interpolates (a : List Rat) (q : Rat) (h0 : 0 ≤ q) (h1 : q ≤ 1) :
    npQuantile a q = npLerp ((sortedOf a).getD (qLo a.length q) 0)
      ((sortedOf a).getD (qHi a.length q) 0) (((a.length : Rat) - 1) * q - (qLo a.length q : Rat)) := by
  rw [npQuantile_eq_quantile a q h0 h1, quantile_eq, npLerp_eq]

section numpy
open Pyunicorn.Generated

/-- **the model of `np.quantile` restated from the installed NumPy's source**: the virtual
index is `_QuantileMethods['linear']['get_virtual_index'](n, q)`, the weight
`fix_gamma(_get_gamma(...))`, the indexes `floor` / `+ 1` with the two clippings of
`_get_indexes` in source order, the interpolation the two statements of `_lerp` under its
`where=` test; `'linear'` is the default method of `np.quantile` and `_quantile` -/
theorem gen_np_quantile (a : List Rat) (q v : Rat) (n : Nat) (x y t : Rat) :
    npQuantile a q =
      (let s := a.mergeSort (fun x y => decide (x ≤ y))
       let vi := StructC16.npVirtualIndex (s.length : Rat) q
       let ix := npIndexes vi s.length
       npLerp (pyIdx s ix.1) (pyIdx s ix.2)
         (StructC16.npFixGamma (StructC16.npGamma vi (ix.1 : Rat)))) ∧
    npIndexes v n =
      (let prev : Int := v.floor
       let next := StructC16.npNext prev
       let pn := if StructC16.npAbove v (n : Rat) then (StructC16.npAbovePrev, StructC16.npAboveNext)
                 else (prev, next)
       if StructC16.npBelow v then (StructC16.npBelowPrev, StructC16.npBelowNext) else pn) ∧
    npLerp x y t =
      (if StructC16.npLerpWhere t then StructC16.npLerpHi y (StructC16.npLerpDiff x y) t
       else StructC16.npLerpLo x (StructC16.npLerpDiff x y) t) ∧
    StructC16.npQuantileDefaultMethod = "linear" ∧
    StructC16.npQuantileInnerDefaultMethod = "linear" ∧ StructC16.npQuantileWiring = 7 := by
  refine ⟨rfl, ?_, ?_, rfl, rfl, rfl⟩
  · simp only [npIndexes, StructC16.npNext, StructC16.npAbove, StructC16.npBelow,
      StructC16.npAbovePrev, StructC16.npAboveNext, StructC16.npBelowPrev, StructC16.npBelowNext,
      decide_eq_true_eq]
  · simp only [npLerp, StructC16.npLerpWhere, StructC16.npLerpHi, StructC16.npLerpLo,
      StructC16.npLerpDiff, decide_eq_true_eq]

/-- **Hyndman & Fan type 7**: NumPy's general virtual index `n·q + (α + q(1-α-β)) - 1` at
`α = β = 1` is the `(n-1)·q` the `'linear'` entry uses ("mathematically equivalent" in the
source), i.e. the documented `q·n + m - 1` with `m = 1 - q` -/
theorem np_virtual_index_hf7 (n q : Rat) :
    StructC16.npComputeVirtualIndex n q 1 1 = StructC16.npVirtualIndex n q ∧
    StructC16.npVirtualIndex n q = q * n + (1 - q) - 1 := by
  simp only [StructC16.npComputeVirtualIndex, StructC16.npVirtualIndex]
  constructor <;> ring

/-- `np.median` restated from `_median`: `index = n // 2`, the slice `[index, index+1)` for odd
and `[index-1, index+1)` for even `n`, then the mean of the slice -/
theorem gen_np_median (a : List Rat) :
    npMedian a =
      (let s := a.mergeSort (fun x y => decide (x ≤ y))
       let index := StructC16.npMedianIndex s.length
       if StructC16.npMedianOdd s.length then
         s.getD (StructC16.npMedianSliceOdd index).1 0
       else (s.getD (StructC16.npMedianSliceEven index).1 0
             + s.getD ((StructC16.npMedianSliceEven index).2 - 1) 0) / 2) := by
  simp only [npMedian, StructC16.npMedianIndex, StructC16.npMedianOdd, StructC16.npMedianSliceOdd,
    StructC16.npMedianSliceEven, decide_eq_true_eq, Nat.add_sub_cancel]

/-- **the threshold array as allocated in the source** (focus: seed C16-6): the one allocation
of `thresholds` names no dtype other than float64 (and neither does `eventmatrix`); exactly
three statements store into `thresholds[i]` — the two-argument `np.quantile` call (default
method), `np.median`, the given value — and the marking loop compares `data[t][i] >` / `<`
`thresholds[i]` -/
theorem gen_threshold_store :
    storeOfDType StructC16.thresholdsDType = some StoreTy.float64 ∧
    StructC16.eventmatrixDType = "float64" ∧
    StructC16.thresholdsShape = "data.shape[1]" ∧
    StructC16.thresholdStores = ["np.quantile(data_axswap[i], threshold_values[i])",
      "np.median(data_axswap[i])", "threshold_values[i]"] ∧
    StructC16.markStatements = [("Gt", "eventmatrix[t][i] = 1", "eventmatrix[t][i] = 0"),
      ("Lt", "eventmatrix[t][i] = 1", "eventmatrix[t][i] = 0")] := by
  refine ⟨?_, ?_, ?_, ?_, ?_⟩ <;> decide

/-- **`make_event_matrix` through NumPy's algorithms and the array the source allocates is the
model**: with the store type the allocation statement names, `makeEventMatrixD` (NumPy's
quantile / median algorithms, thresholds passing through the array) equals `makeEventMatrix`,
so `threshold_marks_exactly_quantile` / `_value` speak about the code as written -/
theorem makeEventMatrix_numpy (st : StoreTy)
    (hst : storeOfDType StructC16.thresholdsDType = some st) (data : Mat Rat) (nvar : Nat)
    (ms : List TMethod) (vs : List (Option Rat)) (tys : List (Option TType)) :
    makeEventMatrixD st data nvar ms vs tys = makeEventMatrix data nvar ms vs tys := by
  have h := gen_threshold_store.1
  rw [h] at hst
  injection hst with hst
  subst hst
  exact makeEventMatrixD_float64 data nvar ms vs tys

end numpy

/-- **why the dtype matters**: stored into an array of the (integer) data's dtype, a positive
non-integer threshold is truncated to `⌊th⌋`, and the sample equal to `⌊th⌋` — below the stated
threshold — is no longer marked by `'below'`; symmetrically for negative thresholds and
`'above'` -/
theorem threshold_truncation_breaks (th : Rat) (hpos : 0 < th) (hfrac : (th.floor : Rat) < th) :
    mark th .below (th.floor : Rat) = true ∧
    mark (storeThr .dataInt th) .below (th.floor : Rat) = false := by
  have h1 : ¬ th < 0 := by linarith
  simp only [mark, storeThr, truncZero, if_neg h1, decide_eq_true_eq, decide_eq_false_iff_not]
  exact ⟨hfrac, lt_irrefl _⟩

/-- integer data under a non-integer threshold: `'above'` marks exactly the samples
`≥ ⌊th⌋ + 1`, `'below'` exactly the samples `≤ ⌊th⌋` -/
theorem threshold_integer_data (th : Rat) (d : Int) (hfrac : (th.floor : Rat) < th) :
    (mark th .above (d : Rat) = true ↔ th.floor + 1 ≤ d) ∧
    (mark th .below (d : Rat) = true ↔ d ≤ th.floor) := by
  have hlt : th < (th.floor : Rat) + 1 := by
    have := Rat.lt_floor_add_one th
    push_cast at this
    exact this
  simp only [mark, decide_eq_true_eq]
  constructor
  · constructor
    · intro h
      have : th.floor < d := by
        have : ((th.floor : Int) : Rat) < (d : Rat) := lt_trans hfrac h
        exact_mod_cast this
      omega
    · intro h
      have : ((th.floor + 1 : Int) : Rat) ≤ (d : Rat) := by exact_mod_cast h
      push_cast at this
      linarith
  · constructor
    · intro h
      have : (d : Rat) < ((th.floor + 1 : Int) : Rat) := by push_cast; linarith
      have : d < th.floor + 1 := by exact_mod_cast this
      omega
    · intro h
      have : (d : Rat) ≤ ((th.floor : Int) : Rat) := by exact_mod_cast h
      linarith

/-- the seeded allocation (`dtype=data.dtype`, integer counts, value `3/2`, type `'below'`):
the sample `1` is lost -/
example : makeEventMatrixD .dataInt [[0], [1], [2], [3]] 1 [.value] [some (3 / 2)] [some .below]
      ≠ makeEventMatrix [[0], [1], [2], [3]] 1 [.value] [some (3 / 2)] [some .below] := by
  decide +kernel

/-! ## round 5: the float64 ES analysis matrix as a whole

`esAnalysisF64` is the matrix of doubles `event_series_analysis(method='ES')` returns (the driver
answers `esmatf64` with it and the harness compares every entry bit for bit).  Rounds 3 / 4
proved the range over ℝ for the matrix and at float level for one pair; here the two are joined:
every entry of the *float* matrix, for every `N`, every binary event matrix on strictly increasing
time stamps (records of up to `2²⁴` samples), every window and lag, under all six
symmetrisations. -/

/-- the two directed entries `[i,j]`, `[j,i]` of the ES matrix with everything the float-level
argument needs: both NaN, or two half-integer counts in `[0, √m]` over one shared norm
`1 ≤ m ≤ 2⁴⁸` -/
def GoodPairF (p q : ESEntry) : Prop :=
  (p = none ∧ q = none) ∨ ∃ a b m, p = some (a, m) ∧ q = some (b, m) ∧ (1 ≤ m ∧ m ≤ 2 ^ 48) ∧
    (0 ≤ a ∧ a ^ 2 ≤ (m : Rat) ∧ ∃ k : Nat, a = (k : Rat) / 2) ∧
    (0 ≤ b ∧ b ^ 2 ≤ (m : Rat) ∧ ∃ k : Nat, b = (k : Rat) / 2)

theorem goodPairF_symm {p q : ESEntry} (h : GoodPairF p q) : GoodPairF q p := by
  rcases h with ⟨h1, h2⟩ | ⟨a, b, m, h1, h2, hm, ha, hb⟩
  · exact Or.inl ⟨h2, h1⟩
  · exact Or.inr ⟨b, a, m, h2, h1, hm, hb, ha⟩

theorem goodPairF_zero : GoodPairF (some (0, 1)) (some (0, 1)) :=
  Or.inr ⟨0, 0, 1, rfl, rfl, ⟨le_refl _, by norm_num⟩, ⟨le_refl _, by norm_num, 0, by norm_num⟩,
    ⟨le_refl _, by norm_num, 0, by norm_num⟩⟩

theorem esPairEntry_goodF (ts1 ts2 : List Rat) (bx by_ : List Bool) (tm : Option Rat) (lag : Rat)
    (h1 : List.Pairwise (· < ·) ts1) (h2 : List.Pairwise (· < ·) ts2)
    (hl1 : ts1.length ≤ 2 ^ 24) (hl2 : ts2.length ≤ 2 ^ 24) :
    GoodPairF (esPairEntry (esSeries ts1 bx ts2 by_ tm lag)).1
      (esPairEntry (esSeries ts1 bx ts2 by_ tm lag)).2 := by
  cases hr : esSeries ts1 bx ts2 by_ tm lag with
  | nan => exact Or.inl ⟨rfl, rfl⟩
  | zero => exact goodPairF_zero
  | val a b m =>
    have hrng := esSeries_range ts1 ts2 bx by_ tm lag h1 h2 a b m hr
    have hr' : es (select ts1 bx) (select ts2 by_) tm lag = .val a b m := hr
    obtain ⟨hm, hm1, hka, hkb⟩ := es_val_facts _ _ tm lag a b m hr'
    have hm48 : m ≤ 2 ^ 48 := by
      rw [hm]; exact norm_le_of_length ts1 ts2 bx by_ hl1 hl2
    exact Or.inr ⟨a, b, m, rfl, rfl, ⟨hm1, hm48⟩,
      ⟨hrng.1.1, by rw [pow_two]; exact hrng.1.2, hka⟩,
      ⟨hrng.2.1, by rw [pow_two]; exact hrng.2.2, hkb⟩⟩

/-- every mirrored pair of entries of `_ndim_event_synchronization` is a `GoodPairF` -/
theorem esMatrix_pairF (ts : List Rat) (E : Mat Bool) (n : Nat) (tm : Option Rat) (lag : Rat)
    (hts : List.Pairwise (· < ·) ts) (hlen : ts.length ≤ 2 ^ 24)
    (i j : Nat) (hi : i < n) (hj : j < n) :
    GoodPairF ((esMatrix ts E n tm lag).get none i j) ((esMatrix ts E n tm lag).get none j i) := by
  rcases Nat.lt_trichotomy i j with hij | hij | hij
  · obtain ⟨e1, e2⟩ := esMatrix_entry ts E n tm lag i j hij hj
    rw [e1, e2]
    exact esPairEntry_goodF ts ts _ _ tm lag hts hts hlen hlen
  · subst hij
    have : (esMatrix ts E n tm lag).get none i i = some (0, 1) := by
      unfold esMatrix
      rw [assemble_entry _ _ _ _ i i hi hi]
      simp
    rw [this]
    exact goodPairF_zero
  · obtain ⟨e1, e2⟩ := esMatrix_entry ts E n tm lag j i hij hi
    rw [e1, e2]
    exact goodPairF_symm (esPairEntry_goodF ts ts _ _ tm lag hts hts hlen hlen)

/-- entry `[i,j]` of the float64 analysis matrix: the helper of the chosen symmetrisation applied
to the doubles stored at `[i,j]` and `[j,i]` by `_ndim_event_synchronization` -/
theorem esAnalysisF64_entry (ts : List Rat) (E : Mat Bool) (n : Nat) (tm : Option Rat) (lag : Rat)
    (s : Symm) (i j : Nat) (hi : i < n) (hj : j < n) :
    (esAnalysisF64 ts E n tm lag s).get none i j
      = symmOpF64N s (esEntryF64 ((esMatrix ts E n tm lag).get none i j))
          (esEntryF64 ((esMatrix ts E n tm lag).get none j i)) := by
  unfold esAnalysisF64
  rw [symmetrize_entry n none none _ _ i j hi hj,
    mat_get_map' _ esEntryF64 none none rfl, mat_get_map' _ esEntryF64 none none rfl]

/-- **value of every entry of the float64 ES analysis matrix**: NaN (a series of the pair has no
event), or the float helper applied to the two doubles `fl(a / fl(√m))`, `fl(b / fl(√m))` of the
pair, both of which lie in `[0,1]` -/
theorem esAnalysisF64_value (ts : List Rat) (E : Mat Bool) (n : Nat) (tm : Option Rat) (lag : Rat)
    (s : Symm) (hts : List.Pairwise (· < ·) ts) (hlen : ts.length ≤ 2 ^ 24)
    (i j : Nat) (hi : i < n) (hj : j < n) :
    ((esAnalysisF64 ts E n tm lag s).get none i j = none ∧
      (esAnalysis ts E n tm lag s).get none i j = none) ∨
    ∃ a b m, (esMatrix ts E n tm lag).get none i j = some (a, m) ∧
      (esMatrix ts E n tm lag).get none j i = some (b, m) ∧
      (esAnalysisF64 ts E n tm lag s).get none i j
        = some (symmOpF64 s (strengthF64 a m) (strengthF64 b m)) ∧
      (esAnalysis ts E n tm lag s).get none i j = some (symmOp s a b, m) ∧
      (0 ≤ strengthF64 a m ∧ strengthF64 a m ≤ 1) ∧
      (0 ≤ strengthF64 b m ∧ strengthF64 b m ≤ 1) := by
  rw [esAnalysisF64_entry ts E n tm lag s i j hi hj, esAnalysis_entry ts E n tm lag s i j hi hj]
  rcases esMatrix_pairF ts E n tm lag hts hlen i j hi hj with
    ⟨h1, h2⟩ | ⟨a, b, m, h1, h2, hm, ha, hb⟩
  · left
    rw [h1, h2]
    cases s <;> exact ⟨rfl, rfl⟩
  · right
    refine ⟨a, b, m, h1, h2, ?_, ?_, strengthF64_range a m ha.1 ha.2.2 ha.2.1 hm.1 hm.2,
      strengthF64_range b m hb.1 hb.2.2 hb.2.1 hm.1 hm.2⟩
    · rw [h1, h2]
      exact symmOpF64N_some s _ _
    · rw [h1, h2]
      cases s <;> rfl

/-- **float-level range of the ES analysis matrix**: under `directed`, `mean`, `max`, `min`
every entry of the matrix of doubles that is not NaN lies in `[0,1]` -/
theorem esAnalysisF64_range (ts : List Rat) (E : Mat Bool) (n : Nat) (tm : Option Rat) (lag : Rat)
    (s : Symm) (hs : s = .directed ∨ s = .mean ∨ s = .max ∨ s = .min)
    (hts : List.Pairwise (· < ·) ts) (hlen : ts.length ≤ 2 ^ 24)
    (i j : Nat) (hi : i < n) (hj : j < n) (v : Rat)
    (hv : (esAnalysisF64 ts E n tm lag s).get none i j = some v) : 0 ≤ v ∧ v ≤ 1 := by
  rcases esAnalysisF64_value ts E n tm lag s hts hlen i j hi hj with
    ⟨h, _⟩ | ⟨a, b, m, _, _, hval, _, ha, hb⟩
  · rw [h] at hv; cases hv
  · rw [hval] at hv
    injection hv with hv
    subst hv
    exact symmOpF64_range s hs _ _ ha hb

/-- `symmetric` entries of the matrix of doubles lie in `[0,2]`, `antisym` entries in `[-1,1]` -/
theorem esAnalysisF64_range_sum_diff (ts : List Rat) (E : Mat Bool) (n : Nat) (tm : Option Rat)
    (lag : Rat) (hts : List.Pairwise (· < ·) ts) (hlen : ts.length ≤ 2 ^ 24)
    (i j : Nat) (hi : i < n) (hj : j < n) (v : Rat) :
    ((esAnalysisF64 ts E n tm lag .symmetric).get none i j = some v → 0 ≤ v ∧ v ≤ 2) ∧
    ((esAnalysisF64 ts E n tm lag .antisym).get none i j = some v → -1 ≤ v ∧ v ≤ 1) := by
  constructor
  · intro hv
    rcases esAnalysisF64_value ts E n tm lag .symmetric hts hlen i j hi hj with
      ⟨h, _⟩ | ⟨a, b, m, _, _, hval, _, ha, hb⟩
    · rw [h] at hv; cases hv
    · rw [hval] at hv
      injection hv with hv
      subst hv
      exact (symmOpF64_sum_diff_range _ _ ha hb).1
  · intro hv
    rcases esAnalysisF64_value ts E n tm lag .antisym hts hlen i j hi hj with
      ⟨h, _⟩ | ⟨a, b, m, _, _, hval, _, ha, hb⟩
    · rw [h] at hv; cases hv
    · rw [hval] at hv
      injection hv with hv
      subst hv
      exact (symmOpF64_sum_diff_range _ _ ha hb).2

/-- `symmetric`, `mean`, `max`, `min` give a symmetric matrix of doubles (same bits at `[i,j]`
and `[j,i]`); `antisym` gives an exactly antisymmetric one (NaN pattern symmetric) -/
theorem esAnalysisF64_symmetric (ts : List Rat) (E : Mat Bool) (n : Nat) (tm : Option Rat)
    (lag : Rat) (hts : List.Pairwise (· < ·) ts) (hlen : ts.length ≤ 2 ^ 24)
    (i j : Nat) (hi : i < n) (hj : j < n) :
    (∀ s : Symm, (s = .symmetric ∨ s = .mean ∨ s = .max ∨ s = .min) →
      (esAnalysisF64 ts E n tm lag s).get none i j = (esAnalysisF64 ts E n tm lag s).get none j i) ∧
    (esAnalysisF64 ts E n tm lag .antisym).get none i j
      = ((esAnalysisF64 ts E n tm lag .antisym).get none j i).map (fun v => -v) := by
  constructor
  · intro s hs
    rw [esAnalysisF64_entry ts E n tm lag s i j hi hj, esAnalysisF64_entry ts E n tm lag s j i hj hi]
    rcases esMatrix_pairF ts E n tm lag hts hlen i j hi hj with
      ⟨h1, h2⟩ | ⟨a, b, m, h1, h2, _, _, _⟩
    · rw [h1, h2]
    · rw [h1, h2]
      simp only [esEntryF64, symmOpF64N_some]
      rw [symmOpF64_comm s hs]
  · rw [esAnalysisF64_entry ts E n tm lag .antisym i j hi hj,
      esAnalysisF64_entry ts E n tm lag .antisym j i hj hi]
    rcases esMatrix_pairF ts E n tm lag hts hlen i j hi hj with
      ⟨h1, h2⟩ | ⟨a, b, m, h1, h2, _, _, _⟩
    · rw [h1, h2]; rfl
    · rw [h1, h2]
      simp only [esEntryF64, symmOpF64N_some, Option.map_some]
      rw [symmOpF64_antisym]

/-- **the float matrix against the exact table**: every non-NaN entry is within `2⁻⁵³` relative of
the exact table entry of the two stored doubles (one rounding for `symmetric` / `antisym` /
`mean`, none for `directed` / `max` / `min`), and the NaN pattern is that of the exact analysis -/
theorem esAnalysisF64_accuracy (ts : List Rat) (E : Mat Bool) (n : Nat) (tm : Option Rat)
    (lag : Rat) (s : Symm) (hts : List.Pairwise (· < ·) ts) (hlen : ts.length ≤ 2 ^ 24)
    (i j : Nat) (hi : i < n) (hj : j < n) :
    ((esAnalysisF64 ts E n tm lag s).get none i j = none ↔
      (esAnalysis ts E n tm lag s).get none i j = none) ∧
    ∀ v, (esAnalysisF64 ts E n tm lag s).get none i j = some v →
      ∃ a b m, (esAnalysis ts E n tm lag s).get none i j = some (symmOp s a b, m) ∧
        |v - symmOp s (strengthF64 a m) (strengthF64 b m)|
          ≤ |symmOp s (strengthF64 a m) (strengthF64 b m)| / 2 ^ 53 := by
  rcases esAnalysisF64_value ts E n tm lag s hts hlen i j hi hj with
    ⟨h1, h2⟩ | ⟨a, b, m, _, _, hval, hex, _, _⟩
  · refine ⟨by simp [h1, h2], ?_⟩
    intro v hv
    rw [h1] at hv; cases hv
  · refine ⟨by rw [hval, hex]; simp, ?_⟩
    intro v hv
    rw [hval] at hv
    injection hv with hv
    subst hv
    exact ⟨a, b, m, hex, symmOpF64_err s _ _⟩

/-- **float-level exchange and affine invariance of one call**: the two doubles are exchanged when
the series are exchanged (lag negated), and are *bit-identical* after `t ↦ k·t + c`
(`k > 0`, lag and window rescaled) — the counts and the norm do not change (`es_exchange`,
`es_affine`), so neither do `np.sqrt` and the quotient -/
theorem es_f64_exchange_affine (ex ey : List Rat) (tm : Option Rat) (lag : Rat) :
    esF64 (es ey ex tm (-lag)) = ((esF64 (es ex ey tm lag)).2, (esF64 (es ex ey tm lag)).1) ∧
    ∀ k c : Rat, 0 < k →
      esF64 (es (ex.map (affT k c)) (ey.map (affT k c)) (tm.map (k * ·)) (k * lag))
        = esF64 (es ex ey tm lag) := by
  constructor
  · rw [es_exchange]
    cases es ex ey tm lag <;> rfl
  · intro k c hk
    rw [es_affine k c hk]

/-- non-vacuity: a float matrix with proper entries; the `antisym` one has a negative entry -/
example : (esAnalysisF64 (indexTimes 6)
    [[true, true, false], [true, false, true], [true, true, true], [false, true, true],
     [true, true, false], [true, true, true]] 3 none 0 .mean).get none 0 1 ≠ none := by
  decide +kernel


/-! ## round 5: the float arithmetic inside the counting of `event_synchronization`

`esR fl` rounds every operation the function applies to times (`ey + lag`, `ex - ey`, `np.diff`)
by `fl`; `esFl = esSeriesR rn53s` is the call in IEEE double.  The driver answers `esfl` with it;
the harness compares it bit for bit on dyadic data *and* on time stamps whose sums and
differences are not representable (where the counts differ from exact arithmetic). -/

/-- the exact-arithmetic model `es`, about which every theorem above speaks, is the instance
`fl = id` of the rounded model -/
theorem es_float_model_id (ex ey : List Rat) (tm : Option Rat) (lag : Rat) :
    esR id ex ey tm lag = es ex ey tm lag := esR_id ex ey tm lag

/-- **no rounding, no difference**: for any rounding function that is the identity on the
shifted times `t + lag` and on every difference of two of the times `ex ∪ (ey + lag)`, the rounded
path returns what exact arithmetic returns -/
theorem es_float_exact (fl : Rat → Rat) (ex ey : List Rat) (tm : Option Rat) (lag : Rat)
    (hlag : ∀ t ∈ ey, fl (t + lag) = t + lag)
    (hsub : ∀ a ∈ ex ++ ey.map (· + lag), ∀ b ∈ ex ++ ey.map (· + lag), fl (a - b) = a - b) :
    esR fl ex ey tm lag = es ex ey tm lag := esR_exact fl ex ey tm lag hlag hsub

/-- **IEEE double rounding is the identity on `k · 2^z`, `|k| < 2⁵³`** (any exponent `z`; the
model has no under- / overflow) -/
theorem ieee_exact_on_lattice (k z : Int) (hk : |k| < 2 ^ 53) :
    rn53s ((k : Rat) * (2 : Rat) ^ z) = (k : Rat) * (2 : Rat) ^ z := rn53s_exact k z hk

/-- **the float path of the call is the exact path on lattice data**: time stamps and lag integer
multiples of one power of two `2^z` with `|k| ≤ 2⁵⁰` (integer time indices, times given to a fixed
number of binary places, every float32 record spanning ≤ 26 binary orders) — then
`event_synchronization` in IEEE double returns exactly what the exact-arithmetic model returns.
This was the trusted-base item "IEEE arithmetic is exact on the dyadic inputs inside the
counting". -/
theorem es_float_lattice (z : Int) (ts1 ts2 : List Rat) (bx by_ : List Bool) (tm : Option Rat)
    (lag : Rat) (h1 : ∀ t ∈ ts1, OnLat z (2 ^ 50) t) (h2 : ∀ t ∈ ts2, OnLat z (2 ^ 50) t)
    (hl : OnLat z (2 ^ 50) lag) :
    esFl ts1 bx ts2 by_ tm lag = esSeries ts1 bx ts2 by_ tm lag :=
  esR_lattice z _ _ tm lag (fun t ht => h1 t ((select_sublist ts1 bx).subset ht))
    (fun t ht => h2 t ((select_sublist ts2 by_).subset ht)) hl

/-- **the whole float path on lattice data**: counting in double, `np.sqrt`, `/` — both doubles
returned equal the doubles of the published formula and lie in `[0,1]` (strictly increasing time
stamps, records of up to `2²⁴` samples) -/
theorem es_float_lattice_value (z : Int) (ts1 ts2 : List Rat) (bx by_ : List Bool)
    (tm : Option Rat) (lag : Rat)
    (h1 : ∀ t ∈ ts1, OnLat z (2 ^ 50) t) (h2 : ∀ t ∈ ts2, OnLat z (2 ^ 50) t)
    (hl : OnLat z (2 ^ 50) lag)
    (hs1 : List.Pairwise (· < ·) ts1) (hs2 : List.Pairwise (· < ·) ts2)
    (hl1 : ts1.length ≤ 2 ^ 24) (hl2 : ts2.length ≤ 2 ^ 24) :
    esF64 (esFl ts1 bx ts2 by_ tm lag)
      = esF64 (esSpec (select ts1 bx) (select ts2 by_) tm lag) ∧
    ∀ v, ((esF64 (esFl ts1 bx ts2 by_ tm lag)).1 = some v ∨
          (esF64 (esFl ts1 bx ts2 by_ tm lag)).2 = some v) → 0 ≤ v ∧ v ≤ 1 := by
  rw [es_float_lattice z ts1 ts2 bx by_ tm lag h1 h2 hl]
  refine ⟨?_, fun v hv => esSeries_f64_range ts1 ts2 bx by_ tm lag hs1 hs2
    (norm_le_of_length ts1 ts2 bx by_ hl1 hl2) v hv⟩
  unfold esSeries
  rw [es_eq_formula]

/-- non-vacuity of the lattice hypothesis: quarter-spaced time stamps, lag `1/2` -/
example : ∀ t ∈ [(0 : Rat), 1 / 4, 1 / 2, 3 / 4, 1, 5 / 4], OnLat (-2) (2 ^ 50) t := by
  intro t ht
  simp only [List.mem_cons, List.not_mem_nil, or_false] at ht
  rcases ht with rfl | rfl | rfl | rfl | rfl | rfl
  · exact ⟨0, by norm_num, by norm_num⟩
  · exact ⟨1, by norm_num, by norm_num⟩
  · exact ⟨2, by norm_num, by norm_num⟩
  · exact ⟨3, by norm_num, by norm_num⟩
  · exact ⟨4, by norm_num, by norm_num⟩
  · exact ⟨5, by norm_num, by norm_num⟩

/-- the hypothesis is needed and the rounded model is not the exact one in disguise: on the doubles
`0.2, 0.1·3, 0.4` against `0.1, 0.2, 0.4` shifted by the double `0.1` exact arithmetic counts
`(1, 0)`, IEEE double counts `(1/2, 1/2)` — and so does the code (stream `rounding` of the harness) -/
example :
    es [3602879701896397 / 18014398509481984, 1351079888211149 / 4503599627370496,
        3602879701896397 / 9007199254740992]
       [3602879701896397 / 36028797018963968, 3602879701896397 / 18014398509481984,
        3602879701896397 / 9007199254740992] none (3602879701896397 / 36028797018963968)
      = .val 1 0 1 ∧
    esR rn53s [3602879701896397 / 18014398509481984, 1351079888211149 / 4503599627370496,
        3602879701896397 / 9007199254740992]
       [3602879701896397 / 36028797018963968, 3602879701896397 / 18014398509481984,
        3602879701896397 / 9007199254740992] none (3602879701896397 / 36028797018963968)
      = .val (1 / 2) (1 / 2) 1 := by
  constructor <;> decide +kernel

/-- **IEEE rounding commutes with a power-of-two change of unit** (all rationals, all exponents;
the model has no under- / overflow) -/
theorem ieee_pow2_commutes (x : Rat) (j : Int) :
    rn53s ((2 : Rat) ^ j * x) = (2 : Rat) ^ j * rn53s x := rn53s_scale x j

/-- **change of the time unit by a power of two, in IEEE double, for *all* time stamps**:
multiplying every time stamp, the lag and the window by `2^j` leaves the guards, both counts and
the norm of the rounded path unchanged — the call returns bit-identical doubles, also where the
operations inside the counting round (no lattice hypothesis).  With an unbounded window
(`tm = none`) this is the rescaling clause of the statement at float level. -/
theorem es_float_pow2_scale (j : Int) (ts1 ts2 : List Rat) (bx by_ : List Bool) (tm : Option Rat)
    (lag : Rat) :
    esFl (ts1.map ((2 : Rat) ^ j * ·)) bx (ts2.map ((2 : Rat) ^ j * ·)) by_
        (tm.map ((2 : Rat) ^ j * ·)) ((2 : Rat) ^ j * lag)
      = esFl ts1 bx ts2 by_ tm lag := by
  unfold esFl esSeriesR
  rw [select_map, select_map]
  exact esR_pow2 j _ _ tm lag

/-- the general form: any rounding that commutes with the multiplication by `k > 0` -/
theorem es_float_scale (fl : Rat → Rat) (k : Rat) (hk : 0 < k) (hfl : ∀ x, fl (k * x) = k * fl x)
    (ex ey : List Rat) (tm : Option Rat) (lag : Rat) :
    esR fl (ex.map (k * ·)) (ey.map (k * ·)) (tm.map (k * ·)) (k * lag) = esR fl ex ey tm lag :=
  esR_scale fl k hk hfl ex ey tm lag

/-- non-vacuity: the rounding example above, time unit divided by `2²⁰` -/
example :
    esR rn53s ([3602879701896397 / 18014398509481984, 1351079888211149 / 4503599627370496,
        3602879701896397 / 9007199254740992].map ((2 : Rat) ^ (-20 : Int) * ·))
       ([3602879701896397 / 36028797018963968, 3602879701896397 / 18014398509481984,
        3602879701896397 / 9007199254740992].map ((2 : Rat) ^ (-20 : Int) * ·)) none
       ((2 : Rat) ^ (-20 : Int) * (3602879701896397 / 36028797018963968))
      = .val (1 / 2) (1 / 2) 1 := by
  rw [show (none : Option Rat) = (none : Option Rat).map ((2 : Rat) ^ (-20 : Int) * ·) from rfl,
    esR_pow2]
  decide +kernel

/-- **exchange in IEEE double at lag `0`, for *all* time stamps that are doubles**: exchanging the
series exchanges the two counts (hence the two doubles returned), whatever the subtractions inside
the counting round to — IEEE rounding is odd (`rn53s_neg`) -/
theorem es_float_exchange_lag0 (ex ey : List Rat) (tm : Option Rat)
    (hdbl : ∀ t ∈ ex ++ ey, rn53s t = t) :
    esR rn53s ey ex tm 0 = (esR rn53s ex ey tm 0).swap := by
  rw [esR_exchange_lag0 rn53s rn53s_neg ex ey tm (fun t ht => by rw [add_zero]; exact hdbl t ht)]
  cases esR rn53s ex ey tm 0 <;> rfl

/-- **shift on the float path of lattice data**: time stamps, shift and lag on one binary lattice
(`|k| ≤ 2⁴⁹` for stamps and shift) — the call in IEEE double returns the same counts before and
after the shift -/
theorem es_float_lattice_shift (z : Int) (c : Rat) (ts1 ts2 : List Rat) (bx by_ : List Bool)
    (tm : Option Rat) (lag : Rat)
    (h1 : ∀ t ∈ ts1, OnLat z (2 ^ 49) t) (h2 : ∀ t ∈ ts2, OnLat z (2 ^ 49) t)
    (hc : OnLat z (2 ^ 49) c) (hl : OnLat z (2 ^ 50) lag) :
    esFl (ts1.map (· + c)) bx (ts2.map (· + c)) by_ tm lag = esFl ts1 bx ts2 by_ tm lag := by
  have m1 : ∀ t ∈ ts1.map (· + c), OnLat z (2 ^ 50) t := by
    intro t ht
    obtain ⟨u, hu, rfl⟩ := List.mem_map.1 ht
    exact ((h1 u hu).add hc).mono (by norm_num)
  have m2 : ∀ t ∈ ts2.map (· + c), OnLat z (2 ^ 50) t := by
    intro t ht
    obtain ⟨u, hu, rfl⟩ := List.mem_map.1 ht
    exact ((h2 u hu).add hc).mono (by norm_num)
  rw [es_float_lattice z _ _ bx by_ tm lag m1 m2 hl,
    es_float_lattice z ts1 ts2 bx by_ tm lag (fun t ht => (h1 t ht).mono (by norm_num))
      (fun t ht => (h2 t ht).mono (by norm_num)) hl]
  unfold esSeries
  rw [select_map, select_map]
  exact es_shift c _ _ tm lag

end Pyunicorn.Events
