import Pyunicorn.Lemmas.Geo
import Pyunicorn.Lemmas.GeoError
import Pyunicorn.Lemmas.GeoRound
import Pyunicorn.Lemmas.GeoRoundAng
import Pyunicorn.Lemmas.GeoRoundNN
import Pyunicorn.Lemmas.GeoHist
import Pyunicorn.Lemmas.GeoRegion
import Pyunicorn.Generated.StructC12
import Pyunicorn.Model.GeoArea
/-!
# C12 — Grid distances equal closed-form geometry and are metrics

Statements about the model `Pyunicorn.Geo` (`Model/Geo.lean`) of
`_calculate_angular_distance`, `_calculate_euclidean_distance`,
`GeoGrid.angular_distance`, `Grid.euclidean_distance`, `Grid.node_number`,
`GeoGrid.node_number`, `Grid.coord_sequence_from_rect_grid`,
`GeoNetwork.set_node_weight_type` and `*area_weighted_connectivity`.

The model is polymorphic in the number type.  Theorems marked *structural* hold
for **every** number type (hence also for the float32 arithmetic the compiled
kernel uses); the geometric theorems are stated over `ℝ`.  The float32 accuracy
clauses are theorems under the standard model of floating point arithmetic
(`StdRound`): Euclidean relative error `2⁻²⁰` (round 2), angular absolute error
`arccos (1 - η) + 2 ε` with `η ≈ 5u + 5.66 δ` from the unit roundoff `u`, the table
error `δ` and the radian-conversion error `ε` (round 3: `angular_entry_error_rounded`;
`3·2⁻¹¹` for the tables numpy produces, `2⁻¹⁰` for correctly rounded tables).  `δ`, `ε`
are measured by `harness/c12.py` on every run, and the property's `2⁻¹⁰` / relative
`2⁻¹⁷` bounds are sampled (partial).

The model is tied to the source by `harness/c12.py`: exact correspondence over
`Rat` at the kernel boundary (dyadic inputs), exact correspondence for lookups
and rectangular grids, `Float` correspondence under the stated tolerances.
-/
open InnerProductGeometry

namespace Pyunicorn.Geo

/-! ## the operations over `ℝ` and the points the coordinates denote -/

/-- `np.sin`, `np.cos`, `np.arccos`, `**0.5`, `x * np.pi / 180` as real functions -/
noncomputable def realTrig : Trig ℝ where
  sin := Real.sin
  cos := Real.cos
  arccos := Real.arccos
  sqrt := Real.sqrt
  rad := fun x => x * Real.pi / 180

/-- the point of the unit sphere with latitude `φ` and longitude `l` (radians) -/
noncomputable def unitVec (φ l : ℝ) : EuclideanSpace ℝ (Fin 3) :=
  !₂[Real.cos φ * Real.cos l, Real.cos φ * Real.sin l, Real.sin φ]

/-- the point of the sphere denoted by node `i` of a grid given in degrees -/
noncomputable def nodeVec (lat lon : Nat → ℝ) (i : Nat) : EuclideanSpace ℝ (Fin 3) :=
  unitVec (lat i * Real.pi / 180) (lon i * Real.pi / 180)

/-- node `i` of a `d`-dimensional Euclidean grid `x[k, i]` -/
noncomputable def pt (x : Nat → Nat → ℝ) (d i : Nat) : EuclideanSpace ℝ (Fin d) :=
  WithLp.toLp 2 fun k : Fin d => x k i

/-- a query point -/
noncomputable def qpt (q : Nat → ℝ) (d : Nat) : EuclideanSpace ℝ (Fin d) :=
  WithLp.toLp 2 fun k : Fin d => q k

theorem inner_unitVec (φ l ψ m : ℝ) :
    inner ℝ (unitVec φ l) (unitVec ψ m) =
      Real.sin φ * Real.sin ψ +
        Real.cos φ * Real.cos ψ * (Real.sin l * Real.sin m + Real.cos l * Real.cos m) := by
  simp [unitVec, PiLp.inner_apply, Fin.sum_univ_three]
  ring

theorem norm_unitVec (φ l : ℝ) : ‖unitVec φ l‖ = 1 := by
  have h : ‖unitVec φ l‖ ^ 2 = 1 := by
    rw [← real_inner_self_eq_norm_sq, inner_unitVec]
    have h1 := Real.sin_sq_add_cos_sq φ
    have h2 := Real.sin_sq_add_cos_sq l
    nlinarith
  have := norm_nonneg (unitVec φ l)
  nlinarith

/-! ## the angular kernel -/

section Structural
set_option linter.unusedSectionVars false
variable {α : Type} [Add α] [Mul α] [Sub α] [Neg α] [OfNat α 0] [OfNat α 1]
  [LT α] [DecidableLT α]

/-- *structural* — what the triangular loop leaves in the matrix: cell `(a, b)`
holds the clamped expression evaluated at `(max a b, min a b)`. -/
theorem cosAngKernel_apply (sl cl sn cn : Nat → α) (N a b : Nat) (ha : a < N) (hb : b < N) :
    cosAngKernel sl cl sn cn N a b = clamp (cosExpr sl cl sn cn (max a b) (min a b)) := by
  simp [cosAngKernel, fillSym_apply, ha, hb]

/-- *structural* — the cosine matrix is exactly symmetric, whatever the arithmetic. -/
theorem cosAngKernel_symm (sl cl sn cn : Nat → α) (N a b : Nat) :
    cosAngKernel sl cl sn cn N a b = cosAngKernel sl cl sn cn N b a := by
  simp only [cosAngKernel, fillSym_apply, Nat.max_comm a b, Nat.min_comm a b, and_comm]

/-- *structural* — `GeoGrid.angular_distance()` is exactly symmetric for every
number type and every implementation of the trigonometric functions. -/
theorem angularDistance_symm (T : Trig α) (lat lon : Nat → α) (N a b : Nat) :
    angularDistance T lat lon N a b = angularDistance T lat lon N b a := by
  simp only [angularDistance]
  rw [cosAngKernel_symm]

/-- *structural* — the Euclidean kernel's matrix, cell by cell -/
theorem euclKernel_apply (sqrt : α → α) (x : Nat → Nat → α) (d N a b : Nat)
    (ha : a < N) (hb : b < N) :
    euclKernel sqrt x d N a b = sqrt (sumsq x d (max a b) (min a b)) := by
  simp [euclKernel, fillSym_apply, ha, hb]

/-- *structural* (round 5) — reading the `N × N` block out of the filled matrix gives, cell by
cell, the loop body at `(max a b, min a b)`: the closed-form read-out `symBlock` the driver uses
for large grids is the fill -/
theorem fillSym_block {β : Type} (N : Nat) (f : Nat → Nat → β) (M : Nat → Nat → β) :
    toLists N (fillSym N f M) = symBlock N f := by
  unfold toLists symBlock
  apply List.map_congr_left
  intro a ha
  apply List.map_congr_left
  intro b hb
  rw [fillSym_apply, if_pos ⟨List.mem_range.1 ha, List.mem_range.1 hb⟩]

/-- the angular kernel's block, as answered by the driver for `N > 16` -/
theorem cosAngKernel_block (sl cl sn cn : Nat → α) (N : Nat) :
    toLists N (cosAngKernel sl cl sn cn N)
      = symBlock N (fun i j => clamp (cosExpr sl cl sn cn i j)) :=
  fillSym_block N _ _

/-- the Euclidean kernel's block -/
theorem euclKernel_block (sqrt : α → α) (x : Nat → Nat → α) (d N : Nat) :
    toLists N (euclKernel sqrt x d N) = symBlock N (fun i j => sqrt (sumsq x d i j)) :=
  fillSym_block N _ _

/-- *structural* — `Grid.euclidean_distance()` is exactly symmetric. -/
theorem euclideanDistance_symm (T : Trig α) (x : Nat → Nat → α) (d N a b : Nat) :
    euclideanDistance T x d N a b = euclideanDistance T x d N b a := by
  simp only [euclideanDistance, euclKernel, fillSym_apply, Nat.max_comm a b, Nat.min_comm a b,
    and_comm]

/-- cells outside the `N × N` block are never written (the loops stay inside) -/
theorem cosAngKernel_outside (sl cl sn cn : Nat → α) (N a b : Nat) (h : ¬ (a < N ∧ b < N)) :
    cosAngKernel sl cl sn cn N a b = 0 := by
  simp [cosAngKernel, fillSym_apply, h]

end Structural

example : cosAngKernel (fun _ => (1 : ℚ)) (fun _ => 1) (fun _ => 1) (fun _ => 1) 2 1 0 = 1 := by
  rw [cosAngKernel_apply _ _ _ _ 2 1 0 (by omega) (by omega)]
  simp [clamp, cosExpr]

section Clamp
set_option linter.unusedSectionVars false
variable {α : Type} [Field α] [LinearOrder α] [IsStrictOrderedRing α]

/-- the clamp is the identity on `[-1, 1]` — on exact values it changes nothing -/
theorem clamp_id (e : α) (h1 : -1 ≤ e) (h2 : e ≤ 1) : clamp e = e := by
  unfold clamp
  rw [if_neg (not_lt.2 h2), if_neg (not_lt.2 h1)]

/-- whatever the expression evaluates to, the clamped value lies in `[-1, 1]` -/
theorem clamp_mem (e : α) : -1 ≤ clamp e ∧ clamp e ≤ 1 := by
  unfold clamp
  have h : (-1 : α) ≤ 1 := by linarith [zero_lt_one (α := α)]
  split_ifs with h1 h2
  · exact ⟨h, le_refl _⟩
  · exact ⟨le_refl _, h⟩
  · exact ⟨not_lt.1 h2, not_lt.1 h1⟩

/-- every entry of the kernel's cosine matrix lies in `[-1, 1]` for arbitrary
(also inconsistent / rounded) sine and cosine tables -/
theorem cosAngKernel_mem (sl cl sn cn : Nat → α) (N a b : Nat) :
    -1 ≤ cosAngKernel sl cl sn cn N a b ∧ cosAngKernel sl cl sn cn N a b ≤ 1 := by
  by_cases h : a < N ∧ b < N
  · rw [cosAngKernel_apply _ _ _ _ N a b h.1 h.2]; exact clamp_mem _
  · rw [cosAngKernel_outside _ _ _ _ N a b h]
    constructor <;> linarith [zero_lt_one (α := α)]

/-- the two masked assignments of `GeoGrid.node_number` (`expr[expr < -1] = -1` first, then
`expr[expr > 1] = 1` on the modified array) compute the same clamp as the kernel's
`if … elif …` -/
theorem clampMask_eq_clamp (e : α) : clampMask e = clamp e := by
  unfold clampMask clamp
  have h : (-1 : α) < 1 := by linarith [zero_lt_one (α := α)]
  by_cases h1 : e < -1
  · have h2 : ¬ (1 : α) < e := by intro h2; linarith
    simp only [h1, if_true, h2, if_false, if_neg (not_lt.2 h.le)]
  · simp only [h1, if_false]

end Clamp

example : clamp (3 / 2 : ℚ) = 1 ∧ clamp (-3 / 2 : ℚ) = -1 ∧ clamp (1 / 2 : ℚ) = 1 / 2 := by
  refine ⟨?_, ?_, ?_⟩ <;> (unfold clamp; norm_num)

/-- the kernel expression on the sines / cosines of a grid is the inner product
of the nodes' unit vectors -/
theorem cosExpr_eq_inner (lat lon : Nat → ℝ) (i j : Nat) :
    cosExpr (fun i => Real.sin (lat i * Real.pi / 180)) (fun i => Real.cos (lat i * Real.pi / 180))
        (fun i => Real.sin (lon i * Real.pi / 180)) (fun i => Real.cos (lon i * Real.pi / 180)) i j
      = inner ℝ (nodeVec lat lon i) (nodeVec lat lon j) := by
  simp only [cosExpr, nodeVec, inner_unitVec]

/-- … and equals the textbook closed form `sin φᵢ sin φⱼ + cos φᵢ cos φⱼ cos(λᵢ − λⱼ)` -/
theorem cosExpr_closed_form (φ l : Nat → ℝ) (i j : Nat) :
    cosExpr (fun i => Real.sin (φ i)) (fun i => Real.cos (φ i))
        (fun i => Real.sin (l i)) (fun i => Real.cos (l i)) i j
      = Real.sin (φ i) * Real.sin (φ j) + Real.cos (φ i) * Real.cos (φ j) * Real.cos (l i - l j) := by
  simp only [cosExpr, Real.cos_sub]; ring

theorem abs_inner_nodeVec_le_one (lat lon : Nat → ℝ) (i j : Nat) :
    -1 ≤ inner ℝ (nodeVec lat lon i) (nodeVec lat lon j) ∧
      inner ℝ (nodeVec lat lon i) (nodeVec lat lon j) ≤ 1 := by
  have h := abs_real_inner_le_norm (nodeVec lat lon i) (nodeVec lat lon j)
  simp only [nodeVec, norm_unitVec, mul_one] at h
  exact abs_le.1 h

/-- **closed form**: over `ℝ` the entry `(a, b)` of `GeoGrid.angular_distance()` is the
angle between the two nodes' position vectors — the great-circle distance; in
particular the clamp never fires on exact values. -/
theorem angularDistance_eq_angle (lat lon : Nat → ℝ) (N a b : Nat) (ha : a < N) (hb : b < N) :
    angularDistance realTrig lat lon N a b = angle (nodeVec lat lon a) (nodeVec lat lon b) := by
  simp only [angularDistance, realTrig]
  rw [cosAngKernel_apply _ _ _ _ N a b ha hb, cosExpr_eq_inner]
  have hm := abs_inner_nodeVec_le_one lat lon (max a b) (min a b)
  rw [clamp_id _ hm.1 hm.2]
  have hsym : inner ℝ (nodeVec lat lon (max a b)) (nodeVec lat lon (min a b))
      = inner ℝ (nodeVec lat lon a) (nodeVec lat lon b) := by
    rcases Nat.le_total a b with h | h
    · rw [Nat.max_eq_right h, Nat.min_eq_left h, real_inner_comm]
    · rw [Nat.max_eq_left h, Nat.min_eq_right h]
  rw [hsym, angle]
  simp [nodeVec, norm_unitVec]

/-- the angular distance of a node to itself is zero (exact arithmetic) -/
theorem angularDistance_self (lat lon : Nat → ℝ) (N a : Nat) (ha : a < N) :
    angularDistance realTrig lat lon N a a = 0 := by
  rw [angularDistance_eq_angle lat lon N a a ha ha]
  apply angle_self
  intro h
  have := norm_unitVec (lat a * Real.pi / 180) (lon a * Real.pi / 180)
  simp only [nodeVec] at h
  rw [h, norm_zero] at this
  exact zero_ne_one this

/-- coincident nodes (same coordinates) are at distance zero -/
theorem angularDistance_coincident (lat lon : Nat → ℝ) (N a b : Nat) (ha : a < N) (hb : b < N)
    (h1 : lat a = lat b) (h2 : lon a = lon b) : angularDistance realTrig lat lon N a b = 0 := by
  rw [angularDistance_eq_angle lat lon N a b ha hb]
  have : nodeVec lat lon a = nodeVec lat lon b := by simp only [nodeVec, h1, h2]
  rw [this, ← angularDistance_eq_angle lat lon N b b hb hb, angularDistance_self lat lon N b hb]

/-- antipodal nodes (`-lat`, `lon + 180`) are at distance `π` -/
theorem angularDistance_antipodal (lat lon : Nat → ℝ) (N a b : Nat) (ha : a < N) (hb : b < N)
    (h1 : lat b = -lat a) (h2 : lon b = lon a + 180) :
    angularDistance realTrig lat lon N a b = Real.pi := by
  rw [angularDistance_eq_angle lat lon N a b ha hb]
  have hb' : nodeVec lat lon b = -nodeVec lat lon a := by
    simp only [nodeVec, unitVec, h1, h2]
    have e1 : (lon a + 180) * Real.pi / 180 = lon a * Real.pi / 180 + Real.pi := by ring
    have e2 : -lat a * Real.pi / 180 = -(lat a * Real.pi / 180) := by ring
    rw [e1, e2, Real.cos_neg, Real.sin_neg, Real.cos_add_pi, Real.sin_add_pi]
    ext k; fin_cases k <;> simp
  rw [hb']
  apply angle_self_neg_of_nonzero
  intro h
  have := norm_unitVec (lat a * Real.pi / 180) (lon a * Real.pi / 180)
  simp only [nodeVec] at h
  rw [h, norm_zero] at this
  exact zero_ne_one this

/-- angular distances lie in `[0, π]` — for *arbitrary* sine / cosine tables
(the clamp guarantees the argument of `arccos` is admissible) -/
theorem arccos_kernel_range (sl cl sn cn : Nat → ℝ) (N a b : Nat) :
    0 ≤ Real.arccos (cosAngKernel sl cl sn cn N a b) ∧
      Real.arccos (cosAngKernel sl cl sn cn N a b) ≤ Real.pi :=
  ⟨Real.arccos_nonneg _, Real.arccos_le_pi _⟩

theorem angularDistance_range (lat lon : Nat → ℝ) (N a b : Nat) :
    0 ≤ angularDistance realTrig lat lon N a b ∧ angularDistance realTrig lat lon N a b ≤ Real.pi :=
  ⟨Real.arccos_nonneg _, Real.arccos_le_pi _⟩

/-- **triangle inequality** on the sphere -/
theorem angularDistance_triangle (lat lon : Nat → ℝ) (N a b c : Nat)
    (ha : a < N) (hb : b < N) (hc : c < N) :
    angularDistance realTrig lat lon N a c
      ≤ angularDistance realTrig lat lon N a b + angularDistance realTrig lat lon N b c := by
  rw [angularDistance_eq_angle lat lon N a c ha hc, angularDistance_eq_angle lat lon N a b ha hb,
    angularDistance_eq_angle lat lon N b c hb hc]
  exact angle_le_angle_add_angle _ _ _

/-- the cosine of the distance is the closed form in degrees-to-radians converted coordinates -/
theorem cos_angularDistance (lat lon : Nat → ℝ) (N a b : Nat) (ha : a < N) (hb : b < N) :
    Real.cos (angularDistance realTrig lat lon N a b)
      = Real.sin (lat a * Real.pi / 180) * Real.sin (lat b * Real.pi / 180)
        + Real.cos (lat a * Real.pi / 180) * Real.cos (lat b * Real.pi / 180)
          * Real.cos (lon a * Real.pi / 180 - lon b * Real.pi / 180) := by
  rw [angularDistance_eq_angle lat lon N a b ha hb, cos_angle]
  simp only [nodeVec, norm_unitVec, mul_one, div_one, inner_unitVec, Real.cos_sub]
  ring

example : angularDistance realTrig (fun i => if i = 0 then 90 else -90)
    (fun i => if i = 0 then 0 else 180) 2 0 1 = Real.pi := by
  apply angularDistance_antipodal _ _ 2 0 1 (by omega) (by omega) <;> simp

/-! ## the Euclidean kernel -/

/-- *structural for rings* — `sumsq` of a node with itself is exactly zero in any
ring (so the diagonal is `sqrt 0`; in IEEE arithmetic `x - x = 0` for finite `x` too) -/
theorem sumsq_self {β : Type} [Ring β] (x : Nat → Nat → β) (d i : Nat) : sumsq x d i i = 0 := by
  unfold sumsq
  induction d with
  | zero => rfl
  | succ d ih => rw [List.range_succ, List.foldl_append, ih]; simp

theorem sqrt_sumsq_eq_dist (x : Nat → Nat → ℝ) (d i j : Nat) :
    Real.sqrt (sumsq x d i j) = dist (pt x d i) (pt x d j) := by
  rw [EuclideanSpace.dist_eq]
  unfold sumsq
  rw [foldl_add_eq_sum, Finset.sum_range]
  congr 1
  apply Finset.sum_congr rfl
  intro k _
  simp [pt, Real.dist_eq, sq]

/-- **closed form**: entry `(a, b)` of `Grid.euclidean_distance()` is `‖x_a − x_b‖` in
`ℝ^d`, any dimension `d`. -/
theorem euclideanDistance_eq_dist (x : Nat → Nat → ℝ) (d N a b : Nat) (ha : a < N) (hb : b < N) :
    euclideanDistance realTrig x d N a b = dist (pt x d a) (pt x d b) := by
  simp only [euclideanDistance, realTrig]
  rw [euclKernel_apply _ _ _ N a b ha hb, sqrt_sumsq_eq_dist]
  rcases Nat.le_total a b with h | h
  · rw [Nat.max_eq_right h, Nat.min_eq_left h, dist_comm]
  · rw [Nat.max_eq_left h, Nat.min_eq_right h]

theorem euclideanDistance_self (x : Nat → Nat → ℝ) (d N a : Nat) (ha : a < N) :
    euclideanDistance realTrig x d N a a = 0 := by
  rw [euclideanDistance_eq_dist x d N a a ha ha, dist_self]

theorem euclideanDistance_nonneg (x : Nat → Nat → ℝ) (d N a b : Nat) (ha : a < N) (hb : b < N) :
    0 ≤ euclideanDistance realTrig x d N a b := by
  rw [euclideanDistance_eq_dist x d N a b ha hb]; exact dist_nonneg

/-- distance zero exactly for nodes with identical coordinates -/
theorem euclideanDistance_eq_zero_iff (x : Nat → Nat → ℝ) (d N a b : Nat) (ha : a < N)
    (hb : b < N) :
    euclideanDistance realTrig x d N a b = 0 ↔ ∀ k < d, x k a = x k b := by
  rw [euclideanDistance_eq_dist x d N a b ha hb, dist_eq_zero]
  simp only [pt]
  constructor
  · intro h k hk
    have := congrArg (fun v : EuclideanSpace ℝ (Fin d) => v.ofLp ⟨k, hk⟩) h
    simpa using this
  · intro h
    congr 1
    funext k
    exact h k k.2

/-- **triangle inequality** in `ℝ^d` -/
theorem euclideanDistance_triangle (x : Nat → Nat → ℝ) (d N a b c : Nat)
    (ha : a < N) (hb : b < N) (hc : c < N) :
    euclideanDistance realTrig x d N a c
      ≤ euclideanDistance realTrig x d N a b + euclideanDistance realTrig x d N b c := by
  rw [euclideanDistance_eq_dist x d N a c ha hc, euclideanDistance_eq_dist x d N a b ha hb,
    euclideanDistance_eq_dist x d N b c hb hc]
  exact dist_triangle _ _ _

example : euclideanDistance realTrig (fun k i => if i = 0 then 0 else if k = 0 then 3 else 4) 2 2 0 1
    = dist (pt (fun k i => if i = 0 then 0 else if k = 0 then 3 else 4) 2 0)
        (pt (fun k i => if i = 0 then (0 : ℝ) else if k = 0 then 3 else 4) 2 1) :=
  euclideanDistance_eq_dist _ 2 2 0 1 (by omega) (by omega)

/-! ## the Euclidean accuracy clause under the standard model of floating point arithmetic

`rEuclKernel rnd pw` (Lemmas/GeoRound) is the *same* model `euclKernel`, instantiated with
operations that round their exact result: `a ⊕ b = rnd (a + b)`, `a ⊗ b = rnd (a * b)`,
`a ⊖ b = rnd (a - b)`, and `pw` for `expr ** 0.5`.  `StdRound rnd u` is the standard model
`|rnd v - v| ≤ u |v|` (IEEE round-to-nearest without overflow / underflow: `u = 2⁻²⁴` for
float32).  Under it the accuracy of the stored distances is a theorem, for every
dimension; what remains trusted is that the hardware / `powf` satisfy the model. -/

/-- every entry of the rounded kernel lies within the factors `(1 ∓ w) √((1 ∓ u)^(d+3))`
of the exact distance `‖x_a − x_b‖`, any dimension `d` -/
theorem euclidean_entry_rounded {rnd : ℝ → ℝ} {u w : ℝ} (h : StdRound rnd u) (pw : ℝ → ℝ)
    (hw0 : 0 ≤ w) (hw1 : w ≤ 1) (hpw : ∀ v, 0 ≤ v → |pw v - √v| ≤ w * √v)
    (x : Nat → Nat → ℝ) (d N a b : Nat) (ha : a < N) (hb : b < N) :
    (1 - w) * √((1 - u) ^ (d + 3)) * dist (pt x d a) (pt x d b) ≤ rEuclKernel rnd pw x d N a b ∧
      rEuclKernel rnd pw x d N a b ≤ (1 + w) * √((1 + u) ^ (d + 3)) * dist (pt x d a) (pt x d b) := by
  rw [rEuclKernel_apply rnd pw x d N a b ha hb]
  have hd : dist (pt x d a) (pt x d b) = √(sumsq x d (max a b) (min a b)) := by
    rw [sqrt_sumsq_eq_dist]
    rcases Nat.le_total a b with h | h
    · rw [Nat.max_eq_right h, Nat.min_eq_left h, dist_comm]
    · rw [Nat.max_eq_left h, Nat.min_eq_right h]
  rw [hd]
  exact rdist_bounds h pw hw0 hw1 hpw x d _ _

/-- **float32** (`u = 2⁻²⁴`, `powf` within one ulp: `w = 2⁻²³`), up to 6 dimensions: every
stored distance has relative error at most `2⁻²⁰` — the bound of the property statement
and of the oracle (`REL_EUC`) -/
theorem euclidean_entry_accuracy_float32 {rnd : ℝ → ℝ} (h : StdRound rnd (2⁻¹ ^ 24)) (pw : ℝ → ℝ)
    (hpw : ∀ v, 0 ≤ v → |pw v - √v| ≤ 2⁻¹ ^ 23 * √v)
    (x : Nat → Nat → ℝ) (d N a b : Nat) (hd : d ≤ 6) (ha : a < N) (hb : b < N) :
    |rEuclKernel rnd pw x d N a b - dist (pt x d a) (pt x d b)|
      ≤ 2⁻¹ ^ 20 * dist (pt x d a) (pt x d b) := by
  have hb' := euclidean_entry_rounded h pw (by norm_num) (by norm_num) hpw x d N a b ha hb
  have hf := float32_factors d hd
  have hD : 0 ≤ dist (pt x d a) (pt x d b) := dist_nonneg
  rw [abs_le]
  constructor
  · have := mul_le_mul_of_nonneg_right hf.1 hD
    linarith [hb'.1]
  · have := mul_le_mul_of_nonneg_right hf.2 hD
    linarith [hb'.2]

/-- in particular the diagonal (and every pair of nodes with identical coordinates) is
exactly zero also in rounded arithmetic -/
theorem euclidean_rounded_self {rnd : ℝ → ℝ} (h : StdRound rnd (2⁻¹ ^ 24)) (pw : ℝ → ℝ)
    (hpw : ∀ v, 0 ≤ v → |pw v - √v| ≤ 2⁻¹ ^ 23 * √v)
    (x : Nat → Nat → ℝ) (d N a : Nat) (hd : d ≤ 6) (ha : a < N) :
    rEuclKernel rnd pw x d N a a = 0 := by
  have := euclidean_entry_accuracy_float32 h pw hpw x d N a a hd ha ha
  rw [dist_self, mul_zero, sub_zero] at this
  exact abs_eq_zero.1 (le_antisymm this (abs_nonneg _))

/-- the standard model is satisfiable by a non-trivial rounding (here: exact arithmetic and a
rounding that shrinks by `2⁻²⁵`) -/
example : StdRound (fun v => v) (2⁻¹ ^ 24) ∧ StdRound (fun v => v * (1 - 2⁻¹ ^ 25)) (2⁻¹ ^ 24) := by
  refine ⟨⟨by norm_num, by norm_num, fun v => ?_⟩, ⟨by norm_num, by norm_num, fun v => ?_⟩⟩
  · simp only [sub_self, abs_zero]; positivity
  · have : v * (1 - 2⁻¹ ^ 25) - v = -(2⁻¹ ^ 25 * v) := by ring
    rw [this, abs_neg, abs_mul, abs_of_nonneg (by norm_num : (0 : ℝ) ≤ 2⁻¹ ^ 25)]
    exact mul_le_mul_of_nonneg_right (by norm_num) (abs_nonneg v)

/-! ## nearest-node lookup -/

section Lookup
variable {α : Type} [LinearOrder α]

/-- `argmin` returns an index of a minimal element, the first one among ties;
it fails exactly on the empty sequence. -/
theorem argminFirst_spec (l : List α) (k : Nat) (h : argminFirst l = some k) :
    ∃ v, l[k]? = some v ∧ (∀ y ∈ l, v ≤ y) ∧ (∀ m < k, ∀ y, l[m]? = some y → v < y) := by
  match l, h with
  | x :: xs, h =>
    simp only [argminFirst, Option.some.injEq] at h
    have := argminAux_spec xs [x] x 0 (by simp) (by simp) (by simp)
    simp only [List.length_singleton, List.singleton_append, h] at this
    simpa using this

theorem argminFirst_eq_none_iff (l : List α) : argminFirst l = none ↔ l = [] := by
  cases l <;> simp [argminFirst]

/-- replacing every value by its image under a map that is strictly monotone
on the values (e.g. `sqrt` on non-negative numbers) does not change the result -/
theorem argminFirst_map (g : α → α) (P : α → Prop)
    (hg : ∀ a b, P a → P b → (g a < g b ↔ a < b)) (l : List α) (hl : ∀ y ∈ l, P y) :
    argminFirst (l.map g) = argminFirst l := by
  cases l with
  | nil => rfl
  | cons x xs =>
    simp only [List.map_cons, argminFirst]
    rw [argminAux_map g P hg xs x 0 1 (hl x List.mem_cons_self)
      fun y hy => hl y (List.mem_cons_of_mem _ hy)]

end Lookup

example : argminFirst [3, 1, 2, 1, (5 : ℚ)] = some 1 := by decide

theorem qsumsq_eq (x : Nat → Nat → ℝ) (q : Nat → ℝ) (d i : Nat) :
    Real.sqrt (qsumsq x q d i) = dist (pt x d i) (qpt q d) := by
  rw [EuclideanSpace.dist_eq]
  unfold qsumsq
  rw [foldl_add_eq_sum, Finset.sum_range]
  congr 1
  apply Finset.sum_congr rfl
  intro k _
  simp [pt, qpt, Real.dist_eq, sq]

theorem qsumsq_nonneg (x : Nat → Nat → ℝ) (q : Nat → ℝ) (d i : Nat) : 0 ≤ qsumsq x q d i := by
  unfold qsumsq
  rw [foldl_add_eq_sum]
  exact Finset.sum_nonneg fun k _ => mul_self_nonneg _

/-- **`Grid.node_number`** returns a node at minimal Euclidean distance from the
query point, the first such node; it fails only for a grid without nodes. -/
theorem gridNodeNumber_spec (x : Nat → Nat → ℝ) (q : Nat → ℝ) (d N k : Nat)
    (h : gridNodeNumber Real.sqrt x q d N = some k) :
    k < N ∧ (∀ m < N, dist (pt x d k) (qpt q d) ≤ dist (pt x d m) (qpt q d)) ∧
      (∀ m < k, dist (pt x d k) (qpt q d) < dist (pt x d m) (qpt q d)) := by
  obtain ⟨v, hv, hmin, hfirst⟩ := argminFirst_spec _ k h
  have hk : k < N := by
    by_contra hk
    rw [List.getElem?_eq_none (by simpa using Nat.le_of_not_lt hk)] at hv
    cases hv
  have hv' : v = dist (pt x d k) (qpt q d) := by
    rw [List.getElem?_map, List.getElem?_range hk] at hv
    simp only [Option.map_some, Option.some.injEq] at hv
    rw [← hv, qsumsq_eq]
  subst hv'
  refine ⟨hk, ?_, ?_⟩
  · intro m hm
    rw [← qsumsq_eq x q d m]
    exact hmin _ (List.mem_map.2 ⟨m, List.mem_range.2 hm, rfl⟩)
  · intro m hm
    rw [← qsumsq_eq x q d m]
    apply hfirst m hm
    rw [List.getElem?_map, List.getElem?_range (by omega)]
    rfl

theorem gridNodeNumber_ne_none (x : Nat → Nat → ℝ) (q : Nat → ℝ) (d N : Nat) (hN : 0 < N) :
    gridNodeNumber Real.sqrt x q d N ≠ none := by
  unfold gridNodeNumber
  rw [Ne, argminFirst_eq_none_iff]
  intro h
  have := congrArg List.length h
  simp at this
  omega

/-- the square root is irrelevant for the decision: the lookup on squared
distances (what the exact `Rat` driver evaluates) returns the same node -/
theorem gridNodeNumber_mono (x : Nat → Nat → ℝ) (q : Nat → ℝ) (d N : Nat) :
    gridNodeNumber Real.sqrt x q d N = gridNodeNumber id x q d N := by
  unfold gridNodeNumber
  have := argminFirst_map Real.sqrt (fun a => 0 ≤ a)
    (fun a b ha _ => Real.sqrt_lt_sqrt_iff ha)
    ((List.range N).map fun i => qsumsq x q d i)
    (by intro y hy; obtain ⟨i, _, rfl⟩ := List.mem_map.1 hy; exact qsumsq_nonneg x q d i)
  simpa [List.map_map, Function.comp_def] using this

/-- **`GeoGrid.node_number`** returns a node at minimal great-circle distance from
the query point (first among ties). -/
theorem geoGridNodeNumber_spec (lat lon : Nat → ℝ) (latq lonq : ℝ) (N k : Nat)
    (h : geoGridNodeNumber realTrig lat lon latq lonq N = some k) :
    k < N ∧
      (∀ m < N, angle (nodeVec lat lon k) (unitVec (latq * Real.pi / 180) (lonq * Real.pi / 180))
        ≤ angle (nodeVec lat lon m) (unitVec (latq * Real.pi / 180) (lonq * Real.pi / 180))) ∧
      (∀ m < k, angle (nodeVec lat lon k) (unitVec (latq * Real.pi / 180) (lonq * Real.pi / 180))
        < angle (nodeVec lat lon m) (unitVec (latq * Real.pi / 180) (lonq * Real.pi / 180))) := by
  have key : ∀ i, Real.arccos (clamp (Real.sin (lat i * Real.pi / 180) * Real.sin (latq * Real.pi / 180)
        + Real.cos (lat i * Real.pi / 180) * Real.cos (latq * Real.pi / 180)
          * (Real.sin (lon i * Real.pi / 180) * Real.sin (lonq * Real.pi / 180)
            + Real.cos (lon i * Real.pi / 180) * Real.cos (lonq * Real.pi / 180))))
      = angle (nodeVec lat lon i) (unitVec (latq * Real.pi / 180) (lonq * Real.pi / 180)) := by
    intro i
    rw [← inner_unitVec]
    have hm := abs_real_inner_le_norm (unitVec (lat i * Real.pi / 180) (lon i * Real.pi / 180))
      (unitVec (latq * Real.pi / 180) (lonq * Real.pi / 180))
    simp only [norm_unitVec, mul_one] at hm
    rw [clamp_id _ (abs_le.1 hm).1 (abs_le.1 hm).2, angle]
    simp [nodeVec, norm_unitVec]
  simp only [geoGridNodeNumber, geoNodeNumber, realTrig, clampMask_eq_clamp, key] at h
  obtain ⟨v, hv, hmin, hfirst⟩ := argminFirst_spec _ k h
  have hk : k < N := by
    by_contra hk
    rw [List.getElem?_eq_none (by simpa using Nat.le_of_not_lt hk)] at hv
    cases hv
  rw [List.getElem?_map, List.getElem?_range hk] at hv
  simp only [Option.map_some, Option.some.injEq] at hv
  subst hv
  refine ⟨hk, ?_, ?_⟩
  · intro m hm
    exact hmin _ (List.mem_map.2 ⟨m, List.mem_range.2 hm, rfl⟩)
  · intro m hm
    apply hfirst m hm
    rw [List.getElem?_map, List.getElem?_range (by omega)]
    rfl

/-! ## from the exact theorems to "up to the same error"

The float32 implementation is within `ε` of the exact matrix entrywise (sampled
by the harness, not proved).  These two lemmas turn that bound into the slack
the property statement allows for the triangle inequality (`3 ε`) and for
lookups (`2 ε`); they are the constants the oracle in `harness/c12.py` uses. -/

/-- a matrix within `ε` of one obeying the triangle inequality obeys it up to `3 ε` -/
theorem triangle_of_close (D D' : Nat → Nat → ℝ) (ε : ℝ) (a b c : Nat)
    (hab : |D' a b - D a b| ≤ ε) (hbc : |D' b c - D b c| ≤ ε) (hac : |D' a c - D a c| ≤ ε)
    (h : D a c ≤ D a b + D b c) : D' a c ≤ D' a b + D' b c + 3 * ε := by
  have h1 := abs_le.1 hab
  have h2 := abs_le.1 hbc
  have h3 := abs_le.1 hac
  linarith [h1.1, h1.2, h2.1, h2.2, h3.1, h3.2]

/-- any matrix within `ε` of the exact angular distances satisfies the triangle
inequality up to `3 ε` -/
theorem angularDistance_triangle_approx (lat lon : Nat → ℝ) (N : Nat) (D' : Nat → Nat → ℝ) (ε : ℝ)
    (hclose : ∀ a < N, ∀ b < N, |D' a b - angularDistance realTrig lat lon N a b| ≤ ε)
    (a b c : Nat) (ha : a < N) (hb : b < N) (hc : c < N) :
    D' a c ≤ D' a b + D' b c + 3 * ε :=
  triangle_of_close _ D' ε a b c (hclose a ha b hb) (hclose b hb c hc) (hclose a ha c hc)
    (angularDistance_triangle lat lon N a b c ha hb hc)

/-- a minimiser of distances known only up to `ε` is within `2 ε` of the true minimum -/
theorem nearest_of_close (d d' : Nat → ℝ) (ε : ℝ) (N k : Nat)
    (hclose : ∀ m < N, |d' m - d m| ≤ ε) (hk : k < N) (hmin : ∀ m < N, d' k ≤ d' m) :
    ∀ m < N, d k ≤ d m + 2 * ε := by
  intro m hm
  have h1 := abs_le.1 (hclose k hk)
  have h2 := abs_le.1 (hclose m hm)
  linarith [hmin m hm, h1.1, h1.2, h2.1, h2.2]

example : (2 : ℝ) ≤ 1 + 1 + 3 * 1 := by
  have := triangle_of_close (fun _ _ => 1) (fun a b => if a = 0 ∧ b = 2 then 2 else 1) 1 0 1 2
    (by simp) (by simp) (by norm_num) (by norm_num)
  simpa using this

/-! ## rectangular grids -/

/-- a multi-index is valid when every component is below its axis' length -/
def ValidIdx (sizes idx : List Nat) : Prop := List.Forall₂ (· < ·) idx sizes

/-- every node of the rectangular grid carries a valid multi-index … -/
theorem nodeIdx_valid (sizes : List Nat) (n : Nat) (h : n < nNodes sizes) :
    ValidIdx sizes (nodeIdx sizes n) := by
  unfold nNodes at h
  have hpos : ∀ s ∈ swap01 sizes, 0 < s := fun s hs =>
    prod_pos_of_lt h s ((mem_swap01 sizes s).1 hs)
  have := forall₂_swap01 _ _ _ (decodeF_valid (swap01 sizes) n hpos)
  rwa [swap01_swap01] at this

/-- … different nodes carry different multi-indices … -/
theorem nodeIdx_injective (sizes : List Nat) (n m : Nat) (hn : n < nNodes sizes)
    (hm : m < nNodes sizes) (h : nodeIdx sizes n = nodeIdx sizes m) : n = m := by
  unfold nNodes at hn hm
  unfold nodeIdx at h
  have h' := congrArg swap01 h
  rw [swap01_swap01, swap01_swap01] at h'
  rw [← encode_decode (swap01 sizes) n (by rwa [prod_swap01]),
    ← encode_decode (swap01 sizes) m (by rwa [prod_swap01]), h']

/-- … and every element of the Cartesian product of the axes is the multi-index
of some node: **the grid enumerates the Cartesian product exactly once**. -/
theorem nodeIdx_surjective (sizes idx : List Nat) (h : ValidIdx sizes idx) :
    ∃ n, n < nNodes sizes ∧ nodeIdx sizes n = idx := by
  have hs : List.Forall₂ (· < ·) (swap01 idx) (swap01 sizes) := forall₂_swap01 _ _ _ h
  refine ⟨encodeF (swap01 sizes) (swap01 idx), ?_, ?_⟩
  · unfold nNodes; rw [← prod_swap01]; exact encode_lt _ _ hs
  · unfold nodeIdx; rw [decode_encode _ _ hs, swap01_swap01]

/-- the documented order for two axes (`lat_grid`, `lon_grid`): the first axis
varies slowest — `array([0, 0, 5, 5]), array([1, 2, 1, 2])` -/
theorem nodeIdx_two (a b n : Nat) : nodeIdx [a, b] n = [(n / b) % a, n % b] := by
  simp [nodeIdx, swap01, decodeF]

/-- entry `n` of the coordinate sequence of dimension `k` is the axis value at the
node's `k`-th index (no out-of-range access) -/
theorem rectGrid_entry {β : Type} (axes : List (List β)) (k n : Nat) (hk : k < axes.length)
    (hn : n < nNodes (axes.map List.length)) :
    ∃ i, ∃ hi : i < (axes[k]).length, (nodeIdx (axes.map List.length) n)[k]? = some i ∧
      ((rectGrid axes)[k]?.bind (·[n]?)) = some (some (axes[k][i])) := by
  have hv := nodeIdx_valid _ n hn
  have hlen : (nodeIdx (axes.map List.length) n).length = axes.length := by
    have := List.Forall₂.length_eq hv; simpa using this
  have hk' : k < (nodeIdx (axes.map List.length) n).length := by omega
  have hlt : (nodeIdx (axes.map List.length) n)[k] < (axes[k]).length := by
    have := List.Forall₂.get hv hk' (by simpa using hk)
    simpa using this
  refine ⟨(nodeIdx (axes.map List.length) n)[k], hlt, List.getElem?_eq_getElem hk', ?_⟩
  simp only [rectGrid]
  rw [List.getElem?_map, List.getElem?_range hk]
  simp only [Option.map_some, Option.bind_some]
  rw [List.getElem?_map, List.getElem?_range hn]
  simp only [Option.map_some, List.getElem?_eq_getElem hk, List.getElem?_eq_getElem hk',
    List.getElem?_eq_getElem hlt]

example : rectGrid [[0, 5], [1, 2, (3 : Int)]]
    = [[some 0, some 0, some 0, some 5, some 5, some 5],
       [some 1, some 2, some 3, some 1, some 2, some 3]] := by decide

/-! ## geographic node weights and area weighted connectivity -/

/-- `node_weight_type="surface"`: the weight of node `i` is the cosine of **its own** latitude -/
theorem nodeWeights_surface (lat : Nat → ℝ) (i : Nat) :
    nodeWeights realTrig .surface lat i = Real.cos (lat i * Real.pi / 180) := rfl

theorem nodeWeights_irrigation (lat : Nat → ℝ) (i : Nat) :
    nodeWeights realTrig .irrigation lat i = Real.cos (lat i * Real.pi / 180) ^ 2 := by
  simp [nodeWeights, realTrig, sq]

theorem nodeWeights_none (lat : Nat → ℝ) (i : Nat) : nodeWeights realTrig .none lat i = 1 := rfl

/-- for latitudes in `[-90, 90]` the surface weight lies in `[0, 1]`, and is
positive away from the poles -/
theorem nodeWeights_surface_range (lat : Nat → ℝ) (i : Nat) (h1 : -90 ≤ lat i) (h2 : lat i ≤ 90) :
    0 ≤ nodeWeights realTrig .surface lat i ∧ nodeWeights realTrig .surface lat i ≤ 1 := by
  rw [nodeWeights_surface]
  refine ⟨Real.cos_nonneg_of_neg_pi_div_two_le_of_le ?_ ?_, Real.cos_le_one _⟩
  · have := Real.pi_pos; nlinarith
  · have := Real.pi_pos; nlinarith

theorem sumTo_eq_sum (N : Nat) (f : Nat → ℝ) : sumTo N f = ∑ i ∈ Finset.range N, f i :=
  foldl_add_eq_sum f N

/-- in-AWC of node `j` = (Σᵢ cos(latᵢ)·A[i,j]) / Σᵢ cos(latᵢ): each neighbour `i`
contributes the cosine of its own latitude -/
theorem inAWC_eq (lat : Nat → ℝ) (A : Nat → Nat → ℝ) (N j : Nat) :
    inAWC realTrig lat A N j
      = (∑ i ∈ Finset.range N, Real.cos (lat i * Real.pi / 180) * A i j)
        / ∑ i ∈ Finset.range N, Real.cos (lat i * Real.pi / 180) := by
  simp only [inAWC, sumTo_eq_sum, realTrig]

theorem outAWC_eq (lat : Nat → ℝ) (A : Nat → Nat → ℝ) (N i : Nat) :
    outAWC realTrig lat A N i
      = (∑ j ∈ Finset.range N, A i j * Real.cos (lat j * Real.pi / 180))
        / ∑ i ∈ Finset.range N, Real.cos (lat i * Real.pi / 180) := by
  simp only [outAWC, sumTo_eq_sum, realTrig]

/-- AWC is the n.s.i. degree without the self-term, normalised by the total
weight: with `w = nodeWeights surface`, `inAWC j = Σᵢ wᵢ A[i,j] / Σᵢ wᵢ` -/
theorem inAWC_eq_weights (lat : Nat → ℝ) (A : Nat → Nat → ℝ) (N j : Nat) :
    inAWC realTrig lat A N j
      = (∑ i ∈ Finset.range N, nodeWeights realTrig .surface lat i * A i j)
        / ∑ i ∈ Finset.range N, nodeWeights realTrig .surface lat i := by
  rw [inAWC_eq]; rfl

/-- with 0/1 adjacency and non-negative weights AWC is a fraction of the total area -/
theorem inAWC_mem_unit (lat : Nat → ℝ) (A : Nat → Nat → ℝ) (N j : Nat)
    (hA : ∀ i < N, A i j = 0 ∨ A i j = 1)
    (hw : ∀ i < N, 0 ≤ Real.cos (lat i * Real.pi / 180))
    (hpos : 0 < ∑ i ∈ Finset.range N, Real.cos (lat i * Real.pi / 180)) :
    0 ≤ inAWC realTrig lat A N j ∧ inAWC realTrig lat A N j ≤ 1 := by
  rw [inAWC_eq]
  constructor
  · apply div_nonneg _ hpos.le
    apply Finset.sum_nonneg
    intro i hi
    have hi' := Finset.mem_range.1 hi
    rcases hA i hi' with h | h <;> rw [h] <;> simp [hw i hi']
  · rw [div_le_one hpos]
    apply Finset.sum_le_sum
    intro i hi
    have hi' := Finset.mem_range.1 hi
    rcases hA i hi' with h | h <;> rw [h] <;> simp [hw i hi']

/-- a node linked from every node (incl. itself) sees the whole area -/
theorem inAWC_full (lat : Nat → ℝ) (A : Nat → Nat → ℝ) (N j : Nat) (hA : ∀ i < N, A i j = 1)
    (hpos : 0 < ∑ i ∈ Finset.range N, Real.cos (lat i * Real.pi / 180)) :
    inAWC realTrig lat A N j = 1 := by
  rw [inAWC_eq, div_eq_one_iff_eq hpos.ne']
  apply Finset.sum_congr rfl
  intro i hi
  rw [hA i (Finset.mem_range.1 hi), mul_one]

/-! ## the accuracy clause: from an error of the stored cosine to the error of the angle

What the compiled kernel stores in cell `(a, b)` is a float32 value `c'` of the expression
`cosExpr`; the exact value is the inner product `c = ⟨v_a, v_b⟩ ∈ [-1, 1]`.  The theorems
below are the analytic half of the property's accuracy clause: **if** `|c' - c| ≤ η`
**then** the angle returned is within `arccos (1 - η)` of the great-circle distance
(`< 2⁻¹⁰` rad for `η ≤ 2⁻²¹ - 2⁻³⁹`) — everywhere, also for coincident and antipodal pairs
and on the diagonal — and within `π / (2 sin m) · η` where both angles lie in
`[m, π - m]`.  The bound `η` on the float32 evaluation itself is what remains sampled
(`harness/c12.py` measures it on every run: `cosine_error_observed`). -/

/-- **absolute accuracy**: a stored cosine within `η` of the exact inner product gives an
angle within `arccos (1 - η)` of the great-circle distance, whatever the pair. -/
theorem angular_entry_abs_error (lat lon : Nat → ℝ) (N a b : Nat) (ha : a < N) (hb : b < N)
    (c' η : ℝ) (hc : |c' - inner ℝ (nodeVec lat lon a) (nodeVec lat lon b)| ≤ η) :
    |Real.arccos (clamp c') - angularDistance realTrig lat lon N a b| ≤ Real.arccos (1 - η) := by
  have hm := abs_inner_nodeVec_le_one lat lon a b
  have hcl := clamp_mem c'
  have hE : angularDistance realTrig lat lon N a b
      = Real.arccos (inner ℝ (nodeVec lat lon a) (nodeVec lat lon b)) := by
    rw [angularDistance_eq_angle lat lon N a b ha hb, angle]
    simp [nodeVec, norm_unitVec]
  rw [hE]
  exact arccos_sub_le _ _ η hcl.1 hcl.2 hm.1 hm.2
    (le_trans (clamp_close c' _ hm.1 hm.2) hc)

/-- … which is below the property's `2⁻¹⁰` rad as soon as `η ≤ 2⁻²¹ - 2⁻³⁹`. -/
theorem angular_entry_abs_error_bound (lat lon : Nat → ℝ) (N a b : Nat) (ha : a < N) (hb : b < N)
    (c' η : ℝ) (hc : |c' - inner ℝ (nodeVec lat lon a) (nodeVec lat lon b)| ≤ η)
    (hη : η ≤ 2⁻¹ ^ 21 - 2⁻¹ ^ 39) :
    |Real.arccos (clamp c') - angularDistance realTrig lat lon N a b| < 2⁻¹ ^ 10 :=
  lt_of_le_of_lt (angular_entry_abs_error lat lon N a b ha hb c' η hc) (arccos_one_sub_lt η hη)

/-- **self distance "at most that error"**: on the diagonal the exact cosine is `1`, so a
stored value within `η` of `1` gives a self-distance in `[0, arccos (1 - η)]`. -/
theorem angular_self_error (c' η : ℝ) (hc : |c' - 1| ≤ η) :
    0 ≤ Real.arccos (clamp c') ∧ Real.arccos (clamp c') ≤ Real.arccos (1 - η) := by
  refine ⟨Real.arccos_nonneg _, ?_⟩
  have hcl := clamp_mem c'
  have h := arccos_sub_le (clamp c') 1 η hcl.1 hcl.2 (by norm_num) le_rfl
    (le_trans (clamp_close c' 1 (by norm_num) le_rfl) hc)
  rw [Real.arccos_one, sub_zero, abs_of_nonneg (Real.arccos_nonneg _)] at h
  exact h

/-- **accuracy away from coincident and antipodal pairs**: if the exact angle and the
computed one both lie in `[m, π - m]`, the error is linear in the cosine error:
`≤ π / (2 sin m) · η`, i.e. a relative error `≤ π η / (2 m sin m)`. -/
theorem angular_entry_mid_error (lat lon : Nat → ℝ) (N a b : Nat) (ha : a < N) (hb : b < N)
    (c' η m : ℝ) (hc : |c' - inner ℝ (nodeVec lat lon a) (nodeVec lat lon b)| ≤ η) (hm : 0 < m)
    (h1 : m ≤ angularDistance realTrig lat lon N a b)
    (h2 : angularDistance realTrig lat lon N a b ≤ Real.pi - m)
    (h3 : m ≤ Real.arccos (clamp c')) (h4 : Real.arccos (clamp c') ≤ Real.pi - m) :
    |Real.arccos (clamp c') - angularDistance realTrig lat lon N a b|
      ≤ Real.pi / (2 * Real.sin m) * η := by
  have hi := abs_inner_nodeVec_le_one lat lon a b
  have hcl := clamp_mem c'
  have hE : angularDistance realTrig lat lon N a b
      = Real.arccos (inner ℝ (nodeVec lat lon a) (nodeVec lat lon b)) := by
    rw [angularDistance_eq_angle lat lon N a b ha hb, angle]
    simp [nodeVec, norm_unitVec]
  rw [hE] at h1 h2 ⊢
  refine le_trans (arccos_sub_le_mid _ _ m hcl.1 hcl.2 hi.1 hi.2 hm h3 h4 h1 h2) ?_
  have hs : 0 < Real.sin m :=
    Real.sin_pos_of_pos_of_lt_pi hm (by linarith [Real.arccos_nonneg (clamp c')])
  apply mul_le_mul_of_nonneg_left (le_trans (clamp_close c' _ hi.1 hi.2) hc)
  exact div_nonneg Real.pi_pos.le (by linarith)

/-- **both regimes combined** — the form whose hypotheses the harness measures on every run
(`cosine_error_observed`): all stored cosines are within `ηall` of the exact ones, those of
pairs whose exact or computed angle lies outside `[m, π - m]` (near-coincident /
near-antipodal pairs, the diagonal) even within `ηend`; then every entry is within
`max (arccos (1 - ηend)) (π / (2 sin m) · ηall)` of the great-circle distance. -/
theorem angular_entry_error_combined (lat lon : Nat → ℝ) (N a b : Nat) (ha : a < N) (hb : b < N)
    (c' ηall ηend m bound : ℝ) (hm : 0 < m)
    (hc : |c' - inner ℝ (nodeVec lat lon a) (nodeVec lat lon b)| ≤ ηall)
    (hend : ¬ (m ≤ angularDistance realTrig lat lon N a b ∧
          angularDistance realTrig lat lon N a b ≤ Real.pi - m ∧
          m ≤ Real.arccos (clamp c') ∧ Real.arccos (clamp c') ≤ Real.pi - m) →
        |c' - inner ℝ (nodeVec lat lon a) (nodeVec lat lon b)| ≤ ηend)
    (h1 : Real.arccos (1 - ηend) ≤ bound) (h2 : Real.pi / (2 * Real.sin m) * ηall ≤ bound) :
    |Real.arccos (clamp c') - angularDistance realTrig lat lon N a b| ≤ bound := by
  by_cases hmid : m ≤ angularDistance realTrig lat lon N a b ∧
      angularDistance realTrig lat lon N a b ≤ Real.pi - m ∧
      m ≤ Real.arccos (clamp c') ∧ Real.arccos (clamp c') ≤ Real.pi - m
  · exact le_trans (angular_entry_mid_error lat lon N a b ha hb c' ηall m hc hm hmid.1 hmid.2.1
      hmid.2.2.1 hmid.2.2.2) h2
  · exact le_trans (angular_entry_abs_error lat lon N a b ha hb c' ηend (hend hmid)) h1

/-- a whole matrix of stored cosines within `η ≤ 2⁻²¹ - 2⁻³⁹` of the exact ones yields
distances that obey the triangle inequality up to `3 · 2⁻¹⁰` — the slack the oracle uses. -/
theorem angular_triangle_of_cos_error (lat lon : Nat → ℝ) (N : Nat) (C' : Nat → Nat → ℝ) (η : ℝ)
    (hη : η ≤ 2⁻¹ ^ 21 - 2⁻¹ ^ 39)
    (hC : ∀ a < N, ∀ b < N, |C' a b - inner ℝ (nodeVec lat lon a) (nodeVec lat lon b)| ≤ η)
    (a b c : Nat) (ha : a < N) (hb : b < N) (hc : c < N) :
    Real.arccos (clamp (C' a c))
      ≤ Real.arccos (clamp (C' a b)) + Real.arccos (clamp (C' b c)) + 3 * 2⁻¹ ^ 10 :=
  angularDistance_triangle_approx lat lon N (fun a b => Real.arccos (clamp (C' a b))) _
    (fun a ha b hb => (angular_entry_abs_error_bound lat lon N a b ha hb _ η (hC a ha b hb) hη).le)
    a b c ha hb hc

example : |Real.arccos (clamp (1 + 2⁻¹ ^ 22 : ℝ)) - 0| < 2⁻¹ ^ 10 := by
  have h := angular_self_error (1 + 2⁻¹ ^ 22) (2⁻¹ ^ 22) (by norm_num [abs_of_nonneg])
  have := arccos_one_sub_lt (2⁻¹ ^ 22) (by norm_num)
  rw [sub_zero, abs_of_nonneg h.1]
  linarith [h.2]

/-! ## round 3: the bound `η` itself, under the standard model of floating point arithmetic

`rCosAngKernel rnd` (Lemmas/GeoRoundAng) is the *same* model `cosAngKernel`, instantiated with
operations that round their exact result.  What the kernel is handed are float32 tables:
`sin` / `cos` evaluated in single precision at the single-precision radians
`φ' i ≈ lat i · π / 180`, `l' i ≈ lon i · π / 180`.  The three elementary error sources are

* `u`  — unit roundoff of the kernel's `+`, `*` (standard model; trusted for the hardware),
* `δ`  — absolute error of a table entry against `sin` / `cos` of the radian value it was
         computed from (measured on every run: `table_error_observed`, ≈ 1.2 · 2⁻²⁴),
* `εφ`, `εl` — error of the degree → radian conversion (measured: ≤ 2⁻¹⁸·⁶ for |lon| ≤ 720°).

The conversion error moves the *points* (and hence every distance by at most `2 (εφ + εl)`,
by the triangle inequality on the sphere) — it does not pass through the square-root
singularity of `arccos`; only `u` and `δ` do, through
`η = ((1+u)⁵ - 1)(1+3δ)² + 5.66 δ + 11 δ²`. -/

theorem arccos_cos_le_abs (x : ℝ) : Real.arccos (Real.cos x) ≤ |x| := by
  by_cases h : |x| ≤ Real.pi
  · rw [← Real.cos_abs x, Real.arccos_cos (abs_nonneg x) h]
  · exact le_trans (Real.arccos_le_pi _) (le_of_lt (not_le.1 h))

theorem angle_unitVec (φ l ψ m : ℝ) :
    angle (unitVec φ l) (unitVec ψ m) = Real.arccos (inner ℝ (unitVec φ l) (unitVec ψ m)) := by
  simp [angle, norm_unitVec]

/-- moving a point of the sphere by `Δφ` in latitude and `Δl` in longitude moves it by an
angle of at most `|Δφ| + |Δl|` -/
theorem angle_unitVec_le (φ l φ' l' : ℝ) :
    angle (unitVec φ l) (unitVec φ' l') ≤ |φ - φ'| + |l - l'| := by
  have h1 : angle (unitVec φ l) (unitVec φ' l) ≤ |φ - φ'| := by
    rw [angle_unitVec, inner_unitVec]
    have e : Real.sin l * Real.sin l + Real.cos l * Real.cos l = 1 := by
      nlinarith [Real.sin_sq_add_cos_sq l]
    have : Real.sin φ * Real.sin φ' + Real.cos φ * Real.cos φ' *
        (Real.sin l * Real.sin l + Real.cos l * Real.cos l) = Real.cos (φ - φ') := by
      rw [e, Real.cos_sub]; ring
    rw [this]; exact arccos_cos_le_abs _
  have h2 : angle (unitVec φ' l) (unitVec φ' l') ≤ |l - l'| := by
    rw [angle_unitVec, inner_unitVec]
    refine le_trans (Real.antitone_arccos ?_) (arccos_cos_le_abs (l - l'))
    have hc : Real.cos (l - l') ≤ 1 := Real.cos_le_one _
    rw [Real.cos_sub] at hc ⊢
    nlinarith [Real.sin_sq_add_cos_sq φ', sq_nonneg (Real.sin φ')]
  exact le_trans (angle_le_angle_add_angle _ _ _) (add_le_add h1 h2)

/-- angles between two pairs of points differ by at most the displacements of the points -/
theorem angle_perturb {E : Type*} [NormedAddCommGroup E] [InnerProductSpace ℝ E] (v w v' w' : E) :
    |angle v' w' - angle v w| ≤ angle v v' + angle w w' := by
  have h1 := angle_le_angle_add_angle v' v w'
  have h2 := angle_le_angle_add_angle v w w'
  have h3 := angle_le_angle_add_angle v v' w
  have h4 := angle_le_angle_add_angle v' w' w
  rw [angle_comm v' v] at h1
  rw [angle_comm w' w] at h4
  rw [abs_le]
  constructor <;> linarith

/-- `arccos (1 - η) ≤ t` for `η ≤ t²/2 - 5t⁴/96`, `0 ≤ t ≤ 1` (Taylor bound of the cosine) -/
theorem arccos_one_sub_le_of_sq (η t : ℝ) (ht0 : 0 ≤ t) (ht1 : t ≤ 1)
    (h : η ≤ t ^ 2 / 2 - t ^ 4 * (5 / 96)) : Real.arccos (1 - η) ≤ t := by
  have hb := (abs_le.1 (Real.cos_bound (abs_le.2 ⟨by linarith, ht1⟩))).2
  rw [abs_of_nonneg ht0] at hb
  exact arccos_one_sub_le η t ht0 (by linarith [Real.two_le_pi]) (by linarith)

/-- the cosine the rounded kernel stores for the pair `(i, j)` is within
`η = ((1+u)⁵ - 1)(1+3δ)² + 5.66 δ + 11 δ²` of the inner product of the points the tables
were computed from -/
theorem rCosExpr_total_error {rnd : ℝ → ℝ} {u : ℝ} (h : StdRound rnd u)
    (φ' l' sl cl sn cn : Nat → ℝ) (δ : ℝ) (hδ : δ ≤ 1 / 16)
    (hsl : ∀ i, |sl i - Real.sin (φ' i)| ≤ δ) (hcl : ∀ i, |cl i - Real.cos (φ' i)| ≤ δ)
    (hsn : ∀ i, |sn i - Real.sin (l' i)| ≤ δ) (hcn : ∀ i, |cn i - Real.cos (l' i)| ≤ δ)
    (i j : Nat) :
    |rCosExpr rnd sl cl sn cn i j - inner ℝ (unitVec (φ' i) (l' i)) (unitVec (φ' j) (l' j))|
      ≤ ((1 + u) ^ 5 - 1) * (1 + 3 * δ) ^ 2 + (566 / 100 * δ + 11 * δ ^ 2) := by
  have hδ0 : 0 ≤ δ := le_trans (abs_nonneg _) (hsl 0)
  have hA := rCosExpr_error h (by linarith : (0 : ℝ) ≤ 3 * δ) sl cl sn cn
    (fun i => table_norm_le (φ' i) (sl i) (cl i) δ hδ (hsl i) (hcl i))
    (fun i => table_norm_le (l' i) (sn i) (cn i) δ hδ (hsn i) (hcn i)) i j
  have hB := cosExpr_table_error φ' l' sl cl sn cn δ hδ hsl hcl hsn hcn i j
  have e : inner ℝ (unitVec (φ' i) (l' i)) (unitVec (φ' j) (l' j))
      = cosExpr (fun i => Real.sin (φ' i)) (fun i => Real.cos (φ' i))
          (fun i => Real.sin (l' i)) (fun i => Real.cos (l' i)) i j := by
    rw [inner_unitVec]; rfl
  rw [e]
  have := abs_sub_le (rCosExpr rnd sl cl sn cn i j) (cosExpr sl cl sn cn i j)
    (cosExpr (fun i => Real.sin (φ' i)) (fun i => Real.cos (φ' i))
      (fun i => Real.sin (l' i)) (fun i => Real.cos (l' i)) i j)
  linarith

/-- **the accuracy clause for the rounded kernel, every pair** (incl. coincident, antipodal,
the diagonal): with every `+`, `*` of the kernel rounded (`u`), table entries within `δ` of
`sin` / `cos` of radian values `φ' i`, `l' i` that are within `εφ`, `εl` of the exact
radians of the stored coordinates, the returned angle is within
`arccos (1 - η) + 2 (εφ + εl)` of the great-circle distance. -/
theorem angular_entry_error_rounded {rnd : ℝ → ℝ} {u : ℝ} (h : StdRound rnd u)
    (lat lon φ' l' sl cl sn cn : Nat → ℝ) (δ εφ εl : ℝ) (hδ : δ ≤ 1 / 16)
    (hsl : ∀ i, |sl i - Real.sin (φ' i)| ≤ δ) (hcl : ∀ i, |cl i - Real.cos (φ' i)| ≤ δ)
    (hsn : ∀ i, |sn i - Real.sin (l' i)| ≤ δ) (hcn : ∀ i, |cn i - Real.cos (l' i)| ≤ δ)
    (hφ : ∀ i, |φ' i - lat i * Real.pi / 180| ≤ εφ) (hl : ∀ i, |l' i - lon i * Real.pi / 180| ≤ εl)
    (N a b : Nat) (ha : a < N) (hb : b < N) :
    |Real.arccos (rCosAngKernel rnd sl cl sn cn N a b) - angularDistance realTrig lat lon N a b|
      ≤ Real.arccos (1 - (((1 + u) ^ 5 - 1) * (1 + 3 * δ) ^ 2 + (566 / 100 * δ + 11 * δ ^ 2)))
        + 2 * (εφ + εl) := by
  -- the statement for an ordered pair of indices
  have key : ∀ i j, |Real.arccos (clamp (rCosExpr rnd sl cl sn cn i j))
        - angle (nodeVec lat lon i) (nodeVec lat lon j)|
      ≤ Real.arccos (1 - (((1 + u) ^ 5 - 1) * (1 + 3 * δ) ^ 2 + (566 / 100 * δ + 11 * δ ^ 2)))
        + 2 * (εφ + εl) := by
    intro i j
    have hc := rCosExpr_total_error h φ' l' sl cl sn cn δ hδ hsl hcl hsn hcn i j
    set c'' := inner ℝ (unitVec (φ' i) (l' i)) (unitVec (φ' j) (l' j)) with hc''
    have hm : -1 ≤ c'' ∧ c'' ≤ 1 := by
      have := abs_real_inner_le_norm (unitVec (φ' i) (l' i)) (unitVec (φ' j) (l' j))
      simp only [norm_unitVec, mul_one] at this
      exact abs_le.1 this
    have hcl' := clamp_mem (rCosExpr rnd sl cl sn cn i j)
    have h1 := arccos_sub_le _ _ _ hcl'.1 hcl'.2 hm.1 hm.2
      (le_trans (clamp_close _ c'' hm.1 hm.2) hc)
    rw [hc'', ← angle_unitVec] at h1
    have h2 := angle_perturb (nodeVec lat lon i) (nodeVec lat lon j)
      (unitVec (φ' i) (l' i)) (unitVec (φ' j) (l' j))
    have h3 : ∀ k, angle (nodeVec lat lon k) (unitVec (φ' k) (l' k)) ≤ εφ + εl := by
      intro k
      refine le_trans (angle_unitVec_le _ _ _ _) ?_
      have := hφ k; have := hl k
      rw [abs_sub_comm] at *
      linarith [hφ k, hl k, abs_sub_comm (φ' k) (lat k * Real.pi / 180),
        abs_sub_comm (l' k) (lon k * Real.pi / 180)]
    have := abs_sub_le (Real.arccos (clamp (rCosExpr rnd sl cl sn cn i j)))
      (angle (unitVec (φ' i) (l' i)) (unitVec (φ' j) (l' j)))
      (angle (nodeVec lat lon i) (nodeVec lat lon j))
    linarith [h3 i, h3 j]
  rw [rCosAngKernel_apply rnd sl cl sn cn N a b ha hb, angularDistance_eq_angle lat lon N a b ha hb]
  rcases Nat.le_total a b with hab | hab
  · rw [Nat.max_eq_right hab, Nat.min_eq_left hab, angle_comm]; exact key b a
  · rw [Nat.max_eq_left hab, Nat.min_eq_right hab]; exact key a b

/-- **float32, tables within 1.5 units in the last place of 1** (`u = 2⁻²⁴`, `δ ≤ 3·2⁻²⁵` —
numpy documents < 1.5 ulp for its single-precision `sin` / `cos`; the harness measures
≈ 1.2·2⁻²⁴ on every run — and radian conversion within `2⁻¹⁷`, which covers
longitudes up to ±1440°): every entry of the distance
matrix is within `3·2⁻¹¹ = 1.5·2⁻¹⁰` rad of the great-circle distance.  This is what a
worst-case analysis can give for such tables (`η ≈ 13.5 u`, `√(2η) ≈ 1.3·2⁻¹⁰`); the
property's `2⁻¹⁰` needs `δ ≤ 2⁻²⁵` (next theorem) and is otherwise what the run measures. -/
theorem angular_entry_accuracy_float32 {rnd : ℝ → ℝ} (h : StdRound rnd (2⁻¹ ^ 24))
    (lat lon φ' l' sl cl sn cn : Nat → ℝ) (δ εφ εl : ℝ) (hδ : δ ≤ 3 * 2⁻¹ ^ 25)
    (hε : εφ + εl ≤ 2⁻¹ ^ 17)
    (hsl : ∀ i, |sl i - Real.sin (φ' i)| ≤ δ) (hcl : ∀ i, |cl i - Real.cos (φ' i)| ≤ δ)
    (hsn : ∀ i, |sn i - Real.sin (l' i)| ≤ δ) (hcn : ∀ i, |cn i - Real.cos (l' i)| ≤ δ)
    (hφ : ∀ i, |φ' i - lat i * Real.pi / 180| ≤ εφ) (hl : ∀ i, |l' i - lon i * Real.pi / 180| ≤ εl)
    (N a b : Nat) (ha : a < N) (hb : b < N) :
    |Real.arccos (rCosAngKernel rnd sl cl sn cn N a b) - angularDistance realTrig lat lon N a b|
      < 3 * 2⁻¹ ^ 11 := by
  have hδ0 : 0 ≤ δ := le_trans (abs_nonneg _) (hsl 0)
  have hmain := angular_entry_error_rounded h lat lon φ' l' sl cl sn cn δ εφ εl
    (le_trans hδ (by norm_num)) hsl hcl hsn hcn hφ hl N a b ha hb
  have hη : ((1 + (2⁻¹ : ℝ) ^ 24) ^ 5 - 1) * (1 + 3 * δ) ^ 2 + (566 / 100 * δ + 11 * δ ^ 2)
      ≤ ((1 + (2⁻¹ : ℝ) ^ 24) ^ 5 - 1) * (1 + 3 * (3 * 2⁻¹ ^ 25)) ^ 2
        + (566 / 100 * (3 * 2⁻¹ ^ 25) + 11 * (3 * 2⁻¹ ^ 25) ^ 2) := by
    have : (0 : ℝ) ≤ (1 + 2⁻¹ ^ 24) ^ 5 - 1 := by norm_num
    gcongr
  have ht := arccos_one_sub_le_of_sq _ (3 * 2⁻¹ ^ 11 - 2⁻¹ ^ 15) (by norm_num) (by norm_num)
    (le_trans hη (by norm_num))
  linarith

/-- **float32 with correctly rounded tables** (`δ ≤ 2⁻²⁵`; conversion within `2⁻¹⁹`: |lon| ≤ 360°): the property's bound — every
entry within `2⁻¹⁰` rad of the great-circle distance, anywhere on the sphere. -/
theorem angular_entry_accuracy_float32_cr {rnd : ℝ → ℝ} (h : StdRound rnd (2⁻¹ ^ 24))
    (lat lon φ' l' sl cl sn cn : Nat → ℝ) (δ εφ εl : ℝ) (hδ : δ ≤ 2⁻¹ ^ 25)
    (hε : εφ + εl ≤ 2⁻¹ ^ 19)
    (hsl : ∀ i, |sl i - Real.sin (φ' i)| ≤ δ) (hcl : ∀ i, |cl i - Real.cos (φ' i)| ≤ δ)
    (hsn : ∀ i, |sn i - Real.sin (l' i)| ≤ δ) (hcn : ∀ i, |cn i - Real.cos (l' i)| ≤ δ)
    (hφ : ∀ i, |φ' i - lat i * Real.pi / 180| ≤ εφ) (hl : ∀ i, |l' i - lon i * Real.pi / 180| ≤ εl)
    (N a b : Nat) (ha : a < N) (hb : b < N) :
    |Real.arccos (rCosAngKernel rnd sl cl sn cn N a b) - angularDistance realTrig lat lon N a b|
      < 2⁻¹ ^ 10 := by
  have hδ0 : 0 ≤ δ := le_trans (abs_nonneg _) (hsl 0)
  have hmain := angular_entry_error_rounded h lat lon φ' l' sl cl sn cn δ εφ εl
    (le_trans hδ (by norm_num)) hsl hcl hsn hcn hφ hl N a b ha hb
  have hη : ((1 + (2⁻¹ : ℝ) ^ 24) ^ 5 - 1) * (1 + 3 * δ) ^ 2 + (566 / 100 * δ + 11 * δ ^ 2)
      ≤ ((1 + (2⁻¹ : ℝ) ^ 24) ^ 5 - 1) * (1 + 3 * (2⁻¹ ^ 25)) ^ 2
        + (566 / 100 * (2⁻¹ ^ 25) + 11 * (2⁻¹ ^ 25) ^ 2) := by
    have : (0 : ℝ) ≤ (1 + 2⁻¹ ^ 24) ^ 5 - 1 := by norm_num
    gcongr
  have ht := arccos_one_sub_le_of_sq _ (2⁻¹ ^ 10 - 2⁻¹ ^ 17) (by norm_num) (by norm_num)
    (le_trans hη (by norm_num))
  linarith

/-- the diagonal ("at most that error"): the self-distance of every node is at most
`arccos (1 - η)` — the conversion error plays no role, the same tables enter twice -/
theorem angular_self_error_rounded {rnd : ℝ → ℝ} {u : ℝ} (h : StdRound rnd u)
    (φ' l' sl cl sn cn : Nat → ℝ) (δ : ℝ) (hδ : δ ≤ 1 / 16)
    (hsl : ∀ i, |sl i - Real.sin (φ' i)| ≤ δ) (hcl : ∀ i, |cl i - Real.cos (φ' i)| ≤ δ)
    (hsn : ∀ i, |sn i - Real.sin (l' i)| ≤ δ) (hcn : ∀ i, |cn i - Real.cos (l' i)| ≤ δ)
    (N a : Nat) (ha : a < N) :
    0 ≤ Real.arccos (rCosAngKernel rnd sl cl sn cn N a a) ∧
      Real.arccos (rCosAngKernel rnd sl cl sn cn N a a)
        ≤ Real.arccos (1 - (((1 + u) ^ 5 - 1) * (1 + 3 * δ) ^ 2 + (566 / 100 * δ + 11 * δ ^ 2))) := by
  rw [rCosAngKernel_apply rnd sl cl sn cn N a a ha ha, Nat.max_self, Nat.min_self]
  have hc := rCosExpr_total_error h φ' l' sl cl sn cn δ hδ hsl hcl hsn hcn a a
  have e : inner ℝ (unitVec (φ' a) (l' a)) (unitVec (φ' a) (l' a)) = 1 := by
    rw [real_inner_self_eq_norm_sq, norm_unitVec]; norm_num
  rw [e] at hc
  exact angular_self_error _ _ hc

/-- the hypotheses are satisfiable: exact arithmetic, exact tables, exact radians — the
theorem then reproduces the closed form with `η = 0` -/
example : |Real.arccos (rCosAngKernel (fun v => v)
      (fun i => Real.sin ((if i = 0 then 90 else -90 : ℝ) * Real.pi / 180))
      (fun i => Real.cos ((if i = 0 then 90 else -90 : ℝ) * Real.pi / 180))
      (fun i => Real.sin ((if i = 0 then 0 else 180 : ℝ) * Real.pi / 180))
      (fun i => Real.cos ((if i = 0 then 0 else 180 : ℝ) * Real.pi / 180)) 2 0 1)
    - angularDistance realTrig (fun i => if i = 0 then 90 else -90)
        (fun i => if i = 0 then 0 else 180) 2 0 1| < 2⁻¹ ^ 10 :=
  angular_entry_accuracy_float32_cr
    ⟨by norm_num, by norm_num, fun v => by simp⟩ _ _
    (fun i => (if i = 0 then 90 else -90 : ℝ) * Real.pi / 180)
    (fun i => (if i = 0 then 0 else 180 : ℝ) * Real.pi / 180) _ _ _ _ 0 0 0
    (by norm_num) (by norm_num) (by simp) (by simp) (by simp) (by simp) (by simp) (by simp)
    2 0 1 (by omega) (by omega)

/-! ## `GeoGrid.convert_lon_coordinates` -/

/-- longitudes in `[0, 360]` are mapped into `(-180, 180]` … -/
theorem convertLon1_range (l : ℝ) (h0 : 0 ≤ l) (h1 : l ≤ 360) :
    -180 < convertLon1 l ∧ convertLon1 l ≤ 180 := by
  unfold convertLon1
  split_ifs with h
  · constructor <;> linarith
  · constructor <;> linarith

/-- … values already in `[-180, 180]` are left alone (idempotence) … -/
theorem convertLon1_id (l : ℝ) (h : l ≤ 180) : convertLon1 l = l := by
  unfold convertLon1; rw [if_neg (not_lt.2 h)]

/-- … and the converted longitude denotes **the same point** of the sphere: -/
theorem nodeVec_convertLon (lat lon : Nat → ℝ) (i : Nat) :
    nodeVec lat (fun i => convertLon1 (lon i)) i = nodeVec lat lon i := by
  simp only [nodeVec, convertLon1]
  split_ifs with h
  · have e : (lon i - 360) * Real.pi / 180 = lon i * Real.pi / 180 - 2 * Real.pi := by ring
    simp only [unitVec, e, Real.cos_sub_two_pi, Real.sin_sub_two_pi]
  · rfl

/-- hence all great-circle distances are unchanged by the conversion. -/
theorem angularDistance_convertLon (lat lon : Nat → ℝ) (N a b : Nat) (ha : a < N) (hb : b < N) :
    angularDistance realTrig lat (fun i => convertLon1 (lon i)) N a b
      = angularDistance realTrig lat lon N a b := by
  rw [angularDistance_eq_angle _ _ N a b ha hb, angularDistance_eq_angle _ _ N a b ha hb,
    nodeVec_convertLon, nodeVec_convertLon]

/-- the loop reads `lon_seq[i]` for `i < N`: it fails exactly when the sequence is shorter
than the grid, and otherwise returns `N` converted values -/
theorem convertLon_spec (N : Nat) (lon : List ℝ) :
    (convertLon N lon = none ↔ lon.length < N) ∧
      ∀ out, convertLon N lon = some out →
        out.length = N ∧ ∀ i (_ : i < N) (h : i < lon.length), out[i]? = some (convertLon1 lon[i]) := by
  unfold convertLon
  constructor
  · split_ifs with h <;> simp [h]
  · intro out h
    split_ifs at h with hl
    simp only [Option.some.injEq] at h
    subst h
    refine ⟨by simp; omega, ?_⟩
    intro i hi hil
    simp [hi, hil]

example : convertLon 3 [10, 350, (190 : ℚ)] = some [10, -10, -170] := by decide +kernel
example : convertLon 3 [10, (350 : ℚ)] = none := by decide +kernel

/-! ## link distance measures -/

section LinkDistance
set_option linter.unusedSectionVars false
variable {α : Type} [Field α] [LinearOrder α] [IsStrictOrderedRing α]

/-- `ndarray.max` returns an element of the row that bounds all others; it fails exactly
on an empty row -/
theorem maxRow_spec (l : List α) (m : α) (h : maxRow l = some m) : m ∈ l ∧ ∀ y ∈ l, y ≤ m := by
  match l, h with
  | x :: xs, h =>
    simp only [maxRow, Option.some.injEq] at h
    subst h
    exact foldl_max_spec xs x

theorem maxRow_eq_none_iff (l : List α) : maxRow l = none ↔ l = [] := by
  cases l <;> simp [maxRow]

/-- **`max_link_distance`**: for non-negative distances and a 0/1 adjacency matrix the value
for node `i` bounds the distance to every neighbour and is attained: it is the distance
to some neighbour, or `0` (no neighbours / all neighbours at distance 0). -/
theorem maxLinkDist_spec (D A : Nat → Nat → α) (N i : Nat) (m : α)
    (hD : ∀ j < N, 0 ≤ D i j) (hA : ∀ j < N, A i j = 0 ∨ A i j = 1)
    (h : maxLinkDist D A N i = some m) :
    (∀ j < N, A i j = 1 → D i j ≤ m) ∧ 0 ≤ m ∧
      (m = 0 ∨ ∃ j < N, A i j = 1 ∧ m = D i j) := by
  obtain ⟨hmem, hmax⟩ := maxRow_spec _ m h
  obtain ⟨j, hj, rfl⟩ := List.mem_map.1 hmem
  have hj' := List.mem_range.1 hj
  refine ⟨?_, ?_, ?_⟩
  · intro k hk hAk
    have := hmax (D i k * A i k) (List.mem_map.2 ⟨k, List.mem_range.2 hk, rfl⟩)
    rwa [hAk, mul_one] at this
  · rcases hA j hj' with h0 | h1
    · rw [h0, mul_zero]
    · rw [h1, mul_one]; exact hD j hj'
  · rcases hA j hj' with h0 | h1
    · left; rw [h0, mul_zero]
    · right; exact ⟨j, hj', h1, by rw [h1, mul_one]⟩

theorem maxLinkDist_ne_none (D A : Nat → Nat → α) (N i : Nat) (hN : 0 < N) :
    maxLinkDist D A N i ≠ none := by
  unfold maxLinkDist
  rw [Ne, maxRow_eq_none_iff]
  intro h
  have := congrArg List.length h
  simp at this
  omega

/-- **average link distance** (not geometry corrected): for a 0/1 row of the adjacency
matrix and `degree = ` its row sum `≠ 0`, the value is the arithmetic mean of the
distances to the neighbours: `ald · degree = Σ_{j ∈ N(i)} D[i, j]`; in particular it
lies between any bounds valid for the neighbours' distances. -/
theorem genALD_mean (D A : Nat → Nat → α) (deg : Nat → α) (N : Nat) (nN : α) (i : Nat)
    (hA : ∀ j < N, A i j = 0 ∨ A i j = 1)
    (hdeg : deg i = ∑ j ∈ Finset.range N, A i j) (hne : deg i ≠ 0) :
    ∃ v, genALD D A deg N nN false i = some v ∧
      v * deg i = ∑ j ∈ Finset.range N, D i j * A i j ∧
      ∀ lo hi : α, (∀ j < N, A i j = 1 → lo ≤ D i j ∧ D i j ≤ hi) → lo ≤ v ∧ v ≤ hi := by
  refine ⟨_, by simp only [genALD, if_neg hne]; rfl, ?_, ?_⟩
  · rw [div_mul_cancel₀ _ hne]; exact foldl_add_eq_sum _ N
  · intro lo hi hb
    have hs : sumTo N (fun j => D i j * A i j) = ∑ j ∈ Finset.range N, D i j * A i j :=
      foldl_add_eq_sum _ N
    have hpos : 0 < deg i := by
      refine lt_of_le_of_ne ?_ (Ne.symm hne)
      rw [hdeg]
      apply Finset.sum_nonneg
      intro j hj
      rcases hA j (Finset.mem_range.1 hj) with h | h <;> simp [h]
    rw [hs]
    constructor
    · rw [le_div_iff₀ hpos, hdeg, Finset.mul_sum]
      apply Finset.sum_le_sum
      intro j hj
      have hj' := Finset.mem_range.1 hj
      rcases hA j hj' with h | h
      · rw [h]; simp
      · rw [h, mul_one, mul_one]; exact (hb j hj' h).1
    · rw [div_le_iff₀ hpos, hdeg, Finset.mul_sum]
      apply Finset.sum_le_sum
      intro j hj
      have hj' := Finset.mem_range.1 hj
      rcases hA j hj' with h | h
      · rw [h]; simp
      · rw [h, mul_one, mul_one]; exact (hb j hj' h).2

/-- nodes without links get the value `0` (the `degree != 0` mask) -/
theorem genALD_isolated (D A : Nat → Nat → α) (deg : Nat → α) (N : Nat) (nN : α) (i : Nat)
    (h : deg i = 0) : genALD D A deg N nN false i = some 0 := by
  simp [genALD, h]

/-- `geometry_corrected=True` divides by the node's mean distance to **all** nodes
(`D.mean(axis=1)`), and has no value when that mean is zero -/
theorem genALD_corrected (D A : Nat → Nat → α) (deg : Nat → α) (N : Nat) (nN : α) (i : Nat) (v : α)
    (h : genALD D A deg N nN false i = some v) :
    genALD D A deg N nN true i =
      if (∑ j ∈ Finset.range N, D i j) / nN = 0 then none
      else some (v / ((∑ j ∈ Finset.range N, D i j) / nN)) := by
  have hs : sumTo N (fun j => D i j) = ∑ j ∈ Finset.range N, D i j := foldl_add_eq_sum _ N
  simp only [genALD, Bool.false_eq_true, if_false, Option.some.injEq] at h
  simp only [genALD, if_true, hs, h]

/-- in- and out-variants are the general routine on `(Aᵀ, column sums)` / `(A, row sums)`,
so the degree passed is the row sum of the matrix passed (hypothesis of `genALD_mean`) -/
theorem inALD_eq_outALD_transpose (D A : Nat → Nat → α) (N : Nat) (nN : α) (c : Bool) (i : Nat) :
    inALD D A N nN c i = outALD D (fun a b => A b a) N nN c i := rfl

theorem outALD_mean (D A : Nat → Nat → α) (N : Nat) (nN : α) (i : Nat)
    (hA : ∀ j < N, A i j = 0 ∨ A i j = 1) (hne : (∑ j ∈ Finset.range N, A i j) ≠ 0) :
    ∃ v, outALD D A N nN false i = some v ∧
      v * (∑ j ∈ Finset.range N, A i j) = ∑ j ∈ Finset.range N, D i j * A i j := by
  have hd : sumTo N (fun j => A i j) = ∑ j ∈ Finset.range N, A i j := foldl_add_eq_sum _ N
  obtain ⟨v, h1, h2, _⟩ := genALD_mean D A (fun i => sumTo N (fun j => A i j)) N nN i hA hd
    (by rw [hd]; exact hne)
  exact ⟨v, h1, by rw [← hd]; exact h2⟩

/-- `undirected_adjacency()` is symmetric, and is the adjacency matrix itself when that is
symmetric (undirected network) -/
theorem undirAdj_symm (A : Nat → Nat → α) (i j : Nat) : undirAdj A i j = undirAdj A j i := by
  unfold undirAdj
  rcases lt_trichotomy (A i j) (A j i) with h | h | h
  · rw [if_pos h, if_neg (not_lt.2 h.le)]
  · rw [h]
  · rw [if_neg (not_lt.2 h.le), if_pos h]

theorem undirAdj_of_symm (A : Nat → Nat → α) (h : ∀ i j, A i j = A j i) : undirAdj A = A := by
  funext i j
  unfold undirAdj
  rw [if_neg (by rw [h i j]; exact lt_irrefl _)]

/-- for an undirected network `average_link_distance` and `max_link_distance` are the
out-variants on the adjacency matrix itself (so `outALD_mean` / `maxLinkDist_spec` apply) -/
theorem avgALD_undirected (D A : Nat → Nat → α) (N : Nat) (nN : α) (c : Bool) (i : Nat)
    (h : ∀ i j, A i j = A j i) :
    avgALD false D A N nN c i = outALD D A N nN c i ∧ maxLinkDistNet D A N i = maxLinkDist D A N i := by
  simp only [avgALD, maxLinkDistNet, undirAdj_of_symm A h, outALD]
  simp

end LinkDistance

example : maxLinkDist (fun _ j => (j : ℚ)) (fun _ j => if j = 1 then 1 else 0) 3 0 = some 1 := by
  decide +kernel
example : outALD (fun _ j => (j : ℚ)) (fun _ j => if j = 0 then 0 else 1) 3 3 false 0
    = some (3 / 2) := by decide +kernel

/-! ## round 3: area-weighted histograms and the neighbour statistics of the AWC

`geoDist` is `GeoNetwork.geographical_distribution(sequence, n_bins)[0]` (and, through the six
wrappers, every `*area_weighted_connectivity_*distribution`): node `i` adds the cosine of
**its own** latitude to the bin `symbolic[i]`, and the histogram is divided by the total
`cos_lat.sum()`. -/

section GeoHist
set_option linter.unusedSectionVars false
variable {α : Type} [Field α] [LinearOrder α] [IsStrictOrderedRing α]

/-- **area-weighted histogram**: whenever `geographical_distribution` returns, the sequence
is not constant (`min < max`), there are `n_bins` bins, bin `b` is the share
`Σ_{i : symbol i = b} w i / Σ_i w i` of the weight of the nodes whose symbol is `b`, and the
bins sum to exactly `1` (every node lands in exactly one bin). -/
theorem geoDist_spec (w : Nat → α) (seq : List α) (nb : Nat) (h : List α)
    (hok : geoDist w seq nb = .ok h) :
    ∃ lo hi, minRow seq = some lo ∧ maxRow seq = some hi ∧ lo < hi ∧
      (∑ i ∈ Finset.range seq.length, w i) ≠ 0 ∧ h.length = nb ∧
      (∀ b < nb, h[b]? = some ((∑ i ∈ Finset.range seq.length,
          if (seq.map (geoSymbol nb lo hi)).getD i 0 = b then w i else 0)
            / ∑ i ∈ Finset.range seq.length, w i)) ∧
      h.sum = 1 := by
  unfold geoDist at hok
  cases hlo : minRow seq with
  | none => simp [hlo] at hok
  | some lo =>
    cases hhi : maxRow seq with
    | none => simp [hlo, hhi] at hok
    | some hi =>
      simp only [hlo, hhi] at hok
      split_ifs at hok with h0 hidx hnorm
      simp only [Except.ok.injEq] at hok
      have hnorm' : (∑ i ∈ Finset.range seq.length, w i) ≠ 0 := by
        rwa [← foldl_add_eq_sum w seq.length]
      have hle : lo ≤ hi := by
        obtain ⟨hm, hmin⟩ := minRow_spec seq lo hlo
        exact (maxRow_spec seq hi hhi).2 lo hm
      refine ⟨lo, hi, rfl, rfl, lt_of_le_of_ne hle (fun e => h0 (by rw [e]; ring)), hnorm', ?_, ?_, ?_⟩
      · rw [← hok]; simp
      · intro b hb
        rw [← hok, List.getElem?_map, List.getElem?_range hb]
        simp only [Option.map_some, sumTo, foldl_add_eq_sum]
      · rw [← hok, sum_map_range]
        simp only [sumTo, foldl_add_eq_sum]
        rw [← Finset.sum_div, Finset.sum_comm, div_eq_one_iff_eq hnorm']
        apply Finset.sum_congr rfl
        intro i hi'
        have hi'' := Finset.mem_range.1 hi'
        have hlt : (seq.map (geoSymbol nb lo hi)).getD i 0 < nb := by
          by_contra hcon
          apply hidx
          rw [List.any_eq_true]
          refine ⟨(seq.map (geoSymbol nb lo hi)).getD i 0, ?_, by simpa using not_lt.1 hcon⟩
          rw [List.getD_eq_getElem?_getD, List.getElem?_eq_getElem (by simpa using hi''),
            Option.getD_some]
          exact List.getElem_mem _
        rw [Finset.sum_ite_eq (Finset.range nb) _ (fun _ => w i), if_pos (Finset.mem_range.2 hlt)]

/-- the `IndexError` branch of the model is dead code: with at least one bin, every symbol
is a valid bin index (`geoSymbol_lt`: `min ≤ x ≤ max` gives `int(…) ≤ n_bins - 1`) -/
theorem geoDist_no_IndexError (w : Nat → α) (seq : List α) (nb : Nat) (hnb : 0 < nb) :
    geoDist w seq nb ≠ .error "IndexError" := by
  unfold geoDist
  cases hlo : minRow seq with
  | none => simp
  | some lo =>
    cases hhi : maxRow seq with
    | none => simp
    | some hi =>
      simp only
      split_ifs with h0 hidx hnorm <;> try simp
      exfalso
      rw [List.any_eq_true] at hidx
      obtain ⟨s, hs, hge⟩ := hidx
      obtain ⟨x, hx, rfl⟩ := List.mem_map.1 hs
      have hmin := (minRow_spec seq lo hlo).2 x hx
      have hmax := (maxRow_spec seq hi hhi).2 x hx
      have hlt : lo < hi := lt_of_le_of_ne (le_trans hmin hmax) (fun e => h0 (by rw [e]; ring))
      have := geoSymbol_lt nb lo hi x hnb hlt hmin hmax
      simp at hge
      omega

/-- a constant (or one-element) sequence makes `geographical_distribution` raise
`ZeroDivisionError` (`1. / (range_max - range_min)` on Python floats) -/
theorem geoDist_constant (w : Nat → α) (x : α) (n nb : Nat) :
    geoDist w (List.replicate (n + 1) x) nb = .error "ZeroDivisionError" := by
  have h1 : ∀ k, List.foldl (fun m y => if y < m then y else m) x (List.replicate k x) = x := by
    intro k; induction k with
    | zero => rfl
    | succ k ih => simp [List.replicate_succ, ih]
  have h2 : ∀ k, List.foldl (fun m y => if m < y then y else m) x (List.replicate k x) = x := by
    intro k; induction k with
    | zero => rfl
    | succ k ih => simp [List.replicate_succ, ih]
  have hmin : minRow (List.replicate (n + 1) x) = some x := by
    simp only [List.replicate_succ, minRow, h1]
  have hmax : maxRow (List.replicate (n + 1) x) = some x := by
    simp only [List.replicate_succ, maxRow, h2]
  simp [geoDist, hmin, hmax]

/-- **`max_neighbor_area_weighted_connectivity`**: the value of node `i` is the AWC of one of
its neighbours and bounds the AWC of all of them; the call fails (`ValueError`) exactly for
a node without neighbours -/
theorem maxNbAWC_spec (awc : Nat → α) (A : Nat → Nat → α) (N i : Nat) :
    (maxNbAWC awc A N i = none ↔ ∀ j < N, A i j ≠ 1) ∧
      ∀ m, maxNbAWC awc A N i = some m →
        (∃ j < N, A i j = 1 ∧ m = awc j) ∧ ∀ j < N, A i j = 1 → awc j ≤ m := by
  unfold maxNbAWC
  constructor
  · rw [maxRow_eq_none_iff, List.map_eq_nil_iff, List.filter_eq_nil_iff]
    simp
  · intro m hm
    obtain ⟨hmem, hmax⟩ := maxRow_spec _ m hm
    obtain ⟨j, hj, rfl⟩ := List.mem_map.1 hmem
    rw [List.mem_filter] at hj
    refine ⟨⟨j, List.mem_range.1 hj.1, by simpa using hj.2, rfl⟩, ?_⟩
    intro k hk hAk
    exact hmax _ (List.mem_map.2 ⟨k, List.mem_filter.2 ⟨List.mem_range.2 hk, by simpa using hAk⟩, rfl⟩)

/-- **`average_neighbor_area_weighted_connectivity`** is the general link-average routine on
the AWC of the neighbours: for a 0/1 row and `degree =` its row sum `≠ 0`,
`value · degree = Σ_{j ∈ N(i)} awc j` -/
theorem avgNbAWC_mean (awc deg : Nat → α) (A : Nat → Nat → α) (N i : Nat) (hne : deg i ≠ 0) :
    avgNbAWC awc deg A N i * deg i = ∑ j ∈ Finset.range N, A i j * awc j := by
  simp only [avgNbAWC, if_neg hne, sumTo, foldl_add_eq_sum]
  rw [div_mul_cancel₀ _ hne]

theorem avgNbAWC_isolated (awc deg : Nat → α) (A : Nat → Nat → α) (N i : Nat)
    (hA : ∀ j < N, A i j = 0) (h : deg i = 0) : avgNbAWC awc deg A N i = 0 := by
  simp only [avgNbAWC, if_pos h, sumTo, foldl_add_eq_sum]
  apply Finset.sum_eq_zero
  intro j hj
  rw [hA j (Finset.mem_range.1 hj), zero_mul]

/-- `np.histogram` with `n_bins` uniform bins: every kept value is counted in exactly one
bin — the counts add up to the number of values inside the range -/
theorem histCounts_sum (nb : Nat) (lo hi : α) (vals : List α) (hnb : 0 < nb) (hlh : lo ≠ hi) :
    (histCounts nb lo hi vals).sum = (vals.filter fun v => decide (lo ≤ v ∧ v ≤ hi)).length := by
  unfold histCounts
  simp only [if_neg hlh]
  rw [sum_map_range]
  exact sum_count_bins (fun v => binOf nb (linEdge nb lo hi) v) _ nb
    (fun v _ => binOf_lt nb _ v hnb)

end GeoHist

example : geoDist (fun _ => (1 : ℚ)) [0, 1, 2, 4] 3 = .ok [1 / 2, 1 / 4, 1 / 4] := by decide +kernel
example : maxNbAWC (fun j => (j : ℚ)) (fun _ j => if j = 1 then 1 else 0) 3 0 = some 1 := by
  decide +kernel
example : histCounts 2 (0 : ℚ) 2 [0, 1, 2, 1, 0, 1, 2, 1, 0] = [3, 6] := by decide +kernel

/-! ## round 4: the distance histograms are probability distributions -/

private theorem foldl_add_eq_list_sum (l : List ℚ) (a : ℚ) : l.foldl (· + ·) a = a + l.sum := by
  induction l generalizing a with
  | nil => simp
  | cons x xs ih => simp [List.foldl_cons, ih, add_assoc]

/-- `dist / dist.sum()`: whenever numpy's result is finite (non-zero sum) the normalised
histogram has as many bins as the counts and sums to exactly 1 -/
theorem normalize_sum (c r : List ℚ) (h : normalize c = some r) :
    r.sum = 1 ∧ r.length = c.length := by
  unfold normalize at h
  simp only [foldl_add_eq_list_sum, zero_add] at h
  split at h
  · cases h
  · rename_i hs
    cases h
    refine ⟨?_, by simp⟩
    simp only [div_eq_mul_inv]
    rw [List.sum_map_mul_right]
    simp only [List.map_id']
    exact mul_inv_cancel₀ hs

/-- **`geometric_distance_distribution(n_bins)[0]`** — whenever the method returns finite
values they are `n_bins` relative frequencies summing to 1 -/
theorem geomDistDist_sum (D : Nat → Nat → ℚ) (N nb : Nat) (r : List ℚ)
    (h : geomDistDist D N nb = .ok (some r)) : r.sum = 1 ∧ r.length = nb := by
  unfold geomDistDist at h
  cases hc : geomCounts D N nb with
  | error e => rw [hc] at h; cases h
  | ok c =>
    rw [hc] at h
    simp only [Except.map] at h
    have hn : normalize (c.map fun (k : Int) => (k : ℚ)) = some r := by
      injection h
    obtain ⟨h1, h2⟩ := normalize_sum _ _ hn
    refine ⟨h1, ?_⟩
    rw [h2, List.length_map]
    unfold geomCounts at hc
    split at hc
    · cases hc
    · split at hc
      · cases hc
      · injection hc with hc; rw [← hc]; simp

theorem linkCounts_length (D A : Nat → Nat → ℚ) (N nb : Nat) (c : List Nat)
    (h : linkCounts D A N nb = .ok c) : c.length = nb := by
  unfold linkCounts at h
  split at h
  · cases h
  · split at h
    · cases h
    · injection h with h; rw [← h]; simp [histCounts]

/-- **`link_distance_distribution(n_bins, geometry_corrected)[0]`** — both with and without the
geometry correction a finite result consists of `n_bins` values summing to 1 -/
theorem linkDistDist_sum (D Dg A : Nat → Nat → ℚ) (N nb : Nat) (corr : Bool) (r : List ℚ)
    (h : linkDistDist D Dg A N nb corr = .ok (some r)) : r.sum = 1 ∧ r.length = nb := by
  unfold linkDistDist at h
  cases hc : linkCounts D A N nb with
  | error e => rw [hc] at h; cases h
  | ok c =>
    have hlen := linkCounts_length D A N nb c hc
    rw [hc] at h
    simp only [bind, Except.bind] at h
    cases corr with
    | false =>
      simp only [Bool.false_eq_true, if_false, pure, Except.pure] at h
      injection h with h
      cases hrel : normalize (c.map fun (k : Nat) => (k : ℚ)) with
      | none => rw [hrel] at h; cases h
      | some rel =>
        rw [hrel] at h
        simp only [Option.bind_some] at h
        obtain ⟨_, l1⟩ := normalize_sum _ _ hrel
        obtain ⟨s2, l2⟩ := normalize_sum _ _ h
        exact ⟨s2, by rw [l2, l1, List.length_map, hlen]⟩
    | true =>
      simp only [if_true] at h
      cases hg : geomDistDist Dg N nb with
      | error e => rw [hg] at h; cases h
      | ok g =>
        rw [hg] at h
        simp only [pure, Except.pure] at h
        injection h with h
        cases hrel : normalize (c.map fun (k : Nat) => (k : ℚ)) with
        | none => rw [hrel] at h; cases h
        | some rel =>
          cases g with
          | none => rw [hrel] at h; cases h
          | some gd =>
            rw [hrel] at h
            simp only at h
            split at h
            · cases h
            · obtain ⟨_, l1⟩ := normalize_sum _ _ hrel
              obtain ⟨_, lg⟩ := geomDistDist_sum Dg N nb gd hg
              obtain ⟨s2, l2⟩ := normalize_sum _ _ h
              refine ⟨s2, ?_⟩
              rw [l2, List.length_map, List.length_zip, l1, lg, List.length_map, hlen]
              simp

example : geomDistDist (fun i j => if i ≤ j then ((j : ℚ) - i) else ((i : ℚ) - j)) 3 2
    = .ok (some [0, 1]) := by decide +kernel

/-! ## round 4: the grid as an object; area-weighted distance measures -/

/-- **`Grid.euclidean_distance()` of a grid object of any dimension** (`N_dim =
sequences.shape[0]`, `N_nodes = self.N = space_seq.shape[1]`): entry `(a, b)` is the distance of
the two nodes in `ℝ^dim`, `dim` being the number of rows of the coordinate array — 1, 2, 3, 5 … -/
theorem gridEuclideanDistance_eq_dist (g : GridData ℝ) (a b : Nat) (ha : a < g.N) (hb : b < g.N) :
    gridEuclideanDistance realTrig g a b = dist (pt g.x g.dim a) (pt g.x g.dim b) :=
  euclideanDistance_eq_dist g.x g.dim g.N a b ha hb

/-- every coordinate enters: two nodes are at distance zero iff they agree in **all** `dim`
rows (a kernel that is handed a smaller dimension identifies nodes differing in the rest) -/
theorem gridEuclideanDistance_eq_zero_iff (g : GridData ℝ) (a b : Nat) (ha : a < g.N) (hb : b < g.N) :
    gridEuclideanDistance realTrig g a b = 0 ↔ ∀ k < g.dim, g.x k a = g.x k b :=
  euclideanDistance_eq_zero_iff g.x g.dim g.N a b ha hb

/-- *structural* — exactly symmetric, any number type -/
theorem gridEuclideanDistance_symm {α : Type} [Add α] [Mul α] [Sub α] [Neg α] [Div α] [OfNat α 0]
    [OfNat α 1] [LT α] [DecidableLT α] [DecidableEq α] (T : Trig α) (g : GridData α) (a b : Nat) :
    gridEuclideanDistance T g a b = gridEuclideanDistance T g b a :=
  euclideanDistance_symm T g.x g.dim g.N a b

/-- a one-dimensional grid: the distance is `|x_a − x_b|` -/
theorem gridEuclideanDistance_dim_one (g : GridData ℝ) (h : g.dim = 1) (a b : Nat)
    (ha : a < g.N) (hb : b < g.N) :
    gridEuclideanDistance realTrig g a b = |g.x 0 a - g.x 0 b| := by
  simp only [gridEuclideanDistance, realTrig, h]
  rw [euclKernel_apply _ _ _ g.N a b ha hb]
  simp only [sumsq, List.range_one, List.foldl_cons, List.foldl_nil, zero_add]
  rw [← sq, Real.sqrt_sq_eq_abs]
  rcases Nat.le_total a b with h' | h'
  · rw [Nat.max_eq_right h', Nat.min_eq_left h', abs_sub_comm]
  · rw [Nat.max_eq_left h', Nat.min_eq_right h']

/-- `GeoGrid.__init__` stores latitudes in row 0 and longitudes in row 1, so
`lat_sequence()` / `lon_sequence()` (= `sequence(0)` / `sequence(1)`) return what was passed,
and a third coordinate does not exist -/
theorem geoGridData_sequences {α : Type} (lat lon : Nat → α) (n : Nat) :
    (geoGridData lat lon n).sequence 0 = some lat ∧ (geoGridData lat lon n).sequence 1 = some lon ∧
    (∀ k, 2 ≤ k → (geoGridData lat lon n).sequence k = none) ∧ (geoGridData lat lon n).N = n := by
  refine ⟨rfl, rfl, ?_, rfl⟩
  intro k hk
  exact if_neg (by show ¬ k < 2; omega)

/-- **`grid.distance()` of a `GeoGrid` object** is the great-circle distance of the nodes it was
built from (the override `GeoGrid.distance` → `angular_distance`, tables from rows 0 / 1) -/
theorem geoGrid_distance_eq_angle (lat lon : Nat → ℝ) (n a b : Nat) (ha : a < n) (hb : b < n) :
    gridDistance realTrig .geo (geoGridData lat lon n) a b
      = angle (nodeVec lat lon a) (nodeVec lat lon b) := by
  simp only [gridDistance, gridAngularDistance, geoGridData, GridData.N]
  exact angularDistance_eq_angle _ _ n a b ha hb

/-- **`grid.distance()` of a plain `Grid` object** is the Euclidean distance in `ℝ^dim` -/
theorem grid_distance_eq_dist (g : GridData ℝ) (a b : Nat) (ha : a < g.N) (hb : b < g.N) :
    gridDistance realTrig .euclid g a b = dist (pt g.x g.dim a) (pt g.x g.dim b) :=
  gridEuclideanDistance_eq_dist g a b ha hb

/-- `GeoGrid.euclidean_distance()` (inherited; used by `link_distance_distribution` with
`grid_type="euclidean"`): the distance of the (lat, lon) pairs in the plane of degrees -/
theorem geoGrid_euclidean (lat lon : Nat → ℝ) (n a b : Nat) (ha : a < n) (hb : b < n) :
    gridEuclideanDistance realTrig (geoGridData lat lon n) a b
      = Real.sqrt ((lat a - lat b) ^ 2 + (lon a - lon b) ^ 2) := by
  simp only [gridEuclideanDistance, realTrig, geoGridData, GridData.N]
  rw [euclKernel_apply _ _ _ n a b ha hb]
  simp only [sumsq, List.range_succ, List.range_zero, List.nil_append]
  congr 1
  rcases Nat.le_total a b with h' | h'
  · rw [Nat.max_eq_right h', Nat.min_eq_left h']; simp; ring
  · rw [Nat.max_eq_left h', Nat.min_eq_right h']; simp; ring

example : gridEuclideanDistance realTrig ⟨1, 2, fun _ i => if i = 0 then 2 else 5⟩ 0 1 = 3 := by
  rw [gridEuclideanDistance_dim_one _ rfl 0 1 (by decide) (by decide)]; norm_num

section AreaDistance
set_option linter.unusedSectionVars false
variable {α : Type} [Field α] [LinearOrder α] [IsStrictOrderedRing α]

/-- the model with a trigonometric structure is the weight-table model at `w = cos(lat)` -/
theorem AWC_eq_AWCw (T : Trig α) (dir : Bool) (lat : Nat → α) (A : Nat → Nat → α) (N i : Nat) :
    AWC T dir lat A N i = AWCw dir (fun i => T.cos (T.rad (lat i))) A N i := rfl

/-- **connectivity weighted distance**: for a 0/1 row, `degree =` its row sum `≠ 0` and a
non-zero total weight the value satisfies
`cwd · degree · Σ_k w_k = Σ_{j ∈ N(i)} w_j · D[i, j]` — every neighbour's distance weighted by the
cosine of **that neighbour's own** latitude; with non-negative weights `cwd · degree` lies
between `lo · awc_i` and `hi · awc_i` for any bounds of the neighbours' distances, `awc_i` being
the out-area-weighted connectivity of the same row. -/
theorem genCWD_spec (D A : Nat → Nat → α) (w deg : Nat → α) (N i : Nat)
    (hA : ∀ j < N, A i j = 0 ∨ A i j = 1) (hne : deg i ≠ 0)
    (hw : ∀ j < N, 0 ≤ w j) (hnorm : 0 < ∑ k ∈ Finset.range N, w k) :
    ∃ v, genCWD D A w deg N i = some v ∧
      v * (deg i * ∑ k ∈ Finset.range N, w k) = ∑ j ∈ Finset.range N, A i j * w j * D i j ∧
      ∀ lo hi : α, (∀ j < N, A i j = 1 → lo ≤ D i j ∧ D i j ≤ hi) →
        lo * outAWCw w A N i ≤ v * deg i ∧ v * deg i ≤ hi * outAWCw w A N i := by
  have hn : sumTo N w = ∑ k ∈ Finset.range N, w k := foldl_add_eq_sum _ N
  have hs : sumTo N (fun j => A i j * w j * D i j) = ∑ j ∈ Finset.range N, A i j * w j * D i j :=
    foldl_add_eq_sum _ N
  have ha : sumTo N (fun j => A i j * w j) = ∑ j ∈ Finset.range N, A i j * w j :=
    foldl_add_eq_sum _ N
  have hprod : deg i * sumTo N w ≠ 0 := by rw [hn]; exact mul_ne_zero hne hnorm.ne'
  refine ⟨_, by simp only [genCWD, if_neg hne, if_neg hprod]; rfl, ?_, ?_⟩
  · rw [hn, hs, div_mul_cancel₀]; rw [← hn]; exact hprod
  · intro lo hi hb
    have key : (sumTo N (fun j => A i j * w j * D i j) / (deg i * sumTo N w)) * deg i
        = (∑ j ∈ Finset.range N, A i j * w j * D i j) / (∑ k ∈ Finset.range N, w k) := by
      rw [hs, hn]; field_simp
    rw [key]
    simp only [outAWCw, ha, hn]
    rw [← mul_div_assoc, ← mul_div_assoc, div_le_div_iff_of_pos_right hnorm,
      div_le_div_iff_of_pos_right hnorm, Finset.mul_sum, Finset.mul_sum]
    constructor
    · apply Finset.sum_le_sum
      intro j hj
      have hj' := Finset.mem_range.1 hj
      rcases hA j hj' with h | h
      · rw [h]; simp
      · rw [h, one_mul, mul_comm lo]
        exact mul_le_mul_of_nonneg_left (hb j hj' h).1 (hw j hj')
    · apply Finset.sum_le_sum
      intro j hj
      have hj' := Finset.mem_range.1 hj
      rcases hA j hj' with h | h
      · rw [h]; simp
      · rw [h, one_mul, mul_comm hi]
        exact mul_le_mul_of_nonneg_left (hb j hj' h).2 (hw j hj')

/-- a node without links (zero row, degree 0) gets the value `0` -/
theorem genCWD_isolated (D A : Nat → Nat → α) (w deg : Nat → α) (N i : Nat)
    (hA : ∀ j < N, A i j = 0) (h : deg i = 0) : genCWD D A w deg N i = some 0 := by
  have hs : sumTo N (fun j => A i j * w j * D i j) = ∑ j ∈ Finset.range N, A i j * w j * D i j :=
    foldl_add_eq_sum _ N
  simp only [genCWD, h, if_true, hs, Option.some.injEq]
  apply Finset.sum_eq_zero
  intro j hj
  rw [hA j (Finset.mem_range.1 hj)]; simp

/-- a zero total weight with a non-zero degree has no value (numpy: `nan` / `inf`) -/
theorem genCWD_zero_norm (D A : Nat → Nat → α) (w deg : Nat → α) (N i : Nat) (hne : deg i ≠ 0)
    (h : ∑ k ∈ Finset.range N, w k = 0) : genCWD D A w deg N i = none := by
  have hn : sumTo N w = ∑ k ∈ Finset.range N, w k := foldl_add_eq_sum _ N
  simp [genCWD, hne, hn, h]

/-- the in-variant is the out-variant of the transposed matrix, so that the degree passed is
the row sum of the matrix passed (hypothesis of `genCWD_spec`) -/
theorem inCWD_eq_outCWD_transpose (D A : Nat → Nat → α) (w : Nat → α) (N i : Nat) :
    inCWD D A w N i = outCWD D (fun a b => A b a) w N i := rfl

theorem outCWD_spec (D A : Nat → Nat → α) (w : Nat → α) (N i : Nat)
    (hA : ∀ j < N, A i j = 0 ∨ A i j = 1) (hne : (∑ j ∈ Finset.range N, A i j) ≠ 0)
    (hw : ∀ j < N, 0 ≤ w j) (hnorm : 0 < ∑ k ∈ Finset.range N, w k) :
    ∃ v, outCWD D A w N i = some v ∧
      v * ((∑ j ∈ Finset.range N, A i j) * ∑ k ∈ Finset.range N, w k)
        = ∑ j ∈ Finset.range N, A i j * w j * D i j := by
  have hd : sumTo N (fun j => A i j) = ∑ j ∈ Finset.range N, A i j := foldl_add_eq_sum _ N
  obtain ⟨v, h1, h2, _⟩ := genCWD_spec D A w (fun i => sumTo N (fun j => A i j)) N i hA
    (by rw [hd]; exact hne) hw hnorm
  exact ⟨v, h1, by rw [← hd]; exact h2⟩

/-- for an undirected network `connectivity_weighted_distance` is the out-variant -/
theorem CWD_undirected (D A : Nat → Nat → α) (w : Nat → α) (N i : Nat) (h : ∀ i j, A i j = A j i) :
    CWD false D A w N i = outCWD D A w N i := by
  simp only [CWD, outCWD, undirAdj_of_symm A h]
  simp

/-- **total link distance** `= average link distance × area weighted connectivity`; for a 0/1
row with non-zero row sum: `tld · degree = (Σ_{j ∈ N(i)} D[i, j]) · awc_i` -/
theorem outTLD_spec (D A : Nat → Nat → α) (w : Nat → α) (N : Nat) (nN : α) (i : Nat)
    (hA : ∀ j < N, A i j = 0 ∨ A i j = 1) (hne : (∑ j ∈ Finset.range N, A i j) ≠ 0) :
    ∃ v, outTLD D A w N nN false i = some v ∧
      v * (∑ j ∈ Finset.range N, A i j)
        = (∑ j ∈ Finset.range N, D i j * A i j) * outAWCw w A N i := by
  obtain ⟨v, h1, h2⟩ := outALD_mean D A N nN i hA hne
  refine ⟨v * outAWCw w A N i, by simp [outTLD, h1], ?_⟩
  rw [← h2]; ring

theorem inTLD_eq_outTLD_transpose (D A : Nat → Nat → α) (w : Nat → α) (N : Nat) (nN : α) (c : Bool)
    (i : Nat) : inTLD D A w N nN c i = outTLD D (fun a b => A b a) w N nN c i := by
  simp only [inTLD, outTLD, inALD_eq_outALD_transpose, inAWCw, outAWCw]
  congr 1; funext v; congr 2
  congr 1; funext k; exact mul_comm _ _

/-- an isolated node has total link distance `0` whatever its area weighted connectivity -/
theorem outTLD_isolated (D A : Nat → Nat → α) (w : Nat → α) (N : Nat) (nN : α) (i : Nat)
    (h : (∑ j ∈ Finset.range N, A i j) = 0) : outTLD D A w N nN false i = some 0 := by
  have hd : sumTo N (fun j => A i j) = ∑ j ∈ Finset.range N, A i j := foldl_add_eq_sum _ N
  have := genALD_isolated D A (fun i => sumTo N (fun j => A i j)) N nN i (by rw [hd]; exact h)
  simp [outTLD, outALD, this]

end AreaDistance

example : outCWD (fun _ j => (j : ℚ)) (fun _ j => if j = 0 then 0 else 1) (fun _ => 1 / 2) 3 0
    = some (1 / 2) := by decide +kernel
example : outTLD (fun _ j => (j : ℚ)) (fun _ j => if j = 0 then 0 else 1) (fun _ => 1 / 2) 3 3 false 0
    = some 1 := by decide +kernel

/-- `GeoGrid.coord_sequence_from_rect_grid(lat_grid, lon_grid)`: node `n` has the latitude
`lat_grid[n / n_lon]` and the longitude `lon_grid[n % n_lon]` — latitude slowest, exactly the
Cartesian product (through `rectGrid_entry` / `nodeIdx_two`) -/
theorem geoRectGrid_spec {β : Type} (latG lonG : List β) :
    ∃ la lo, geoRectGrid latG lonG = some (la, lo) ∧
      la.length = latG.length * lonG.length ∧ lo.length = latG.length * lonG.length ∧
      ∀ n < latG.length * lonG.length,
        la[n]? = some latG[n / lonG.length % latG.length]? ∧ lo[n]? = some lonG[n % lonG.length]? := by
  have h : rectGrid [latG, lonG]
      = [(List.range (latG.length * lonG.length)).map (fun n => latG[n / lonG.length % latG.length]?),
         (List.range (latG.length * lonG.length)).map (fun n => lonG[n % lonG.length]?)] := by
    simp [rectGrid, nNodes, prod, nodeIdx_two, List.range_succ]
  refine ⟨_, _, by rw [geoRectGrid, h], by simp, by simp, ?_⟩
  intro n hn
  simp [hn]

example : geoRectGrid [0, 5] [1, 2, (3 : Int)]
    = some ([some 0, some 0, some 0, some 5, some 5, some 5],
            [some 1, some 2, some 3, some 1, some 2, some 3]) := by decide

/-! ## round 5 — the nearest-node lookups and the radian conversion in rounded arithmetic

Rounds 1–4 proved the lookup clause ("returns a node at minimal distance") for exact
arithmetic and left the floating point evaluation to the oracle (with ad-hoc tolerances).
Here the *same* models `gridNodeNumber` / `geoNodeNumber` are instantiated with operations
that round (`rGridNodeNumber_eq_model`, `rGeoNodeNumber_eq_model`) and the clause is proved
under the standard model: the returned node is nearest up to the factor / the slack that
the roundings can produce — for every grid, every dimension, every query point. -/

/-- **`Grid.node_number` in rounded arithmetic**: every `-`, `*`, `+` rounded with relative
error `u`, a square root of relative error `w`, exact comparisons in `argmin`.  The node
returned is nearest up to the factor `(1+w)√((1+u)^(d+3)) / ((1-w)√((1-u)^(d+3)))`. -/
theorem gridNodeNumber_rounded {rnd : ℝ → ℝ} {u w : ℝ} (h : StdRound rnd u) (sq : ℝ → ℝ)
    (hw0 : 0 ≤ w) (hw1 : w ≤ 1) (hsq : ∀ v, 0 ≤ v → |sq v - √v| ≤ w * √v)
    (x : Nat → Nat → ℝ) (q : Nat → ℝ) (d N k : Nat)
    (hk : rGridNodeNumber rnd sq x q d N = some k) :
    k < N ∧ ∀ m < N, (1 - w) * √((1 - u) ^ (d + 3)) * dist (pt x d k) (qpt q d)
      ≤ (1 + w) * √((1 + u) ^ (d + 3)) * dist (pt x d m) (qpt q d) := by
  obtain ⟨v, hv, hmin, -⟩ := argminFirst_spec _ k hk
  have hkN : k < N := by
    by_contra hk'
    rw [List.getElem?_eq_none (by simpa using Nat.le_of_not_lt hk')] at hv
    cases hv
  rw [List.getElem?_map, List.getElem?_range hkN] at hv
  simp only [Option.map_some, Option.some.injEq] at hv
  subst hv
  refine ⟨hkN, fun m hm => ?_⟩
  have h1 := (rqdist_bounds h sq hw0 hw1 hsq x q d k).1
  have h2 := (rqdist_bounds h sq hw0 hw1 hsq x q d m).2
  have h3 := hmin _ (List.mem_map.2 ⟨m, List.mem_range.2 hm, rfl⟩)
  rw [qsumsq_eq] at h1 h2
  linarith

/-- the lookup fails only for a grid without nodes, also in rounded arithmetic -/
theorem gridNodeNumber_rounded_ne_none (rnd sq : ℝ → ℝ) (x : Nat → Nat → ℝ) (q : Nat → ℝ)
    (d N : Nat) (hN : 0 < N) : rGridNodeNumber rnd sq x q d N ≠ none := by
  unfold rGridNodeNumber
  rw [Ne, argminFirst_eq_none_iff]
  intro h
  have := congrArg List.length h
  simp at this
  omega

/-- **rounding can change the answer only between near-ties**: a node that is closer than
every other node by more than the rounding factor is the node returned -/
theorem gridNodeNumber_rounded_separated {rnd : ℝ → ℝ} {u w : ℝ} (h : StdRound rnd u) (sq : ℝ → ℝ)
    (hw0 : 0 ≤ w) (hw1 : w ≤ 1) (hsq : ∀ v, 0 ≤ v → |sq v - √v| ≤ w * √v)
    (x : Nat → Nat → ℝ) (q : Nat → ℝ) (d N m₀ : Nat) (hm₀ : m₀ < N)
    (hsep : ∀ m < N, m ≠ m₀ → (1 + w) * √((1 + u) ^ (d + 3)) * dist (pt x d m₀) (qpt q d)
      < (1 - w) * √((1 - u) ^ (d + 3)) * dist (pt x d m) (qpt q d)) :
    rGridNodeNumber rnd sq x q d N = some m₀ := by
  cases hr : rGridNodeNumber rnd sq x q d N with
  | none => exact absurd hr (gridNodeNumber_rounded_ne_none rnd sq x q d N (by omega))
  | some k =>
    obtain ⟨hk, hmin⟩ := gridNodeNumber_rounded h sq hw0 hw1 hsq x q d N k hr
    by_cases e : k = m₀
    · rw [e]
    · exact absurd (hmin m₀ hm₀) (not_le.2 (hsep k hk e))

/-- **float64 query points** (`u = 2⁻⁵³`, `np.sqrt` within one ulp, at most 6 dimensions):
the node returned is nearest up to the relative factor `(1 + 2⁻⁴⁹) / (1 - 2⁻⁴⁹)` -/
theorem gridNodeNumber_rounded_float64 {rnd : ℝ → ℝ} (h : StdRound rnd (2⁻¹ ^ 53)) (sq : ℝ → ℝ)
    (hsq : ∀ v, 0 ≤ v → |sq v - √v| ≤ 2⁻¹ ^ 52 * √v)
    (x : Nat → Nat → ℝ) (q : Nat → ℝ) (d N k : Nat) (hd : d ≤ 6)
    (hk : rGridNodeNumber rnd sq x q d N = some k) :
    k < N ∧ ∀ m < N, (1 - 2⁻¹ ^ 49) * dist (pt x d k) (qpt q d)
      ≤ (1 + 2⁻¹ ^ 49) * dist (pt x d m) (qpt q d) := by
  obtain ⟨hkN, hmin⟩ := gridNodeNumber_rounded h sq (by norm_num) (by norm_num) hsq x q d N k hk
  refine ⟨hkN, fun m hm => ?_⟩
  have hf := float64_factors d hd
  have h1 := mul_le_mul_of_nonneg_right hf.1 (dist_nonneg (x := pt x d k) (y := qpt q d))
  have h2 := mul_le_mul_of_nonneg_right hf.2 (dist_nonneg (x := pt x d m) (y := qpt q d))
  linarith [hmin m hm]

/-- **float32 query arrays** (`u = 2⁻²⁴`, square root within one ulp, at most 6 dimensions):
nearest up to `(1 + 2⁻²⁰) / (1 - 2⁻²⁰)` -/
theorem gridNodeNumber_rounded_float32 {rnd : ℝ → ℝ} (h : StdRound rnd (2⁻¹ ^ 24)) (sq : ℝ → ℝ)
    (hsq : ∀ v, 0 ≤ v → |sq v - √v| ≤ 2⁻¹ ^ 23 * √v)
    (x : Nat → Nat → ℝ) (q : Nat → ℝ) (d N k : Nat) (hd : d ≤ 6)
    (hk : rGridNodeNumber rnd sq x q d N = some k) :
    k < N ∧ ∀ m < N, (1 - 2⁻¹ ^ 20) * dist (pt x d k) (qpt q d)
      ≤ (1 + 2⁻¹ ^ 20) * dist (pt x d m) (qpt q d) := by
  obtain ⟨hkN, hmin⟩ := gridNodeNumber_rounded h sq (by norm_num) (by norm_num) hsq x q d N k hk
  refine ⟨hkN, fun m hm => ?_⟩
  have hf := float32_factors d hd
  have h1 := mul_le_mul_of_nonneg_right hf.1 (dist_nonneg (x := pt x d k) (y := qpt q d))
  have h2 := mul_le_mul_of_nonneg_right hf.2 (dist_nonneg (x := pt x d m) (y := qpt q d))
  linarith [hmin m hm]

/-- exact arithmetic is an instance: the rounded lookup then *is* the lookup of
`gridNodeNumber_spec` -/
theorem gridNodeNumber_rounded_exact (x : Nat → Nat → ℝ) (q : Nat → ℝ) (d N : Nat) :
    rGridNodeNumber (fun v => v) Real.sqrt x q d N = gridNodeNumber Real.sqrt x q d N := rfl

/-- non-vacuity: in exact arithmetic with `u = w = 0` the theorem returns the exact statement
for the grid `{0, 3, 1}` on the line and the query point `1.2` -/
example : ∀ k, rGridNodeNumber (fun v => v) Real.sqrt (fun _ i => if i = 0 then 0 else if i = 1 then 3 else 1)
      (fun _ => 6 / 5) 1 3 = some k →
    k < 3 ∧ ∀ m < 3, (1 - 0) * √((1 - 0) ^ (1 + 3)) *
        dist (pt (fun _ i => if i = 0 then (0 : ℝ) else if i = 1 then 3 else 1) 1 k) (qpt (fun _ => 6 / 5) 1)
      ≤ (1 + 0) * √((1 + 0) ^ (1 + 3)) *
        dist (pt (fun _ i => if i = 0 then (0 : ℝ) else if i = 1 then 3 else 1) 1 m) (qpt (fun _ => 6 / 5) 1) :=
  fun k hk => gridNodeNumber_rounded (u := 0) (w := 0) ⟨le_refl _, by norm_num, fun v => by simp⟩
    Real.sqrt (le_refl _) (by norm_num) (fun v _ => by simp) _ _ 1 3 k hk

/-! ### `GeoGrid.node_number` -/

theorem rCosExpr_comm (rnd : ℝ → ℝ) (sl cl sn cn : Nat → ℝ) (i j : Nat) :
    rCosExpr rnd sl cl sn cn i j = rCosExpr rnd sl cl sn cn j i := by
  rw [rCosExpr_eq, rCosExpr_eq, mul_comm (sl i), mul_comm (cl i), mul_comm (sn i), mul_comm (cn i)]

/-- **`GeoGrid.node_number` in rounded arithmetic**: every `+`, `*` of the vectorised
expression rounded (`u`), the nodes' and the query point's `sin` / `cos` values within `δ` of
the functions at radian values that are within `εφ`, `εl` of the exact radians, an inverse
cosine within `α` on `[-1, 1]`.  The node returned is nearest on the sphere up to twice the
entry error of `angular_entry_error_rounded` plus `2α`. -/
theorem geoNodeNumber_rounded {rnd : ℝ → ℝ} {u : ℝ} (h : StdRound rnd u) (ac : ℝ → ℝ)
    (lat lon φ' l' sl cl sn cn : Nat → ℝ) (latq lonq φq lq slv clv snv cnv δ εφ εl α : ℝ)
    (hδ : δ ≤ 1 / 16)
    (hac : ∀ c, -1 ≤ c → c ≤ 1 → |ac c - Real.arccos c| ≤ α)
    (hsl : ∀ i, |sl i - Real.sin (φ' i)| ≤ δ) (hcl : ∀ i, |cl i - Real.cos (φ' i)| ≤ δ)
    (hsn : ∀ i, |sn i - Real.sin (l' i)| ≤ δ) (hcn : ∀ i, |cn i - Real.cos (l' i)| ≤ δ)
    (hslv : |slv - Real.sin φq| ≤ δ) (hclv : |clv - Real.cos φq| ≤ δ)
    (hsnv : |snv - Real.sin lq| ≤ δ) (hcnv : |cnv - Real.cos lq| ≤ δ)
    (hφ : ∀ i, |φ' i - lat i * Real.pi / 180| ≤ εφ) (hl : ∀ i, |l' i - lon i * Real.pi / 180| ≤ εl)
    (hφq : |φq - latq * Real.pi / 180| ≤ εφ) (hlq : |lq - lonq * Real.pi / 180| ≤ εl)
    (N k : Nat) (hk : rGeoNodeNumber rnd ac sl cl sn cn slv clv snv cnv N = some k) :
    k < N ∧ ∀ m < N,
      angle (nodeVec lat lon k) (unitVec (latq * Real.pi / 180) (lonq * Real.pi / 180))
        ≤ angle (nodeVec lat lon m) (unitVec (latq * Real.pi / 180) (lonq * Real.pi / 180))
          + 2 * (Real.arccos (1 - (((1 + u) ^ 5 - 1) * (1 + 3 * δ) ^ 2 + (566 / 100 * δ + 11 * δ ^ 2)))
            + 2 * (εφ + εl) + α) := by
  set E := Real.arccos (1 - (((1 + u) ^ 5 - 1) * (1 + 3 * δ) ^ 2 + (566 / 100 * δ + 11 * δ ^ 2)))
    + 2 * (εφ + εl) with hE
  -- the query point as node `N` of the extended grid
  have ext : ∀ (t : Nat → ℝ) (v : ℝ) (f : ℝ → ℝ) (a : Nat → ℝ) (b : ℝ),
      (∀ i, |t i - f (a i)| ≤ δ) → |v - f b| ≤ δ →
      ∀ i, |extTab N t v i - f (extTab N a b i)| ≤ δ := by
    intro t v f a b h1 h2 i
    unfold extTab
    split
    · exact h2
    · exact h1 i
  have ext' : ∀ (a : Nat → ℝ) (b : ℝ) (c : Nat → ℝ) (e ε : ℝ),
      (∀ i, |a i - c i * Real.pi / 180| ≤ ε) → |b - e * Real.pi / 180| ≤ ε →
      ∀ i, |extTab N a b i - extTab N c e i * Real.pi / 180| ≤ ε := by
    intro a b c e ε h1 h2 i
    unfold extTab
    split
    · exact h2
    · exact h1 i
  have key : ∀ i < N, |ac (clampMask (rGeoExpr rnd sl cl sn cn slv clv snv cnv i))
      - angle (nodeVec lat lon i) (unitVec (latq * Real.pi / 180) (lonq * Real.pi / 180))|
        ≤ E + α := by
    intro i hi
    have hne : i ≠ N := by omega
    have hmain := angular_entry_error_rounded h (extTab N lat latq) (extTab N lon lonq)
      (extTab N φ' φq) (extTab N l' lq) (extTab N sl slv) (extTab N cl clv) (extTab N sn snv)
      (extTab N cn cnv) δ εφ εl hδ
      (ext sl slv Real.sin φ' φq hsl hslv) (ext cl clv Real.cos φ' φq hcl hclv)
      (ext sn snv Real.sin l' lq hsn hsnv) (ext cn cnv Real.cos l' lq hcn hcnv)
      (ext' φ' φq lat latq εφ hφ hφq) (ext' l' lq lon lonq εl hl hlq)
      (N + 1) i N (by omega) (by omega)
    rw [rCosAngKernel_apply _ _ _ _ _ _ _ _ (by omega) (by omega),
      Nat.max_eq_right hi.le, Nat.min_eq_left hi.le, rCosExpr_comm,
      ← rGeoExpr_eq_rCosExpr rnd sl cl sn cn slv clv snv cnv N i hi,
      angularDistance_eq_angle _ _ _ _ _ (by omega) (by omega)] at hmain
    have e1 : nodeVec (extTab N lat latq) (extTab N lon lonq) i = nodeVec lat lon i := by
      simp [nodeVec, extTab, hne]
    have e2 : nodeVec (extTab N lat latq) (extTab N lon lonq) N
        = unitVec (latq * Real.pi / 180) (lonq * Real.pi / 180) := by
      simp [nodeVec, extTab]
    rw [e1, e2] at hmain
    rw [clampMask_eq_clamp]
    have hc := clamp_mem (rGeoExpr rnd sl cl sn cn slv clv snv cnv i)
    have ha := hac _ hc.1 hc.2
    have := abs_sub_le (ac (clamp (rGeoExpr rnd sl cl sn cn slv clv snv cnv i)))
      (Real.arccos (clamp (rGeoExpr rnd sl cl sn cn slv clv snv cnv i)))
      (angle (nodeVec lat lon i) (unitVec (latq * Real.pi / 180) (lonq * Real.pi / 180)))
    linarith
  obtain ⟨v, hv, hmin, -⟩ := argminFirst_spec _ k hk
  have hkN : k < N := by
    by_contra hk'
    rw [List.getElem?_eq_none (by simpa using Nat.le_of_not_lt hk')] at hv
    cases hv
  rw [List.getElem?_map, List.getElem?_range hkN] at hv
  simp only [Option.map_some, Option.some.injEq] at hv
  subst hv
  refine ⟨hkN, fun m hm => ?_⟩
  have h3 := hmin _ (List.mem_map.2 ⟨m, List.mem_range.2 hm, rfl⟩)
  have h1 := abs_le.1 (key k hkN)
  have h2 := abs_le.1 (key m hm)
  linarith [h1.1, h1.2, h2.1, h2.2]

/-- **float arithmetic of either width, tables within 1.5 units of 2⁻²⁴** (`u ≤ 2⁻²⁴` — the
vectorised expression is evaluated in float64 when the query point is a Python float and in
float32 for `np.float32` arguments; `δ ≤ 3·2⁻²⁵`, conversions within `2⁻¹⁷`, `arccos` within
`2⁻²⁰`): the node returned is within `3·2⁻¹⁰ + 2⁻¹⁹` rad of the nearest one — the oracle's
lookup slack is `2·2⁻¹⁰` (sampled), the statement's "up to the same error" read as twice the
entry error. -/
theorem geoNodeNumber_rounded_float32 {rnd : ℝ → ℝ} (h : StdRound rnd (2⁻¹ ^ 24)) (ac : ℝ → ℝ)
    (lat lon φ' l' sl cl sn cn : Nat → ℝ) (latq lonq φq lq slv clv snv cnv δ εφ εl : ℝ)
    (hδ : δ ≤ 3 * 2⁻¹ ^ 25) (hε : εφ + εl ≤ 2⁻¹ ^ 17)
    (hac : ∀ c, -1 ≤ c → c ≤ 1 → |ac c - Real.arccos c| ≤ 2⁻¹ ^ 20)
    (hsl : ∀ i, |sl i - Real.sin (φ' i)| ≤ δ) (hcl : ∀ i, |cl i - Real.cos (φ' i)| ≤ δ)
    (hsn : ∀ i, |sn i - Real.sin (l' i)| ≤ δ) (hcn : ∀ i, |cn i - Real.cos (l' i)| ≤ δ)
    (hslv : |slv - Real.sin φq| ≤ δ) (hclv : |clv - Real.cos φq| ≤ δ)
    (hsnv : |snv - Real.sin lq| ≤ δ) (hcnv : |cnv - Real.cos lq| ≤ δ)
    (hφ : ∀ i, |φ' i - lat i * Real.pi / 180| ≤ εφ) (hl : ∀ i, |l' i - lon i * Real.pi / 180| ≤ εl)
    (hφq : |φq - latq * Real.pi / 180| ≤ εφ) (hlq : |lq - lonq * Real.pi / 180| ≤ εl)
    (N k : Nat) (hk : rGeoNodeNumber rnd ac sl cl sn cn slv clv snv cnv N = some k) :
    k < N ∧ ∀ m < N,
      angle (nodeVec lat lon k) (unitVec (latq * Real.pi / 180) (lonq * Real.pi / 180))
        < angle (nodeVec lat lon m) (unitVec (latq * Real.pi / 180) (lonq * Real.pi / 180))
          + (3 * 2⁻¹ ^ 10 + 2⁻¹ ^ 19) := by
  have hδ0 : 0 ≤ δ := le_trans (abs_nonneg _) hslv
  obtain ⟨hkN, hmin⟩ := geoNodeNumber_rounded h ac lat lon φ' l' sl cl sn cn latq lonq φq lq
    slv clv snv cnv δ εφ εl (2⁻¹ ^ 20) (le_trans hδ (by norm_num)) hac hsl hcl hsn hcn
    hslv hclv hsnv hcnv hφ hl hφq hlq N k hk
  refine ⟨hkN, fun m hm => ?_⟩
  have hη : ((1 + (2⁻¹ : ℝ) ^ 24) ^ 5 - 1) * (1 + 3 * δ) ^ 2 + (566 / 100 * δ + 11 * δ ^ 2)
      ≤ ((1 + (2⁻¹ : ℝ) ^ 24) ^ 5 - 1) * (1 + 3 * (3 * 2⁻¹ ^ 25)) ^ 2
        + (566 / 100 * (3 * 2⁻¹ ^ 25) + 11 * (3 * 2⁻¹ ^ 25) ^ 2) := by
    have : (0 : ℝ) ≤ (1 + 2⁻¹ ^ 24) ^ 5 - 1 := by norm_num
    gcongr
  have ht := arccos_one_sub_le_of_sq _ (3 * 2⁻¹ ^ 11 - 2⁻¹ ^ 15) (by norm_num) (by norm_num)
    (le_trans hη (by norm_num))
  have := hmin m hm
  have e : (2 : ℝ) * (3 * 2⁻¹ ^ 11 - 2⁻¹ ^ 15 + 2 * 2⁻¹ ^ 17 + 2⁻¹ ^ 20)
      < 3 * 2⁻¹ ^ 10 + 2⁻¹ ^ 19 := by norm_num
  nlinarith [this, ht, hε, e]

/-! ### first among identical nodes — for every rounding whatsoever -/

/-- nodes with identical coordinates get the identical computed squared distance, whatever the
arithmetic does -/
theorem rqsumsq_congr (rnd : ℝ → ℝ) (x : Nat → Nat → ℝ) (q : Nat → ℝ) (d i j : Nat)
    (hij : ∀ c < d, x c i = x c j) : rqsumsq rnd x q d i = rqsumsq rnd x q d j := by
  unfold rqsumsq qsumsq
  apply List.foldl_ext
  intro acc c hc
  rw [hij c (List.mem_range.1 hc)]

/-- **`Grid.node_number`, any rounding** (no standard model, any square root): no node before
the one returned has the same coordinates — among identical nodes the first is returned -/
theorem gridNodeNumber_rounded_first (rnd sq : ℝ → ℝ) (x : Nat → Nat → ℝ) (q : Nat → ℝ)
    (d N k : Nat) (hk : rGridNodeNumber rnd sq x q d N = some k) :
    ∀ m < k, ¬ ∀ c < d, x c m = x c k := by
  intro m hm hsame
  obtain ⟨v, hv, -, hfirst⟩ := argminFirst_spec _ k hk
  have hkN : k < N := by
    by_contra hk'
    rw [List.getElem?_eq_none (by simpa using Nat.le_of_not_lt hk')] at hv
    cases hv
  rw [List.getElem?_map, List.getElem?_range hkN] at hv
  simp only [Option.map_some, Option.some.injEq] at hv
  have := hfirst m hm (sq (rqsumsq rnd x q d m)) (by
    rw [List.getElem?_map, List.getElem?_range (by omega)]; rfl)
  rw [← hv, rqsumsq_congr rnd x q d m k hsame] at this
  exact lt_irrefl _ this

/-- **`GeoGrid.node_number`, any rounding, any `arccos`**: no node before the one returned has
the same four table entries (in particular: the same stored latitude and longitude) -/
theorem geoNodeNumber_rounded_first (rnd ac : ℝ → ℝ) (sl cl sn cn : Nat → ℝ)
    (slv clv snv cnv : ℝ) (N k : Nat)
    (hk : rGeoNodeNumber rnd ac sl cl sn cn slv clv snv cnv N = some k) :
    ∀ m < k, ¬ (sl m = sl k ∧ cl m = cl k ∧ sn m = sn k ∧ cn m = cn k) := by
  intro m hm hsame
  obtain ⟨v, hv, -, hfirst⟩ := argminFirst_spec _ k hk
  have hkN : k < N := by
    by_contra hk'
    rw [List.getElem?_eq_none (by simpa using Nat.le_of_not_lt hk')] at hv
    cases hv
  rw [List.getElem?_map, List.getElem?_range hkN] at hv
  simp only [Option.map_some, Option.some.injEq] at hv
  have := hfirst m hm (ac (clampMask (rGeoExpr rnd sl cl sn cn slv clv snv cnv m))) (by
    rw [List.getElem?_map, List.getElem?_range (by omega)]; rfl)
  have e : rGeoExpr rnd sl cl sn cn slv clv snv cnv m = rGeoExpr rnd sl cl sn cn slv clv snv cnv k := by
    unfold rGeoExpr
    rw [hsame.1, hsame.2.1, hsame.2.2.1, hsame.2.2.2]
  rw [← hv, e] at this
  exact lt_irrefl _ this

/-- non-vacuity: two coincident nodes on the line, the first one is returned -/
example : rGridNodeNumber (fun v => v) Real.sqrt (fun _ _ => 1) (fun _ => 0) 1 2 = some 0 := by
  simp [rGridNodeNumber, rqsumsq, qsumsq, argminFirst, argminAux]

/-! ### the radian conversion is no longer a hypothesis -/

/-- **float32, correctly rounded tables, the conversion `x * np.pi / 180` as evaluated**
(`|lat| ≤ 90°`, `|lon| ≤ 360°`): every entry of the distance matrix within `2⁻¹⁰` rad of the
great-circle distance.  Compared with `angular_entry_accuracy_float32_cr` the two hypotheses
on the radian values are gone: the tables are within `δ` of `sin` / `cos` *of the computed
radians* `rRad rnd p (lat i)`, and `rRad_error_float32` bounds their distance from the exact
ones (`90·2⁻²⁸ + 360·2⁻²⁸ < 2⁻¹⁹`). -/
theorem angular_entry_accuracy_float32_rad {rnd : ℝ → ℝ} (h : StdRound rnd (2⁻¹ ^ 24))
    (p : ℝ) (hp : |p - Real.pi| ≤ 2⁻¹ ^ 24 * Real.pi)
    (lat lon sl cl sn cn : Nat → ℝ) (δ : ℝ) (hδ : δ ≤ 2⁻¹ ^ 25)
    (hlat : ∀ i, |lat i| ≤ 90) (hlon : ∀ i, |lon i| ≤ 360)
    (hsl : ∀ i, |sl i - Real.sin (rRad rnd p (lat i))| ≤ δ)
    (hcl : ∀ i, |cl i - Real.cos (rRad rnd p (lat i))| ≤ δ)
    (hsn : ∀ i, |sn i - Real.sin (rRad rnd p (lon i))| ≤ δ)
    (hcn : ∀ i, |cn i - Real.cos (rRad rnd p (lon i))| ≤ δ)
    (N a b : Nat) (ha : a < N) (hb : b < N) :
    |Real.arccos (rCosAngKernel rnd sl cl sn cn N a b) - angularDistance realTrig lat lon N a b|
      < 2⁻¹ ^ 10 :=
  angular_entry_accuracy_float32_cr h lat lon (fun i => rRad rnd p (lat i))
    (fun i => rRad rnd p (lon i)) sl cl sn cn δ (90 * 2⁻¹ ^ 28) (360 * 2⁻¹ ^ 28) hδ (by norm_num)
    hsl hcl hsn hcn (fun i => rRad_error_float32 h p (lat i) hp 90 (hlat i))
    (fun i => rRad_error_float32 h p (lon i) hp 360 (hlon i)) N a b ha hb

/-- the same for numpy's actual tables (`δ ≤ 3·2⁻²⁵`) and longitudes up to ±1440°: `3·2⁻¹¹` -/
theorem angular_entry_accuracy_float32_rad_wide {rnd : ℝ → ℝ} (h : StdRound rnd (2⁻¹ ^ 24))
    (p : ℝ) (hp : |p - Real.pi| ≤ 2⁻¹ ^ 24 * Real.pi)
    (lat lon sl cl sn cn : Nat → ℝ) (δ : ℝ) (hδ : δ ≤ 3 * 2⁻¹ ^ 25)
    (hlat : ∀ i, |lat i| ≤ 90) (hlon : ∀ i, |lon i| ≤ 1440)
    (hsl : ∀ i, |sl i - Real.sin (rRad rnd p (lat i))| ≤ δ)
    (hcl : ∀ i, |cl i - Real.cos (rRad rnd p (lat i))| ≤ δ)
    (hsn : ∀ i, |sn i - Real.sin (rRad rnd p (lon i))| ≤ δ)
    (hcn : ∀ i, |cn i - Real.cos (rRad rnd p (lon i))| ≤ δ)
    (N a b : Nat) (ha : a < N) (hb : b < N) :
    |Real.arccos (rCosAngKernel rnd sl cl sn cn N a b) - angularDistance realTrig lat lon N a b|
      < 3 * 2⁻¹ ^ 11 :=
  angular_entry_accuracy_float32 h lat lon (fun i => rRad rnd p (lat i))
    (fun i => rRad rnd p (lon i)) sl cl sn cn δ (90 * 2⁻¹ ^ 28) (1440 * 2⁻¹ ^ 28) hδ (by norm_num)
    hsl hcl hsn hcn (fun i => rRad_error_float32 h p (lat i) hp 90 (hlat i))
    (fun i => rRad_error_float32 h p (lon i) hp 1440 (hlon i)) N a b ha hb

/-! ### the linear regime for the rounded kernel ("relative error near 2⁻²⁰ away from
coincident and antipodal pairs") -/

/-- **accuracy of the rounded kernel away from coincident and antipodal pairs**: if the
returned angle lies in `[m, π - m]` and the great-circle distance in
`[m + 2(εφ+εl), π - m - 2(εφ+εl)]`, the error is *linear* in the rounding errors:
`≤ π / (2 sin m) · η + 2 (εφ + εl)` with the `η` of `angular_entry_error_rounded` — no
square root of `η` as at the end points.  Around `π/2` this is `≈ 1.6·η ≈ 2⁻²⁰` for float32. -/
theorem angular_entry_mid_error_rounded {rnd : ℝ → ℝ} {u : ℝ} (h : StdRound rnd u)
    (lat lon φ' l' sl cl sn cn : Nat → ℝ) (δ εφ εl m : ℝ) (hδ : δ ≤ 1 / 16) (hm : 0 < m)
    (hsl : ∀ i, |sl i - Real.sin (φ' i)| ≤ δ) (hcl : ∀ i, |cl i - Real.cos (φ' i)| ≤ δ)
    (hsn : ∀ i, |sn i - Real.sin (l' i)| ≤ δ) (hcn : ∀ i, |cn i - Real.cos (l' i)| ≤ δ)
    (hφ : ∀ i, |φ' i - lat i * Real.pi / 180| ≤ εφ) (hl : ∀ i, |l' i - lon i * Real.pi / 180| ≤ εl)
    (N a b : Nat) (ha : a < N) (hb : b < N)
    (h1 : m + 2 * (εφ + εl) ≤ angularDistance realTrig lat lon N a b)
    (h2 : angularDistance realTrig lat lon N a b ≤ Real.pi - m - 2 * (εφ + εl))
    (h3 : m ≤ Real.arccos (rCosAngKernel rnd sl cl sn cn N a b))
    (h4 : Real.arccos (rCosAngKernel rnd sl cl sn cn N a b) ≤ Real.pi - m) :
    |Real.arccos (rCosAngKernel rnd sl cl sn cn N a b) - angularDistance realTrig lat lon N a b|
      ≤ Real.pi / (2 * Real.sin m)
          * (((1 + u) ^ 5 - 1) * (1 + 3 * δ) ^ 2 + (566 / 100 * δ + 11 * δ ^ 2))
        + 2 * (εφ + εl) := by
  have key : ∀ i j, m + 2 * (εφ + εl) ≤ angle (nodeVec lat lon i) (nodeVec lat lon j) →
      angle (nodeVec lat lon i) (nodeVec lat lon j) ≤ Real.pi - m - 2 * (εφ + εl) →
      m ≤ Real.arccos (clamp (rCosExpr rnd sl cl sn cn i j)) →
      Real.arccos (clamp (rCosExpr rnd sl cl sn cn i j)) ≤ Real.pi - m →
      |Real.arccos (clamp (rCosExpr rnd sl cl sn cn i j))
        - angle (nodeVec lat lon i) (nodeVec lat lon j)|
      ≤ Real.pi / (2 * Real.sin m)
          * (((1 + u) ^ 5 - 1) * (1 + 3 * δ) ^ 2 + (566 / 100 * δ + 11 * δ ^ 2))
        + 2 * (εφ + εl) := by
    intro i j g1 g2 g3 g4
    have hc := rCosExpr_total_error h φ' l' sl cl sn cn δ hδ hsl hcl hsn hcn i j
    set c'' := inner ℝ (unitVec (φ' i) (l' i)) (unitVec (φ' j) (l' j)) with hc''
    have hmm : -1 ≤ c'' ∧ c'' ≤ 1 := by
      have := abs_real_inner_le_norm (unitVec (φ' i) (l' i)) (unitVec (φ' j) (l' j))
      simp only [norm_unitVec, mul_one] at this
      exact abs_le.1 this
    have hcl' := clamp_mem (rCosExpr rnd sl cl sn cn i j)
    have hp := angle_perturb (nodeVec lat lon i) (nodeVec lat lon j)
      (unitVec (φ' i) (l' i)) (unitVec (φ' j) (l' j))
    have hk : ∀ k, angle (nodeVec lat lon k) (unitVec (φ' k) (l' k)) ≤ εφ + εl := by
      intro k
      refine le_trans (angle_unitVec_le _ _ _ _) ?_
      linarith [hφ k, hl k, abs_sub_comm (φ' k) (lat k * Real.pi / 180),
        abs_sub_comm (l' k) (lon k * Real.pi / 180)]
    have hpert : |angle (unitVec (φ' i) (l' i)) (unitVec (φ' j) (l' j))
        - angle (nodeVec lat lon i) (nodeVec lat lon j)| ≤ 2 * (εφ + εl) := by
      linarith [hk i, hk j]
    have hpa := abs_le.1 hpert
    rw [angle_unitVec, ← hc''] at hpert hpa
    have hs : 0 < Real.sin m :=
      Real.sin_pos_of_pos_of_lt_pi hm (by linarith [Real.arccos_nonneg (clamp (rCosExpr rnd sl cl sn cn i j))])
    have hmid := arccos_sub_le_mid _ _ m hcl'.1 hcl'.2 hmm.1 hmm.2 hm g3 g4
      (by linarith [hpa.1]) (by linarith [hpa.2])
    have hle : Real.pi / (2 * Real.sin m) * |clamp (rCosExpr rnd sl cl sn cn i j) - c''|
        ≤ Real.pi / (2 * Real.sin m)
          * (((1 + u) ^ 5 - 1) * (1 + 3 * δ) ^ 2 + (566 / 100 * δ + 11 * δ ^ 2)) :=
      mul_le_mul_of_nonneg_left (le_trans (clamp_close _ c'' hmm.1 hmm.2) hc)
        (div_nonneg Real.pi_pos.le (by linarith))
    have := abs_sub_le (Real.arccos (clamp (rCosExpr rnd sl cl sn cn i j))) (Real.arccos c'')
      (angle (nodeVec lat lon i) (nodeVec lat lon j))
    linarith
  rw [rCosAngKernel_apply rnd sl cl sn cn N a b ha hb] at h3 h4 ⊢
  rw [angularDistance_eq_angle lat lon N a b ha hb] at h1 h2 ⊢
  rcases Nat.le_total a b with hab | hab
  · rw [Nat.max_eq_right hab, Nat.min_eq_left hab] at h3 h4 ⊢
    rw [angle_comm] at h1 h2 ⊢
    exact key b a h1 h2 h3 h4
  · rw [Nat.max_eq_left hab, Nat.min_eq_right hab] at h3 h4 ⊢
    exact key a b h1 h2 h3 h4

/-- **float32, numpy's tables (`δ ≤ 3·2⁻²⁵`), the conversion as evaluated, `|lat| ≤ 90°`,
`|lon| ≤ 360°`, angles between 0.25 and π − 0.25** (the oracle's middle range): every such
entry is within `2⁻¹⁶` rad of the great-circle distance — 64 times better than the `2⁻¹⁰` that
holds everywhere. -/
theorem angular_entry_mid_accuracy_float32 {rnd : ℝ → ℝ} (h : StdRound rnd (2⁻¹ ^ 24))
    (p : ℝ) (hp : |p - Real.pi| ≤ 2⁻¹ ^ 24 * Real.pi)
    (lat lon sl cl sn cn : Nat → ℝ) (δ : ℝ) (hδ : δ ≤ 3 * 2⁻¹ ^ 25)
    (hlat : ∀ i, |lat i| ≤ 90) (hlon : ∀ i, |lon i| ≤ 360)
    (hsl : ∀ i, |sl i - Real.sin (rRad rnd p (lat i))| ≤ δ)
    (hcl : ∀ i, |cl i - Real.cos (rRad rnd p (lat i))| ≤ δ)
    (hsn : ∀ i, |sn i - Real.sin (rRad rnd p (lon i))| ≤ δ)
    (hcn : ∀ i, |cn i - Real.cos (rRad rnd p (lon i))| ≤ δ)
    (N a b : Nat) (ha : a < N) (hb : b < N)
    (h1 : 1 / 4 + 2⁻¹ ^ 18 ≤ angularDistance realTrig lat lon N a b)
    (h2 : angularDistance realTrig lat lon N a b ≤ Real.pi - 1 / 4 - 2⁻¹ ^ 18)
    (h3 : 1 / 4 ≤ Real.arccos (rCosAngKernel rnd sl cl sn cn N a b))
    (h4 : Real.arccos (rCosAngKernel rnd sl cl sn cn N a b) ≤ Real.pi - 1 / 4) :
    |Real.arccos (rCosAngKernel rnd sl cl sn cn N a b) - angularDistance realTrig lat lon N a b|
      < 2⁻¹ ^ 16 := by
  have hδ0 : 0 ≤ δ := le_trans (abs_nonneg _) (hsl 0)
  have hε : (2 : ℝ) * (90 * 2⁻¹ ^ 28 + 360 * 2⁻¹ ^ 28) ≤ 2⁻¹ ^ 18 := by norm_num
  have hmain := angular_entry_mid_error_rounded h lat lon (fun i => rRad rnd p (lat i))
    (fun i => rRad rnd p (lon i)) sl cl sn cn δ (90 * 2⁻¹ ^ 28) (360 * 2⁻¹ ^ 28) (1 / 4)
    (le_trans hδ (by norm_num)) (by norm_num) hsl hcl hsn hcn
    (fun i => rRad_error_float32 h p (lat i) hp 90 (hlat i))
    (fun i => rRad_error_float32 h p (lon i) hp 360 (hlon i)) N a b ha hb
    (by linarith) (by linarith) h3 h4
  have hη : ((1 + (2⁻¹ : ℝ) ^ 24) ^ 5 - 1) * (1 + 3 * δ) ^ 2 + (566 / 100 * δ + 11 * δ ^ 2)
      ≤ ((1 + (2⁻¹ : ℝ) ^ 24) ^ 5 - 1) * (1 + 3 * (3 * 2⁻¹ ^ 25)) ^ 2
        + (566 / 100 * (3 * 2⁻¹ ^ 25) + 11 * (3 * 2⁻¹ ^ 25) ^ 2) := by
    have : (0 : ℝ) ≤ (1 + 2⁻¹ ^ 24) ^ 5 - 1 := by norm_num
    gcongr
  have hη0 : (0 : ℝ) ≤ ((1 + (2⁻¹ : ℝ) ^ 24) ^ 5 - 1) * (1 + 3 * δ) ^ 2
      + (566 / 100 * δ + 11 * δ ^ 2) := by
    have : (0 : ℝ) ≤ (1 + 2⁻¹ ^ 24) ^ 5 - 1 := by norm_num
    positivity
  -- `π / (2 sin (1/4)) ≤ 13/2`
  have hs : (246 / 1000 : ℝ) < Real.sin (1 / 4) := by
    have := Real.sin_gt_sub_cube (x := 1 / 4) (by norm_num)
    norm_num at this ⊢
    linarith
  have hL : Real.pi / (2 * Real.sin (1 / 4)) ≤ 13 / 2 := by
    rw [div_le_iff₀ (by linarith)]
    linarith [Real.pi_lt_d2]
  have hprod : Real.pi / (2 * Real.sin (1 / 4))
      * (((1 + (2⁻¹ : ℝ) ^ 24) ^ 5 - 1) * (1 + 3 * δ) ^ 2 + (566 / 100 * δ + 11 * δ ^ 2))
      ≤ 13 / 2 * (((1 + (2⁻¹ : ℝ) ^ 24) ^ 5 - 1) * (1 + 3 * (3 * 2⁻¹ ^ 25)) ^ 2
        + (566 / 100 * (3 * 2⁻¹ ^ 25) + 11 * (3 * 2⁻¹ ^ 25) ^ 2)) :=
    mul_le_mul hL hη hη0 (by norm_num)
  have hnum : (13 / 2 : ℝ) * (((1 + (2⁻¹ : ℝ) ^ 24) ^ 5 - 1) * (1 + 3 * (3 * 2⁻¹ ^ 25)) ^ 2
        + (566 / 100 * (3 * 2⁻¹ ^ 25) + 11 * (3 * 2⁻¹ ^ 25) ^ 2))
      + 2 * (90 * 2⁻¹ ^ 28 + 360 * 2⁻¹ ^ 28) < 2⁻¹ ^ 16 := by norm_num
  linarith

/-- non-vacuity of the linear regime: the north pole and a point of the equator in exact
arithmetic with exact tables (`u = δ = ε = 0`, `m = 1/4`); their distance is `π/2` -/
example :
    |Real.arccos (rCosAngKernel (fun v => v)
        (fun i => Real.sin ((if i = 0 then 90 else 0 : ℝ) * Real.pi / 180))
        (fun i => Real.cos ((if i = 0 then 90 else 0 : ℝ) * Real.pi / 180))
        (fun _ => Real.sin ((0 : ℝ) * Real.pi / 180)) (fun _ => Real.cos ((0 : ℝ) * Real.pi / 180)) 2 0 1)
      - angularDistance realTrig (fun i => if i = 0 then 90 else 0) (fun _ => 0) 2 0 1|
      ≤ Real.pi / (2 * Real.sin (1 / 4))
          * (((1 + 0) ^ 5 - 1) * (1 + 3 * 0) ^ 2 + (566 / 100 * 0 + 11 * 0 ^ 2)) + 2 * (0 + 0) := by
  have hD : angularDistance realTrig (fun i => if i = 0 then (90 : ℝ) else 0) (fun _ => 0) 2 0 1
      = Real.pi / 2 := by
    have hc := cos_angularDistance (fun i => if i = 0 then (90 : ℝ) else 0) (fun _ => 0) 2 0 1
      (by omega) (by omega)
    have e : (90 : ℝ) * Real.pi / 180 = Real.pi / 2 := by ring
    simp [e] at hc
    have hr := angularDistance_range (fun i => if i = 0 then (90 : ℝ) else 0) (fun _ => 0) 2 0 1
    rw [← Real.arccos_cos hr.1 hr.2, hc, Real.arccos_zero]
  have hK : Real.arccos (rCosAngKernel (fun v => v)
        (fun i => Real.sin ((if i = 0 then 90 else 0 : ℝ) * Real.pi / 180))
        (fun i => Real.cos ((if i = 0 then 90 else 0 : ℝ) * Real.pi / 180))
        (fun _ => Real.sin ((0 : ℝ) * Real.pi / 180)) (fun _ => Real.cos ((0 : ℝ) * Real.pi / 180)) 2 0 1)
      = angularDistance realTrig (fun i => if i = 0 then 90 else 0) (fun _ => 0) 2 0 1 := rfl
  have hpi := Real.pi_gt_three
  have hpi' := Real.pi_le_four
  exact angular_entry_mid_error_rounded (u := 0) ⟨le_refl _, by norm_num, fun v => by simp⟩
    (fun i => if i = 0 then 90 else 0) (fun _ => 0)
    (fun i => (if i = 0 then 90 else 0 : ℝ) * Real.pi / 180) (fun _ => (0 : ℝ) * Real.pi / 180)
    _ _ _ _ 0 0 0 (1 / 4) (by norm_num) (by norm_num) (by simp) (by simp) (by simp) (by simp)
    (by simp) (by simp) 2 0 1 (by omega) (by omega)
    (by rw [hD]; linarith) (by rw [hD]; linarith) (by rw [hK, hD]; linarith)
    (by rw [hK, hD]; linarith)

/-- non-vacuity of the conversion bound: exact arithmetic with the exact constant -/
example : |rRad (fun v => v) Real.pi 360 - 360 * Real.pi / 180| ≤ 360 * (2⁻¹ : ℝ) ^ 28 :=
  rRad_error_float32 ⟨by norm_num, by norm_num, fun v => by simp⟩ Real.pi 360
    (by simp; positivity) 360 (by norm_num)

/-! ## tie to the source: the definitions regenerated from the working tree

`translate/gen_C12.py` re-reads `numerics.pyx`, `geo_grid.py`, `grid.py` and
`geo_network.py` on every run and writes `Generated/StructC12.lean`: loop bounds, the
expression assigned to `expr`, the clamp chains, the index pairs stored, the argument
wiring of `GeoGrid.angular_distance`, the degree → radian conversion.  The theorems below
state that these *generated* definitions are the model the theorems above are about.
Algebraic identities are stated over commutative rings / ordered fields (so a
semantics-preserving reordering of the source does not break the tie). -/

section SourceTie
open Pyunicorn.Generated

/-- the symmetric triangular fill as the source's loops and stores spell it -/
def fillBy {α : Type} (outer : Nat) (inner : Nat → Nat) (stores : Nat → Nat → List (Nat × Nat))
    (f : Nat → Nat → α) (M : Nat → Nat → α) : Nat → Nat → α :=
  ((List.range outer).flatMap fun i => (List.range (inner i)).map fun j => (i, j)).foldl
    (fun M p => (stores p.1 p.2).foldl (fun M q => upd M q.1 q.2 (f p.1 p.2)) M) M

/-- loops and stores of `_calculate_angular_distance` are the model's `fillSym` -/
theorem src_angular_fill {α : Type} (N : Nat) (f : Nat → Nat → α) (M : Nat → Nat → α) :
    fillBy (StructC12.angOuter N) StructC12.angInner StructC12.angStores f M = fillSym N f M := rfl

/-- loops and stores of `_calculate_euclidean_distance` are the model's `fillSym` -/
theorem src_euclid_fill {α : Type} (N : Nat) (f : Nat → Nat → α) (M : Nat → Nat → α) :
    fillBy (StructC12.eucOuter N) StructC12.eucInner StructC12.eucStores f M = fillSym N f M := rfl

/-- the expression of the angular kernel is `cosExpr` (arguments in the kernel's
parameter order `cos_lat, sin_lat, cos_lon, sin_lon`) -/
theorem src_angular_expr {α : Type} [CommRing α] (cl sl cn sn : Nat → α) (i j : Nat) :
    StructC12.angExpr cl sl cn sn i j = cosExpr sl cl sn cn i j := by
  unfold StructC12.angExpr cosExpr; ring

/-- the kernel's `if … elif …` is `clamp` -/
theorem src_angular_clamp {α : Type} [Field α] [LinearOrder α] [IsStrictOrderedRing α] (e : α) :
    StructC12.angClamp e = clamp e := by
  have h : (-1 : α) < 1 := by linarith [zero_lt_one (α := α)]
  unfold StructC12.angClamp clamp
  by_cases h1 : 1 < e
  · simp [h1]
  · by_cases h2 : e < -1 <;> simp [h1, h2]

/-- `GeoGrid.angular_distance` passes `self.cos_lat()` as `cos_lat`, … (no table is
swapped), and returns `np.arccos` of the matrix the kernel filled; the tables are
`cos` / `sin` of `lat_sequence()` / `lon_sequence()` converted by `x * π / 180`, and those
sequences are rows 0 / 1 of the coordinate array -/
theorem src_angular_wiring :
    (∀ p ∈ StructC12.angBinding, p.1 = p.2) ∧
    StructC12.angBinding.map (·.1) = StructC12.angParams.take 4 ∧
    StructC12.angResultFn = "np.arccos" ∧
    StructC12.trigTables = [("cos_lat", "np.cos", "lat_sequence"), ("sin_lat", "np.sin", "lat_sequence"),
      ("cos_lon", "np.cos", "lon_sequence"), ("sin_lon", "np.sin", "lon_sequence")] ∧
    StructC12.latDim = 0 ∧ StructC12.lonDim = 1 := by decide

theorem src_rad (x : ℝ) : StructC12.rad x Real.pi = realTrig.rad x := rfl

/-- the Euclidean kernel accumulates `sumsq` and takes the power `1/2` -/
theorem src_euclid_expr {α : Type} [CommRing α] (x : Nat → Nat → α) (d i j : Nat) :
    (List.range (StructC12.eucDim d)).foldl (fun acc k => acc + StructC12.eucTerm x k i j)
        StructC12.eucInit = sumsq x d i j ∧ StructC12.eucExponent = 1 / 2 := by
  refine ⟨?_, rfl⟩
  have h : (fun (acc : α) k => acc + StructC12.eucTerm x k i j)
      = fun acc k => acc + (x k i - x k j) * (x k i - x k j) := by
    funext acc k; unfold StructC12.eucTerm; ring
  simp only [StructC12.eucDim, StructC12.eucInit, sumsq, h]

/-- `GeoGrid.node_number`: the vectorised expression and its two masked assignments are
the model's; the query point's tables are `sin` / `cos` of `lat_node` / `lon_node` -/
theorem src_geoNodeNumber {α : Type} [Field α] [LinearOrder α] [IsStrictOrderedRing α]
    (cl sl cn sn : Nat → α) (slv clv snv cnv : α) (i : Nat) :
    StructC12.nnClamp (StructC12.nnExpr cl sl cn sn slv clv snv cnv i)
      = clampMask (sl i * slv + cl i * clv * (sn i * snv + cn i * cnv)) := by
  have e : StructC12.nnExpr cl sl cn sn slv clv snv cnv i
      = sl i * slv + cl i * clv * (sn i * snv + cn i * cnv) := by
    unfold StructC12.nnExpr; ring
  rw [e, clampMask_eq_clamp]
  generalize sl i * slv + cl i * clv * (sn i * snv + cn i * cnv) = v
  have h : (-1 : α) < 1 := by linarith [zero_lt_one (α := α)]
  unfold StructC12.nnClamp clamp
  by_cases h1 : 1 < v
  · have h2 : ¬ v < -1 := by intro h2; linarith
    simp [h1, h2]
  · by_cases h2 : v < -1
    · have h3 : ¬ ((1 : α) < -1) := not_lt.2 h.le
      simp [h1, h2, h3]
    · simp [h1, h2]

theorem src_geoNodeNumber_query :
    StructC12.nnQueryTables.map (fun t => (t.1, t.2.1, t.2.2.1)) =
      [("sin_lat_v", "np.sin", "lat_node"), ("cos_lat_v", "np.cos", "lat_node"),
       ("sin_lon_v", "np.sin", "lon_node"), ("cos_lon_v", "np.cos", "lon_node")] ∧
    ∀ t ∈ StructC12.nnQueryTables, t.2.2.2 = "((x * pi) / 180)" := by decide

/-- `convert_lon_coordinates`: loop bound `self.N`, body `convertLon1` -/
theorem src_convertLon (lon : Nat → ℝ) (N i : Nat) :
    StructC12.convBound N = N ∧ StructC12.convStep lon i = convertLon1 (lon i) := by
  refine ⟨rfl, ?_⟩
  unfold StructC12.convStep convertLon1; rfl

/-- `Grid.node_number`: squared differences summed over the coordinates, `np.sqrt`,
`argmin` -/
theorem src_gridNodeNumber {α : Type} [CommRing α] (x : Nat → Nat → α) (q : Nat → α) (d i : Nat) :
    (List.range d).foldl (fun acc k => acc + StructC12.gridSq x q k i) 0 = qsumsq x q d i ∧
    StructC12.gridPost = "np.sqrt" ∧ StructC12.gridPick = "dist.argmin()" := by
  refine ⟨?_, by decide, by decide⟩
  have h : (fun (acc : α) k => acc + StructC12.gridSq x q k i)
      = fun acc k => acc + (x k i - q k) * (x k i - q k) := by
    funext acc k; unfold StructC12.gridSq; ring
  simp only [qsumsq, h]

/-- `set_node_weight_type`: `"surface"` → `cos_lat()`, `"irrigation"` → its square,
anything else → `None` (unit weights by the `node_weights` setter) -/
theorem src_weightCases :
    StructC12.weightCases = [("surface", "self.grid.cos_lat()"),
      ("irrigation", "np.square(self.grid.cos_lat())")] ∧ StructC12.weightElse = "None" := by
  decide

/-- round 3 — `geographical_distribution`: the weights are `self.grid.cos_lat()`, node `i`
adds `cos_lat[i]` (its own) to `hist[symbolic[i]]`, the histogram is divided by
`cos_lat.sum()`, and the symbol is `int((n_bins - 1) * scaling * (sequence - range_min))`
with `scaling = 1 / (range_max - range_min)` on Python floats — the model's `geoDist` -/
theorem src_geoDist :
    StructC12.geoDistLocals = [("cos_lat", "self.grid.cos_lat()"), ("norm", "cos_lat.sum()"),
      ("range_min", "float(sequence.min())"), ("range_max", "float(sequence.max())"),
      ("scaling", "1.0 / (range_max - range_min)"),
      ("symbolic", "((n_bins - 1) * scaling * (sequence - range_min)).astype(int)")] ∧
    StructC12.geoDistUpdates = [("hist[symbolic[i]]", "Add cos_lat[i]"), ("hist", "Div norm")] := by
  decide

/-- round 3 — the distance matrices come out of the grid's cache **by reference**: every
method of `Grid` / `GeoGrid` / `SpatialNetwork` / `GeoNetwork` that stores into a local
holding such a matrix obtained it through `.copy()` (seeded C12-3 removes the copy in
`local_geographical_clustering`) -/
theorem src_distance_copies :
    ∀ p ∈ StructC12.distEdits, p.2.2 = true := by decide

/-- round 4 — `Grid.euclidean_distance` hands the kernel `sequences.shape[0]` as `N_dim` and
`self.N` as `N_nodes`, `self.N` being `space_seq.shape[1]` (`Grid.__init__`), whatever the shape
and number of axes of the coordinate array; the kernel's `x` is the stored coordinate array, its
`distance` a fresh zero matrix, and that matrix is returned (seeded C12-5 passes `sequences.ndim`) -/
theorem src_euclid_wiring :
    (∀ s0 s1 nd, StructC12.eucNDim s0 s1 nd = s0) ∧ (∀ s0 s1 nd, StructC12.eucNNodes s0 s1 nd = s1) ∧
    (∀ s0 s1 nd, StructC12.gridN s0 s1 nd = s1) ∧
    StructC12.eucBinding = [("x", "sequences", "to_cy(self._grid['space'], FIELD)"),
      ("distance", "distance", "np.zeros((N_nodes, N_nodes), dtype=FIELD)")] ∧
    StructC12.eucReturn = "distance" ∧ StructC12.gridSpaceStored = "space_seq.astype('float32')" :=
  ⟨fun _ _ _ => rfl, fun _ _ _ => rfl, fun _ _ _ => rfl, by decide, by decide, by decide⟩

/-- the object-level model `gridEuclideanDistance` is the kernel model at the sizes the source
computes from the shape `(dim, n)` of the two-dimensional coordinate array -/
theorem src_gridEuclideanDistance {α : Type} [Add α] [Mul α] [Sub α] [Neg α] [Div α] [OfNat α 0]
    [OfNat α 1] [LT α] [DecidableLT α] [DecidableEq α] (T : Trig α) (g : GridData α) :
    gridEuclideanDistance T g
      = euclKernel T.sqrt g.x (StructC12.eucNDim g.dim g.n 2) (StructC12.eucNNodes g.dim g.n 2) := rfl

/-- `Grid.distance` returns the Euclidean, the override `GeoGrid.distance` the angular distances;
`GeoGrid.__init__` stacks `(lat_seq, lon_seq)` in this order (rows 0 / 1, cf. `src_angular_wiring`);
`GeoGrid.coord_sequence_from_rect_grid` is the generic routine on `[lat_grid, lon_grid]` -/
theorem src_grid_objects :
    StructC12.distanceTargets = [("Grid", "self.euclidean_distance()"),
      ("GeoGrid", "self.angular_distance()")] ∧
    StructC12.geoInitSpace = "np.vstack((lat_seq, lon_seq))" ∧
    StructC12.geoRect = ("Grid.coord_sequence_from_rect_grid([lat_grid, lon_grid])",
      "(space_seq[0], space_seq[1])") := by decide

/-- `_calculate_general_connectivity_weighted_distance` is the model's `genCWD` (angular
distances, weights `cos_lat()`, the neighbour's weight inside the sum, division by
`degree * cos_lat.sum()` where the degree is not zero), with the (adjacency, degree) pairs the
three wrappers pass; the total link distances are the products `ald * awc` of the matching
in / out / undirected variants -/
theorem src_cwd :
    StructC12.cwdLocals = [("D", "self.grid.angular_distance()"), ("cos_lat", "self.grid.cos_lat()"),
      ("norm", "cos_lat.sum()")] ∧
    StructC12.cwdLoop = ("range(self.N)", "connectivity_weighted_distance[i]",
      "(adjacency[i, :] * cos_lat * D[i, :]).sum()") ∧
    StructC12.cwdNormalise = ("connectivity_weighted_distance[degree != 0]",
      "Div degree[degree != 0] * norm") ∧
    StructC12.cwdReturn = "connectivity_weighted_distance" ∧
    StructC12.cwdWrappers = [
      ("connectivity_weighted_distance", "self.undirected_adjacency().toarray()", "self.degree()"),
      ("inconnectivity_weighted_distance", "self.adjacency.transpose()", "self.indegree()"),
      ("outconnectivity_weighted_distance", "self.adjacency", "self.outdegree()")] ∧
    StructC12.tldProducts = [
      ("total_link_distance", "self.average_link_distance(geometry_corrected)",
        "self.area_weighted_connectivity()"),
      ("intotal_link_distance", "self.inaverage_link_distance(geometry_corrected)",
        "self.inarea_weighted_connectivity()"),
      ("outtotal_link_distance", "self.outaverage_link_distance(geometry_corrected)",
        "self.outarea_weighted_connectivity()")] := by decide

/-! ### round 5 — the tie in *rounded* arithmetic

The generated definitions are polymorphic in the operations, so they can be instantiated with
the rounding operations of `Lemmas/GeoRound*.lean`: the order in which the **source** applies
its operations (which is what a rounding analysis is about) is the order the theorems
`gridNodeNumber_rounded`, `geoNodeNumber_rounded`, `rRad_error` analyse.  Commuted operands
(`a*b` / `b*a`, `a+b` / `b+a`) round identically and are accepted. -/

set_option linter.unreachableTactic false
set_option linter.unusedTactic false

/-- `x * np.pi / 180` as written in `cos_lat` … `sin_lon`, product and quotient rounded -/
theorem src_rRad (rnd : ℝ → ℝ) (p x : ℝ) :
    @StructC12.rad ℝ ⟨fun a b => rnd (a * b)⟩ ⟨fun a b => rnd (a / b)⟩ _ x p = rRad rnd p x := by
  first
    | rfl
    | (simp only [StructC12.rad, rRad, rMul_eq, rDiv_eq]; simp only [mul_comm])

/-- element `i` of the vectorised expression of `GeoGrid.node_number`, `+` and `*` rounded -/
theorem src_rGeoExpr (rnd : ℝ → ℝ) (sl cl sn cn : Nat → ℝ) (slv clv snv cnv : ℝ) (i : Nat) :
    @StructC12.nnExpr ℝ ⟨fun a b => rnd (a + b)⟩ _ ⟨fun a b => rnd (a * b)⟩ _ _ _
      cl sl cn sn slv clv snv cnv i = rGeoExpr rnd sl cl sn cn slv clv snv cnv i := by
  first
    | rfl
    | (simp only [StructC12.nnExpr, rGeoExpr, rMul_eq, rAdd_eq]
       simp only [mul_comm, add_comm])

/-- the accumulation of `Grid.node_number` (`diff = space.T - x`, `diff**2`, `np.sum(axis=1)`),
every `-`, `*`, `+` rounded -/
theorem src_rGridNodeNumber (rnd : ℝ → ℝ) (x : Nat → Nat → ℝ) (q : Nat → ℝ) (d i : Nat) :
    (List.range d).foldl (fun acc k => rnd (acc +
      @StructC12.gridSq ℝ _ ⟨fun a b => rnd (a - b)⟩ ⟨fun a b => rnd (a * b)⟩ _ _ _ x q k i)) 0
      = rqsumsq rnd x q d i := by
  first
    | rfl
    | (simp only [StructC12.gridSq, rqsumsq, qsumsq, rMul_eq, rAdd_eq, rSub_eq]
       simp only [mul_comm, add_comm])

end SourceTie

/-! ## Round 5e — `GeoGrid.region_indices`

The source reshapes the region into `(lon, lat)` pairs, adds 360 to the negative polygon
longitudes if all grid longitudes are `≥ 0`, and asks matplotlib whether each node `(lon_i, lat_i)`
lies in the polygon (model: `Model/GeoRegion.lean`).  For the lat/lon box `boxRegion x0 y0 x1 y1`
the mask is `X0 ≤ lon_i ≤ X1 ∧ y0 < lat_i ≤ y1` with `X` the corner after the remapping. -/
section RegionIndices
set_option linter.unusedSectionVars false
variable {α : Type} [Field α] [LinearOrder α] [IsStrictOrderedRing α]

/-- the box corner after the conditional remapping of `region_indices` -/
def boxCorner (lon : List α) (x : α) : α := if lonNonneg lon then remapLon x else x

private theorem getD_lt {β : Type} (l : List β) (d : β) (i : Nat) (h : i < l.length) :
    l.getD i d = l[i] := by
  simp [List.getD_eq_getElem?_getD, h]

/-- **one entry per node**: whenever `region_indices` returns, the mask has as many entries as the
grid has nodes (`lat` and `lon` of a `GeoGrid` have the same length) -/
theorem regionIndices_length (lat lon region : List α) (m : List Bool)
    (hl : lat.length = lon.length) (h : regionIndices lat lon region = some m) :
    m.length = lon.length := by
  unfold regionIndices at h
  split at h
  · exact absurd h (by simp)
  · simp only [Option.some.injEq] at h
    subst h
    simp [hl]

/-- `region_indices` raises exactly for an empty grid (`min()` of nothing) or an odd number of
region entries (`reshape`) -/
theorem regionIndices_eq_none_iff (lat lon region : List α) :
    regionIndices lat lon region = none ↔ lon = [] ∨ region.length % 2 = 1 := by
  unfold regionIndices
  split
  · rename_i h
    simp only [true_iff]
    rcases Bool.or_eq_true _ _ ▸ h with h | h
    · left; simpa using h
    · right
      have : region.length % 2 ≠ 0 := by simpa using h
      omega
  · rename_i h
    simp only [reduceCtorEq, false_iff]
    intro h'
    apply h
    rcases h' with h' | h'
    · simp [h']
    · simp [h']

/-- **the box, as a whole mask.**  On a non-empty grid the lat/lon box `[x0, x1] × [y0, y1]`
(corners after the remapping in order: `X0 ≤ X1`, `y0 ≤ y1`) selects exactly `inBox`. -/
theorem regionIndices_box (lat lon : List α) (x0 y0 x1 y1 : α) (hne : lon ≠ [])
    (hx : boxCorner lon x0 ≤ boxCorner lon x1) (hy : y0 ≤ y1) :
    regionIndices lat lon (boxRegion x0 y0 x1 y1)
      = some ((List.zip lon lat).map (inBox (boxCorner lon x0) y0 (boxCorner lon x1) y1)) := by
  have he : lon.isEmpty = false := by
    cases lon with
    | nil => exact absurd rfl hne
    | cons a l => rfl
  have hlen : (boxRegion x0 y0 x1 y1).length % 2 = 0 := by simp [boxRegion]
  unfold regionIndices
  rw [he, hlen]
  simp only [Bool.false_or, bne_self_eq_false, Bool.false_eq_true, if_false]
  congr 1
  apply List.map_congr_left
  intro t _
  unfold boxCorner at hx ⊢
  unfold remapRegion
  cases hp : lonNonneg lon
  · simp only [hp, Bool.false_eq_true, if_false] at hx ⊢
    exact containsPoint_box x0 y0 x1 y1 t hx hy
  · simp only [hp, if_true] at hx ⊢
    rw [pairUp_box_map]
    exact containsPoint_box _ y0 _ y1 t hx hy

/-- **specification.**  Node `i` is selected by the box iff `X0 ≤ lon_i ≤ X1` and
`y0 < lat_i ≤ y1` (closed in longitude, the lower latitude bound excluded — the inclusiveness
of the crossing test the source delegates to) -/
theorem regionIndices_box_spec (lat lon : List α) (x0 y0 x1 y1 : α) (m : List Bool)
    (hl : lat.length = lon.length)
    (hx : boxCorner lon x0 ≤ boxCorner lon x1) (hy : y0 ≤ y1)
    (h : regionIndices lat lon (boxRegion x0 y0 x1 y1) = some m) (i : Nat) (hi : i < lon.length) :
    m.getD i false = true ↔
      (boxCorner lon x0 ≤ lon.getD i 0 ∧ lon.getD i 0 ≤ boxCorner lon x1)
      ∧ (y0 < lat.getD i 0 ∧ lat.getD i 0 ≤ y1) := by
  have hne : lon ≠ [] := by
    intro h0; rw [h0] at hi; exact absurd hi (by simp)
  rw [regionIndices_box lat lon x0 y0 x1 y1 hne hx hy] at h
  simp only [Option.some.injEq] at h
  subst h
  have hi' : i < lat.length := hl ▸ hi
  rw [getD_lt _ _ _ (by simp [hi, hi']), getD_lt _ _ _ hi,
    getD_lt _ _ _ hi', List.getElem_map, List.getElem_zip, inBox_iff]

/-- a box without a negative corner, or any box on a grid with a negative longitude, is not
remapped: the inequalities are those of the corners as given -/
theorem boxCorner_of_nonneg (lon : List α) (x : α) (h : 0 ≤ x) : boxCorner lon x = x := by
  unfold boxCorner remapLon
  split <;> simp [not_lt.mpr h]

theorem boxCorner_of_neg_lon (lon : List α) (x : α) (h : ∃ l ∈ lon, l < 0) :
    boxCorner lon x = x := by
  obtain ⟨l, hl, hneg⟩ := h
  have : lonNonneg lon = false := by
    unfold lonNonneg
    rw [Bool.eq_false_iff]
    intro hall
    have := List.all_eq_true.mp hall l hl
    simp only [ge_iff_le, decide_eq_true_eq] at this
    exact absurd hneg (not_lt.mpr this)
  simp [boxCorner, this]

/-- **monotone in the box.**  Every node selected by a box is selected by every box containing it
(both on the same grid, corners compared after the remapping) -/
theorem regionIndices_box_mono (lat lon : List α) (x0 y0 x1 y1 x0' y0' x1' y1' : α)
    (m m' : List Bool) (hl : lat.length = lon.length)
    (hx : boxCorner lon x0 ≤ boxCorner lon x1) (hy : y0 ≤ y1)
    (h0 : boxCorner lon x0' ≤ boxCorner lon x0) (h1 : boxCorner lon x1 ≤ boxCorner lon x1')
    (h2 : y0' ≤ y0) (h3 : y1 ≤ y1')
    (h : regionIndices lat lon (boxRegion x0 y0 x1 y1) = some m)
    (h' : regionIndices lat lon (boxRegion x0' y0' x1' y1') = some m')
    (i : Nat) (hi : i < lon.length) (hs : m.getD i false = true) : m'.getD i false = true := by
  have hx' : boxCorner lon x0' ≤ boxCorner lon x1' := le_trans h0 (le_trans hx h1)
  have hy' : y0' ≤ y1' := le_trans h2 (le_trans hy h3)
  rw [regionIndices_box_spec lat lon x0 y0 x1 y1 m hl hx hy h i hi] at hs
  rw [regionIndices_box_spec lat lon x0' y0' x1' y1' m' hl hx' hy' h' i hi]
  exact ⟨⟨le_trans h0 hs.1.1, le_trans hs.1.2 h1⟩, ⟨lt_of_le_of_lt h2 hs.2.1, le_trans hs.2.2 h3⟩⟩

/-- **a box around all nodes selects every node** -/
theorem regionIndices_box_all (lat lon : List α) (x0 y0 x1 y1 : α) (m : List Bool)
    (hl : lat.length = lon.length)
    (hlon : ∀ l ∈ lon, boxCorner lon x0 ≤ l ∧ l ≤ boxCorner lon x1)
    (hlat : ∀ l ∈ lat, y0 < l ∧ l ≤ y1)
    (h : regionIndices lat lon (boxRegion x0 y0 x1 y1) = some m) (i : Nat) (hi : i < lon.length) :
    m.getD i false = true := by
  have hi' : i < lat.length := hl ▸ hi
  have hx : boxCorner lon x0 ≤ boxCorner lon x1 :=
    le_trans (hlon _ (List.getElem_mem hi)).1 (hlon _ (List.getElem_mem hi)).2
  have hy : y0 ≤ y1 := le_trans (le_of_lt (hlat _ (List.getElem_mem hi')).1) (hlat _ (List.getElem_mem hi')).2
  rw [regionIndices_box_spec lat lon x0 y0 x1 y1 m hl hx hy h i hi,
    getD_lt _ _ _ hi, getD_lt _ _ _ hi']
  exact ⟨hlon _ (List.getElem_mem hi), hlat _ (List.getElem_mem hi')⟩

/-- **the whole globe.**  On a grid in geographic coordinates (latitudes in `[-90, 90]`, longitudes
either all in `[0, 360]` or all in `[-180, 180]` with a negative one) the box
`[-180 or 0, 180 or 360] × (-91, 90]` selects every node.  (A box whose lower edge is the south
pole latitude itself does *not* select a node at the pole: see `regionIndices_box_spec`.) -/
theorem regionIndices_globe (lat lon : List α) (m : List Bool) (hl : lat.length = lon.length)
    (hlat : ∀ l ∈ lat, -90 ≤ l ∧ l ≤ 90)
    (hlon : (∀ l ∈ lon, 0 ≤ l ∧ l ≤ 360) ∨ ((∀ l ∈ lon, -180 ≤ l ∧ l ≤ 180) ∧ ∃ l ∈ lon, l < 0))
    (h : regionIndices lat lon
      (if lonNonneg lon then boxRegion 0 (-91) 360 90 else boxRegion (-180) (-91) 180 90) = some m)
    (i : Nat) (hi : i < lon.length) : m.getD i false = true := by
  have hlat' : ∀ l ∈ lat, (-91 : α) < l ∧ l ≤ 90 := fun l hl' =>
    ⟨lt_of_lt_of_le (by norm_num) (hlat l hl').1, (hlat l hl').2⟩
  rcases hlon with hpos | ⟨hrange, hneg⟩
  · have hp : lonNonneg lon = true := by
      unfold lonNonneg
      rw [List.all_eq_true]
      intro l hl'
      simpa using (hpos l hl').1
    rw [hp] at h
    simp only [if_true] at h
    refine regionIndices_box_all lat lon 0 (-91) 360 90 m hl ?_ hlat' h i hi
    intro l hl'
    rw [boxCorner_of_nonneg lon 0 le_rfl, boxCorner_of_nonneg lon 360 (by norm_num)]
    exact hpos l hl'
  · have hp : lonNonneg lon = false := by
      obtain ⟨l, hl', hn⟩ := hneg
      unfold lonNonneg
      rw [Bool.eq_false_iff]
      intro hall
      have := List.all_eq_true.mp hall l hl'
      simp only [ge_iff_le, decide_eq_true_eq] at this
      exact absurd hn (not_lt.mpr this)
    rw [hp] at h
    simp only [Bool.false_eq_true, if_false] at h
    refine regionIndices_box_all lat lon (-180) (-91) 180 90 m hl ?_ hlat' h i hi
    intro l hl'
    rw [boxCorner_of_neg_lon lon _ hneg, boxCorner_of_neg_lon lon _ hneg]
    exact hrange l hl'

/-- `containsPoint_box` (Lemmas) restated here so that it is audited: matplotlib's crossing test on
the four corners of a box is `inBox` -/
theorem region_containsPoint_box (x0 y0 x1 y1 : α) (t : α × α) (hx : x0 ≤ x1) (hy : y0 ≤ y1) :
    containsPoint (pairUp (boxRegion x0 y0 x1 y1)) t
      = (decide (x0 ≤ t.1) && decide (t.1 ≤ x1) && decide (y0 < t.2) && decide (t.2 ≤ y1)) :=
  containsPoint_box x0 y0 x1 y1 t hx hy

/-- fewer than three polygon vertices select nothing (matplotlib's short cut) -/
theorem regionIndices_degenerate (lat lon region : List α) (m : List Bool)
    (hr : region.length < 6) (h : regionIndices lat lon region = some m) :
    ∀ b ∈ m, b = false := by
  unfold regionIndices at h
  split at h
  · exact absurd h (by simp)
  · simp only [Option.some.injEq] at h
    subst h
    intro b hb
    obtain ⟨t, _, rfl⟩ := List.mem_map.mp hb
    have hlen : ∀ l : List α, (pairUp l).length ≤ l.length / 2 := by
      intro l
      induction l using pairUp.induct with
      | case1 x y t ih => simp only [pairUp, List.length_cons]; omega
      | case2 l h => 
        have : pairUp l = [] := by
          unfold pairUp
          split
          · rename_i x y t; exact absurd rfl (h x y t)
          · rfl
        simp [this]
    have h3 : (remapRegion (lonNonneg lon) (pairUp region)).length < 3 := by
      have := hlen region
      unfold remapRegion
      split <;> simp <;> omega
    simp [containsPoint, h3]

/-! non-vacuity: the docstring's example of `region_indices` (the `SmallTestGrid`, box
`[0, 11] × [0, 11]`), a boundary-hitting box, a remapped box on a `[0, 360]` grid, the globe -/
example : regionIndices (α := ℚ) [0, 5, 10, 15, 20, 25] [5/2, 5, 15/2, 10, 25/2, 15]
    (boxRegion 0 0 11 11) = some [false, true, true, false, false, false] := by decide +kernel
example : regionIndices (α := ℚ) [0, 5, 10, 15, 20, 25] [5/2, 5, 15/2, 10, 25/2, 15]
    (boxRegion (5/2) 0 (15/2) 10) = some [false, true, true, false, false, false] := by decide +kernel
example : regionIndices (α := ℚ) [0, 10, 10] [350, 10, 180] (boxRegion (-20) (-5) (-5) 10)
    = some [true, false, false] ∧
    regionIndices (α := ℚ) [0, 10, 10] [350, 10, 180] (boxRegion 0 (-5) 355 10)
    = some [true, true, true] := by decide +kernel
example : boxCorner (α := ℚ) [350, 10, 180] (-20) = 340 ∧ boxCorner (α := ℚ) [350, -10] (-20) = -20 := by
  decide +kernel
example : regionIndices (α := ℚ) [-90, 0, 90] [-180, 0, 180] (boxRegion (-180) (-91) 180 90)
    = some [true, true, true] ∧
    regionIndices (α := ℚ) [-90, 0, 90] [-180, 0, 180] (boxRegion (-180) (-90) 180 90)
    = some [false, true, true] := by decide +kernel
example : regionIndices (α := ℚ) [1] [1] [0, 0, 1] = none ∧ regionIndices (α := ℚ) [] [] [0, 0] = none
    ∧ regionIndices (α := ℚ) [1] [1] [0, 0, 2, 2] = some [false] := by decide +kernel
/-- monotone: the smaller box selects node 1, so does the larger -/
example : regionIndices (α := ℚ) [0, 5, 10] [0, 5, 10] (boxRegion 4 4 6 6) = some [false, true, false]
    ∧ regionIndices (α := ℚ) [0, 5, 10] [0, 5, 10] (boxRegion 0 (-1) 6 10) = some [true, true, false]
    := by decide +kernel

end RegionIndices

section RegionTie
open Pyunicorn.Generated

/-- `region_indices`, tie to the source: the reshape into pairs of a copy, the guard
`self._grid["space"][1].min() >= 0` (row 1 = the longitudes), the masked store into column 0
(the polygon longitudes), the tested points `(space[1], space[0]) = (lon, lat)`, and the
delegation to `Path.contains_points` -/
theorem src_regionShape :
    StructC12.regReshape = ("np.array(region)", "len(region) // 2, 2")
    ∧ StructC12.regGuardRow = (StructC12.lonDim, "min") ∧ StructC12.regRemapCol = 0
    ∧ StructC12.regPointRows = [StructC12.lonDim, StructC12.latDim]
    ∧ StructC12.regReturn = "path.Path(R).contains_points(P)" := by decide

/-- the value stored for one polygon longitude is `remapLon` (commuted operands accepted) -/
theorem src_regionRemap {α : Type} [Field α] [LinearOrder α] [IsStrictOrderedRing α] (x : α) :
    StructC12.regRemap x = remapLon x := by
  first
    | rfl
    | (simp only [StructC12.regRemap, remapLon, add_comm]; done)

/-- the guard evaluated at the minimum of a non-empty longitude sequence is `lonNonneg` -/
theorem src_regionGuard {α : Type} [Field α] [LinearOrder α] [IsStrictOrderedRing α]
    (x : α) (l : List α) :
    StructC12.regGuard (l.foldl min x) = lonNonneg (x :: l) := by
  have key : ∀ (l : List α) (x : α), (0 ≤ l.foldl min x) ↔ (0 ≤ x ∧ ∀ y ∈ l, 0 ≤ y) := by
    intro l
    induction l with
    | nil => intro x; simp
    | cons y t ih =>
      intro x
      simp only [List.foldl_cons, ih, le_min_iff, List.mem_cons, forall_eq_or_imp, and_assoc]
  unfold StructC12.regGuard lonNonneg
  rw [Bool.eq_iff_iff]
  simp only [ge_iff_le, decide_eq_true_eq, List.all_eq_true, List.mem_cons, forall_eq_or_imp]
  exact key l x

example : StructC12.regRemap (-20 : ℚ) = 340 ∧ StructC12.regRemap (20 : ℚ) = 20
    ∧ StructC12.regGuard (0 : ℚ) = true ∧ StructC12.regGuard (-1 : ℚ) = false := by decide +kernel

end RegionTie

end Pyunicorn.Geo
