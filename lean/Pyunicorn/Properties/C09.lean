import Pyunicorn.Lemmas.Similarity
import Pyunicorn.Lemmas.SimilarityIeee
import Pyunicorn.Lemmas.SimilarityWeight
import Pyunicorn.Lemmas.SimilarityHilbert
import Pyunicorn.Lemmas.SimilarityRounding
import Pyunicorn.Lemmas.SimilarityRnF
import Pyunicorn.Lemmas.SimilarityHilbertX
import Pyunicorn.Lemmas.SimilarityCoupled
import Pyunicorn.Generated.ArithC09
import Pyunicorn.Model.SimilarityScript
/-!
# C09 — similarity networks link exactly the pairs above the threshold

Statements about the model `Pyunicorn.Similarity` of `ClimateNetwork`
(`climate/climate_network.py`) and about the index / comparison / stride / density
expressions regenerated from the source by `translate/gen_arith.py`
(`Pyunicorn.Generated.ArithC09`).  The model is tied to the real class by the exact
correspondence in `harness/c09.py`.

Matrices are flattened row-major: entry `(i, j)` of an `N × N` matrix is element `i * N + j`.
-/
namespace Pyunicorn.Similarity
open Pyunicorn.Generated

/-! ## 1. the link rule -/

/-- **link rule** (`_calculate_threshold_adjacency`): entry `(i, j)` of the adjacency matrix is 1
exactly when the nodes are distinct and the (weighted) similarity exceeds the threshold. -/
theorem link_iff (W : Sim) (θ : Rat) (N i j : Nat) (hi : i < N) (hj : j < N) :
    (thresholdAdjacency W θ N)[i * N + j]? = some true ↔ i ≠ j ∧ θ < W i j := by
  rw [getElem?_thresholdAdjacency W θ N i j hi hj]
  simp

/-- every entry is defined: the adjacency matrix has exactly `N * N` entries -/
theorem adjacency_length (W : Sim) (θ : Rat) (N : Nat) :
    (thresholdAdjacency W θ N).length = N * N := length_thresholdAdjacency W θ N

/-- the stored similarity is the absolute value of the given one (l.88) -/
theorem absSim_spec (S0 : Sim) (i j : Nat) :
    0 ≤ absSim S0 i j ∧ (absSim S0 i j = S0 i j ∨ absSim S0 i j = -S0 i j) := by
  unfold absSim ratAbs
  by_cases h : S0 i j < 0
  · simp only [h, if_true]; grind
  · simp only [h, if_false]; grind

/-- **link rule at the object**: after construction with a threshold, nodes `i ≠ j` are linked
exactly when `|S₀ i j|` — multiplied by the distance weight when `non_local` — exceeds it. -/
theorem link_iff_object (N : Nat) (directed : Bool) (S0 damp : Sim) (nl : Bool) (θ : Rat)
    (i j : Nat) (hi : i < N) (hj : j < N) :
    (mkThreshold N directed S0 damp nl θ).A[i * N + j]? = some true ↔
      i ≠ j ∧ θ < (if nl then absSim S0 i j * damp i j else absSim S0 i j) := by
  simp only [mkThreshold, Net.setThreshold, blank]
  rw [link_iff _ _ _ _ _ hi hj]
  simp [weighted]

example : (mkThreshold 2 false (fun i j => if i = j then 0 else -3/4) (fun _ _ => 1) false
    (1/2)).A = [false, true, true, false] := by decide +kernel

/-- **cross-layer links of a coupled network** (`CoupledClimateNetwork.cross_layer_adjacency`, the
block `[:N₁, N₁:]` of the adjacency): node `i` of layer 1 and node `j` of layer 2 are linked
exactly when their (weighted) cross similarity exceeds the threshold — the zeroed diagonal never
touches the cross block -/
theorem cross_link_iff (W : Sim) (θ : Rat) (N1 N2 i j : Nat) (hi : i < N1) (hj : j < N2) :
    (thresholdAdjacency W θ (N1 + N2))[i * (N1 + N2) + (N1 + j)]? = some true ↔
      θ < W i (N1 + j) := by
  rw [link_iff W θ (N1 + N2) i (N1 + j) (by omega) (by omega)]
  exact ⟨fun h => h.2, fun h => ⟨by omega, h⟩⟩

/-! ## 2. raising the threshold only removes links -/

/-- entry-wise: a link present at the higher threshold is present at the lower one -/
theorem antitone_in_threshold (W : Sim) (θ θ' : Rat) (N i j : Nat) (hi : i < N) (hj : j < N)
    (h : θ ≤ θ') (hl : (thresholdAdjacency W θ' N)[i * N + j]? = some true) :
    (thresholdAdjacency W θ N)[i * N + j]? = some true := by
  rw [link_iff _ _ _ _ _ hi hj] at hl ⊢
  exact ⟨hl.1, by grind⟩

/-- the number of links is antitone in the threshold -/
theorem nnz_antitone (W : Sim) (θ θ' : Rat) (N : Nat) (h : θ ≤ θ') :
    nnz (thresholdAdjacency W θ' N) ≤ nnz (thresholdAdjacency W θ N) :=
  nnz_mono W W θ θ' N h (fun _ _ _ _ => Rat.le_refl)

/-- suppressing local links only removes links (weight in `[0,1]`, similarity `≥ 0`) -/
theorem nnz_non_local_le (S damp : Sim) (θ : Rat) (N : Nat)
    (hS : ∀ i j, i < N → j < N → 0 ≤ S i j)
    (hd : ∀ i j, i < N → j < N → damp i j ≤ 1) :
    nnz (thresholdAdjacency (weighted true S damp) θ N)
      ≤ nnz (thresholdAdjacency (weighted false S damp) θ N) := by
  apply nnz_mono _ _ θ θ N Rat.le_refl
  intro i j hi hj
  simp only [weighted, if_true]
  have := Rat.mul_le_mul_of_nonneg_left (hd i j hi hj) (hS i j hi hj)
  simpa using this

/-! ## 2b. the documented distance weight `½ (tanh(a (d − d_min)) + 1)` -/

/-- the weight lies in `[0, 1]` whenever the hyperbolic tangent supplied by the numerical library
has values in `[-1, 1]` (the outer `+ 1` and `0.5 *` are monotone and exact at the end points, so
this also holds for their rounded evaluation) -/
theorem dampOf_mem_unit (th : Rat → Rat) (a dmin d : Rat)
    (hth : -1 ≤ th (a * (d - dmin)) ∧ th (a * (d - dmin)) ≤ 1) :
    0 ≤ dampOf th a dmin d ∧ dampOf th a dmin d ≤ 1 := by
  unfold dampOf
  obtain ⟨h1, h2⟩ := hth
  constructor <;> grind

/-- for the real hyperbolic tangent the weight lies strictly between 0 and 1 -/
theorem real_weight_mem_unit (a dmin d : ℝ) :
    0 < realWeight a dmin d ∧ realWeight a dmin d < 1 := realWeight_mem_unit a dmin d

/-- farther apart ⇒ larger weight (monotone `tanh`, steepness `a ≥ 0`) -/
theorem dampOf_mono (th : Rat → Rat) (hmono : ∀ x y, x ≤ y → th x ≤ th y) (a dmin d d' : Rat)
    (ha : 0 ≤ a) (h : d ≤ d') : dampOf th a dmin d ≤ dampOf th a dmin d' := by
  unfold dampOf
  have h1 : d - dmin ≤ d' - dmin := by grind
  have h2 : a * (d - dmin) ≤ a * (d' - dmin) := Rat.mul_le_mul_of_nonneg_left h1 ha
  have := hmono _ _ h2
  grind

/-- a symmetric angular distance gives a symmetric weight matrix -/
theorem dampMat_symm (th : Rat → Rat) (a dmin : Rat) (dist : Sim) (i j : Nat)
    (h : dist i j = dist j i) : dampMat th a dmin dist i j = dampMat th a dmin dist j i := by
  simp [dampMat, h]

/-- **suppression of local links with the documented weight only removes links**: the hypothesis
`damp ≤ 1` of `nnz_non_local_le` is a theorem for `damp = dampMat th a d_min dist` -/
theorem nnz_non_local_le_documented (S dist : Sim) (th : Rat → Rat) (a dmin θ : Rat) (N : Nat)
    (hS : ∀ i j, i < N → j < N → 0 ≤ S i j) (hth : ∀ x, -1 ≤ th x ∧ th x ≤ 1) :
    nnz (thresholdAdjacency (weighted true S (dampMat th a dmin dist)) θ N)
      ≤ nnz (thresholdAdjacency (weighted false S (dampMat th a dmin dist)) θ N) :=
  nnz_non_local_le S _ θ N hS fun i j _ _ => (dampOf_mem_unit th a dmin (dist i j) (hth _)).2

/-! ## 3. a symmetric similarity gives an undirected network -/

theorem symmetric_of_symmetric (W : Sim) (θ : Rat) (N i j : Nat) (hi : i < N) (hj : j < N)
    (hsym : W i j = W j i) :
    (thresholdAdjacency W θ N)[i * N + j]? = (thresholdAdjacency W θ N)[j * N + i]? := by
  rw [getElem?_thresholdAdjacency W θ N i j hi hj, getElem?_thresholdAdjacency W θ N j i hj hi,
    hsym]
  have : (i ≠ j) = (j ≠ i) := propext ⟨Ne.symm, Ne.symm⟩
  simp only [this]

/-- **the undirected link count is exact**: for a symmetric (weighted) similarity the adjacency
has an even number of ones, so `n_links = nnz // 2` counts every unordered linked pair once -/
theorem undirected_nlinks_exact (W : Sim) (θ : Rat) (N : Nat)
    (hsym : ∀ i j, i < N → j < N → W i j = W j i) :
    2 * countLinks false (thresholdAdjacency W θ N) = nnz (thresholdAdjacency W θ N) := by
  obtain ⟨m, hm⟩ := nnz_even_of_symmetric W θ N hsym
  simp only [countLinks, Bool.false_eq_true, if_false, hm]
  omega

/-- symmetry of `S₀` and of the distance weight carries over to the weighted absolute similarity -/
theorem weighted_symm (S0 damp : Sim) (nl : Bool) (i j : Nat)
    (hS : S0 i j = S0 j i) (hd : damp i j = damp j i) :
    weighted nl (absSim S0) damp i j = weighted nl (absSim S0) damp j i := by
  simp [weighted, absSim, hS, hd]

/-! ## 4. link density → threshold (the quantile rule) -/

/-- `len(flat_corr)`: there are `N² − N` off-diagonal similarities -/
theorem offDiag_length (S : Sim) (N : Nat) : (offDiag S N).length + N = N * N :=
  length_offDiag S N

/-- the selected threshold is one of the off-diagonal similarities; the call raises exactly
when there is none (`N ≤ 1`) -/
theorem threshold_mem (S : Sim) (N k : Nat) (θ : Rat) (h : thresholdFromIndex S N k = some θ) :
    θ ∈ offDiag S N := quantile_mem _ k θ h

theorem threshold_some_iff (S : Sim) (N k : Nat) :
    (∃ θ, thresholdFromIndex S N k = some θ) ↔ 2 ≤ N := by
  have hl := length_offDiag S N
  constructor
  · rintro ⟨θ, h⟩
    have hm := List.length_pos_of_mem (quantile_mem _ k θ h)
    rcases Nat.lt_or_ge N 2 with h2 | h2
    · exfalso
      have : N * N ≤ N := by
        rcases Nat.lt_or_ge N 1 with h0 | h0
        · have : N = 0 := by omega
          subst this; simp
        · have : N = 1 := by omega
          subst this; simp
      omega
    · exact h2
  · intro h2
    apply quantile_some
    have : 2 * N ≤ N * N := Nat.mul_le_mul_right N h2
    omega

/-- **the realised density never exceeds the request.**  Number of ordered linked pairs after
`threshold_from_link_density(ρ)` + thresholding `≤ ρ · (N² − N) + ε`, for *every* raw index `k`
with `(1 − ρ)·len − 1 − ε ≤ k` (`ε = 0`: the exact floor; `ε > 0` absorbs the rounding of the
IEEE evaluation of `int((1 − ρ) * len)`), with or without suppression of local links. -/
theorem density_le_request (S damp : Sim) (nl : Bool) (N k : Nat) (ρ ε θ : Rat)
    (hS : ∀ i j, i < N → j < N → 0 ≤ S i j)
    (hd : ∀ i j, i < N → j < N → damp i j ≤ 1)
    (hρ : 0 ≤ ρ) (hε : 0 ≤ ε)
    (hk : (1 - ρ) * ((offDiag S N).length : Rat) - 1 - ε ≤ (k : Rat))
    (h : thresholdFromIndex S N k = some θ) :
    (nnz (thresholdAdjacency (weighted nl S damp) θ N) : Rat)
      ≤ ρ * ((offDiag S N).length : Rat) + ε := by
  -- without weighting: the count over the off-diagonal entries
  have hup := quantile_upper (offDiag S N) k θ h
  have h0 : nnz (thresholdAdjacency (weighted false S damp) θ N)
      = (offDiag S N).countP fun s => decide (θ < s) := by
    have : weighted false S damp = S := by funext i j; simp [weighted]
    rw [this, nnz_thresholdAdjacency]
  have hle : nnz (thresholdAdjacency (weighted nl S damp) θ N)
      ≤ (offDiag S N).countP fun s => decide (θ < s) := by
    rw [← h0]
    cases nl
    · exact Nat.le_refl _
    · exact nnz_non_local_le S damp θ N hS hd
  generalize (offDiag S N).length = len at *
  generalize (offDiag S N).countP (fun s => decide (θ < s)) = L at *
  generalize nnz (thresholdAdjacency (weighted nl S damp) θ N) = L' at *
  have hL : (L' : Rat) ≤ (L : Rat) := by exact_mod_cast hle
  have hlen : (0 : Rat) ≤ (len : Rat) := by exact_mod_cast Nat.zero_le len
  rcases Nat.lt_or_ge k len with hkl | hkl
  · have : L + k + 1 ≤ len := by omega
    have : (L : Rat) + k + 1 ≤ len := by exact_mod_cast this
    grind
  · -- clamped index: no entry exceeds the largest one
    have : L = 0 := by omega
    subst this
    have : (0 : Rat) ≤ ρ * (len : Rat) := Rat.mul_nonneg hρ hlen
    have : (L' : Rat) ≤ 0 := by simpa using hL
    grind

/-- **the request is missed by at most the pairs tied at the selected value** (no suppression of
local links): `ρ · (N² − N) − ε ≤ #linked ordered pairs + #ordered pairs with similarity = θ`,
for every raw index `k ≤ (1 − ρ)·len + ε`. -/
theorem density_gap_le_ties (S damp : Sim) (N k : Nat) (ρ ε θ : Rat)
    (hk : (k : Rat) ≤ (1 - ρ) * ((offDiag S N).length : Rat) + ε)
    (h : thresholdFromIndex S N k = some θ) :
    ρ * ((offDiag S N).length : Rat) - ε
      ≤ (nnz (thresholdAdjacency (weighted false S damp) θ N) : Rat)
        + (((offDiag S N).countP fun s => decide (s = θ) : Nat) : Rat) := by
  have hlo := quantile_lower (offDiag S N) k θ h
  have h0 : nnz (thresholdAdjacency (weighted false S damp) θ N)
      = (offDiag S N).countP fun s => decide (θ < s) := by
    have : weighted false S damp = S := by funext i j; simp [weighted]
    rw [this, nnz_thresholdAdjacency]
  rw [h0]
  generalize (offDiag S N).length = len at *
  generalize (offDiag S N).countP (fun s => decide (θ < s)) = L at *
  generalize (offDiag S N).countP (fun s => decide (s = θ)) = T at *
  have : len ≤ L + T + k := by omega
  have : (len : Rat) ≤ (L : Rat) + T + k := by exact_mod_cast this
  grind

/-- **the selected threshold is the stated quantile**: it is the order statistic number
`m = min k (len − 1)` (counting from 0) of the off-diagonal similarities — at most `len − 1 − m`
of them are larger, at least `len − m` are larger or equal -/
theorem threshold_is_order_statistic (S : Sim) (N k : Nat) (θ : Rat)
    (h : thresholdFromIndex S N k = some θ) :
    (offDiag S N).countP (fun s => decide (θ < s)) + min k ((offDiag S N).length - 1) + 1
        ≤ (offDiag S N).length ∧
      (offDiag S N).length ≤ (offDiag S N).countP (fun s => decide (θ < s))
        + (offDiag S N).countP (fun s => decide (s = θ)) + min k ((offDiag S N).length - 1) :=
  ⟨quantile_upper _ k θ h, quantile_lower _ k θ h⟩

/-- `flat_corr.sort()` may use any algorithm: every ascending rearrangement of the off-diagonal
similarities is the list the model indexes -/
theorem sort_algorithm_irrelevant (S : Sim) (N : Nat) (l' : List Rat)
    (hp : l'.Perm (offDiag S N)) (hs : l'.Pairwise (· ≤ ·)) (k : Nat) :
    l'[min k (l'.length - 1)]? = thresholdFromIndex S N k := by
  rw [sorted_perm_eq_sortAsc _ _ hp hs]
  rfl

/-- the ordered pairs whose link is removed by the distance weight at threshold `θ` -/
def suppressed (S damp : Sim) (θ : Rat) (N : Nat) : Nat :=
  ((List.range (N * N)).filter fun p => p / N != p % N).countP fun p =>
    decide (θ < S (p / N) (p % N)) && !decide (θ < S (p / N) (p % N) * damp (p / N) (p % N))

/-- **with suppression of local links the request is missed by at most the tied pairs plus the
suppressed pairs**: `ρ·(N² − N) − ε ≤ #linked + #tied at θ + #suppressed by the weight` -/
theorem density_gap_non_local (S damp : Sim) (N k : Nat) (ρ ε θ : Rat)
    (hk : (k : Rat) ≤ (1 - ρ) * ((offDiag S N).length : Rat) + ε)
    (h : thresholdFromIndex S N k = some θ) :
    ρ * ((offDiag S N).length : Rat) - ε
      ≤ (nnz (thresholdAdjacency (weighted true S damp) θ N) : Rat)
        + (((offDiag S N).countP fun s => decide (s = θ) : Nat) : Rat)
        + (suppressed S damp θ N : Rat) := by
  have h0 := density_gap_le_ties S damp N k ρ ε θ hk h
  have hle : nnz (thresholdAdjacency (weighted false S damp) θ N)
      ≤ nnz (thresholdAdjacency (weighted true S damp) θ N) + suppressed S damp θ N := by
    rw [nnz_thresholdAdjacency, nnz_thresholdAdjacency]
    simp only [offDiag, List.countP_map, suppressed]
    have := countP_le_countP_add ((List.range (N * N)).filter fun p => p / N != p % N)
      (fun p => decide (θ < S (p / N) (p % N)))
      (fun p => decide (θ < S (p / N) (p % N) * damp (p / N) (p % N)))
    simpa [weighted, Function.comp_def] using this
  have : (nnz (thresholdAdjacency (weighted false S damp) θ N) : Rat)
      ≤ (nnz (thresholdAdjacency (weighted true S damp) θ N) : Rat)
        + (suppressed S damp θ N : Rat) := by exact_mod_cast hle
  grind

/-- 3 nodes, all similarities 1/2 or 3/4, weight 1/2 on one pair: request ρ = 1 → threshold 1/2;
the pair (0,1)/(1,0) with similarity 3/4 is suppressed (3/8 ≤ 1/2), nothing is linked -/
example : let S : Sim := fun i j => if i + j = 1 then 3/4 else 1/2
    let damp : Sim := fun i j => if i + j = 1 then 1/2 else 1
    thresholdFromIndex S 3 0 = some (1/2) ∧ suppressed S damp (1/2) 3 = 2 ∧
      nnz (thresholdAdjacency (weighted true S damp) (1/2) 3) = 0 ∧
      (offDiag S 3).countP (fun s => decide (s = 1/2)) = 4 := by decide +kernel

/-! ### the index as CPython evaluates it (two IEEE-754 binary64 roundings) -/

/-- one rounding to binary64 has relative error at most `2⁻⁵³` -/
theorem rn53_relative_error (x : Rat) (hx : 0 ≤ x) : |rn53 x - x| ≤ x / 2 ^ 53 := rn53_err x hx

/-- **the index `int((1 - ρ) * len)` computed in double precision** lies within
`len · (2⁻⁵² + 2⁻¹⁰⁶)` of `[(1-ρ)·len − 1, (1-ρ)·len]`: it satisfies the index hypotheses of
`density_le_request` and `density_gap_le_ties` with `ε = len · ieeeSlack` -/
theorem ieeeIndex_bounds (ρ : Rat) (len : Nat) (h0 : 0 ≤ ρ) (h1 : ρ ≤ 1) :
    (1 - ρ) * (len : Rat) - 1 - (len : Rat) * ieeeSlack ≤ (ieeeIndex ρ len : Rat) ∧
      (ieeeIndex ρ len : Rat) ≤ (1 - ρ) * (len : Rat) + (len : Rat) * ieeeSlack :=
  ieeeIndex_bounds' ρ len h0 h1

/-- **`set_link_density(ρ)` as executed** (IEEE index, any `non_local`): the number of ordered
linked pairs is at most `(ρ + 2⁻⁵² + 2⁻¹⁰⁶) · (N² − N)`, and without suppression of local links
at least `(ρ − 2⁻⁵² − 2⁻¹⁰⁶) · (N² − N)` minus the pairs tied at the selected threshold -/
theorem set_link_density_ieee (s s' : Net) (ρ : Rat)
    (hS : ∀ i j, i < s.N → j < s.N → 0 ≤ s.S i j)
    (hd : ∀ i j, i < s.N → j < s.N → s.damp i j ≤ 1)
    (h0 : 0 ≤ ρ) (h1 : ρ ≤ 1)
    (h : s.setLinkDensity (ieeeIndex ρ (offDiag s.S s.N).length) = some s') :
    (nnz s'.A : Rat) ≤ (ρ + ieeeSlack) * ((offDiag s.S s.N).length : Rat) ∧
      (s.nonLocal = false →
        (ρ - ieeeSlack) * ((offDiag s.S s.N).length : Rat)
          ≤ (nnz s'.A : Rat) + (((offDiag s.S s.N).countP fun x => decide (x = s'.θ) : Nat) : Rat)) := by
  simp only [Net.setLinkDensity, Option.map_eq_some_iff] at h
  obtain ⟨θ, hθ, rfl⟩ := h
  obtain ⟨b1, b2⟩ := ieeeIndex_bounds ρ (offDiag s.S s.N).length h0 h1
  have hslack : (0 : Rat) ≤ ieeeSlack := by unfold ieeeSlack; positivity
  have hlen : (0 : Rat) ≤ ((offDiag s.S s.N).length : Rat) := by exact_mod_cast Nat.zero_le _
  have hε : (0 : Rat) ≤ ((offDiag s.S s.N).length : Rat) * ieeeSlack := mul_nonneg hlen hslack
  constructor
  · have := density_le_request s.S s.damp s.nonLocal s.N _ ρ _ θ hS hd h0 hε b1 hθ
    simp only [Net.setThreshold]
    linarith
  · intro hnl
    have := density_gap_le_ties s.S s.damp s.N _ ρ _ θ b2 hθ
    simp only [Net.setThreshold, hnl]
    linarith

/-- the reported density is the number of ordered linked pairs over `N (N − 1)` -/
theorem density_spec (A : List Bool) (N : Nat) (d : Rat) (h : linkDensity A N = some d) :
    2 ≤ N ∧ d * ((N : Rat) * ((N : Rat) - 1)) = (nnz A : Rat) := by
  unfold linkDensity at h
  by_cases hN : N ≤ 1
  · simp [hN] at h
  · simp only [hN, if_false, Option.some.injEq] at h
    have h2 : 2 ≤ N := by omega
    have : (2 : Rat) ≤ (N : Rat) := by exact_mod_cast h2
    refine ⟨h2, ?_⟩
    have hn0 : (N : Rat) ≠ 0 := by grind
    have hn1 : (N : Rat) - 1 ≠ 0 := by grind
    subst h
    grind

/-- **the reported density never exceeds the request** (exact floor, or any raw index not below
`(1 − ρ)·len − 1`), whatever `non_local` is: the object-level form of `density_le_request`. -/
theorem reported_density_le_request (s s' : Net) (ρ d : Rat) (k : Nat)
    (hS : ∀ i j, i < s.N → j < s.N → 0 ≤ s.S i j)
    (hd : ∀ i j, i < s.N → j < s.N → s.damp i j ≤ 1)
    (hρ : 0 ≤ ρ)
    (hk : (1 - ρ) * ((offDiag s.S s.N).length : Rat) - 1 ≤ (k : Rat))
    (h : s.setLinkDensity k = some s') (hden : s'.density = some d) : d ≤ ρ := by
  simp only [Net.setLinkDensity, Option.map_eq_some_iff] at h
  obtain ⟨θ, hθ, rfl⟩ := h
  simp only [Net.setThreshold] at hden
  obtain ⟨h2, hmul⟩ := density_spec _ _ _ hden
  have hle := density_le_request s.S s.damp s.nonLocal s.N k ρ 0 θ hS hd hρ (Rat.le_refl)
    (by grind) hθ
  have hlen := length_offDiag s.S s.N
  generalize (offDiag s.S s.N).length = len at *
  generalize nnz (thresholdAdjacency (weighted s.nonLocal s.S s.damp) θ s.N) = L at *
  have hlenR : (len : Rat) + (s.N : Rat) = (s.N : Rat) * (s.N : Rat) := by exact_mod_cast hlen
  have hN : (2 : Rat) ≤ (s.N : Rat) := by exact_mod_cast h2
  have hM : (len : Rat) = (s.N : Rat) * ((s.N : Rat) - 1) := by grind
  have hpos : (0 : Rat) < (len : Rat) := by
    rw [hM]; exact Rat.mul_pos (by grind) (by grind)
  apply Rat.le_of_mul_le_mul_right (c := (len : Rat)) _ hpos
  rw [hM] at hle ⊢
  grind

/-- the two bounds are not vacuous: 3 nodes, zero diagonal, request ρ = 1/2 → index 3, threshold
1/2, 2 of 6 ordered pairs linked, 2 tied -/
example : thresholdFromIndex (fun i j => if i = j then 0 else ((i + j : Nat) : Rat) / 4) 3 3
    = some (1/2) := by decide +kernel
example : let S : Sim := fun i j => if i = j then 0 else ((i + j : Nat) : Rat) / 4
    (offDiag S 3).length = 6 ∧ nnz (thresholdAdjacency (weighted false S S) (1/2) 3) = 2 ∧
      (offDiag S 3).countP (fun s => decide (s = 1/2)) = 2 ∧
      (1 - (1/2 : Rat)) * 6 - 1 - 0 ≤ 3 ∧ (3 : Rat) ≤ (1 - 1/2) * 6 + 0 := by decide +kernel

/-! ## 5. reported threshold, density, link count and adjacency stay consistent -/

/-- what the object reports is what a fresh construction computes from the stored similarity,
the reported threshold and the reported `non_local` flag -/
def Net.Consistent (s : Net) : Prop :=
  s.A = thresholdAdjacency (weighted s.nonLocal s.S s.damp) s.θ s.N ∧
  s.nLinks = countLinks s.directed s.A ∧
  s.density = linkDensity s.A s.N

/-- the constant part of the object -/
def Net.SameData (s t : Net) : Prop :=
  t.N = s.N ∧ t.directed = s.directed ∧ t.damp = s.damp

/-- the stored similarity after a history: replaced (by its absolute value) at each regeneration -/
def curSim (S : Sim) : List Op → Sim
  | [] => S
  | .resim S1 :: os => curSim (absSim S1) os
  | _ :: os => curSim S os

theorem setThreshold_consistent (s : Net) (θ : Rat) :
    (s.setThreshold θ).Consistent ∧ s.SameData (s.setThreshold θ) ∧
      (s.setThreshold θ).S = s.S ∧
      (s.setThreshold θ).θ = θ ∧ (s.setThreshold θ).nonLocal = s.nonLocal := by
  simp [Net.setThreshold, Net.Consistent, Net.SameData]

/-- **`_regenerate_network`**: after a subclass re-derived its similarity the object is consistent
with the *new* similarity, keeps threshold, `non_local`, grid and `directed` -/
theorem regenerate_consistent (s : Net) (S1 : Sim) :
    (s.regenerate S1).Consistent ∧ s.SameData (s.regenerate S1) ∧
      (s.regenerate S1).S = absSim S1 ∧
      (s.regenerate S1).θ = s.θ ∧ (s.regenerate S1).nonLocal = s.nonLocal := by
  simp [Net.regenerate, Net.setThreshold, Net.Consistent, Net.SameData]

theorem step_consistent (s s' : Net) (o : Op) (hc : s.Consistent) (h : s.step o = some s') :
    s'.Consistent ∧ s.SameData s' ∧ s'.S = curSim s.S [o] := by
  cases o with
  | thr θ =>
    simp only [Net.step, Option.some.injEq] at h
    subst h
    exact ⟨(setThreshold_consistent s θ).1, (setThreshold_consistent s θ).2.1,
      (setThreshold_consistent s θ).2.2.1⟩
  | dens k =>
    simp only [Net.step, Net.setLinkDensity, Option.map_eq_some_iff] at h
    obtain ⟨θ, _, rfl⟩ := h
    exact ⟨(setThreshold_consistent s θ).1, (setThreshold_consistent s θ).2.1,
      (setThreshold_consistent s θ).2.2.1⟩
  | nl b =>
    simp only [Net.step, Net.setNonLocal, Option.some.injEq] at h
    by_cases hb : (s.nonLocal != b) = true
    · rw [if_pos hb] at h
      subst h
      have := setThreshold_consistent { s with nonLocal := b } s.θ
      exact ⟨this.1, this.2.1, this.2.2.1⟩
    · rw [if_neg hb] at h
      subst h
      exact ⟨hc, ⟨rfl, rfl, rfl⟩, rfl⟩
  | resim S1 =>
    simp only [Net.step, Option.some.injEq] at h
    subst h
    exact ⟨(regenerate_consistent s S1).1, (regenerate_consistent s S1).2.1,
      (regenerate_consistent s S1).2.2.1⟩

theorem curSim_cons (S : Sim) (o : Op) (os : List Op) :
    curSim S (o :: os) = curSim (curSim S [o]) os := by
  cases o <;> simp [curSim]

/-- **consistency after every history** of `set_threshold / set_link_density / set_non_local`
calls and similarity re-derivations (`set_winter_only`, `set_max_delay`, … →
`_regenerate_network`), any arguments, any raw quantile indices, that does not raise: adjacency,
link count and density are those of the reported threshold / `non_local` and of the *current*
similarity -/
theorem consistent_after_history (ops : List Op) (s s' : Net) (hc : s.Consistent)
    (h : s.run ops = some s') : s'.Consistent ∧ s.SameData s' ∧ s'.S = curSim s.S ops := by
  induction ops generalizing s with
  | nil =>
    simp only [Net.run, Option.some.injEq] at h
    subst h
    exact ⟨hc, ⟨rfl, rfl, rfl⟩, rfl⟩
  | cons o os ih =>
    simp only [Net.run, Option.bind_eq_some_iff] at h
    obtain ⟨s1, h1, h2⟩ := h
    have c1 := step_consistent s s1 o hc h1
    have c2 := ih s1 c1.1 h2
    refine ⟨c2.1, ?_, ?_⟩
    · obtain ⟨a1, a2, a3⟩ := c1.2.1
      obtain ⟨b1, b2, b3⟩ := c2.2.1
      exact ⟨b1.trans a1, b2.trans a2, b3.trans a3⟩
    · rw [c2.2.2, c1.2.2, ← curSim_cons]

/-- the stored similarity is the absolute value of the raw similarity last handed over -/
theorem curSim_absSim (S0 : Sim) (ops : List Op) :
    curSim (absSim S0) ops = absSim (lastSim S0 ops) := by
  induction ops generalizing S0 with
  | nil => rfl
  | cons o os ih => cases o <;> simp [curSim, lastSim, ih]

/-- a consistent state *is* the freshly constructed object with the reported settings -/
theorem consistent_eq_fresh (N : Nat) (directed : Bool) (S0 damp : Sim) (s : Net)
    (hc : s.Consistent) (hN : s.N = N) (hdir : s.directed = directed)
    (hS : s.S = absSim S0) (hd : s.damp = damp) :
    s = mkThreshold N directed S0 damp s.nonLocal s.θ := by
  obtain ⟨h1, h2, h3⟩ := hc
  cases s
  simp only [mkThreshold, Net.setThreshold, blank] at *
  subst hN hdir hS hd
  simp [h1, h2, h3]

/-- **fresh twin**: the object after any history of setters and similarity re-derivations equals
a fresh `ClimateNetwork(grid, S, threshold=threshold(), non_local=non_local(), directed=…)`
built from the similarity `S` it was last given (`S₀` when none was re-derived) -/
theorem history_eq_fresh (N : Nat) (directed : Bool) (S0 damp : Sim) (nl : Bool) (θ : Rat)
    (ops : List Op) (s' : Net)
    (h : (mkThreshold N directed S0 damp nl θ).run ops = some s') :
    s' = mkThreshold N directed (lastSim S0 ops) damp s'.nonLocal s'.θ := by
  have hc : (mkThreshold N directed S0 damp nl θ).Consistent :=
    (setThreshold_consistent _ θ).1
  obtain ⟨c, ⟨d1, d2, d3⟩, d4⟩ := consistent_after_history ops _ s' hc h
  refine consistent_eq_fresh N directed (lastSim S0 ops) damp s' c d1 d2 ?_ d3
  rw [d4, ← curSim_absSim]
  rfl

/-- the same when the object was built from a link density -/
theorem history_eq_fresh_density (N : Nat) (directed : Bool) (S0 damp : Sim) (nl : Bool)
    (k : Nat) (ops : List Op) (s0 s' : Net)
    (h0 : mkDensity N directed S0 damp nl k = some s0) (h : s0.run ops = some s') :
    s' = mkThreshold N directed (lastSim S0 ops) damp s'.nonLocal s'.θ := by
  simp only [mkDensity, Net.setLinkDensity, Option.map_eq_some_iff] at h0
  obtain ⟨θ, _, rfl⟩ := h0
  exact history_eq_fresh N directed S0 damp nl θ ops s' h

/-- after any history the stored similarity is non-negative (it is an absolute value): the
hypothesis `hS` of the density theorems holds for every reachable object -/
theorem stored_similarity_nonneg (N : Nat) (directed : Bool) (S0 damp : Sim) (nl : Bool) (θ : Rat)
    (ops : List Op) (s' : Net)
    (h : (mkThreshold N directed S0 damp nl θ).run ops = some s') (i j : Nat) : 0 ≤ s'.S i j := by
  have e := history_eq_fresh N directed S0 damp nl θ ops s' h
  have : s'.S = absSim (lastSim S0 ops) := by
    rw [e]; simp [mkThreshold, Net.setThreshold, blank]
  rw [this]
  exact (absSim_spec _ i j).1

/-- **the density clause for every reachable object, as executed**: after any history of setters and
similarity re-derivations, `set_link_density(ρ)` (index evaluated in IEEE double) leaves a network whose
reported density is at most `ρ + 2⁻⁵² + 2⁻¹⁰⁶`; only the range of the distance weight is assumed -/
theorem density_request_after_history (N : Nat) (directed : Bool) (S0 damp : Sim) (nl : Bool)
    (θ : Rat) (ops : List Op) (s s' : Net) (ρ d : Rat)
    (hd : ∀ i j, i < N → j < N → damp i j ≤ 1)
    (h0 : 0 ≤ ρ) (h1 : ρ ≤ 1)
    (hrun : (mkThreshold N directed S0 damp nl θ).run ops = some s)
    (h : s.setLinkDensity (ieeeIndex ρ (offDiag s.S s.N).length) = some s')
    (hden : s'.density = some d) : d ≤ ρ + ieeeSlack := by
  have e := history_eq_fresh N directed S0 damp nl θ ops s hrun
  have hN : s.N = N := by rw [e]; simp [mkThreshold, Net.setThreshold, blank]
  have hdamp : s.damp = damp := by rw [e]; simp [mkThreshold, Net.setThreshold, blank]
  have hS := stored_similarity_nonneg N directed S0 damp nl θ ops s hrun
  have hb := (set_link_density_ieee s s' ρ (fun i j _ _ => hS i j)
    (fun i j hi hj => by rw [hdamp]; exact hd i j (hN ▸ hi) (hN ▸ hj)) h0 h1 h).1
  simp only [Net.setLinkDensity, Option.map_eq_some_iff] at h
  obtain ⟨θ', _, rfl⟩ := h
  simp only [Net.setThreshold] at hden hb
  obtain ⟨h2, hmul⟩ := density_spec _ _ _ hden
  have hlen := length_offDiag s.S s.N
  generalize (offDiag s.S s.N).length = len at *
  generalize nnz (thresholdAdjacency (weighted s.nonLocal s.S s.damp) θ' s.N) = L at *
  have hlenR : (len : Rat) + (s.N : Rat) = (s.N : Rat) * (s.N : Rat) := by exact_mod_cast hlen
  have hNR : (2 : Rat) ≤ (s.N : Rat) := by exact_mod_cast h2
  have hM : (len : Rat) = (s.N : Rat) * ((s.N : Rat) - 1) := by linarith
  have hpos : (0 : Rat) < (len : Rat) := by
    rw [hM]; exact mul_pos (by linarith) (by linarith)
  rw [← hM] at hmul
  have : d * (len : Rat) ≤ (ρ + ieeeSlack) * (len : Rat) := by linarith
  exact le_of_mul_le_mul_right this hpos

/-- without re-derivations the similarity is the constructor's -/
theorem lastSim_of_no_resim (S0 : Sim) (ops : List Op)
    (h : ∀ o ∈ ops, ∀ S1, o ≠ Op.resim S1) : lastSim S0 ops = S0 := by
  induction ops with
  | nil => rfl
  | cons o os ih =>
    cases o with
    | resim S1 => exact absurd rfl (h _ (by simp) S1)
    | _ => simpa [lastSim] using ih (fun o ho => h o (by simp [ho]))

example : ((mkThreshold 2 false (fun i j => if i = j then 1 else 1/2) (fun _ _ => 3/4) false
    (1/4)).run [Op.nl true, Op.dens 0, Op.thr (1/8), Op.nl true]).map
      (fun s => (s.nonLocal, s.θ, s.A, s.nLinks, s.density))
    = some (true, 1/8, [false, true, true, false], 1, some 1) := by decide +kernel

/-- a regeneration in the middle of a history: the links follow the new similarity, at the kept
threshold and `non_local` setting -/
example : ((mkThreshold 2 true (fun i j => if i = j then 1 else 1/2) (fun _ _ => 1/2) true
    (1/8)).run [Op.resim (fun i j => if i = j then 1 else if i < j then -1/8 else 3/4),
      Op.nl false]).map (fun s => (s.nonLocal, s.θ, s.A, s.nLinks, s.density))
    = some (false, 1/8, [false, false, true, false], 1, some (1/2)) := by decide +kernel

/-! ## 6. the expressions regenerated from the source -/

/-- the comparison in `A[similarity_measure > threshold] = 1` is the strict one of the model -/
theorem gen_linkCond (s θ : Rat) : ArithC09.linkCond s θ = decide (θ < s) := by
  simp [ArithC09.linkCond, GT.gt]

/-- the stride of `A.flat[::N+1] = 0` is the one of the model -/
theorem gen_diagStride (N : Nat) : ArithC09.diagStride (N : Int) = ((N + 1 : Nat) : Int) := by
  simp [ArithC09.diagStride]

/-- `1.0 * n_links / N / (N - 1)` of the adjacency setter is the density of the model -/
theorem gen_linkDensity (A : List Bool) (N : Nat) (h : 2 ≤ N) :
    linkDensity A N = some (ArithC09.linkDensityExpr (nnz A : Nat) (N : Nat)) := by
  have : ¬ N ≤ 1 := by omega
  have h2 : (((N : Nat) : Int) : Rat) = (N : Rat) := by norm_cast
  have h1 : ((((N : Nat) : Int) - 1 : Int) : Rat) = (N : Rat) - 1 := by
    simp [Rat.intCast_sub, h2]
  have h3 : (((nnz A : Nat) : Int) : Rat) = (nnz A : Rat) := by norm_cast
  simp only [linkDensity, this, if_false, ArithC09.linkDensityExpr, h1, h2, h3]

/-- `similarity_measure * (0.5 * (np.tanh(a * (self.grid.angular_distance() - d_min)) + 1))` of
`_calculate_non_local_adjacency` is the weighted similarity of the model (`np.tanh` and the
angular distance kept uninterpreted) -/
theorem gen_weight (s a dmin d : Rat) (th : Rat → Rat) :
    ArithC09.weightExpr s a dmin th d = s * dampOf th a dmin d := by
  simp [ArithC09.weightExpr, dampOf]

theorem gen_weighted (S dist : Sim) (th : Rat → Rat) (a dmin : Rat) (i j : Nat) :
    weighted true S (dampMat th a dmin dist) i j
      = ArithC09.weightExpr (S i j) a dmin th (dist i j) := by
  simp [weighted, dampMat, gen_weight]

/-- `if not self.directed: self.n_links //= 2` of the adjacency setter is `countLinks` -/
theorem gen_countLinks (directed : Bool) (A : List Bool) :
    ((countLinks directed A : Nat) : Int)
      = if ArithC09.halveCond directed then ArithC09.halfLinks (nnz A : Nat) else (nnz A : Nat) := by
  cases directed <;> simp [countLinks, ArithC09.halveCond, ArithC09.halfLinks]

/-- the index `min(int((1-ρ)·len), len-1)` of the source is `min k (len-1)` for the exact floor
`k` of `(1-ρ)·len`, which satisfies both index hypotheses of the density theorems with `ε = 0`,
and it addresses an existing entry -/
theorem gen_thrIndex (ρ : Rat) (len : Nat) (hρ1 : ρ ≤ 1) (hlen : 0 < len) :
    ∃ k : Nat, StructC09.thrIndex ρ (len : Int) = ((min k (len - 1) : Nat) : Int) ∧
      (1 - ρ) * (len : Rat) - 1 - 0 ≤ (k : Rat) ∧ (k : Rat) ≤ (1 - ρ) * (len : Rat) + 0 := by
  have hx : 0 ≤ (1 - ρ) * (len : Rat) := by
    apply Rat.mul_nonneg (by grind)
    exact_mod_cast Nat.zero_le len
  have hf0 : 0 ≤ ((1 - ρ) * (len : Rat)).floor := Rat.le_floor_iff.2 (by simpa using hx)
  refine ⟨((1 - ρ) * (len : Rat)).floor.toNat, ?_, ?_, ?_⟩
  · simp only [StructC09.thrIndex]
    have e : ((1 : Int) : Rat) - ρ = 1 - ρ := by norm_cast
    have e2 : (((len : Nat) : Int) : Rat) = (len : Rat) := by norm_cast
    rw [e, e2]
    omega
  · have h1 := Rat.lt_floor_add_one ((1 - ρ) * (len : Rat))
    have h2 : ((((1 - ρ) * (len : Rat)).floor.toNat : Nat) : Rat)
        = ((((1 - ρ) * (len : Rat)).floor : Int) : Rat) := by
      have : ((((1 - ρ) * (len : Rat)).floor.toNat : Nat) : Int)
          = ((1 - ρ) * (len : Rat)).floor := Int.toNat_of_nonneg hf0
      exact_mod_cast congrArg (fun z : Int => (z : Rat)) this
    rw [h2]
    have h3 : ((((1 - ρ) * (len : Rat)).floor + 1 : Int) : Rat)
        = ((((1 - ρ) * (len : Rat)).floor : Int) : Rat) + 1 := by simp [Rat.intCast_add]
    rw [h3] at h1
    grind
  · have h1 := Rat.floor_le ((1 - ρ) * (len : Rat))
    have h2 : ((((1 - ρ) * (len : Rat)).floor.toNat : Nat) : Rat)
        = ((((1 - ρ) * (len : Rat)).floor : Int) : Rat) := by
      have : ((((1 - ρ) * (len : Rat)).floor.toNat : Nat) : Int)
          = ((1 - ρ) * (len : Rat)).floor := Int.toNat_of_nonneg hf0
      exact_mod_cast congrArg (fun z : Int => (z : Rat)) this
    rw [h2]
    grind


/-! ## 7. `HilbertClimateNetwork`: phase mask and `set_directed` (round 3) -/

/-- **link rule of the Hilbert network**: in the state with settings `(d, S, P, nl, θ)` node `i`
links to `j` exactly when they are distinct, the (weighted) coherence exceeds the threshold and —
for a directed network — the phase shift is positive -/
theorem hilbert_link_iff (N : Nat) (d : Bool) (S P damp : Sim) (nl : Bool) (θ : Rat)
    (i j : Nat) (hi : i < N) (hj : j < N) :
    (hilbertState N d S P damp nl θ).net.A[i * N + j]? = some true ↔
      i ≠ j ∧ θ < weighted nl S damp i j ∧ (d = true → 0 < P i j) := by
  cases d
  · simp only [hilbertState, hilbertAdjacency, Bool.false_eq_true, if_false]
    rw [getElem?_thresholdAdjacency _ _ _ _ _ hi hj]
    simp
  · simp only [hilbertState, hilbertAdjacency, if_true]
    rw [getElem?_phaseMask, getElem?_thresholdAdjacency _ _ _ _ _ hi hj,
      flat_div N i j hj, flat_mod N i j hj]
    simp [and_assoc]

/-- the constructor yields that state: `_set_directed(d, True)`, `ClimateNetwork.__init__` with the
overridden `set_threshold`, `GeoNetwork.__init__`, `_set_directed(d, False)` — the mask applied
twice is the mask applied once -/
theorem hilbert_constructor (N : Nat) (d : Bool) (S0 P damp : Sim) (nl : Bool) (θ : Rat) :
    mkHilbert N d S0 P damp nl θ = hilbertState N d (absSim S0) P damp nl θ :=
  mkHilbert_eq_state N d S0 P damp nl θ

/-- **link rule at the constructed object** -/
theorem hilbert_link_iff_object (N : Nat) (d : Bool) (S0 P damp : Sim) (nl : Bool) (θ : Rat)
    (i j : Nat) (hi : i < N) (hj : j < N) :
    (mkHilbert N d S0 P damp nl θ).net.A[i * N + j]? = some true ↔
      i ≠ j ∧ θ < weighted nl (absSim S0) damp i j ∧ (d = true → 0 < P i j) := by
  rw [hilbert_constructor]; exact hilbert_link_iff N d _ P damp nl θ i j hi hj

/-- an antisymmetric phase (`arg` of a Hermitian matrix) never links a pair in both directions -/
theorem hilbert_no_mutual_links (N : Nat) (S P damp : Sim) (nl : Bool) (θ : Rat)
    (i j : Nat) (hi : i < N) (hj : j < N) (hP : P j i = -P i j) :
    ¬ ((hilbertState N true S P damp nl θ).net.A[i * N + j]? = some true ∧
       (hilbertState N true S P damp nl θ).net.A[j * N + i]? = some true) := by
  rw [hilbert_link_iff N true S P damp nl θ i j hi hj, hilbert_link_iff N true S P damp nl θ j i hj hi]
  rintro ⟨⟨_, _, h1⟩, ⟨_, _, h2⟩⟩
  have a := h1 rfl
  have b := h2 rfl
  rw [hP] at b
  grind

/-- an undirected Hilbert network is a plain `ClimateNetwork`: the override changes nothing -/
theorem hilbert_undirected_is_climate (h : HNet) (θ : Rat) (hd : h.net.directed = false) :
    (h.setThreshold θ).net = h.net.setThreshold θ := by
  simp [HNet.setThreshold, HNet.maskIf, Net.setThreshold, hd]

/-- `set_directed(False)` is `_regenerate_network` of the plain model with the flag cleared -/
theorem hilbert_setDirected_false (h : HNet) (S1 P1 : Sim) :
    (h.setDirected false S1 P1).net = ({ h.net with directed := false } : Net).regenerate S1 := by
  rw [setDirected_eq_state]
  simp [hilbertState, hilbertAdjacency, Net.regenerate, Net.setThreshold]

/-- the reachable states: everything the object reports is the closed-form function of its settings -/
def HNet.Inv (h : HNet) (N : Nat) (damp : Sim) (d : Bool) (S P : Sim) : Prop :=
  ∃ nl θ, h = hilbertState N d (absSim S) P damp nl θ

/-- the settings `(directed, coherence, phase)` last stored by the constructor / `set_directed` -/
def hLast (d0 : Bool) (S0 P0 : Sim) : List HOp → Bool × Sim × Sim
  | [] => (d0, S0, P0)
  | .dir d S1 P1 :: os => hLast d S1 P1 os
  | _ :: os => hLast d0 S0 P0 os

theorem hilbert_step_consistent (h h' : HNet) (N : Nat) (damp : Sim) (d : Bool) (S P : Sim)
    (o : HOp) (hc : h.Inv N damp d S P) (hs : h.step o = some h') :
    h'.Inv N damp (hLast d S P [o]).1 (hLast d S P [o]).2.1 (hLast d S P [o]).2.2 := by
  obtain ⟨nl, θ, rfl⟩ := hc
  cases o with
  | thr θ' =>
    simp only [HNet.step, Option.some.injEq] at hs
    subst hs
    exact ⟨nl, θ', setThreshold_eq_state _ θ'⟩
  | dens k =>
    simp only [HNet.step, HNet.setLinkDensity, Option.map_eq_some_iff] at hs
    obtain ⟨θ', _, rfl⟩ := hs
    exact ⟨nl, θ', setThreshold_eq_state _ θ'⟩
  | nl b =>
    simp only [HNet.step, Option.some.injEq] at hs
    subst hs
    exact ⟨b, θ, setNonLocal_eq_state _ b rfl⟩
  | dir d' S1 P1 =>
    simp only [HNet.step, Option.some.injEq] at hs
    subst hs
    exact ⟨nl, θ, setDirected_eq_state _ d' S1 P1⟩

theorem hLast_cons (d : Bool) (S P : Sim) (o : HOp) (os : List HOp) :
    hLast d S P (o :: os)
      = hLast (hLast d S P [o]).1 (hLast d S P [o]).2.1 (hLast d S P [o]).2.2 os := by
  cases o <;> simp [hLast]

/-- **consistency after every history** of `set_threshold / set_link_density / set_non_local /
set_directed` calls on a Hilbert network that does not raise -/
theorem hilbert_consistent_after_history (ops : List HOp) (h h' : HNet) (N : Nat) (damp : Sim)
    (d : Bool) (S P : Sim) (hc : h.Inv N damp d S P) (hr : h.run ops = some h') :
    h'.Inv N damp (hLast d S P ops).1 (hLast d S P ops).2.1 (hLast d S P ops).2.2 := by
  induction ops generalizing h d S P with
  | nil =>
    simp only [HNet.run, Option.some.injEq] at hr
    subst hr
    exact hc
  | cons o os ih =>
    simp only [HNet.run, Option.bind_eq_some_iff] at hr
    obtain ⟨h1, e1, e2⟩ := hr
    rw [hLast_cons]
    exact ih h1 _ _ _ (hilbert_step_consistent h h1 N damp d S P o hc e1) e2

/-- **fresh twin, Hilbert**: the object after any history (incl. `set_directed`) equals a fresh
`HilbertClimateNetwork(data, threshold=threshold(), non_local=non_local(), directed=<last value>)` -/
theorem hilbert_history_eq_fresh (N : Nat) (d : Bool) (S0 P0 damp : Sim) (nl : Bool) (θ : Rat)
    (ops : List HOp) (h' : HNet) (hr : (mkHilbert N d S0 P0 damp nl θ).run ops = some h') :
    h' = mkHilbert N (hLast d S0 P0 ops).1 (hLast d S0 P0 ops).2.1 (hLast d S0 P0 ops).2.2 damp
          h'.net.nonLocal h'.net.θ ∧
      h'.net.directed = (hLast d S0 P0 ops).1 := by
  have hc : (mkHilbert N d S0 P0 damp nl θ).Inv N damp d S0 P0 := ⟨nl, θ, hilbert_constructor ..⟩
  obtain ⟨nl', θ', rfl⟩ := hilbert_consistent_after_history ops _ h' N damp d S0 P0 hc hr
  rw [hilbert_constructor]
  exact ⟨rfl, rfl⟩

/-- **the density request on a Hilbert network, as executed**: the phase mask only removes links,
so the number of (ordered) linked pairs is at most `(ρ + 2⁻⁵² + 2⁻¹⁰⁶)·(N² − N)` -/
theorem hilbert_density_le_request (h h' : HNet) (ρ : Rat)
    (hS : ∀ i j, i < h.net.N → j < h.net.N → 0 ≤ h.net.S i j)
    (hd : ∀ i j, i < h.net.N → j < h.net.N → h.net.damp i j ≤ 1)
    (h0 : 0 ≤ ρ) (h1 : ρ ≤ 1)
    (hs : h.setLinkDensity (ieeeIndex ρ (offDiag h.net.S h.net.N).length) = some h') :
    (nnz h'.net.A : Rat) ≤ (ρ + ieeeSlack) * ((offDiag h.net.S h.net.N).length : Rat) := by
  simp only [HNet.setLinkDensity, Option.map_eq_some_iff] at hs
  obtain ⟨θ, hθ, rfl⟩ := hs
  have hb := (set_link_density_ieee h.net (h.net.setThreshold θ) ρ hS hd h0 h1
    (by simp [Net.setLinkDensity, hθ])).1
  have hle : nnz (h.setThreshold θ).net.A ≤ nnz (h.net.setThreshold θ).A := by
    rw [setThreshold_eq_state]
    simp only [hilbertState, hilbertAdjacency, Net.setThreshold]
    split
    · exact nnz_phaseMask_le _ _ _
    · exact Nat.le_refl _
  have : (nnz (h.setThreshold θ).net.A : Rat) ≤ (nnz (h.net.setThreshold θ).A : Rat) := by
    exact_mod_cast hle
  linarith

/-- a directed network from an antisymmetric phase, `set_directed(False)` in the middle: both
directions of the pair above the threshold are linked again, `n_links` counts it once -/
example : ((mkHilbert 2 true (fun i j => if i = j then 1 else 3/4)
      (fun i j => if i < j then 1/2 else if j < i then -1/2 else 0) (fun _ _ => 1) false (1/2)).run
      [HOp.thr (1/4)]).map (fun h => (h.net.A, h.net.nLinks, h.net.density))
    = some ([false, true, false, false], 1, some (1/2)) := by decide +kernel
example : ((mkHilbert 2 true (fun i j => if i = j then 1 else 3/4)
      (fun i j => if i < j then 1/2 else if j < i then -1/2 else 0) (fun _ _ => 1) false (1/2)).run
      [HOp.thr (1/4), HOp.dir false (fun i j => if i = j then 1 else 3/4)
        (fun i j => if i < j then 1/2 else if j < i then -1/2 else 0)]).map
      (fun h => (h.net.directed, h.net.A, h.net.nLinks, h.net.density))
    = some (false, [false, true, true, false], 1, some 1) := by decide +kernel

/-! ## 9. as executed: NaN similarities and float32 rounding (round 4)

`Model/SimilarityNumeric.lean`: entries `Option Rat` (`none` = NaN), the rounding `fl` of the
arrays' arithmetic as a parameter (`rn24` = IEEE binary32 in the driver).  The exact model of
sections 1–5 is the special case "no NaN, `fl = id`" (`x_refines`). -/

/-- **link rule with NaNs**: linked ⇔ distinct, both the (weighted) similarity and the threshold
are numbers, and the similarity exceeds the threshold -/
theorem x_link_iff (W : XSim) (θ : Option Rat) (N i j : Nat) (hi : i < N) (hj : j < N) :
    (thresholdAdjacencyX W θ N)[i * N + j]? = some true ↔
      i ≠ j ∧ ∃ s t, W i j = some s ∧ θ = some t ∧ t < s := by
  rw [getElem?_thresholdAdjacencyX W θ N i j hi hj]
  cases hW : W i j with
  | none => simp [gtX]
  | some s =>
    cases θ with
    | none => simp [gtX]
    | some t => simp [gtX]

theorem x_adjacency_length (W : XSim) (θ : Option Rat) (N : Nat) :
    (thresholdAdjacencyX W θ N).length = N * N := length_thresholdAdjacencyX W θ N

/-- a pair whose similarity is NaN is never linked, whatever the threshold and the weight -/
theorem x_nan_never_linked (fl : Rat → Rat) (nl : Bool) (S : XSim) (damp : Sim) (θ : Option Rat)
    (N i j : Nat) (hi : i < N) (hj : j < N) (h : S i j = none) :
    (thresholdAdjacencyX (weightedX fl nl S damp) θ N)[i * N + j]? = some false := by
  rw [getElem?_thresholdAdjacencyX _ θ N i j hi hj]
  simp [weightedX, h, gtX]

/-- a NaN threshold (selected by the quantile rule when NaNs reach the index) gives the empty network -/
theorem x_nan_threshold_empty (W : XSim) (N : Nat) : nnz (thresholdAdjacencyX W none N) = 0 := by
  rw [nnz_thresholdAdjacencyX, List.countP_eq_zero]
  intro x _; simp [gtX_none]

/-- **link rule at the object, as executed**: `|fl s₀|` is the stored float32 similarity, the
product with the weight and the threshold are rounded by the arrays' arithmetic -/
theorem x_link_iff_object (fl : Rat → Rat) (N : Nat) (directed : Bool) (S0 : XSim) (damp : Sim)
    (nl : Bool) (θ : Option Rat) (i j : Nat) (hi : i < N) (hj : j < N) :
    (mkThresholdX fl N directed S0 damp nl θ).A[i * N + j]? = some true ↔
      i ≠ j ∧ ∃ s0 t, S0 i j = some s0 ∧ θ = some t ∧
        fl t < (if nl then fl (ratAbs (fl s0) * damp i j) else ratAbs (fl s0)) := by
  simp only [mkThresholdX, XNet.setThreshold, xblank]
  rw [x_link_iff _ _ _ _ _ hi hj]
  cases hS : S0 i j with
  | none => simp [weightedX, absX, hS]
  | some s0 =>
    cases θ with
    | none => simp
    | some t => cases nl <;> simp [weightedX, absX, hS]

/-- **no spurious link from rounding the threshold**: for a monotone rounding that leaves the stored
similarity `s` unchanged, a reported link means `s` exceeds the *unrounded* threshold -/
theorem float_links_sound (fl : Rat → Rat) (hmono : ∀ x y, x ≤ y → fl x ≤ fl y) (W : XSim) (t : Rat)
    (N i j : Nat) (hi : i < N) (hj : j < N) (s : Rat) (hW : W i j = some s) (hrep : fl s = s)
    (h : (thresholdAdjacencyX W ((some t).map fl) N)[i * N + j]? = some true) : i ≠ j ∧ t < s := by
  rw [x_link_iff _ _ _ _ _ hi hj] at h
  obtain ⟨hij, s', t', h1, h2, h3⟩ := h
  rw [hW] at h1
  simp only [Option.map_some, Option.some.injEq] at h1 h2
  subst h1 h2
  refine ⟨hij, ?_⟩
  by_contra hn
  have := hmono _ _ (not_lt.1 hn)
  rw [hrep] at this
  exact absurd h3 (not_lt.2 this)

/-- **the only links lost to the rounding**: a pair above the threshold is unlinked only when the
threshold rounds *onto* its similarity (`θ` within half an ulp below `s`) -/
theorem float_links_complete (fl : Rat → Rat) (hmono : ∀ x y, x ≤ y → fl x ≤ fl y) (W : XSim)
    (t : Rat) (N i j : Nat) (hi : i < N) (hj : j < N) (hij : i ≠ j) (s : Rat) (hW : W i j = some s)
    (hrep : fl s = s) (hts : t < s)
    (h : (thresholdAdjacencyX W ((some t).map fl) N)[i * N + j]? ≠ some true) : fl t = s := by
  rw [Ne, x_link_iff _ _ _ _ _ hi hj] at h
  have h1 : fl t ≤ s := by
    have := hmono _ _ (le_of_lt hts); rwa [hrep] at this
  rcases lt_or_eq_of_le h1 with h2 | h2
  · exact absurd ⟨hij, s, fl t, hW, rfl, h2⟩ h
  · exact h2

/-- a representable threshold is compared exactly -/
theorem float_threshold_exact (fl : Rat → Rat) (W : XSim) (t : Rat) (N : Nat) (ht : fl t = t) :
    thresholdAdjacencyX W ((some t).map fl) N = thresholdAdjacencyX W (some t) N := by
  simp [ht]

/-- **raising the threshold only removes links, as executed** (NaNs, rounded thresholds) -/
theorem x_antitone_in_threshold (fl : Rat → Rat) (hmono : ∀ x y, x ≤ y → fl x ≤ fl y) (W : XSim)
    (t t' : Rat) (N i j : Nat) (hi : i < N) (hj : j < N) (h : t ≤ t')
    (hl : (thresholdAdjacencyX W ((some t').map fl) N)[i * N + j]? = some true) :
    (thresholdAdjacencyX W ((some t).map fl) N)[i * N + j]? = some true := by
  rw [x_link_iff _ _ _ _ _ hi hj] at hl ⊢
  obtain ⟨hij, s, t1, h1, h2, h3⟩ := hl
  simp only [Option.map_some, Option.some.injEq] at h2
  subst h2
  exact ⟨hij, s, fl t, h1, rfl, lt_of_le_of_lt (hmono _ _ h) h3⟩

/-- a symmetric similarity (NaNs in symmetric positions) gives a symmetric adjacency -/
theorem x_symmetric_of_symmetric (W : XSim) (θ : Option Rat) (N i j : Nat) (hi : i < N) (hj : j < N)
    (hsym : W i j = W j i) :
    (thresholdAdjacencyX W θ N)[i * N + j]? = (thresholdAdjacencyX W θ N)[j * N + i]? := by
  rw [getElem?_thresholdAdjacencyX W θ N i j hi hj, getElem?_thresholdAdjacencyX W θ N j i hj hi,
    hsym]
  have : (i ≠ j) = (j ≠ i) := propext ⟨Ne.symm, Ne.symm⟩
  simp only [this]

/-- **suppression of local links only removes links, as executed in floating point** -/
theorem x_nnz_non_local_le (fl : Rat → Rat) (hmono : ∀ x y, x ≤ y → fl x ≤ fl y) (S : XSim)
    (damp : Sim) (θ : Option Rat) (N : Nat)
    (hrep : ∀ i j s, i < N → j < N → S i j = some s → fl s = s ∧ 0 ≤ s)
    (hd : ∀ i j, i < N → j < N → damp i j ≤ 1) :
    nnz (thresholdAdjacencyX (weightedX fl true S damp) θ N)
      ≤ nnz (thresholdAdjacencyX (weightedX fl false S damp) θ N) :=
  nnzX_non_local_le fl hmono S damp θ N hrep hd

/-- **the realised density never exceeds the request, as executed**: NaN pairs (sorted last, never
linked), the float product `fl (s·w)`, the threshold compared after rounding — for every monotone
rounding that leaves the stored similarities unchanged; no margin is needed -/
theorem x_density_le_request (fl : Rat → Rat) (hmono : ∀ x y, x ≤ y → fl x ≤ fl y) (S : XSim)
    (damp : Sim) (nl : Bool) (N k : Nat) (ρ ε : Rat) (θ : Option Rat)
    (hrep : ∀ i j s, i < N → j < N → S i j = some s → fl s = s ∧ 0 ≤ s)
    (hd : ∀ i j, i < N → j < N → damp i j ≤ 1)
    (hρ : 0 ≤ ρ) (hε : 0 ≤ ε)
    (hk : (1 - ρ) * ((offDiagX S N).length : Rat) - 1 - ε ≤ (k : Rat))
    (h : thresholdFromIndexX S N k = some θ) :
    (nnz (thresholdAdjacencyX (weightedX fl nl S damp) (θ.map fl) N) : Rat)
      ≤ ρ * ((offDiagX S N).length : Rat) + ε :=
  densityX_le_request fl hmono S damp nl N k ρ ε θ hrep hd hρ hε hk h

/-- **with NaNs the request is missed by at most the tied pairs plus the NaN pairs** (non_local off) -/
theorem x_density_gap (fl : Rat → Rat) (S : XSim) (damp : Sim) (N k : Nat) (ρ ε : Rat)
    (θ : Option Rat)
    (hrep : ∀ i j s, i < N → j < N → S i j = some s → fl s = s ∧ 0 ≤ s)
    (hk : (k : Rat) ≤ (1 - ρ) * ((offDiagX S N).length : Rat) + ε)
    (h : thresholdFromIndexX S N k = some θ) :
    ρ * ((offDiagX S N).length : Rat) - ε
      ≤ (nnz (thresholdAdjacencyX (weightedX fl false S damp) (θ.map fl) N) : Rat)
        + (tiesX (offDiagX S N) θ : Rat) + ((offDiagX S N).countP Option.isNone : Rat) :=
  densityX_gap fl S damp N k ρ ε θ hrep hk h

/-- **`set_link_density(ρ)` as executed, with NaNs and float32 arithmetic** (IEEE index):
`nnz ≤ (ρ + 2⁻⁵² + 2⁻¹⁰⁶)·(N² − N)` -/
theorem x_set_link_density_ieee (fl : Rat → Rat) (hmono : ∀ x y, x ≤ y → fl x ≤ fl y)
    (s s' : XNet) (ρ : Rat)
    (hrep : ∀ i j v, i < s.N → j < s.N → s.S i j = some v → fl v = v ∧ 0 ≤ v)
    (hd : ∀ i j, i < s.N → j < s.N → s.damp i j ≤ 1) (h0 : 0 ≤ ρ) (h1 : ρ ≤ 1)
    (h : s.setLinkDensity fl (ieeeIndex ρ (offDiagX s.S s.N).length) = some s') :
    (nnz s'.A : Rat) ≤ (ρ + ieeeSlack) * ((offDiagX s.S s.N).length : Rat) := by
  simp only [XNet.setLinkDensity, Option.map_eq_some_iff] at h
  obtain ⟨θ, hθ, rfl⟩ := h
  obtain ⟨b1, _⟩ := ieeeIndex_bounds ρ (offDiagX s.S s.N).length h0 h1
  have hslack : (0 : Rat) ≤ ieeeSlack := by unfold ieeeSlack; positivity
  have hlen : (0 : Rat) ≤ ((offDiagX s.S s.N).length : Rat) := by exact_mod_cast Nat.zero_le _
  have hε : (0 : Rat) ≤ ((offDiagX s.S s.N).length : Rat) * ieeeSlack := mul_nonneg hlen hslack
  have := x_density_le_request fl hmono s.S s.damp s.nonLocal s.N _ ρ _ θ hrep hd h0 hε b1 hθ
  simp only [XNet.setThreshold]
  linarith

/-- the quantile rule selects a stored similarity or NaN; the call raises exactly for `N ≤ 1` -/
theorem x_threshold_mem (S : XSim) (N k : Nat) (t : Rat)
    (h : thresholdFromIndexX S N k = some (some t)) : some t ∈ offDiagX S N :=
  quantileX_mem _ k t h

/-- **order statistic with NaNs**: at most `len − 1 − m` pairs exceed the selected value and at
least `len − m` exceed it, tie with it or are NaN (`m` the clamped index) -/
theorem x_threshold_is_order_statistic (S : XSim) (N k : Nat) (θ : Option Rat)
    (h : thresholdFromIndexX S N k = some θ) :
    (offDiagX S N).countP (fun x => gtX x θ) + min k ((offDiagX S N).length - 1) + 1
        ≤ (offDiagX S N).length ∧
      (offDiagX S N).length ≤ (offDiagX S N).countP (fun x => gtX x θ) + tiesX (offDiagX S N) θ
        + (offDiagX S N).countP Option.isNone + min k ((offDiagX S N).length - 1) :=
  ⟨quantileX_upper _ k θ h, quantileX_lower _ k θ h⟩

/-- binary32 rounding: relative error `2⁻²⁴`, absolute error `2⁻¹⁵⁰` (gradual underflow) -/
theorem rn24_error (x : Rat) : |rn24 x - x| ≤ (1 / 2 ^ 24) * |x| + 1 / 2 ^ 150 := rn24_err x

/-- **proved margin for the float comparison**: for every rounding with relative error `u` and
absolute error `η`, `fl θ < fl p` decides as `θ < p` once `|p − θ| > u (|p| + |θ|) + 2η` -/
theorem float_decision_exact_of_margin (fl : Rat → Rat) (u η : Rat) (h : RoundsWithin fl u η)
    (p θ : Rat) (hm : u * (|p| + |θ|) + 2 * η < |p - θ|) : fl θ < fl p ↔ θ < p :=
  decision_exact_of_margin fl u η h p θ hm

/-- a relative distance of `4u` from the threshold (plus `4η`) is such a margin: for binary32 a
relative gap of `2⁻²²` ≈ 2.4e-7 — the harness's former near-tie exclusion (1e-6) was sufficient -/
theorem float_margin_of_relative_gap (u η p θ : Rat) (hu0 : 0 ≤ u) (hu : u ≤ 1 / 4) (hη : 0 ≤ η)
    (hg : 4 * u * |θ| + 4 * η < |p - θ|) : u * (|p| + |θ|) + 2 * η < |p - θ| :=
  margin_of_relative_gap u η p θ hu0 hu hη hg

/-- the float32 decision on the damped similarity equals the exact one outside the `2⁻²²` band -/
theorem rn24_decision_exact (p θ : Rat)
    (hg : 4 * (1 / 2 ^ 24) * |θ| + 4 * (1 / 2 ^ 150) < |p - θ|) : rn24 θ < rn24 p ↔ θ < p :=
  decision_exact_of_margin rn24 _ _ rn24_roundsWithin p θ
    (margin_of_relative_gap _ _ p θ (by positivity) (by norm_num) (by positivity) hg)

/-! ### the distance weight as executed -/

/-- **the computed weight lies in `[0, 1]`**: every operation of
`0.5 * (np.tanh(a * (d - d_min)) + 1)` rounded by a monotone rounding that is exact on `0, 1, 2`,
`tanh` any function with values in `[-1, 1]` — the hypothesis `damp ≤ 1` of the density theorems
holds for the weight the code computes, not only for the exact formula -/
theorem dampOfFl_mem_unit (fl th : Rat → Rat) (hmono : ∀ x y, x ≤ y → fl x ≤ fl y)
    (h0 : fl 0 = 0) (h1 : fl 1 = 1) (h2 : fl 2 = 2) (hth : ∀ x, -1 ≤ th x ∧ th x ≤ 1)
    (a dmin d : Rat) : 0 ≤ dampOfFl fl th a dmin d ∧ dampOfFl fl th a dmin d ≤ 1 := by
  unfold dampOfFl
  obtain ⟨t1, t2⟩ := hth (fl (a * fl (d - dmin)))
  set t := th (fl (a * fl (d - dmin)))
  have a1 : 0 ≤ fl (t + 1) := by have := hmono 0 (t + 1) (by linarith); rwa [h0] at this
  have a2 : fl (t + 1) ≤ 2 := by have := hmono (t + 1) 2 (by linarith); rwa [h2] at this
  constructor
  · have := hmono 0 (1 / 2 * fl (t + 1)) (by linarith); rwa [h0] at this
  · have := hmono (1 / 2 * fl (t + 1)) 1 (by linarith); rwa [h1] at this

/-- with exact arithmetic the executed formula is the documented one -/
theorem dampOfFl_id (th : Rat → Rat) (a dmin d : Rat) :
    dampOfFl id th a dmin d = dampOf th a dmin d := rfl

/-- **suppression of local links with the weight as computed only removes links, as executed** -/
theorem x_nnz_non_local_le_documented (fl th : Rat → Rat) (hmono : ∀ x y, x ≤ y → fl x ≤ fl y)
    (h0 : fl 0 = 0) (h1 : fl 1 = 1) (h2 : fl 2 = 2) (hth : ∀ x, -1 ≤ th x ∧ th x ≤ 1)
    (S : XSim) (dist : Sim) (a dmin : Rat) (θ : Option Rat) (N : Nat)
    (hrep : ∀ i j s, i < N → j < N → S i j = some s → fl s = s ∧ 0 ≤ s) :
    nnz (thresholdAdjacencyX (weightedX fl true S (dampMatFl fl th a dmin dist)) θ N)
      ≤ nnz (thresholdAdjacencyX (weightedX fl false S (dampMatFl fl th a dmin dist)) θ N) :=
  x_nnz_non_local_le fl hmono S _ θ N hrep fun i j _ _ =>
    (dampOfFl_mem_unit fl th hmono h0 h1 h2 hth a dmin (dist i j)).2

/-! ### `link_density_function` (l.343–359) -/

/-- **`link_density_function(n)[i]` is the fraction of all `N²` stored similarities below bin edge
`i`** (`i < n`; edges ascending, all entries inside `[e₀, eₙ]` as `np.histogram` guarantees) -/
theorem link_density_function_spec (S : Sim) (N : Nat) (edges : List Rat) (n i : Nat) (hi : i < n)
    (hmono : ∀ a, a < n → edges.getD a 0 ≤ edges.getD (a + 1) 0)
    (hin : ∀ x ∈ allEntries S N, edges.getD 0 0 ≤ x ∧ x ≤ edges.getD n 0) :
    (linkDensityFunction S N edges n)[i]? = some
      ((((allEntries S N).countP fun x => decide (x < edges.getD i 0) : Nat) : Rat)
        / ((N * N : Nat) : Rat)) := by
  unfold linkDensityFunction
  simp only [List.getElem?_map, List.getElem?_range hi, Option.map_some]
  rw [hist_prefix_sum _ _ _ _ hi hmono, hist_total _ _ _ (by omega) hmono hin, length_allEntries,
    cnt_below _ _ _ fun x hx => (hin x hx).1]

/-- despite its name the function bounds the link density from above: at threshold `e_i` the
number of (ordered) linked pairs is at most the number of entries not below `e_i` -/
theorem link_density_function_bounds_links (S : Sim) (N : Nat) (e : Rat) :
    nnz (thresholdAdjacency S e N) + (allEntries S N).countP (fun x => decide (x < e)) ≤ N * N := by
  rw [nnz_thresholdAdjacency, ← length_allEntries S N]
  have h1 := offDiag_countP_le_all S N fun s => decide (e < s)
  have h2 := countP_add_le_length (allEntries S N) (fun s => decide (e < s))
    (fun x => decide (x < e)) (by
      intro x _ ⟨a, b⟩
      simp only [decide_eq_true_eq] at a b
      exact absurd a (not_lt.2 (le_of_lt b)))
  omega

/-- the function starts at 0 and never decreases (exact arithmetic) -/
theorem link_density_function_mono (xs : List Rat) (e e' : Rat) (h : e ≤ e') :
    xs.countP (fun x => decide (x < e)) ≤ xs.countP (fun x => decide (x < e')) := by
  apply List.countP_mono_left
  intro x _ hx
  simp only [decide_eq_true_eq] at hx ⊢
  exact lt_of_lt_of_le hx h

example : linkDensityFunction (fun i j => ((2 * i + j + 1 : Nat) : Rat) / 4) 2 [1/4, 1/2, 3/4, 1] 3
    = [0, 1/4, 1/2] := by decide +kernel

/-! ### consistency after every history, as executed -/

def XNet.Consistent (fl : Rat → Rat) (s : XNet) : Prop :=
  s.A = thresholdAdjacencyX (weightedX fl s.nonLocal s.S s.damp) (s.θ.map fl) s.N ∧
  s.nLinks = countLinks s.directed s.A ∧
  s.density = linkDensity s.A s.N

def XNet.SameData (s t : XNet) : Prop :=
  t.N = s.N ∧ t.directed = s.directed ∧ t.damp = s.damp

def curSimX (fl : Rat → Rat) (S : XSim) : List XOp → XSim
  | [] => S
  | .resim S1 :: os => curSimX fl (absX fl S1) os
  | _ :: os => curSimX fl S os

theorem x_setThreshold_consistent (fl : Rat → Rat) (s : XNet) (θ : Option Rat) :
    (s.setThreshold fl θ).Consistent fl ∧ s.SameData (s.setThreshold fl θ) ∧
      (s.setThreshold fl θ).S = s.S := by
  simp [XNet.setThreshold, XNet.Consistent, XNet.SameData]

theorem x_step_consistent (fl : Rat → Rat) (s s' : XNet) (o : XOp) (hc : s.Consistent fl)
    (h : s.step fl o = some s') :
    s'.Consistent fl ∧ s.SameData s' ∧ s'.S = curSimX fl s.S [o] := by
  cases o with
  | thr θ =>
    simp only [XNet.step, Option.some.injEq] at h
    subst h
    exact x_setThreshold_consistent fl s θ
  | dens k =>
    simp only [XNet.step, XNet.setLinkDensity, Option.map_eq_some_iff] at h
    obtain ⟨θ, _, rfl⟩ := h
    exact x_setThreshold_consistent fl s θ
  | nl b =>
    simp only [XNet.step, XNet.setNonLocal, Option.some.injEq] at h
    by_cases hb : (s.nonLocal != b) = true
    · rw [if_pos hb] at h
      subst h
      exact x_setThreshold_consistent fl { s with nonLocal := b } s.θ
    · rw [if_neg hb] at h
      subst h
      exact ⟨hc, ⟨rfl, rfl, rfl⟩, rfl⟩
  | resim S1 =>
    simp only [XNet.step, Option.some.injEq] at h
    subst h
    exact x_setThreshold_consistent fl { s with S := absX fl S1 } s.θ

theorem curSimX_cons (fl : Rat → Rat) (S : XSim) (o : XOp) (os : List XOp) :
    curSimX fl S (o :: os) = curSimX fl (curSimX fl S [o]) os := by
  cases o <;> simp [curSimX]

/-- **consistency after every history, as executed**: NaN similarities, NaN thresholds, float32
arithmetic — adjacency, link count and density are those of the reported threshold / `non_local`
and of the current similarity -/
theorem x_consistent_after_history (fl : Rat → Rat) (ops : List XOp) (s s' : XNet)
    (hc : s.Consistent fl) (h : s.run fl ops = some s') :
    s'.Consistent fl ∧ s.SameData s' ∧ s'.S = curSimX fl s.S ops := by
  induction ops generalizing s with
  | nil =>
    simp only [XNet.run, Option.some.injEq] at h
    subst h
    exact ⟨hc, ⟨rfl, rfl, rfl⟩, rfl⟩
  | cons o os ih =>
    simp only [XNet.run, Option.bind_eq_some_iff] at h
    obtain ⟨s1, h1, h2⟩ := h
    have c1 := x_step_consistent fl s s1 o hc h1
    have c2 := ih s1 c1.1 h2
    refine ⟨c2.1, ?_, ?_⟩
    · obtain ⟨a1, a2, a3⟩ := c1.2.1
      obtain ⟨b1, b2, b3⟩ := c2.2.1
      exact ⟨b1.trans a1, b2.trans a2, b3.trans a3⟩
    · rw [c2.2.2, c1.2.2, ← curSimX_cons]

theorem curSimX_absX (fl : Rat → Rat) (S0 : XSim) (ops : List XOp) :
    curSimX fl (absX fl S0) ops = absX fl (lastSimX S0 ops) := by
  induction ops generalizing S0 with
  | nil => rfl
  | cons o os ih => cases o <;> simp [curSimX, lastSimX, ih]

/-- **fresh twin, as executed**: after any history the object equals the fresh
`ClimateNetwork(grid, S, threshold=threshold(), non_local=non_local())` built from the similarity
last handed over — also with NaN entries and a NaN threshold -/
theorem x_history_eq_fresh (fl : Rat → Rat) (N : Nat) (directed : Bool) (S0 : XSim) (damp : Sim)
    (nl : Bool) (θ : Option Rat) (ops : List XOp) (s' : XNet)
    (h : (mkThresholdX fl N directed S0 damp nl θ).run fl ops = some s') :
    s' = mkThresholdX fl N directed (lastSimX S0 ops) damp s'.nonLocal s'.θ := by
  have hc : (mkThresholdX fl N directed S0 damp nl θ).Consistent fl :=
    (x_setThreshold_consistent fl _ θ).1
  obtain ⟨⟨c1, c2, c3⟩, ⟨d1, d2, d3⟩, d4⟩ := x_consistent_after_history fl ops _ s' hc h
  have hS : s'.S = absX fl (lastSimX S0 ops) := by
    rw [d4, ← curSimX_absX]; rfl
  cases s'
  simp only [mkThresholdX, XNet.setThreshold, xblank] at *
  subst d1 d2 d3 hS
  simp [c1, c2, c3]

/-- **the exact model is the special case** "no NaN, no rounding": running a history on the
embedded object is embedding the result of the exact model -/
theorem x_refines (ops : List Op) (s : Net) :
    (embed s).run id (ops.map embedOp) = (s.run ops).map embed := embed_run' ops s

/-- NaN pair in a 3-node network, request ρ = 1/2 (index 3 of 6): the NaNs sort last, the selected
value 1/2 leaves 1 ordered pair linked (≤ 3), 2 tied, 2 NaN -/
example : let S : XSim := fun i j => if i + j = 1 then none else some (((i + j : Nat) : Rat) / 4)
    thresholdFromIndexX S 3 3 = some (some (3/4)) ∧ thresholdFromIndexX S 3 5 = some none ∧
      thresholdFromIndexX S 3 1 = some (some (1/2)) ∧
      nnz (thresholdAdjacencyX S (some (1/2)) 3) = 2 ∧
      (offDiagX S 3).countP Option.isNone = 2 ∧ tiesX (offDiagX S 3) (some (1/2)) = 2 := by
  decide +kernel

/-- float32: the threshold 1 − 2⁻³⁰ rounds onto the similarity 1 — the pair is above the threshold
but unlinked (`float_links_complete`); 1 − 2⁻²⁰ does not -/
example : rn24 (1 - 1 / 2 ^ 30) = 1 ∧ rn24 (1 - 1 / 2 ^ 20) = 1 - 1 / 2 ^ 20 ∧
    rn24 (1 / 3) = 11184811 / 33554432 ∧ rn24 (-(1 / 3)) = -(11184811 / 33554432) ∧
    rn24 (3 / 2 ^ 150) = 4 / 2 ^ 150 := by decide +kernel

/-! ## 10. `CoupledClimateNetwork`: the layer / cross-layer accessors (round 4)

The accessors are `InteractingNetworks` methods (C11's model `Pyunicorn.Cross`, imported) applied to
the adjacency the `ClimateNetwork` model holds; here they are proved to return the thresholded
blocks of the similarity — for the constructed object and after every history. -/

open Pyunicorn.Cross in
/-- **`cross_layer_adjacency()`** of a consistent coupled network: entry `(i, j)` is 1 exactly when
the (weighted) similarity of node `i` of layer 1 and node `j` of layer 2 exceeds the threshold -/
theorem coupled_cross_layer_adjacency (N1 N2 : Nat) (s : Net) (hc : s.Consistent)
    (hN : s.N = N1 + N2) :
    crossLayerAdjacency N1 N2 s = (List.range N1).map fun i => (List.range N2).map fun j =>
      b2n (decide (s.θ < weighted s.nonLocal s.S s.damp i (N1 + j))) := by
  unfold crossLayerAdjacency nodes1 nodes2
  rw [hc.1, hN, blockN_congr _ (fun a b => b2n (decide (s.θ < weighted s.nonLocal s.S s.damp a b)))]
  · simp [List.map_map, Function.comp_def]
  · intro a ha b hb
    simp only [List.mem_range] at ha
    simp only [List.mem_map, List.mem_range] at hb
    obtain ⟨j, hj, rfl⟩ := hb
    rw [adjOf_thresholdAdjacency _ _ _ _ _ (by omega) (by omega)]
    have : a ≠ N1 + j := by omega
    simp [this]

open Pyunicorn.Cross in
/-- **`adjacency_1()`**: the thresholded block of the first layer, zero diagonal -/
theorem coupled_adjacency_1 (N1 N2 : Nat) (s : Net) (hc : s.Consistent) (hN : s.N = N1 + N2) :
    adjacency1 N1 s = (List.range N1).map fun i => (List.range N1).map fun j =>
      b2n (decide (i ≠ j ∧ s.θ < weighted s.nonLocal s.S s.damp i j)) := by
  unfold adjacency1 internalAdjacency nodes1
  rw [hc.1, hN]
  apply blockN_congr
  intro a ha b hb
  simp only [List.mem_range] at ha hb
  rw [adjOf_thresholdAdjacency _ _ _ _ _ (by omega) (by omega)]

open Pyunicorn.Cross in
/-- **`adjacency_2()`**: the thresholded block of the second layer, zero diagonal -/
theorem coupled_adjacency_2 (N1 N2 : Nat) (s : Net) (hc : s.Consistent) (hN : s.N = N1 + N2) :
    adjacency2 N1 N2 s = (List.range N2).map fun i => (List.range N2).map fun j =>
      b2n (decide (i ≠ j ∧ s.θ < weighted s.nonLocal s.S s.damp (N1 + i) (N1 + j))) := by
  unfold adjacency2 internalAdjacency nodes2
  rw [hc.1, hN, blockN_congr _ (fun a b =>
    b2n (decide (a ≠ b ∧ s.θ < weighted s.nonLocal s.S s.damp a b)))]
  · simp only [List.map_map, Function.comp_def]
    apply List.map_congr_left; intro i _
    apply List.map_congr_left; intro j _
    have : (N1 + i ≠ N1 + j) = (i ≠ j) := by
      apply propext; constructor <;> intro h <;> omega
    simp only [this]
  · intro a ha b hb
    simp only [List.mem_map, List.mem_range] at ha hb
    obtain ⟨i, hi, rfl⟩ := ha
    obtain ⟨j, hj, rfl⟩ := hb
    rw [adjOf_thresholdAdjacency _ _ _ _ _ (by omega) (by omega)]

open Pyunicorn.Cross in
/-- **`number_cross_layer_links()`** counts the cross pairs above the threshold, and
**`cross_link_density()`** is that count over `N₁·N₂` -/
theorem coupled_number_cross_layer_links (N1 N2 : Nat) (s : Net) (hc : s.Consistent)
    (hN : s.N = N1 + N2) :
    numberCrossLayerLinks N1 N2 s = ((List.range N1).map fun i => ((List.range N2).map fun j =>
        b2n (decide (s.θ < weighted s.nonLocal s.S s.damp i (N1 + j)))).sum).sum ∧
      crossLinkDensityC N1 N2 s = (if N1 * N2 = 0 then none else
        some ((numberCrossLayerLinks N1 N2 s : Rat) / ((N1 * N2 : Nat) : Rat))) := by
  have h := coupled_cross_layer_adjacency N1 N2 s hc hN
  unfold crossLayerAdjacency at h
  constructor
  · unfold numberCrossLayerLinks numberCrossLinks rowSums
    rw [h]
    simp [List.map_map, Function.comp_def]
  · unfold crossLinkDensityC crossLinkDensity numberCrossLayerLinks
    simp [nodes1, nodes2]

/-- **the accessors after every history**: whatever setters and re-derivations ran, the
cross-layer adjacency is the thresholded cross block at the *reported* threshold -/
theorem coupled_after_history (N1 N2 : Nat) (directed : Bool) (S0 damp : Sim) (nl : Bool) (θ : Rat)
    (ops : List Op) (s' : Net)
    (h : (mkThreshold (N1 + N2) directed S0 damp nl θ).run ops = some s') :
    crossLayerAdjacency N1 N2 s' = (List.range N1).map fun i => (List.range N2).map fun j =>
      Pyunicorn.Cross.b2n (decide (s'.θ <
        weighted s'.nonLocal (absSim (lastSim S0 ops)) damp i (N1 + j))) := by
  have hc : (mkThreshold (N1 + N2) directed S0 damp nl θ).Consistent :=
    (setThreshold_consistent _ θ).1
  obtain ⟨c, ⟨d1, _, d3⟩, d4⟩ := consistent_after_history ops _ s' hc h
  have hS : s'.S = absSim (lastSim S0 ops) := by rw [d4, ← curSim_absSim]; rfl
  have hd : s'.damp = damp := d3
  rw [coupled_cross_layer_adjacency N1 N2 s' c (by rw [d1]; rfl), hS, hd]

example : let s : Net := mkThreshold 3 false (fun i j => if i = j then 1 else ((i + j : Nat) : Rat) / 4) (fun _ _ => 1) false (3/8)
    crossLayerAdjacency 1 2 s = [[0, 1]] ∧ adjacency1 1 s = [[0]] ∧ adjacency2 1 2 s = [[0, 1], [1, 0]] ∧
      numberCrossLayerLinks 1 2 s = 1 ∧ crossLinkDensityC 1 2 s = some (1/2) := by decide +kernel

/-! ## 11. the float32 rounding of the model *is* a rounding (round 5)

The theorems of section 9 hold for every monotone `fl` that leaves the stored values fixed; until
round 4 these two facts were hypotheses, probed on samples.  For `rnF p emin` (every precision
`p ≥ 1`, every `emin`; `rn24 = rnF 24 (-126)` is what the driver runs and what is compared with
numpy's float32 on every run) they are theorems, so the float32 statements hold for every object
the class can reach with **no hypothesis about the rounding left**. -/

/-- **round-to-nearest-even to `p` bits with gradual underflow is monotone** — within a binade,
across binades (where the spacing doubles), through the subnormal range and through zero -/
theorem rnF_monotone (p : Nat) (hp : 1 ≤ p) (emin : Int) (x y : Rat) (h : x ≤ y) :
    rnF p emin x ≤ rnF p emin y := rnF_mono p hp emin x y h

/-- **… idempotent** (a result is representable: rounding it again changes nothing) **and odd** -/
theorem rnF_idempotent (p : Nat) (hp : 1 ≤ p) (emin : Int) (x : Rat) :
    rnF p emin (rnF p emin x) = rnF p emin x ∧ rnF p emin (-x) = - rnF p emin x :=
  ⟨rnF_idem p hp emin x, rnF_neg p emin x⟩

/-- the binary exponent of the model is the true one: `2^e ≤ x < 2^(e+1)` -/
theorem binExp_spec (x : Rat) (hx : 0 < x) : twoPow (binExp x) ≤ x ∧ x < twoPow (binExp x + 1) :=
  ⟨twoPow_binExp_le x hx, binExp_lt x hx⟩

theorem rn24_monotone (x y : Rat) (h : x ≤ y) : rn24 x ≤ rn24 y :=
  rnF_mono 24 (by norm_num) (-126) x y h

theorem rn24_idempotent (x : Rat) : rn24 (rn24 x) = rn24 x := rnF_idem 24 (by norm_num) (-126) x

/-- binary32 is exact on the constants of the weight formula -/
theorem rn24_exact_consts : rn24 0 = 0 ∧ rn24 1 = 1 ∧ rn24 2 = 2 ∧ rn24 (1 / 2) = 1 / 2 := by
  decide +kernel

/-- **the stored similarity `np.abs(S.astype("float32"))` consists of float32 fixed points ≥ 0** -/
theorem rn24_stored_fixed (S0 : XSim) (i j : Nat) (v : Rat) (h : absX rn24 S0 i j = some v) :
    rn24 v = v ∧ 0 ≤ v := by
  simp only [absX, Option.map_eq_some_iff] at h
  obtain ⟨s0, _, rfl⟩ := h
  exact rnF_abs_fixed 24 (by norm_num) (-126) s0

/-- **… and stays so after every history** of `set_threshold / set_link_density / set_non_local`
calls and similarity re-derivations (NaN entries, NaN thresholds allowed): hypothesis `hrep` of the
`x_*` theorems holds for every reachable object -/
theorem rn24_stored_fixed_after_history (N : Nat) (directed : Bool) (S0 : XSim) (damp : Sim)
    (nl : Bool) (θ : Option Rat) (ops : List XOp) (s' : XNet)
    (h : (mkThresholdX rn24 N directed S0 damp nl θ).run rn24 ops = some s') :
    (∀ i j v, s'.S i j = some v → rn24 v = v ∧ 0 ≤ v) ∧ s'.N = N ∧ s'.damp = damp ∧
      s'.Consistent rn24 := by
  have hc : (mkThresholdX rn24 N directed S0 damp nl θ).Consistent rn24 :=
    (x_setThreshold_consistent rn24 _ θ).1
  obtain ⟨c, ⟨d1, _, d3⟩, d4⟩ := x_consistent_after_history rn24 ops _ s' hc h
  have hS : s'.S = absX rn24 (lastSimX S0 ops) := by
    rw [d4, ← curSimX_absX]; rfl
  refine ⟨?_, d1, d3, c⟩
  intro i j v hv
  rw [hS] at hv
  exact rn24_stored_fixed _ i j v hv

/-- **the weighted similarity the comparison sees is a float32 fixed point too** (the stored value,
or the rounded product `fl (s·w)`) -/
theorem rn24_weighted_fixed (nl : Bool) (S : XSim) (damp : Sim)
    (hrep : ∀ i j v, S i j = some v → rn24 v = v ∧ 0 ≤ v) (i j : Nat) (v : Rat)
    (h : weightedX rn24 nl S damp i j = some v) : rn24 v = v := by
  simp only [weightedX, Option.map_eq_some_iff] at h
  obtain ⟨s, hs, rfl⟩ := h
  cases nl
  · simpa using (hrep i j s hs).1
  · simpa using rn24_idempotent (s * damp i j)

/-- **the link rule of every reachable float32 object, against the *unrounded* reported
threshold**: a reported link joins distinct nodes whose (damped, float32) similarity exceeds
`threshold()`; a pair above `threshold()` that is not linked has `float32(threshold()) =` its
similarity.  No hypothesis about the rounding; `non_local` on or off; NaNs anywhere. -/
theorem rn24_link_rule_after_history (N : Nat) (directed : Bool) (S0 : XSim) (damp : Sim)
    (nl : Bool) (θ : Option Rat) (ops : List XOp) (s' : XNet)
    (h : (mkThresholdX rn24 N directed S0 damp nl θ).run rn24 ops = some s')
    (t : Rat) (ht : s'.θ = some t) (i j : Nat) (hi : i < N) (hj : j < N) (w : Rat)
    (hw : weightedX rn24 s'.nonLocal s'.S damp i j = some w) :
    (s'.A[i * N + j]? = some true → i ≠ j ∧ t < w) ∧
      (i ≠ j → t < w → s'.A[i * N + j]? ≠ some true → rn24 t = w) := by
  obtain ⟨hrep, hN, hd, hA, _, _⟩ := rn24_stored_fixed_after_history N directed S0 damp nl θ ops s' h
  rw [hA, ht, hN, hd]
  have hfix := rn24_weighted_fixed s'.nonLocal s'.S damp hrep i j w hw
  exact ⟨fun hl => float_links_sound rn24 rn24_monotone _ t N i j hi hj w hw hfix hl,
    fun hij htw hl => float_links_complete rn24 rn24_monotone _ t N i j hi hj hij w hw hfix htw hl⟩

/-- **`set_link_density(ρ)` as executed on every reachable float32 object**: whatever history of
setters and re-derivations produced the object (NaN similarities and NaN thresholds included), the
call with the IEEE index links at most `(ρ + 2⁻⁵² + 2⁻¹⁰⁶)·(N² − N)` ordered pairs.  The only
hypothesis left is `damp ≤ 1` (discharged below for the computed weight). -/
theorem rn24_density_request_after_history (N : Nat) (directed : Bool) (S0 : XSim) (damp : Sim)
    (nl : Bool) (θ : Option Rat) (ops : List XOp) (s' s'' : XNet) (ρ : Rat)
    (h : (mkThresholdX rn24 N directed S0 damp nl θ).run rn24 ops = some s')
    (hd : ∀ i j, i < N → j < N → damp i j ≤ 1) (h0 : 0 ≤ ρ) (h1 : ρ ≤ 1)
    (h2 : s'.setLinkDensity rn24 (ieeeIndex ρ (offDiagX s'.S s'.N).length) = some s'') :
    (nnz s''.A : Rat) ≤ (ρ + ieeeSlack) * ((offDiagX s'.S s'.N).length : Rat) := by
  obtain ⟨hrep, hN, hdm, _⟩ := rn24_stored_fixed_after_history N directed S0 damp nl θ ops s' h
  exact x_set_link_density_ieee rn24 rn24_monotone s' s'' ρ (fun i j v _ _ hv => hrep i j v hv)
    (by rw [hN, hdm]; exact hd) h0 h1 h2

/-- **the weight as computed in float32 lies in `[0, 1]`** for every `tanh` with values in
`[-1, 1]` — no hypothesis about the rounding -/
theorem rn24_weight_mem_unit (th : Rat → Rat) (hth : ∀ x, -1 ≤ th x ∧ th x ≤ 1) (a dmin d : Rat) :
    0 ≤ dampOfFl rn24 th a dmin d ∧ dampOfFl rn24 th a dmin d ≤ 1 :=
  dampOfFl_mem_unit rn24 th rn24_monotone rn24_exact_consts.1 rn24_exact_consts.2.1
    rn24_exact_consts.2.2.1 hth a dmin d

/-- **… hence with the documented weight nothing is assumed at all**: a float32 network with the
distance weight computed as the code computes it, after any history, never exceeds a requested
density by more than the rounding unit of the index -/
theorem rn24_density_request_documented_weight (N : Nat) (directed : Bool) (S0 : XSim) (dist : Sim)
    (th : Rat → Rat) (hth : ∀ x, -1 ≤ th x ∧ th x ≤ 1) (a dmin : Rat)
    (nl : Bool) (θ : Option Rat) (ops : List XOp) (s' s'' : XNet) (ρ : Rat)
    (h : (mkThresholdX rn24 N directed S0 (dampMatFl rn24 th a dmin dist) nl θ).run rn24 ops
      = some s') (h0 : 0 ≤ ρ) (h1 : ρ ≤ 1)
    (h2 : s'.setLinkDensity rn24 (ieeeIndex ρ (offDiagX s'.S s'.N).length) = some s'') :
    (nnz s''.A : Rat) ≤ (ρ + ieeeSlack) * ((offDiagX s'.S s'.N).length : Rat) :=
  rn24_density_request_after_history N directed S0 _ nl θ ops s' s'' ρ h
    (fun i j _ _ => (rn24_weight_mem_unit th hth a dmin (dist i j)).2) h0 h1 h2

/-- **suppressing local links only removes links, on every reachable float32 object** -/
theorem rn24_non_local_le_after_history (N : Nat) (directed : Bool) (S0 : XSim) (damp : Sim)
    (nl : Bool) (θ : Option Rat) (ops : List XOp) (s' : XNet)
    (h : (mkThresholdX rn24 N directed S0 damp nl θ).run rn24 ops = some s')
    (hd : ∀ i j, i < N → j < N → damp i j ≤ 1) (t : Option Rat) :
    nnz (thresholdAdjacencyX (weightedX rn24 true s'.S damp) t N)
      ≤ nnz (thresholdAdjacencyX (weightedX rn24 false s'.S damp) t N) := by
  obtain ⟨hrep, _, _, _⟩ := rn24_stored_fixed_after_history N directed S0 damp nl θ ops s' h
  exact x_nnz_non_local_le rn24 rn24_monotone s'.S damp t N (fun i j v _ _ hv => hrep i j v hv) hd

/-- the crossing of a binade: 2²⁴−1 and 2²⁴+1 round to 2²⁴−1 and 2²⁴ (spacing 1 → 2), the largest
subnormal and the smallest normal are fixed, half the smallest subnormal rounds to zero (even) -/
example : rn24 (2 ^ 24 - 1) = 2 ^ 24 - 1 ∧ rn24 (2 ^ 24 + 1) = 2 ^ 24 ∧ rn24 (2 ^ 24 + 3) = 2 ^ 24 + 4 ∧
    rn24 ((2 ^ 23 - 1) / 2 ^ 149) = (2 ^ 23 - 1) / 2 ^ 149 ∧ rn24 (1 / 2 ^ 126) = 1 / 2 ^ 126 ∧
    rn24 (1 / 2 ^ 150) = 0 ∧ rn24 (3 / 2 ^ 150) = 4 / 2 ^ 150 ∧ rn24 (-(2 ^ 24 + 1)) = -(2 ^ 24) := by
  decide +kernel

/-- a reachable float32 object with a NaN pair, after `set_non_local(True)` and a re-derivation -/
example : ((mkThresholdX rn24 2 false (fun i j => if i = j then some 1 else some (-(1/3)))
    (fun _ _ => 3/4) false (some (1/4))).run rn24
      [.nl true, .resim (fun i j => if i = j then none else some (2/3))]).isSome = true := by
  decide +kernel

/-! ### the request is missed by exactly three kinds of pairs — combined (round 5)

Round 2 (`density_gap_non_local`: suppressed pairs) and round 4 (`x_density_gap`: NaN pairs) each
named one extra term; here they hold together, for the computation as executed. -/

/-- the ordered pairs above the threshold whose *float* damped similarity is not above it -/
def suppressedX (fl : Rat → Rat) (S : XSim) (damp : Sim) (θ : Option Rat) (N : Nat) : Nat :=
  ((List.range (N * N)).filter fun p => p / N != p % N).countP fun p =>
    gtX (S (p / N) (p % N)) θ && !gtX (weightedX fl true S damp (p / N) (p % N)) θ

/-- **"misses it by at most the tied pairs", as executed and with everything switched on**: NaN
similarities, `non_local`, float product, rounded threshold.  For every raw index
`k ≤ (1 − ρ)·len + ε`:
`ρ·len − ε ≤ #linked + #tied at θ + #NaN + #suppressed by the (rounded) distance weight`. -/
theorem x_density_gap_non_local (fl : Rat → Rat) (S : XSim) (damp : Sim) (N k : Nat) (ρ ε : Rat)
    (θ : Option Rat)
    (hrep : ∀ i j s, i < N → j < N → S i j = some s → fl s = s ∧ 0 ≤ s)
    (hk : (k : Rat) ≤ (1 - ρ) * ((offDiagX S N).length : Rat) + ε)
    (h : thresholdFromIndexX S N k = some θ) :
    ρ * ((offDiagX S N).length : Rat) - ε
      ≤ (nnz (thresholdAdjacencyX (weightedX fl true S damp) (θ.map fl) N) : Rat)
        + (tiesX (offDiagX S N) θ : Rat) + ((offDiagX S N).countP Option.isNone : Rat)
        + (suppressedX fl S damp θ N : Rat) := by
  have h0 := x_density_gap fl S damp N k ρ ε θ hrep hk h
  rw [selected_threshold_fixed fl S N k θ hrep h] at h0 ⊢
  have hle : nnz (thresholdAdjacencyX (weightedX fl false S damp) θ N)
      ≤ nnz (thresholdAdjacencyX (weightedX fl true S damp) θ N) + suppressedX fl S damp θ N := by
    rw [nnz_thresholdAdjacencyX, nnz_thresholdAdjacencyX, weightedX_false]
    simp only [offDiagX, List.countP_map, suppressedX]
    exact countP_le_countP_add ((List.range (N * N)).filter fun p => p / N != p % N)
      (fun p => gtX (S (p / N) (p % N)) θ)
      (fun p => gtX (weightedX fl true S damp (p / N) (p % N)) θ)
  have : (nnz (thresholdAdjacencyX (weightedX fl false S damp) θ N) : Rat)
      ≤ (nnz (thresholdAdjacencyX (weightedX fl true S damp) θ N) : Rat)
        + (suppressedX fl S damp θ N : Rat) := by exact_mod_cast hle
  linarith

/-- **… on every reachable float32 object, with the IEEE index**: after any history,
`set_link_density(ρ)` with `non_local` on links at least
`(ρ − 2⁻⁵² − 2⁻¹⁰⁶)·(N² − N) − #tied − #NaN − #suppressed` ordered pairs -/
theorem rn24_density_gap_after_history (N : Nat) (directed : Bool) (S0 : XSim) (damp : Sim)
    (nl : Bool) (θ : Option Rat) (ops : List XOp) (s' : XNet) (ρ : Rat) (θ' : Option Rat)
    (h : (mkThresholdX rn24 N directed S0 damp nl θ).run rn24 ops = some s')
    (h0 : 0 ≤ ρ) (h1 : ρ ≤ 1)
    (h2 : thresholdFromIndexX s'.S N (ieeeIndex ρ (offDiagX s'.S N).length) = some θ') :
    (ρ - ieeeSlack) * ((offDiagX s'.S N).length : Rat)
      ≤ (nnz (thresholdAdjacencyX (weightedX rn24 true s'.S damp) (θ'.map rn24) N) : Rat)
        + (tiesX (offDiagX s'.S N) θ' : Rat) + ((offDiagX s'.S N).countP Option.isNone : Rat)
        + (suppressedX rn24 s'.S damp θ' N : Rat) := by
  obtain ⟨hrep, _, _, _⟩ := rn24_stored_fixed_after_history N directed S0 damp nl θ ops s' h
  obtain ⟨_, b2⟩ := ieeeIndex_bounds ρ (offDiagX s'.S N).length h0 h1
  have := x_density_gap_non_local rn24 s'.S damp N _ ρ _ θ' (fun i j v _ _ hv => hrep i j v hv) b2 h2
  linarith

/-- 3 nodes, one NaN pair, weight 1/2 on the pair (0,2)/(2,0): request ρ = 1 → index 0 → threshold
1/2 (4 finite values 1/2, 1/2, 3/4, 3/4; NaNs last); the pairs with 3/4 are suppressed
(3/8 ≤ 1/2), the pairs with 1/2 tie: 6 = 0 linked + 2 tied + 2 NaN + 2 suppressed -/
example : let S : XSim := fun i j => if i + j = 1 then none else if i + j = 2 then some (3/4) else some (1/2)
    let damp : Sim := fun i j => if i + j = 2 then 1/2 else 1
    thresholdFromIndexX S 3 0 = some (some (1/2)) ∧ suppressedX rn24 S damp (some (1/2)) 3 = 2 ∧
      nnz (thresholdAdjacencyX (weightedX rn24 true S damp) (some (1/2)) 3) = 0 ∧
      tiesX (offDiagX S 3) (some (1/2)) = 2 ∧ (offDiagX S 3).countP Option.isNone = 2 := by
  decide +kernel

/-! ## 12. `HilbertClimateNetwork` as executed: NaN coherence / phase, float32 (round 5)

`Model/SimilarityHilbertX.lean`: the methods of `climate/hilbert.py` on top of the NaN / float32
model `XNet`.  Section 7 is the special case "no NaN, `fl = id`" (`xh_refines`). -/

/-- **link rule of the Hilbert network, as executed**: `i → j` exactly when the nodes are distinct,
the (damped, rounded) coherence and the rounded threshold are numbers with coherence > threshold,
and — for a directed network — the phase shift is a number `> 0` (a NaN phase never links) -/
theorem xh_link_iff (fl : Rat → Rat) (N : Nat) (d : Bool) (S P : XSim) (damp : Sim) (nl : Bool)
    (θ : Option Rat) (i j : Nat) (hi : i < N) (hj : j < N) :
    (hilbertStateX fl N d S P damp nl θ).net.A[i * N + j]? = some true ↔
      (i ≠ j ∧ ∃ s t, weightedX fl nl S damp i j = some s ∧ θ.map fl = some t ∧ t < s) ∧
        (d = true → ∃ φ, P i j = some φ ∧ 0 < φ) := by
  cases d
  · simp only [hilbertStateX, hilbertAdjacencyX, Bool.false_eq_true, if_false]
    rw [x_link_iff _ _ _ _ _ hi hj]
    simp
  · simp only [hilbertStateX, hilbertAdjacencyX, if_true]
    rw [getElem?_phaseMaskX, flat_div N i j hj, flat_mod N i j hj]
    rw [← x_link_iff _ _ _ _ _ hi hj]
    cases hA : (thresholdAdjacencyX (weightedX fl nl S damp) (θ.map fl) N)[i * N + j]? with
    | none => simp
    | some b =>
      cases hP : P i j with
      | none => simp [gtX]
      | some φ => cases b <;> simp [gtX]

/-- the constructor yields that state (`_set_directed(d, True)`, `ClimateNetwork.__init__` with the
float32 cast and the overridden `set_threshold`, `GeoNetwork.__init__`, `_set_directed(d, False)`) -/
theorem xh_constructor (fl : Rat → Rat) (N : Nat) (d : Bool) (S0 P : XSim) (damp : Sim) (nl : Bool)
    (θ : Option Rat) :
    mkHilbertX fl N d S0 P damp nl θ = hilbertStateX fl N d (absX fl S0) P damp nl θ :=
  mkHilbertX_eq_state fl N d S0 P damp nl θ

/-- a pair with NaN coherence or (directed) NaN phase is never linked -/
theorem xh_nan_never_linked (fl : Rat → Rat) (N : Nat) (d : Bool) (S P : XSim) (damp : Sim)
    (nl : Bool) (θ : Option Rat) (i j : Nat) (hi : i < N) (hj : j < N)
    (h : S i j = none ∨ (d = true ∧ P i j = none)) :
    (hilbertStateX fl N d S P damp nl θ).net.A[i * N + j]? ≠ some true := by
  rw [Ne, xh_link_iff fl N d S P damp nl θ i j hi hj]
  rintro ⟨⟨_, s, t, hs, _, _⟩, hp⟩
  rcases h with h | ⟨hd, h⟩
  · simp [weightedX, h] at hs
  · obtain ⟨φ, hφ, _⟩ := hp hd
    rw [h] at hφ; cases hφ

/-- an antisymmetric phase never links a pair in both directions, as executed -/
theorem xh_no_mutual_links (fl : Rat → Rat) (N : Nat) (S P : XSim) (damp : Sim) (nl : Bool)
    (θ : Option Rat) (i j : Nat) (hi : i < N) (hj : j < N)
    (hP : ∀ φ, P i j = some φ → P j i = some (-φ)) :
    ¬ ((hilbertStateX fl N true S P damp nl θ).net.A[i * N + j]? = some true ∧
       (hilbertStateX fl N true S P damp nl θ).net.A[j * N + i]? = some true) := by
  rw [xh_link_iff fl N true S P damp nl θ i j hi hj, xh_link_iff fl N true S P damp nl θ j i hj hi]
  rintro ⟨⟨_, h1⟩, ⟨_, h2⟩⟩
  obtain ⟨φ, a1, a2⟩ := h1 rfl
  obtain ⟨ψ, b1, b2⟩ := h2 rfl
  rw [hP φ a1] at b1
  cases b1
  linarith

/-- the reachable float32 Hilbert states -/
def XHNet.Inv (fl : Rat → Rat) (h : XHNet) (N : Nat) (damp : Sim) (d : Bool) (S P : XSim) : Prop :=
  ∃ nl θ, h = hilbertStateX fl N d (absX fl S) P damp nl θ

def xhLast (d0 : Bool) (S0 P0 : XSim) : List XHOp → Bool × XSim × XSim
  | [] => (d0, S0, P0)
  | .dir d S1 P1 :: os => xhLast d S1 P1 os
  | _ :: os => xhLast d0 S0 P0 os

theorem xh_step_consistent (fl : Rat → Rat) (h h' : XHNet) (N : Nat) (damp : Sim) (d : Bool)
    (S P : XSim) (o : XHOp) (hc : h.Inv fl N damp d S P) (hs : h.step fl o = some h') :
    h'.Inv fl N damp (xhLast d S P [o]).1 (xhLast d S P [o]).2.1 (xhLast d S P [o]).2.2 := by
  obtain ⟨nl, θ, rfl⟩ := hc
  cases o with
  | thr θ' =>
    simp only [XHNet.step, Option.some.injEq] at hs
    subst hs
    exact ⟨nl, θ', setThresholdX_eq_state fl _ θ'⟩
  | dens k =>
    simp only [XHNet.step, XHNet.setLinkDensity, Option.map_eq_some_iff] at hs
    obtain ⟨θ', _, rfl⟩ := hs
    exact ⟨nl, θ', setThresholdX_eq_state fl _ θ'⟩
  | nl b =>
    simp only [XHNet.step, Option.some.injEq] at hs
    subst hs
    exact ⟨b, θ, setNonLocalX_eq_state fl _ b rfl⟩
  | dir d' S1 P1 =>
    simp only [XHNet.step, Option.some.injEq] at hs
    subst hs
    exact ⟨nl, θ, setDirectedX_eq_state fl _ d' S1 P1⟩

theorem xhLast_cons (d : Bool) (S P : XSim) (o : XHOp) (os : List XHOp) :
    xhLast d S P (o :: os)
      = xhLast (xhLast d S P [o]).1 (xhLast d S P [o]).2.1 (xhLast d S P [o]).2.2 os := by
  cases o <;> simp [xhLast]

/-- **consistency after every history, Hilbert network as executed** -/
theorem xh_consistent_after_history (fl : Rat → Rat) (ops : List XHOp) (h h' : XHNet) (N : Nat)
    (damp : Sim) (d : Bool) (S P : XSim) (hc : h.Inv fl N damp d S P)
    (hr : h.run fl ops = some h') :
    h'.Inv fl N damp (xhLast d S P ops).1 (xhLast d S P ops).2.1 (xhLast d S P ops).2.2 := by
  induction ops generalizing h d S P with
  | nil =>
    simp only [XHNet.run, Option.some.injEq] at hr
    subst hr
    exact hc
  | cons o os ih =>
    simp only [XHNet.run, Option.bind_eq_some_iff] at hr
    obtain ⟨h1, e1, e2⟩ := hr
    rw [xhLast_cons]
    exact ih h1 _ _ _ (xh_step_consistent fl h h1 N damp d S P o hc e1) e2

/-- **fresh twin, Hilbert network as executed**: after any history of `set_threshold /
set_link_density / set_non_local / set_directed` (NaN coherence / phase / thresholds, float32) the
object equals the fresh `HilbertClimateNetwork` with the reported threshold / `non_local` and the
last `directed`, coherence, phase; the reported `directed` is the last requested one -/
theorem xh_history_eq_fresh (fl : Rat → Rat) (N : Nat) (d : Bool) (S0 P0 : XSim) (damp : Sim)
    (nl : Bool) (θ : Option Rat) (ops : List XHOp) (h' : XHNet)
    (hr : (mkHilbertX fl N d S0 P0 damp nl θ).run fl ops = some h') :
    h' = mkHilbertX fl N (xhLast d S0 P0 ops).1 (xhLast d S0 P0 ops).2.1 (xhLast d S0 P0 ops).2.2
          damp h'.net.nonLocal h'.net.θ ∧
      h'.net.directed = (xhLast d S0 P0 ops).1 := by
  have hc : (mkHilbertX fl N d S0 P0 damp nl θ).Inv fl N damp d S0 P0 := ⟨nl, θ, xh_constructor ..⟩
  obtain ⟨nl', θ', rfl⟩ := xh_consistent_after_history fl ops _ h' N damp d S0 P0 hc hr
  rw [xh_constructor]
  exact ⟨rfl, rfl⟩

/-- an undirected float32 Hilbert network is the float32 `ClimateNetwork` -/
theorem xh_undirected_is_climate (fl : Rat → Rat) (h : XHNet) (θ : Option Rat)
    (hd : h.net.directed = false) : (h.setThreshold fl θ).net = h.net.setThreshold fl θ := by
  simp [XHNet.setThreshold, XHNet.maskIf, XNet.setThreshold, hd]

/-- **the density request on a Hilbert network, as executed** (NaNs, float32 product, rounded
threshold, IEEE index): the phase mask only removes links -/
theorem xh_density_le_request (fl : Rat → Rat) (hmono : ∀ x y, x ≤ y → fl x ≤ fl y)
    (h h' : XHNet) (ρ : Rat)
    (hrep : ∀ i j v, i < h.net.N → j < h.net.N → h.net.S i j = some v → fl v = v ∧ 0 ≤ v)
    (hd : ∀ i j, i < h.net.N → j < h.net.N → h.net.damp i j ≤ 1) (h0 : 0 ≤ ρ) (h1 : ρ ≤ 1)
    (hs : h.setLinkDensity fl (ieeeIndex ρ (offDiagX h.net.S h.net.N).length) = some h') :
    (nnz h'.net.A : Rat) ≤ (ρ + ieeeSlack) * ((offDiagX h.net.S h.net.N).length : Rat) := by
  simp only [XHNet.setLinkDensity, Option.map_eq_some_iff] at hs
  obtain ⟨θ, hθ, rfl⟩ := hs
  have hb := x_set_link_density_ieee fl hmono h.net (h.net.setThreshold fl θ) ρ hrep hd h0 h1
    (by simp [XNet.setLinkDensity, hθ])
  have hle : nnz (h.setThreshold fl θ).net.A ≤ nnz (h.net.setThreshold fl θ).A := by
    rw [setThresholdX_eq_state]
    simp only [hilbertStateX, hilbertAdjacencyX, XNet.setThreshold]
    split
    · exact nnz_phaseMaskX_le _ _ _
    · exact Nat.le_refl _
  have : (nnz (h.setThreshold fl θ).net.A : Rat) ≤ (nnz (h.net.setThreshold fl θ).A : Rat) := by
    exact_mod_cast hle
  linarith

/-- **… on every reachable float32 Hilbert network, nothing assumed about the rounding**: after
any history (incl. `set_directed`), `set_link_density(ρ)` as executed links at most
`(ρ + 2⁻⁵² + 2⁻¹⁰⁶)·(N² − N)` ordered pairs; only `damp ≤ 1` is left -/
theorem rn24_hilbert_density_request_after_history (N : Nat) (d : Bool) (S0 P0 : XSim) (damp : Sim)
    (nl : Bool) (θ : Option Rat) (ops : List XHOp) (h' h'' : XHNet) (ρ : Rat)
    (hr : (mkHilbertX rn24 N d S0 P0 damp nl θ).run rn24 ops = some h')
    (hd : ∀ i j, i < N → j < N → damp i j ≤ 1) (h0 : 0 ≤ ρ) (h1 : ρ ≤ 1)
    (hs : h'.setLinkDensity rn24 (ieeeIndex ρ (offDiagX h'.net.S h'.net.N).length) = some h'') :
    (nnz h''.net.A : Rat) ≤ (ρ + ieeeSlack) * ((offDiagX h'.net.S h'.net.N).length : Rat) := by
  have hc : (mkHilbertX rn24 N d S0 P0 damp nl θ).Inv rn24 N damp d S0 P0 :=
    ⟨nl, θ, xh_constructor ..⟩
  obtain ⟨nl', θ', e⟩ := xh_consistent_after_history rn24 ops _ h' N damp d S0 P0 hc hr
  refine xh_density_le_request rn24 rn24_monotone h' h'' ρ ?_ ?_ h0 h1 hs
  · intro i j v _ _ hv
    rw [e] at hv
    exact rn24_stored_fixed _ i j v hv
  · rw [e]; exact hd

/-- **the exact Hilbert model is the special case** "no NaN, no rounding" -/
theorem xh_refines (N : Nat) (d : Bool) (S0 P damp : Sim) (nl : Bool) (θ : Rat) :
    mkHilbertX id N d (embedSim S0) (embedSim P) damp nl (some θ)
      = hembed (mkHilbert N d S0 P damp nl θ) := by
  rw [xh_constructor, hilbert_constructor, absX_embed, hilbertStateX_embed]

/-- **… for whole histories**: running an exact Hilbert history (`set_threshold / set_link_density /
set_non_local / set_directed`) on the embedded object is embedding the run of the exact model of
section 7 -/
theorem xh_refines_history (ops : List HOp) (h : HNet) :
    (hembed h).run id (ops.map hembedOp) = (h.run ops).map hembed := hembed_run ops h

/-- directed network, antisymmetric phase with a NaN pair: the pair (0,1) has coherence 1/3
(float32: 11184811/2²⁵) above the threshold 1/4 and phase 1/2 > 0 → linked one way; the pair
(0,2) has a NaN phase → never linked although its coherence 3/4 is above the threshold;
`set_directed(False)` links both directions of both pairs -/
example : let S : XSim := fun i j => if i = j then some 1 else if i + j = 1 then some (1/3)
      else if i + j = 2 then some (3/4) else some (1/8)
    let P : XSim := fun i j => if i + j = 2 ∧ i ≠ j then none else if i < j then some (1/2)
      else if j < i then some (-1/2) else some 0
    ((mkHilbertX rn24 3 true S P (fun _ _ => 1) false (some (1/4))).net.A
        = [false, true, false, false, false, false, false, false, false]) ∧
      (((mkHilbertX rn24 3 true S P (fun _ _ => 1) false (some (1/4))).run rn24
          [.dir false S P]).map fun h => (h.net.directed, h.net.A, h.net.nLinks))
        = some (false, [false, true, true, true, false, false, true, false, false], 2) := by
  decide +kernel

section Scripts
open Script

/-! ## 8. the method bodies regenerated from the source are the model (round 3) -/

/-- `ClimateNetwork.set_threshold` as written = `Net.setThreshold` -/
theorem script_setThreshold (fr : Frame) :
    (run 1 false StructC09.setThreshold fr).map (·.h.net) = some (fr.h.net.setThreshold fr.argθ) := by
  rfl

/-- the steps of `threshold_from_link_density` (selection of **all off-diagonal** entries, ascending
sort, clamped quantile index) = `thresholdFromIndex` -/
theorem script_thresholdFromLinkDensity (S : Sim) (N k : Nat) :
    quantile StructC09.thresholdFromLinkDensity S N k = thresholdFromIndex S N k := by
  rfl

/-- `ClimateNetwork.set_link_density` as written = `Net.setLinkDensity` -/
theorem script_setLinkDensity (fr : Frame) :
    (run 2 false StructC09.setLinkDensity fr).map (·.h.net) = fr.h.net.setLinkDensity fr.argK := by
  simp only [run, StructC09.setLinkDensity, execList, execStmt, script_thresholdFromLinkDensity,
    Net.setLinkDensity]
  cases h : thresholdFromIndex fr.h.net.S fr.h.net.N fr.argK <;> rfl

/-- `ClimateNetwork.set_non_local` as written = `Net.setNonLocal` -/
theorem script_setNonLocal (fr : Frame) :
    (run 2 false StructC09.setNonLocal fr).map (·.h.net) = some (fr.h.net.setNonLocal fr.argNl) := by
  simp only [run, StructC09.setNonLocal, execList, execStmt, Net.setNonLocal]
  by_cases hb : (fr.h.net.nonLocal != fr.argNl) = true
  · simp only [hb, Bool.not_true, if_true]; rfl
  · have hb' : (fr.h.net.nonLocal != fr.argNl) = false := by simpa using hb
    simp [hb']

/-- `ClimateNetwork(…, threshold=θ)` as written = `mkThreshold` -/
theorem script_init_threshold (fr : Frame) (θ : Rat) (hθ : fr.initθ = some θ) :
    (run 3 false StructC09.init fr).map (·.h.net)
      = some (({ fr.h.net with directed := fr.argDir, S := absSim fr.initS,
                               nonLocal := fr.argNl } : Net).setThreshold θ) := by
  simp only [run, StructC09.init, execList, execStmt, hθ, setNet, back, setThresholdOf]
  simp [StructC09.setThreshold, execList, execStmt, setNet, val, Net.setThreshold,
    Net.assignAdjacency]

/-- **construction without threshold and link density raises** (the `print` branch generates no
network, `GeoNetwork.__init__(adjacency=self.adjacency)` then fails) — on a fresh object -/
theorem script_init_neither_raises (fr : Frame) (h1 : fr.initθ = none) (h2 : fr.initK = none)
    (h3 : fr.hasAdj = false) : run 3 false StructC09.init fr = none := by
  simp [run, StructC09.init, execList, execStmt, h1, h2, h3, setNet]

/-- `_regenerate_network` as written = `Net.regenerate` (re-initialisation with the stored
similarity, threshold, `non_local` and `directed`) -/
theorem script_regenerate (fr : Frame) (ha : fr.hasAdj = true) :
    (run 4 false StructC09.regenerate fr).map (·.h.net) = some (fr.h.net.regenerate fr.h.net.S) := by
  simp only [run, StructC09.regenerate, execList, execStmt, back]
  simp [StructC09.init, StructC09.setThreshold, execList, execStmt, setNet, val, back,
    setThresholdOf, Net.regenerate, Net.setThreshold, Net.assignAdjacency, ha]

/-- `HilbertClimateNetwork.set_threshold` as written = `HNet.setThreshold` -/
theorem script_hilbert_setThreshold (fr : Frame) :
    (run 2 true StructC09.hilbertSetThreshold fr).map (·.h) = some (fr.h.setThreshold fr.argθ) := by
  simp only [run, StructC09.hilbertSetThreshold, execList, execStmt, back]
  cases hd : fr.h.net.directed <;>
    simp [StructC09.setThreshold, execList, execStmt, setNet, val, HNet.setThreshold,
      HNet.maskIf, mask, Net.setThreshold, Net.assignAdjacency, hd]

/-- `HilbertClimateNetwork.set_directed` as written (`_set_directed(d, True)`, `_regenerate_network()`
— i.e. `ClimateNetwork.__init__` dispatching to the *overridden* `set_threshold` —,
`_set_directed(d, False)`) = `HNet.setDirected` with the coherence / phase computed from the data -/
theorem script_hilbert_setDirected (fr : Frame) (ha : fr.hasAdj = true) :
    (run 6 true StructC09.hilbertSetDirected fr).map (·.h)
      = some (fr.h.setDirected fr.argDir fr.envS fr.envP) := by
  rw [setDirected_eq_state]
  cases hd : fr.argDir <;>
    simp [run, StructC09.hilbertSetDirected, StructC09.setDirectedCalc, StructC09.setDirectedNoCalc,
      StructC09.regenerate, StructC09.init, StructC09.hilbertSetThreshold, StructC09.setThreshold,
      execList, execStmt, setNet, val, back, setThresholdOf, mask, Net.assignAdjacency, ha, hd,
      hilbertState, hilbertAdjacency, phaseMask_idem]

/-- `HilbertClimateNetwork(data, threshold=θ, non_local=nl, directed=d)` as written = `mkHilbert` -/
theorem script_hilbert_init (fr : Frame) (θ : Rat) (hθ : fr.initθ = some θ) :
    (run 5 true StructC09.hilbertInit fr).map (·.h)
      = some (hilbertState fr.h.net.N fr.argDir (absSim fr.envS) fr.envP fr.h.net.damp fr.argNl θ) := by
  cases hd : fr.argDir <;>
    simp [run, StructC09.hilbertInit, StructC09.setDirectedCalc, StructC09.setDirectedNoCalc,
      StructC09.init, StructC09.hilbertSetThreshold, StructC09.setThreshold,
      execList, execStmt, setNet, val, back, setThresholdOf, mask, Net.assignAdjacency, hθ, hd,
      hilbertState, hilbertAdjacency, phaseMask_idem]

/-- `ClimateNetwork.link_density_function` as written (histogram of all stored similarities,
normalisation, `out[i] = hist[:i].sum()`) = `linkDensityFunction` -/
theorem script_linkDensityFunction (S : Sim) (N : Nat) (edges : List Rat) (n : Nat) :
    ldfRun StructC09.linkDensityFunction S N edges n = some (linkDensityFunction S N edges n) := by
  rfl

/-- the accessors `threshold()`, `non_local()`, `similarity_measure()` are plain getters in the
current source — the normalisation of the translator (inlining them) is justified -/
theorem gen_getters : StructC09.getters = [("non_local", "_non_local"),
    ("similarity_measure", "_similarity_measure"), ("threshold", "_threshold")] := by decide

/-- of all classes of the climate package only `HilbertClimateNetwork` overrides a method of the
threshold machinery (`set_threshold`); every other subclass — Tsonis, Spearman, MutualInfo,
PartialCorrelation, Havlin, Rainfall, EventSeries, Coupled… — inherits the code modelled above -/
theorem gen_overrides : StructC09.overrides = [("HilbertClimateNetwork", "set_threshold")] := by
  decide

/-- taking the quantile over the upper triangle only (seeded change C09-3) is *not* the model: for
a non-symmetric similarity the realised density exceeds the request (ρ = 0 requested, the selected
threshold 1/4 leaves the link 1 → 0 with similarity 3/4) -/
example : let S : Sim := fun i j => if i = j then 1 else if i < j then 1/4 else 3/4
    (let l := sortAsc (selectEntries .upperTriangle S 2); l[min 1 (l.length - 1)]?) = some (1/4) ∧
      thresholdFromIndex S 2 2 = some (3/4) ∧
      nnz (thresholdAdjacency S (1/4) 2) = 1 ∧ nnz (thresholdAdjacency S (3/4) 2) = 0 := by
  decide +kernel

end Scripts

end Pyunicorn.Similarity
