import Pyunicorn.Lemmas.Net
import Pyunicorn.Lemmas.NetPaths
import Pyunicorn.Lemmas.NetAlg
import Pyunicorn.Lemmas.NetCore
import Pyunicorn.Lemmas.NetCoreFull
import Pyunicorn.Lemmas.NetBetwPaths
import Pyunicorn.Lemmas.NetBetwAsm
import Pyunicorn.Lemmas.NetBetwKernel
import Pyunicorn.Lemmas.NetRW
import Pyunicorn.Lemmas.NetRWInv
import Pyunicorn.Lemmas.NetRWReg
import Pyunicorn.Generated.ArithC03
/-!
# C03 — Network measures equal their published definitions

Statements about the model `Pyunicorn.Net` of the measures of
`pyunicorn.core.network.Network` and of the cliquishness kernels
(`core/_ext/numerics.pyx`).  Left-hand sides are the *implementation formulas*
(matrix products, kernel loops), right-hand sides the *definitions* (counts of
neighbours, motifs, triangles, cliques).  The model is tied to the code by the
correspondence in `harness/c03.py`.
-/
namespace Pyunicorn.Net

/-! ### degrees: row / column sums = numbers of neighbours -/

/-- `outdegree()[i]` (row sum of `A`) is the number of nodes `i` links to. -/
theorem outdeg_eq_card (n : Nat) (a : Adj) (i : Nat) : outdeg n a i = (nbrs n a i).length := by
  simp only [outdeg, nbrs, sumTo_eq_sumL, sumL_b2n]

/-- `indegree()[i]` (column sum of `A`) is the number of nodes linking to `i`. -/
theorem indeg_eq_card (n : Nat) (a : Adj) (i : Nat) : indeg n a i = (innbrs n a i).length := by
  simp only [indeg, innbrs, sumTo_eq_sumL, sumL_b2n]

/-- `bildegree()[i] = (A·A)_ii` is the number of nodes linked with `i` in both directions. -/
theorem bildeg_eq_card (n : Nat) (a : Adj) (i : Nat) :
    bildeg n a i = ((List.range n).filter fun j => a i j && a j i).length := by
  simp only [bildeg, mmul, toN, sumTo_eq_sumL, ← b2n_and, sumL_b2n]

/-- on an undirected network the bilateral degree is the degree (docstring of `bildegree`). -/
theorem bildeg_eq_outdeg_of_symm (n : Nat) (a : Adj) (i : Nat) (hs : ∀ j, a i j = a j i) :
    bildeg n a i = outdeg n a i := by
  simp only [bildeg, mmul, toN, outdeg, sumTo_eq_sumL]
  apply sumL_congr
  intro j _
  rw [← hs j]; cases a i j <;> rfl

/-- `degree()` of a directed network counts in- and out-neighbours. -/
theorem degree_directed (n : Nat) (a : Adj) (i : Nat) :
    degree true n a i = (innbrs n a i).length + (nbrs n a i).length := by
  simp [degree, outdeg_eq_card, indeg_eq_card]

/-! ### motif numerators: diagonals of triple products = numbers of ordered motif pairs -/

private theorem triple_diag (n : Nat) (x y z : Nat → Nat → Nat) (i : Nat) :
    mmul n (mmul n x y) z i i = sumTo n fun j => sumTo n fun k => x i j * y j k * z k i := by
  simp only [mmul, sumTo_eq_sumL]
  rw [show (fun k => sumL (List.range n) (fun k_1 => x i k_1 * y k_1 k) * z k i)
      = fun k => sumL (List.range n) (fun j => x i j * y j k * z k i) from by
    funext k; rw [← sumL_mul_right]]
  rw [sumL_comm]

private theorem b2n_and3 (p q r : Bool) : b2n p * b2n q * b2n r = b2n (p && q && r) := by
  cases p <;> cases q <;> cases r <;> rfl

/-- cycle motif: `(A·A·A)_ii` = number of ordered pairs `(j,k)` with `i→j→k→i`. -/
theorem tCycle_eq_count (n : Nat) (a : Adj) (i : Nat) :
    tCycle n a i = countPairs n fun j k => a i j && a j k && a k i := by
  simp only [tCycle, triple_diag, toN, b2n_and3, countPairs]

/-- mid motif: `(A·Aᵀ·A)_ii` = number of ordered pairs `(j,k)` with `i→j`, `k→j`, `k→i`. -/
theorem tMid_eq_count (n : Nat) (a : Adj) (i : Nat) :
    tMid n a i = countPairs n fun j k => a i j && a k j && a k i := by
  simp only [tMid, triple_diag, toN, tr, b2n_and3, countPairs]

/-- in motif: `(Aᵀ·A·A)_ii` = number of ordered pairs `(j,k)` with `j→i`, `j→k`, `k→i`. -/
theorem tIn_eq_count (n : Nat) (a : Adj) (i : Nat) :
    tIn n a i = countPairs n fun j k => a j i && a j k && a k i := by
  simp only [tIn, triple_diag, toN, tr, b2n_and3, countPairs]

/-- out motif: `(A·A·Aᵀ)_ii` = number of ordered pairs `(j,k)` with `i→j`, `j→k`, `i→k`. -/
theorem tOut_eq_count (n : Nat) (a : Adj) (i : Nat) :
    tOut n a i = countPairs n fun j k => a i j && a j k && a i k := by
  simp only [tOut, triple_diag, toN, tr, b2n_and3, countPairs]

/-! ### Laplacian -/

/-- entries: `L_ii = diag_i - A_ii`, `L_ij = -A_ij`. -/
theorem laplacian_offdiag (a : Adj) (dg : Nat → Nat) (i j : Nat) (h : i ≠ j) :
    laplacian a dg i j = -(b2n (a i j) : Int) := by
  simp [laplacian, h]


/-! ### triangles, clustering -/

/-- the graph is undirected and has no self-loops -/
structure Simple (a : Adj) : Prop where
  symm : ∀ x y, a x y = a y x
  irr : ∀ x, a x x = false

/-- `(A³)_ii = 2 · #triangles through i` on an undirected simple graph. -/
theorem cube_diag_eq_two_triangles (n : Nat) (a : Adj) (h : Simple a) (i : Nat) :
    tCycle n a i = 2 * triangles n a i := by
  rw [tCycle_eq_count]
  have hs : Sym2 (fun j k => a i j && a j k && a k i) := by
    constructor
    · intro y z
      rw [h.symm i y, h.symm y z, h.symm z i]
      cases a y i <;> cases a z y <;> cases a i z <;> rfl
    · intro y; simp [h.irr]
  exact ordered2_eq _ hs (List.range n)

/-- Watts–Strogatz clustering: `(A³)_ii / (k_i(k_i-1)) = 2·triangles_i / (k_i (k_i - 1))`,
i.e. the fraction of the `k_i(k_i-1)/2` neighbour pairs that are linked (0 for `k_i < 2`). -/
theorem localClustering_eq (n : Nat) (a : Adj) (h : Simple a) (i : Nat) :
    localClustering n a i = ratio0 (2 * triangles n a i) (TOut n a i) := by
  simp only [localClustering, cube_diag_eq_two_triangles n a h i]

/-! ### cliquishness kernels -/

theorem clique3_sym3 (a : Adj) (h : Simple a) : Sym3 (clique3 a) := by
  refine ⟨?_, fun x => ⟨?_, ?_⟩⟩
  · intro x y z
    simp only [clique3]
    rw [h.symm x y, h.symm y z, h.symm z x]
    cases a y x <;> cases a z y <;> cases a x z <;> rfl
  · intro y z
    simp only [clique3]
    rw [h.symm x y, h.symm y z, h.symm z x]
    cases a y x <;> cases a z y <;> cases a x z <;> rfl
  · intro y; simp [clique3, h.irr]

theorem clique4_sym4 (a : Adj) (h : Simple a) : Sym4 (clique4 a) := by
  refine ⟨?_, fun x => ⟨?_, fun y => ⟨?_, ?_⟩⟩⟩
  · intro x y z u
    simp only [clique4]
    rw [h.symm x y]
    cases a y x <;> cases a x z <;> cases a y z <;> cases a x u <;> cases a y u <;> cases a z u <;> rfl
  · intro y z u
    simp only [clique4]
    rw [h.symm y z]
    cases a x y <;> cases a x z <;> cases a z y <;> cases a x u <;> cases a y u <;> cases a z u <;> rfl
  · intro z u
    simp only [clique4]
    rw [h.symm z u]
    cases a x y <;> cases a x z <;> cases a y z <;> cases a x u <;> cases a y u <;> cases a u z <;> rfl
  · intro z; simp [clique4, h.irr]

private theorem ite_sum (c : Bool) (l : List Nat) (f : Nat → Bool) :
    (if c then sumL l (fun x => b2n (f x)) else 0) = sumL l fun x => b2n (c && f x) := by
  cases c
  · simp [b2n, sumL_zero]
  · simp

private theorem ite_sumN (c : Bool) (l : List Nat) (f g : Nat → Nat)
    (hfg : c = true → ∀ x, f x = g x) (hg : c = false → ∀ x, g x = 0) :
    (if c then sumL l f else 0) = sumL l g := by
  cases c
  · simp [show g = fun _ => 0 from funext (hg rfl), sumL_zero]
  · simp [show f = g from funext (hfg rfl)]

/-- the kernel's three nested loops count every ordered triple of mutually linked nodes of the
buffer: `counter = Σ_{n1,n2,n3} [n1~n2 ∧ n2~n3 ∧ n3~n1]`. -/
theorem counter4_eq_ordered (a : Adj) (nb : List Nat) :
    counter4 a nb = sumL nb fun x => sumL nb fun y => sumL nb fun z => b2n (clique3 a x y z) := by
  simp only [counter4, clique3, ite_sum, Bool.and_assoc]

/-- **4th order**: the loop counter is `3! ·` the number of triangles among the listed nodes. -/
theorem counter4_eq_six_subsets (a : Adj) (h : Simple a) (nb : List Nat) :
    counter4 a nb = 6 * triplesP (clique3 a) nb := by
  rw [counter4_eq_ordered, ordered3_eq _ (clique3_sym3 a h)]

theorem counter5_eq_ordered (a : Adj) (nb : List Nat) :
    counter5 a nb = sumL nb fun x => sumL nb fun y => sumL nb fun z => sumL nb fun u =>
      b2n (clique4 a x y z u) := by
  simp only [counter5]
  apply sumL_congr; intro x _
  apply sumL_congr; intro y _
  apply ite_sumN
  · intro hxy z
    rw [ite_sum]
    apply sumL_congr; intro u _
    simp [clique4, hxy, Bool.and_assoc]
  · intro hxy z
    simp [clique4, hxy, b2n, sumL_zero]

/-- **5th order**: the loop counter is `4! ·` the number of `K₄` among the listed nodes. -/
theorem counter5_eq_24_subsets (a : Adj) (h : Simple a) (nb : List Nat) :
    counter5 a nb = 24 * quadsP (clique4 a) nb := by
  rw [counter5_eq_ordered, ordered4_eq _ (clique4_sym4 a h)]


/-- the value the definition assigns: `#K₃ in N(i) / C(k,3)` written as `6·#K₃ / (k(k-1)(k-2))`, 0 for `k < 3` -/
def cliq4Def (n : Nat) (a : Adj) (i : Nat) : Rat :=
  let k := (nbrs n a i).length
  if k ≥ 3 then ((6 * k3InNbhd n a i : Nat) : Rat) / ((k * (k - 1) * (k - 2) : Nat) : Rat) else 0

/-- `#K₄ in N(i) / C(k,4)` written as `24·#K₄ / (k(k-1)(k-2)(k-3))`, 0 for `k < 4` -/
def cliq5Def (n : Nat) (a : Adj) (i : Nat) : Rat :=
  let k := (nbrs n a i).length
  if k ≥ 4 then ((24 * k4InNbhd n a i : Nat) : Rat) / ((k * (k - 1) * (k - 2) * (k - 3) : Nat) : Rat)
  else 0

private theorem take_fill (buf nb : List Nat) : (fillBuf buf nb).take nb.length = nb := by
  simp [fillBuf]

/-- one node of the 4th-order kernel, whatever earlier nodes left in the neighbour buffer -/
theorem cliqNode4_eq (n : Nat) (a : Adj) (h : Simple a) (buf : List Nat) (i : Nat) :
    (cliqNode 4 n a (nbrs n a i).length buf i).2 = cliq4Def n a i := by
  simp only [cliqNode, cliq4Def, k3InNbhd]
  by_cases hk : (nbrs n a i).length ≥ 3
  · simp only [show (nbrs n a i).length ≥ 4 - 1 from hk, if_true, take_fill,
      counter4_eq_six_subsets a h]
  · simp [show ¬ (nbrs n a i).length ≥ 4 - 1 from hk]

theorem cliqNode5_eq (n : Nat) (a : Adj) (h : Simple a) (buf : List Nat) (i : Nat) :
    (cliqNode 5 n a (nbrs n a i).length buf i).2 = cliq5Def n a i := by
  simp only [cliqNode, cliq5Def, k4InNbhd]
  by_cases hk : (nbrs n a i).length ≥ 4
  · simp only [show (nbrs n a i).length ≥ 5 - 1 from hk, if_true, take_fill,
      counter5_eq_24_subsets a h, show (5 : Nat) ≠ 4 by decide, if_false]
  · simp [show ¬ (nbrs n a i).length ≥ 5 - 1 from hk]

private theorem cliqLoop_eq (order n : Nat) (a : Adj) (f : Nat → Rat)
    (hf : ∀ buf i, (cliqNode order n a (nbrs n a i).length buf i).2 = f i)
    (buf l : List Nat) :
    cliqLoop order n a (fun i => (nbrs n a i).length) buf l = l.map f := by
  induction l generalizing buf with
  | nil => rfl
  | cons i t ih => simp only [cliqLoop, List.map_cons, hf, ih]

/-- **`_local_cliquishness_4thorder` = definition**: called as `local_cliquishness(4)` does
(with `degree` = the row sums of a symmetric loop-free `A`), the kernel returns for every node the
number of triangles inside its neighbourhood divided by `C(k,3)`. -/
theorem cliquishness4_eq_def (n : Nat) (a : Adj) (h : Simple a) :
    cliquishness 4 n a (outdeg n a) = (List.range n).map (cliq4Def n a) := by
  rw [show outdeg n a = fun i => (nbrs n a i).length from funext (outdeg_eq_card n a)]
  exact cliqLoop_eq 4 n a _ (cliqNode4_eq n a h) _ _

/-- **`_local_cliquishness_5thorder` = definition** (`#K₄` in the neighbourhood over `C(k,4)`). -/
theorem cliquishness5_eq_def (n : Nat) (a : Adj) (h : Simple a) :
    cliquishness 5 n a (outdeg n a) = (List.range n).map (cliq5Def n a) := by
  rw [show outdeg n a = fun i => (nbrs n a i).length from funext (outdeg_eq_card n a)]
  exact cliqLoop_eq 5 n a _ (cliqNode5_eq n a h) _ _

/-! #### arithmetic width of the denominators
Before the repair the kernels evaluated the denominators in `int32` (`NODE_t`); they fit exactly up
to `k = 1291` resp. `k = 216` and not beyond.  The repaired kernels evaluate them in `double`, which
is exact for every `DEGREE_t = int16` degree in the 4th-order kernel. -/

theorem denom4_fits_int32 (k : Nat) (h : k ≤ 1291) : k * (k - 1) * (k - 2) < 2 ^ 31 :=
  Nat.lt_of_le_of_lt
    (Nat.mul_le_mul (Nat.mul_le_mul h (Nat.sub_le_sub_right h 1)) (Nat.sub_le_sub_right h 2))
    (by decide)
theorem denom4_overflows_int32 (k : Nat) (h : 1292 ≤ k) : 2 ^ 31 ≤ k * (k - 1) * (k - 2) :=
  Nat.le_trans (by decide : 2 ^ 31 ≤ 1292 * (1292 - 1) * (1292 - 2))
    (Nat.mul_le_mul (Nat.mul_le_mul h (Nat.sub_le_sub_right h 1)) (Nat.sub_le_sub_right h 2))
theorem denom5_fits_int32 (k : Nat) (h : k ≤ 216) : k * (k - 1) * (k - 2) * (k - 3) < 2 ^ 31 :=
  Nat.lt_of_le_of_lt
    (Nat.mul_le_mul (Nat.mul_le_mul (Nat.mul_le_mul h (Nat.sub_le_sub_right h 1))
      (Nat.sub_le_sub_right h 2)) (Nat.sub_le_sub_right h 3))
    (by decide)
theorem denom5_overflows_int32 (k : Nat) (h : 217 ≤ k) :
    2 ^ 31 ≤ k * (k - 1) * (k - 2) * (k - 3) :=
  Nat.le_trans (by decide : 2 ^ 31 ≤ 217 * (217 - 1) * (217 - 2) * (217 - 3))
    (Nat.mul_le_mul (Nat.mul_le_mul (Nat.mul_le_mul h (Nat.sub_le_sub_right h 1))
      (Nat.sub_le_sub_right h 2)) (Nat.sub_le_sub_right h 3))
/-- every `int16` degree gives a 4th-order denominator below `2^53` (exact in `double`) -/
theorem denom4_exact_in_double (k : Nat) (h : k ≤ 32767) : k * (k - 1) * (k - 2) < 2 ^ 53 :=
  Nat.lt_of_le_of_lt
    (Nat.mul_le_mul (Nat.mul_le_mul h (Nat.sub_le_sub_right h 1)) (Nat.sub_le_sub_right h 2))
    (by decide)

/-! ### matching index: `(A·A)_ij` = common neighbours, `k_i + k_j - common` = size of the union -/

theorem commons_eq_card (n : Nat) (a : Adj) (i j : Nat) :
    mmul n (toN a) (toN a) i j = ((List.range n).filter fun k => a i k && a k j).length := by
  simp only [mmul, toN, sumTo_eq_sumL, ← b2n_and, sumL_b2n]

private theorem b2n_or_and (p q : Bool) : b2n (p || q) + b2n (p && q) = b2n p + b2n q := by
  cases p <;> cases q <;> rfl

/-- inclusion–exclusion: `|N(i) ∪ N(j)| + |N(i) ∩ N(j)| = k_i + k_j`, so the denominator
`kk + kk.T - commons` of `matching_index` is the number of nodes linked to at least one of the two. -/
theorem union_card (n : Nat) (a : Adj) (i j : Nat) :
    ((List.range n).filter fun k => a i k || a j k).length
      + ((List.range n).filter fun k => a i k && a j k).length = outdeg n a i + outdeg n a j := by
  simp only [outdeg, sumTo_eq_sumL, ← sumL_b2n, ← sumL_add, b2n_or_and]

/-- `matching_index()[i,j] = |N(i) ∩ N(j)| / |N(i) ∪ N(j)|` on an undirected graph
(`none` = numpy's `nan` when both nodes are isolated). -/
theorem matching_eq_def (n : Nat) (a : Adj) (h : Simple a) (i j : Nat) :
    matching n a i j =
      (let c := ((List.range n).filter fun k => a i k && a j k).length
       let u := ((List.range n).filter fun k => a i k || a j k).length
       if u = 0 then none else some ((c : Rat) / (u : Rat))) := by
  have hc : mmul n (toN a) (toN a) i j = ((List.range n).filter fun k => a i k && a j k).length := by
    rw [commons_eq_card]; congr 2; funext k; rw [h.symm k j]
  have hu := union_card n a i j
  simp only [matching, hc]
  have hden : ((outdeg n a i : Int) + (outdeg n a j : Int)
      - ((((List.range n).filter fun k => a i k && a j k).length : Nat) : Int))
      = ((((List.range n).filter fun k => a i k || a j k).length : Nat) : Int) := by omega
  rw [hden]
  by_cases hz : ((List.range n).filter fun k => a i k || a j k).length = 0
  · simp [hz]
  · simp [hz, Rat.intCast_natCast]


/-! ### Laplacian: `L = D - A`, rows (out-degree diagonal) and columns (in-degree diagonal) sum to zero -/

private theorem sumToI_succ (m : Nat) (f : Nat → Int) : sumToI (m + 1) f = sumToI m f + f m := by
  simp [sumToI, List.range_succ]

private theorem lap_partial (g : Nat → Nat) (d : Nat) (i m : Nat) :
    sumToI m (fun j => (if i = j then (d : Int) else 0) - (g j : Int))
      = (if i < m then (d : Int) else 0) - ((sumTo m g : Nat) : Int) := by
  induction m with
  | zero => simp [sumToI, sumTo]
  | succ m ih =>
    rw [sumToI_succ, ih, sumTo_succ]
    by_cases h1 : i = m
    · subst h1; simp; omega
    · by_cases h2 : i < m
      · have : i < m + 1 := by omega
        simp [h1, h2, this]; omega
      · have : ¬ i < m + 1 := by omega
        simp [h1, h2, this]; omega

/-- every row of `laplacian(direction="out")` (and of the undirected Laplacian) sums to zero. -/
theorem laplacian_row_sum (n : Nat) (a : Adj) (i : Nat) (hi : i < n) :
    sumToI n (fun j => laplacian a (outdeg n a) i j) = 0 := by
  have := lap_partial (fun j => b2n (a i j)) (outdeg n a i) i n
  simp only [laplacian]
  rw [this]
  simp [hi, outdeg]

/-- every column of `laplacian(direction="in")` sums to zero. -/
theorem laplacian_col_sum (n : Nat) (a : Adj) (j : Nat) (hj : j < n) :
    sumToI n (fun i => laplacian a (indeg n a) i j) = 0 := by
  have := lap_partial (fun i => b2n (a i j)) (indeg n a j) j n
  simp only [laplacian]
  rw [show (fun i => (if i = j then ((indeg n a i : Nat) : Int) else 0) - ((b2n (a i j) : Nat) : Int))
      = fun i => (if j = i then ((indeg n a j : Nat) : Int) else 0) - ((b2n (a i j) : Nat) : Int) from by
    funext i
    by_cases h : i = j
    · subst h; simp
    · have : ¬ j = i := fun e => h e.symm
      simp [h, this]]
  rw [this]
  simp [hj, indeg]

/-- the diagonal of the undirected Laplacian is the degree, on a loop-free graph. -/
theorem laplacian_diag (n : Nat) (a : Adj) (i : Nat) (h : a i i = false) :
    laplacian a (outdeg n a) i i = (outdeg n a i : Int) := by
  simp [laplacian, h, b2n]

/-! ### path-based measures: the conventions of the code are the documented definitions -/

private theorem sumToQ_congr (n : Nat) (f g : Nat → Rat) (h : ∀ j, f j = g j) :
    sumToQ n f = sumToQ n g := by
  rw [show f = g from funext h]

/-- `global_efficiency()` (diagonal → `inf`, `1/inf = 0`, factor `1/(N(N-1))`) is the mean of
`1/d_ij` over all ordered pairs `i ≠ j`, unreachable pairs contributing 0. -/
theorem globalEfficiency_eq_def (n : Nat) (d : Nat → Nat → Option Nat) :
    globalEfficiency n d = efficiencyDef n d := by
  simp only [globalEfficiency, efficiencyDef]
  rw [Rat.div_def, Rat.div_def, Rat.one_mul, Rat.mul_comm]
  congr 1
  apply sumToQ_congr; intro i
  apply sumToQ_congr; intro j
  by_cases h : i = j <;> simp [h, invDist]

/-! ### unit node weights: documented relations of the n.s.i. degree family -/

private theorem sumToQ_succ (m : Nat) (f : Nat → Rat) : sumToQ (m + 1) f = sumToQ m f + f m := by
  simp [sumToQ, List.range_succ, Rat.add_zero]

private theorem sumToQ_indicator (c : Nat → Bool) (m : Nat) :
    sumToQ m (fun j => if c j then (1 : Rat) else 0) = ((sumTo m fun j => b2n (c j) : Nat) : Rat) := by
  induction m with
  | zero => simp [sumToQ, sumTo]
  | succ m ih =>
    rw [sumToQ_succ, sumTo_succ, ih, Rat.natCast_add]
    cases c m <;> simp [b2n]

private theorem sum_diag_indicator (i m : Nat) :
    sumTo m (fun j => b2n (i == j)) = if i < m then 1 else 0 := by
  induction m with
  | zero => simp [sumTo]
  | succ m ih =>
    rw [sumTo_succ, ih]
    by_cases h1 : i = m
    · subst h1; simp [b2n]
    · by_cases h2 : i < m
      · have : i < m + 1 := by omega
        simp [h1, h2, this, b2n]
      · have : ¬ i < m + 1 := by omega
        simp [h1, h2, this, b2n]

/-- `nsi_outdegree()` with unit node weights is `outdegree() + 1` (the node counts itself). -/
theorem nsiOutdeg_unit (n : Nat) (a : Adj) (i : Nat) (hi : i < n) (hirr : a i i = false) :
    nsiOutdeg n a (fun _ => 1) i = ((outdeg n a i + 1 : Nat) : Rat) := by
  simp only [nsiOutdeg]
  rw [sumToQ_indicator (fun j => aplus a i j) n]
  congr 1
  have hpt : ∀ j, b2n (aplus a i j) = b2n (a i j) + b2n (i == j) := by
    intro j
    by_cases h : i = j
    · subst h; simp [aplus, hirr, b2n]
    · simp [aplus, h, b2n]
  simp only [hpt, sumTo_eq_sumL, sumL_add, outdeg]
  have := sum_diag_indicator i n
  simp only [sumTo_eq_sumL, hi, if_true] at this
  rw [this]

/-- `nsi_indegree()` with unit node weights is `indegree() + 1`. -/
theorem nsiIndeg_unit (n : Nat) (a : Adj) (i : Nat) (hi : i < n) (hirr : a i i = false) :
    nsiIndeg n a (fun _ => 1) i = ((indeg n a i + 1 : Nat) : Rat) := by
  simp only [nsiIndeg]
  rw [sumToQ_indicator (fun j => aplus a j i) n]
  congr 1
  have hpt : ∀ j, b2n (aplus a j i) = b2n (a j i) + b2n (i == j) := by
    intro j
    by_cases h : i = j
    · subst h; simp [aplus, hirr, b2n]
    · have : ¬ j = i := fun e => h e.symm
      simp [aplus, h, this, b2n]
  simp only [hpt, sumTo_eq_sumL, sumL_add, indeg]
  have := sum_diag_indicator i n
  simp only [sumTo_eq_sumL, hi, if_true] at this
  rw [this]

/-- `nsi_degree()` with unit weights: `degree() + 1` on an undirected network and
`indegree() + outdegree() + 2` on a directed one (the code adds the two n.s.i. degrees). -/
theorem nsiDegree_unit (directed : Bool) (n : Nat) (a : Adj) (i : Nat) (hi : i < n)
    (hirr : a i i = false) :
    nsiDegree directed n a (fun _ => 1) i
      = ((degree directed n a i + (if directed then 2 else 1) : Nat) : Rat) := by
  cases directed
  · simp only [nsiDegree, degree, nsiOutdeg_unit n a i hi hirr]; rfl
  · simp only [nsiDegree, degree, nsiOutdeg_unit n a i hi hirr, nsiIndeg_unit n a i hi hirr,
      ← Rat.natCast_add, if_true]
    congr 1; omega

private theorem sumToQ_cast (f : Nat → Nat) (m : Nat) :
    sumToQ m (fun j => ((f j : Nat) : Rat)) = ((sumTo m f : Nat) : Rat) := by
  induction m with
  | zero => simp [sumToQ, sumTo]
  | succ m ih => rw [sumToQ_succ, sumTo_succ, ih, Rat.natCast_add]

/-- `nsi_closeness()` with unit node weights on a node that reaches every node:
`N / (Σ_j d_ij + 1)` — the documented "distance 1 to itself" variant of `(N-1)/Σ_j d_ij`. -/
theorem nsiCloseness_unit (n : Nat) (d : Nat → Nat → Option Nat) (i : Nat) (hi : i < n)
    (hall : ∀ j, j < n → (d i j).isSome = true) :
    nsiCloseness n d (fun _ => 1) i
      = (n : Rat) / (((sumTo n fun j => (d i j).getD 0) + 1 : Nat) : Rat) := by
  have hc : ((List.range n).all fun j => (d i j).isSome) = true := by
    simp only [List.all_eq_true, List.mem_range]; exact hall
  simp only [nsiCloseness, hc, if_true, Rat.one_mul]
  have h1 : ∀ m : Nat, sumToQ m (fun _ => (1 : Rat)) = (m : Rat) := by
    intro m
    induction m with
    | zero => simp [sumToQ]
    | succ m ih => rw [sumToQ_succ, ih, Rat.natCast_add]; simp
  rw [h1 n, sumToQ_cast (fun j => (d i j).getD 0 + (if i = j then 1 else 0)) n]
  congr 2
  have := sum_diag_indicator i n
  simp only [sumTo_eq_sumL, hi, if_true] at this
  simp only [sumTo_eq_sumL, sumL_add]
  rw [show (fun j => if i = j then 1 else 0) = fun j => b2n (i == j) from by
    funext j; by_cases h : i = j <;> simp [h, b2n]]
  rw [this]

/-! ### shortest-path lengths: the frontier BFS returns the length of a shortest walk -/

/-- **`path_lengths()[i,j] = k`** (model: frontier BFS with early exit and fuel `n`) **iff there is a
walk of `k` links from `i` to `j` and none with fewer links.** -/
theorem dist_some_iff (n : Nat) (a : Adj) (i j k : Nat) (hi : i < n) (hj : j < n) :
    dist n a i j = some k ↔ Walk n a i j k ∧ ∀ m, m < k → ¬ Walk n a i j m := by
  rw [dist_eq_lev n a i hi j hj]
  constructor
  · intro h
    exact ((lev_some_iff n a i n j k).mp h).2
  · rintro ⟨w, hmin⟩
    cases hl : lev n a i n j with
    | none => exact absurd w ((lev_none_iff n a i j).mp hl k)
    | some k' =>
      obtain ⟨_, w', hmin'⟩ := (lev_some_iff n a i n j k').mp hl
      have : k' = k := by
        by_cases h1 : k' < k
        · exact absurd w' (hmin k' h1)
        · by_cases h2 : k < k'
          · exact absurd w (hmin' k h2)
          · omega
      rw [this]

/-- **`path_lengths()[i,j] = inf` iff no walk leads from `i` to `j`** (pigeonhole: `n` rounds suffice). -/
theorem dist_none_iff (n : Nat) (a : Adj) (i j : Nat) (hi : i < n) (hj : j < n) :
    dist n a i j = none ↔ ∀ k, ¬ Walk n a i j k := by
  rw [dist_eq_lev n a i hi j hj]
  exact lev_none_iff n a i j

/-- the diagonal of `path_lengths()` is 0 -/
theorem dist_self (n : Nat) (a : Adj) (i : Nat) (hi : i < n) : dist n a i i = some 0 :=
  (dist_some_iff n a i i 0 hi hi).mpr ⟨Walk.nil i, fun m hm => absurd hm (Nat.not_lt_zero m)⟩

/-- finite distances are smaller than the number of nodes -/
theorem dist_lt (n : Nat) (a : Adj) (i j k : Nat) (hi : i < n) (hj : j < n)
    (h : dist n a i j = some k) : k < n := by
  rw [dist_eq_lev n a i hi j hj] at h
  obtain ⟨e, he, hE⟩ := exists_levelEmpty n a i
  -- were `k ≥ n ≥ e`, level `k` would be empty, but `j` sits on it
  have hk := lev_exact n a i h
  apply Classical.byContradiction
  intro hc
  obtain ⟨r, hr⟩ := Nat.exists_eq_add_of_le (show e ≤ k by omega)
  have hEk : LevelEmpty n a i k := by
    rw [hr]
    clear hr hk h hc
    induction r with
    | zero => exact hE
    | succ r ih => exact levelEmpty_succ n a i ih
  exact hEk j hj hk

/-! ### motif clustering: the denominators count the open motifs -/

private theorem sumTo_diag (n j : Nat) (f : Nat → Nat) :
    sumTo n (fun k => if j = k then f k else 0) = if j < n then f j else 0 := by
  induction n with
  | zero => simp [sumTo]
  | succ m ih =>
    rw [sumTo_succ, ih]
    by_cases h1 : j = m
    · subst h1; simp
    · by_cases h2 : j < m
      · have : j < m + 1 := by omega
        simp [h1, h2, this]
      · have : ¬ j < m + 1 := by omega
        simp [h1, h2, this]

private theorem sumTo_congr (n : Nat) (f g : Nat → Nat) (h : ∀ j, j < n → f j = g j) :
    sumTo n f = sumTo n g := by
  simp only [sumTo_eq_sumL]
  exact sumL_congr _ f g (fun x hx => h x (List.mem_range.mp hx))

private theorem b2n_split (p : Bool) (j k : Nat) :
    b2n p = b2n (p && j != k) + (if j = k then b2n p else 0) := by
  by_cases h : j = k <;> cases p <;> simp [h, b2n]

/-- ordered pairs `(j,k)` with `p j ∧ q k` split into those with `j ≠ k` and the diagonal:
`(Σ_j p j)(Σ_k q k) = #{(j,k) : p j ∧ q k ∧ j ≠ k} + #{j : p j ∧ q j}` -/
theorem count_product (n : Nat) (p q : Nat → Bool) :
    (sumTo n fun j => b2n (p j)) * (sumTo n fun k => b2n (q k))
      = countPairs n (fun j k => p j && q k && j != k) + sumTo n fun j => b2n (p j && q j) := by
  simp only [countPairs]
  rw [sumTo_eq_sumL, sumTo_eq_sumL, ← sumL_mul_right]
  simp only [← sumTo_eq_sumL]
  rw [show (sumTo n fun j => sumTo n fun k => b2n (p j && q k && j != k))
        + (sumTo n fun j => b2n (p j && q j))
      = sumTo n fun j => (sumTo n fun k => b2n (p j && q k && j != k)) + b2n (p j && q j) from by
    simp only [sumTo_eq_sumL, sumL_add]]
  apply sumTo_congr
  intro j hj
  rw [sumTo_eq_sumL, ← sumL_mul_left, ← sumTo_eq_sumL]
  have hd := sumTo_diag n j (fun k => b2n (p j && q k))
  simp only [hj, if_true] at hd
  rw [← hd]
  simp only [sumTo_eq_sumL, ← sumL_add]
  apply sumL_congr
  intro k _
  rw [← b2n_and]
  exact b2n_split (p j && q k) j k

/-- **cycle / mid motif denominator**: `k_in·k_out − k_bil` is the number of ordered pairs `(j,k)`,
`j ≠ k`, with `j → i → k` (the open paths through `i` that a link `k → j` resp. `j → k`... closes). -/
theorem TCycle_eq_count (n : Nat) (a : Adj) (i : Nat) :
    TCycle n a i = ((countPairs n fun j k => a j i && a i k && j != k : Nat) : Int) := by
  have h := count_product n (fun j => a j i) (fun k => a i k)
  have hb : bildeg n a i = sumTo n fun j => b2n (a j i && a i j) := by
    simp only [bildeg, mmul, toN, ← b2n_and]
    apply sumTo_congr; intro j _; rw [Bool.and_comm]
  simp only [TCycle, indeg, outdeg, hb]
  have := congrArg (fun x : Nat => (x : Int)) h
  simp only [Int.natCast_mul, Int.natCast_add] at this
  omega

private theorem b2n_self (p : Bool) : b2n (p && p) = b2n p := by cases p <;> rfl

/-- **in motif denominator**: `k_in(k_in−1)` = ordered pairs of distinct in-neighbours. -/
theorem TIn_eq_count (n : Nat) (a : Adj) (i : Nat) :
    TIn n a i = ((countPairs n fun j k => a j i && a k i && j != k : Nat) : Int) := by
  have h := count_product n (fun j => a j i) (fun k => a k i)
  simp only [b2n_self] at h
  simp only [TIn, indeg]
  have := congrArg (fun x : Nat => (x : Int)) h
  simp only [Int.natCast_mul, Int.natCast_add] at this
  generalize ((sumTo n fun j => b2n (a j i) : Nat) : Int) = s at this ⊢
  rw [Int.mul_sub, Int.mul_one, this]; omega

/-- **out motif denominator**: `k_out(k_out−1)` = ordered pairs of distinct out-neighbours. -/
theorem TOut_eq_count (n : Nat) (a : Adj) (i : Nat) :
    TOut n a i = ((countPairs n fun j k => a i j && a i k && j != k : Nat) : Int) := by
  have h := count_product n (fun j => a i j) (fun k => a i k)
  simp only [b2n_self] at h
  simp only [TOut, outdeg]
  have := congrArg (fun x : Nat => (x : Int)) h
  simp only [Int.natCast_mul, Int.natCast_add] at this
  generalize ((sumTo n fun j => b2n (a i j) : Nat) : Int) = s at this ⊢
  rw [Int.mul_sub, Int.mul_one, this]; omega

/-! ### transitivity = 3 · triangles / connected triples -/

/-- number of triangles of the graph (3-subsets of the node set that are mutually linked) -/
def triangleCount (n : Nat) (a : Adj) : Nat := triplesP (clique3 a) (List.range n)
/-- connected triples centred at `i`: 2-subsets of the neighbourhood of `i` -/
def triplesAt (n : Nat) (a : Adj) (i : Nat) : Nat :=
  pairsP (fun j k => a i j && a i k && j != k) (List.range n)

theorem sum_cube_diag_eq_six_triangles (n : Nat) (a : Adj) (h : Simple a) :
    (sumTo n fun i => tCycle n a i) = 6 * triangleCount n a := by
  simp only [triangleCount, ← ordered3_eq _ (clique3_sym3 a h), sumTo_eq_sumL]
  apply sumL_congr; intro i _
  rw [← sumTo_eq_sumL, tCycle_eq_count]
  rfl

theorem TOut_eq_two_triples (n : Nat) (a : Adj) (i : Nat) :
    TOut n a i = ((2 * triplesAt n a i : Nat) : Int) := by
  rw [TOut_eq_count]
  congr 1
  have hs : Sym2 (fun j k => a i j && a i k && j != k) := by
    constructor
    · intro y z
      by_cases hyz : y = z
      · subst hyz; rfl
      · have : ¬ z = y := fun e => hyz e.symm
        have hb : (y != z) = (z != y) := by
          have h1 : (y == z) = false := by simp [hyz]
          have h2 : (z == y) = false := by simp [this]
          simp [bne, h1, h2]
        rw [hb]; cases a i y <;> cases a i z <;> rfl
    · intro y; simp
  exact ordered2_eq _ hs (List.range n)

private theorem sumToI_cast (n : Nat) (f : Nat → Nat) :
    sumToI n (fun i => ((f i : Nat) : Int)) = ((sumTo n f : Nat) : Int) := by
  induction n with
  | zero => simp [sumToI, sumTo]
  | succ m ih => rw [sumToI_succ, sumTo_succ, ih, Int.natCast_add]

/-- **`transitivity()` = 3·#triangles / #connected triples** (written `6T / 2P`; `nan` when the graph
has no connected triple), for the matrix formula `Σ_i (A³)_ii / Σ_i k_i(k_i−1)`. -/
theorem transitivity_eq_def (n : Nat) (a : Adj) (h : Simple a) :
    transitivity n a =
      (let P := sumTo n fun i => triplesAt n a i
       if P = 0 then none
       else some (((6 * triangleCount n a : Nat) : Rat) / ((2 * P : Nat) : Rat))) := by
  have hden : (sumToI n fun i => TOut n a i) = ((2 * (sumTo n fun i => triplesAt n a i) : Nat) : Int) := by
    rw [show (fun i => TOut n a i) = fun i => ((2 * triplesAt n a i : Nat) : Int) from
      funext (TOut_eq_two_triples n a), sumToI_cast]
    congr 1
    simp only [sumTo_eq_sumL, sumL_mul_left]
  simp only [transitivity, hden, sum_cube_diag_eq_six_triangles n a h]
  by_cases hz : (sumTo n fun i => triplesAt n a i) = 0
  · simp [hz]
  · have : ¬ (((2 * (sumTo n fun i => triplesAt n a i) : Nat) : Int) = 0) := by omega
    simp only [this, hz, if_false, Rat.intCast_natCast]

/-! ### vulnerability and average path length: the code's conventions are the definitions -/

/-- **`local_vulnerability()[i] = (E − E_i)/E`** with both efficiencies in their defining form (mean of
`1/d` over ordered pairs; `E_i` on the graph with node `i` deleted and the later nodes renumbered). -/
theorem localVulnerability_eq_def (n : Nat) (a : Adj) (i : Nat) :
    localVulnerability n a i =
      (let E := efficiencyDef n (dist n a)
       let Ei := efficiencyDef (n - 1) (dist (n - 1) (removeNode a i))
       if E = 0 then none else some ((E - Ei) / E)) := by
  simp only [localVulnerability, globalEfficiency_eq_def]

/-- `graph - i` keeps exactly the links between the other nodes: node `x ≠ i` becomes
`x` (if `x < i`) or `x − 1`. -/
theorem removeNode_adj (a : Adj) (i x y : Nat) (hx : x ≠ i) (hy : y ≠ i) :
    removeNode a i (if x < i then x else x - 1) (if y < i then y else y - 1) = a x y := by
  simp only [removeNode]
  have h1 : (if (if x < i then x else x - 1) < i then (if x < i then x else x - 1)
      else (if x < i then x else x - 1) + 1) = x := by
    by_cases h : x < i
    · simp [h]
    · have : ¬ (x - 1 < i) := by omega
      simp only [h, this, if_false]; omega
  have h2 : (if (if y < i then y else y - 1) < i then (if y < i then y else y - 1)
      else (if y < i then y else y - 1) + 1) = y := by
    by_cases h : y < i
    · simp [h]
    · have : ¬ (y - 1 < i) := by omega
      simp only [h, this, if_false]; omega
  rw [h1, h2]

private theorem sumToQ_congr' (n : Nat) (f g : Nat → Rat) (h : ∀ j, j < n → f j = g j) :
    sumToQ n f = sumToQ n g := by
  simp only [sumToQ]
  congr 1
  exact List.map_congr_left (fun x hx => h x (List.mem_range.mp hx))

private theorem sumTo_const_one (n : Nat) : sumTo n (fun _ => 1) = n := by
  induction n with
  | zero => rfl
  | succ m ih => rw [sumTo_succ, ih]

private theorem sumTo_const (n c : Nat) : sumTo n (fun _ => c) = n * c := by
  induction n with
  | zero => simp [sumTo]
  | succ m ih => rw [sumTo_succ, ih, Nat.succ_mul]

private theorem sumTo_add (n : Nat) (f g : Nat → Nat) :
    sumTo n (fun j => f j + g j) = sumTo n f + sumTo n g := by
  simp only [sumTo_eq_sumL, sumL_add]

/-- **`average_path_length(link_attribute)`** — "sum of the matrix with `inf → 0`, divided by
`N(N−1) − #inf`" — **is the mean distance over the ordered pairs `i ≠ j` joined by a path**
(the diagonal of the distance matrix being 0). -/
theorem avgPathLength_eq_def (n : Nat) (d : Nat → Nat → Option Rat)
    (hdiag : ∀ i, i < n → d i i = some 0) :
    avgPathLength n d =
      (let tot := sumToQ n fun i => sumToQ n fun j => if i = j then 0 else (d i j).getD 0
       let cnt := sumTo n fun i => sumTo n fun j => b2n (i != j && (d i j).isSome)
       if cnt = 0 then none else some (tot / (cnt : Rat))) := by
  have htot : (sumToQ n fun i => sumToQ n fun j => (d i j).getD 0)
      = sumToQ n fun i => sumToQ n fun j => if i = j then 0 else (d i j).getD 0 := by
    apply sumToQ_congr'; intro i hi
    apply sumToQ_congr'; intro j _
    by_cases h : i = j
    · subst h; simp [hdiag i hi]
    · simp [h]
  -- every ordered pair is unconnected, connected-and-off-diagonal, or diagonal
  have hcount : (sumTo n fun i => sumTo n fun j => b2n (d i j).isNone)
      + (sumTo n fun i => sumTo n fun j => b2n (i != j && (d i j).isSome)) + n = n * n := by
    have hrow : ∀ i, i < n →
        (sumTo n fun j => b2n (d i j).isNone) + (sumTo n fun j => b2n (i != j && (d i j).isSome)) + 1
          = n := by
      intro i hi
      have h1 := sumTo_diag n i (fun _ => 1)
      simp only [hi, if_true] at h1
      rw [← h1, ← sumTo_add, ← sumTo_add]
      conv => rhs; rw [← sumTo_const_one n]
      apply sumTo_congr; intro j _
      by_cases h : i = j
      · subst h; simp [hdiag i hi, b2n]
      · cases hd : d i j <;> simp [h, b2n]
    have : (sumTo n fun i => ((sumTo n fun j => b2n (d i j).isNone)
        + (sumTo n fun j => b2n (i != j && (d i j).isSome)) + 1)) = sumTo n fun _ => n :=
      sumTo_congr n _ _ hrow
    rw [sumTo_add, sumTo_add, sumTo_const_one] at this
    rw [this]
    exact sumTo_const n n
  simp only [avgPathLength, htot]
  have hden : (((n * (n - 1) : Nat) : Int)
      - ((sumTo n fun i => sumTo n fun j => b2n (d i j).isNone : Nat) : Int))
      = ((sumTo n fun i => sumTo n fun j => b2n (i != j && (d i j).isSome) : Nat) : Int) := by
    have hm : n * (n - 1) = n * n - n := Nat.mul_sub_one n n
    have hle : n ≤ n * n := by
      cases n with
      | zero => simp
      | succ m => exact Nat.le_mul_of_pos_left _ (Nat.succ_pos m)
    omega
  rw [hden]
  by_cases hz : (sumTo n fun i => sumTo n fun j => b2n (i != j && (d i j).isSome)) = 0
  · simp [hz]
  · simp [hz, Rat.intCast_natCast]

/-! ### n.s.i. clustering with unit node weights -/

/-- **`nsi_local_clustering()` with unit node weights is `(2T_i + 3k_i + 1)/(k_i + 1)²`** — the
fraction of linked ordered pairs in the closed neighbourhood `N⁺(i)` — for the matrix formula
`((A D_w A⁺ D_w Aᵀ)_ii + 2 k*_i w_i − w_i²)/k*_i²`. -/
theorem nsiLocalClustering_unit (n : Nat) (a : Adj) (h : Simple a) (i : Nat) (hi : i < n) :
    nsiLocalClustering n a (fun _ => 1) i
      = ((2 * triangles n a i + 3 * outdeg n a i + 1 : Nat) : Rat)
        / (((outdeg n a i + 1) * (outdeg n a i + 1) : Nat) : Rat) := by
  have hk := nsiOutdeg_unit n a i hi (h.irr i)
  have hnum : (sumToQ n fun j => sumToQ n fun l =>
      if (a i j && aplus a j l && a i l) = true then (1 : Rat) * 1 else 0)
      = ((2 * triangles n a i + outdeg n a i : Nat) : Rat) := by
    rw [show (fun j => sumToQ n fun l =>
          if (a i j && aplus a j l && a i l) = true then (1 : Rat) * 1 else 0)
        = fun j => (((sumTo n fun l => b2n (a i j && aplus a j l && a i l)) : Nat) : Rat) from by
      funext j
      rw [← sumToQ_indicator]
      apply sumToQ_congr; intro l; simp]
    rw [sumToQ_cast]
    congr 1
    rw [← cube_diag_eq_two_triangles n a h i, tCycle_eq_count]
    simp only [countPairs, outdeg]
    rw [← sumTo_add]
    apply sumTo_congr; intro j hj
    have hd := sumTo_diag n j (fun _ => b2n (a i j))
    simp only [hj, if_true] at hd
    rw [← hd, ← sumTo_add]
    apply sumTo_congr; intro l _
    by_cases hjl : j = l
    · subst hjl
      simp only [aplus, h.irr j, if_true]
      cases a i j <;> simp [b2n]
    · have : (j == l) = false := by simp [hjl]
      simp only [aplus, this, Bool.or_false, hjl, if_false, h.symm l i]
      omega
  simp only [nsiLocalClustering, hnum, hk]
  congr 1
  · simp only [Rat.natCast_add, Rat.natCast_mul]
    grind
  · simp only [Rat.natCast_mul]

/-! ### assortativity -/

/-- **`assortativity()` is the Pearson correlation coefficient of the degrees at the two ends of a
link** (each link taken in both orientations; `cov/var` over that mirrored list), and the Python loop
raises `ZeroDivisionError` exactly when the coefficient is undefined (no link, or zero variance).
The three accumulators of the loop are the sums of Newman's formula (`Lemmas/NetAlg.lean`). -/
theorem assortativity_eq_pearson (directed : Bool) (n : Nat) (a : Adj) :
    assortativity directed n a = pearsonSym (endDegrees directed n a) :=
  assortativity_eq_pearson' directed n a

/-! ### coreness by peeling -/

/-- one level `k` of the peeling model: (i) it only removes nodes; (ii) it keeps every node set
`S ⊆ alive` of minimum induced degree `≥ k`; (iii) at a fixpoint of the round it has itself minimum
induced degree `≥ k`.  (Round 2's `coreness_peel_partial`; the two missing pieces — fuel and the loop
over `k` — are the next three theorems.) -/
theorem coreness_peel_level (n : Nat) (a : Adj) (directed : Bool) (k fuel : Nat) (alive : List Bool) :
    SubB (peel n a directed k fuel alive) alive ∧
    (∀ S, MinDeg n a directed k S → SubB S alive → SubB S (peel n a directed k fuel alive)) ∧
    (peelStep n a directed k (peel n a directed k fuel alive) = peel n a directed k fuel alive →
      MinDeg n a directed k (peel n a directed k fuel alive)) :=
  ⟨peel_sub n a directed k fuel alive,
   fun S hS hsub => peel_keeps n a directed k S hS fuel alive hsub,
   peelStep_fixpoint n a directed k _⟩

/-- **fuel sufficiency**: every round of the peeling that is not the last one removes a node, so the
fuel `n` the model uses always reaches a fixpoint of the round. -/
theorem coreness_fuel_suffices (n : Nat) (a : Adj) (directed : Bool) (k : Nat) (alive : List Bool)
    (hlen : alive.length = n) :
    peelStep n a directed k (peel n a directed k n alive) = peel n a directed k n alive :=
  peel_reaches_fixpoint n a directed k alive hlen

/-- **one level of the peeling returns the `k`-core inside `alive`**: `v` survives iff it lies in a
subset of `alive` all of whose induced degrees (in + out for directed networks) are `≥ k`. -/
theorem coreness_level_eq_kcore (n : Nat) (a : Adj) (directed : Bool) (k : Nat) (alive : List Bool)
    (hlen : alive.length = n) (v : Nat) :
    (peel n a directed k n alive).getD v false = true ↔
      ∃ S, MinDeg n a directed k S ∧ SubB S alive ∧ S.getD v false = true :=
  peel_eq_core n a directed k alive hlen v

/-- **`coreness()[v] = c` iff `v` is a member of the `c`-core but not of the `(c+1)`-core** (the
docstring's definition; `InCore k v` = `v` lies in some node set all of whose induced degrees are
`≥ k`, i.e. in the maximal such set).  About the peeling model `coreness` (outer loop over `k` with fuel
`2n+1`, inner loop with fuel `n`), for every graph, directed or not; `graph.coreness()` itself is igraph
and is compared with the model on every run. -/
theorem coreness_eq_def (n : Nat) (a : Adj) (directed : Bool) (v c : Nat) (hv : v < n) :
    (coreness n a directed).getD v 0 = c ↔
      (InCore n a directed c v ∧ ¬ InCore n a directed (c + 1) v) := by
  have h := coreness_spec n a directed v hv
  constructor
  · intro hc
    refine ⟨(h c).mpr (by omega), fun hin => ?_⟩
    have := (h (c + 1)).mp hin
    omega
  · rintro ⟨h1, h2⟩
    have := (h c).mp h1
    have : ¬ (c + 1 ≤ (coreness n a directed).getD v 0) := fun hle => h2 ((h (c + 1)).mpr hle)
    omega

/-- every node of a `k`-core has at least `k` links, so no core beyond `2n` exists and the loop over
`k` ends before its fuel does -/
theorem coreness_le (n : Nat) (a : Adj) (directed : Bool) (v : Nat) (hv : v < n) :
    (coreness n a directed).getD v 0 ≤ n * 2 :=
  InCore_bound ((coreness_spec n a directed v hv _).mpr (Nat.le_refl _))

/-! ### (n.s.i.) shortest-path / interregional betweenness: kernel `_nsi_betweenness` (round 3) -/

section Betweenness
open Pyunicorn.NetBetw

/-- **the weighted number of shortest paths is the sum over all enumerated shortest paths of the product
of the node weights** — the recursion over the last link (what `multiplicity_to_j` accumulates in the
kernel's forward phase) evaluated against the definition by enumeration, for every graph, distance
function, weight vector and pair of nodes. -/
theorem pathCount_eq_enumeration (n : Nat) (a : Adj) (w : Nat → Rat) (d : DistFn) (j l : Nat) :
    sigma n a w d j l = sigmaPaths n a w d j l :=
  sigma_eq_sigmaPaths n a w d j l

/-- **the numerator of the pair dependency `σ_js(v)`** (restricted recursion) **is the sum over the
enumerated shortest `j → s` paths that visit `v`.** -/
theorem pathCountThrough_eq_enumeration (n : Nat) (a : Adj) (w : Nat → Rat) (d : DistFn) (j v s : Nat) :
    sigmaThru n a w d j v s = sigmaThruPaths n a w d j v s :=
  sigmaThru_eq_paths n a w d j v s

/-- **index arithmetic of the wrapper and the kernel**: with `k = outdegree`, `offsets[i] = Σ_{i' < i} k[i']`
and `flat_neighbors` = the column indices of the row-major non-zero coordinates, the kernel's inner loop
`for l_index in range(offsets[i], offsets[i] + k[i])` visits exactly the neighbours of `i`, in increasing
order — for every graph and every node. -/
theorem nsiBetweenness_inner_loop_range (n : Nat) (a : Adj) (i : Nat) (hi : i < n) :
    ((flatArr n a).drop ((offsetsOf (degArr n a)).getD i 0)).take ((degArr n a).getD i 0) = nbrs n a i :=
  wrapper_slice n a i hi

/-- **partial.**  Full statement: for every undirected simple graph, positive node weights, source mask
and target list, `nsiBetweenness n a w isSrc targets = nsiBetweennessDef n a w (dist n a) isSrc targets`,
i.e. the kernel returns `b_v = (1/w_v) Σ_{t ∈ targets} Σ_{s source, s ≠ v ≠ t} w_t w_s σ_ts(v)/σ_ts`
(unit weights: interregional betweenness; all nodes as sources and targets: twice the betweenness).
Proved here (for every graph, weight vector, mask and target list): the loop `for j in targets` with its
accumulation `betweenness_times_w += w[j] * (betweenness_to_j − excess_to_j)` and the wrapper's division
by `w` turn per-target sweep results equal to the definition's inner sum into the published double sum.
Together with `pathCount_eq_enumeration`, `pathCountThrough_eq_enumeration` (the definition's counts are
sums over enumerated paths) and `nsiBetweenness_inner_loop_range` (the loop ranges).
Missing: the hypothesis `h` itself — the forward phase leaves the state `FwdOK` (`Lemmas/NetBetwSpec.lean`:
queue = reachable nodes by distance, `multiplicity_to_j = σ`, predecessor slices), the backward sweep then
solves the recursion `BrandesSol`, whose unique solution is `contribDef`.  The equality of the two sides
is compared in exact rational arithmetic inside the Lean model on every run (driver requests `betw` /
`betwdef`), and both are compared with the implementation. -/
theorem nsiBetweenness_eq_def_partial (n : Nat) (a : Adj) (w : Nat → Rat) (isSrc : List Bool)
    (targets : List Nat)
    (h : ∀ j, j ∈ targets → ∀ l, l < n →
      sweepDiff n a w isSrc j l = contribDef n a w (dist n a) isSrc j l) :
    nsiBetweenness n a w isSrc targets = nsiBetweennessDef n a w (dist n a) isSrc targets :=
  nsiBetweenness_assembly n a w isSrc targets (dist n a) h

/-! #### round 5: the kernel proof in full -/

/-- **forward phase of `_nsi_betweenness`** (BFS from target `j` over `flat_neighbors`, recording
`distances_to_j`, the flat predecessor array with its `offsets` stride and the weighted multiplicities):
on the arrays the wrapper hands over, for every undirected network, every weight vector and every target
`j < N`, the loop `while qi < queue_len` (fuel `N`) ends with — the queue = every node reachable from `j`,
once, in the order of non-decreasing true shortest-path distance, `j` first; `distances_to_j` = the BFS
distance of `path_lengths` (`2N` where unreachable); `multiplicity_to_j[v] = σ_jv`, the weighted number of
shortest paths (= sum over enumerated paths by `pathCount_eq_enumeration`); and
`flat_predecessors[offsets[l] : offsets[l] + n_predecessors[l]]` = the predecessors of `l` of the
definition, in queue order.  Symmetry of `A` is what keeps the writes to `flat_predecessors` inside the
slice of `l` (a node has at most `k[l]` predecessors). -/
theorem nsiBetweenness_forward_phase (n : Nat) (a : Adj) (hsym : ∀ x y, a x y = a y x) (w : Nat → Rat)
    (j : Nat) (hj : j < n) :
    FwdOK n a w j (offsetsOf (degArr n a))
      (forward (offsetsOf (degArr n a)) (degArr n a) (flatArr n a) w n 0
        (fwdInit n w (flatArr n a).length j)) :=
  forward_fwdOK n a hsym w j hj

/-- **backward sweep of `_nsi_betweenness`**: run over the reversed queue of any state satisfying the
forward phase's postcondition, the loop leaves in `betweenness_to_j` a solution of Brandes' accumulation
recursion `β(l) = e(l) + Σ_{l' : l predecessor of l'} β(l')·(w(l')/σ(l'))·σ(l)`, `β(j) = 0`, `β = e` on
unreachable nodes, and in `excess_to_j` the initial `is_source·w` (0 at `j`). -/
theorem nsiBetweenness_backward_sweep (n : Nat) (a : Adj) (w : Nat → Rat) (isSrc : List Bool) (j : Nat)
    (hj : j < n) (offsets : List Nat) (s : Fwd) (h : FwdOK n a w j offsets s) :
    let be := s.queue.reverse.foldl (back offsets w j s) (excessInit n w isSrc, excessInit n w isSrc)
    BrandesSol n a w isSrc j (fun l => be.1.getD l 0) ∧
      (∀ l, l < n → be.2.getD l 0 = if l = j then 0 else excess w isSrc l) :=
  back_brandesSol n a w isSrc j hj offsets s h

/-- **the accumulation recursion has the pair-dependency sum as its only solution** (positive node
weights): `β(l) − e(l) = Σ_{s source, s ≠ l, reachable} w_s σ_js(l)/σ_js` for every `l ≠ j`.  Rests on the
first-link decomposition `σ_js(l) = [s = l]σ_jl + Σ_{l' successor of l} σ_jl (w_l'/σ_jl') σ_js(l')`
(`thru_first_link`). -/
theorem brandes_recursion_unique (n : Nat) (a : Adj) (w : Nat → Rat) (isSrc : List Bool) (j : Nat)
    (hj : j < n) (hw : ∀ v, v < n → 0 < w v) (β : Nat → Rat) (hβ : BrandesSol n a w isSrc j β) :
    ∀ l, l < n → l ≠ j → β l - excess w isSrc l = contribDef n a w (dist n a) isSrc j l :=
  brandesSol_eq_contribDef n a w isSrc j hj hw (DistL.dist_self n a j hj)
    (fun l hl h => dist_zero_eq n a j l hj hl h)
    (fun l k hl h => dist_succ_pred n a j l k hj hl h)
    (fun l k hl h => DistL.dist_lt n a j l k hj hl h) β hβ

/-- **kernel `_nsi_betweenness` (with its wrapper) = the published pair-dependency definition**, with no
per-case hypothesis: for every undirected network (symmetric `A`; loops allowed or not), positive node
weights, every source mask and every list of targets `< N` (any order, repetitions counted as the kernel
counts them), `Network._nsi_betweenness` returns
`b_v = (1/w_v) Σ_{t ∈ targets} Σ_{s source, s ≠ v ≠ t} w_t w_s σ_ts(v)/σ_ts`
(unit weights: interregional betweenness; all nodes as sources and targets: twice the shortest-path
betweenness).  This closes `nsiBetweenness_eq_def_partial`. -/
theorem nsiBetweenness_eq_def (n : Nat) (a : Adj) (hsym : ∀ x y, a x y = a y x) (w : Nat → Rat)
    (hw : ∀ v, v < n → 0 < w v) (isSrc : List Bool) (targets : List Nat)
    (ht : ∀ j, j ∈ targets → j < n) :
    nsiBetweenness n a w isSrc targets = nsiBetweennessDef n a w (dist n a) isSrc targets :=
  nsiBetweenness_eq_def_full n a hsym w hw isSrc targets ht

/-- **the kernel against the definition by enumeration**: under the hypotheses of `nsiBetweenness_eq_def`,
entry `v` of `Network._nsi_betweenness` is
`(1/w_v) Σ_{t ∈ targets, t ≠ v} w_t Σ_{s source, s ≠ v} w_s · (Σ_{p shortest t–s path, v ∈ p} Π_{x ∈ p} w_x) /
(Σ_{p shortest t–s path} Π_{x ∈ p} w_x)` with both sums running over the explicitly enumerated shortest
paths (`shortestPaths`) — no recursion on the right-hand side. -/
theorem nsiBetweenness_eq_enumeration (n : Nat) (a : Adj) (hsym : ∀ x y, a x y = a y x) (w : Nat → Rat)
    (hw : ∀ v, v < n → 0 < w v) (isSrc : List Bool) (targets : List Nat)
    (ht : ∀ j, j ∈ targets → j < n) (v : Nat) (hv : v < n) :
    (nsiBetweenness n a w isSrc targets).getD v 0
      = nsiBetweennessEnum n a w (dist n a) isSrc targets v := by
  rw [nsiBetweenness_eq_def n a hsym w hw isSrc targets ht]
  exact nsiBetweennessDef_getD_enum n a w (dist n a) isSrc targets v hv

/-! #### the public methods on top of the kernel -/

/-- **`Network.nsi_betweenness(sources, targets)`** (default `nsi=True`, explicit node lists): the
published n.s.i. betweenness with the network's node weights, sources as a set, targets as listed. -/
theorem nsiBetweennessApi_eq_def (n : Nat) (a : Adj) (hsym : ∀ x y, a x y = a y x) (nodeW : Nat → Rat)
    (hw : ∀ v, v < n → 0 < nodeW v) (S T : List Nat) (hT : ∀ t, t ∈ T → t < n) :
    apiBetweenness n a nodeW (some S) (some T) true
      = nsiBetweennessDef n a nodeW (dist n a) (srcMaskOf n (some S)) T := by
  unfold apiBetweenness
  exact nsiBetweenness_eq_def n a hsym nodeW hw _ T hT

/-- **`interregional_betweenness(sources=S, targets=T)[v]` is the published count**
`Σ_{t ∈ T, t ≠ v} Σ_{s ∈ S, s ≠ v} #(shortest t–s paths through v) / #(shortest t–s paths)` over the
explicitly enumerated shortest paths — whatever node weights the network carries (`nsi=False` replaces
them by ones), for every undirected network. -/
theorem interregionalBetweenness_eq_count (n : Nat) (a : Adj) (hsym : ∀ x y, a x y = a y x)
    (nodeW : Nat → Rat) (S T : List Nat) (hT : ∀ t, t ∈ T → t < n) (v : Nat) (hv : v < n) :
    (interregionalBetweenness n a nodeW (some S) (some T)).getD v 0
      = interregionalCount n a (dist n a) S T v := by
  unfold interregionalBetweenness apiBetweenness
  simp only [Bool.false_eq_true, if_false, Option.getD_some]
  rw [nsiBetweenness_eq_enumeration n a hsym (fun _ => 1) (fun _ _ => by decide) _ T hT v hv]
  exact enum_unit n a (dist n a) S T v

/-- the defaults: `interregional_betweenness()` sums over all ordered pairs of nodes (on an undirected
network: twice the shortest-path betweenness, the docstring's comparison) -/
theorem interregionalBetweenness_default (n : Nat) (a : Adj) (hsym : ∀ x y, a x y = a y x)
    (nodeW : Nat → Rat) (v : Nat) (hv : v < n) :
    (interregionalBetweenness n a nodeW none none).getD v 0
      = interregionalCount n a (dist n a) (List.range n) (List.range n) v := by
  have h := interregionalBetweenness_eq_count n a hsym nodeW (List.range n) (List.range n)
    (fun t ht => List.mem_range.mp ht) v hv
  rw [← h]
  unfold interregionalBetweenness apiBetweenness
  rw [srcMaskOf_none]
  rfl

end Betweenness

/-! ### translator tie: the size expressions of the model are the ones in the current source
(`Pyunicorn.Generated.ArithC03` is regenerated from `network.py` by `translate/gen_arith.py` on every run) -/


/-! #### translator tie of the kernel `_nsi_betweenness` (round 5): the model's loops written with the
conditions, index and range expressions regenerated from the current `numerics.pyx` -/

section KernelTie
open Pyunicorn.NetBetw Pyunicorn.Generated

/-- `relax` (body of `for l_index in range(oi, oi+k[i])`) with `if dl >= next_d`,
`fi = offsets[l] + n_predecessors[l]`, `if dl > next_d` of the current source -/
theorem nsiKernel_relax_tie (offsets : List Nat) (w : Nat → Rat) (i nextD : Nat) (s : Fwd) (l : Nat) :
    relax offsets w i nextD s l =
      (let dl := s.dist.getD l 0
       if ArithC03.nsiOnShortestPath dl nextD then
         let fi := (ArithC03.nsiPredIndex (offsets.getD l 0) (s.npred.getD l 0)).toNat
         let s1 : Fwd := { s with
           npred := s.npred.set l (s.npred.getD l 0 + 1)
           fpred := s.fpred.set fi i
           mult := s.mult.set l (s.mult.getD l 0 + w l * s.mult.getD i 0) }
         if ArithC03.nsiFirstVisit dl nextD then
           { s1 with dist := s1.dist.set l nextD, queue := s1.queue ++ [l] }
         else s1
       else s) := by
  unfold relax
  simp only [ArithC03.nsiOnShortestPath, ArithC03.nsiPredIndex, ArithC03.nsiFirstVisit, ge_iff_le, gt_iff_lt,
    Nat.cast_le, Nat.cast_lt, decide_eq_true_eq, ← Nat.cast_add, Int.toNat_natCast]

/-- one iteration of `while qi < queue_len` with `next_d = distances_to_j[i] + 1` and the loop range
`range(oi, oi+k[i])` of the current source -/
theorem nsiKernel_forward_tie (offsets k flat : List Nat) (w : Nat → Rat) (fuel qi : Nat) (s : Fwd) :
    forward offsets k flat w (fuel + 1) qi s =
      (if qi < s.queue.length then
        let i := s.queue.getD qi 0
        let nextD := (ArithC03.nsiNextD (s.dist.getD i 0)).toNat
        let oi := offsets.getD i 0
        let ls := (flat.take (ArithC03.nsiInnerHi oi (k.getD i 0)).toNat).drop oi
        forward offsets k flat w fuel (qi + 1) (ls.foldl (relax offsets w i nextD) s)
      else s) := by
  simp only [forward, ArithC03.nsiNextD, ArithC03.nsiInnerHi, ← Nat.cast_add, Int.toNat_natCast,
    take_drop_eq]
  rfl

/-- the backward step with `if l == j`, `base_factor = w[l] / multiplicity_to_j[l]` and
`range(ol, ol+n_predecessors[l])` of the current source -/
theorem nsiKernel_back_tie (offsets : List Nat) (w : Nat → Rat) (j : Nat) (s : Fwd)
    (be : List Rat × List Rat) (l : Nat) :
    back offsets w j s be l =
      (if ArithC03.nsiBackIsRoot l j then (be.1.set l 0, be.2.set l 0)
       else
        let base := ArithC03.nsiBaseFactor (w l) (s.mult.getD l 0)
        let ol := offsets.getD l 0
        let ps := (s.fpred.take (ArithC03.nsiBackHi ol (s.npred.getD l 0)).toNat).drop ol
        (ps.foldl (fun b i => b.set i (b.getD i 0 + b.getD l 0 * base * s.mult.getD i 0)) be.1, be.2)) := by
  simp only [back, ArithC03.nsiBackIsRoot, ArithC03.nsiBaseFactor, ArithC03.nsiBackHi, ← Nat.cast_add,
    Int.toNat_natCast, take_drop_eq, Nat.cast_inj, decide_eq_true_eq]

/-- `distances_to_j.fill(2 * N)` -/
theorem nsiKernel_sentinel_tie (n : Nat) (w : Nat → Rat) (T j : Nat) :
    (fwdInit n w T j).dist = (List.replicate n (ArithC03.nsiSentinel n).toNat).set j 0 := by
  simp only [fwdInit, ArithC03.nsiSentinel]
  congr 2

/-- `offsets[i] = offsets[i-1] + k[i-1]` -/
theorem nsiKernel_offsets_tie (k : List Nat) (i : Nat) (hi : i + 1 < k.length) :
    ((offsetsOf k).getD (i + 1) 0 : Int)
      = ArithC03.nsiOffsetStep ((offsetsOf k).getD i 0) (k.getD i 0) := by
  rw [offsetsOf_getD k (i + 1) hi, offsetsOf_getD k i (by omega), sum_take_succ_getD]
  simp [ArithC03.nsiOffsetStep]

/-- `betweenness_times_w += w[j] * (betweenness_to_j - excess_to_j)`, entry by entry -/
theorem nsiKernel_accumulate_tie (n : Nat) (offsets k flat : List Nat) (w : Nat → Rat) (isSrc : List Bool)
    (acc : List Rat) (j l : Nat) (hl : l < n) :
    ((List.range n).map fun l => acc.getD l 0 + (target n offsets k flat w isSrc j).getD l 0).getD l 0
      = (let s := forward offsets k flat w n 0 (fwdInit n w flat.length j)
         let be := s.queue.reverse.foldl (back offsets w j s) (excessInit n w isSrc, excessInit n w isSrc)
         ArithC03.nsiAccumulate (acc.getD l 0) (w j) (be.1.getD l 0) (be.2.getD l 0)) := by
  rw [getD_map_range_rat n _ l hl, target_unfold]
  simp only [ArithC03.nsiAccumulate]
  rw [getD_map_range_rat n _ l hl]

/-- `for ql in range(queue_len-1, -1, -1)` starts at the last queue entry -/
theorem nsiKernel_backstart_tie (s : Fwd) (h : s.queue ≠ []) :
    s.queue.reverse.head? = s.queue[(ArithC03.nsiBackStart s.queue.length).toNat]? := by
  simp only [ArithC03.nsiBackStart, List.head?_reverse]
  rw [List.getLast?_eq_getElem?]
  congr 1
  have : 0 < s.queue.length := List.length_pos_iff.mpr h
  omega

/-- `for ql in range(queue_len-1, -1, -1)`: the indices `queue_len-1, …, 0` with stride `-1`, i.e. the
model's `s.queue.reverse` -/
theorem nsiKernel_backrange_tie (s : Fwd) :
    s.queue.reverse = ((List.range (ArithC03.nsiBackStart s.queue.length - ArithC03.nsiBackStop).toNat).reverse.map
      fun ql => s.queue.getD ql 0) ∧ ArithC03.nsiBackStride = -1 := by
  refine ⟨?_, rfl⟩
  have h : (ArithC03.nsiBackStart s.queue.length - ArithC03.nsiBackStop).toNat = s.queue.length := by
    simp only [ArithC03.nsiBackStart, ArithC03.nsiBackStop]; omega
  rw [h, List.map_reverse]
  congr 1
  apply List.ext_getElem
  · simp
  · intro i h1 h2
    simp [List.getD, h1]

end KernelTie

open Pyunicorn.Generated in
/-- the denominator of the model's `avgPathLength` is the source expression
`self.N * (self.N - 1) - n_unconnected_pairs` -/
theorem avgPathLength_den_tie (n ninf : Nat) :
    (((n * (n - 1) : Nat) : Int) - (ninf : Int)) = ArithC03.aplDenominator n ninf := by
  simp only [ArithC03.aplDenominator]
  cases n with
  | zero => simp
  | succ m => simp only [Nat.add_sub_cancel]; push_cast; ring

open Pyunicorn.Generated in
/-- the pair count `N(N−1)` of the model's `globalEfficiency` is the source expression -/
theorem globalEfficiency_pairs_tie (n : Nat) : ((n * (n - 1) : Nat) : Int) = ArithC03.effPairs n := by
  have := avgPathLength_den_tie n 0
  simpa [ArithC03.aplDenominator, ArithC03.effPairs] using this

open Pyunicorn.Generated in
/-- the model's `localVulnerability` applies the source expression
`(global_efficiency - node_efficiency) / global_efficiency` to the two efficiencies -/
theorem localVulnerability_tie (n : Nat) (a : Adj) (i : Nat) :
    localVulnerability n a i =
      (let E := globalEfficiency n (dist n a)
       let Ei := globalEfficiency (n - 1) (dist (n - 1) (removeNode a i))
       if E = 0 then none else some (ArithC03.vulnerabilityExpr E Ei)) := rfl

open Pyunicorn.Generated in
/-- the model's `matching` applies the source expression `commons / (kk + kk.T - commons)` -/
theorem matching_tie (n : Nat) (a : Adj) (i j : Nat) :
    matching n a i j =
      (let c := mmul n (toN a) (toN a) i j
       if ((outdeg n a i : Int) + (outdeg n a j : Int) - (c : Int)) = 0 then none
       else some (ArithC03.matchingExpr c (outdeg n a i) (outdeg n a j))) := by
  simp only [matching, ArithC03.matchingExpr]
  split
  · rfl
  · simp [Rat.intCast_natCast]

/-! ### non-vacuity: the hypotheses are satisfiable by non-trivial graphs and the counts are not 0 -/

/-- the 5-clique as an adjacency predicate -/
def k5 : Adj := fun i j => decide (i < 5) && decide (j < 5) && i != j

example : Simple k5 := ⟨by intro x y; simp only [k5]; grind, by intro x; simp [k5]⟩
example : triangles 5 k5 0 = 6 := by decide
example : tCycle 5 k5 0 = 12 := by decide
example : k3InNbhd 5 k5 0 = 4 ∧ k4InNbhd 5 k5 0 = 1 := by decide
example : counter4 k5 (nbrs 5 k5 0) = 24 ∧ counter5 k5 (nbrs 5 k5 0) = 24 := by decide
example : cliquishness 4 5 k5 (outdeg 5 k5) = [1, 1, 1, 1, 1] := by decide +kernel
/-- a directed 3-cycle with one chord: the four motif counts differ -/
def d3 : Adj := fun i j => (i, j) ∈ [(0, 1), (1, 2), (2, 0), (0, 2)]
example : (tCycle 3 d3 0, tMid 3 d3 0, tIn 3 d3 0, tOut 3 d3 0) = (1, 0, 0, 1) := by decide
example : bildeg 3 d3 0 = 1 ∧ indeg 3 d3 0 = 1 ∧ outdeg 3 d3 0 = 2 := by decide
example : matching 5 k5 0 1 = some (3 / 5) := by decide +kernel

/-- the path 0–1–2–3 plus the isolated node 4 -/
def p4iso : Adj := fun i j => (i, j) ∈ [(0, 1), (1, 0), (1, 2), (2, 1), (2, 3), (3, 2)]
example : Simple p4iso := ⟨by intro x y; simp only [p4iso]; grind, by intro x; simp only [p4iso]; grind⟩
example : dist 5 p4iso 0 3 = some 3 ∧ dist 5 p4iso 0 4 = none ∧ dist 5 p4iso 4 4 = some 0 := by decide +kernel
example : Walk 5 p4iso 0 2 2 := Walk.snoc (w := 1) (Walk.snoc (w := 0) (Walk.nil 0) (by decide) (by decide)) (by decide) (by decide)
example : transitivity 5 p4iso = some 0 ∧ transitivity 5 k5 = some 1 := by decide +kernel
example : triangleCount 5 k5 = 10 ∧ triplesAt 5 k5 0 = 6 := by decide +kernel
example : (TCycle 3 d3 0, TIn 3 d3 0, TOut 3 d3 0) = (1, 0, 2) := by decide +kernel
example : assortativity false 5 p4iso = some (-1 / 2) := by decide +kernel
example : assortativity false 5 k5 = none := by decide +kernel
example : localVulnerability 5 p4iso 1 = some (8 / 13) := by decide +kernel
example : nsiLocalClustering 5 k5 (fun _ => 1) 0 = 1 := by decide +kernel
example : peel 5 p4iso false 2 5 (List.replicate 5 true) = [false, false, false, false, false]
    ∧ peel 5 k5 false 4 5 (List.replicate 5 true) = [true, true, true, true, true] := by decide +kernel
example : MinDeg 5 k5 false 4 (List.replicate 5 true) :=
  peelStep_fixpoint 5 k5 false 4 _ (by decide +kernel)
example : coreness 5 p4iso false = [1, 1, 1, 1, 0] := by decide +kernel
example : InCore 5 k5 false 4 0 :=
  ⟨List.replicate 5 true, peelStep_fixpoint 5 k5 false 4 _ (by decide +kernel), by decide⟩
example : coreness 5 k5 false = [4, 4, 4, 4, 4] ∧ coreness 3 d3 true = [2, 2, 2] := by decide +kernel
/-- the 4-cycle 0–1–3–2–0: two shortest paths between opposite corners -/
def c4 : Adj := fun i j => (i, j) ∈ [(0, 1), (1, 0), (0, 2), (2, 0), (1, 3), (3, 1), (2, 3), (3, 2)]
def w4 : Nat → Rat := fun i => [1, 2, 1 / 2, 3].getD i 1
example : NetBetw.shortestPaths 4 c4 (dist 4 c4) 0 3 = [[0, 1, 3], [0, 2, 3]] := by decide +kernel
example : NetBetw.sigma 4 c4 w4 (dist 4 c4) 0 3 = 15 / 2
    ∧ NetBetw.sigmaThru 4 c4 w4 (dist 4 c4) 0 1 3 = 6 := by decide +kernel
example : NetBetw.nsiBetweenness 4 c4 w4 [true, true, true, true] [0, 3]
    = NetBetw.nsiBetweennessDef 4 c4 w4 (dist 4 c4) [true, true, true, true] [0, 3] := by decide +kernel
example : NetBetw.sweepDiff 4 c4 w4 [true, true, true, true] 0 1
    = NetBetw.contribDef 4 c4 w4 (dist 4 c4) [true, true, true, true] 0 1 := by decide +kernel
example : NetBetw.nsiBetweenness 4 c4 w4 [true, true, true, true] [0, 3] ≠ [0, 0, 0, 0] := by decide +kernel
/-- the hypotheses of `nsiBetweenness_eq_def` hold for the weighted 4-cycle (symmetric, positive weights,
targets `< 4`), so the theorem applies to an instance where both sides are non-zero -/
theorem c4_symm : ∀ x y, c4 x y = c4 y x := by
  intro x y
  simp only [c4, List.mem_cons, Prod.mk.injEq, List.not_mem_nil, or_false, decide_eq_decide]
  omega
theorem w4_pos : ∀ v, v < 4 → 0 < w4 v := by
  intro v hv
  have : v = 0 ∨ v = 1 ∨ v = 2 ∨ v = 3 := by omega
  rcases this with rfl | rfl | rfl | rfl <;> decide +kernel
example : NetBetw.nsiBetweenness 4 c4 w4 [true, false, true, true] [3, 0, 3]
    = NetBetw.nsiBetweennessDef 4 c4 w4 (dist 4 c4) [true, false, true, true] [3, 0, 3] :=
  nsiBetweenness_eq_def 4 c4 c4_symm w4 w4_pos _ _ (by decide)
example : NetBetw.FwdOK 4 c4 w4 0 (NetBetw.offsetsOf (NetBetw.degArr 4 c4))
    (NetBetw.forward (NetBetw.offsetsOf (NetBetw.degArr 4 c4)) (NetBetw.degArr 4 c4) (NetBetw.flatArr 4 c4)
      w4 4 0 (NetBetw.fwdInit 4 w4 (NetBetw.flatArr 4 c4).length 0)) :=
  nsiBetweenness_forward_phase 4 c4 c4_symm w4 0 (by decide)
example : (NetBetw.nsiBetweenness 4 c4 w4 [true, false, true, true] [3, 0, 3]).getD 1 0
    = NetBetw.nsiBetweennessEnum 4 c4 w4 (dist 4 c4) [true, false, true, true] [3, 0, 3] 1 :=
  nsiBetweenness_eq_enumeration 4 c4 c4_symm w4 w4_pos _ _ (by decide) 1 (by decide)
example : (NetBetw.nsiBetweenness 4 c4 w4 [true, false, true, true] [3, 0, 3]).getD 1 0 ≠ 0 := by
  decide +kernel
example : NetBetw.interregionalCount 4 c4 (dist 4 c4) [0, 3] [3, 0] 1 = 1 := by decide +kernel
example : (NetBetw.interregionalBetweenness 4 c4 w4 (some [0, 3]) (some [3, 0])).getD 1 0
    = NetBetw.interregionalCount 4 c4 (dist 4 c4) [0, 3] [3, 0] 1 :=
  interregionalBetweenness_eq_count 4 c4 c4_symm w4 _ _ (by decide) 1 (by decide)
example : (NetBetw.forward (NetBetw.offsetsOf (NetBetw.degArr 4 c4)) (NetBetw.degArr 4 c4)
      (NetBetw.flatArr 4 c4) w4 4 0 (NetBetw.fwdInit 4 w4 (NetBetw.flatArr 4 c4).length 0)).queue
    = [0, 1, 2, 3] := by decide +kernel
example : avgPathLengthU 5 (dist 5 p4iso) = some (5 / 3) ∧ diameter 5 (dist 5 p4iso) = 3 := by decide +kernel

/-! ## Round 4

### link-weighted motif clustering `local_*motif_clustering(key)` ([Fagiolo2007])

`m` is the matrix `link_attribute(key)**(1/3)`.  The numerators are sums, over the ordered pairs
`(j,k)`, of the product of the three entries of `m` along the motif at `i`; when `m` vanishes
off the links these are sums over exactly the closed motifs the unweighted theorems
(`tCycle_eq_count` …) count; the denominators are the **unweighted** numbers of open motifs
(`TCycle_eq_count`, `TIn_eq_count`, `TOut_eq_count`), literally the source expressions. -/

theorem cycleW_numerator (n : Nat) (m : RMat) (i : Nat) :
    tCycleW n m i = sumToQ n fun j => sumToQ n fun k => m i j * m j k * m k i :=
  mmulQ3_diag n m m m i

theorem midW_numerator (n : Nat) (m : RMat) (i : Nat) :
    tMidW n m i = sumToQ n fun j => sumToQ n fun k => m i j * m k j * m k i :=
  mmulQ3_diag n m (trQ m) m i

theorem inW_numerator (n : Nat) (m : RMat) (i : Nat) :
    tInW n m i = sumToQ n fun j => sumToQ n fun k => m j i * m j k * m k i :=
  mmulQ3_diag n (trQ m) m m i

theorem outW_numerator (n : Nat) (m : RMat) (i : Nat) :
    tOutW n m i = sumToQ n fun j => sumToQ n fun k => m i j * m j k * m i k :=
  mmulQ3_diag n m m (trQ m) i

/-- the weighted cycle numerator sums `(w_ij w_jk w_ki)^(1/3)` over exactly the closed cycle motifs at `i` -/
theorem cycleW_sums_motifs (n : Nat) (a : Adj) (m : RMat) (hm : OnLinks a m) (i : Nat) :
    tCycleW n m i = sumToQ n fun j => sumToQ n fun k =>
      if a i j && a j k && a k i then m i j * m j k * m k i else 0 := by
  rw [cycleW_numerator]
  apply sumToQ_congrLt; intro j _; apply sumToQ_congrLt; intro k _
  exact onLinks_mul3 a m hm _ _ _ _ _ _

theorem midW_sums_motifs (n : Nat) (a : Adj) (m : RMat) (hm : OnLinks a m) (i : Nat) :
    tMidW n m i = sumToQ n fun j => sumToQ n fun k =>
      if a i j && a k j && a k i then m i j * m k j * m k i else 0 := by
  rw [midW_numerator]
  apply sumToQ_congrLt; intro j _; apply sumToQ_congrLt; intro k _
  exact onLinks_mul3 a m hm _ _ _ _ _ _

theorem inW_sums_motifs (n : Nat) (a : Adj) (m : RMat) (hm : OnLinks a m) (i : Nat) :
    tInW n m i = sumToQ n fun j => sumToQ n fun k =>
      if a j i && a j k && a k i then m j i * m j k * m k i else 0 := by
  rw [inW_numerator]
  apply sumToQ_congrLt; intro j _; apply sumToQ_congrLt; intro k _
  exact onLinks_mul3 a m hm _ _ _ _ _ _

theorem outW_sums_motifs (n : Nat) (a : Adj) (m : RMat) (hm : OnLinks a m) (i : Nat) :
    tOutW n m i = sumToQ n fun j => sumToQ n fun k =>
      if a i j && a j k && a i k then m i j * m j k * m i k else 0 := by
  rw [outW_numerator]
  apply sumToQ_congrLt; intro j _; apply sumToQ_congrLt; intro k _
  exact onLinks_mul3 a m hm _ _ _ _ _ _

/-- **`local_cyclemotif_clustering(key)` = Fagiolo's definition**: the sum of the cubic roots of the
weight products over the closed cycle motifs at `i`, divided by the number of ordered pairs
`j → i → k`, `j ≠ k`, of the *unweighted* graph (0 where there is none). -/
theorem cycleCW_eq_def (n : Nat) (a : Adj) (m : RMat) (hm : OnLinks a m) (i : Nat) :
    cycleCW n a m i =
      (let open_ := countPairs n fun j k => a j i && a i k && j != k
       if open_ = 0 then 0 else
         (sumToQ n fun j => sumToQ n fun k =>
            if a i j && a j k && a k i then m i j * m j k * m k i else 0) / (open_ : Rat)) := by
  simp only [cycleCW, ratio0Q, TCycle_eq_count, cycleW_sums_motifs n a m hm]
  by_cases h : countPairs n (fun j k => a j i && a i k && j != k) = 0
  · simp [h]
  · simp [h]

theorem inCW_eq_def (n : Nat) (a : Adj) (m : RMat) (hm : OnLinks a m) (i : Nat) :
    inCW n a m i =
      (let open_ := countPairs n fun j k => a j i && a k i && j != k
       if open_ = 0 then 0 else
         (sumToQ n fun j => sumToQ n fun k =>
            if a j i && a j k && a k i then m j i * m j k * m k i else 0) / (open_ : Rat)) := by
  simp only [inCW, ratio0Q, TIn_eq_count, inW_sums_motifs n a m hm]
  by_cases h : countPairs n (fun j k => a j i && a k i && j != k) = 0
  · simp [h]
  · simp [h]

theorem outCW_eq_def (n : Nat) (a : Adj) (m : RMat) (hm : OnLinks a m) (i : Nat) :
    outCW n a m i =
      (let open_ := countPairs n fun j k => a i j && a i k && j != k
       if open_ = 0 then 0 else
         (sumToQ n fun j => sumToQ n fun k =>
            if a i j && a j k && a i k then m i j * m j k * m i k else 0) / (open_ : Rat)) := by
  simp only [outCW, ratio0Q, TOut_eq_count, outW_sums_motifs n a m hm]
  by_cases h : countPairs n (fun j k => a i j && a i k && j != k) = 0
  · simp [h]
  · simp [h]

theorem midCW_eq_def (n : Nat) (a : Adj) (m : RMat) (hm : OnLinks a m) (i : Nat) :
    midCW n a m i =
      (let open_ := countPairs n fun j k => a j i && a i k && j != k
       if open_ = 0 then 0 else
         (sumToQ n fun j => sumToQ n fun k =>
            if a i j && a k j && a k i then m i j * m k j * m k i else 0) / (open_ : Rat)) := by
  simp only [midCW, ratio0Q, TCycle_eq_count, midW_sums_motifs n a m hm]
  by_cases h : countPairs n (fun j k => a j i && a i k && j != k) = 0
  · simp [h]
  · simp [h]

/-- `key=None` is the special case `m = A`: the weighted model returns the unweighted coefficients -/
theorem motifCW_unweighted (n : Nat) (a : Adj) (i : Nat) :
    cycleCW n a (toQ a) i = cycleC n a i ∧ midCW n a (toQ a) i = midC n a i ∧
    inCW n a (toQ a) i = inC n a i ∧ outCW n a (toQ a) i = outC n a i := by
  have hT : trQ (fun x y => ((toN a x y : Nat) : Rat)) = fun x y => ((tr (toN a) x y : Nat) : Rat) := rfl
  refine ⟨?_, ?_, ?_, ?_⟩
  · simp only [cycleCW, cycleC, ratio0Q, ratio0, tCycleW, tCycle, toQ_eq_cast]
    rw [show mmulQ n (fun x y => ((toN a x y : Nat) : Rat)) (fun x y => ((toN a x y : Nat) : Rat))
          = fun x y => ((mmul n (toN a) (toN a) x y : Nat) : Rat) from
        funext fun x => funext fun y => mmulQ_cast n _ _ x y, mmulQ_cast]
  · simp only [midCW, midC, ratio0Q, ratio0, tMidW, tMid, toQ_eq_cast, hT]
    rw [show mmulQ n (fun x y => ((toN a x y : Nat) : Rat)) (fun x y => ((tr (toN a) x y : Nat) : Rat))
          = fun x y => ((mmul n (toN a) (tr (toN a)) x y : Nat) : Rat) from
        funext fun x => funext fun y => mmulQ_cast n _ _ x y, mmulQ_cast]
  · simp only [inCW, inC, ratio0Q, ratio0, tInW, tIn, toQ_eq_cast, hT]
    rw [show mmulQ n (fun x y => ((tr (toN a) x y : Nat) : Rat)) (fun x y => ((toN a x y : Nat) : Rat))
          = fun x y => ((mmul n (tr (toN a)) (toN a) x y : Nat) : Rat) from
        funext fun x => funext fun y => mmulQ_cast n _ _ x y, mmulQ_cast]
  · simp only [outCW, outC, ratio0Q, ratio0, tOutW, tOut, toQ_eq_cast, hT]
    rw [show mmulQ n (fun x y => ((toN a x y : Nat) : Rat)) (fun x y => ((toN a x y : Nat) : Rat))
          = fun x y => ((mmul n (toN a) (toN a) x y : Nat) : Rat) from
        funext fun x => funext fun y => mmulQ_cast n _ _ x y, mmulQ_cast]

open Pyunicorn.Generated in
/-- the four denominators of the model are literally the expressions `T = …` of the four methods in
the current `network.py` (a `key` threaded into `bildegree(...)` or any other edit breaks this) -/
theorem motif_denominators_tie (n : Nat) (a : Adj) (i : Nat) :
    TCycle n a i = ArithC03.cycleMotifT (indeg n a i) (outdeg n a i) (bildeg n a i) ∧
    TCycle n a i = ArithC03.midMotifT (indeg n a i) (outdeg n a i) (bildeg n a i) ∧
    TIn n a i = ArithC03.inMotifT (indeg n a i) ∧
    TOut n a i = ArithC03.outMotifT (outdeg n a i) := ⟨rfl, rfl, rfl, rfl⟩

/-! ### Newman's random-walk betweenness: kernel, normalisation by the component size, scatter -/

/-- **kernel + wrapper = definition**, for every matrix `V` of potentials, every component size
`N ≥ 2`, every adjacency `b` of the component and every node `i < N`: the four nested loops of
`_mpi_newman_betweenness`, followed by `+= 2 (N-1)` and `/= (N-1)` with `N` the size of the
*component*, give `Σ_{t<s<N} I_i^{st} / ((N-1)/2)` — the current through `i` summed over all pairs
of terminals (unit current at the terminals themselves), normalised by the number of pairs per node. -/
theorem newman_eq_def (N : Nat) (b : Adj) (V : RMat) (i : Nat) (hN : 2 ≤ N) (hi : i < N) :
    newmanNormalise N (newmanRow N (b i) V i) = newmanDef N b V i := by
  have hcur : ∀ s t, current N b V i s t =
      (if i = s ∨ i = t then (1 : Rat) else 0) +
      (1 / 2) * (if i ≠ s ∧ i ≠ t then
        sumToQ N fun j => if b i j then absQ (V i s - V j s - V i t + V j t) else 0 else 0) := by
    intro s t
    unfold current
    by_cases h : i = s ∨ i = t
    · have : ¬ (i ≠ s ∧ i ≠ t) := by
        rcases h with h | h <;> simp [h]
      simp [h, this]
    · have h' : i ≠ s ∧ i ≠ t := by
        constructor <;> intro e <;> exact h (by simp [e])
      rw [if_neg h, if_neg h, if_pos h']
      have : (fun j => if b i j = true then absQ (V i s - V i t - (V j s - V j t)) else 0)
          = fun j => if b i j = true then absQ (V i s - V j s - V i t + V j t) else 0 := by
        funext j
        rw [show V i s - V i t - (V j s - V j t) = V i s - V j s - V i t + V j t by ring]
      rw [this]; ring
  have hsum : (sumToQ N fun s => sumToQ s fun t => current N b V i s t)
      = ((N : Rat) - 1) + (1 / 2) * newmanRow N (b i) V i := by
    rw [newmanRow_eq_pairs]
    have e1 : (fun s => sumToQ s fun t => current N b V i s t) = fun s =>
        (sumToQ s fun t => if i = s ∨ i = t then (1 : Rat) else 0) +
        (1 / 2) * sumToQ s fun t => (if i ≠ s ∧ i ≠ t then
          sumToQ N fun j => if b i j then absQ (V i s - V j s - V i t + V j t) else 0 else 0) := by
      funext s
      rw [← sumToQ_mul_left', ← sumToQ_add']
      exact sumToQ_congrLt s _ _ fun t _ => hcur s t
    rw [e1, sumToQ_add', sumToQ_mul_left', pairs_through, if_pos hi]
  have hne : ((N : Rat) - 1) ≠ 0 := by
    have : (2 : Rat) ≤ (N : Rat) := by exact_mod_cast hN
    intro h; linarith
  unfold newmanDef newmanNormalise
  rw [hsum]
  field_simp
  ring

open Pyunicorn.Generated in
/-- the model's normalisation is the composition of the two source statements
`component_betweenness += 2 * (N - 1)` and `component_betweenness /= (N - 1.0)` of the current
`network.py`, with the same `N` (the component size) in both -/
theorem newmanNormalise_tie (N : Nat) (x : Rat) :
    newmanNormalise N x = ArithC03.newmanDivide (ArithC03.newmanAddEnds x N) N := by
  simp only [newmanNormalise, ArithC03.newmanDivide, ArithC03.newmanAddEnds]
  push_cast
  ring

/-- the kernel's `i_rel`-th output is the row value of node `i_rel + start_i` (how a slice of rows
handed to a worker is mapped back to absolute node indices) -/
theorem newmanKernel_get (thisA : Nat → Nat → Bool) (V : RMat) (N start stop irel : Nat)
    (h : irel < stop - start) :
    (newmanKernel thisA V N start stop)[irel]? = some (newmanRow N (thisA irel) V (irel + start)) := by
  simp [newmanKernel, h]

/-- scatter: a node outside the component keeps its value … -/
theorem scatter_other (res : List Rat) (nodes : List Nat) (vals : List Rat) (v : Nat)
    (hv : v ∉ nodes) : (scatter res nodes vals)[v]? = res[v]? := by
  unfold scatter
  induction nodes generalizing res vals with
  | nil => simp
  | cons x xs ih =>
    cases vals with
    | nil => simp
    | cons y ys =>
      simp only [List.zip_cons_cons, List.foldl_cons]
      have hx : x ≠ v := fun e => hv (by simp [e])
      rw [ih _ _ (fun h => hv (List.mem_cons_of_mem _ h))]
      simp [hx]

/-- … and the `j`-th node of a duplicate-free component receives the `j`-th value
(`newman_betweenness[node] = component_betweenness[j]`) -/
theorem scatter_member (res : List Rat) (nodes : List Nat) (vals : List Rat) (j : Nat)
    (hd : nodes.Nodup) (hl : vals.length = nodes.length) (hj : j < nodes.length)
    (hb : ∀ v ∈ nodes, v < res.length) :
    (scatter res nodes vals)[nodes.getD j 0]? = vals[j]? := by
  unfold scatter
  induction nodes generalizing res vals j with
  | nil => simp at hj
  | cons x xs ih =>
    cases vals with
    | nil => simp at hl
    | cons y ys =>
      simp only [List.zip_cons_cons, List.foldl_cons]
      have hd' := List.nodup_cons.mp hd
      cases j with
      | zero =>
        have := scatter_other (res.set x y) xs ys x hd'.1
        unfold scatter at this
        simp only [List.getD_cons_zero]
        rw [this]
        simp [hb x (by simp)]
      | succ k =>
        simp only [List.getD_cons_succ, List.getElem?_cons_succ]
        exact ih (res.set x y) ys k hd'.2 (by simpa using hl) (by simpa using hj)
          (fun v hv => by simpa using hb v (List.mem_cons_of_mem _ hv))

/-! non-vacuity: path 0–1–2 plus the link 3–4 (two components); unit cube-root weights on `d3` -/
def p3k2 : Adj := fun i j => (i, j) ∈ [(0, 1), (1, 0), (1, 2), (2, 1), (3, 4), (4, 3)]
example : components 5 p3k2 = [[0, 1, 2], [3, 4]] := by decide +kernel
example : newmanBetweenness 5 p3k2 = some [2, 3, 2, 2, 2] := by decide +kernel
example : newmanNormalise 3 (newmanRow 3 (subAdj p3k2 [0, 1, 2] 1)
    (matFn [[1, 1], [1, 2]]) 1) = newmanDef 3 (subAdj p3k2 [0, 1, 2]) (matFn [[1, 1], [1, 2]]) 1 := by
  decide +kernel
example : OnLinks d3 (fun i j => if d3 i j then 2 else 0) := by
  intro x y h; simp [h]
example : cycleCW 3 d3 (fun i j => if d3 i j then 2 else 0) 0 = 8 := by decide +kernel

/-! ### Round 5e: `ratInv` **is** the inverse — no per-case hypothesis

Until round 5 the identity `K · ratInv K = I` was evaluated per case by the driver (request
`newmandef`) and `newman_eq_def` was stated for an arbitrary matrix `V` of potentials.  The
theorems below prove it once and for all (`Lemmas/NetRWInv.lean`: `gaussStep_spec` reads the list
code of one elimination step entry by entry; the invariants are those of C10's
`Coupling.gjInv_step` / `Coupling.kerInv_step`), and restate the Newman theorems with `V` **the**
inverse of the reduced Kirchhoff matrix. -/

/-- `sp_M[:-1, :-1]` is a square `(N-1) × (N-1)` matrix -/
theorem reducedKirchhoff_shape (N : Nat) (b : Adj) :
    Coupling.Shape (reducedKirchhoff N b) (N - 1) (N - 1) := by
  constructor
  · simp [reducedKirchhoff]
  · intro k hk
    unfold reducedKirchhoff
    rw [Coupling.getD_map_range _ _ _ _ hk]; simp

/-- **`ratInv` is correct and two-sided**: for every square rational matrix `m` (any size `N`),
whatever `ratInv m` returns is a left *and* a right inverse of `m`, and has the shape of `m`
(`matFn inv` is `0` outside `N × N`: the padding `V[:-1, :-1] = inv(...)` of the method). -/
theorem ratInv_correct (m inv : List (List Rat)) (N : Nat) (hS : Coupling.Shape m N N)
    (h : ratInv m = some inv) :
    (∀ i j, i < N → j < N →
      sumToQ N (fun l => matFn inv i l * matFn m l j) = (if i = j then 1 else 0) ∧
      sumToQ N (fun l => matFn m i l * matFn inv l j) = (if i = j then 1 else 0)) ∧
    Coupling.Shape inv N N ∧ ∀ i j, N ≤ i ∨ N ≤ j → matFn inv i j = 0 :=
  ⟨fun i j hi hj => ⟨ratInv_left m inv N hS h i j hi hj, ratInv_right m inv N hS h i j hi hj⟩,
   ratInv_shape m inv N hS h, matFn_outside inv N (ratInv_shape m inv N hS h)⟩

/-- **uniqueness**: every matrix `P` with `m · P = I` on the indices `< N` — the specification of
`scipy.sparse.linalg.inv` — has exactly the entries `ratInv m` returns. -/
theorem ratInv_is_the_inverse (m inv : List (List Rat)) (N : Nat) (hS : Coupling.Shape m N N)
    (h : ratInv m = some inv) (P : Nat → Nat → Rat)
    (hP : ∀ i j, i < N → j < N →
      sumToQ N (fun l => matFn m i l * P l j) = if i = j then 1 else 0) :
    ∀ i j, i < N → j < N → P i j = matFn inv i j :=
  ratInv_unique m inv N hS h P hP

/-- **completeness**: `ratInv m = none` exactly for singular `m` (a non-zero vector of the
kernel), and `ratInv m` returns a matrix exactly when `m` has an inverse at all. -/
theorem ratInv_complete (m : List (List Rat)) (N : Nat) (hS : Coupling.Shape m N N) :
    (ratInv m = none ↔
      ∃ v : Nat → Rat, (∃ l, l < N ∧ v l ≠ 0) ∧
        ∀ k, k < N → sumToQ N (fun l => matFn m k l * v l) = 0) ∧
    ((∃ inv, ratInv m = some inv) ↔
      ∃ P : Nat → Nat → Rat, ∀ i j, i < N → j < N →
        sumToQ N (fun l => matFn m i l * P l j) = if i = j then 1 else 0) := by
  refine ⟨ratInv_none_iff m N hS, ?_, ?_⟩
  · intro ⟨inv, h⟩
    exact ⟨matFn inv, fun i j hi hj => ratInv_right m inv N hS h i j hi hj⟩
  · intro ⟨P, hP⟩
    cases h : ratInv m with
    | some inv => exact ⟨inv, rfl⟩
    | none =>
      exfalso
      obtain ⟨v, ⟨l, hl, hne⟩, hk⟩ := (ratInv_none_iff m N hS).mp h
      have hleft := Coupling.left_inverse_is_right P (matFn m) N
        (fun a b ha hb => by rw [cSum_eq]; exact hP a b ha hb)
      exact hne (Coupling.left_inverse_kernel (matFn m) P N hleft v
        (fun k hk' => by rw [cSum_eq]; exact hk k hk') l hl)

/-- **`Network.newman_betweenness` on one component = the definition, with `V` the inverse**:
whenever the model of the method returns values for a component of size `N ≥ 2`, the matrix it
used is a two-sided inverse of the reduced Kirchhoff matrix `(D - A)[:-1, :-1]` of the component,
and node `i` of the component receives `Σ_{t<s<N} I_i^{st} / ((N-1)/2)` evaluated with these
potentials (`newman_eq_def` without the free `V`). -/
theorem newmanComponent_eq_def (a : Adj) (comp : List Nat) (vals : List Rat)
    (hN : 2 ≤ comp.length) (h : newmanComponent a comp = some vals) :
    ∃ inv, ratInv (reducedKirchhoff comp.length (subAdj a comp)) = some inv ∧
      (∀ i j, i < comp.length - 1 → j < comp.length - 1 →
        sumToQ (comp.length - 1) (fun l =>
          matFn (reducedKirchhoff comp.length (subAdj a comp)) i l * matFn inv l j) =
            (if i = j then 1 else 0) ∧
        sumToQ (comp.length - 1) (fun l =>
          matFn inv i l * matFn (reducedKirchhoff comp.length (subAdj a comp)) l j) =
            (if i = j then 1 else 0)) ∧
      vals.length = comp.length ∧
      ∀ i, i < comp.length →
        vals[i]? = some (newmanDef comp.length (subAdj a comp) (matFn inv) i) := by
  unfold newmanComponent at h
  simp only at h
  cases hr : ratInv (reducedKirchhoff comp.length (subAdj a comp)) with
  | none => rw [hr] at h; cases h
  | some inv =>
    rw [hr] at h
    simp only [Option.map_some, Option.some.injEq] at h
    subst h
    refine ⟨inv, rfl, ?_, ?_, ?_⟩
    · intro i j hi hj
      exact ⟨ratInv_right _ inv _ (reducedKirchhoff_shape _ _) hr i j hi hj,
        ratInv_left _ inv _ (reducedKirchhoff_shape _ _) hr i j hi hj⟩
    · simp [newmanKernel]
    · intro i hi
      rw [List.getElem?_map, newmanKernel_get _ _ _ _ _ _ (by omega)]
      exact congrArg some (newman_eq_def _ _ _ _ hN hi)

/-- **… for every correct inverse** (closes "`ratInv` is checked per case only"): let `V` be *any*
matrix with `K · V = I` on `(N-1) × (N-1)` for the reduced Kirchhoff matrix `K` of the component
and zero last row and column (`V = lil_matrix((N, N)); V[:-1, :-1] = inv(K)` for an `inv` that
meets its specification).  Then the values the model of the method returns are the definition
evaluated with `V`. -/
theorem newmanComponent_any_inverse (a : Adj) (comp : List Nat) (vals : List Rat)
    (hN : 2 ≤ comp.length) (h : newmanComponent a comp = some vals) (V : RMat)
    (hV : ∀ i j, i < comp.length - 1 → j < comp.length - 1 →
      sumToQ (comp.length - 1) (fun l =>
        matFn (reducedKirchhoff comp.length (subAdj a comp)) i l * V l j) = if i = j then 1 else 0)
    (hpad : ∀ i j, comp.length - 1 ≤ i ∨ comp.length - 1 ≤ j → V i j = 0) :
    ∀ i, i < comp.length → vals[i]? = some (newmanDef comp.length (subAdj a comp) V i) := by
  obtain ⟨inv, hr, _, _, hvals⟩ := newmanComponent_eq_def a comp vals hN h
  have hS := reducedKirchhoff_shape comp.length (subAdj a comp)
  have e : V = matFn inv := by
    funext i j
    by_cases hij : i < comp.length - 1 ∧ j < comp.length - 1
    · exact ratInv_unique _ inv _ hS hr V hV i j hij.1 hij.2
    · have hor : comp.length - 1 ≤ i ∨ comp.length - 1 ≤ j := by omega
      rw [hpad i j hor, matFn_outside inv _ (ratInv_shape _ inv _ hS hr) i j hor]
  rw [e]; exact hvals

/-- the method fails on a component (`scipy`: "singular matrix") exactly when the reduced
Kirchhoff matrix has a non-zero kernel vector -/
theorem newmanComponent_none_iff (a : Adj) (comp : List Nat) :
    newmanComponent a comp = none ↔
      ∃ v : Nat → Rat, (∃ l, l < comp.length - 1 ∧ v l ≠ 0) ∧
        ∀ k, k < comp.length - 1 → sumToQ (comp.length - 1) (fun l =>
          matFn (reducedKirchhoff comp.length (subAdj a comp)) k l * v l) = 0 := by
  unfold newmanComponent
  simp only [Option.map_eq_none_iff]
  exact ratInv_none_iff _ _ (reducedKirchhoff_shape _ _)

/-! non-vacuity (round 5e): a regular and a singular matrix; a row swap is needed for
`[[0, 1], [1, 0]]`; the path component of `p3k2`; a node set that is not connected -/
example : ratInv [[2, 1], [1, 1]] = some [[1, -1], [-1, 2]] := by decide +kernel
example : ratInv [[0, 1], [1, 0]] = some [[0, 1], [1, 0]] := by decide +kernel
example : ratInv [[1, 1], [1, 1]] = none := by decide +kernel
example : Coupling.Shape [[2, 1], [1, (1 : Rat)]] 2 2 := ⟨rfl, fun k hk => by
  match k, hk with
  | 0, _ => rfl
  | 1, _ => rfl⟩
example : sumToQ 2 (fun l => matFn [[1, 1], [1, 1]] 0 l * (if l = 0 then 1 else -1)) = 0 := by
  decide +kernel
example : reducedKirchhoff 3 (subAdj p3k2 [0, 1, 2]) = [[1, -1], [-1, 2]] := by decide +kernel
example : ratInv (reducedKirchhoff 3 (subAdj p3k2 [0, 1, 2])) = some [[2, 1], [1, 1]] := by
  decide +kernel
example : newmanComponent p3k2 [0, 1, 2] = some [2, 3, 2] := by decide +kernel
example : newmanComponent p3k2 [0, 3] = none := by decide +kernel


/-! ### Round 5h: the reduced Kirchhoff matrix of a connected component **is** regular

Until round 5e the non-singularity of `(D − A)[:-1, :-1]` on a connected component (classically the
matrix-tree theorem) was open: the model returns `Option`, `newmanComponent_none_iff` characterises
the failure.  `Lemmas/NetRWReg.lean` proves it by a maximum principle (adapted from C02's round 5g
`Nsi.newman_grounded_regular`): a kernel vector, extended by `0` at the grounded node, is harmonic
on the non-grounded nodes (`kirchhoff_row_harmonic`), its positive maximum is handed to all
neighbours (`kirchhoff_max_step`) and along a walk to the grounded node (`kirchhoff_max_walk`), so it
is `≤ 0` (`kirchhoff_ker_nonpos`) and, by the same for `−v`, `= 0`.  "Connected" is stated with the
`Walk` of `path_lengths` (`dist_some_iff`): every node reaches the grounded node `N − 1`. -/

/-- **`sp_M[:-1, :-1]` of a connected undirected graph is regular**: no non-zero kernel vector
(any `N`; for `N ≤ 1` the matrix is empty) -/
theorem reducedKirchhoff_regular (N : Nat) (b : Adj) (hsym : ∀ i j, b i j = b j i)
    (hconn : ∀ s, s < N → ∃ k, Walk N b s (N - 1) k) :
    ¬ ∃ v : Nat → Rat, (∃ l, l < N - 1 ∧ v l ≠ 0) ∧
        ∀ k, k < N - 1 → sumToQ (N - 1) (fun l => matFn (reducedKirchhoff N b) k l * v l) = 0 := by
  rintro ⟨v, ⟨l, hl, hne⟩, hker⟩
  exact hne (reducedKirchhoff_kernel_zero N b hsym hconn v hker l hl)

/-- … hence `ratInv` returns its inverse -/
theorem reducedKirchhoff_ratInv_some (N : Nat) (b : Adj) (hsym : ∀ i j, b i j = b j i)
    (hconn : ∀ s, s < N → ∃ k, Walk N b s (N - 1) k) :
    ∃ inv, ratInv (reducedKirchhoff N b) = some inv := by
  cases h : ratInv (reducedKirchhoff N b) with
  | some inv => exact ⟨inv, rfl⟩
  | none =>
    exact absurd ((ratInv_none_iff _ _ (reducedKirchhoff_shape N b)).mp h)
      (reducedKirchhoff_regular N b hsym hconn)

/-- the subgraph of an undirected graph is undirected -/
theorem subAdj_symm (a : Adj) (comp : List Nat) (hsym : ∀ i j, a i j = a j i) :
    ∀ x y, subAdj a comp x y = subAdj a comp y x := fun x y => hsym _ _

/-- the model of the method never fails on a connected node set of an undirected graph -/
theorem newmanComponent_ne_none (a : Adj) (comp : List Nat) (hsym : ∀ i j, a i j = a j i)
    (hconn : ∀ s, s < comp.length →
      ∃ k, Walk comp.length (subAdj a comp) s (comp.length - 1) k) :
    newmanComponent a comp ≠ none := fun h =>
  reducedKirchhoff_regular comp.length (subAdj a comp) (subAdj_symm a comp hsym) hconn
    ((newmanComponent_none_iff a comp).mp h)

/-- **totality of `Network.newman_betweenness` on one component** (`newmanComponent_eq_def` with
existence as a conclusion): for every undirected graph and every connected node set `comp` of size
`N ≥ 2` (every node of the subgraph reaches its last node), the model of the method **returns**
values; the matrix it used is a two-sided inverse of the reduced Kirchhoff matrix of the
component, and node `i` of the component receives `Σ_{t<s<N} I_i^{st} / ((N-1)/2)` evaluated with
these potentials. -/
theorem newmanComponent_total (a : Adj) (comp : List Nat) (hsym : ∀ i j, a i j = a j i)
    (hN : 2 ≤ comp.length)
    (hconn : ∀ s, s < comp.length →
      ∃ k, Walk comp.length (subAdj a comp) s (comp.length - 1) k) :
    ∃ vals inv, newmanComponent a comp = some vals ∧
      ratInv (reducedKirchhoff comp.length (subAdj a comp)) = some inv ∧
      (∀ i j, i < comp.length - 1 → j < comp.length - 1 →
        sumToQ (comp.length - 1) (fun l =>
          matFn (reducedKirchhoff comp.length (subAdj a comp)) i l * matFn inv l j) =
            (if i = j then 1 else 0) ∧
        sumToQ (comp.length - 1) (fun l =>
          matFn inv i l * matFn (reducedKirchhoff comp.length (subAdj a comp)) l j) =
            (if i = j then 1 else 0)) ∧
      vals.length = comp.length ∧
      ∀ i, i < comp.length →
        vals[i]? = some (newmanDef comp.length (subAdj a comp) (matFn inv) i) := by
  cases h : newmanComponent a comp with
  | none => exact absurd h (newmanComponent_ne_none a comp hsym hconn)
  | some vals =>
    obtain ⟨inv, h1, h2, h3, h4⟩ := newmanComponent_eq_def a comp vals hN h
    exact ⟨vals, inv, rfl, h1, h2, h3, h4⟩

/-! non-vacuity (round 5h): `p3k2` is undirected; its path component `[0, 1, 2]` is connected
(walks to the grounded node 2) and the theorem yields its values; the node set `[0, 3]`, on which
the model fails (`newmanComponent p3k2 [0, 3] = none` above), is not connected: node 0 of that
subgraph has no link at all -/
theorem p3k2_symm : ∀ i j, p3k2 i j = p3k2 j i := by
  intro i j
  unfold p3k2
  apply decide_eq_decide.mpr
  simp only [List.mem_cons, Prod.mk.injEq, List.not_mem_nil, or_false]
  omega

theorem p3k2_path_connected :
    ∀ s, s < [0, 1, 2].length → ∃ k, Walk [0, 1, 2].length (subAdj p3k2 [0, 1, 2]) s
      ([0, 1, 2].length - 1) k := by
  intro s hs
  match s, hs with
  | 0, _ => exact ⟨2, Walk.snoc (w := 1) (Walk.snoc (w := 0) (v := 1) (Walk.nil 0) (by decide)
      (by decide)) (by decide) (by decide)⟩
  | 1, _ => exact ⟨1, Walk.snoc (w := 1) (Walk.nil 1) (by decide) (by decide)⟩
  | 2, _ => exact ⟨0, Walk.nil 2⟩

example : ∃ vals, newmanComponent p3k2 [0, 1, 2] = some vals :=
  let ⟨vals, _, h, _⟩ := newmanComponent_total p3k2 [0, 1, 2] p3k2_symm (by decide)
    p3k2_path_connected
  ⟨vals, h⟩
example : ¬ ∃ v : Nat → Rat, (∃ l, l < 3 - 1 ∧ v l ≠ 0) ∧ ∀ k, k < 3 - 1 →
    sumToQ (3 - 1) (fun l => matFn (reducedKirchhoff 3 (subAdj p3k2 [0, 1, 2])) k l * v l) = 0 :=
  reducedKirchhoff_regular 3 _ (subAdj_symm p3k2 _ p3k2_symm) p3k2_path_connected
/-- the hypothesis is needed: on the unconnected node set `[0, 3]` no walk leads from 0 to 1 -/
example : ¬ ∃ k, Walk 2 (subAdj p3k2 [0, 3]) 0 1 k := by
  rintro ⟨k, w⟩
  cases w with
  | snoc w1 hw haw =>
    rename_i x k'
    have : x = 0 ∨ x = 1 := by omega
    rcases this with e | e <;> subst e <;> revert haw <;> decide
/-- the harmonic row of the kernel equation, on the path: row 1 of `[[1, -1], [-1, 2]]` -/
example : matFn (reducedKirchhoff 3 (subAdj p3k2 [0, 1, 2])) 1 1 = 2 := by decide +kernel

end Pyunicorn.Net
