import Pyunicorn.Lemmas.Net
/-!
# C03 — Network measures equal their published definitions

Statements about the model `Pyunicorn.Net` of the measures of
`pyunicorn.core.network.Network` and of the cliquishness kernels
(`core/_ext/numerics.pyx`).  Left-hand sides are the *implementation formulas*
(matrix products, kernel loops), right-hand sides the *definitions* (counts of
neighbours, motifs, triangles, cliques).  The model is tied to the code by the
correspondence in `harness/c03.py`.
-/
namespace Pyunicorn.Net

/-! ### degrees: row / column sums = numbers of neighbours -/

/-- `outdegree()[i]` (row sum of `A`) is the number of nodes `i` links to. -/
theorem outdeg_eq_card (n : Nat) (a : Adj) (i : Nat) : outdeg n a i = (nbrs n a i).length := by
  simp only [outdeg, nbrs, sumTo_eq_sumL, sumL_b2n]

/-- `indegree()[i]` (column sum of `A`) is the number of nodes linking to `i`. -/
theorem indeg_eq_card (n : Nat) (a : Adj) (i : Nat) : indeg n a i = (innbrs n a i).length := by
  simp only [indeg, innbrs, sumTo_eq_sumL, sumL_b2n]

/-- `bildegree()[i] = (A·A)_ii` is the number of nodes linked with `i` in both directions. -/
theorem bildeg_eq_card (n : Nat) (a : Adj) (i : Nat) :
    bildeg n a i = ((List.range n).filter fun j => a i j && a j i).length := by
  simp only [bildeg, mmul, toN, sumTo_eq_sumL, ← b2n_and, sumL_b2n]

/-- on an undirected network the bilateral degree is the degree (docstring of `bildegree`). -/
theorem bildeg_eq_outdeg_of_symm (n : Nat) (a : Adj) (i : Nat) (hs : ∀ j, a i j = a j i) :
    bildeg n a i = outdeg n a i := by
  simp only [bildeg, mmul, toN, outdeg, sumTo_eq_sumL]
  apply sumL_congr
  intro j _
  rw [← hs j]; cases a i j <;> rfl

/-- `degree()` of a directed network counts in- and out-neighbours. -/
theorem degree_directed (n : Nat) (a : Adj) (i : Nat) :
    degree true n a i = (innbrs n a i).length + (nbrs n a i).length := by
  simp [degree, outdeg_eq_card, indeg_eq_card]

/-! ### motif numerators: diagonals of triple products = numbers of ordered motif pairs -/

private theorem triple_diag (n : Nat) (x y z : Nat → Nat → Nat) (i : Nat) :
    mmul n (mmul n x y) z i i = sumTo n fun j => sumTo n fun k => x i j * y j k * z k i := by
  simp only [mmul, sumTo_eq_sumL]
  rw [show (fun k => sumL (List.range n) (fun k_1 => x i k_1 * y k_1 k) * z k i)
      = fun k => sumL (List.range n) (fun j => x i j * y j k * z k i) from by
    funext k; rw [← sumL_mul_right]]
  rw [sumL_comm]

private theorem b2n_and3 (p q r : Bool) : b2n p * b2n q * b2n r = b2n (p && q && r) := by
  cases p <;> cases q <;> cases r <;> rfl

/-- cycle motif: `(A·A·A)_ii` = number of ordered pairs `(j,k)` with `i→j→k→i`. -/
theorem tCycle_eq_count (n : Nat) (a : Adj) (i : Nat) :
    tCycle n a i = countPairs n fun j k => a i j && a j k && a k i := by
  simp only [tCycle, triple_diag, toN, b2n_and3, countPairs]

/-- mid motif: `(A·Aᵀ·A)_ii` = number of ordered pairs `(j,k)` with `i→j`, `k→j`, `k→i`. -/
theorem tMid_eq_count (n : Nat) (a : Adj) (i : Nat) :
    tMid n a i = countPairs n fun j k => a i j && a k j && a k i := by
  simp only [tMid, triple_diag, toN, tr, b2n_and3, countPairs]

/-- in motif: `(Aᵀ·A·A)_ii` = number of ordered pairs `(j,k)` with `j→i`, `j→k`, `k→i`. -/
theorem tIn_eq_count (n : Nat) (a : Adj) (i : Nat) :
    tIn n a i = countPairs n fun j k => a j i && a j k && a k i := by
  simp only [tIn, triple_diag, toN, tr, b2n_and3, countPairs]

/-- out motif: `(A·A·Aᵀ)_ii` = number of ordered pairs `(j,k)` with `i→j`, `j→k`, `i→k`. -/
theorem tOut_eq_count (n : Nat) (a : Adj) (i : Nat) :
    tOut n a i = countPairs n fun j k => a i j && a j k && a i k := by
  simp only [tOut, triple_diag, toN, tr, b2n_and3, countPairs]

/-! ### Laplacian -/

/-- entries: `L_ii = diag_i - A_ii`, `L_ij = -A_ij`. -/
theorem laplacian_offdiag (a : Adj) (dg : Nat → Nat) (i j : Nat) (h : i ≠ j) :
    laplacian a dg i j = -(b2n (a i j) : Int) := by
  simp [laplacian, h]


/-! ### triangles, clustering -/

/-- the graph is undirected and has no self-loops -/
structure Simple (a : Adj) : Prop where
  symm : ∀ x y, a x y = a y x
  irr : ∀ x, a x x = false

/-- `(A³)_ii = 2 · #triangles through i` on an undirected simple graph. -/
theorem cube_diag_eq_two_triangles (n : Nat) (a : Adj) (h : Simple a) (i : Nat) :
    tCycle n a i = 2 * triangles n a i := by
  rw [tCycle_eq_count]
  have hs : Sym2 (fun j k => a i j && a j k && a k i) := by
    constructor
    · intro y z
      rw [h.symm i y, h.symm y z, h.symm z i]
      cases a y i <;> cases a z y <;> cases a i z <;> rfl
    · intro y; simp [h.irr]
  exact ordered2_eq _ hs (List.range n)

/-- Watts–Strogatz clustering: `(A³)_ii / (k_i(k_i-1)) = 2·triangles_i / (k_i (k_i - 1))`,
i.e. the fraction of the `k_i(k_i-1)/2` neighbour pairs that are linked (0 for `k_i < 2`). -/
theorem localClustering_eq (n : Nat) (a : Adj) (h : Simple a) (i : Nat) :
    localClustering n a i = ratio0 (2 * triangles n a i) (TOut n a i) := by
  simp only [localClustering, cube_diag_eq_two_triangles n a h i]

/-! ### cliquishness kernels -/

theorem clique3_sym3 (a : Adj) (h : Simple a) : Sym3 (clique3 a) := by
  refine ⟨?_, fun x => ⟨?_, ?_⟩⟩
  · intro x y z
    simp only [clique3]
    rw [h.symm x y, h.symm y z, h.symm z x]
    cases a y x <;> cases a z y <;> cases a x z <;> rfl
  · intro y z
    simp only [clique3]
    rw [h.symm x y, h.symm y z, h.symm z x]
    cases a y x <;> cases a z y <;> cases a x z <;> rfl
  · intro y; simp [clique3, h.irr]

theorem clique4_sym4 (a : Adj) (h : Simple a) : Sym4 (clique4 a) := by
  refine ⟨?_, fun x => ⟨?_, fun y => ⟨?_, ?_⟩⟩⟩
  · intro x y z u
    simp only [clique4]
    rw [h.symm x y]
    cases a y x <;> cases a x z <;> cases a y z <;> cases a x u <;> cases a y u <;> cases a z u <;> rfl
  · intro y z u
    simp only [clique4]
    rw [h.symm y z]
    cases a x y <;> cases a x z <;> cases a z y <;> cases a x u <;> cases a y u <;> cases a z u <;> rfl
  · intro z u
    simp only [clique4]
    rw [h.symm z u]
    cases a x y <;> cases a x z <;> cases a y z <;> cases a x u <;> cases a y u <;> cases a u z <;> rfl
  · intro z; simp [clique4, h.irr]

private theorem ite_sum (c : Bool) (l : List Nat) (f : Nat → Bool) :
    (if c then sumL l (fun x => b2n (f x)) else 0) = sumL l fun x => b2n (c && f x) := by
  cases c
  · simp [b2n, sumL_zero]
  · simp

private theorem ite_sumN (c : Bool) (l : List Nat) (f g : Nat → Nat)
    (hfg : c = true → ∀ x, f x = g x) (hg : c = false → ∀ x, g x = 0) :
    (if c then sumL l f else 0) = sumL l g := by
  cases c
  · simp [show g = fun _ => 0 from funext (hg rfl), sumL_zero]
  · simp [show f = g from funext (hfg rfl)]

/-- the kernel's three nested loops count every ordered triple of mutually linked nodes of the
buffer: `counter = Σ_{n1,n2,n3} [n1~n2 ∧ n2~n3 ∧ n3~n1]`. -/
theorem counter4_eq_ordered (a : Adj) (nb : List Nat) :
    counter4 a nb = sumL nb fun x => sumL nb fun y => sumL nb fun z => b2n (clique3 a x y z) := by
  simp only [counter4, clique3, ite_sum, Bool.and_assoc]

/-- **4th order**: the loop counter is `3! ·` the number of triangles among the listed nodes. -/
theorem counter4_eq_six_subsets (a : Adj) (h : Simple a) (nb : List Nat) :
    counter4 a nb = 6 * triplesP (clique3 a) nb := by
  rw [counter4_eq_ordered, ordered3_eq _ (clique3_sym3 a h)]

theorem counter5_eq_ordered (a : Adj) (nb : List Nat) :
    counter5 a nb = sumL nb fun x => sumL nb fun y => sumL nb fun z => sumL nb fun u =>
      b2n (clique4 a x y z u) := by
  simp only [counter5]
  apply sumL_congr; intro x _
  apply sumL_congr; intro y _
  apply ite_sumN
  · intro hxy z
    rw [ite_sum]
    apply sumL_congr; intro u _
    simp [clique4, hxy, Bool.and_assoc]
  · intro hxy z
    simp [clique4, hxy, b2n, sumL_zero]

/-- **5th order**: the loop counter is `4! ·` the number of `K₄` among the listed nodes. -/
theorem counter5_eq_24_subsets (a : Adj) (h : Simple a) (nb : List Nat) :
    counter5 a nb = 24 * quadsP (clique4 a) nb := by
  rw [counter5_eq_ordered, ordered4_eq _ (clique4_sym4 a h)]

end Pyunicorn.Net
