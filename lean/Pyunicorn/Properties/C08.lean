import Pyunicorn.Lemmas.LineDist
/-!
# C08 — RQA line statistics are exact run-length counts of the matrix

Statements about the model `Pyunicorn.LineDist` of `_line_dist`
(`timeseries/_ext/numerics.pyx`).  The model is tied to the compiled kernel by
the exact correspondence in `harness/c08.py`.
-/
namespace Pyunicorn.LineDist

/-- `runs` is characterised by four equations: it lists the lengths of the
maximal runs of `true`, in order. -/
theorem runs_nil : runs [] = [] := rfl
theorem runs_false_cons (l : List Bool) : runs (false :: l) = runs l := by
  simp [runs, runsAux]
theorem runs_block_false (a : Nat) (l : List Bool) :
    runs (List.replicate (a + 1) true ++ false :: l) = (a + 1) :: runs l := by
  simp [runs, runsAux_replicate_true, runsAux]
theorem runs_block_end (a : Nat) : runs (List.replicate (a + 1) true) = [a + 1] := by
  have := runsAux_replicate_true 0 (a + 1) []
  simp only [List.append_nil] at this
  simp [runs, this, runsAux]

/-- rows of the matrix as seen by the kernel (`black = true`: recurrence points) -/
def rowsOf (R : Mat) (black : Bool) (n : Nat) : List (List Bool) :=
  (List.range n).map fun i => (List.range n).map fun j => R.at i j == black

/-- the lower sub-diagonals, outermost first, each read from top-left to bottom-right -/
def diagsOf (R : Mat) (n : Nat) : List (List Bool) :=
  (diagCoords n).map fun cs => cs.map fun (I, j) => R.at I j == true

/-- the histogram obtained by direct run-length counting -/
def histOfRuns (lines : List (List Bool)) (n : Nat) : List Nat :=
  (lines.flatMap runs).foldl bump (List.replicate n 0)

private theorem cellsOf_fst (R : Mat) (M : List Bool) (b : Bool) (cs : List (Nat × Nat)) :
    (cellsOf R M b cs).map (·.1) = cs.map fun (I, j) => R.at I j == b := by
  simp [cellsOf, List.map_map, Function.comp_def]

/-- **vertical lines**: the kernel's histogram is the run-length count of the rows. -/
theorem vert_eq_runs (R : Mat) (n : Nat) :
    vertline R n = histOfRuns (rowsOf R true n) n := by
  simp only [vertline, kernel, foldl_subspace_nomv, histOfRuns, rowsOf, vertCoords,
    List.flatMap_map, List.map_map, Function.comp_def, cellsOf_fst]

/-- **white vertical lines**: run-length count of the non-recurrence points of the rows. -/
theorem white_eq_runs (R : Mat) (n : Nat) :
    whiteVertline R n = histOfRuns (rowsOf R false n) n := by
  simp only [whiteVertline, kernel, foldl_subspace_nomv, histOfRuns, rowsOf, vertCoords,
    List.flatMap_map, List.map_map, Function.comp_def, cellsOf_fst]

/-- **diagonal lines**: run-length count of the lower sub-diagonals
(`diagline_dist` doubles this, which is exact for symmetric `R`). -/
theorem diag_eq_runs (R : Mat) (n : Nat) :
    diagline R n = histOfRuns (diagsOf R n) n := by
  simp only [diagline, kernel, foldl_subspace_nomv, histOfRuns, diagsOf,
    List.flatMap_map, cellsOf_fst]

/-- **missing values**: the kernel equals the specification `runsMV`
(lines containing, directly following or directly followed by a missing cell are dropped). -/
theorem vert_mv_eq_runs (R : Mat) (M : List Bool) (n : Nat) :
    vertlineMV R M n
      = (((vertCoords n).map (cellsOf R M true)).flatMap runsMV).foldl bump
          (List.replicate n 0) := by
  simp only [vertlineMV, kernel, foldl_subspace_mv]

theorem diag_mv_eq_runs (R : Mat) (M : List Bool) (n : Nat) :
    diaglineMV R M n
      = (((diagCoords n).map (cellsOf R M true)).flatMap runsMV).foldl bump
          (List.replicate n 0) := by
  simp only [diaglineMV, kernel, foldl_subspace_mv]

/-- without any missing cell the missing-value specification is the plain one -/
theorem runsMVAux_no_miss (k : Nat) (l : List Bool) :
    runsMVAux k false (l.map fun b => (b, false)) = runsAux k l := by
  induction l generalizing k with
  | nil => by_cases hk : k = 0 <;> simp [runsMVAux, runsAux, hk]
  | cons b t ih => cases b <;> simp [runsMVAux, runsAux, ih]

/-- a line directly followed by a missing cell is not counted, and everything
up to the next white cell after it is skipped -/
example : runsMV [(true, false), (true, false), (false, true), (true, false), (false, false),
    (true, false)] = [1] := by decide

/-! ### every diagonal cell is visited exactly once -/

theorem diagCoords_mem (n I j : Nat) :
    (I, j) ∈ (diagCoords n).flatten ↔ j < I ∧ I < n := by
  simp only [diagCoords, List.mem_flatten, List.mem_map, List.mem_range]
  constructor
  · rintro ⟨l, ⟨i, hi, rfl⟩, hmem⟩
    simp only [List.mem_map, List.mem_range, Prod.mk.injEq] at hmem
    obtain ⟨j', hj', h1, h2⟩ := hmem
    omega
  · rintro ⟨h1, h2⟩
    refine ⟨_, ⟨n - 1 - (I - j), by omega, rfl⟩, ?_⟩
    simp only [List.mem_map, List.mem_range, Prod.mk.injEq]
    exact ⟨j, by omega, by omega, rfl⟩

theorem diagCoords_count (n I j : Nat) (h1 : j < I) (h2 : I < n) :
    (diagCoords n).flatten.count (I, j) = 1 := by
  -- the cell lies in sub-diagonal i₀ = n-1-(I-j) at position j and nowhere else
  have key : ∀ (m : Nat), m ≤ n - 1 →
      (((List.range m).map fun i => (List.range (i + 1)).map
          fun j' => ((n - 1) - i + j', j')).flatten.count (I, j))
        = if n - 1 - (I - j) < m then 1 else 0 := by
    intro m hm
    induction m with
    | zero => simp
    | succ m ih =>
      rw [List.range_succ, List.map_append, List.flatten_append, List.count_append,
        ih (by omega)]
      simp only [List.map_cons, List.map_nil, List.flatten_cons, List.flatten_nil,
        List.append_nil]
      have hc : ((List.range (m + 1)).map fun j' => ((n - 1) - m + j', j')).count (I, j)
          = if n - 1 - (I - j) = m then 1 else 0 := by
        by_cases hm' : n - 1 - (I - j) = m
        · rw [if_pos hm']
          have hI : I = n - 1 - m + j := by omega
          subst hI
          have hinj : ∀ (k : Nat) (a b : Nat), b < k →
              ((List.range k).map fun j' => (a + j', j')).count (a + b, b) = 1 := by
            intro k a b hb
            induction k with
            | zero => omega
            | succ k ihk =>
              rw [List.range_succ, List.map_append, List.count_append]
              by_cases hbk : b = k
              · subst hbk
                have : ((List.range b).map fun j' => (a + j', j')).count (a + b, b) = 0 := by
                  rw [List.count_eq_zero]
                  simp only [List.mem_map, List.mem_range, Prod.mk.injEq, not_exists, not_and]
                  intro x hx _; omega
                simp [this]
              · rw [ihk (by omega)]
                have : (a + k, k) ≠ (a + b, b) := by
                  intro h; simp only [Prod.mk.injEq] at h; omega
                simp [this]
          exact hinj (m + 1) (n - 1 - m) j (by omega)
        · rw [if_neg hm', List.count_eq_zero]
          simp only [List.mem_map, List.mem_range, Prod.mk.injEq, not_exists, not_and]
          intro x _ hx1 hx2; subst hx2; omega
      rw [hc]
      by_cases h3 : n - 1 - (I - j) < m
      · have : ¬ n - 1 - (I - j) = m := by omega
        simp [h3, this]; omega
      · by_cases h4 : n - 1 - (I - j) = m
        · simp [h4]
        · have : ¬ n - 1 - (I - j) < m + 1 := by omega
          simp [h3, h4, this]
  have := key (n - 1) (Nat.le_refl _)
  simp only [diagCoords]
  rw [this, if_pos (by omega)]

/-! ### accounting: every (non-)recurrence point lies on exactly one counted line -/

def countIn (lines : List (List Bool)) : Nat := (lines.map (·.count true)).sum

theorem wsum_histOfRuns (lines : List (List Bool)) (n : Nat)
    (hlen : ∀ l ∈ lines, l.length ≤ n) :
    wsum (histOfRuns lines n) = countIn lines := by
  unfold histOfRuns
  rw [wsum_foldl_bump]
  · simp only [wsum, wsumFrom_replicate, Nat.zero_add, countIn]
    induction lines with
    | nil => simp
    | cons l t ih =>
      simp only [List.flatMap_cons, List.sum_append, runs_sum, List.map_cons, List.sum_cons]
      rw [ih (fun l' hl' => hlen l' (by simp [hl']))]
  · intro x hx
    simp only [List.mem_flatMap] at hx
    obtain ⟨l, hl, hx⟩ := hx
    have := runs_bounds l x hx
    have := hlen l hl
    simp; omega

theorem rowsOf_len (R : Mat) (b : Bool) (n : Nat) : ∀ l ∈ rowsOf R b n, l.length ≤ n := by
  intro l hl
  simp only [rowsOf, List.mem_map, List.mem_range] at hl
  obtain ⟨i, _, rfl⟩ := hl
  simp

theorem diagsOf_len (R : Mat) (n : Nat) : ∀ l ∈ diagsOf R n, l.length ≤ n := by
  intro l hl
  simp only [diagsOf, diagCoords, List.mem_map, List.mem_range] at hl
  obtain ⟨cs, ⟨i, hi, rfl⟩, rfl⟩ := hl
  simp; omega

/-- `Σ_l l·P_vert(l)` = number of recurrence points of the `n×n` matrix. -/
theorem vert_accounts_black (R : Mat) (n : Nat) :
    wsum (vertline R n) = countIn (rowsOf R true n) := by
  rw [vert_eq_runs, wsum_histOfRuns _ _ (rowsOf_len R true n)]

/-- `Σ_l l·P_white(l)` = number of non-recurrence points. -/
theorem white_accounts_white (R : Mat) (n : Nat) :
    wsum (whiteVertline R n) = countIn (rowsOf R false n) := by
  rw [white_eq_runs, wsum_histOfRuns _ _ (rowsOf_len R false n)]

/-- `Σ_l l·P_diag(l)` = number of recurrence points strictly below the main diagonal. -/
theorem diag_accounts_black (R : Mat) (n : Nat) :
    wsum (diagline R n) = countIn (diagsOf R n) := by
  rw [diag_eq_runs, wsum_histOfRuns _ _ (diagsOf_len R n)]

private theorem count_true_add_false (f : Nat → Bool) (n : Nat) :
    ((List.range n).map fun j => f j == true).count true
      + ((List.range n).map fun j => f j == false).count true = n := by
  induction n with
  | zero => simp
  | succ n ih =>
    simp only [List.range_succ, List.map_append, List.count_append, List.map_cons, List.map_nil]
    cases h : f n <;> simp at ih ⊢ <;> omega

/-- black and white vertical lines together account for every cell exactly once. -/
theorem vert_white_account_all (R : Mat) (n : Nat) :
    wsum (vertline R n) + wsum (whiteVertline R n) = n * n := by
  rw [vert_accounts_black, white_accounts_white]
  simp only [countIn, rowsOf, List.map_map, Function.comp_def]
  have : ∀ m : Nat, (((List.range m).map fun i =>
      ((List.range n).map fun j => R.at i j == true).count true).sum)
      + (((List.range m).map fun i =>
      ((List.range n).map fun j => R.at i j == false).count true).sum) = m * n := by
    intro m
    induction m with
    | zero => simp
    | succ m ih =>
      simp only [List.range_succ, List.map_append, List.sum_append, List.map_cons, List.map_nil,
        List.sum_cons, List.sum_nil, Nat.add_zero]
      have := count_true_add_false (fun j => R.at m j) n
      rw [Nat.succ_mul]; omega
  exact this n

/-- **sequential mode = matrix mode** whenever the on-the-fly predicate
`metric(I,j) < eps` coincides with the stored matrix: the kernel only ever
looks at the cell predicate. -/
theorem sequential_eq_matrix (R R' : Mat) (n : Nat)
    (h : ∀ I j, I < n → j < n → R'.at I j = R.at I j) :
    vertline R' n = vertline R n ∧ diagline R' n = diagline R n := by
  constructor
  · rw [vert_eq_runs, vert_eq_runs]
    congr 1
    simp only [rowsOf]
    apply List.map_congr_left
    intro i hi
    apply List.map_congr_left
    intro j hj
    rw [h i j (List.mem_range.mp hi) (List.mem_range.mp hj)]
  · rw [diag_eq_runs, diag_eq_runs]
    congr 1
    simp only [diagsOf, diagCoords, List.map_map]
    apply List.map_congr_left
    intro i hi
    simp only [Function.comp_def, List.map_map]
    apply List.map_congr_left
    intro j hj
    have hi' := List.mem_range.mp hi
    have hj' := List.mem_range.mp hj
    rw [h _ _ (by omega) (by omega)]

/-! ### scalar measures are functions of the histogram -/

theorem partialWsumFrom_le (i lmin : Nat) (h : List Nat) :
    partialWsumFrom i lmin h ≤ wsumFrom i h := by
  induction h generalizing i with
  | nil => simp [partialWsumFrom, wsumFrom]
  | cons a t ih =>
    simp only [partialWsumFrom, wsumFrom]
    have := ih (i + 1)
    split <;> omega

/-- the numerator of DET / LAM never exceeds the denominator: the ratios lie in `[0,1]`. -/
theorem partialWsum_le_wsum (lmin : Nat) (h : List Nat) : partialWsum lmin h ≤ wsum h :=
  partialWsumFrom_le 0 lmin h

theorem partialWsumFrom_one (i : Nat) (h : List Nat) :
    partialWsumFrom i 1 h = wsumFrom i h := by
  induction h generalizing i with
  | nil => simp [partialWsumFrom, wsumFrom]
  | cons a t ih => simp [partialWsumFrom, wsumFrom, ih]

/-- with `l_min = 1` numerator and denominator coincide (DET = LAM = 1 on a non-empty plot). -/
theorem partialWsum_one (h : List Nat) : partialWsum 1 h = wsum h := partialWsumFrom_one 0 h

theorem partialCountFrom_mul_le (i lmin : Nat) (h : List Nat) :
    lmin * partialCountFrom i lmin h ≤ partialWsumFrom i lmin h := by
  induction h generalizing i with
  | nil => simp [partialWsumFrom, partialCountFrom]
  | cons a t ih =>
    simp only [partialWsumFrom, partialCountFrom]
    have := ih (i + 1)
    split
    · rename_i hge
      have : lmin * a ≤ (i + 1) * a := Nat.mul_le_mul_right a hge
      rw [Nat.mul_add]; omega
    · simpa using this

/-- average line lengths (L, TT, mean recurrence time) are at least `l_min`:
`l_min · #lines ≤ Σ l·P(l)` over the lines of length `≥ l_min`. -/
theorem avg_ge_lmin (lmin : Nat) (h : List Nat) :
    lmin * partialCount lmin h ≤ partialWsum lmin h := partialCountFrom_mul_le 0 lmin h

theorem partialWsumFrom_antitone (i a b : Nat) (hab : a ≤ b) (h : List Nat) :
    partialWsumFrom i b h ≤ partialWsumFrom i a h := by
  induction h generalizing i with
  | nil => simp [partialWsumFrom]
  | cons x t ih =>
    simp only [partialWsumFrom]
    have := ih (i + 1)
    split <;> split <;> omega

/-- raising `l_min` can only lower DET / LAM. -/
theorem partialWsum_antitone (a b : Nat) (hab : a ≤ b) (h : List Nat) :
    partialWsum b h ≤ partialWsum a h := partialWsumFrom_antitone 0 a b hab h

theorem maxLenFrom_spec (i : Nat) (h : List Nat) :
    (maxLenFrom i h = 0 ∧ ∀ x ∈ h, x = 0) ∨
    (∃ k, k < h.length ∧ maxLenFrom i h = i + k + 1 ∧ h[k]? ≠ some 0 ∧
      ∀ j, k < j → j < h.length → h[j]? = some 0) := by
  induction h generalizing i with
  | nil => left; simp [maxLenFrom]
  | cons a t ih =>
    simp only [maxLenFrom]
    rcases ih (i + 1) with ⟨h0, hall⟩ | ⟨k, hk, hm, hne, hz⟩
    · rw [h0]
      by_cases ha : a = 0
      · left; subst ha; simp; exact hall
      · right
        refine ⟨0, by simp, by simp [ha], by simp [ha], ?_⟩
        intro j hj hjl
        cases j with
        | zero => omega
        | succ j =>
          simp only [List.length_cons] at hjl
          have hjt : j < t.length := by omega
          simp only [List.getElem?_cons_succ]
          rw [List.getElem?_eq_getElem hjt, hall _ (List.getElem_mem hjt)]
    · right
      refine ⟨k + 1, by simp; omega, ?_, by simpa using hne, ?_⟩
      · rw [hm]; simp; omega
      · intro j hj hjl
        cases j with
        | zero => omega
        | succ j =>
          simp only [List.length_cons] at hjl
          simpa using hz j (by omega) (by omega)

/-- `max_*length`: `0` on an all-zero histogram, otherwise the position (1-based length) of the
last non-zero entry. -/
theorem maxLen_spec (h : List Nat) :
    (maxLen h = 0 ∧ ∀ x ∈ h, x = 0) ∨
    (∃ k, k < h.length ∧ maxLen h = k + 1 ∧ h[k]? ≠ some 0 ∧
      ∀ j, k < j → j < h.length → h[j]? = some 0) := by
  have := maxLenFrom_spec 0 h
  simpa [maxLen] using this

theorem entropyWeightsFrom_sum (i lmin : Nat) (h : List Nat) :
    (entropyWeightsFrom i lmin h).sum = partialCountFrom i lmin h := by
  induction h generalizing i with
  | nil => simp [entropyWeightsFrom, partialCountFrom]
  | cons a t ih =>
    simp only [entropyWeightsFrom, partialCountFrom]
    split
    · rename_i hc; simp [ih, hc.1]
    · rename_i hc
      rw [ih]
      by_cases hge : i + 1 ≥ lmin
      · have ha : a = 0 := Decidable.byContradiction fun hne => hc ⟨hge, hne⟩
        rw [if_pos hge, ha]; omega
      · rw [if_neg hge]; omega

/-- the line-length probabilities of the entropies are a distribution over the lines of
length `≥ l_min`: positive weights whose total is the number of such lines. -/
theorem entropyWeights_sum (lmin : Nat) (h : List Nat) :
    (entropyWeights lmin h).sum = partialCount lmin h := entropyWeightsFrom_sum 0 lmin h

theorem entropyWeightsFrom_pos (i lmin : Nat) (h : List Nat) :
    ∀ x ∈ entropyWeightsFrom i lmin h, 0 < x := by
  induction h generalizing i with
  | nil => simp [entropyWeightsFrom]
  | cons a t ih =>
    simp only [entropyWeightsFrom]
    split
    · rename_i hc
      intro x hx
      rcases List.mem_cons.mp hx with rfl | hx
      · exact Nat.pos_of_ne_zero hc.2
      · exact ih _ x hx
    · exact ih _

theorem entropyWeights_pos (lmin : Nat) (h : List Nat) :
    ∀ x ∈ entropyWeights lmin h, 0 < x := entropyWeightsFrom_pos 0 lmin h

/-- DET on the matrix: its numerator counts at most the recurrence points below the main
diagonal, its denominator exactly those. -/
theorem det_bounds (R : Mat) (n lmin : Nat) :
    (scalars lmin (diagline R n)).ratioNum ≤ (scalars lmin (diagline R n)).ratioDen ∧
    (scalars lmin (diagline R n)).ratioDen = countIn (diagsOf R n) := by
  simp only [scalars, partialWsum_one]
  exact ⟨partialWsum_le_wsum _ _, diag_accounts_black R n⟩

/-- LAM on the matrix: denominator = number of recurrence points. -/
theorem lam_bounds (R : Mat) (n vmin : Nat) :
    (scalars vmin (vertline R n)).ratioNum ≤ (scalars vmin (vertline R n)).ratioDen ∧
    (scalars vmin (vertline R n)).ratioDen = countIn (rowsOf R true n) := by
  simp only [scalars, partialWsum_one]
  exact ⟨partialWsum_le_wsum _ _, vert_accounts_black R n⟩

/-! ### non-vacuity -/
example : (scalars 2 [3, 2, 0, 1]).ratioNum = 8 ∧ (scalars 2 [3, 2, 0, 1]).ratioDen = 11 ∧
    (scalars 2 [3, 2, 0, 1]).avgDen = 3 ∧ (scalars 2 [3, 2, 0, 1]).maxLen = 4 ∧
    (scalars 2 [3, 2, 0, 1]).weights = [2, 1] := by decide
example : vertline [[true, true, false], [true, true, true], [false, true, true]] 3 = [0, 2, 1] := by
  decide
example : diagline [[true, true, false], [true, true, true], [false, true, true]] 3 = [0, 1, 0] := by
  decide
example : wsum (vertline [[true, true, false], [true, true, true], [false, true, true]] 3) = 7 := by
  decide

end Pyunicorn.LineDist
